/- Line protocol helpers shared by all drivers (core Lean only). -/
namespace Driver

def splitObs (line : String) : String × String :=
  match line.splitOn " => " with
  | [a] => (a, "")
  | a :: rest => (a, " => ".intercalate rest)
  | [] => ("", "")

def words (s : String) : List String := (s.splitOn " ").filter (· ≠ "")

def nat! (s : String) : Nat := s.toNat?.getD 0

/-- contents of the first `[ ... ]` group after `tag`, as words -/
def bracket (ws : List String) : List String × List String :=
  -- ws starts with a token beginning with "["; collect until token ending with "]"
  let rec go (acc : List String) : List String → List String × List String
    | [] => (acc.reverse, [])
    | w :: rest =>
      let w' := (w.replace "[" "").replace "]" ""
      let acc' := if w' = "" then acc else w' :: acc
      if w.endsWith "]" then (acc'.reverse, rest) else go acc' rest
  go [] ws

structure CaseIn where
  num    : Nat
  header : List String          -- words after "case <n>"
  lines  : Array (Nat × String) -- (line number, text), comments removed

/-- A driver turns one case into report lines: "DIFF ...", "ORACLE-FAIL ...", "KNOWN ..." -/
abbrev CaseFn := CaseIn → Array String

partial def readAll (h : IO.FS.Stream) (acc : Array String) : IO (Array String) := do
  let l ← h.getLine
  if l.isEmpty then return acc
  readAll h (acc.push ((l.dropEndWhile (· == '\n')).toString))

def groupCases (lines : Array String) : Array CaseIn := Id.run do
  let mut out : Array CaseIn := #[]
  let mut cur : Option CaseIn := none
  let mut ln := 0
  for l in lines do
    ln := ln + 1
    if l.startsWith "#" || l.isEmpty then continue
    if l.startsWith "case " then
      if let some c := cur then out := out.push c
      let ws := words l
      cur := some { num := nat! (ws.getD 1 "0"), header := ws.drop 2, lines := #[] }
    else
      if let some c := cur then cur := some { c with lines := c.lines.push (ln, l) }
  if let some c := cur then out := out.push c
  return out

end Driver
