/- C18 line-protocol driver: every distinct race-detector report of a workload on the real code is a failure of the
property on the implementation's own execution (there is no model to compare with).
  race <k> => <func1>|<func2> <kinds>      -> ORACLE-FAIL C18 shape=<func1>|<func2>
  run <workload> => HANG deadlock:<w> …    -> ORACLE-FAIL C18 shape=deadlock:<w>   (the workload stopped making progress)
  run <workload> => CRASH …                -> ORACLE-FAIL C18 shape=crash:<w>
  build => UNAVAILABLE …                   -> DIFF (the race build could not be produced: broken tie) -/
import Driver.Proto
namespace Driver.Drv.Race
open Driver

def runCase : CaseFn := fun c => Id.run do
  let mut out : Array String := #[]
  let wl := " ".intercalate c.header
  for (ln, line) in c.lines do
    let (opS, obsS) := splitObs line
    let ws := words opS
    let obs := words obsS
    match ws, obs with
    | ["race", "none"], ["clean"] => pure ()
    | "race" :: _ :: [], pair :: kinds =>
      out := out.push s!"ORACLE-FAIL C18 case {c.num} line {ln}: shape={pair} data race reported by the Go race detector in workload <{wl}>: {pair} ({" ".intercalate kinds})"
    | ["run", w], "HANG" :: label :: rest =>
      out := out.push s!"ORACLE-FAIL C18 case {c.num} line {ln}: shape={label} workload {w} stopped making progress under concurrent API use ({" ".intercalate rest})"
    | ["run", w], "CRASH" :: rest =>
      out := out.push s!"ORACLE-FAIL C18 case {c.num} line {ln}: shape=crash:{w} workload crashed: {" ".intercalate rest}"
    | ["build"], _ =>
      out := out.push s!"DIFF C18 case {c.num} line {ln}: race-enabled build unavailable: {obsS}"
    | _, _ =>
      out := out.push s!"DIFF C18 case {c.num} line {ln}: unparsable line <{line}>"
  return out

end Driver.Drv.Race
