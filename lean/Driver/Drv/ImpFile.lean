import Driver.Proto
import Neutrino.Model.ImportFile
open Neutrino.ImportFile
namespace Driver.Drv.ImpFile

def hexVal (c : Char) : Nat :=
  if '0' ≤ c && c ≤ '9' then c.toNat - '0'.toNat
  else if 'a' ≤ c && c ≤ 'f' then c.toNat - 'a'.toNat + 10
  else 0

def unhex (s : String) : Bytes :=
  let rec go : List Char → Bytes
    | a :: b :: rest => UInt8.ofNat (hexVal a * 16 + hexVal b) :: go rest
    | _ => []
  go (s.toList.filter (· != '.'))

def hexDigit (n : Nat) : Char := if n < 10 then Char.ofNat ('0'.toNat + n) else Char.ofNat ('a'.toNat + n - 10)

def tohex (bs : Bytes) : String :=
  String.ofList (bs.flatMap (fun b => [hexDigit (b.toNat / 16), hexDigit (b.toNat % 16)]))

/-- what the header factory makes of the buffer `GetHeader` read: the block-header factory needs 80
bytes, the filter-header factory takes the first 32 (driver-side glue, only exercised when a file of an
unknown type is opened with one of the factories - such a file is refused before) -/
def viaFactory (block : Bool) (chunk : Bytes) : Option Bytes :=
  if block then (if chunk.length ≥ 80 then some (chunk.take 80) else none)
  else (if chunk.length ≥ 32 then some (chunk.take 32) else none)

def le32at (bs : Bytes) (off : Nat) : Nat :=
  (bs.getD off 0).toNat + 256 * (bs.getD (off + 1) 0).toNat + 65536 * (bs.getD (off + 2) 0).toNat +
    16777216 * (bs.getD (off + 3) 0).toNat

def runCase : CaseFn := fun c => Id.run do
  let mut out : Array String := #[]
  let mut file : Bytes := []
  let mut info : Option Info := none
  let mut block := true
  let mut diverged := false
  -- what the implementation itself reported on `open`
  let mut iStart := 0
  let mut iSize := 0
  let mut iCount := 0
  let mut iOpen := false
  for (ln, line) in c.lines do
    let (op, obs) := splitObs line
    let ws := words op
    let ow := words obs
    let mut model := ""
    match ws with
    | ["open", fac, hx] =>
      file := unhex hx
      block := fac == "block"
      match openFile file with
      | .error _ => model := "err"; info := none
      | .ok i =>
        info := some i
        model := s!"ok {i.md.magic} {i.md.version} {i.md.typ} {i.md.start} {i.endH} {i.count} {i.size}"
      -- oracle on the implementation's own observation and the raw bytes
      match ow with
      | ["ok", magic, ver, typ, start, endH, count, size] =>
        iOpen := true; iStart := nat! start; iSize := nat! size; iCount := nat! count
        let bad (what : String) : String :=
          s!"ORACLE-FAIL C14 case {c.num} line {ln}: shape=import-file-accepted-malformed the file source opened a file {what} :: {obs}"
        if file.length < 10 then out := out.push (bad "shorter than its metadata")
        else
          if nat! ver != 0 || (file.getD 4 0).toNat != 0 then out := out.push (bad "whose format version is not 0")
          if !((nat! typ == 0 && nat! size == 80) || (nat! typ == 1 && nat! size == 32)) then
            out := out.push (bad "of an unknown header type")
          if nat! size > 0 && (file.length - 10 == 0 || (file.length - 10) % nat! size != 0) then
            out := out.push (bad "whose body is empty or not a whole number of headers")
          if nat! magic != le32at file 0 || nat! typ != (file.getD 5 0).toNat || nat! start != le32at file 6 then
            out := out.push s!"ORACLE-FAIL C14 case {c.num} line {ln}: shape=import-file-metadata-misread metadata reported {obs}, the file says magic {le32at file 0} type {(file.getD 5 0).toNat} start {le32at file 6}"
          if nat! size > 0 && (nat! count != (file.length - 10) / nat! size ||
              nat! endH != (nat! start + nat! count + 4294967295) % 4294967296) then
            out := out.push s!"ORACLE-FAIL C14 case {c.num} line {ln}: shape=import-file-count-misread {obs} for a file of {file.length} bytes"
      | _ =>
        iOpen := false
        -- a well-formed file must be accepted
        let typ := (file.getD 5 0).toNat
        let sz := if typ == 0 then 80 else 32
        if obs == "err" && file.length > 10 && (file.getD 4 0).toNat == 0 && typ ≤ 1 && (file.length - 10) % sz == 0 &&
            ((typ == 0) == block) then
          out := out.push s!"ORACLE-FAIL C14 case {c.num} line {ln}: shape=import-file-refused-wellformed a well-formed file of {(file.length - 10) / sz} headers was refused"
        if obs == "PANIC" then
          out := out.push s!"ORACLE-FAIL C14 case {c.num} line {ln}: shape=import-file-panic opening the file panicked"
    | ["get", ix] =>
      let i := nat! ix
      match info with
      | none => model := "?"
      | some inf =>
        match getHeader file inf i with
        | .error _ => model := "err"
        | .ok (chunk, h) =>
          match viaFactory block chunk with
          | none => model := "err"
          | some b => model := s!"ok {h} {tohex b}"
      -- oracle: what is handed out for index i is the i-th header of the file, stamped start+i
      if iOpen then
        match ow with
        | ["ok", h, hx] =>
          let want := (file.drop (10 + i * iSize)).take (if block then 80 else 32)
          if 10 + i * iSize + iSize > 4294967295 then
            -- the uint32 offset of GetHeader wraps for indices the importer never asks for (files are
            -- smaller than 4 GiB and indices stay within the file): model and code agree on the wrap
            -- (no DIFF), the property is silent about it
            pure ()
          else if i ≥ iCount then
            out := out.push s!"ORACLE-FAIL C14 case {c.num} line {ln}: shape=import-file-read-past-end GetHeader({i}) succeeded on a file of {iCount} headers"
          else if unhex hx != want then
            out := out.push s!"ORACLE-FAIL C14 case {c.num} line {ln}: shape=import-file-shifted-header GetHeader({i}) returned bytes that are not the file's header {i}"
          else if nat! h != (iStart + i) % 4294967296 then
            out := out.push s!"ORACLE-FAIL C14 case {c.num} line {ln}: shape=import-file-wrong-height GetHeader({i}) stamped height {h}, the file says {iStart} + {i}"
        | _ =>
          if obs == "PANIC" then
            out := out.push s!"ORACLE-FAIL C14 case {c.num} line {ln}: shape=import-file-panic GetHeader({i}) panicked"
          else if i < iCount && 10 + i * iSize + iSize ≤ 4294967295 then
            out := out.push s!"ORACLE-FAIL C14 case {c.num} line {ln}: shape=import-file-header-refused GetHeader({i}) failed although the file holds {iCount} headers"
    | _ => model := obs
    if !diverged && model != "?" && obs != model then
      out := out.push s!"DIFF C14 case {c.num} line {ln}: {(op.take 40).toString} impl=<{(obs.take 120).toString}> model=<{(model.take 120).toString}>"
      diverged := true
  return out

end Driver.Drv.ImpFile
