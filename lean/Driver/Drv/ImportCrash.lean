import Driver.Proto
import Neutrino.Spec.ImportCrash
open Neutrino.Store
namespace Driver.Drv.ImportCrash

/-- what a dump of the two stores shows after a (re)start -/
structure CDump where
  blocks  : List (Option Nat)
  tipB    : Option Nat
  junkB   : Nat
  filters : List (Option Nat)
  tipF    : Option Nat
  junkF   : Nat
deriving Repr

def parseEnt (s : String) : Option Nat := s.toNat?

/-- `B [ids] tb <h|ERR> bj <n> F [fids] tf <h|ERR> fj <n>` -/
def parseCDump (obs : String) : Option CDump :=
  match words obs with
  | "B" :: rest =>
    let (bl, rest) := bracket rest
    match rest with
    | "tb" :: tb :: "bj" :: bj :: "F" :: rest =>
      let (fl, rest) := bracket rest
      match rest with
      | ["tf", tf, "fj", fj] =>
        some { blocks := bl.map parseEnt, tipB := tb.toNat?, junkB := nat! bj,
               filters := fl.map parseEnt, tipF := tf.toNat?, junkF := nat! fj }
      | _ => none
    | _ => none
  | _ => none

def field (hdr : List String) (k : String) : String :=
  match hdr.dropWhile (· != k) with
  | _ :: v :: _ => v
  | _ => ""

def showL (l : List Nat) : String := "[" ++ " ".intercalate (l.map toString) ++ "]"

/-- nothing torn, shifted or unreadable: whole entries only, every entry
readable and (ids are heights) the file's header for its height, tips are the
last entries -/
def CDump.whole (d : CDump) : Bool :=
  d.junkB == 0 && d.junkF == 0 &&
  d.blocks == (List.range d.blocks.length).map some &&
  d.filters == (List.range d.filters.length).map some &&
  !d.blocks.isEmpty && !d.filters.isEmpty &&
  d.tipB == some (d.blocks.length - 1) && d.tipF == some (d.filters.length - 1)

/-- `n` new entries are a prefix of `total` new ones cut at a batch boundary -/
def atBatchBoundary (bs total n : Nat) : Bool := decide (n ≤ total) && (n % bs == 0 || n == total)

def runCase : CaseFn := fun c => Id.run do
  let hdr := c.header
  let mut out : Array String := #[]
  let bs := nat! (field hdr "bs")
  let count := nat! (field hdr "count")
  let k := nat! (field hdr "k")
  let torn := nat! (field hdr "torn")
  let mode := field hdr "mode"
  let mut pre : Option CDump := none
  let mut d : Durable := Neutrino.Store.init     -- model state
  let mut diverged := false
  let mut importObs := ""
  let mut ndump := 0
  let mut resumeObs := ""
  -- model helpers
  let lists := fun (d : Durable) => (d.bf.ents, d.ff.ents)
  let opsFor := fun (d : Durable) =>
    if d.bf.ents.length == d.ff.ents.length then
      importOps bs (count + 1) ((List.range count).drop d.bf.ents.length) ((List.range count).drop d.ff.ents.length)
    else []
  for (ln, line) in c.lines do
    let (op, obs) := splitObs line
    match words op with
    | ["pre"] =>
      pre := parseCDump obs
      match pre with
      | some p =>
        if !p.whole then
          out := out.push s!"DIFF C08 case {c.num} line {ln}: the stores were not whole before the import: {obs}"
          diverged := true
        d := mkDurable (p.blocks.filterMap id) (p.filters.filterMap id)
      | none =>
        out := out.push s!"DIFF C08 case {c.num} line {ln}: unparsable pre <{obs}>"
        diverged := true
    | ["import"] =>
      importObs := obs
      if obs.startsWith "PANIC" then
        out := out.push s!"ORACLE-FAIL C08 case {c.num} line {ln}: shape=import-crash-panic the import panicked: {obs}"
      if !diverged then
        let level := d.bf.ents.length == d.ff.ents.length
        let (d', crashed) := runCrash d (opsFor d) k torn
        d := d'
        let want := if crashed then "crashed" else if level || count ≤ d.ff.ents.length then "ok" else "err conn"
        if want != obs then
          out := out.push s!"DIFF C08 case {c.num} line {ln}: import under crash k={k} torn={torn} impl=<{obs}> model=<{want}>"
          diverged := true
    | ["restart"] =>
      if obs != "ok" then
        out := out.push s!"ORACLE-FAIL C08 case {c.num} line {ln}: shape=import-crash-unopenable after a crash at durable step {k} (torn {torn}) of the import the stores cannot be opened: {obs}"
      if !diverged then
        match reopen d with
        | some d' => d := d'
        | none =>
          if obs == "ok" then
            out := out.push s!"DIFF C08 case {c.num} line {ln}: restart impl=<ok> model=<constructor fails>"
          diverged := true
    | ["dump"] =>
      ndump := ndump + 1
      match parseCDump obs, pre with
      | some dm, some p =>
        if !diverged then
          let (mb, mf) := lists d
          if dm.blocks != mb.map some || dm.filters != mf.map some then
            out := out.push s!"DIFF C08 case {c.num} line {ln}: dump impl=<{obs}> model=<B {showL mb} F {showL mf}>"
            diverged := true
        -- the property, on the implementation's own observations
        let newTotal := count - p.blocks.length
        let nb := dm.blocks.length - p.blocks.length
        let nf := dm.filters.length - p.filters.length
        if ndump == 1 then
          if !dm.whole then
            out := out.push s!"ORACLE-FAIL C08 case {c.num} line {ln}: shape=import-crash-torn after a crash at durable step {k} (torn {torn}) of the import and a restart the stores hold a torn, shifted or unreadable entry, or a tip that is not the last entry: {obs}"
          else if dm.filters.length > dm.blocks.length then
            out := out.push s!"ORACLE-FAIL C08 case {c.num} line {ln}: shape=import-crash-filter-ahead after a crash at durable step {k} of the import the filter-header chain is ahead of the block-header chain: {obs}"
          else if mode != "block-ahead" &&
              (dm.blocks.length < p.blocks.length || dm.filters.length < p.filters.length ||
               !atBatchBoundary bs newTotal nb || !atBatchBoundary bs (count - p.filters.length) nf ||
               nb > nf + bs) then
            out := out.push s!"ORACLE-FAIL C08 case {c.num} line {ln}: shape=import-crash-torn after a crash at durable step {k} of the import the stores are not their old contents plus whole batches of the file (batch size {bs}, {newTotal} new headers; filters at most one batch behind): {obs}"
          else if mode == "block-ahead" && (dm.blocks.length != p.blocks.length || dm.filters.length != p.filters.length) then
            out := out.push s!"ORACLE-FAIL C08 case {c.num} line {ln}: shape=import-crash-torn a refused import changed the stores: {obs}"
        else
          -- after the resumed import
          if mode != "block-ahead" then
            if resumeObs != "ok" || !dm.whole || dm.blocks.length != count || dm.filters.length != count then
              out := out.push s!"ORACLE-FAIL C08 case {c.num} line {ln}: shape=import-crash-not-resumable after a crash at durable step {k} (torn {torn}) of the import and a restart, running the import again gives <{resumeObs}> and does not end with the stores holding the file's {count} headers: {obs}"
      | _, _ =>
        out := out.push s!"ORACLE-FAIL C08 case {c.num} line {ln}: shape=import-crash-unopenable the stores cannot be dumped after the restart: {obs}"
    | ["resume"] =>
      resumeObs := obs
      if !diverged then
        let level := d.bf.ents.length == d.ff.ents.length
        let want := if level || count ≤ d.ff.ents.length then "ok" else "err conn"
        d := runSeq d (opsFor d)
        if want != obs then
          out := out.push s!"DIFF C08 case {c.num} line {ln}: resumed import impl=<{obs}> model=<{want}>"
          diverged := true
    | ["heal"] =>
      -- the harness levelled the stores by hand (missing filter headers written directly)
      if !diverged then
        d := (exec d (.wf ((List.range d.bf.ents.length).drop d.ff.ents.length)) .none).1
    | _ => out := out.push s!"DIFF C08 case {c.num} line {ln}: unparsable op <{op}>"
  return out

end Driver.Drv.ImportCrash
