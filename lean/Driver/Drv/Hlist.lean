import Driver.Proto
import Neutrino.Model.HeaderList
open Neutrino.HL
namespace Driver.Drv.Hlist

def showSlot (r : Ring) : Option Nat → String
  | none => "nil"
  | some i => s!"{(r.slots i).id}:{(r.slots i).height}"

def showA : Option ANode → String
  | none => "nil"
  | some n => s!"{n.id}:{n.height}"

def walk (r : Ring) : Nat → Option Nat → List String
  | 0, _ => []
  | _ + 1, none => []
  | f + 1, some i => showSlot r (some i) :: walk r f (r.slots i).prev

def runCase : CaseFn := fun c => Id.run do
  let cap := match c.header with
    | ["cap", n] => nat! n
    | _ => 0
  let mut out : Array String := #[]
  let mut r : Ring := { cap := cap }
  let mut sp : List ANode := []
  let mut diverged := false
  for (ln, line) in c.lines do
    let (op, obs) := splitObs line
    let ws := words op
    let mut model := ""
    let mut spec := ""
    match ws with
    | ["reset", h, i] =>
      r := reset r (nat! h) (nat! i); sp := specStep cap sp (.reset (nat! h) (nat! i))
      model := showSlot r r.tail; spec := showA sp.head?
    | ["push", h, i] =>
      r := push r (nat! h) (nat! i); sp := specStep cap sp (.push (nat! h) (nat! i))
      model := showSlot r r.tail; spec := showA sp.head?
    | ["walk"] =>
      model := "[" ++ " ".intercalate (walk r (cap + 3) r.tail) ++ "]"
      spec := "[" ++ " ".intercalate (sp.map (fun n => showA (some n))) ++ "]"
    | ["anc", k, h] =>
      let start := nthPrev r (nat! k) r.tail
      model := showSlot r (ancestor r start (nat! h))
      spec := showA (specAncestor sp (nat! k) (nat! h))
    | _ => model := "?"; spec := obs
    if obs == "HANG" then
      out := out.push s!"ORACLE-FAIL C01 case {c.num} line {ln}: shape=headerlist-ancestor-hang `{op}` never returned"
    else if obs != spec then
      out := out.push s!"ORACLE-FAIL C01 case {c.num} line {ln}: shape=headerlist-wrong-node `{op}` returned {obs}, the live list says {spec}"
    if !diverged && obs != model then
      out := out.push s!"DIFF C01 case {c.num} line {ln}: {op} impl=<{obs}> model=<{model}>"
      diverged := true
  return out

end Driver.Drv.Hlist
