import Driver.Proto
import Neutrino.Spec.Utxo
import Neutrino.Model.UtxoReaders
open Neutrino.Utxo
namespace Driver.Drv.Utxo

/-! Reader of the C10 trace written by harness/utxodrv: rebuilds the `World` from the script lines, runs the
model, compares callback sequence and per-request results (DIFF), and evaluates the property oracle on the
implementation's own observations (ORACLE-FAIL, independent of the model). -/

def parseOp (s : String) : Outpoint :=
  match s.splitOn "." with
  | [a, b] => ⟨nat! a, nat! b⟩
  | _ => ⟨0, 0⟩

/-- `id:nout:in,in:scr,scr` -> the transaction and the script id of each of its outputs -/
def parseTx (s : String) : Option (Tx × List Nat) :=
  match s.splitOn ":" with
  | [id, nout, ins, scr] =>
    some (⟨nat! id, ((ins.splitOn ",").filter (· ≠ "")).map parseOp, nat! nout⟩,
          ((scr.splitOn ",").filter (· ≠ "")).map nat!)
  | [id, nout, ins] =>
    some (⟨nat! id, ((ins.splitOn ",").filter (· ≠ "")).map parseOp, nat! nout⟩, [])
  | _ => none

structure Script where
  chain : Chain := []
  /-- script id of every output the chain creates (several outputs may share one) -/
  scripts : List (Outpoint × Nat) := []
  tip0 : Nat := 0
  tipAt : List (Nat × Nat) := []
  reqs : List (Req × Nat) := []
  fp : List Nat := []
  hashErr : List Nat := []
  fltrErr : List Nat := []
  blkErr : List Nat := []
  stop : Nat := 0

def Script.tip (s : Script) (k : Nat) : Nat :=
  s.tipAt.foldl (fun t e => if e.1 ≤ k then e.2 else t) s.tip0

/-- script id of an outpoint; the default (an outpoint the chain does not create) is the harness's formula -/
def Script.scriptOf (s : Script) (op : Outpoint) : Nat :=
  match s.scripts.find? (·.1 == op) with
  | some e => e.2
  | none => 100000 + op.txid * 100 + op.idx

/-- The harness's filter: the block matches iff one of its transactions touches a script of the watch list (an
input spends an output paying to it, or an output pays to it), or the call is a scripted false positive. -/
def Script.touches (s : Script) (h : Nat) (watch : List Outpoint) : Bool :=
  let ws := watch.map s.scriptOf
  (blockAt s.chain h).any (fun tx =>
    tx.ins.any (fun i => ws.contains (s.scriptOf i)) ||
    (List.range tx.nout).any (fun o => ws.contains (s.scriptOf ⟨tx.id, o⟩)))

def Script.world (s : Script) : World where
  chain := s.chain
  tip := s.tip
  arrive := fun k => if k = 0 then [] else (s.reqs.filter (·.2 == k)).map (·.1)
  stopAt := fun k => s.stop != 0 && k == s.stop
  hashErr := fun k => s.hashErr.contains k
  fm := fun k h watch =>
    if s.fltrErr.contains k then none
    else some (s.fp.contains k || s.touches h watch)
  blockErr := fun k => s.blkErr.contains k

def insertNat (x : Nat) : List Nat → List Nat
  | [] => [x]
  | y :: ys => if x ≤ y then x :: y :: ys else y :: insertNat x ys

def sortNats (l : List Nat) : List Nat := l.foldr insertNat []

def showRes (q : Req) : Res → String
  | .ok (.spent t i h) => s!"spent {t} {i} {h}"
  | .ok (.output h i) => s!"output {h} {i} {q.op.txid * 100 + q.op.idx}"
  | .ok .empty => "empty"
  | .err .shutdown => "err shutdown"
  | .err .hashFail => "err hash"
  | .err .filterFail => "err filter"
  | .err .blockFail => "err block"

def showEv (sc : Script) : Ev → String
  | .hash h ok => s!"cb hash {h} => {if ok then "ok" else "err"}"
  | .filter h watch r =>
    let ws := " ".intercalate ((sortNats (watch.map sc.scriptOf)).map toString)
    let rs := match r with | none => "err" | some true => "1" | some false => "0"
    s!"cb filter {h} [{ws}] => {rs}"
  | .block h ok => s!"cb block {h} => {if ok then "ok" else "err"}"

/-- (observation, output value if any, "badhash" flag) -/
def parseObs (s : String) : Option (Obs × Nat × Bool) :=
  match words s with
  | ["HANG"] => some (.hang, 0, false)
  | ["empty"] => some (.res (.ok .empty), 0, false)
  | ["spent", t, i, h] => some (.res (.ok (.spent (nat! t) (nat! i) (nat! h))), 0, false)
  | ["output", h, i, v] => some (.res (.ok (.output (nat! h) (nat! i))), nat! v, false)
  | ["output", h, i, v, "badhash"] => some (.res (.ok (.output (nat! h) (nat! i))), nat! v, true)
  | ["err", "shutdown"] => some (.res (.err .shutdown), 0, false)
  | ["err", "hash"] => some (.res (.err .hashFail), 0, false)
  | ["err", "filter"] => some (.res (.err .filterFail), 0, false)
  | ["err", "block"] => some (.res (.err .blockFail), 0, false)
  | _ => none

def runCase : CaseFn := fun c => Id.run do
  let mut s : Script := {}
  match c.header with
  | _ :: "tip0" :: t :: _ => s := { s with tip0 := nat! t }
  | _ => pure ()
  let mut cbs : Array (Nat × String) := #[]
  let mut obsLines : Array (Nat × String × Nat × String) := #[]   -- line, kind, id, obs
  let mut endObs : Option (Nat × String) := none
  for (ln, line) in c.lines do
    let (op, obs) := splitObs line
    match words op with
    | "blk" :: _ :: txs =>
      let ps := txs.filterMap parseTx
      let scr := ps.flatMap (fun p => (List.range p.2.length).map (fun o => ((⟨p.1.id, o⟩ : Outpoint), p.2.getD o 0)))
      s := { s with chain := s.chain ++ [ps.map (·.1)], scripts := s.scripts ++ scr }
    | ["tipat", k, t] => s := { s with tipAt := s.tipAt ++ [(nat! k, nat! t)] }
    | ["req", id, tx, ix, b, k] => s := { s with reqs := s.reqs ++ [(⟨nat! id, ⟨nat! tx, nat! ix⟩, nat! b⟩, nat! k)] }
    | ["fp", k] => s := { s with fp := nat! k :: s.fp }
    | ["hasherr", k] => s := { s with hashErr := nat! k :: s.hashErr }
    | ["fltrerr", k] => s := { s with fltrErr := nat! k :: s.fltrErr }
    | ["blkerr", k] => s := { s with blkErr := nat! k :: s.blkErr }
    | ["stop", k] => s := { s with stop := nat! k }
    | "cb" :: _ => cbs := cbs.push (ln, line)
    | ["result", id] => obsLines := obsLines.push (ln, "result", nat! id, obs)
    | ["again", id] => obsLines := obsLines.push (ln, "again", nat! id, obs)
    | ["after", id] => obsLines := obsLines.push (ln, "after", nat! id, obs)
    | ["readers", id] => obsLines := obsLines.push (ln, "readers", nat! id, obs)
    | ["late", id] => obsLines := obsLines.push (ln, "late", nat! id, obs)
    | ["end"] => endObs := some (ln, obs)
    | _ => pure ()
  let w := s.world
  let init := (s.reqs.filter (·.2 == 0)).map (·.1)
  let (status, st) := run w 2000 200 init
  let mut out : Array String := #[]
  let pre := s!"C10 case {c.num}"
  -- ---- model vs implementation ----------------------------------------------------------
  let mut diverged := false
  if status == .fuelOut then
    out := out.push s!"DIFF {pre} line 0: model ran out of fuel"
    diverged := true
  let mlog := st.log.map (showEv s)
  if !diverged then
    let mut i := 0
    for (ln, line) in cbs do
      if !diverged then
        let m := mlog.getD i "<none>"
        if m != line then
          out := out.push s!"DIFF {pre} line {ln}: callback impl=<{line}> model=<{m}>"
          diverged := true
      i := i + 1
    if !diverged && mlog.length != cbs.size then
      out := out.push s!"DIFF {pre} line 0: implementation made {cbs.size} callbacks, model {mlog.length} (next: {mlog.getD cbs.size ""})"
      diverged := true
  let tips := s.tip0 :: s.tipAt.map (·.2)
  -- the tip the implementation was shown last (the tip is a function of the number of GetBlockHash calls)
  let lastTip := s.tip (cbs.foldl (fun n x => if x.2.startsWith "cb hash" then n + 1 else n) 0)
  let firstObs (id : Nat) : String :=
    match obsLines.find? (fun x => x.2.1 == "result" && x.2.2.1 == id) with
    | some x => x.2.2.2
    | none => ""
  for (ln, kind, id, obs) in obsLines do
    match s.reqs.find? (·.1.id == id) with
    | none => out := out.push s!"DIFF {pre} line {ln}: unknown request {id}"
    | some (q, k) =>
      let arrivedQ := k == 0 || k ≤ st.k
      let deliv := st.out.find? (fun d => d.req == q)
      if kind == "readers" || kind == "late" then
        -- several goroutines inside Result of this one request at the same time
        let rs := (obs.splitOn " | ").map (fun x => x.trimAscii.toString)
        let first := firstObs id
        -- model: every reader, whether it entered before or after the delivery, is given the delivery
        if !diverged then
          match deliv with
          | some d =>
            let n := rs.length
            let before := if kind == "readers" then (List.range n).map REv.read else []
            let answers := (runR {} (before ++ [REv.deliver d.res] ++ (List.range n).map REv.read)).2
            let mut j := 0
            for r in rs do
              let m := match answers.find? (·.1 == j) with | some a => showRes q a.2 | none => "HANG"
              let okStop := st.quit && (r == "err shutdown" || m == "err shutdown")
              if r != "cancelled" && r != m && !okStop then
                out := out.push s!"DIFF {pre} line {ln}: {kind} {id} reader {j} impl=<{r}> model=<{m}>"
                diverged := true
              j := j + 1
          | none => pure ()
        -- oracle, on the implementation's own answers: every Result call on a request returns what the first
        -- one returned, and none is still waiting once the request has been answered
        if first != "HANG" && first != "" && first != "noreq" then
          let mut j := 0
          for r in rs do
            let stopSlack := s.stop != 0 && (r == "err shutdown" || first == "err shutdown")
            if r == "cancelled" || r == first || stopSlack then pure ()
            else if r.startsWith "HANG" then
              out := out.push s!"ORACLE-FAIL {pre} line {ln}: shape=result-reader-hang reader {j} of request {id} ({kind}, {rs.length} concurrent Result calls) was still waiting after the request had been answered <{first}> ({r})"
            else
              out := out.push s!"ORACLE-FAIL {pre} line {ln}: shape=result-readers-disagree reader {j} of request {id} ({kind}, {rs.length} concurrent Result calls) was given <{r}>, the first answer was <{first}>"
            j := j + 1
        continue
      let expected : String :=
        if !arrivedQ then "noreq"
        else if kind == "after" then "err shutdown"
        else match deliv with
          | some d => showRes q d.res
          | none => if st.quit then "err shutdown" else "HANG"
      if !diverged then
        let okStop := st.quit && obs == "err shutdown" && arrivedQ
        if obs != expected && !okStop then
          out := out.push s!"DIFF {pre} line {ln}: {kind} {id} impl=<{obs}> model=<{expected}>"
          diverged := true
      -- ---- property oracle on the implementation's observation ----------------------------
      if obs == "noreq" then continue
      if kind == "after" then
        if obs != "err shutdown" then
          out := out.push s!"ORACLE-FAIL {pre} line {ln}: shape=hang-after-stop request {id} still unanswered after Stop ({obs})"
        continue
      if kind == "again" then
        -- after Stop, Result picks at random between a buffered delivery and the closed quit channel
        let stopSlack := s.stop != 0 && (obs == "err shutdown" || firstObs id == "err shutdown")
        if obs != firstObs id && !stopSlack then
          let shape := if obs == "HANG" then "result-second-call-blocks" else "result-not-idempotent"
          out := out.push s!"ORACLE-FAIL {pre} line {ln}: shape={shape} second Result() of request {id} gave <{obs}>, first gave <{firstObs id}>"
        continue
      match parseObs obs with
      | none => out := out.push s!"ORACLE-FAIL {pre} line {ln}: shape=malformed request {id} got <{obs}>"
      | some (.hang, _, _) =>
        let fetchFailed := cbs.any (fun x => x.2 == s!"cb block {q.birth} => err")
        let shape := if q.birth > lastTip then "birth-above-tip"
                     else if fetchFailed then "fetch-fail-at-birth" else "hang"
        out := out.push s!"ORACLE-FAIL {pre} line {ln}: shape={shape} request {id} (outpoint {q.op.txid}.{q.op.idx} from height {q.birth}, tip {lastTip}) was never answered"
      | some (.res (.err e), _, _) =>
        let justified := match e with
          | .shutdown => s.stop != 0
          | .hashFail => cbs.any (fun x => x.2.startsWith "cb hash" && x.2.endsWith "=> err")
          | .filterFail => cbs.any (fun x => x.2.startsWith "cb filter" && x.2.endsWith "=> err")
          | .blockFail => cbs.any (fun x => x.2.startsWith "cb block" && x.2.endsWith "=> err")
        if !justified then
          out := out.push s!"ORACLE-FAIL {pre} line {ln}: shape=spurious-error request {id} got <{obs}> though nothing failed"
      | some (.res (.ok rep), v, bad) =>
        let o : Obs := .res (.ok rep)
        match rep with
        | .output _ _ =>
          if bad || v != q.op.txid * 100 + q.op.idx then
            out := out.push s!"ORACLE-FAIL {pre} line {ln}: shape=wrong-output request {id} got <{obs}>"
        | _ => pure ()
        if !obsStrict s.chain tips q o then
          let fates := tips.map (fun t => showRes q (.ok (fate s.chain t q)))
          if obsLoose s.chain tips q o then
            out := out.push s!"ORACLE-FAIL {pre} line {ln}: shape=dup-outpoint-other-birth-output request {id} (outpoint {q.op.txid}.{q.op.idx} from height {q.birth}) got <{obs}>, its start block does not create the output; fate {fates}"
          else
            let laterDup := s.reqs.any (fun p => p.1.op == q.op && p.1.birth > q.birth)
            let created := match initialAt s.chain q.birth q.op with | .output _ _ => true | _ => false
            let shape := if rep == .empty && laterDup && created then "dup-outpoint-later-birth" else "wrong-answer"
            out := out.push s!"ORACLE-FAIL {pre} line {ln}: shape={shape} request {id} (outpoint {q.op.txid}.{q.op.idx} from height {q.birth}) got <{obs}>, fate {fates}"
  match endObs with
  | some (ln, obs) =>
    if obs != "stopped" then
      out := out.push s!"ORACLE-FAIL {pre} line {ln}: shape=stop-hang Stop did not return ({obs})"
  | none => pure ()
  return out

end Driver.Drv.Utxo
