import Driver.Proto
import Neutrino.Spec.Ban
open Neutrino.Ban
namespace Driver.Drv.Ban

/-
Trace lines (harness/bandrv):
  ban    <via> <iphex> <maskhex> <port> <reason> <durMs> <t0> <t1> => ok | errparse | errencode
  reban  … as ban …   a ban that committed while a Status call for the same network was in flight (concurrent.go)
  status <via> <iphex> <maskhex> <port> <t0> <t1>                  => banned <reason> <expirySec> | notbanned | errparse | errencode
  unban  <via> <iphex> <maskhex> <port> <t0> <t1>                  => ok | errparse | errencode
  reopen                                                            => ok
  dump                                                              => [<keyhex>:<expirySec>:<reason> ...]   (raw bucket contents, key order)
`-` is the empty byte string / no port, `nil` a nil mask.  t0/t1: wall clock (ms) read before / after the call.
-/

def hexVal (c : Char) : Nat :=
  if '0' ≤ c ∧ c ≤ '9' then c.toNat - '0'.toNat
  else if 'a' ≤ c ∧ c ≤ 'f' then c.toNat - 'a'.toNat + 10
  else 0

def hexBytes : List Char → Bytes
  | a :: b :: rest => (hexVal a * 16 + hexVal b) :: hexBytes rest
  | _ => []

def parseHex (s : String) : Bytes := if s == "-" then [] else hexBytes s.toList

def hexDigit (n : Nat) : Char := if n < 10 then Char.ofNat (48 + n) else Char.ofNat (87 + n)

def showHex (b : Bytes) : String :=
  if b.isEmpty then "-" else String.ofList (b.flatMap fun x => [hexDigit (x / 16), hexDigit (x % 16)])

def int! (s : String) : Int := s.toInt?.getD 0

def parseTarget (via ip mask port : String) : Option Target :=
  let v? : Option Via := if via == "parse" then some .parse else if via == "raw" then some .raw else none
  match v? with
  | none => none
  | some v =>
    some { via := v, ip := parseHex ip, mask := if mask == "nil" then none else some (parseHex mask),
           port := if port == "-" then none else some (nat! port) }

def showOut : Out → String
  | .ok => "ok"
  | .errParse => "errparse"
  | .errEncode => "errencode"
  | .banned r e => s!"banned {r} {e / 1000}"
  | .notBanned => "notbanned"

def parseOut (obs : String) : Option Out :=
  match words obs with
  | ["ok"] => some .ok
  | ["errparse"] => some .errParse
  | ["errencode"] => some .errEncode
  | ["notbanned"] => some .notBanned
  | ["banned", r, e] => some (.banned (nat! r) (int! e * 1000))
  | _ => none

def insertStr (x : String) : List String → List String
  | [] => [x]
  | y :: ys => if x ≤ y then x :: y :: ys else y :: insertStr x ys

def showDump (s : State) : String :=
  let items := s.recs.map fun (k, e, r) => s!"{showHex k}:{e}:{r}"
  "[" ++ " ".intercalate (items.foldr insertStr []) ++ "]"

/-- every ms of the window -/
def window (t0 t1 : Int) : List Int :=
  (List.range ((t1 - t0).toNat + 1)).map fun (i : Nat) => t0 + Int.ofNat i

def dedupStates (l : List (State × Spec)) : List (State × Spec) :=
  l.foldr (fun x acc => if acc.any (fun y => y.1 == x.1) then acc else x :: acc) []

def dedupOuts (l : List Out) : List Out :=
  l.foldr (fun x acc => if acc.contains x then acc else x :: acc) []

structure Parsed where
  op : Op
  t0 : Int
  t1 : Int
  /-- a ban that committed while a Status of the same network was in flight (`reban` line) -/
  reban : Bool := false

def parseLine (ws : List String) : Option Parsed :=
  match ws with
  | ["ban", via, ip, mask, port, r, d, t0, t1] =>
    (parseTarget via ip mask port).map fun tg => ⟨.ban tg (nat! r) (int! d), int! t0, int! t1, false⟩
  | ["reban", via, ip, mask, port, r, d, t0, t1] =>
    (parseTarget via ip mask port).map fun tg => ⟨.ban tg (nat! r) (int! d), int! t0, int! t1, true⟩
  | ["status", via, ip, mask, port, t0, t1] =>
    (parseTarget via ip mask port).map fun tg => ⟨.status tg, int! t0, int! t1, false⟩
  | ["unban", via, ip, mask, port, t0, t1] =>
    (parseTarget via ip mask port).map fun tg => ⟨.unban tg, int! t0, int! t1, false⟩
  | ["reopen"] => some ⟨.reopen, 0, 0, false⟩
  | _ => none

def runCase : CaseFn := fun c => Id.run do
  let mut out : Array String := #[]
  -- candidate (model, spec) states: the real call read the clock somewhere inside its window
  let mut cands : List (State × Spec) := [({}, Spec.empty)]
  let mut orc : Oracle := Oracle.empty
  let mut rebanned : List NetId := []   -- networks whose current ban raced with a Status call
  let mut diverged := false
  for (ln, line) in c.lines do
    let (opS, obs) := splitObs line
    let ws := words opS
    if ws == ["dump"] then
      if obs.startsWith "!" then
        out := out.push s!"ORACLE-FAIL C13 case {c.num} line {ln}: ban-index and reason-index disagree: {obs}"
      if !diverged then
        let keep := cands.filter fun (s, _) => showDump s == obs
        if keep.isEmpty then
          out := out.push s!"DIFF C13 case {c.num} line {ln}: dump impl=<{obs}> model=<{showDump (cands.headD ({}, Spec.empty)).1}>"
          diverged := true
        else cands := keep
    else
      match parseLine ws with
      | none => out := out.push s!"DIFF C13 case {c.num} line {ln}: unparsable op <{opS}>"
      | some p =>
        if p.t1 < p.t0 || p.t1 - p.t0 > 5000 then
          out := out.push s!"DIFF C13 case {c.num} line {ln}: unusable clock window [{p.t0},{p.t1}]"
          diverged := true
        -- the property, on the implementation's observations alone
        match parseOut obs with
        | none =>
          out := out.push s!"ORACLE-FAIL C13 case {c.num} line {ln}: call failed unexpectedly: {opS} => {obs}"
        | some o =>
          match p.op with
          | .status tg =>
            match idOf tg with
            | none =>
              if !callOk tg o then
                out := out.push s!"ORACLE-FAIL C13 case {c.num} line {ln}: status of an unsupported address answered {obs}"
            | some id =>
              if !statusOk (orc id) p.t0 p.t1 o then
                let what := match orc id with
                  | some b => s!"banned (reason {b.reason}) until [{b.lo},{b.hi}] ms"
                  | none => "not banned"
                if rebanned.contains id && o == .notBanned && (orc id).isSome && !truncated (orc id) p.t1 then
                  out := out.push s!"ORACLE-FAIL C13 case {c.num} line {ln}: shape=ban-lost-to-concurrent-status status at [{p.t0},{p.t1}] ms says {obs}; the address was {what} by a ban call that had returned (it committed while another Status of the address was in flight)"
                else if truncated (orc id) p.t1 && o == .notBanned then
                  out := out.push s!"ORACLE-FAIL C13 case {c.num} line {ln}: shape=expiry-truncated-to-seconds status at [{p.t0},{p.t1}] ms says {obs}; by the history the address is {what}"
                else
                  out := out.push s!"ORACLE-FAIL C13 case {c.num} line {ln}: status at [{p.t0},{p.t1}] ms says {obs}; by the history the address is {what}"
          | .ban tg _ _ | .unban tg =>
            if !callOk tg o then
              out := out.push s!"ORACLE-FAIL C13 case {c.num} line {ln}: {opS} => {obs} (supported address refused or unsupported address accepted)"
          | .reopen =>
            if o != .ok then
              out := out.push s!"ORACLE-FAIL C13 case {c.num} line {ln}: reopen => {obs}"
        orc := orc.note p.t0 p.t1 p.op
        match p.op with
        | .ban tg _ _ | .unban tg =>
          match idOf tg with
          | some id => rebanned := if p.reban then id :: rebanned else rebanned.filter (· != id)
          | none => pure ()
        | _ => pure ()
        -- model and spec(1000) against the implementation
        if !diverged then
          let mut nexts : List ((State × Spec) × Out) := []
          let mut specBad := false
          for (s, sp) in cands do
            for now in window p.t0 p.t1 do
              let (s', mo) := step s now p.op
              let (sp', so) := Spec.step 1000 sp now p.op
              if mo != so then specBad := true
              if !(nexts.any fun ((s2, _), o2) => s2 == s' && o2 == mo) then
                nexts := ((s', sp'), mo) :: nexts
          let outsSeen := dedupOuts (nexts.map (·.2))
          let keep := nexts.filter fun (_, mo) => showOut mo == obs
          if specBad then
            out := out.push s!"DIFF C13 case {c.num} line {ln}: {opS}: model and spec disagree"
            diverged := true
          else if keep.isEmpty then
            out := out.push s!"DIFF C13 case {c.num} line {ln}: {opS} impl=<{obs}> model=<{" | ".intercalate (outsSeen.map showOut)}>"
            diverged := true
          else
            cands := dedupStates (keep.map (·.1))
            if cands.length > 256 then
              out := out.push s!"DIFF C13 case {c.num} line {ln}: too many candidate states"
              diverged := true
  return out

end Driver.Drv.Ban
