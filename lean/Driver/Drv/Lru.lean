import Driver.Proto
import Neutrino.Spec.Lru
open Neutrino.Lru
namespace Driver.Drv.Lru

def parseOp (ws : List String) : Option Op :=
  match ws with
  | ["put", k, v, s] => some (.put (nat! k) (nat! v) (nat! s))
  | ["get", k] => some (.get (nat! k))
  | ["del", k] => some (.del (nat! k))
  | ["poison", v] => some (.poison (nat! v))
  | ["heal", v] => some (.heal (nat! v))
  | _ => none

def showOut : Out → String
  | .okPut ev => "ok " ++ (if ev then "1" else "0")
  | .err => "err"
  | .val v => s!"v {v}"
  | .notFound => "nf"
  | .no => "no"
  | .unit => "-"
  | .hang => "HANG"

def showEntry (e : Entry) : String := s!"{e.key}:{e.vid}:{e.size}"

def showDump (d : Dump) : String :=
  s!"size {d.size} len {d.len} filo [{" ".intercalate (d.filo.map showEntry)}] keys [{" ".intercalate (d.keys.map toString)}] rev {if d.rev then 1 else 0}"

def parseEntry (s : String) : Entry :=
  match s.splitOn ":" with
  | [k, v, z] => ⟨nat! k, nat! v, nat! z⟩
  | _ => ⟨0, 0, 0⟩

def parseDump (obs : String) : Option Dump :=
  match words obs with
  | "size" :: s :: "len" :: l :: "filo" :: rest =>
    let (filo, rest) := bracket rest
    match rest with
    | "keys" :: rest =>
      let (keys, rest) := bracket rest
      match rest with
      | ["rev", r] => some { size := nat! s, len := nat! l, filo := filo.map parseEntry,
                             keys := keys.map nat!, rev := r == "1" }
      | _ => none
    | _ => none
  | _ => none

def parseOut (obs : String) : Option Out :=
  match words obs with
  | ["ok", e] => some (.okPut (e == "1"))
  | ["err"] => some .err
  | ["v", n] => some (.val (nat! n))
  | ["nf"] => some .notFound
  | ["no"] => some .no
  | ["-"] => some .unit
  | _ => none

def capOf (hdr : List String) : Nat :=
  match hdr with
  | _ :: "cap" :: c :: _ => nat! c
  | _ => 0

def runCase : CaseFn := fun c => Id.run do
  let cap := capOf c.header
  let kind := c.header.headD ""
  let mut out : Array String := #[]
  let mut st : State := { cap := cap }
  let mut sp : Spec := { cap := cap }
  let mut diverged := false
  -- sequential cases: the implementation's own observations around the last operation
  let mut prevDump : Option Dump := none
  let mut lastOp : Option (Op × Out × String) := none
  let mut bad : List Nat := []
  for (ln, line) in c.lines do
    let (op, obs) := splitObs line
    let ws := words op
    if ws == ["dump"] then
      match parseDump obs with
      | none =>
        out := out.push s!"ORACLE-FAIL C16 case {c.num} line {ln}: cache unusable after a failed or concurrent call ({obs})"
        prevDump := none
        lastOp := none
      | some d =>
        if !dumpOk cap d then
          out := out.push s!"ORACLE-FAIL C16 case {c.num} line {ln}: shape={dumpShape cap d} resident-set invariant broken (capacity {cap}): {obs}"
        if kind == "seq" then
          match prevDump, lastOp with
          | some d1, some (o, r, txt) =>
            match obsClause bad o r d1 d with
            | some shape =>
              out := out.push s!"ORACLE-FAIL C16 case {c.num} line {ln}: shape={shape} <{txt}> took the cache from <{showDump d1}> to <{obs}>"
            | none => pure ()
          | _, _ => pure ()
          prevDump := some d
          lastOp := none
        if kind != "free" && !diverged then
          let m := showDump (dumpOfState st)
          let s := showDump (dumpOfSpec sp)
          if m != obs then
            out := out.push s!"DIFF C16 case {c.num} line {ln}: dump impl=<{obs}> model=<{m}>"
            diverged := true
          else if s != obs then
            out := out.push s!"DIFF C16 case {c.num} line {ln}: dump impl=<{obs}> spec=<{s}>"
            diverged := true
    else if ws == ["pget"] then
      -- Get of a key that is never stored, called while other callers are in flight: read-only, must wait for the mutex
      match words obs with
      | ["held1", "blocked"] => pure ()
      | "held1" :: rest =>
        out := out.push s!"ORACLE-FAIL C16 case {c.num} line {ln}: shape=read-during-critical-section {op} returned <{" ".intercalate rest}> while another call was inside its critical section (a lookup that does not wait for the mutex)"
      | ["held0", "v", "0"] => pure ()
      | _ => out := out.push s!"ORACLE-FAIL C16 case {c.num} line {ln}: {op} of a key that was never stored: {obs}"
    else if ws == ["psize"] || ws == ["plen"] then
      -- Size()/Len() called while other callers are in flight
      match words obs with
      | ["held1", "blocked"] => pure ()
      | "held1" :: rest =>
        out := out.push s!"ORACLE-FAIL C16 case {c.num} line {ln}: shape=read-during-critical-section {op} returned <{" ".intercalate rest}> while another call was inside its critical section (a value no resident set ever had may be reported)"
      | ["held0", "v", n] =>
        let want := if ws == ["psize"] then st.size else st.ll.length
        if !diverged && nat! n != want then
          out := out.push s!"DIFF C16 case {c.num} line {ln}: {op} impl=<{n}> model=<{want}>"
          diverged := true
      | _ => out := out.push s!"ORACLE-FAIL C16 case {c.num} line {ln}: {op} did not return although the mutex was free ({obs})"
    else if ws == ["status"] then
      out := out.push s!"ORACLE-FAIL C16 case {c.num} line {ln}: schedule ended in {obs} (cache unusable)"
    else
      match parseOp ws with
      | none => out := out.push s!"DIFF C16 case {c.num} line {ln}: unparsable op <{op}>"
      | some o =>
        if obs == "HANG" then
          -- a watchdog observation (2 s): the shape's name makes bin/check keep it only if a second run shows it again
          out := out.push s!"ORACLE-FAIL C16 case {c.num} line {ln}: shape=call-hang call never returned: {op}"
        match o with
        | .poison v => bad := v :: bad
        | .heal v => bad := bad.filter (· != v)
        | _ => pure ()
        lastOp := (parseOut obs).map (fun r => (o, r, line))
        if !diverged then
          let (st', mo) := step st o
          let (sp', so) := sp.step o
          st := st'; sp := sp'
          if showOut mo != obs then
            out := out.push s!"DIFF C16 case {c.num} line {ln}: {op} impl=<{obs}> model=<{showOut mo}>"
            diverged := true
          else if showOut so != obs then
            out := out.push s!"DIFF C16 case {c.num} line {ln}: {op} impl=<{obs}> spec=<{showOut so}>"
            diverged := true
  return out

end Driver.Drv.Lru
