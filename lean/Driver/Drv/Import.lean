import Driver.Proto
import Neutrino.Spec.Import
import Neutrino.Gen.Import
open Neutrino.Import
namespace Driver.Drv.Import

def parseB (s : String) : BHdr :=
  match s.splitOn ":" with
  | [i, p, v] => ⟨nat! i, nat! p, v == "1"⟩
  | _ => ⟨999999, 999999, false⟩

def parseF (s : String) : Nat := (s.toNat?).getD 999999

def parseTip (s : String) : Option Nat := s.toNat?

/-- `b <tip|ERR> [..] f <tip|ERR> [..]` -/
def parseObs (obs : String) : Option Obs :=
  match words obs with
  | "b" :: bt :: rest =>
    let (bl, rest) := bracket rest
    match rest with
    | "f" :: ft :: rest =>
      let (fl, _) := bracket rest
      some { btip := parseTip bt, blocks := bl.map parseB, ftip := parseTip ft, filters := fl.map parseF }
    | _ => none
  | _ => none

/-- `b [..] f [..]` -/
def parseFileBodies (obs : String) : Option (List BHdr × List Nat) :=
  match words obs with
  | "b" :: rest =>
    let (bl, rest) := bracket rest
    match rest with
    | "f" :: rest =>
      let (fl, _) := bracket rest
      some (bl.map parseB, fl.map parseF)
    | _ => none
  | _ => none

def field (hdr : List String) (k : String) : String :=
  match hdr.dropWhile (· != k) with
  | _ :: v :: _ => v
  | _ => ""

def showTip : Option Nat → String
  | some h => toString h
  | none => "ERR"

def showB (h : BHdr) : String := s!"{h.id}:{h.prev}:{if h.valid then 1 else 0}"

def showObs (o : Obs) : String :=
  s!"b {showTip o.btip} [{" ".intercalate (o.blocks.map showB)}] f {showTip o.ftip} [{" ".intercalate (o.filters.map toString)}]"

def showErr : Option Err → String
  | none => "ok"
  | some .open => "err open"
  | some .net => "err net"
  | some .type => "err type"
  | some .start => "err start"
  | some .count => "err count"
  | some .tip => "err tip"
  | some .gap => "err gap"
  | some .conn => "err conn"
  | some .mismatch => "err mismatch"
  | some .invalid => "err invalid"
  | some .read => "err read"
  | some .tipmis => "err tipmis"
  | some .lenmis => "err process-other"
  | some .bwrite => "err bwrite"
  | some .fwrite => "err fwrite"
  | some .rbfail => "err rbfail"
  | some .fuel => "MODEL-FUEL"
  | some .cancel => "err cancel"

/-- model stores from an observed dump: a tip that cannot be read is a tip beyond the file -/
def storesOf (o : Obs) : Stores :=
  { blocks := o.blocks, btip := o.btip.getD o.blocks.length, filters := o.filters, ftip := o.ftip }

def runCase : CaseFn := fun c => Id.run do
  let hdr := c.header
  let mut out : Array String := #[]
  let mut pre : Option Obs := none
  let mut file : Option File := none
  let mut nimport := 0
  let mut lastRes := ""
  let mut firstOk := false
  let mut post1 : Option Obs := none
  let mut mst : Option Stores := none       -- model state
  let mut diverged := false
  -- batch size 0 / negative = option left unset: NewHeadersImport fills in the default (regenerated fact)
  let bsReq := (field hdr "bs").toNat?.getD 0
  let bsEff := if bsReq == 0 then Neutrino.Gen.Import.defaultWriteBatchSize else bsReq
  let cfg1 : Cfg := { bs := bsEff, failB := (field hdr "failb").toNat?, failF := (field hdr "failf").toNat?, cancelAt := (field hdr "cancel").toNat? }
  let cfg2 : Cfg := { bs := cfg1.bs }
  -- a source that starts failing in the write phase (first import only): side, arming poll, first unreadable index
  let rf1 : Option ReadFault :=
    match (field hdr "rfs").toNat?, (field hdr "rfp").toNat?, (field hdr "rfi").toNat? with
    | some s, some p, some i => some { block := s == 0, poll := p, idx := i }
    | _, _, _ => none
  for (ln, line) in c.lines do
    let (op, obs) := splitObs line
    match words op with
    | ["pre"] =>
      pre := parseObs obs
      mst := pre.map storesOf
      if pre.isNone then out := out.push s!"DIFF C14 case {c.num} line {ln}: unparsable pre <{obs}>"
    | ["file"] =>
      match parseFileBodies obs with
      | none => out := out.push s!"DIFF C14 case {c.num} line {ln}: unparsable file <{obs}>"
      | some (bl, fl) =>
        file := some { openOk := field hdr "open" == "1", bnet := nat! (field hdr "bnet"), fnet := nat! (field hdr "fnet"),
                       btyp := nat! (field hdr "btyp"), ftyp := nat! (field hdr "ftyp"),
                       bstart := nat! (field hdr "s"), fstart := nat! (field hdr "sf"), blocks := bl, filters := fl }
    | ["import"] =>
      nimport := nimport + 1
      lastRes := obs
      if obs == "HANG" || obs == "PANIC" then
        out := out.push s!"ORACLE-FAIL C14 case {c.num} line {ln}: shape=import-{obs} import did not return normally"
      if let (some F, some st) := (file, mst) then
        if !diverged then
          let (e, r) := if nimport == 1 then importRunRF F cfg1 rf1 st else importRun F cfg2 st
          mst := some r.st
          if showErr e != obs then
            out := out.push s!"DIFF C14 case {c.num} line {ln}: import #{nimport} impl=<{obs}> model=<{showErr e}>"
            diverged := true
    | ["dump"] =>
      match parseObs obs, pre, file with
      | some post, some p, some F =>
        -- model vs implementation
        if let some st := mst then
          if !diverged then
            let m := showObs (obsOf st)
            if m != showObs post then
              out := out.push s!"DIFF C14 case {c.num} line {ln}: dump impl=<{showObs post}> model=<{m}>"
              diverged := true
        -- the property, on the implementation's own observations
        let shape := if f7Shape p F then "file-start-height-nonzero" else ""
        if nimport == 1 then
          post1 := some post
          firstOk := lastRes == "ok"
          if !usable p then
            if lastRes == "ok" || post != p then
              out := out.push s!"ORACLE-FAIL C14 case {c.num} line {ln}: shape={if shape == "" then "unusable-pre" else shape} stores were not usable before the import, yet it reported {lastRes} / changed them: {showObs post}"
          else if lastRes == "ok" then
            if !contentOk p F post then
              out := out.push s!"ORACLE-FAIL C14 case {c.num} line {ln}: shape={if shape == "" then "success-clause" else shape} import reported success but the stores are not their earlier contents extended by the file (start {F.bstart}, {F.blocks.length} headers): {showObs post}"
            else if !chainOk p post then
              out := out.push s!"ORACLE-FAIL C14 case {c.num} line {ln}: shape={if shape == "" then "success-unvalidated-header" else shape} import reported success but stored a block header that fails validation (link / proof of work / difficulty / timestamp; flag 0 in id:prev:valid) or does not connect to its predecessor: {showObs post}"
            else if !sampleOk p F then
              out := out.push s!"ORACLE-FAIL C14 case {c.num} line {ln}: shape={if shape == "" then "success-contradicts-existing" else shape} import reported success although the file contradicts the stores at the first or last overlapping height: {showObs post}"
          else if !failureOk p F post then
            if lastRes == "err cancel" && failContentOk p F post && !chainOk p post then
              out := out.push s!"ORACLE-FAIL C14 case {c.num} line {ln}: shape={if shape == "" then "cancelled-import-unvalidated" else shape} the import's context was cancelled (first noticed at poll {field hdr "cancel"}), it reported the failure, but the stores now hold a block header that fails validation or does not connect to its predecessor (flag 0 / prev in id:prev:valid): {showObs post}"
            else
              out := out.push s!"ORACLE-FAIL C14 case {c.num} line {ln}: shape={if shape == "" then "failure-clause" else shape} import reported {lastRes} and left the stores unusable/inconsistent/with unvalidated contents: {showObs post}"
        else if firstOk then
          if let some p1 := post1 then
            if !idempotentOk p1 (lastRes == "ok") post then
              out := out.push s!"ORACLE-FAIL C14 case {c.num} line {ln}: shape={if shape == "" then "not-idempotent" else shape} repeating a successful import gave {lastRes} and stores {showObs post}"
      | _, _, _ => out := out.push s!"ORACLE-FAIL C14 case {c.num} line {ln}: shape=unreadable-dump stores could not be dumped: {obs}"
    | _ => out := out.push s!"DIFF C14 case {c.num} line {ln}: unparsable op <{op}>"
  return out

end Driver.Drv.Import
