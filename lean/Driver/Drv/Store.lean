import Driver.Proto
import Neutrino.Spec.Store
import Neutrino.Model.StoreReads
open Neutrino.Store
namespace Driver.Drv.Store

def parseIds (ws : List String) : List Nat := ws.map nat!

def parseOpt (s : String) : Option Nat := if s == "?" then none else s.toNat?

/-- "h:id" -/
def parseTip (s : String) : Option (Nat × Option Nat) :=
  match s.splitOn ":" with
  | [h, i] => some (nat! h, parseOpt i)
  | _ => none

def parseDump (obs : String) : Option Dump :=
  match words obs with
  | "B" :: rest =>
    let (bs, rest) := bracket rest
    match rest with
    | "tb" :: tb :: "F" :: rest =>
      let (fs, rest) := bracket rest
      match rest with
      | ["tf", tf, "xb", xb, "gone", gone] =>
        some { blocks := bs.map parseOpt, tipB := parseTip tb, filters := fs.map parseOpt,
               tipF := parseTip tf, xb := xb == "ok", gone := gone == "ok" }
      | _ => none
    | _ => none
  | _ => none

def showOut : Out → String
  | .ok => "ok"
  | .err => "err"
  | .okTip h i => s!"ok {h}:{i}"
  | .okNone => "ok -"
  | .crashed => "crashed"

def showList (l : List Nat) : String := "[" ++ " ".intercalate (l.map toString) ++ "]"

def dumpOfDurable (d : Durable) : String :=
  -- what the harness would print for a durable state that satisfies `abs`
  let tip (l : List Nat) := match l.getLast? with
    | some x => s!"{l.length - 1}:{x}"
    | none => "err"
  s!"B {showList d.bf.ents} tb {tip d.bf.ents} F {showList d.ff.ents} tf {tip d.ff.ents} xb ok gone ok"

def parseInj (ws : List String) : Option Inj :=
  match ws with
  | ["crash", s, t] => some (.crash (nat! s) (nat! t))
  -- the step is carried out and the process dies right after it: for the modelled step order this is a
  -- crash before the next durable step (or, after the last step, an operation that completed unobserved)
  | ["crashafter", s] => some (.crash (nat! s + 1) 0)
  -- every fsync of the operation fails: the stores sync only while repairing a failed index transaction, so on
  -- its own this is no fault at all for the model (an operation that notices it has changed its durable steps)
  | ["fault", "syncerr", _, _] => some .none
  | ["fault", k, s, a] =>
    let kind := match k with
      | "shortwrite" => some FaultKind.shortwrite
      | "writeerr" => some FaultKind.writeerr
      | "truncerr" => some FaultKind.truncerr
      | "dberr" => some FaultKind.dberr
      | "dbcommit" => some FaultKind.dberr     -- body ran, commit failed: bbolt rolled back, same durable effect
      | _ => none
    kind.map (fun k => .fault k (nat! s) (nat! a))
  | _ => none

def parseOp (ws : List String) : Option Op :=
  match ws with
  | "wb" :: ids => some (.wb (parseIds ids))
  | "wf" :: ids => some (.wf (parseIds ids))
  | ["rb", n] => some (.rb (nat! n))
  | ["rf"] => some .rf
  | ["rollto", h] => some (.rollto (nat! h))
  | ["reopen"] => some .reopen
  | _ => none

def idxOf (l : List Nat) (x : Nat) : Option Nat :=
  let rec go : List Nat → Nat → Option Nat
    | [], _ => none
    | y :: ys, i => if y == x then some i else go ys (i + 1)
  go l 0

/-- the model's answer to a range read of the filter store (replayed on the durable state) -/
def modelFanc (d : Durable) (ws : List String) : Option String :=
  match ws with
  | ["fanc", n, id] =>
    some (match fetchFilterAncestors d (nat! n) (nat! id) with
      | some (s, hs) => s!"{s} {showList hs}"
      | none => "err")
  | _ => none

/-- what kind of answer a wrong read gave: fewer / other entries than the range holds, or an answer at all where the
range is not in the file -/
def readShape (ws : List String) (want obs : String) : String :=
  match ws with
  | ["fanc", _, _] | ["anc", _, _] =>
    if want == "err" then "shape=range-read-beyond-file " else "shape=range-read-wrong-entries "
  | _ => ""

/-- expected answer of a read, from the spec log -/
def readSpec (l : Log) (ws : List String) : Option String :=
  match ws with
  | ["hb", h] => some (match l.blocks[nat! h]? with | some id => toString id | none => "nf")
  | ["xb", id] => some (match idxOf l.blocks (nat! id) with | some h => toString h | none => "nf")
  | ["loc"] => some (showList ((locatorHeights (l.blocks.length - 1)).filterMap (l.blocks[·]?)))
  | ["anc", n, id] =>
    match idxOf l.blocks (nat! id) with
    | none => some "err"
    | some h =>
      let n := nat! n
      if n > h then some "err" else
      some s!"{h - n} {showList ((l.blocks.drop (h - n)).take (n + 1))}"
  | ["fanc", n, id] =>
    -- the filter store's ancestor range: the block's height from the list of blocks, the range from the list of
    -- filter headers; a range that is not entirely in that list is an error
    match idxOf l.blocks (nat! id) with
    | none => some "err"
    | some h =>
      let n := nat! n
      if n > h || h ≥ l.filters.length then some "err" else
      some s!"{h - n} {showList ((l.filters.drop (h - n)).take (n + 1))}"
  | ["xf", id] =>
    match idxOf l.blocks (nat! id) with
    | none => some "nf"
    | some h => some (match l.filters[h]? with | some f => toString f | none => "nf")
  | _ => none

def runCase : CaseFn := fun c => Id.run do
  let crashCase := c.header == ["store", "crashes"] || c.header == ["store", "init"]
  let pid := if crashCase then "C08" else "C07"
  let mut out : Array String := #[]
  -- "store init" cases begin in an empty data directory (the very first start is part of the case)
  let mut d : Durable := if c.header == ["store", "init"] then Neutrino.Store.empty else Neutrino.Store.init
  let mut log : Log := Log.init
  let mut inj : Inj := .none
  let mut diverged := false
  let mut unknown := false         -- spec state unknown (failed rollback under a fault) until reopen
  let mut pendingCrash : Option (Log × Op) := none
  let mut failedOp : Option (Log × Op) := none
  let mut afterMode := false
  let mut lastFailedAppend := false   -- the last mutating operation was an append that reported failure
  for (ln, line) in c.lines do
    let (opS, obs) := splitObs line
    let ws := words opS
    if ws.head? == some "legacy" then
      -- some index entries were moved into the root bucket (layout of older versions): invisible to the
      -- abstract index (C07_index_layout), so the model state stays as it is
      continue
    if obs == "" then
      match parseInj ws with
      | some i =>
        inj := i
        afterMode := ws.head? == some "crashafter"
      | none => out := out.push s!"DIFF {pid} case {c.num} line {ln}: unparsable directive <{line}>"
      continue
    if ws == ["nop"] then
      inj := .none
      afterMode := false
      continue
    if ws == ["dump"] then
      match parseDump obs with
      | none => out := out.push s!"ORACLE-FAIL {pid} case {c.num} line {ln}: store unusable: {obs}"
      | some dm =>
        match pendingCrash with
        | some (pre, op) =>
          pendingCrash := none
          if !recoveredOk pre op dm then
            let shape := if !dm.gone || !dm.xb then "shape=crash-left-index-and-file-apart " else ""
            out := out.push s!"ORACLE-FAIL C08 case {c.num} line {ln}: {shape}after a crash in <{repr op}> and restart the stores are not what they were before or after the interrupted step: {obs}"
          log := dm.toLog
        | none =>
          if unknown then
            -- only structural checks until the reopen
            pure ()
          else if !dm.matches log then
            let shape := if lastFailedAppend then
                (if dm.toLog == log && !dm.gone then "shape=failed-append-left-index-entries "
                 else "shape=failed-append-changed-store ") else ""
            out := out.push s!"ORACLE-FAIL {pid} case {c.num} line {ln}: {shape}store differs from the plain list (expected B {showList log.blocks} F {showList log.filters}): {obs}"
        if !diverged && !unknown then
          let m := dumpOfDurable d
          if abs d |>.isNone then
            out := out.push s!"DIFF {pid} case {c.num} line {ln}: model state is not well-formed here; impl=<{obs}>"
            diverged := true
          else if m != obs then
            out := out.push s!"DIFF {pid} case {c.num} line {ln}: dump impl=<{obs}> model=<{m}>"
            diverged := true
      continue
    match parseOp ws with
    | some op =>
      let armed := inj
      inj := .none
      let isAfter := afterMode
      afterMode := false
      -- model
      if !diverged then
        let (d', mo) := exec d op armed
        d := d'
        -- a crash right after the operation's last durable step: the model sees a completed operation
        let completedUnobserved := isAfter && obs == "crashed" && mo != .crashed
        if showOut mo != obs && !completedUnobserved then
          out := out.push s!"DIFF {pid} case {c.num} line {ln}: {opS} impl=<{obs}> model=<{showOut mo}>"
          diverged := true
      lastFailedAppend := obs == "err" && (match op with | .wb _ | .wf _ => true | _ => false)
      -- property oracle on the implementation's own report
      if obs == "crashed" then
        -- a restart that is killed as well keeps the obligation of the operation that was interrupted first
        if !(op == .reopen && pendingCrash.isSome) then
          pendingCrash := some (log, op)
      else if op == .reopen then
        if obs != "ok" then
          let shape := if c.header == ["store", "init"] then "shape=crash-during-first-init " else ""
          out := out.push s!"ORACLE-FAIL {pid} case {c.num} line {ln}: {shape}the stores cannot be opened ({obs})"
        if unknown then
          -- a rollback that failed under an injected fault is healed by this restart: like a crash inside it
          pendingCrash := failedOp
          unknown := false
      else if obs.startsWith "ok" then
        if !unknown then
          if !log.accepts op then
            out := out.push s!"ORACLE-FAIL {pid} case {c.num} line {ln}: {opS} succeeded but a list of {log.blocks.length} blocks / {log.filters.length} filter headers cannot do that"
          log := log.apply op
      else if obs == "err" then
        match op with
        | .wb _ | .wf _ => pure ()       -- C07: a failed append leaves the store as it was (checked by the next dump)
        | _ =>
          -- a refused rollback leaves the store unchanged; one that failed under an injected fault leaves it
          -- to be healed by the next reopen (not constrained by C07)
          if armed != .none then
            if !unknown then failedOp := some (log, op)
            unknown := true
          else if log.accepts op then
            out := out.push s!"ORACLE-FAIL {pid} case {c.num} line {ln}: {opS} failed without an injected fault"
      else
        out := out.push s!"ORACLE-FAIL {pid} case {c.num} line {ln}: {opS} => {obs}"
    | none =>
      match readSpec log ws with
      | some want =>
        if !unknown && pendingCrash.isNone && want != obs then
          out := out.push s!"ORACLE-FAIL {pid} case {c.num} line {ln}: {readShape ws want obs}read {opS} returned {obs}, the plain list says {want}"
        if !diverged && !unknown && pendingCrash.isNone then
          if let some m := modelFanc d ws then
            if m != obs then
              out := out.push s!"DIFF {pid} case {c.num} line {ln}: {opS} impl=<{obs}> model=<{m}>"
              diverged := true
      | none => out := out.push s!"DIFF {pid} case {c.num} line {ln}: unparsable op <{opS}>"
  return out

end Driver.Drv.Store
