import Driver.Proto
import Neutrino.Spec.GetBlock
open Neutrino Neutrino.GetBlock
namespace Driver.Drv.GetBlock

def parseResp (tok : String) : Option Resp :=
  match tok.splitOn ":" with
  | [p, kind, rid, hdr, smw, size] =>
    let fl := smw.toList
    some { peer := nat! p, isBlock := kind == "b", rid := nat! rid, hdr := nat! hdr,
           sane := fl.getD 0 '0' == '1', merkle := fl.getD 1 '0' == '1', wit := fl.getD 2 '0' == '1',
           size := nat! size }
  | [p, kind, rid, hdr, smw, size, sib] =>
    let fl := smw.toList
    some { peer := nat! p, isBlock := kind == "b", rid := nat! rid, hdr := nat! hdr,
           sane := fl.getD 0 '0' == '1', merkle := fl.getD 1 '0' == '1', wit := fl.getD 2 '0' == '1',
           size := nat! size, sib := nat! sib }
  | _ => none

def parseVerdict : String → Option Verdict
  | "nil" => some .nil
  | "err" => some .err
  | "quit" => some .quit
  | _ => none

def parseCall (ws : List String) : Option Call :=
  match ws with
  | "getblock" :: t :: known :: enc :: cont :: v :: rest =>
    let (toks, _) := bracket rest
    match parseVerdict v, toks.mapM parseResp with
    | some vd, some rs => some { target := nat! t, known := known == "1", base := enc == "1", resps := rs,
                                 cont := cont == "1", verdict := vd }
    | _, _ => none
  | _ => none

def parseEntry (s : String) : Lru.Entry :=
  match s.splitOn ":" with
  | [k, v, z] => ⟨nat! k, nat! v, nat! z⟩
  | [k, v, z, _] => ⟨nat! k, nat! v, nat! z⟩
  | _ => ⟨0, 0, 0⟩

/-- key of an entry whose 4th field says the cached block has another header hash -/
def otherHdrKey (s : String) : Option Nat :=
  match s.splitOn ":" with
  | [k, _, _, "0"] => some (nat! k)
  | _ => none

/-- `x` = {Finished: true, Progressed: false}: for the oracle it is a Finished (and a DIFF, see `badProg`) -/
def parseProg : String → Progress
  | "f" => .finished
  | "x" => .finished
  | _ => .none

structure ImplObs where
  obs     : Obs
  queries : Nat
  raw     : String     -- the q token
  badProg : Bool

def parseObs (s : String) : Option ImplObs :=
  match words s with
  | res :: q :: "prog" :: rest =>
    let (pr, rest) := bracket rest
    match rest with
    | "ban" :: rest =>
      let (bans, rest) := bracket rest
      match rest with
      | "cache" :: rest =>
        let (ents, _) := bracket rest
        let result : Option ObsResult :=
          match res.splitOn ":" with
          | ["ret", rid, hmw] =>
            let fl := hmw.toList
            some (.ret (nat! rid) (fl.getD 0 '0' == '1') (fl.getD 1 '0' == '1') (fl.getD 2 '0' == '1'))
          | ["err", kind] => some (.err kind)
          | _ => none
        result.map fun r =>
          { obs := { result := r, prog := pr.map parseProg, bans := bans.map nat!, cache := ents.map parseEntry,
                     cacheOther := ents.filterMap otherHdrKey },
            queries := nat! ((q.drop 1).toString.replace "!" ""), raw := q, badProg := pr.any (fun p => p != "n" && p != "f") }
      | _ => none
    | _ => none
  | _ => none

def dedupSorted (l : List Nat) : List Nat :=
  (Lru.sortNat l).foldr (fun x acc => match acc with
    | y :: _ => if x == y then acc else x :: acc
    | [] => [x]) []

def showNats (l : List Nat) : String := "[" ++ " ".intercalate (l.map toString) ++ "]"
def showEntry (e : Lru.Entry) : String := s!"{e.key}:{e.vid}:{e.size}"
def showProg : Progress → String
  | .none => "n"
  | .finished => "f"

def showModelResult : Result → String
  | .ret rid => s!"ret:{rid}"
  | .errNoHeader => "err:nohdr"
  | .errQuery => "err:query"
  | .errNotFound => "err:notfound"
  | .errQuit => "err:quit"

def showImplResult : ObsResult → String
  | .ret rid _ _ _ => s!"ret:{rid}"
  | .err k => s!"err:{k}"

def showModel (o : Outcome) : String :=
  s!"{showModelResult o.result} q{o.queries} prog [{" ".intercalate (o.prog.map showProg)}] ban {showNats (dedupSorted o.st.bans)} cache [{" ".intercalate (o.st.cache.items.reverse.map showEntry)}]"

def showImpl (i : ImplObs) : String :=
  s!"{showImplResult i.obs.result} q{i.queries} prog [{" ".intercalate (i.obs.prog.map showProg)}] ban {showNats i.obs.bans} cache [{" ".intercalate (i.obs.cache.map showEntry)}]"

def parseResult (res : String) : Option ObsResult :=
  match res.splitOn ":" with
  | ["ret", rid, hmw] =>
    let fl := hmw.toList
    some (.ret (nat! rid) (fl.getD 0 '0' == '1') (fl.getD 1 '0' == '1') (fl.getD 2 '0' == '1'))
  | ["err", kind] => some (.err kind)
  | _ => none

/-- `conc <enc> <cont> <verdict> [targets] [script]` -/
def parseConc (ws : List String) : Option (List Call) :=
  match ws with
  | "conc" :: enc :: cont :: v :: rest =>
    let (ts, rest) := bracket rest
    let (toks, _) := bracket rest
    match parseVerdict v, toks.mapM parseResp with
    | some vd, some rs => some (ts.map fun t =>
        { target := nat! t, known := true, base := enc == "1", resps := rs, cont := cont == "1", verdict := vd })
    | _, _ => none
  | _ => none

structure ConcObs where
  results : List ObsResult
  progs   : List (List Progress)
  bans    : List Nat
  cache   : List Lru.Entry
  cacheOther : List Nat

def parseConcObs (s : String) : Option ConcObs :=
  let (rs, rest) := bracket (words s)
  match rest with
  | _q :: "progs" :: rest =>
    let (ps, rest) := bracket rest
    match rest with
    | "ban" :: rest =>
      let (bans, rest) := bracket rest
      match rest with
      | "cache" :: rest =>
        let (ents, _) := bracket rest
        (rs.mapM parseResult).map fun results =>
          { results := results,
            progs := ps.map (fun p => if p == "-" || p == "." then [] else (p.splitOn ",").map parseProg),
            bans := bans.map nat!, cache := ents.map parseEntry, cacheOther := ents.filterMap otherHdrKey }
      | _ => none
    | _ => none
  | _ => none

def capOf (hdr : List String) : Nat :=
  match hdr with
  | _ :: "cap" :: c :: _ => nat! c
  | _ => 0

def runCase : CaseFn := fun c => Id.run do
  let mut out : Array String := #[]
  let mut st : State := init (capOf c.header)
  let mut diverged := false
  -- the implementation's own previous observation (for the oracle)
  let mut bansBefore : List Nat := []
  let mut cacheBefore : List Lru.Entry := []
  for (ln, line) in c.lines do
    let (op, obs) := splitObs line
    let ws := words op
    if ws == ["banstore"] then
      let (bl, _) := bracket (words obs)
      let real := bl.map nat!
      if real != bansBefore then
        out := out.push s!"DIFF C06 case {c.num} line {ln}: ban store on disk {showNats real} ≠ bans recorded during the calls {showNats bansBefore}"
      continue
    if ws.head? == some "conc" then
      if (obs.splitOn "HANG").length > 1 || (obs.splitOn "PANIC").length > 1 then
        out := out.push s!"ORACLE-FAIL C06 case {c.num} line {ln}: [shape=no-answer ] a concurrent GetBlock did not return: {obs}"
        diverged := true
        continue
      match parseConc ws, parseConcObs obs with
      | some calls, some co =>
        if calls.length != co.results.length then
          out := out.push s!"DIFF C06 case {c.num} line {ln}: {calls.length} callers, {co.results.length} results"
        let callers : List Caller := (calls.zip (co.results.zip co.progs)).map fun (cl, r, p) => { call := cl, result := r, prog := p }
        for tag in oracleConc callers bansBefore cacheBefore co.bans co.cache co.cacheOther do
          out := out.push s!"ORACLE-FAIL C06 case {c.num} line {ln}: [shape={tag} ] {op} => {obs}"
        bansBefore := co.bans
        cacheBefore := co.cache
        if !diverged then
          -- every caller finds the cache empty under its key and runs its own download
          let outs := calls.map (getBlock st)
          let mres := outs.map (fun o => showModelResult o.result)
          let ires := co.results.map showImplResult
          let mbans := dedupSorted (outs.foldl (fun acc o => acc ++ o.st.bans) st.bans)
          if mres != ires || mbans != co.bans then
            out := out.push s!"DIFF C06 case {c.num} line {ln}: impl=<{ires} ban {showNats co.bans}> model=<{mres} ban {showNats mbans}>"
          -- the order in which the callers' cache writes land is not determined: stop comparing
          st := calls.foldl (fun s cl => (getBlock s cl).st) st
          st := { st with bans := mbans }
          diverged := true
      | _, _ =>
        out := out.push s!"DIFF C06 case {c.num} line {ln}: unparsable line <{line}>"
        diverged := true
      continue
    if obs.startsWith "HANG" || obs.startsWith "PANIC" then
      out := out.push s!"ORACLE-FAIL C06 case {c.num} line {ln}: [shape=no-answer ] GetBlock did not return: {obs}"
      diverged := true
      continue
    match parseCall ws, parseObs obs with
    | some call, some io =>
      -- well-formedness of the harness's own predicate table: sane ⇒ merkle
      if call.resps.any (fun r => r.sane && !r.merkle) then
        out := out.push s!"DIFF C06 case {c.num} line {ln}: harness predicates inconsistent (sane without merkle)"
      if io.badProg || io.raw.endsWith "!" then
        out := out.push s!"DIFF C06 case {c.num} line {ln}: unexpected Progress value or request: {obs}"
      for tag in oracle call bansBefore cacheBefore io.obs do
        out := out.push s!"ORACLE-FAIL C06 case {c.num} line {ln}: [shape={tag} ] {op} => {obs}"
      bansBefore := io.obs.bans
      cacheBefore := io.obs.cache
      if !diverged then
        let o := getBlock st call
        st := o.st
        if showModel o != showImpl io then
          out := out.push s!"DIFF C06 case {c.num} line {ln}: impl=<{showImpl io}> model=<{showModel o}>"
          diverged := true
    | _, _ =>
      out := out.push s!"DIFF C06 case {c.num} line {ln}: unparsable line <{line}>"
      diverged := true
  return out

end Driver.Drv.GetBlock
