import Driver.Proto
import Neutrino.Spec.Converge
import Neutrino.Model.Locator
import Neutrino.Spec.Ban
import Driver.Drv.Ban
open Neutrino.Converge
namespace Driver.Drv.Net

/-
Trace lines (harness/netsim).  Case header: `<c04|c13|c15|c17> <name> ...`.
  peer <i> <kind> [args] [tx=<mode>]      => - | addr <ip> <port>
  sample                                  => best <h>:<id> btip <h>:<id> ftip <h>:<fid> current <0|1> banned [i…] conn [i…]
  waitsync                                => ok | timeout
  grow <n> / reorg <depth> <newlen>       => honest <h>:<id>
  announce                                => -
  cfilter <h>                             => true | false | err | HANG
  final                                   => <sample observation> chain <ok|bad@k|err> fchain <ok|bad@k|above-tip|err>
  asked <i>                               => getheaders <0|1> … lied <0|1>
  stop                                    => ok | HANG
  banpeer <i> / after                     => ok|err / <sample observation>                 (c13)
  misbehaved <i>                          => lied <n> <ip|nonip>   peer i has served a provably false message   (c13)
  release <i>                             => held | not-held   peer i completes its version handshake now   (c13)
  peerip / isbanned / ban / unban / redial  see harness/netsim/c13ops.go                      (c13s)
  sendtx / saw <i>                        => ok|err|HANG / invtx <0|1>                      (c15)
  label <i> <class> / rebroadcast         => <node> <CODE> <reason> / seen|not-seen       (c15 corpus scenarios)
  call <Name> / reopen                    => hung <k> / best … btip … ftip … chain … fchain … | err   (c17)
No model DIFF for the real schedule: the oracle of Neutrino/Spec/Converge.lean judges the observations; a DIFF
is reported only when the harness and this file disagree about ground truth (the honest tip after an event).
-/

def parseTip (s : String) : TipObs :=
  match s.splitOn ":" with
  | [h, id] => if h.isNat then .tip (nat! h) id else .err
  | _ => .err

def parseObs (ws : List String) : Option (Obs × List String) :=
  match ws with
  | "best" :: b :: "btip" :: bt :: "ftip" :: ft :: "current" :: c :: "banned" :: rest =>
    let (bn, rest) := bracket rest
    match rest with
    | "conn" :: rest =>
      let (cn, rest) := bracket rest
      some ({ best := parseTip b, btip := parseTip bt, ftip := parseTip ft, current := c == "1",
              banned := bn.map nat!, conn := cn.map nat! }, rest)
    | _ => none
  | _ => none

structure PeerX where
  spec : PeerSpec
  ip   : String := ""
  port : String := ""
  tx   : String := ""

def parsePeer (op : List String) (obs : String) : Option PeerX :=
  match op with
  | "peer" :: i :: kind :: args =>
    let tx := (args.find? (·.startsWith "tx=")).map (fun (s : String) => (s.drop 3).toString) |>.getD ""
    let args := args.filter (fun a => !a.startsWith "tx=" && !a.startsWith "gd=" && !a.startsWith "skew=")
    let k := Kind.ofString kind
    let sp : PeerSpec :=
      match k, args with
      | .lighterFork, [a, b] => { idx := nat! i, kind := k, a := nat! a, b := nat! b }
      | _, [a, v] => { idx := nat! i, kind := k, a := nat! a, variant := v }
      | .noServices, [v] => { idx := nat! i, kind := k, variant := v }
      | _, [a] => { idx := nat! i, kind := k, a := nat! a }
      | _, _ => { idx := nat! i, kind := k }
    match words obs with
    | ["addr", ip, port] => some { spec := sp, ip := ip, port := port, tx := tx }
    | _ => some { spec := sp, tx := tx }
  | _ => none

def showTip : TipObs → String
  | .err => "err"
  | .tip h id => s!"{h}:{id}"

/-- shape of a C04 fault given what is known about the case -/
def shapeOf (lone : Bool) (ps : List PeerSpec) (fault : String) : String :=
  let liveness := fault == "no-convergence" || fault == "no-filter-convergence" || fault == "liar-not-banned"
  if lone then "lone-liar-cfheaders"
  else if liveness && checkptOnlyLiar ps then "cfcheckpt-only-liar-stall"
  else if liveness && emptyHeadersPeer ps then "sync-peer-empty-headers-stall"
  else if earlyReturnShape ps && fault != "offchain-best" && fault != "offchain-block-tip" then
    "self-consistent-cfheaders-liar-not-block-checked"
  else fault

def runC04 (c : CaseIn) : Array String := Id.run do
  let len := match c.header with
    | _ :: _ :: "len" :: l :: _ => nat! l
    | _ => 0
  let mut g := Truth.init len
  let mut peers : List PeerSpec := []
  let mut out : Array String := #[]
  let mut seen : List String := []        -- fault names already reported for this case
  let mut prev : Option Obs := none
  let mut lone := false
  let mut sawBadF := false
  let mut pending : List (Nat × String × String) := []   -- (line, fault, text) reported at the end (shape needs `asked`)
  let mut final : Option (Nat × Obs × Bool × Bool × String) := none
  let mut finalSync : Option SyncObs := none
  let mut askedHdrs : List (Nat × Nat) := []
  for (ln, line) in c.lines do
    let (op, obs) := splitObs line
    let ws := words op
    match ws with
    | "peer" :: _ =>
      match parsePeer ws obs with
      | some px =>
        peers := peers ++ [px.spec]
        if px.spec.kind == .lighterFork then g := g.addFork px.spec.a px.spec.b
      | none => out := out.push s!"DIFF C04 case {c.num} line {ln}: unparsable peer line <{op}>"
    | ["sample"] =>
      match parseObs (words obs) with
      | some (o, _) =>
        let fs := sampleFaults g peers o
        if !sawBadF && fs.contains "false-filter-tip" then
          sawBadF := true
          lone := loneLiar peers prev o
        for f in fs do
          pending := pending ++ [(ln, f, obs)]
        prev := some o
      | none => out := out.push s!"DIFF C04 case {c.num} line {ln}: unparsable observation <{obs}>"
    | ["grow", n] =>
      g := g.grow (nat! n)
      let want := s!"honest {g.honestHeight}:{g.honestId}"
      if obs != want then out := out.push s!"DIFF C04 case {c.num} line {ln}: ground truth after {op}: harness <{obs}> oracle <{want}>"
    | ["reorg", d, n] =>
      g := g.reorg (nat! d) (nat! n)
      let want := s!"honest {g.honestHeight}:{g.honestId}"
      if obs != want then out := out.push s!"DIFF C04 case {c.num} line {ln}: ground truth after {op}: harness <{obs}> oracle <{want}>"
    | ["cfilter", _] =>
      if obs == "false" then pending := pending ++ [(ln, "false-cfilter-returned", op)]
      if obs == "HANG" then pending := pending ++ [(ln, "call-hang", op)]
    | ["final"] =>
      match parseObs (words obs) with
      | some (o, rest) =>
        match rest with
        | ["chain", ch, "fchain", fch] => final := some (ln, o, ch == "ok", fch == "ok", obs)
        | ["chain", ch, "fchain", fch, "sync", sy] =>
          final := some (ln, o, ch == "ok", fch == "ok", obs)
          finalSync := some (SyncObs.ofString sy)
        | _ => out := out.push s!"DIFF C04 case {c.num} line {ln}: unparsable final <{obs}>"
      | none => out := out.push s!"DIFF C04 case {c.num} line {ln}: unparsable final <{obs}>"
    | ["asked", i] =>
      let lied := (words obs).getLast? == some "1"
      peers := peers.map fun p => if p.idx == nat! i then { p with lied := lied } else p
      -- `getheaders <n> …`: how many getheaders requests this peer received from the client
      match words obs with
      | "getheaders" :: n :: _ => askedHdrs := askedHdrs ++ [(nat! i, nat! n)]
      | _ => pure ()
    | ["stop"] =>
      if obs == "HANG" then pending := pending ++ [(ln, "stop-hang", "Stop did not return within 15 s")]
    | ["setup"] | ["start"] =>
      out := out.push s!"DIFF C04 case {c.num} line {ln}: the simulation could not be set up: {obs}"
    | _ => pure ()
  match final with
  | some (ln, o, ch, fch, txt) =>
    for f in finalFaults g peers o ch fch do
      pending := pending ++ [(ln, f, txt)]
    -- the sync-peer bookkeeping at quiescence: honest peers that are connected while our block tip is behind are "ahead"
    if let some sy := finalSync then
      let behind := o.btip != TipObs.tip g.honestHeight g.honestId
      let ahead := if behind then (honestIdx peers).filter (o.conn.contains ·) else []
      for f in syncFaults sy o.conn ahead do
        pending := pending ++ [(ln, f, txt)]
  | none => out := out.push s!"DIFF C04 case {c.num} line 0: case has no final observation"
  -- recorded finding `synced-on-lighter-peer-higher-peer-never-asked`: the client finished its sync with a
  -- peer on a lighter branch, reports itself current on that (valid) branch, and never sent a getheaders to
  -- any honest peer although they were connected all along (they connected while it was not yet current,
  -- and the honest chain does not grow, so no inv ever arrives)
  let neverAsked := match final with
    | some (_, o, ch, _, _) =>
      ch && peers.any (·.kind == .lighterFork) && !(honestIdx peers).isEmpty &&
      (honestIdx peers).all (fun i => o.conn.contains i && askedHdrs.contains (i, 0))
    | none => false
  for (ln, f, txt) in pending do
    if !seen.contains f then
      seen := f :: seen
      let sh := shapeOf lone peers f
      let sh := if neverAsked && (f == "no-convergence" || f == "no-filter-convergence") && sh == f
        then "synced-on-lighter-peer-higher-peer-never-asked" else sh
      out := out.push s!"ORACLE-FAIL C04 case {c.num} line {ln}: shape={sh} {f}: honest tip {g.honestHeight}:{g.honestId}; observed {txt}"
  return out

/-! ### C13: no connected peer has a banned address -/

def runC13 (c : CaseIn) : Array String := Id.run do
  let mut peers : List PeerX := []
  let mut out : Array String := #[]
  let mut bannedBy : Option Nat := none
  let mut released : Option Nat := none   -- the peer that finished its version handshake only after the ban
  let mut misbehaved : List (Nat × Bool) := []   -- (peer, its address is not an IP literal)
  for (ln, line) in c.lines do
    let (op, obs) := splitObs line
    let ws := words op
    match ws with
    | "peer" :: _ => if let some px := parsePeer ws obs then peers := peers ++ [px]
    | ["banpeer", i] => bannedBy := some (nat! i)
    | ["release", i] => released := some (nat! i)
    | ["misbehaved", i] =>
      -- `lied <n> <ip|nonip>`: the peer served a provably false message; nonip: its address is not an IP literal
      match words obs with
      | ["lied", n, kind] => if n != "0" then misbehaved := misbehaved ++ [(nat! i, kind == "nonip")]
      | _ => pure ()
    | ["after"] =>
      match parseObs (words obs) with
      | some (o, _) =>
        let bad := o.conn.filter (o.banned.contains ·)
        -- a peer caught lying is dropped, also when its address admits no ban record
        for (i, _) in misbehaved do
          if o.conn.contains i then
            out := out.push s!"ORACLE-FAIL C13 case {c.num} line {ln}: shape=misbehaving-peer-still-connected peer {i} served a provably false message and is still connected: {obs}"
        if o.banned.isEmpty && !(!misbehaved.isEmpty && misbehaved.all (·.2)) then
          out := out.push s!"ORACLE-FAIL C13 case {c.num} line {ln}: shape=misbehaving-peer-not-banned nobody is banned after the ban event: {obs}"
        for i in bad do
          -- the peer the ban was aimed at: named by `banpeer`, else the lowest banned index
          let target := bannedBy.getD (o.banned.headD 0)
          let ipOf (k : Nat) := ((peers.find? (·.spec.idx == k)).map (·.ip)).getD ""
          let portOf (k : Nat) := ((peers.find? (·.spec.idx == k)).map (·.port)).getD ""
          let shape := if released == some i then "banned-ip-admitted-after-handshake"
            else if i != target && ipOf i == ipOf target && portOf i != portOf target
            then "banpeer-same-ip-other-port" else "banned-peer-connected"
          out := out.push s!"ORACLE-FAIL C13 case {c.num} line {ln}: shape={shape} peer {i} ({ipOf i}:{portOf i}) is still connected although its address is banned (ban aimed at peer {target}, {ipOf target}:{portOf target}): {obs}"
        -- a ban is per IP: every listed peer sharing the IP of a banned peer is reported banned as well
        for px in peers do
          if !o.banned.contains px.spec.idx &&
              peers.any (fun q => o.banned.contains q.spec.idx && q.ip == px.ip && q.ip != "") then
            out := out.push s!"ORACLE-FAIL C13 case {c.num} line {ln}: shape=ban-not-per-ip peer {px.spec.idx} ({px.ip}:{px.port}) is reported not banned although another address of the same IP is banned: {obs}"
        -- a peer that does not offer both WITNESS and CF is banned and not kept
        for px in peers do
          if px.spec.kind == .noServices && (!o.banned.contains px.spec.idx || o.conn.contains px.spec.idx) then
            -- (a peer whose handshake stops right after its version message, or that hangs up right after it,
            --  has told us what it offers: the ban is due from the version message on)
            let stalled := (px.spec.variant.splitOn "-").length > 1
            out := out.push s!"ORACLE-FAIL C13 case {c.num} line {ln}: shape={if stalled then "unsuitable-peer-not-banned-at-version" else "peer-lacking-service-kept"} peer {px.spec.idx} does not offer {px.spec.variant} but is {if o.conn.contains px.spec.idx then "connected" else "not connected"} and {if o.banned.contains px.spec.idx then "banned" else "not banned"}: {obs}"
      | none => out := out.push s!"DIFF C13 case {c.num} line {ln}: unparsable observation <{obs}>"
    | ["asked", i] =>
      -- ... and is never used for a query
      match peers.find? (·.spec.idx == nat! i), words obs with
      | some px, ["getheaders", a, "getcfcheckpt", b, "getcfheaders", c', "getcfilters", d, "getdata", e, "sessions", _, "lied", _] =>
        if px.spec.kind == .noServices && [a, b, c', d, e].any (· != "0") then
          out := out.push s!"ORACLE-FAIL C13 case {c.num} line {ln}: shape=peer-lacking-service-queried peer {i} does not offer {px.spec.variant} but was sent requests: {obs}"
      | _, _ => pure ()
    | ["stop"] => if obs == "HANG" then out := out.push s!"ORACLE-FAIL C13 case {c.num} line {ln}: shape=stop-hang Stop did not return"
    | ["setup"] | ["start"] => out := out.push s!"DIFF C13 case {c.num} line {ln}: the simulation could not be set up: {obs}"
    | _ => pure ()
  return out

/-! ### C13 at the ChainService level: IsBanned / BanPeer / UnbanPeer over spellings, and the reconnect path -/

def targetOfHex (h : String) : Neutrino.Ban.Target :=
  { via := .parse, ip := Driver.Drv.Ban.parseHex h, mask := none }

def runC13s (c : CaseIn) : Array String := Id.run do
  let mut out : Array String := #[]
  let mut banned : Neutrino.Ban.BanSet := []
  let mut peerIds : List (Nat × Option Neutrino.Ban.NetId) := []
  for (ln, line) in c.lines do
    let (op, obs) := splitObs line
    match words op with
    | ["peerip", i] => peerIds := peerIds ++ [(nat! i, Neutrino.Ban.idOf (targetOfHex obs))]
    | "isbanned" :: h :: text =>
      if obs != "0" && obs != "1" then
        out := out.push s!"ORACLE-FAIL C13 case {c.num} line {ln}: shape=call-hang IsBanned({text}) => {obs}"
      else if !Neutrino.Ban.isBannedOk banned (targetOfHex h) (obs == "1") then
        let shape := if obs == "1" then "isbanned-true-for-unbanned-ip" else "isbanned-false-for-banned-ip"
        out := out.push s!"ORACLE-FAIL C13 case {c.num} line {ln}: shape={shape} IsBanned({" ".intercalate text}) = {obs}, but by the history of BanPeer/UnbanPeer calls the IP {h} is {if obs == "1" then "not banned" else "banned"}"
    | "ban" :: h :: text =>
      match Neutrino.Ban.idOf (targetOfHex h) with
      | some id =>
        banned := banned.ban id
        if obs != "ok" then
          out := out.push s!"ORACLE-FAIL C13 case {c.num} line {ln}: shape=banpeer-failed BanPeer({" ".intercalate text}) => {obs}"
      | none =>
        if obs == "ok" then
          out := out.push s!"ORACLE-FAIL C13 case {c.num} line {ln}: shape=banpeer-unparsable-ok BanPeer({" ".intercalate text}) => ok"
    | "unban" :: h :: _ =>
      -- the store call precedes the reconnect attempt whose error UnbanPeer returns: the result is not judged
      match Neutrino.Ban.idOf (targetOfHex h) with
      | some id => banned := banned.unban id
      | none => pure ()
    | ["after"] =>
      match parseObs (words obs) with
      | some (o, _) =>
        for (i, id?) in peerIds do
          match id? with
          | some id =>
            let isB := banned.contains id
            if isB && o.conn.contains i then
              out := out.push s!"ORACLE-FAIL C13 case {c.num} line {ln}: shape=banned-ip-connected peer {i} is connected although its IP is banned: {obs}"
            if isB != o.banned.contains i then
              out := out.push s!"ORACLE-FAIL C13 case {c.num} line {ln}: shape={if isB then "isbanned-false-for-banned-ip" else "isbanned-true-for-unbanned-ip"} IsBanned(address of peer {i}) = {if o.banned.contains i then 1 else 0}: {obs}"
          | none => pure ()
      | none => out := out.push s!"DIFF C13 case {c.num} line {ln}: unparsable observation <{obs}>"
    | ["stop"] => if obs == "HANG" then out := out.push s!"ORACLE-FAIL C13 case {c.num} line {ln}: shape=stop-hang Stop did not return"
    | ["setup"] | ["start"] => out := out.push s!"DIFF C13 case {c.num} line {ln}: the simulation could not be set up: {obs}"
    | _ => pure ()
  return out

/-! ### C15: a broadcast fails only if every replying peer rejected it or the invalid share reaches the threshold -/

/-- ground-truth class of what peer `p` does with the transaction: `accept` (asks for it, stays
silent), `none` (never asks for it), or the hand-written class of its reject message
(`label i <class>` lines of the corpus scenarios: mempool | confirmed | invalid | fee | other) -/
def txClass (labels : List (Nat × String)) (p : PeerX) : String :=
  match p.tx with
  | "accept" => "accept"
  | "reject" => "invalid"
  | "reject-with" => (labels.find? (·.1 == p.spec.idx)).map (·.2) |>.getD "other"
  | _ => "none"

def runC15 (c : CaseIn) : Array String := Id.run do
  let mut peers : List PeerX := []
  let mut labels : List (Nat × String) := []
  let mut sent := ""
  let mut out : Array String := #[]
  for (ln, line) in c.lines do
    let (op, obs) := splitObs line
    let ws := words op
    -- from the scripted behaviours: who asks for the tx (getdata) and what each of them answers
    let classes := (peers.map (txClass labels)).filter (· != "none")
    let invalid := (classes.filter (· == "invalid")).length
    let nrep := classes.length
    let allRepliersReject := nrep > 0 && classes.all (· != "accept")
    -- invalid / repliers ≥ 0.6  ⇔  5·invalid ≥ 3·repliers
    let threshold := nrep > 0 && 5 * invalid ≥ 3 * nrep
    let inMempool := nrep > 0 && classes.all (fun k => k == "accept" || k == "mempool") && classes.any (· == "mempool")
    match ws with
    | "peer" :: _ => if let some px := parsePeer ws obs then peers := peers ++ [px]
    | ["label", i, cls] => labels := labels ++ [(nat! i, cls)]
    | ["sendtx"] =>
      sent := obs
      let mayFail := allRepliersReject || threshold
      if obs == "HANG" then
        out := out.push s!"ORACLE-FAIL C15 case {c.num} line {ln}: shape=broadcast-hang SendTransaction did not return"
      else if obs == "err" && inMempool then
        out := out.push s!"ORACLE-FAIL C15 case {c.num} line {ln}: shape=mempool-tx-not-rebroadcast SendTransaction failed although every one of the {nrep} replying peer(s) accepted the transaction or answered that it is already in its mempool ({(classes.filter (· == "mempool")).length} mempool answers): the transaction is dropped instead of being rebroadcast"
      else if obs == "err" && !mayFail then
        let rejecters := peers.filter fun p => p.tx == "reject" || p.tx == "reject-nogetdata" || p.tx == "reject-with"
        let nonReplier := rejecters.any fun p => p.tx == "reject-nogetdata"
        let shape := if nonReplier then "reject-from-non-replier" else "verdict"
        out := out.push s!"ORACLE-FAIL C15 case {c.num} line {ln}: shape={shape} broadcast reported failed although {nrep} peer(s) requested the transaction, {(classes.filter (· != "accept")).length} of them rejected it, and {invalid} called it invalid (rejections came from {rejecters.length} peer(s), {(rejecters.filter fun p => p.tx == "reject-nogetdata").length} of which never requested it)"
      else if obs == "ok" && threshold then
        out := out.push s!"ORACLE-FAIL C15 case {c.num} line {ln}: shape=invalid-threshold-not-honoured SendTransaction succeeded although {invalid} of the {nrep} replying peers called the transaction invalid (share ≥ 0.6)"
    | ["rebroadcast"] =>
      if sent == "ok" && obs != "seen" then
        let shape := if inMempool then "mempool-tx-not-rebroadcast" else "accepted-tx-not-rebroadcast"
        out := out.push s!"ORACLE-FAIL C15 case {c.num} line {ln}: shape={shape} the broadcast was accepted but the transaction was not announced again after the next block"
      else if sent == "err" && obs == "seen" then
        out := out.push s!"ORACLE-FAIL C15 case {c.num} line {ln}: shape=rejected-tx-rebroadcast the broadcast failed but the transaction was announced again after the next block"
    | ["stop"] => if obs == "HANG" then out := out.push s!"ORACLE-FAIL C15 case {c.num} line {ln}: shape=stop-hang Stop did not return"
    | ["setup"] | ["start"] => out := out.push s!"DIFF C15 case {c.num} line {ln}: the simulation could not be set up: {obs}"
    | _ => pure ()
  return out

/-! ### C17: Stop returns, every call returns, the directory reopens sane -/

def peerQueryCalls : List String :=
  ["ConnectedCount", "Peers", "AddedNodeInfo", "OutboundGroupCount", "ForAllPeers"]

def runC17 (c : CaseIn) : Array String := Id.run do
  let len := match c.header with
    | _ :: _ :: "len" :: l :: _ => nat! l
    | _ => 0
  let g := Truth.init len
  let name := c.header.getD 1 ""
  let mut out : Array String := #[]
  let mut stopHung := false
  for (ln, line) in c.lines do
    let (op, obs) := splitObs line
    let ws := words op
    match ws with
    | ["stop"] =>
      if obs == "HANG" then
        stopHung := true
        let shape := if name == "stop" then "stop-hang" else name
        out := out.push s!"ORACLE-FAIL C17 case {c.num} line {ln}: shape={shape} Stop did not return within 15 s ({" ".intercalate c.header})"
      else match words obs with
        -- `HANG <site>`: the scenario names the function the goroutine Stop waits for is parked in
        | ["HANG", site] =>
          stopHung := true
          out := out.push s!"ORACLE-FAIL C17 case {c.num} line {ln}: shape={site} Stop did not return within 15 s, blocked behind {site} ({" ".intercalate c.header})"
        | _ => pure ()
    | ["call", call] =>
      match words obs with
      | ["hung", k] =>
        if nat! k > 0 && !stopHung then
          let shape := if name != "stop" then name
            else if peerQueryCalls.contains call then "query-reply-lost-at-stop" else s!"call-hang-{call}"
          out := out.push s!"ORACLE-FAIL C17 case {c.num} line {ln}: shape={shape} {k} call(s) of {call} had not returned 3 s after Stop returned"
      | ["HANG"] =>
        let shape := if name != "stop" then name else s!"call-hang-{call}"
        out := out.push s!"ORACLE-FAIL C17 case {c.num} line {ln}: shape={shape} {call} did not return within 3 s"
      | _ => pure ()
    | ["reopen"] =>
      match words obs with
      | ["best", b, "btip", bt, "ftip", ft, "chain", ch, "fchain", fch] =>
        let ok := g.safeBlockTip (parseTip b) && g.safeBlockTip (parseTip bt) && g.safeFilterTip (parseTip ft) &&
          ch == "ok" && fch == "ok" && tipHeight (parseTip ft) ≤ tipHeight (parseTip bt) &&
          parseTip b != .err && parseTip bt != .err && parseTip ft != .err
        if !ok then
          out := out.push s!"ORACLE-FAIL C17 case {c.num} line {ln}: shape=reopen-inconsistent the data directory reopened after Stop is not a valid chain state: {obs}"
      | _ => out := out.push s!"ORACLE-FAIL C17 case {c.num} line {ln}: shape=reopen-failed the data directory could not be reopened after Stop: {obs}"
    | ["setup"] | ["start"] => out := out.push s!"DIFF C17 case {c.num} line {ln}: the simulation could not be set up: {obs}"
    | _ => pure ()
  return out

/-! ### c04s: the block manager's sync-peer bookkeeping driven event by event (harness/syncdrv)

  <event> => sync <none|k> cand [k…] tip <h>:<id> synced <0|1>
  final   => sync … cand […] tip <h>:<id> synced <0|1> honest <h>:<id> ahead [k…]
After EVERY handler step the sync peer must be one of the connected candidates or none; at the end (every
request answered, the honest peer has announced its tip) the tip is the honest tip and a missing sync peer
is only acceptable when no connected candidate is ahead. -/

def parseSyncState (ws : List String) : Option (SyncObs × List Nat × String × List String) :=
  match ws with
  | "sync" :: sy :: "cand" :: rest =>
    let (cand, rest) := bracket rest
    match rest with
    | "tip" :: tip :: "synced" :: _ :: rest => some (SyncObs.ofString sy, cand.map nat!, tip, rest)
    | _ => none
  | _ => none

def runC04s (c : CaseIn) : Array String := Id.run do
  let mut out : Array String := #[]
  let mut seen : List String := []
  for (ln, line) in c.lines do
    let (op, obs) := splitObs line
    let ws := words op
    if ws == ["setup"] then
      out := out.push s!"DIFF C04 case {c.num} line {ln}: the block manager could not be set up: {obs}"
      continue
    -- `req <k> loc [<h>|x …] fork <f> peer <ph> => start <s> n <cnt> new <m>`: one getheaders of the client as the asked
    -- node saw it, and the answer it got.  Model replay (Neutrino/Model/Locator.lean): where the answer starts, how long
    -- it is, how much of it is new.  Oracle (the client's own request, the peer's own answer): a request to a peer that
    -- has blocks above the fork point must teach the client at least one header.
    if ws.head? == some "req" then
      match ws with
      | "req" :: k :: "loc" :: rest =>
        let (loc, rest) := bracket rest
        match rest, words obs with
        | ["fork", f, "peer", ph], ["start", st, "n", n, "new", m] =>
          let l : List (Option Nat) := loc.map fun (x : String) => x.toNat?
          let (f, ph, st, n, m) := (nat! f, nat! ph, nat! st, nat! n, nat! m)
          let wantS := Neutrino.Locator.startOf l
          let wantN := Neutrino.Locator.count 2000 ph wantS
          let wantM := Neutrino.Locator.newCount 2000 ph f l
          if n != wantN || (n != 0 && st != wantS) || m != wantM then
            out := out.push s!"DIFF C04 case {c.num} line {ln}: answer to the request: harness <start {st} n {n} new {m}> model <start {wantS} n {wantN} new {wantM}>"
          if m == 0 && ph > f && !seen.contains "request-learns-nothing" then
            seen := "request-learns-nothing" :: seen
            out := out.push s!"ORACLE-FAIL C04 case {c.num} line {ln}: shape=request-learns-nothing the getheaders sent to peer {k} (which serves {ph - f} block(s) above the fork point {f}) is answered with {n} header(s) from height {st}, all of them known: nothing is learned ({" ".intercalate c.header}): {op}"
        | _, _ => out := out.push s!"DIFF C04 case {c.num} line {ln}: unparsable request line <{line}>"
      | _ => out := out.push s!"DIFF C04 case {c.num} line {ln}: unparsable request line <{line}>"
      continue
    match parseSyncState (words obs) with
    | none => out := out.push s!"DIFF C04 case {c.num} line {ln}: unparsable observation <{obs}>"
    | some (sy, cand, tip, rest) =>
      let mut faults : List String := []
      if ws == ["final"] then
        match rest with
        | "honest" :: ht :: "ahead" :: rest' =>
          let (ahead, rest'') := bracket rest'
          -- rigs with real peers also report who has been asked for the headers after our tip
          let (notAsked, rest3) := match rest'' with
            | "asked" :: r3 => let (asked, r4) := bracket r3; (aheadNotAsked (ahead.map nat!) (asked.map nat!), r4)
            | _ => ([], rest'')
          -- peers a handler disconnected although everything they serve was valid at that time
          let dropped := match rest3 with
            | "dropped-valid" :: r5 => let (d, _) := bracket r5; if d.isEmpty then [] else ["valid-peer-dropped"]
            | _ => []
          faults := syncFaults sy cand (ahead.map nat!) ++ (if tip == ht then [] else ["no-convergence"]) ++ notAsked ++ dropped
        | _ => out := out.push s!"DIFF C04 case {c.num} line {ln}: unparsable final <{obs}>"
      else
        -- mid-run only the membership clause is an invariant (a reselection may be one handler step away)
        faults := (syncFaults sy cand []).filter (· == "sync-peer-not-connected")
      for f in faults do
        if !seen.contains f then
          seen := f :: seen
          let shape := if staleTipLevelSyncPeer (c.header.getD 1 "") then "stale-tip-higher-peer-ignored" else f
          out := out.push s!"ORACLE-FAIL C04 case {c.num} line {ln}: shape={shape} {f} after `{op}` ({" ".intercalate c.header}): {obs}"
  return out

def runCase : CaseFn := fun c =>
  match c.header.headD "" with
  | "c04" => runC04 c
  | "c13" => runC13 c
  | "c13s" => runC13s c
  | "c15" => runC15 c
  | "c17" => runC17 c
  | "c04s" => runC04s c
  | h => #[s!"DIFF C04 case {c.num} line 0: unknown case kind <{h}>"]

end Driver.Drv.Net
