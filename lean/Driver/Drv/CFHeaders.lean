import Driver.Proto
import Neutrino.Spec.CFHeaders
import Neutrino.Spec.CFSanity
import Neutrino.Model.VerifyFilter
import Std.Data.HashMap
open Neutrino.CFHeaders
namespace Driver.Drv.CFHeaders

/-- everything the trace declared so far -/
structure Env where
  tf    : Std.HashMap Nat Nat := {}
  fblk  : Std.HashMap Nat Nat := {}   -- filter id → the block it is a filter of
  htab  : Std.HashMap (Nat × Nat) Nat := {}
  np    : Nat := 0
  disc  : Bool := false
  hard  : List (Nat × Nat) := []
  -- the scripted network of the next round
  resps : List (Nat × Msg) := []
  fl    : List ((Nat × Nat) × Option Nat) := []
  vf    : List ((Nat × Nat) × VRes) := []
  gb    : List Nat := []
  gt    : List ((Nat × Nat) × Bool) := []   -- ground truth: filter omits an output script of the block
  cpl   : List (Nat × List Nat) := []
  evs   : List CpEv := []

def Env.H (e : Env) : FHash → Hdr → Hdr :=
  fun f p => (e.htab.get? (f, p)).getD (1000000000 + f * 100003 + p)

def Env.clearRound (e : Env) : Env := { e with resps := [], fl := [], vf := [], gb := [], gt := [], cpl := [], evs := [] }

/-- `vb` row: the block as `VerifyBasicBlockFilter` classifies it, with the real filter's `Match` answers -/
def parseVb (toks : List String) : List Neutrino.VerifyFilter.Tx × List (Nat × Option Bool) := Id.run do
  let mut txs : Array Neutrino.VerifyFilter.Tx := #[]
  let mut cur : Option Neutrino.VerifyFilter.Tx := none
  let mut mem : List (Nat × Option Bool) := []
  let ans (m : String) : Option Bool := if m == "1" then some true else if m == "0" then some false else none
  for t in toks do
    if t == "T" then
      if let some c := cur then txs := txs.push c
      cur := some ⟨[], []⟩
    else
      let c := cur.getD ⟨[], []⟩
      match t.splitOn ":" with
      | ["oe"] => cur := some { c with outs := c.outs ++ [⟨.empty, 0⟩] }
      | ["or", s, m] => cur := some { c with outs := c.outs ++ [⟨.opret, nat! s⟩] }; mem := (nat! s, ans m) :: mem
      | ["oo", s, m] => cur := some { c with outs := c.outs ++ [⟨.ord, nat! s⟩] }; mem := (nat! s, ans m) :: mem
      | ["in"] => cur := some { c with ins := c.ins ++ [⟨.nowit, 0⟩] }
      | ["iu"] => cur := some { c with ins := c.ins ++ [⟨.unsupported, 0⟩] }
      | ["if"] => cur := some { c with ins := c.ins ++ [⟨.failed, 0⟩] }
      | ["ic", s, m] => cur := some { c with ins := c.ins ++ [⟨.computed, nat! s⟩] }; mem := (nat! s, ans m) :: mem
      | _ => pure ()
  if let some c := cur then txs := txs.push c
  return (txs.toList, mem)

def optNat (s : String) : Option Nat := if s == "-" then none else s.toNat?

def insertAll (x : Nat) : List Nat → List (List Nat)
  | [] => [[x]]
  | y :: ys => (x :: y :: ys) :: (insertAll x ys).map (y :: ·)

def perms : List Nat → List (List Nat)
  | [] => [[]]
  | x :: xs => (perms xs).flatMap (insertAll x)

def Env.allPeers (e : Env) : List Nat := (List.range e.np).map (· + 1)

/-- the iteration orders of the peer map worth distinguishing: one, unless some
peer sends the all-zero hash as previous header (the sentinel of resolveConflict's baseline
test; the mismatch test no longer has one) -/
def Env.orders (e : Env) : List (List Nat) :=
  if e.resps.any (fun r => r.2.prev == 0) then perms e.allPeers else [e.allPeers]

def Env.net (e : Env) (pick : Nat) (order : List Nat := e.allPeers) : Net :=
  { peers := order
    resps := fun p => (e.resps.filter (·.1 == p)).map (·.2)
    served := fun p h => ((e.fl.find? (fun x => x.1 == (p, h))).map (·.2)).getD none
    verify := fun f h => ((e.vf.find? (fun x => x.1 == (f, h))).map (·.2)).getD (.ok 0)
    getBlock := fun h => !e.gb.contains h
    pick := pick }

structure Dump where
  btH  : Option Nat := none
  btB  : String := ""
  ftH  : Option Nat := none
  fs   : List Nat := []
  bans : List String := []
  ntf  : List String := []

def parseDump (s : String) : Option Dump :=
  match words s with
  | "bt" :: bt :: "ft" :: ft :: "fs" :: rest =>
    let (fs, rest) := bracket rest
    match rest with
    | "bans" :: rest =>
      let (bans, rest) := bracket rest
      match rest with
      | "ntf" :: rest =>
        let (ntf, _) := bracket rest
        let (bh, bb) := match bt.splitOn ":" with
          | [a, b] => (a.toNat?, b)
          | _ => (none, "")
        some { btH := bh, btB := bb, ftH := ft.toNat?, fs := fs.map nat!, bans := bans, ntf := ntf }
      | _ => none
    | _ => none
  | _ => none

def sortStr (l : List String) : List String := (l.toArray.qsort (· < ·)).toList

def showNtf : Ntf → String
  | .conn h b => s!"c{h}:{b}"
  | .disc h b => s!"d{h}:{b}"

/-- the model's version of the harness dump: `old` is the state before the operation -/
def showSt (old s : St) : String :=
  let bans := sortStr ((s.bans.drop old.bans.length).map (fun b => s!"{b.1}:{b.2}"))
  let ntf := (s.ntf.drop old.ntf.length).map showNtf
  s!"bt {s.blocks.length - 1}:{(s.blocks.getLast?).getD 0} ft {s.fstore.length - 1} fs [{" ".intercalate (s.fstore.map toString)}] bans [{" ".intercalate bans}] ntf [{" ".intercalate ntf}]"

def showT : TOut → String
  -- observation classes carry no message text: success, the harness's own injected
  -- GetBlock failure (recognised by identity), or "an error"
  | .nil => "nil" | .errGetBlock => "err getblock" | _ => "err"

def showW : WOut → String
  | .ok l h => s!"ok {l} {h}" | _ => "err"

def showRC : RCOut → String
  | .ok l => s!"ok [{" ".intercalate (l.map toString)}]"
  | .t e => showT e | _ => "err"

def Env.hardFn (e : Env) : Nat → Option Nat := fun h => (e.hard.find? (·.1 == h)).map (·.2)

def peersOfBans (l : List String) : List Nat :=
  l.map (fun s => nat! ((s.splitOn ":").headD "0"))

def trueFs (e : Env) (chain : List Nat) : List Nat :=
  -- true filter headers of `chain` (heights 1..), starting from the genesis header 1
  let rec go (prev : Nat) : List Nat → List Nat
    | [] => []
    | b :: bs => let h := e.H ((e.tf.get? b).getD 0) prev; h :: go h bs
  1 :: go 1 (chain.drop 1)

/-- observation-level: does a served checkpoint list contradict a hard-coded filter-header
checkpoint (entry `i` of a list is the filter header at height `(i+1)*1000`)? -/
def cpListContradictsObs (hard : List (Nat × Nat)) (l : List Nat) : Bool :=
  hard.any (fun c => c.1 % 1000 == 0 && c.1 ≥ 1000 &&
    match l[c.1 / 1000 - 1]? with
    | some x => x != c.2
    | none => false)

def runCase : CaseFn := fun c => Id.run do
  let mut out : Array String := #[]
  let mut e : Env := {}
  -- header: <kind> np <k> disc <0|1> [cp <h>:<hdr> ...]
  match c.header with
  | _ :: "np" :: k :: "disc" :: d :: rest =>
    e := { e with np := nat! k, disc := d == "1" }
    let mut hard : List (Nat × Nat) := []
    for w in rest do
      match w.splitOn ":" with
      | [a, b] => if a.toNat?.isSome then hard := hard ++ [(nat! a, nat! b)]
      | _ => pure ()
    e := { e with hard := hard }
  | _ => out := out.push s!"DIFF C03 case {c.num} line 0: bad case header"
  let mut st : St := { discBanned := e.disc }
  let mut diverged := false
  -- oracle state (from the implementation's own observations and the ground truth only)
  let mut chain : List Nat := [0]
  let mut oldFs : List Nat := [1]
  let mut oldBt : Nat := 0
  let mut banned : List Nat := []
  let mut resolveHonest := false   -- the last successful resolveConflict had an unbanned full true list among its inputs
  for (ln, line) in c.lines do
    let (op, obs) := splitObs line
    let ws := words op
    let fail (shape msg : String) : String :=
      s!"ORACLE-FAIL C03 case {c.num} line {ln}: shape={shape} {msg} :: {op} => {obs}"
    match ws with
    | ["blk", b, f] => e := { e with tf := e.tf.insert (nat! b) (nat! f), fblk := e.fblk.insert (nat! f) (nat! b) }
    | ["fb", f, b] => e := { e with fblk := e.fblk.insert (nat! f) (nat! b) }
    | ["hdr", i, f, p] => e := { e with htab := e.htab.insert (nat! f, nat! p) (nat! i) }
    | ["atom", _] => pure ()
    | "resp" :: p :: so :: prev :: rest =>
      let (fs, _) := bracket rest
      e := { e with resps := e.resps ++ [(nat! p, { stopOk := so == "1", prev := nat! prev, hashes := fs.map nat! })] }
    | ["fl", p, h, f] => e := { e with fl := e.fl ++ [((nat! p, nat! h), optNat f)] }
    | ["vf", h, f, r] =>
      e := { e with vf := e.vf ++ [((nat! f, nat! h), if r == "b" then VRes.bad else VRes.ok (nat! r))] }
    | ["gb", h] => e := { e with gb := nat! h :: e.gb }
    | ["gt", h, f, r] =>
      e := { e with gt := e.gt ++ [((nat! f, nat! h), r == "o")] }
      -- the verdict of the real VerifyBasicBlockFilter (vf row) against the ground truth
      match e.vf.find? (fun x => x.1 == (nat! f, nat! h)) with
      | some (_, v) =>
        if r == "o" && v != VRes.bad then
          out := out.push s!"ORACLE-FAIL C03 case {c.num} line {ln}: shape=verify-accepts-omitting-filter VerifyBasicBlockFilter accepted filter {f} for the block at height {h} although it omits an output script of that block :: {line}"
        if r == "k" && v == VRes.bad then
          out := out.push s!"ORACLE-FAIL C03 case {c.num} line {ln}: shape=verify-rejects-complete-filter VerifyBasicBlockFilter rejected filter {f} for the block at height {h} although it contains every output script :: {line}"
      | none => pure ()
    | "vb" :: h :: f :: toks =>
      -- the model of VerifyBasicBlockFilter on the block's structure and the real Match answers, against the real verdict
      let (txs, memL) := parseVb toks
      let mem : Nat → Option Bool := fun s => ((memL.find? (·.1 == s)).map (·.2)).getD (some false)
      let mtxt := match Neutrino.VerifyFilter.verify mem txs with
        | none => "b"
        | some n => toString n
      if obs != "nofilter" && mtxt != obs then
        out := out.push s!"DIFF C03 case {c.num} line {ln}: VerifyBasicBlockFilter on filter {f} and the block at height {h}: model {mtxt}, implementation {obs} :: {line}"
      -- clause on the implementation's own observations: a filter is rejected only for an output it omits
      -- (or a Match error), never for an input; and it IS rejected for an omitted output
      let omits := Neutrino.VerifyFilter.omitsOutput mem txs
      let errFree := Neutrino.VerifyFilter.errorFree mem txs
      if obs == "b" && errFree && !omits then
        out := out.push s!"ORACLE-FAIL C03 case {c.num} line {ln}: shape=verify-rejects-complete-filter VerifyBasicBlockFilter rejected filter {f} for the block at height {h} although it matches every output script of the block's non-coinbase transactions :: {line}"
      if obs != "b" && obs != "nofilter" && omits then
        out := out.push s!"ORACLE-FAIL C03 case {c.num} line {ln}: shape=verify-accepts-omitting-filter VerifyBasicBlockFilter accepted filter {f} for the block at height {h} although it does not match an output script of that block :: {line}"
      if obs != "b" && obs != "nofilter" && errFree && obs != toString (Neutrino.VerifyFilter.opretMatches mem txs) then
        out := out.push s!"ORACLE-FAIL C03 case {c.num} line {ln}: shape=verify-opreturn-count VerifyBasicBlockFilter reported {obs} matched OP_RETURN outputs, the filter matches {Neutrino.VerifyFilter.opretMatches mem txs} :: {line}"
    | ["hard", h, x] => e := { e with hard := e.hard ++ [(nat! h, nat! x)] }
    | "cpl" :: p :: rest =>
      let (l, _) := bracket rest
      e := { e with cpl := e.cpl ++ [(nat! p, l.map nat!)] }
    | "ev" :: p :: k :: so :: prev :: rest =>
      let (fs, _) := bracket rest
      e := { e with evs := e.evs ++ [{ peer := nat! p, k := nat! k, stopOk := so == "1", prev := nat! prev,
                                       hashes := fs.map nat! }] }
    | _ =>
      -- a real operation: observation is "<ret> | <dump>"
      let (ret, dtxt) := match obs.splitOn " | " with
        | [a, b] => (a, b)
        | _ => (obs, "")
      let some d := parseDump dtxt
        | out := out.push s!"DIFF C03 case {c.num} line {ln}: unparsable observation <{obs}>"
      -- ---------- model ----------
      let H := e.H
      let mut cands : List (St × String) := []
      let mut servedLists : List (List Nat) := []
      let mut isRound := false
      let mut isFetch := false
      let mut isCfh := false
      let mut midChain : Option (List Nat) := none
      let mut cutTo : Option Nat := none
      match ws with
      | "init" :: rest =>
        let (ids, rest) := bracket rest
        let fsT := match rest with
          | "fs" :: r2 => (bracket r2).1.map nat!
          | _ => [1]
        let blocks := ids.map nat!
        let s0 : St := { blocks := blocks, fstore := fsT, fblk := blocks.take fsT.length, discBanned := e.disc }
        cands := [(s0, "- | " ++ showSt s0 s0)]
        chain := blocks
        oldFs := fsT
        servedLists := []
      | "ext" :: rest =>
        let (ids, _) := bracket rest
        let r := step H true st (.ext (ids.map nat!))
        cands := [(r.1, "- | " ++ showSt st r.1)]
        chain := chain ++ ids.map nat!
      | ["rb", h] =>
        let r := rollBackToHeight true st (nat! h)
        cands := [(r.1, (if r.2 then "ok" else "err") ++ " | " ++ showSt st r.1)]
        if ret == "ok" then cutTo := some (nat! h)
        -- ground truth follows the block store
        chain := chain.take ((d.btH.getD 0) + 1)
      | "wr" :: prev :: stop :: rest =>
        let (fs, _) := bracket rest
        let r := writeMsg H st (nat! prev) (nat! stop) (fs.map nat!)
        cands := [(r.1, showW r.2 ++ " | " ++ showSt st r.1)]
        servedLists := [fs.map nat!]
      | "tipround" :: "mid" :: h :: rest =>
        isRound := true
        let (ids, _) := bracket rest
        for order in e.orders do
          for pick in List.range (max 1 e.np) do
            let r := tipRoundMid H true st (e.net pick order) (nat! h) (ids.map nat!)
            let txt := showT r.2 ++ " | " ++ showSt st r.1
            if !cands.any (fun x => x.2 == txt) then
              cands := cands ++ [(r.1, txt)]
        -- ground truth: the chain after the reorganisation
        midChain := some ((chain.take (nat! h + 1)) ++ ids.map nat!)
      | ["tipround"] =>
        isRound := true
        for order in e.orders do
          for pick in List.range (max 1 e.np) do
            let r := tipRound H st (e.net pick order)
            let txt := showT r.2 ++ " | " ++ showSt st r.1
            if !cands.any (fun x => x.2 == txt) then
              cands := cands ++ [(r.1, txt)]
      | ["sanity"] =>
        let r := checkSanity 1000 st.fstore e.cpl
        cands := [(st, (match r with | none => "-1" | some i => toString i) ++ " | " ++ showSt st st)]
      | ["resolve"] =>
        for pick in List.range (max 1 e.np) do
          let r := resolveConflict 1000 e.hardFn st (e.net pick) e.cpl
          let txt := showRC r.2 ++ " | " ++ showSt st r.1
          if !cands.any (fun x => x.2 == txt) then
            cands := cands ++ [(r.1, txt)]
      | "cpfetch" :: rest =>
        let (cps, _) := bracket rest
        isFetch := true
        let r := cpRound H 1000 st (cps.map nat!) e.evs
        cands := [(r.1, (match r.2 with | .ok => "ok" | .panic => "PANIC") ++ " | " ++ showSt st r.1)]
      | ["cfh"] => isCfh := true
      | _ => out := out.push s!"DIFF C03 case {c.num} line {ln}: unknown op <{op}>"
      let cfhAsked := isCfh && (words ret).getLast? == some "1"
      if isCfh && !diverged then
        -- the real cfHandler on a resumed sync: the model decides whether the checkpointed phase is
        -- entered from this start state and whom its first pass bans; the rest of the handler's run
        -- (which peer answers which query when) is judged by the oracle alone
        let r := cfStart 1000 e.hardFn st (e.net 0) e.cpl
        if r.2.isSome != cfhAsked then
          out := out.push s!"DIFF C03 case {c.num} line {ln}: cfh from filter tip {st.fstore.length - 1}, block tip {st.blocks.length - 1}: model enters the checkpointed phase = {r.2.isSome}, impl asked for checkpoints = {cfhAsked}"
        let hp := (hardPass 1000 e.hardFn st (capLists 1000 (st.blocks.length - 1) e.cpl)).1
        let want := (hp.bans.drop st.bans.length).map (·.1)
        let got := peersOfBans d.bans
        if cfhAsked && !want.all got.contains then
          out := out.push s!"DIFF C03 case {c.num} line {ln}: cfh: model's hard-coded pass bans {want}, impl banned {got}"
        diverged := true
      else if !diverged then
        match cands.find? (fun x => x.2 == obs) with
        | some (s', _) => st := s'
        | none =>
          let alts := " || ".intercalate ((cands.map (·.2)).eraseDups)
          out := out.push s!"DIFF C03 case {c.num} line {ln}: {op} impl=<{obs}> model∈<{alts}>"
          diverged := true
      -- ---------- oracle (implementation observations + ground truth only) ----------
      if (ret == "PANIC" && !isFetch) || ret.endsWith "HANG" || (ret.splitOn "+HANG").length > 1 then
        out := out.push (fail "crash" s!"call ended in {ret}")
      if !notAheadObs d.btH d.ftH d.fs then
        out := out.push (fail "ahead" "filter-header store ahead of the block-header store, or its tip is not its last entry")
      if !fromTipObs oldFs d.fs then
        out := out.push (fail "not-from-tip" "filter-header store changed other than at its end")
      match cutTo with
      | some h =>
        if !cutObs h d.fs then
          out := out.push (fail "survives-disconnect" s!"filter header above height {h} survived the disconnection of its block")
      | none => pure ()
      if !checkpointsObs e.hard d.fs && checkpointsObs e.hard oldFs then
        if isRound || ws.head? == some "wr" then
          out := out.push (fail "tip-path-skips-hardcoded-checkpoint" "a filter header committed on the at-tip path differs from the hard-coded checkpoint at its height")
        else if isCfh then
          -- a (re)started sync with a hard-coded height between its filter tip and its block tip: not the
          -- recorded at-tip situation (there the checkpointed phase legitimately does not run)
          out := out.push (fail "resumed-sync-contradicts-hardcoded-checkpoint" s!"cfHandler started with filter tip {oldFs.length - 1} below block tip {d.btH.getD 0} committed a filter header that differs from the hard-coded checkpoint at its height")
        else
          out := out.push (fail "checkpoint" "stored filter header differs from a hard-coded checkpoint")
      -- ---------- checkpoint lists (implementation observations + ground truth only) ----------
      if ws == ["sanity"] && noZeroCp e.cpl && (ret == "-1" || ret.toNat?.isSome) then
        -- what the real checkCFCheckptSanity returned for these lists (of whatever lengths) and the
        -- store as dumped, against the first index at which two of the lists, or a list and the
        -- store, differ (`sanitySpec`: stated on the lists, no accumulator, no iteration order)
        let want := sanitySpec 1000 oldFs e.cpl
        let wtxt := match want with | none => "-1" | some i => toString i
        if ret != wtxt then
          let missed := match want, ret.toNat? with
            | some _, none => true
            | some i, some j => decide (i < j)
            | none, _ => false
          let lists := " ".intercalate (e.cpl.map (fun pl => s!"{pl.1}:{pl.2}"))
          if missed then
            out := out.push (fail "checkpoint-disagreement-missed" s!"checkCFCheckptSanity returned {ret} although the checkpoint lists (or a list and the store) first differ at index {wtxt}; lists {lists}")
          else
            out := out.push (fail "checkpoint-false-disagreement" s!"checkCFCheckptSanity returned {ret} although the first index at which the checkpoint lists or the store differ is {wtxt}; lists {lists}")
      if ws == ["resolve"] || cfhAsked then
        -- a peer that served a checkpoint list contradicting a hard-coded checkpoint (at ANY index,
        -- also one at or below the filter tip) is banned
        let bannedNow := peersOfBans d.bans
        let bt := d.btH.getD 0
        for pl in e.cpl do
          let served := if isCfh then pl.2.take (bt / 1000) else pl.2
          if !banned.contains pl.1 && cpListContradictsObs e.hard served && !bannedNow.contains pl.1 then
            out := out.push (fail "hardcoded-checkpoint-liar-not-banned" s!"peer {pl.1} served a checkpoint list that contradicts a hard-coded filter-header checkpoint (filter tip {oldFs.length - 1}) and was not banned")
      if ws == ["resolve"] then
        let bannedNow := peersOfBans d.bans
        if ret.startsWith "ok" then
          let good := (bracket ((words ret).drop 1)).1.map nat!
          let agree (a b : List Nat) : Bool :=
            (List.range (min a.length b.length)).all (fun i => a.getD i 0 == b.getD i 0)
          -- the list handed back must agree with every list whose sender was not banned for it
          match e.cpl.find? (fun pl => !bannedNow.contains pl.1 && !agree pl.2 good) with
          | some pl =>
            out := out.push (fail "resolve-ignores-disagreement" s!"resolveConflict returned a checkpoint list although peer {pl.1}, not banned, serves a list that contradicts it")
          | none => pure ()
          let tf := trueFs e chain
          let trueCps := (List.range (tf.length / 1000)).map (fun i => tf.getD ((i + 1) * 1000) 0)
          resolveHonest := e.cpl.any (fun pl => !bannedNow.contains pl.1 && pl.2.length ≥ good.length &&
            pl.2 == trueCps.take pl.2.length)
          if resolveHonest && good != trueCps.take good.length then
            out := out.push (fail "honest-wins-checkpoints" "an honest peer offered the true checkpoint list and was not banned, yet resolveConflict returned a list with a false checkpoint")
        else
          resolveHonest := false
      if isFetch && resolveHonest then
        let tf := trueFs e chain
        let bannedNow := d.bans
        let ncps := (bracket (ws.drop 1)).1.length
        let honestEv (ev : CpEv) : Bool :=
          let startH := ev.k * 1000 + 1
          !ev.stopOk || (ev.hashes.length == (min (ev.k + 2) ncps) * 1000 - ev.k * 1000 &&
            ev.prev == tf.getD (startH - 1) 0 &&
            (List.range ev.hashes.length).all (fun j =>
              ev.hashes.getD j 0 == (e.tf.get? (chain.getD (startH + j) 0)).getD 0))
        for p in e.allPeers do
          -- a peer all of whose answers carried the true filter hashes must not be banned for them
          if e.evs.any (fun ev => ev.peer == p) && (e.evs.filter (fun ev => ev.peer == p)).all honestEv &&
              bannedNow.contains s!"{p}:4" then
            out := out.push (fail "honest-banned-in-fetch" s!"peer {p} answered the checkpointed queries with the true filter hashes only and was banned for it, although an honest checkpoint list had been offered")
      if isRound then
        let start := oldFs.length
        let stopH := if oldBt - start ≥ maxPerMsg then start + maxPerMsg - 1 else oldBt
        let n := if oldBt + 1 ≤ start then 0 else stopH - start + 1
        let net := e.net 0
        let livePeers := net.peers.filter (fun p => !(e.disc && banned.contains p))
        -- the property's "provably inconsistent" is judged from the ground truth about
        -- each filter (does it omit an output script of the block), NOT from what the
        -- code under test said about it
        let gtVerify : FHash → Nat → VRes := fun f h =>
          match e.gt.find? (fun x => x.1 == (f, h)) with
          | some (_, true) => .bad
          | some (_, false) => .ok 0
          | none => net.verify f h
        let r : Round := { peers := livePeers, resps := net.resps, served := net.served, verify := gtVerify,
                           getBlock := net.getBlock, tip := (oldFs.getLast?).getD 0, start := start, n := n,
                           truth := fun h => (e.tf.get? (chain.getD h 0)).getD 0 }
        servedLists := livePeers.filterMap (fun p => (r.msgOf p).map (·.hashes))
        -- (a round during which the chain was reorganised makes no honest-wins claim)
        if n > 0 && midChain.isNone && r.hyp then
          let appended := d.fs.drop oldFs.length
          if !r.concl H appended (peersOfBans d.bans) then
            let shape := if r.shapeEarlyReturn then "detectBadPeers-early-return"
                         else "honest-wins"
            let what := if appended != chainFrom H r.tip r.truthSlice then "a false filter header was committed (or none)"
                        else "a liar was not banned or an honest peer was"
            out := out.push (fail shape s!"an honest peer answered and every false value was provably inconsistent, yet {what}; true={r.truthSlice}")
      if isFetch then
        if !cpAppendedObs H 1000 e.evs oldFs d.fs then
          out := out.push (fail "unserved" "filter headers appended by the checkpointed fetch are not hash chains of delivered batches, each starting at the then-current tip")
      else if isCfh then
        -- many queries, answered by whoever is still connected: the per-batch "hash chain of a served
        -- batch" clause does not apply; the store is judged by the clauses above (not ahead, changed at
        -- its end only, hard-coded checkpoints, bans)
        pure ()
      else if !appendedObs H oldFs d.fs servedLists then
        out := out.push (fail "unserved" "appended filter headers are not the hash chain of any served batch starting at the old tip")
      match midChain with
      | some c2 => chain := c2
      | none => pure ()
      -- (b) belongs: every appended entry was derived from a filter OF THE BLOCK now stored at its height
      if !isFetch && d.fs.length > oldFs.length then
        let tipOld := (oldFs.getLast?).getD 0
        match servedLists.find? (fun c => d.fs == oldFs ++ chainFrom H tipOld c) with
        | some c =>
          let bad := (List.range c.length).any (fun j =>
            let f := c.getD j 0
            f != 0 && e.fblk.get? f != some (chain.getD (oldFs.length + j) 0))
          if bad then
            out := out.push (fail "not-its-block" "a committed filter header was derived from a filter of a block that is not the block stored at that height on the current chain")
        | none => pure ()
      oldFs := d.fs
      oldBt := d.btH.getD 0
      banned := banned ++ peersOfBans d.bans
      e := e.clearRound
  return out

end Driver.Drv.CFHeaders
