/- C17 line-protocol driver: the shutdown scenarios are nondeterministic runs of the real code, so there is no model
DIFF; the property oracle is evaluated on the implementation's own observations: every `stop …` line must be
`ok <bucket>` and every `caller …` line must be `returned <class>`.  `HANG <label>` is an ORACLE-FAIL with shape <label>. -/
import Driver.Proto
namespace Driver.Drv.Stop
open Driver

def okObs (kind : String) (obs : List String) : Bool :=
  match kind, obs with
  | "stop", ["ok", b] => b == "<10ms" || b == "<100ms" || b == "<1s" || b == "<2s"
  | "caller", ["returned", c] => c == "nil" || c == "shutdown" || c == "err"
  | "markconfirmed", ["ok", _] => true
  | _, _ => false

def runCase : CaseFn := fun c => Id.run do
  let mut out : Array String := #[]
  for (ln, line) in c.lines do
    let (opS, obsS) := splitObs line
    let ws := words opS
    let obs := words obsS
    match ws.head? with
    | some k =>
      if k == "stop" || k == "caller" || k == "markconfirmed" || k == "call" then
        match obs with
        | "HANG" :: label :: _ =>
          out := out.push s!"ORACLE-FAIL C17 case {c.num} line {ln}: shape={label} `{opS}` did not return within the deadline ({" ".intercalate c.header}); goroutine dump written by the harness"
        | "returned" :: "PANIC" :: _ =>
          out := out.push s!"ORACLE-FAIL C17 case {c.num} line {ln}: shape=panic:{ws.getD 1 "?"} `{opS}` panicked during shutdown"
        | _ =>
          if !okObs k obs then
            out := out.push s!"DIFF C17 case {c.num} line {ln}: unparsable observation <{line}>"
    | none => pure ()
  return out

end Driver.Drv.Stop
