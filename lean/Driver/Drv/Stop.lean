/- C17 line-protocol driver: the shutdown scenarios are nondeterministic runs of the real code, so there is no model
DIFF; the property oracle is evaluated on the implementation's own observations: every `stop …` line must be
`ok <bucket>` and every `caller …` line must be `returned <class>`.  `HANG <label>` is an ORACLE-FAIL with shape <label>.

Scenario `blockmanager-reorg-midrollback` (Stop between two iterations of a reorganisation's roll-back inside the real
block handler, then the directory is opened again):
  reopen => tip <h>:<id> chain <ok|bad@h> lookups <ok|bad@h> known <ok|bad@h> file <ok|bad> ftip <h> | err <what>
* oracle (C17 "reopened … with the guarantees of C01 … intact", on what the REOPENED stores report): one linked chain,
  lookups by height / by hash / of the tip agree, every header is one the client was given, the flat file is as long
  as the index says, the filter tip is not above the block tip  → shape=reopen-inconsistent-after-stop-mid-reorg;
* model replay (Neutrino/Model/StopReorg.lean, `reorgQ false`): the tip the restart finds is the tip of the new
  branch - the quit moment is invisible in the stores (`C17_stop_mid_reorg_same_as_no_stop`)  → DIFF otherwise. -/
import Driver.Proto
import Neutrino.Model.StopReorg
namespace Driver.Drv.Stop
open Driver

def okObs (kind : String) (obs : List String) : Bool :=
  match kind, obs with
  | "stop", ["ok", b] => b == "<10ms" || b == "<100ms" || b == "<1s" || b == "<2s" || b == "<10s"
  | "caller", ["returned", c] => c == "nil" || c == "shutdown" || c == "err"
  | "markconfirmed", ["ok", _] => true
  | _, _ => false

/-- `key=<n>` among the header words -/
def headerNat (hd : List String) (key : String) : Option Nat :=
  (hd.find? (·.startsWith (key ++ "="))).bind fun (w : String) => (w.drop (key.length + 1)).toString.toNat?

/-- ids of the model: old chain header h ↦ h, header at height h of the new branch ↦ 1000 + h -/
def modelTip (n f m k : Nat) : String :=
  let s := Neutrino.StopReorg.reorgQ false (Neutrino.StopReorg.ofChain (List.range (n + 1))) f
    ((List.range m).map fun i => 1000 + f + 1 + i) (some k)
  let id := s.file.getLast?.getD 0
  s!"{s.tip}:" ++ (if id ≥ 1000 then s!"n{id - 1000}" else s!"o{id}")

def runCase : CaseFn := fun c => Id.run do
  let mut out : Array String := #[]
  let mid := c.header.getD 1 "" == "blockmanager-reorg-midrollback"
  let mut reopened := false
  for (ln, line) in c.lines do
    let (opS, obsS) := splitObs line
    let ws := words opS
    let obs := words obsS
    match ws.head? with
    | some k =>
      if k == "stop" || k == "caller" || k == "markconfirmed" || k == "call" then
        match obs with
        | "HANG" :: label :: _ =>
          out := out.push s!"ORACLE-FAIL C17 case {c.num} line {ln}: shape={label} `{opS}` did not return within the deadline ({" ".intercalate c.header}); goroutine dump written by the harness"
        | "returned" :: "PANIC" :: _ =>
          out := out.push s!"ORACLE-FAIL C17 case {c.num} line {ln}: shape=panic:{ws.getD 1 "?"} `{opS}` panicked during shutdown"
        | _ =>
          if !okObs k obs then
            out := out.push s!"DIFF C17 case {c.num} line {ln}: unparsable observation <{line}>"
      else if k == "reopen" then
        reopened := true
        match obs with
        | ["tip", tip, "chain", ch, "lookups", lk, "known", kn, "file", fl, "ftip", ft] =>
          let th := ((tip.splitOn ":").headD "").toNat?.getD 0
          let ftOk := match ft.toNat? with | some f => decide (f ≤ th) | none => false
          if !(ch == "ok" && lk == "ok" && kn == "ok" && fl == "ok" && ftOk) then
            out := out.push s!"ORACLE-FAIL C17 case {c.num} line {ln}: shape=reopen-inconsistent-after-stop-mid-reorg the stores reopened after Stop in the middle of a reorganisation roll-back are not a valid chain state ({" ".intercalate c.header}): {obsS}"
          match headerNat c.header "len", headerNat c.header "fork", headerNat c.header "branch", headerNat c.header "stopat" with
          | some n, some f, some m, some k' =>
            let want := modelTip n f m k'
            if tip != want then
              out := out.push s!"DIFF C17 case {c.num} line {ln}: tip found by the restart: implementation <{tip}> model <{want}>"
          | _, _, _, _ => out := out.push s!"DIFF C17 case {c.num} line {ln}: unparsable case header <{" ".intercalate c.header}>"
        | _ =>
          out := out.push s!"ORACLE-FAIL C17 case {c.num} line {ln}: shape=reopen-failed-after-stop-mid-reorg the directory could not be reopened after Stop in the middle of a reorganisation roll-back ({" ".intercalate c.header}): {obsS}"
    | none => pure ()
  if mid && !reopened && !(out.any (·.startsWith "ORACLE-FAIL")) then
    out := out.push s!"DIFF C17 case {c.num} line 0: the scenario did not get as far as reopening the stores ({" ".intercalate c.header})"
  return out

end Driver.Drv.Stop
