/-
C09 driver.  Trace (harness/rescandrv):

  case N rescan <name> start <id> <h> addrs [s ..] inputs [tx.idx.script ..] chain [id ..]
  blk <id> <prev> <height> <late> [<txid>:<in>,<in>:<out>,<out> ..] => -        ground truth (in = tx.idx.script, `-` = none)
  grow <id> => -            reorg <d> [id ..] => -        failf [0/1 ..] => -      failb [0/1 ..] => -
  ntfn c <id> | ntfn d <id> <tip> | tick | step | update addrs [..] inputs [..] rewind r quiet q
        => <arm after the op: catchup|current|dead> | C h:id [txids] | D h:id | X        (callbacks delivered during the op)
  nondet => -               the retry timer may have fired inside the previous op: stop DIFFing this case

DIFF compares arm + callbacks of every ntfn/tick/step/update op with the model.  The ORACLE uses only the callbacks,
the update ops and the ground truth (Spec.Rescan): walk, no-miss, reported heights, no hang.

`shape=` of a walk failure (Spec.Rescan `staleNext` / `walkFailShape`, the same functions `Props/C09` uses): the driver follows
the best chain from the grow/reorg ops and the caller's current block from the callbacks, and after every op re-labels
"the caller's current block left the best chain while the rescan was in the <arm printed by the previous op> arm":
  reorg-during-catchup      connected non-child from a catch-up step, label catchup (F13)
  reorg-unread-at-catchup   connected non-child from a catch-up step, label unread (it was current, but entered the
                            catch-up arm before reading the disconnects)
  disconnect-not-reported   the rescan consumed (current arm) the Disconnected naming the caller's current block and delivered
                            no disconnected callback for it (Spec.Rescan `discReported`; never a recorded shape)
  disconnect-not-current    a disconnected callback that does not name the caller's current block (never a recorded shape)
  walk                      anything else
-/
import Driver.Proto
import Neutrino.Spec.Rescan
open Neutrino.Rescan
namespace Driver.Drv.Rescan

structure BDecl where
  id : Nat
  prev : Nat
  height : Nat
  late : Bool
  txs : List Tx

def mkWorld (bs : List BDecl) : World :=
  let get := fun (id : Nat) => bs.find? (·.id == id)
  { prev := fun id => ((get id).map (·.prev)).getD 0,
    height := fun id => ((get id).map (·.height)).getD 0,
    late := fun id => ((get id).map (·.late)).getD false,
    txs := fun id => ((get id).map (·.txs)).getD [] }

def commaList (s : String) : List String := if s == "-" || s == "" then [] else s.splitOn ","

def parseIn (s : String) : TxIn :=
  match s.splitOn "." with
  | [t, i, sc] => ⟨⟨nat! t, nat! i⟩, nat! sc⟩
  | _ => ⟨⟨0, 0⟩, 0⟩

def parseWIn (s : String) : WIn := let i := parseIn s; (i.op, i.script)

def parseTx (s : String) : Tx :=
  match s.splitOn ":" with
  | [id, ins, outs] => ⟨nat! id, (commaList ins).map parseIn, (commaList outs).map nat!⟩
  | _ => ⟨0, [], []⟩

def showIds (l : List Nat) : String := "[" ++ " ".intercalate (l.map toString) ++ "]"

def showCb : Cb → String
  | .conn h id txs => s!"C {h}:{id} {showIds txs}"
  | .disc h id => s!"D {h}:{id}"
  | .exit => "X"

def parseHI (s : String) : Nat × Nat :=
  match s.splitOn ":" with
  | [h, i] => (nat! h, nat! i)
  | _ => (0, 0)

def parseCb (s : String) : Option Cb :=
  match words s with
  | "C" :: hi :: rest => let (h, i) := parseHI hi; some (.conn h i ((bracket rest).1.map nat!))
  | ["D", hi] => let (h, i) := parseHI hi; some (.disc h i)
  | ["X"] => some .exit
  | _ => none

def modeOf (s : St) : String := if s.dead then "dead" else if s.current then "current" else "catchup"

def showObs (s : St) (cbs : List Cb) : String := " | ".intercalate (modeOf s :: cbs.map showCb)

def parseBools (ws : List String) : List Bool := ws.map (· == "1")

def parseEv (ws : List String) : Option Ev :=
  match ws with
  | ["grow", b] => some (.grow (nat! b))
  | "reorg" :: d :: rest => some (.reorg (nat! d) ((bracket rest).1.map nat!))
  | "failf" :: rest => some (.setF (parseBools (bracket rest).1))
  | "failb" :: rest => some (.setB (parseBools (bracket rest).1))
  | ["ntfn", "c", b] => some (.connected (nat! b))
  | ["ntfn", "d", b, t] => some (.disconnected (nat! b) (nat! t))
  | ["tick"] => some .tick
  | ["step"] => some .step
  | "update" :: "addrs" :: rest =>
    let (as, rest) := bracket rest
    match rest with
    | "inputs" :: rest =>
      let (is, rest) := bracket rest
      match rest with
      | ["rewind", r, "quiet", q] =>
        some (.update { addrs := as.map nat!, inputs := is.map parseWIn, rewind := nat! r, quiet := q == "1" })
      | _ => none
    | _ => none
  | _ => none

structure Hdr where
  start : Nat
  startH : Nat
  w : Watch
  chain : List Nat

def parseHeader (ws : List String) : Option Hdr :=
  match ws with
  | "rescan" :: _ :: "start" :: s :: h :: "addrs" :: rest =>
    let (as, rest) := bracket rest
    match rest with
    | "inputs" :: rest =>
      let (is, rest) := bracket rest
      match rest with
      | "chain" :: rest =>
        let ch := (bracket rest).1.map nat!
        let ins := is.map parseWIn
        let a := as.map nat!
        some { start := nat! s, startH := nat! h, chain := ch,
               w := { addrs := a, inputs := ins, wl := a ++ ins.map (·.2) } }
      | _ => none
    | _ => none
  | _ => none

def runCase : CaseFn := fun c => Id.run do
  let mut out : Array String := #[]
  let some hd := parseHeader c.header
    | return #[s!"DIFF C09 case {c.num} line 0: unparsable header"]
  let mut decls : List BDecl := []
  let mut W := mkWorld decls
  let mut st : St := {}
  let mut started := false
  let mut caller : Caller := { cur := hd.start, scanning := false, w := hd.w }
  let mut callerH := hd.startH
  let mut chain := hd.chain
  let mut arm := "catchup"
  let mut stale := staleNext Stale.no (onChainB hd.chain hd.start hd.startH) false
  let mut diverged := false
  for (ln, line) in c.lines do
    let (op, obs) := splitObs line
    let ws := words op
    match ws with
    | "blk" :: id :: prev :: h :: late :: rest =>
      decls := decls ++ [{ id := nat! id, prev := nat! prev, height := nat! h, late := late == "1",
                           txs := (bracket rest).1.map parseTx }]
      W := mkWorld decls
    | ["nondet"] => diverged := true
    | ["start"] =>
      out := out.push s!"ORACLE-FAIL C09 case {c.num} line {ln}: shape=start rescan did not reach its loop: {obs}"
    | ["stop"] =>
      out := out.push s!"ORACLE-FAIL C09 case {c.num} line {ln}: shape=hang rescan did not stop: {obs}"
    | _ =>
      if !started then
        -- all initial blocks are declared: build the initial states
        started := true
        st := init W hd.chain hd.start hd.startH hd.w
        caller := callerInit W hd.start hd.w
      match parseEv ws with
      | none => out := out.push s!"DIFF C09 case {c.num} line {ln}: unparsable op <{op}>"
      | some ev =>
        -- the driver's own view of the best chain (for shape classification only)
        match ev with
        | .grow b => chain := chain ++ [b]
        | .reorg d bs => chain := chain.take (chain.length - d) ++ bs
        | _ => pure ()
        -- model
        let (st', mcbs) := step W st ev
        let isEnv := match ev with
          | .grow _ | .reorg _ _ | .setF _ | .setB _ | .setFp _ => true
          | _ => false
        if !isEnv then
          if !diverged then
            let m := showObs st' mcbs
            if m != obs then
              out := out.push s!"DIFF C09 case {c.num} line {ln}: {op} impl=<{obs}> model=<{m}>"
              diverged := true
          -- oracle on the implementation's own observations
          let parts := obs.splitOn " | "
          let mode := parts.headD ""
          if obs == "HANG" || parts.contains "HANG" then
            out := out.push s!"ORACLE-FAIL C09 case {c.num} line {ln}: shape=hang no progress within the watchdog: {op}"
          let mut items : List Obs := []
          match ev with
          | .update u => items := [Obs.upd u]
          | _ => pure ()
          for p in parts.drop 1 do
            match parseCb p with
            | some cb => items := items ++ [Obs.cb cb]
            | none =>
              if p != "HANG" then
                out := out.push s!"DIFF C09 case {c.num} line {ln}: unparsable callback <{p}>"
          match ev with
          | .disconnected b _ =>
            let cbs := items.filterMap fun o => match o with | .cb c => some c | _ => none
            if arm == "current" && !discReported caller.cur b cbs then
              out := out.push s!"ORACLE-FAIL C09 case {c.num} line {ln}: shape=disconnect-not-reported the rescan consumed the Disconnected notification for {b}, the block the caller was last told is current, and delivered no disconnected callback for it (callbacks: {obs})"
          | _ => pure ()
          for o in items do
            let (c', wok, mok) := caller.step W o
            match o with
            | .cb cb =>
              if !heightOk W cb then
                out := out.push s!"ORACLE-FAIL C09 case {c.num} line {ln}: shape=height callback {showCb cb} reports a height that is not the block's height"
              if !wok then
                let shape := walkFailShape stale (ev == Ev.step) cb
                let what := match cb with
                  | .conn _ id _ => s!"connected {id} (parent {W.prev id}) is not a child of the current block {caller.cur}; no disconnected callbacks in between"
                  | .disc _ id => s!"disconnected {id} is not the current block {caller.cur} (the caller was never told it is current)"
                  | .exit => ""
                out := out.push s!"ORACLE-FAIL C09 case {c.num} line {ln}: shape={shape} {what}"
              if !mok then
                let exp := match cb with
                  | .conn _ id _ => (owed W caller.w id).1
                  | _ => []
                out := out.push s!"ORACLE-FAIL C09 case {c.num} line {ln}: shape=missed-tx {showCb cb} lacks a relevant transaction; owed {showIds exp}"
              match cb with
              | .conn h _ _ => callerH := h
              | .disc h _ => callerH := h - 1
              | .exit => pure ()
            | _ => pure ()
            caller := c'
          stale := staleNext stale (onChainB chain caller.cur callerH) (arm == "current")
          if mode == "catchup" || mode == "current" || mode == "dead" then arm := mode
        else
          stale := staleNext stale (onChainB chain caller.cur callerH) (arm == "current")
        st := st'
  return out

end Driver.Drv.Rescan
