import Driver.Proto
import Neutrino.Spec.GetCFilter
open Neutrino Neutrino.GetCFilter
namespace Driver.Drv.GetCFilter

def int! (s : String) : Int :=
  if s.startsWith "-" then - (Int.ofNat (nat! (s.drop 1).toString)) else Int.ofNat (nat! s)

def parseResp (tok : String) : Option RespX :=
  if tok == "o" then some { r := { isCFilter := false, ftypeOk := false, blk := 0, decodes := false, fid := 0, size := 0 }, prev := 0, hdr := 0 }
  else match tok.splitOn ":" with
  | ["c", ft, blk, dec, fid, size, prev, hdr] =>
    some { r := { isCFilter := true, ftypeOk := ft == "1", blk := nat! blk, decodes := dec == "1", fid := nat! fid, size := nat! size },
           prev := nat! prev, hdr := nat! hdr }
  | ["c", ft, blk, dec, fid, size, prev, hdr, _peer] =>
    some { r := { isCFilter := true, ftypeOk := ft == "1", blk := nat! blk, decodes := dec == "1", fid := nat! fid, size := nat! size },
           prev := nat! prev, hdr := nat! hdr }
  | _ => none

def parseBatch : String → Option Batch
  | "n" => some .none
  | "f" => some .forward
  | "r" => some .reverse
  | _ => none

def parseVerdict : String → Option Verdict
  | "nil" => some .nil
  | "err" => some .err
  | "quit" => some .quit
  | _ => none

/-- the `bg <k> <commits> <ballast> [blk:fid ...]` suffix of a get line: what a concurrent writer
committed right after the k-th read transaction of the filter database within the call -/
def parseBg (ws : List String) : List (Nat × Nat) :=
  match ws.dropWhile (· != "bg") with
  | "bg" :: _ :: _ :: _ :: rest => (bracket rest).1.map (fun t => match t.splitOn ":" with
      | [b, f] => (nat! b, nat! f)
      | _ => (0, 0))
  | _ => []

def parseCall (ws : List String) : Option (Call × List RespX) :=
  match ws with
  | "get" :: t :: reg :: b :: mb :: cont :: v :: rest =>
    let (toks, _) := bracket rest
    match parseBatch b, parseVerdict v, toks.mapM parseResp with
    | some bt, some vd, some xs =>
      some ({ target := nat! t, regular := reg == "1", batch := bt, maxBatch := int! mb, resps := xs.map (·.r),
              cont := cont == "1", verdict := vd }, xs)
    | _, _, _ => none
  | _ => none

def parseProg : String → Progress
  | "f" => .finished
  | "p" => .progressed
  | _ => .none

def parseCE (s : String) : CEntry :=
  match s.splitOn ":" with
  | [b, f, z, v] => ⟨nat! b, nat! f, nat! z, v == "1"⟩
  | _ => ⟨0, 0, 0, false⟩

def parseDE (s : String) : DEntry :=
  match s.splitOn ":" with
  | [b, f, v] => ⟨nat! b, nat! f, v == "1"⟩
  | _ => ⟨0, 0, false⟩

def parseObs (s : String) : Option Obs :=
  match words s with
  | res :: "prog" :: rest =>
    let (pr, rest) := bracket rest
    match rest with
    | "rg" :: rg :: "cache" :: rest =>
      let (ce, rest) := bracket rest
      match rest with
      | "db" :: rest =>
        let (de, rest) := bracket rest
        let puts : List (Nat × Nat) := match rest with
          | "puts" :: rest => (bracket rest).1.map (fun t => match t.splitOn ":" with
              | [b, f] => (nat! b, nat! f)
              | _ => (0, 0))
          | _ => []
        let result : Option ObsResult :=
          match res.splitOn ":" with
          | ["ret", fid, v] => some (.ret (nat! fid) (v == "1"))
          | ["ret", fid, v, o] => some (.ret (nat! fid) (v == "1") (o == "1"))
          | ["err", kind] => some (.err kind)
          | _ => none
        let range : Option (Option (Int × Int)) :=
          if rg == "-" then some none
          else match rg.splitOn ":" with
            | [a, b] => some (some (int! a, int! b))
            | _ => none
        match result, range with
        | some r, some g =>
          if pr.all (fun p => p == "n" || p == "p" || p == "f") then
            some { result := r, prog := pr.map parseProg, range := g, cache := ce.map parseCE, db := de.map parseDE, puts := puts }
          else none
        | _, _ => none
      | _ => none
    | _ => none
  | _ => none

def hdrField (hdr : List String) (k : String) : Nat :=
  match hdr.dropWhile (· != k) with
  | _ :: v :: _ => nat! v
  | _ => 0

def showProg : Progress → String
  | .none => "n"
  | .progressed => "p"
  | .finished => "f"

def showRange : Option (Int × Int) → String
  | none => "-"
  | some (a, b) => s!"{a}:{b}"

def showModelResult : Result → String
  | .ret fid => s!"ret:{fid}"
  | .errType => "err:type"
  | .errPrepare => "err:prepare"
  | .errQuery => "err:query"
  | .errFetchFailed => "err:fetchfailed"
  | .errQuit => "err:quit"

def showImplResult : ObsResult → String
  | .ret fid _ _ => s!"ret:{fid}"
  | .err k => s!"err:{k}"

/-- insertion sort of db entries by block -/
def insDB (x : Nat × Nat) : List (Nat × Nat) → List (Nat × Nat)
  | [] => [x]
  | y :: ys => if x.1 ≤ y.1 then x :: y :: ys else y :: insDB x ys

def showModel (o : Outcome) : String :=
  let cache := o.st.store.cache.items.reverse.map (fun e => s!"{e.key}:{e.vid}:{e.size}")
  let db := (o.st.store.db.foldr insDB []).map (fun p => s!"{p.1}:{p.2}")
  s!"{showModelResult o.result} prog [{" ".intercalate (o.prog.map showProg)}] rg {showRange o.range} cache [{" ".intercalate cache}] db [{" ".intercalate db}]"

def showImpl (o : Obs) : String :=
  let cache := o.cache.map (fun e => s!"{e.blk}:{e.fid}:{e.size}")
  let db := o.db.map (fun e => s!"{e.blk}:{e.fid}")
  s!"{showImplResult o.result} prog [{" ".intercalate (o.prog.map showProg)}] rg {showRange o.range} cache [{" ".intercalate cache}] db [{" ".intercalate db}]"

/-- `MakeHeaderForFilter` as a table of what the harness computed for this call -/
def hashingOf (xs : List RespX) : Hashing :=
  { fhash := id,
    H := fun f p => match xs.find? (fun x => x.r.fid == f && x.prev == p && x.hdr != 0) with
      | some x => x.hdr
      | none => 0 }

/-- networks by name (the order is of no consequence) -/
def netId (n : String) : Nat :=
  match ["regtest", "simnet", "testnet3", "mainnet", "signet", "testnet4"].findIdx? (· == n) with
  | some i => i + 1
  | none => 0

/-- several filter stores with different chain parameters in one process (`case n cfnets k <k>`) -/
def runNets (c : CaseIn) : Array String := Id.run do
  let mut out : Array String := #[]
  let mut st : Stores := {}
  let mut genTab : List (Nat × Nat) := []
  let mut diverged := false
  for (ln, line) in c.lines do
    let (op, obs) := splitObs line
    match words op with
    | [o, net, gfid, v] =>
      if o == "open" || o == "reopen" then
        let n := netId net
        genTab := dbPut genTab n (nat! gfid)
        let tab := genTab
        st := openStore (fun k => (lookup tab k).getD 0) id st n
        if v != "1" && !diverged then
          out := out.push s!"DIFF C05 case {c.num} line {ln}: the genesis filter built from the parameters of {net} does not hash to the filter header its store commits at height 0"
          diverged := true
      else
        out := out.push s!"DIFF C05 case {c.num} line {ln}: unparsable line <{(line.take 200).toString}>"
        diverged := true
    | ["gget", net] =>
      let n := netId net
      if obs.startsWith "HANG" || obs.startsWith "PANIC" then
        out := out.push s!"ORACLE-FAIL C05 case {c.num} line {ln}: [shape=no-answer ] GetCFilter did not return: {obs}"
        diverged := true
        continue
      match words obs with
      | res :: _ =>
        match res.splitOn ":" with
        | ["ret", fid, v] =>
          -- the property, on the implementation's own bytes: whatever is returned - also from the database
          -- right after start-up - hashes to the filter header committed for that block (height 0)
          if v != "1" then
            out := out.push s!"ORACLE-FAIL C05 case {c.num} line {ln}: [shape=returned-mismatch ] (returned-mismatch) the genesis filter GetCFilter returned for {net} does not hash to the filter header its store commits at height 0 (several networks' stores opened in one process); {(op.take 160).toString} => {(obs.take 200).toString}"
          if !diverged && genesisGet st n != some (nat! fid) then
            out := out.push s!"DIFF C05 case {c.num} line {ln}: impl=<{(obs.take 100).toString}> model=<{repr (genesisGet st n)}>"
            diverged := true
        | _ =>
          if !diverged then
            out := out.push s!"DIFF C05 case {c.num} line {ln}: impl=<{(obs.take 100).toString}> model=<ret {repr (genesisGet st n)}>"
            diverged := true
      | [] =>
        out := out.push s!"DIFF C05 case {c.num} line {ln}: unparsable line <{(line.take 200).toString}>"
        diverged := true
    | _ =>
      out := out.push s!"DIFF C05 case {c.num} line {ln}: unparsable line <{(line.take 200).toString}>"
      diverged := true
  return out

def runCase : CaseFn := fun c => Id.run do
  if c.header.contains "cfnets" then
    return runNets c
  let mut out : Array String := #[]
  let cap := hdrField c.header "cap"
  let tip := hdrField c.header "tip"
  let ftip := hdrField c.header "ftip"
  let maxR : Int := Int.ofNat (hdrField c.header "maxrange")
  let persist := hdrField c.header "persist" == 1
  let mut st : State := init cap tip ((List.range (ftip + 1)).map (· + 1)) persist
  -- the committed filter headers as the harness reports them (input, not model)
  let mut fhs : List Nat := (List.range (ftip + 1)).map (· + 1)
  let mut diverged := false
  let mut recommitted := false
  -- the lowest height from which filter headers were ever re-committed in this case
  let mut rcMin : Nat := 0
  -- (block, filter) pairs the harness has seen matching the committed headers at some earlier moment
  let mut okOnce : List (Nat × Nat) := []
  let mut before : Before := { cache := [], db := [] }
  if maxR != maxRange then
    out := out.push s!"DIFF C05 case {c.num} line 0: wire.MaxGetCFiltersReqRange is {maxR}, the model assumes {maxRange}"
  for (ln, line) in c.lines do
    let (op, obs) := splitObs line
    let ws := words op
    match ws with
    | "recommit" :: h :: rest =>
      let (ids, _) := bracket rest
      let nf := ids.map nat!
      fhs := fhs.take (nat! h) ++ nf
      st := step (hashingOf []) st (.recommit (nat! h) nf)
      rcMin := if recommitted then min rcMin (nat! h) else nat! h
      recommitted := true
    | "getreorg" :: fork :: btip :: bftip :: rest =>
      -- the real stores were reorganised onto another branch right after FetchHeader(hash)
      if obs.startsWith "HANG" || obs.startsWith "PANIC" then
        out := out.push s!"ORACLE-FAIL C05 case {c.num} line {ln}: [shape=no-answer ] GetCFilter did not return: {obs}"
        diverged := true
        continue
      let fk := nat! fork
      let afhs : List Nat := (List.range (nat! bftip + 1)).map (fun k => if k > fk then 300000 + k + 1 else k + 1)
      let rg : Reorg := { fork := fk, tip := nat! btip, fhs := afhs }
      match parseCall ("get" :: rest), parseObs obs with
      | some (call, xs), some o =>
        let hdrAt : HdrAt := fun b =>
          if b > altBase then
            let h := b - altBase
            if fk < h ∧ h < afhs.length then some (afhs.getD (h - 1) 0, afhs.getD h 0) else none
          else if b ≤ fk then hdrAtOf afhs b else none
        let heightOf := fun (b : Nat) => if b > altBase then b - altBase else b
        let best := min (nat! btip) (afhs.length - 1)
        for tag in oracleAt hdrAt heightOf best maxR call xs before o do
          out := out.push s!"ORACLE-FAIL C05 case {c.num} line {ln}: [shape={tag} ] ({tag}) reorg between the by-hash and the by-height lookups of prepareCFiltersQuery; {(op.take 160).toString} => {(obs.take 200).toString}"
        before := { cache := o.cache, db := o.db }
        if !diverged then
          let m := getCFilterReorg (hashingOf xs) st rg call
          st := m.st
          fhs := afhs
          if showModel m != showImpl o then
            out := out.push s!"DIFF C05 case {c.num} line {ln}: impl=<{(showImpl o).take 300}> model=<{(showModel m).take 300}>"
            diverged := true
      | _, _ =>
        out := out.push s!"DIFF C05 case {c.num} line {ln}: unparsable line <{(line.take 200).toString}>"
        diverged := true
    | ["restart"] =>
      st := step (hashingOf []) st .restart
      before := { before with cache := [] }
    | _ =>
      if obs.startsWith "HANG" || obs.startsWith "PANIC" then
        out := out.push s!"ORACLE-FAIL C05 case {c.num} line {ln}: [shape=no-answer ] GetCFilter did not return: {obs}"
        diverged := true
        continue
      match parseCall ws, parseObs obs with
      | some (call, xs), some o =>
        let best := min tip (fhs.length - 1)
        -- what concurrent writers committed during the call (environment input): judged like everything
        -- else in the dumps (flag v), and known to the provenance clauses as "was there"
        let bgws := parseBg ws
        let beforeO : Before := { before with db := before.db ++ bgws.map (fun p => ⟨p.1, p.2, true⟩) }
        let tags := oracle fhs best maxR call xs beforeO o
        -- The recorded finding, and nothing else: a mismatching entry sits where it sat before (the cache
        -- entry was in the cache, the database entry in the database, the returned filter in either, for
        -- the SAME block with the SAME bytes), it matched the headers committed at an earlier moment, and
        -- the headers of its block were re-committed since.  A filter that reaches the cache from
        -- anywhere else, other bytes than were stored, or a mismatch nobody ever verified is not it.
        let wasOk := fun (blk fid : Nat) => okOnce.any (fun p => p.1 == blk && p.2 == fid) && recommitted && decide (rcMin ≤ blk)
        let oldC := fun (e : CEntry) => before.cache.any (fun b => b.blk == e.blk && b.fid == e.fid) && wasOk e.blk e.fid
        let oldD := fun (e : DEntry) => before.db.any (fun b => b.blk == e.blk && b.fid == e.fid) && wasOk e.blk e.fid
        let stale := recommitted && o.cache.all (fun e => e.v || oldC e) && o.db.all (fun e => e.v || oldD e) &&
          (match o.result with
           | .ret fid v _ => v || ((before.cache.any (fun b => b.blk == call.target && b.fid == fid) ||
                           before.db.any (fun b => b.blk == call.target && b.fid == fid)) && wasOk call.target fid)
           | .err _ => true)
        for tag in tags do
          let isMismatch := tag == "returned-mismatch" || tag == "cached-mismatch" || tag == "persisted-mismatch"
          let shape := if isMismatch && stale then "db-filter-after-header-change" else tag
          let why := if isMismatch then "a filter the code returned / cached / persisted does not hash-chain to the stored filter header of THAT block: H(filterhash, header(h-1)) != header(h), recomputed by the harness from the real bytes; " else ""
          out := out.push s!"ORACLE-FAIL C05 case {c.num} line {ln}: [shape={shape} ] ({tag}) {why}{(op.take 160).toString} => {(obs.take 200).toString}"
        before := { cache := o.cache, db := o.db }
        okOnce := okOnce ++ ((o.cache.filter (·.v)).map (fun e => (e.blk, e.fid))).filter (fun p => !okOnce.contains p)
        okOnce := okOnce ++ ((o.db.filter (·.v)).map (fun e => (e.blk, e.fid))).filter (fun p => !okOnce.contains p)
        if !diverged then
          let m := if bgws.isEmpty then getCFilter (hashingOf xs) st call else getCFilterW true id (hashingOf xs) st call bgws
          st := m.st
          -- what the model hands to the batch writer: the accepted responses, in order
          let mputs := if persist then
              (((call.resps.take m.prog.length).zip m.prog).filter (fun rp => rp.2 != .none)).map (fun rp => (rp.1.blk, rp.1.fid))
            else []
          if showModel m != showImpl o then
            out := out.push s!"DIFF C05 case {c.num} line {ln}: impl=<{(showImpl o).take 300}> model=<{(showModel m).take 300}>"
            diverged := true
          else if mputs != o.puts then
            out := out.push s!"DIFF C05 case {c.num} line {ln}: put log impl={(toString o.puts).take 200} model={(toString mputs).take 200}"
            diverged := true
      | _, _ =>
        out := out.push s!"DIFF C05 case {c.num} line {ln}: unparsable line <{(line.take 200).toString}>"
        diverged := true
  return out

end Driver.Drv.GetCFilter
