import Driver.Proto
import Neutrino.Spec.PushTx
import Neutrino.Gen.PushTx
open Neutrino.PushTx
namespace Driver.Drv.PushTx

def parseTx (s : String) : Tx :=
  match s.splitOn ":" with
  | [i, ps] => ⟨nat! i, (ps.splitOn ".").filter (· ≠ "") |>.map nat!⟩
  | _ => ⟨nat! s, []⟩

def txsOf (hdr : List String) : List Tx :=
  match hdr.dropWhile (· ≠ "txs") with
  | _ :: rest => (bracket rest).1.map parseTx
  | [] => []

def parseRes : String → Option Res
  | "accepted" => some .accepted
  | "mempool" => some .mempool
  | "confirmed" => some .confirmed
  | "invalid" => some .invalid
  | "fee" => some .fee
  | "unknown" => some .unknown
  | "plain" => some .plain
  | _ => none

def showRes : Res → String
  | .accepted => "accepted" | .mempool => "mempool" | .confirmed => "confirmed" | .invalid => "invalid"
  | .fee => "fee" | .unknown => "unknown" | .plain => "plain"

def parseNext (obs : String) : Option Next :=
  match words obs with
  | ["rb", y] => some (.rb (nat! y))
  | ["none"] => some .none
  | ["done"] => some .none
  | ["busy"] => some .busy
  | ["silent"] => some .silent
  | _ => none

/-- the model's answer in the harness's vocabulary -/
def showOut : Out → String
  | .ok => "ok" | .err r => "err " ++ showRes r | .stopped => "stopped" | .ret => "ret"
  | .busy => "busy" | .idle => "none" | .started _ => "rb" | .more => "rb" | .done => "done"
  | .bad => "BAD" | .noop => "noop"

/-- Gen names of wire reject codes → wire.RejectCode.String() -/
def wireName (s : String) : String :=
  match s with
  | "RejectMalformed" => "REJECT_MALFORMED" | "RejectInvalid" => "REJECT_INVALID"
  | "RejectObsolete" => "REJECT_OBSOLETE" | "RejectDuplicate" => "REJECT_DUPLICATE"
  | "RejectNonstandard" => "REJECT_NONSTANDARD" | "RejectDust" => "REJECT_DUST"
  | "RejectInsufficientFee" => "REJECT_INSUFFICIENTFEE" | "RejectCheckpoint" => "REJECT_CHECKPOINT"
  | s => s

def genTable : List ParseRow :=
  Neutrino.Gen.PushTx.parseTable.map fun (cs, sub, res) => { codes := cs.map wireName, substr := sub, result := res }

def failLines (num ln : Nat) (fs : List Fail) : Array String :=
  (fs.map fun (shape, msg) => s!"ORACLE-FAIL C15 case {num} line {ln}: shape={shape} {msg}").toArray

def runSeq (c : CaseIn) : Array String := Id.run do
  let txs := txsOf c.header
  let txOf (i : Nat) : Tx := (txs.find? (·.id == i)).getD ⟨i, []⟩
  let mut out : Array String := #[]
  let mut st : State := {}
  -- slow and tick cases run on a real interval: a tick the harness cannot see may start the next rebroadcast
  -- right after the last call of the running one was answered (in a slow case that is the scenario; in a tick
  -- case the harness aligns its answers to the ticker's phase, which a loaded machine can still overrun)
  let slow := c.header.headD "" == "slow" || c.header.headD "" == "tick"
  let mut os : OState := { freeRunning := slow }
  let mut diverged := false
  for (ln, line) in c.lines do
    let (op, obs) := splitObs line
    let ws := words op
    -- parse into (model op?, oracle observation?, text the model must produce)
    let hang := obs == "HANG"
    let parsed : Option (Option Op × Option Obs) :=
      match ws with
      | ["bcast", i, r] =>
        (parseRes r).map fun r =>
          let ret : BRet := if hang then .hang else if obs == "ok" then .ok else if obs == "stopped" then .stopped else .err
          (some (.bcast (txOf (nat! i)) r), some (.bcast (txOf (nat! i)) r ret))
      | ["confirm", i] => some (some (.confirm (nat! i)), some (.confirm (nat! i) hang))
      | ["block"] | ["tick"] | ["hold", _] =>
        -- hold k: the interval elapsed k times while the rebroadcast's call stayed unanswered (ticks that find it running)
        if hang then some (some .trigger, none) else (parseNext obs).map fun n => (some .trigger, some (.trigger n))
      | ["rbres", i, r] =>
        (parseRes r).bind fun r =>
          if hang then some (some (.rbStep (nat! i) r), none) else (parseNext obs).map fun n => (some (.rbStep (nat! i) r), some (.rbres (nat! i) r n))
      | ["bcastq", i, r] =>
        -- Stop closed quit while the handler was inside the network call for this request
        (parseRes r).map fun r =>
          let ret : BRet := if hang then .hang else if obs == "ok" then .ok else if obs == "stopped" then .stopped else .err
          (some (.bcast (txOf (nat! i)) r), some (.bcast (txOf (nat! i)) r ret))
      | ["closesub"] => some (some .closeSub, some .closeSub)
      | ["quit"] => some (some .stop, some (.stop hang))
      | ["stopret"] => some (none, some (.stop hang))
      | _ => none
    if ws.head? == some "bcastq" then
      st := (step st .stop).1
      os := (ostep os (.stop false)).1
    match parsed with
    | none => out := out.push s!"DIFF C15 case {c.num} line {ln}: unparsable line <{line}>"; diverged := true
    | some (mop, oobs) =>
      -- oracle first (independent of the model)
      match oobs with
      | some o =>
        let (os', fs) := ostep os o
        os := os'
        out := out ++ failLines c.num ln fs
      | none =>
        out := out.push s!"ORACLE-FAIL C15 case {c.num} line {ln}: shape=rebroadcast-hang nothing happened within the watchdog after <{op}>"
      if hang then diverged := true
      if !diverged then
        match mop with
        | none => pure ()
        | some m =>
          let (st', mo) := step st m
          st := st'
          let mut want := showOut mo
          let got := match words obs with
            | ["rb", _] => "rb"
            | ["cancelled"] => "ret"
            | ["silent"] => "done"   -- the model cannot tell how long nothing happened; the oracle's interval clause does
            | _ => obs
          -- free-running rounds: the model's rebroadcast is over and the implementation made a further call:
          -- an interval tick (invisible to the harness) has started the next rebroadcast
          if slow && mo == .done && got == "rb" && ws.head? == some "rbres" then
            let (st2, mo2) := step st .trigger
            st := st2
            want := showOut mo2
          if want != got then
            out := out.push s!"DIFF C15 case {c.num} line {ln}: {op} impl=<{obs}> model=<{want}>"
            diverged := true
          else
            -- the tx the implementation picked next must be one the model's rebroadcast still holds
            match words obs, st.running with
            | ["rb", y], some todo =>
              if !(ids todo).contains (nat! y) then
                out := out.push s!"DIFF C15 case {c.num} line {ln}: {op} impl picked tx {y}, model's rebroadcast holds {ids todo}"
                diverged := true
            | _, _ => pure ()
  return out

/-- float32 comparison vs the rational model of the threshold test -/
def runFcmp (c : CaseIn) : Array String := Id.run do
  let mut out : Array String := #[]
  let mut nfail := 0
  for (ln, line) in c.lines do
    let (op, obs) := splitObs line
    match words op, words obs with
    | ["fcmp", k, n, num, den], [ge, gt] =>
      let opS := Neutrino.Gen.PushTx.thresholdOp
      let impl := if opS == ">" then gt else ge
      let (num, den) := if num == "default" then (Neutrino.Gen.PushTx.thresholdNum, Neutrino.Gen.PushTx.thresholdDen) else (nat! num, nat! den)
      let m := if cmpOp opS (nat! k * den) (num * nat! n) then "1" else "0"
      if m != impl then
        out := out.push s!"DIFF C15 case {c.num} line {ln}: float32({k})/float32({n}) {opS} {num}/{den}: impl=<{impl}> rational model=<{m}>"
      -- the property's own reading of the threshold, evaluated on what the source's comparison yields:
      -- k of n replying peers call the tx invalid (0 < k < n, so neither "nobody replied" nor "all rejected" applies)
      let reached := decide (nat! k * den ≥ num * nat! n)
      if nfail < 3 && 0 < nat! k && nat! k < nat! n then
        if reached && impl == "0" then
          nfail := nfail + 1
          out := out.push s!"ORACLE-FAIL C15 case {c.num} line {ln}: shape=threshold-not-honoured {k} of {n} replying peers call the tx invalid, the share reaches the threshold {num}/{den}, but the source's test `{Neutrino.Gen.PushTx.thresholdLhs} {opS} {Neutrino.Gen.PushTx.thresholdRhs}` lets the broadcast succeed"
        else if !reached && impl == "1" then
          nfail := nfail + 1
          out := out.push s!"ORACLE-FAIL C15 case {c.num} line {ln}: shape=threshold-too-eager {k} of {n} replying peers call the tx invalid, below the threshold {num}/{den}, but the source's test `{Neutrino.Gen.PushTx.thresholdLhs} {opS} {Neutrino.Gen.PushTx.thresholdRhs}` fails the broadcast"
    | _, _ => out := out.push s!"DIFF C15 case {c.num} line {ln}: unparsable line <{line}>"
  return out

def runParse (c : CaseIn) : Array String := Id.run do
  let mut out : Array String := #[]
  for (ln, line) in c.lines do
    let (op, obs) := splitObs line
    match words op with
    | "parse" :: code :: reason =>
      let m := parseWith genTable Neutrino.Gen.PushTx.parseDefault code (" ".intercalate reason)
      if m != obs then
        out := out.push s!"DIFF C15 case {c.num} line {ln}: {op} impl=<{obs}> model=<{m}>"
    | _ => out := out.push s!"DIFF C15 case {c.num} line {ln}: unparsable line <{line}>"
  return out

def runCase : CaseFn := fun c =>
  match c.header.headD "" with
  | "fcmp" => runFcmp c
  | "parse" => runParse c
  | _ => runSeq c

end Driver.Drv.PushTx
