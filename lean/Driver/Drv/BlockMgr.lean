import Driver.Proto
import Neutrino.Spec.BlockMgr
import Neutrino.Gen.BlockMgr
open Neutrino.BM
namespace Driver.Drv.BlockMgr

/-! Trace format (harness/bmdrv):
  case N ps K win W cps [h:id ..] peers [id:cand ..] tbl [id:parent:work:valid:fresh:height ..]
  <event> => res R best B bl [..] byh [..] tip T bhash [..] fst F hl [..] ncp H sync P cand [..]
             htip i:h ftip i:h disc [..] lb [p:h ..] ntf [C:id:h:f D:id:h:newtip ..]
-/

def nats (s : String) : List Nat := (s.splitOn ":").map nat!

def parseNode (s : String) : Node :=
  match nats s with
  | [a, b] => ⟨a, b⟩
  | _ => ⟨0, 0⟩

def parseNtfn (s : String) : Ntfn :=
  match s.splitOn ":" with
  | ["C", a, b, c] => .conn (nat! a) (nat! b) (nat! c)
  | ["C", a, b, c, _] => .conn (nat! a) (nat! b) (nat! c)
  | ["C", a, b, c, _, _] => .conn (nat! a) (nat! b) (nat! c)
  | ["D", a, b, c] => .disc (nat! a) (nat! b) (nat! c)
  | ["D", a, b, c, _] => .disc (nat! a) (nat! b) (nat! c)
  | _ => .conn 999999 0 0

structure Row where
  parent : Nat
  work   : Nat
  valid  : Bool
  fresh  : Bool
  height : Nat
deriving Inhabited

def mkTbl (rows : Array Row) : Tbl :=
  { parent := fun i => if i = 0 then none else (rows[i]?).map (·.parent)
    work := fun i => ((rows[i]?).map (·.work)).getD 0
    valid := fun i => ((rows[i]?).map (·.valid)).getD false
    fresh := fun i => ((rows[i]?).map (·.fresh)).getD false
    height := fun i => ((rows[i]?).map (·.height)).getD 0 }

/-- fields of a `key value key [list] …` line -/
partial def fields (ws : List String) (acc : List (String × List String)) : List (String × List String) :=
  match ws with
  | [] => acc.reverse
  | k :: v :: rest =>
    if v.startsWith "[" then
      let (xs, rest') := bracket (v :: rest)
      fields rest' ((k, xs) :: acc)
    else fields rest ((k, [v]) :: acc)
  | [_] => acc.reverse

def get (fs : List (String × List String)) (k : String) : List String :=
  ((fs.find? (·.1 == k)).map (·.2)).getD []

def get1 (fs : List (String × List String)) (k : String) : String := (get fs k).headD ""

def parseCfg (hdr : List String) : Cfg × List Peer :=
  let fs := fields hdr []
  let rows : Array Row := ((get fs "tbl").map (fun s =>
    match s.splitOn ":" with
    | [_, p, w, v, f, h] => (⟨nat! p, nat! w, v == "1", f == "1", nat! h⟩ : Row)
    | _ => default)).toArray
  let cps := (get fs "cps").map (fun s => let n := parseNode s; (⟨n.id, n.height⟩ : Cp))   -- written height:id
  let peers := (get fs "peers").map (fun s => let n := parseNode s; ({ id := n.id, cand := n.height == 1 } : Peer))
  ({ tbl := mkTbl rows, cps := cps, win := nat! (get1 fs "win") }, peers)

def parseDump (obs : String) : Dump :=
  let fs := fields (words obs) []
  let opt (s : String) : Option Nat := if s == "E" || s == "-1" then none else some (nat! s)
  { res := get1 fs "res", best := nat! (get1 fs "best"), bl := (get fs "bl").map parseNode,
    byh := (get fs "byh").map nat!,
    tip := if get1 fs "tip" == "E" then none else some (parseNode (get1 fs "tip")),
    bhash := (get fs "bhash").map parseNode, fst := opt (get1 fs "fst"),
    hl := (get fs "hl").map parseNode, ncp := opt (get1 fs "ncp"), sync := nat! (get1 fs "sync"),
    cand := (get fs "cand").map nat!, htip := parseNode (get1 fs "htip"), ftip := parseNode (get1 fs "ftip"),
    disc := (get fs "disc").map nat!, lb := (get fs "lb").map (fun s => let n := parseNode s; (n.id, n.height)),
    ntf := (get fs "ntf").map parseNtfn,
    memAt := (get fs "ntf").map (fun x => match x.splitOn ":" with | [_, _, _, _, m] => nat! m | [_, _, _, _, m, _] => nat! m | _ => 0),
    pres := get1 fs "pres", pbest := nat! (get1 fs "pbest"), pbl := (get fs "pbl").map parseNode,
    pseen := nat! (get1 fs "pseen"), tipread := get1 fs "tipread",
    cs := get1 fs "cstip" != "", csbyh := (get fs "csbyh").map nat!, csbad := nat! (get1 fs "csbad"),
    cstip := if get1 fs "cstip" == "E" || get1 fs "cstip" == "" then none else some (parseNode (get1 fs "cstip")),
    storedAt := (get fs "ntf").map (fun x => match x.splitOn ":" with | ["D", _, _, _, st] => st == "1" | _ => false),
    pre := (get fs "pre").map (fun x => match x.splitOn ":" with | [v, h, i] => (v == "1", nat! h, nat! i) | _ => (false, 0, 0)) }

def parseEv (ws : List String) : Option Ev :=
  match ws with
  | ["newpeer", p] => some (.newPeer (nat! p))
  | ["donepeer", p] => some (.donePeer (nat! p))
  | ["peerheight", p, h] => some (.peerHeight (nat! p) (nat! h))
  | ["inv", p, i] => some (.inv (nat! p) (nat! i))
  | "headers" :: p :: rest => some (.headers (nat! p) ((bracket rest).1.map nat!))
  | ["cfwrite", s, n, bad] => some (.cfWrite (nat! s) (nat! n) (bad == "0"))
  | ["cfwrite", s, n, bad, _, _] => some (.cfWrite (nat! s) (nat! n) (bad == "0"))
  | ["backlog", h] => some (.backlog (nat! h))
  | "headersfw" :: p :: rest => some (.headersFailWrite (nat! p) ((bracket rest).1.map nat!))
  | "importreset" :: rest =>
    let (ids, tl) := bracket rest
    some (.importReset (ids.map nat!) (nat! (tl.headD "0")))
  | _ => none

/-- what the model says the harness should have read -/
def dumpOfState (s : State) (o : Out) : Dump :=
  { res := if o.res == .ok then "ok" else "err", best := o.best, bl := o.bl,
    byh := s.log, tip := some ⟨tipId s.log, tipHeight s.log⟩,
    bhash := if s.corrupt then [] else byHashOf s.log, fst := some s.fst, hl := s.hl.take 16,
    ncp := s.ncp.map (·.height), sync := s.sync.getD 0, cand := s.cand, htip := s.htip, ftip := s.ftip,
    disc := (s.peers.filter (·.disc)).map (·.id), lb := s.peers.map (fun p => (p.id, p.lastBlock)), ntf := o.ntf }

def firstDiff (m i : Dump) : Option String :=
  if m.res != i.res then some s!"res model={m.res} impl={i.res}"
  else if m.byh != i.byh then some s!"stored chain model={m.byh} impl={i.byh}"
  else if m.tip != i.tip then some s!"tip model={repr m.tip} impl={repr i.tip}"
  else if m.bhash != i.bhash then some s!"by-hash index model={repr m.bhash} impl={repr i.bhash}"
  else if m.fst != i.fst then some s!"filter store tip model={m.fst} impl={i.fst}"
  else if m.hl != i.hl then some s!"headerList model={repr m.hl} impl={repr i.hl}"
  else if m.ncp != i.ncp then some s!"nextCheckpoint model={m.ncp} impl={i.ncp}"
  else if m.sync != i.sync then some s!"syncPeer model={m.sync} impl={i.sync}"
  else if m.cand != i.cand then some s!"candidates model={m.cand} impl={i.cand}"
  else if m.htip != i.htip then some s!"headerTip model={repr m.htip} impl={repr i.htip}"
  else if m.ftip != i.ftip then some s!"filterHeaderTip model={repr m.ftip} impl={repr i.ftip}"
  else if m.disc != i.disc then some s!"disconnected peers model={m.disc} impl={i.disc}"
  else if m.lb != i.lb then some s!"peer heights model={m.lb} impl={i.lb}"
  else if m.ntf != i.ntf then some s!"notifications model={repr m.ntf} impl={repr i.ntf}"
  else if m.best != i.best then some s!"best model={m.best} impl={i.best}"
  else if m.bl != i.bl then some s!"backlog model={repr m.bl} impl={repr i.bl}"
  else none

def runCase : CaseFn := fun c => Id.run do
  let (cfg, peers) := parseCfg c.header
  let mut out : Array String := #[]
  let mut st : State := init cfg peers
  let mut prev : Dump := {}
  let mut diverged := false
  let mut subs : List (Nat × List Nat) := []      -- (line subscribed at, view)
  for (ln, line) in c.lines do
    let (op, obs) := splitObs line
    let ws := words op
    let d := parseDump obs
    let fail (pid : String) (f : Fail) : String := s!"ORACLE-FAIL {pid} case {c.num} line {ln}: shape={f.1} {f.2} [{op}]"
    -- (a reorganisation whose rollback fails panics by design: "Rollback failed")
    if (d.res == "panic" && ws.head? != some "headersfrb") || d.res == "hang" || d.res == "HANG" then
      out := out.push s!"ORACLE-FAIL C01 case {c.num} line {ln}: shape=handler-{d.res} the handler did not return normally [{op}]"
    -- a backlog request must never be kept waiting by a batch that is being announced
    for f in c19BacklogEnabled d do out := out.push (fail "C19" f)
    if d.tipread == "HANG" || d.pres == "HANG" || d.res == "HANG" then diverged := true
    -- C01 on every dump
    for f in c01 cfg d do out := out.push (fail "C01" f)
    if ws == ["init"] then
      if !diverged then
        if let some txt := firstDiff (dumpOfState st {}) d then
          for pid in ["C01", "C02", "C19"] do out := out.push s!"DIFF {pid} case {c.num} line {ln}: init {txt}"
          diverged := true
    else if ws.head? == some "headersfrb" then
      -- a reorganisation in which one RollbackLastBlock was made to fail: oracle only; the code as it
      -- is panics and the case ends here, code that survives is judged by the oracles from here on
      let p := nat! (ws.getD 1 "0")
      let ids := (bracket (ws.drop 2)).1.map nat!
      if dumpGood cfg prev then
        for f in c19DiscStored ids d do out := out.push (fail "C19" f)
        let discs := d.ntf.filter (fun n => match n with | .disc .. => true | _ => false)
        let k := commonLen prev.byh d.byh
        if discReplay cfg.tbl ids prev.byh discs != some (prev.byh.take k) then
          out := out.push (fail "C19" ("disconnected-but-still-stored", s!"the disconnected events {repr discs} do not lead from {prev.byh} to what is still stored {d.byh} (peer {p})"))
      diverged := true
    else if ws.head? == some "lagreorg" then
      -- a reorganisation + the new branch's filter headers handled with a slow sink, then a
      -- backlog request: `lagreorg p [ids] stop n h`
      let p := nat! (ws.getD 1 "0")
      let (idsW, rest) := bracket (ws.drop 2)
      let ids := idsW.map nat!
      let (stop, n, h) := match rest with
        | [a, b, e] => (nat! a, nat! b, nat! e)
        | _ => (0, 0, 0)
      for f in c02 cfg (.headers p ids) prev d do out := out.push (fail "C02" f)
      if dumpGood cfg prev && dumpGood cfg d then
        for f in c19TipCovers d do out := out.push (fail "C19" f)
        for f in c19HandlerAhead d do out := out.push (fail "C19" f)
        for f in c19LagProbe h d do out := out.push (fail "C19" f)
      subs := []
      if !diverged then
        let (st1, o1) := step cfg st (.headers p ids)
        let (st2, o2) := if n == 0 then (st1, ({} : Out)) else step cfg st1 (.cfWrite stop n true)
        st := st2
        let o : Out := { ntf := o1.ntf ++ o2.ntf, res := o2.res }
        if let some txt := firstDiff (dumpOfState st o) d then
          for pid in ["C01", "C02", "C19"] do out := out.push s!"DIFF {pid} case {c.num} line {ln}: {op}: {txt}"
          diverged := true
        else
          -- rendezvous: every notification was taken before the handlers returned, so the
          -- subscriber is served from the final state and nothing is delivered afterwards
          let po := backlog st h
          let mres := if po.res == .ok then "ok" else "err"
          -- (how many notifications the sink had RECORDED at that moment is not compared: the last
          -- one may still be in the sink's hands; the backlog itself is determined)
          if mres != d.pres || (mres == "ok" && (po.best != d.pbest || po.bl != d.pbl)) then
            out := out.push s!"DIFF C19 case {c.num} line {ln}: {op}: backlog after the handlers returned model={mres} {po.best} {repr po.bl} taken={o.ntf.length} impl={d.pres} {d.pbest} {repr d.pbl} taken={d.pseen}"
            diverged := true
    else
      match parseEv ws with
      | none =>
        for pid in ["C01", "C02", "C19"] do out := out.push s!"DIFF {pid} case {c.num} line {ln}: unparsable event <{op}>"
        diverged := true
      | some ev =>
        -- property oracles, on the implementation's observations only
        for f in c02 cfg ev prev d do out := out.push (fail "C02" f)
        if dumpGood cfg prev && dumpGood cfg d then
          for f in c19Event cfg.tbl ev prev d do out := out.push (fail "C19" f)
          if d.tipread != "HANG" then
            for f in c19TipCovers d do out := out.push (fail "C19" f)
          for f in c19HandlerAhead d do out := out.push (fail "C19" f)
          for f in c19DiscStored (match ev with | .headers _ hs => hs | _ => []) d do out := out.push (fail "C19" f)
          match ws with
          | ["cfwrite", _, _, _, k, h] =>
            if d.tipread != "HANG" && d.pres != "HANG" then
              for f in c19Probe (nat! k) (nat! h) d do out := out.push (fail "C19" f)
          | _ => pure ()
        -- (an import happens before the block manager serves subscribers: imported filter headers
        -- are not announced, existing test subscribers end here - `alignedEv` in the theorem)
        match ev with
        | .importReset .. => subs := []
        | _ => pure ()
        -- subscribers: replay of backlog + later events reproduces the committed chain
        let mut subs' : List (Nat × List Nat) := []
        for (at_, view) in subs do
          let v := replay view d.ntf
          if !dumpGood cfg d then pure ()
          else if v != committed d then
            let shape := if some d.ftip.height != d.fst then "stale-filter-tip-after-rollback" else "replay-diverged"
            out := out.push (fail "C19" (shape, s!"subscriber since line {at_}: replaying the events gives {v}, committed chain is {committed d}"))
          else subs' := subs' ++ [(at_, v)]
        subs := subs'
        match ev with
        | .backlog h =>
          if dumpGood cfg d then
            for f in c19Backlog h d do out := out.push (fail "C19" f)
          if h != 0 && d.res == "ok" && subs.length < 4 then
            if let some f := d.fst then
              if h ≤ f then
                let view := replay ((committed d).take (h + 1)) (d.bl.map (fun n => .conn n.id n.height 0))
                if view == committed d then subs := subs ++ [(ln, view)]
        | _ => pure ()
        -- model
        if !diverged then
          let stOld := st
          let (st', o) := step cfg st ev
          st := st'
          if let some txt := firstDiff (dumpOfState st o) d then
            for pid in ["C01", "C02", "C19"] do out := out.push s!"DIFF {pid} case {c.num} line {ln}: {op}: {txt}"
            diverged := true
          else
            -- inside the write: the tip each event saw, and the backlog a mid-batch subscriber got,
            -- as the model predicts them from the statement order found in the source
            let tipFirst := Neutrino.Gen.BlockMgr.cfTipBeforeNotify
            let mTip := if tipFirst then st.ftip.height else stOld.ftip.height
            let mMem := o.ntf.map (fun n => match n with | .conn .. => mTip | _ => 0)
            if mMem != d.memAt.zipWith (fun (m : Nat) (n : Ntfn) => match n with | .conn .. => m | _ => 0) d.ntf then
              out := out.push s!"DIFF C19 case {c.num} line {ln}: {op}: in-memory filter tip at each event model={mMem} impl={d.memAt}"
              diverged := true
            match ws with
            | ["cfwrite", sid, n, _, k, h] =>
              if d.pres == "ok" || d.pres == "err" then
                let po := cfProbe tipFirst stOld (nat! sid) (nat! n) (nat! h)
                let mres := if po.res == .ok then "ok" else "err"
                if k != "0" && (mres != d.pres || (mres == "ok" && (po.best != d.pbest || po.bl != d.pbl))) then
                  out := out.push s!"DIFF C19 case {c.num} line {ln}: {op}: backlog at event {k} model={mres} {po.best} {repr po.bl} impl={d.pres} {d.pbest} {repr d.pbl}"
                  diverged := true
            | _ => pure ()
    prev := d
  return out

end Driver.Drv.BlockMgr
