import Driver.Proto
import Neutrino.Spec.Subs
import Neutrino.Model.SubsReg
open Neutrino.Subs
namespace Driver.Drv.Subs

/-- `c<height>.<serial>` / `d<height>.<serial>` -/
def parseNtfn (w : String) : Option Ntfn :=
  let conn := w.startsWith "c"
  if !(conn || w.startsWith "d") then none else
  match (w.drop 1).toString.splitOn "." with
  | [h, s] =>
    match h.toNat?, s.toNat? with
    | some h, some s => some ⟨s, conn, h⟩
    | _, _ => none
  | _ => none

def showNtfn (n : Ntfn) : String := s!"{if n.connected then "c" else "d"}{n.height}.{n.serial}"

def showList (l : List Ntfn) : String := "[" ++ " ".intercalate (l.map showNtfn) ++ "]"

/-- for messages: at most the last/first 8 elements -/
def showTail (l : List Ntfn) : String :=
  if l.length ≤ 8 then showList l else s!"[…{l.length - 8} more… " ++ " ".intercalate ((l.drop (l.length - 8)).map showNtfn) ++ "]"
def showHead (l : List Ntfn) : String :=
  if l.length ≤ 8 then showList l else "[" ++ " ".intercalate ((l.take 8).map showNtfn) ++ s!" …{l.length - 8} more…]"

/-- first position at which a received batch leaves the expected stream -/
def firstBad (o : Obs) : List Ntfn → Nat → Option (Nat × Ntfn × Option Ntfn)
  | [], _ => none
  | n :: ns, k =>
    match (o.recv1 n) with
    | (o', .ok) => firstBad o' ns (k + 1)
    | _ => some (k, n, (o.expected.drop o.got.length).head?)

def explain (o : Obs) (items : List Ntfn) : String :=
  match firstBad o items 0 with
  | some (k, n, e) => s!"item #{o.got.length + k} of its stream is {showNtfn n}, expected {(e.map showNtfn).getD "nothing"}; before it {showTail (o.got ++ items.take k)}; expected continuation {showHead (o.expected.drop (o.got.length + k))}"
  | none => ""

def parseList (ws : List String) : Option (List Ntfn) := ws.mapM parseNtfn

/-- the canonical schedule the driver compares under: after every call every
forwarder runs until it blocks (queue empty or channel full) -/
def forwardN (s : State) (id : Nat) : Nat → State
  | 0 => s
  | k + 1 => forwardN (step s (.forward id)).1 id k

def settle (s : State) (ids : List Nat) : State :=
  ids.foldl (fun s i => forwardN s i chanCap) s

/-- `read i k` on the model: consume, letting the forwarder refill after every receive -/
def readN (s : State) (id : Nat) : Nat → List Ntfn → State × List Ntfn × String
  | 0, acc => (s, acc.reverse, "ok")
  | k + 1, acc =>
    match step s (.consume id) with
    | (s', .item n) => readN (forwardN s' id 1) id k (n :: acc)
    | (s', .closed) => (s', acc.reverse, "closed")
    | (s', _) => (s', acc.reverse, "timeout")

def obsOf (m : List (Nat × Obs)) (i : Nat) : Obs := ((m.find? (·.1 == i)).map (·.2)).getD {}
def setObs (m : List (Nat × Obs)) (i : Nat) (o : Obs) : List (Nat × Obs) :=
  if m.any (·.1 == i) then m.map (fun p => if p.1 == i then (i, o) else p) else m ++ [(i, o)]

/-- The model keeps its subscribers in a function; every step wraps it once more.  Rebuild it as a
table over the ids in use (the same function on those ids, `none` elsewhere as before: ids are only
ever added through `subscribe`), so that a case of thousands of events costs thousands of steps. -/
def compact (s : State) (ids : List Nat) : State :=
  let tbl := ids.map (fun i => (i, s.subs i))
  { s with subs := fun i => match tbl.find? (·.1 == i) with | some p => p.2 | none => none }

/-- the registration handshake when Stop overtakes a registration that is inside the backlog lookup:
the events up to the observation point, and whether the model lets Stop return -/
def regStopEvents (gaveUp : Bool) : List Reg.Ev :=
  [.take, .quitClose] ++ (if gaveUp then [.clientGiveUp] else []) ++ [.lookupDone, .reply, .clientRecv, .handlerExit]

def modelStopReturns (gaveUp : Bool) : Bool :=
  Reg.stopReturns (Reg.run Neutrino.Gen.Subs.replyChanCap Reg.init (regStopEvents gaveUp))

/-- `ns.foldl Obs.emit o` in one append (a run of thousands of notifications is applied to the records
when the next observation is due, not one by one) -/
def emitMany (o : Obs) (ns : List Ntfn) : Obs :=
  if o.ended || ns.isEmpty then o else { o with expected := o.expected ++ ns }

/-- `Obs.recv` with the all-in-order batch decided in one pass; any other batch goes through `Obs.recv`,
which names the first offending item -/
def recvFast (o : Obs) (items : List Ntfn) : Obs × Verdict :=
  if !o.sawClosed && items.isPrefixOf (o.expected.drop o.got.length) then ({ o with got := o.got ++ items }, .ok)
  else o.recv items

/-- parse `[a b c] tail...` -/
def listAndTail (ws : List String) : Option (List Ntfn × List String) :=
  let (inner, rest) := bracket ws
  (parseList inner).map (·, rest)

def runCase : CaseFn := fun c => Id.run do
  let kind := c.header.headD ""
  let det := kind == "det"
  let mut out : Array String := #[]
  let mut st : State := init
  let mut ids : List Nat := []
  let mut obs : List (Nat × Obs) := []
  let mut fastLive : List Nat := []      -- free mode: subscribers that must be complete at `settle`
  let mut diverged := false
  -- an open registration window: (id, height, backlog snapshot) and what the source emitted since
  let mut win : Option (Nat × Nat × List Ntfn) := none
  let mut winQ : List Ntfn := []
  let mut gaveUp := false
  let mut pend : Array Ntfn := #[]     -- taken by the handler, not yet entered into the records
  for (ln, line) in c.lines do
    st := compact st ids
    let (op, ob) := splitObs line
    let ws := words op
    if ws.head? != some "emit" && !pend.isEmpty then
      let l := pend.toList
      obs := obs.map (fun p => (p.1, emitMany p.2 l))
      pend := #[]
    let sfx := if kind == "stoprace" then "-during-stop" else ""
    let fail := fun (shape msg : String) => s!"ORACLE-FAIL C11 case {c.num} line {ln}: shape={shape}{sfx} {msg}"
    let diff := fun (msg : String) => s!"DIFF C11 case {c.num} line {ln}: {op} impl=<{ob}> {msg}"
    match ws with
    | "status" :: _ =>
      let shape := if ob.startsWith "PANIC" then "panic" else if ob.startsWith "HANG" then "hang" else "stall"
      out := out.push (fail shape s!"run ended in {ob}")
    | "sub" :: i :: h :: rest =>
      let i := nat! i; let h := nat! h
      match listAndTail rest with
      | none => out := out.push (diff "unparsable backlog")
      | some (bl, _) =>
        if ob.startsWith "ok" then
          obs := setObs obs i (Obs.start bl)
          if !ids.contains i then ids := ids ++ [i]
        else if ob.startsWith "HANG" then out := out.push (fail "hang" s!"NewSubscription never returned ({ob})")
        if det && !diverged then
          let (s', o) := step st (.subscribe i h bl)
          st := settle s' ids
          let m := match o with | .ok => s!"ok {h}" | .stopped => "stopped" | _ => "invalid"
          if m != ob then
            out := out.push (diff s!"model=<{m}>"); diverged := true
    | "subbegin" :: i :: h :: rest =>
      -- NewSubscription(h) is running and is parked inside the source's backlog lookup, which has
      -- taken its snapshot `bl`.  The model's handler is inside its (atomic) `subscribe` step: nothing
      -- happens in the model until `subend`; what the source emits meanwhile queues up in `src`.
      match listAndTail rest with
      | none => out := out.push (diff "unparsable backlog")
      | some (bl, _) =>
        if ob == "parked" then
          win := some (nat! i, nat! h, bl); winQ := []
        else if ob.startsWith "HANG" then out := out.push (fail "hang" s!"NewSubscription neither reached the backlog lookup nor returned ({ob})")
        else if det && !diverged then
          out := out.push (diff "model=<parked>"); diverged := true
    | ["subend", i] =>
      match win with
      | none => out := out.push (diff "no registration in progress")
      | some (wi, h, bl) =>
        win := none
        if ob.startsWith "ok" && wi == nat! i then
          -- the subscriber is owed the snapshot, then everything emitted since the snapshot
          obs := setObs obs wi (winQ.foldl Obs.emit (Obs.start bl))
          if !ids.contains wi then ids := ids ++ [wi]
        else if ob.startsWith "HANG" then out := out.push (fail "hang" s!"NewSubscription never returned after the backlog lookup completed ({ob})")
        if det && !diverged then
          let (s1, o) := step st (.subscribe wi h bl)
          -- the handler is free again: it takes the queued notifications one by one
          let s2 := winQ.foldl (fun s _ => (step s .handlerFanout).1) s1
          st := settle s2 ids
          let m := match o with | .ok => s!"ok {h}" | .stopped => "stopped" | _ => "invalid"
          if m != ob then
            out := out.push (diff s!"model=<{m}>"); diverged := true
        winQ := []
    | ["subfail", i, h] =>
      if det && !diverged then
        let (s', o) := step st (.subscribeFail (nat! i) (nat! h))
        st := s'
        let m := match o with | .err => "err" | .stopped => "stopped" | _ => "invalid"
        if m != ob then
          out := out.push (diff s!"model=<{m}>"); diverged := true
    | "racesubstop" :: _ => pure ()   -- marker: a NewSubscription || Stop race starts here
    | ["role", i, "fast"] => fastLive := fastLive ++ [nat! i]
    | "role" :: _ => pure ()
    | ["emit", w] =>
      match parseNtfn w with
      | none => out := out.push (diff "unparsable notification")
      | some n =>
        if ob == "queued" then
          -- emitted while a registration is in progress: every registered subscriber is owed it
          -- (Obs.emit), the one being registered is owed it after its backlog (winQ, see subend)
          pend := pend.push n
          winQ := winQ ++ [n]
          if win.isNone then out := out.push (diff "queued emit outside a registration window")
          if det && !diverged then st := (step st (.emit n)).1
          continue
        if ob == "ok" then pend := pend.push n
        else if ob.startsWith "HANG" then out := out.push (fail "hang" s!"handler never took the notification ({ob})")
        if det && !diverged then
          let (s1, _) := step st (.emit n)
          let (s2, o) := step s1 .handlerFanout
          st := settle s2 ids
          let m := match o with | .ok => "ok" | _ => "blocked"
          if m != ob then
            out := out.push (diff s!"model=<{m}>"); diverged := true
    | ["len", i] =>
      if det && !diverged then
        let m := match st.subs (nat! i) with | some x => toString x.chan.length | none => "none"
        if m != ob then
          out := out.push (diff s!"model=<{m}>"); diverged := true
    | ["read", i, k] =>
      let i := nat! i; let k := nat! k
      match listAndTail (words ob) with
      | none => out := out.push (diff "unparsable observation")
      | some (items, tail) =>
        let o0 := obsOf obs i
        let (o1, v) := recvFast o0 items
        if v != .ok then out := out.push (fail v.shape s!"subscriber {i}: {explain o0 items}")
        let mut o2 := o1
        if tail == ["closed"] then
          let (o', v') := o1.close
          o2 := o'
          if v' != .ok then out := out.push (fail v'.shape s!"subscriber {i}: channel closed without cancel/stop")
        else if tail == ["timeout"] then
          -- the harness only asks a live subscriber for items that are pending
          let v' := if o1.ended then Verdict.notClosed else Verdict.missing (k - items.length)
          out := out.push (fail v'.shape s!"subscriber {i}: asked for {k}, got {items.length} then nothing; received so far {showTail o1.got}, still owed {showHead (o1.expected.drop o1.got.length)}")
        obs := setObs obs i o2
        if det && !diverged then
          let (s', got, t) := readN st i k []
          st := s'
          let m := showList got ++ " " ++ t
          if m != ob then
            out := out.push (diff s!"model=<{m}>"); diverged := true
    | ["poll", i] =>
      let i := nat! i
      let o0 := obsOf obs i
      match words ob with
      | ["item", w] =>
        match parseNtfn w with
        | some n =>
          let (o1, v) := o0.recv [n]
          obs := setObs obs i o1
          if v != .ok then out := out.push (fail v.shape s!"subscriber {i}: {explain o0 [n]}")
        | none => out := out.push (diff "unparsable item")
      | ["closed"] =>
        let (o1, v) := o0.close
        obs := setObs obs i o1
        if v != .ok then out := out.push (fail v.shape s!"subscriber {i}: channel closed without cancel/stop")
      | _ =>
        -- read dry at a quiescence point
        let v := o0.settled false
        if v != .ok then out := out.push (fail v.shape s!"subscriber {i} at quiescence: channel open and empty; received so far {showTail o0.got}, still owed {showHead (o0.expected.drop o0.got.length)}")
      if det && !diverged then
        let (s', o) := step st (.consume i)
        st := forwardN s' i 1
        let m := match o with | .item n => s!"item {showNtfn n}" | .closed => "closed" | .empty => "empty" | _ => "invalid"
        if m != ob then
          out := out.push (diff s!"model=<{m}>"); diverged := true
    | ["cancel", i] =>
      let i := nat! i
      if ob.startsWith "HANG" then out := out.push (fail "hang" s!"Cancel of {i} never completed ({ob})")
      if det then obs := setObs obs i (obsOf obs i).end
      if det && !diverged then
        st := (step st (.cancel i)).1
    | ["stop"] =>
      if ob.startsWith "HANG" then out := out.push (fail "hang" s!"Stop never returned ({ob})")
      obs := obs.map (fun p => (p.1, p.2.end))
      if det && !diverged then
        st := (step st .stop).1
    | ["stopbegin"] =>
      -- Stop has been called while the registration of `win` is inside the backlog lookup: from here on
      -- every subscriber's stream has ended (the model's stop is atomic; nothing is emitted any more)
      obs := obs.map (fun p => (p.1, p.2.end))
      if win.isNone then out := out.push (diff "Stop overtaking a registration, but none is in progress")
      if det && !diverged then
        st := (step st .stop).1
    | ["subgiveup", i] =>
      -- the caller of NewSubscription after Stop closed the quit channel, the handler still in the lookup
      match win with
      | none => out := out.push (diff "no registration in progress")
      | some (wi, h, bl) =>
        if wi != nat! i then out := out.push (diff "not the registration in progress")
        gaveUp := ob == "stopped"
        if ob.startsWith "PANIC" then out := out.push (fail "panic" s!"NewSubscription overtaken by Stop: {ob}")
        if det && !diverged then
          let (s', o) := step st (.subscribe wi h bl)
          st := s'
          let m := match o with | .ok => "registered" | .stopped => "stopped" | _ => "invalid"
          if m != ob then
            out := out.push (diff s!"model=<{m}>"); diverged := true
    | ["subanswer", _] =>
      if ob.startsWith "HANG" then out := out.push (fail "hang" s!"NewSubscription never returned although the backlog lookup completed and Stop was called ({ob})")
    | ["stopend"] =>
      win := none; winQ := []
      -- oracle (implementation's own observation): Stop returns whatever the registrant did
      if ob.startsWith "HANG" then
        out := out.push (fail "hang" s!"Stop never returned after it overtook a registration whose caller had {if gaveUp then "given up" else "not given up"}: the handler must not wait for a client ({ob})")
      else if ob.startsWith "PANIC" then out := out.push (fail "panic" s!"Stop overtaking a registration: {ob}")
      -- model: the handshake with the reply channel's extracted capacity
      if det && !diverged then
        let m := if modelStopReturns gaveUp then "ok" else "HANG"
        if m != (if ob.startsWith "HANG" then "HANG" else ob) then
          out := out.push (diff s!"model=<{m}>"); diverged := true
    | ["settle"] =>
      -- free mode: `[i:n j:m]` = how many items each fast, never-cancelled subscriber has received
      let (inner, _) := bracket (words ob)
      for w in inner do
        match w.splitOn ":" with
        | [i, n] =>
          let o := obsOf obs (nat! i)
          if fastLive.contains (nat! i) && !o.ended && nat! n < o.expected.length then
            out := out.push (fail "missing" s!"subscriber {i} keeps reading but has {n} of {o.expected.length} notifications after the bounded wait")
        | _ => pure ()
    | ["recv", i] =>
      let i := nat! i
      match listAndTail (words ob) with
      | none => out := out.push (diff "unparsable observation")
      | some (items, tail) =>
        let o0 := obsOf obs i
        let (o1, v) := o0.recv items
        if v != .ok then out := out.push (fail v.shape s!"subscriber {i}: {explain o0 items}")
        if tail != ["closed"] then out := out.push (fail "not-closed" s!"subscriber {i}: channel still open after Stop returned")
        obs := setObs obs i o1
    | _ => out := out.push (diff "unparsable op")
  return out

end Driver.Drv.Subs
