import Driver.Proto
import Neutrino.Spec.Dispatcher
open Neutrino.Disp
namespace Driver.Drv.Dispatcher

def parseErr : String → Option Err
  | "ok" => some .ok
  | "timeout" => some .timeout
  | "disc" => some .disconnected
  | "canceled" => some .canceled
  | "other" => some .other
  | _ => none

def showErr : Err → String
  | .ok => "ok" | .timeout => "timeout" | .disconnected => "disc" | .canceled => "canceled" | .other => "other"

def showVerdict : Verdict → String
  | .res e => showErr e
  | .shutdown => "shutdown"

def parseVerdict (s : String) : Verdict :=
  if s == "shutdown" then .shutdown else .res ((parseErr s).getD .other)

/-- value of `key=` among the words -/
def field (ws : List String) (key : String) : Option String :=
  (ws.find? (·.startsWith (key ++ "="))).map (fun w => (w.drop (key.length + 1)).toString)

/-- the `v=[b:verdict ...]` group -/
def verdictsOf (obs : String) : List (Nat × Verdict) :=
  match obs.splitOn "v=[" with
  | _ :: rest :: _ =>
    let inner := (rest.splitOn "]").headD ""
    (words inner).map (fun w => match w.splitOn ":" with
      | [b, v] => (nat! b, parseVerdict v)
      | _ => (0, .shutdown))
  | _ => []

def showV (vs : List (Nat × Verdict)) : String :=
  "v=[" ++ " ".intercalate (vs.map (fun (b, v) => s!"{b}:{showVerdict v}")) ++ "]"

def insertBy (lt : α → α → Bool) (x : α) : List α → List α
  | [] => [x]
  | y :: ys => if lt x y then x :: y :: ys else y :: insertBy lt x ys

def sortBy (lt : α → α → Bool) (l : List α) : List α := l.foldr (insertBy lt) []

def outVerdicts : List Out → List (Nat × Verdict)
  | [] => []
  | .verdict b v :: r => (b, v) :: outVerdicts r
  | _ :: r => outVerdicts r

def modelV (os : List Out) : String :=
  showV (sortBy (fun a b => a.1 < b.1) (outVerdicts os))

def parseOrder (obs : String) : List (Nat × Nat × Bool) :=
  let inner := ((obs.replace "[" "").replace "]" "")
  (words inner).map (fun w => match w.splitOn ":" with
    | [p, s, f] => (nat! p, nat! s, f == "l")
    | _ => (0, 0, false))

def parseReq (s : String) : Req :=
  match s.splitOn "." with
  | [b, k] => (nat! b, nat! k)
  | _ => (0, 0)

/-- the canonical text the model predicts for one op; `none` for lines that are not model events -/
def modelObs (st : State) (ws : List String) : Option (State × String) :=
  match ws with
  | ["batch", n, nrm, mr, prog, hard] =>
    let (st', os) := step st (.newBatch (nat! n) (nrm == "1") (nat! mr) (prog == "1") (hard == "now"))
    some (st', s!"b={st.nextBatch} {modelV os}")
  | ["peer", p] =>
    let (st', os) := step st (.peer (nat! p))
    some (st', if os.contains .ignored then "IGNORED" else modelV os)
  | ["accept", p] =>
    let (st', os) := step st (.accept (nat! p))
    match os with
    | [.dispatched _ idx tries to] =>
      let b := ((st.work.head?).map (·.batch)).getD 0
      let first := ((st.subs.find? (fun x => x.id == b)).map (·.first)).getD 0
      some (st', s!"j={idx} t={tries} to={to} r={b}.{idx - first}")
    | _ => some (st', "IGNORED")
  | ["result", p, e] =>
    match parseErr e with
    | none => none
    | some err =>
      let (st', os) := step st (.result (nat! p) err)
      match os with
      | .resultFor idx :: _ =>
        let mt := if os.any (fun o => match o with | .maxTries _ => true | _ => false) then 1 else 0
        some (st', s!"j={idx} {modelV os} mt={mt} sc={scoreOf st'.rank (nat! p)}")
      | _ => some (st', "IGNORED")
  | ["late", p, idx, e] =>
    match parseErr e with
    | none => none
    | some err =>
      let (st', os) := step2 st (.late (nat! p) (nat! idx) err)
      match os with
      | .resultFor i :: _ =>
        let mt := if os.any (fun o => match o with | .maxTries _ => true | _ => false) then 1 else 0
        some (st', s!"j={i} {modelV os} mt={mt} sc={scoreOf st'.rank (nat! p)}")
      | _ => some (st', "IGNORED")
  | ["wake", b, g] =>
    let (st', os) := step st (.wake (nat! b) (nat! g))
    some (st', if os.contains .ignored then "IGNORED" else modelV os)
  | ["elapse", b] => some ((step st (.elapse (nat! b))).1, "-")
  -- which free workers are momentarily away from their job channels is not a dispatcher event: the blocking
  -- offer (`offerLoop`) does not depend on it
  | "notrecv" :: _ => some (st, "-")
  | ["exit", p] =>
    let (st', os) := step st (.exit (nat! p))
    some (st', if os.contains .ignored then "IGNORED" else "-")
  | ["quit"] =>
    let (st', os) := step st .quit
    some (st', modelV os)
  | ["final"] =>
    let cs := (List.range st.nextBatch).map (fun b => s!"{b}:{(st.verdicts.filter (fun x => x.1 == b)).length}")
    some (st, "n=[" ++ " ".intercalate cs ++ "]")
  | ["order"] =>
    let l := sortBy (fun a b => a.1 < b.1) ((freeLive st).map (fun w => (w.addr, scoreOf st.rank w.addr)))
    some (st, " ".intercalate (l.map (fun (p, s) => s!"{p}:{s}")))
  | _ => none

/-- observations the oracle is fed for one line (independent of the model) -/
def obsOf1 (ws : List String) (obs : String) : List Obs :=
  let ows := words obs
  let vs := (verdictsOf obs).map (fun (b, v) => Obs.verdict b v)
  match ws with
  | ["batch", n, _, _, _, hard] =>
    let b := nat! ((field ows "b").getD "0")
    .submitted b (nat! n) :: (if hard == "now" then [Obs.hardPassed b] else []) ++
      (if ws.getD 4 "0" == "1" then [Obs.progBatch b] else []) ++ vs
  | ["wake", b, g] => .wake (nat! b) (nat! g) :: vs
  | ["elapse", b] => [.hardPassed (nat! b)]
  | ["accept", p] =>
    [.dispatched (nat! p) (nat! ((field ows "j").getD "0")) (parseReq ((field ows "r").getD "0.0"))]
  | ["result", p, e] =>
    .result (nat! p) (nat! ((field ows "j").getD "0")) ((parseErr e).getD .other) :: vs ++ [.resultDone] ++
      (match field ows "sc" with
       | some sc => [Obs.scoreAfter (nat! p) (nat! sc)]
       | none => [])
  | ["late", p, idx, e] =>
    .lateResult (nat! p) (nat! idx) ((parseErr e).getD .other) :: vs ++ [.resultDone] ++
      (match field ows "sc" with
       | some sc => [Obs.scoreAfter (nat! p) (nat! sc)]
       | none => [])
  | ["exit", p] => [.exited (nat! p)]
  | "notrecv" :: ps => [.notReceiving (ps.map (fun x => nat! x))]
  | ["order"] => [.order (parseOrder obs)]
  | ["quit"] => .quit :: vs
  | ["final"] =>
    let inner := ((obs.replace "n=[" "").replace "]" "")
    [.final ((words inner).map (fun w => match w.splitOn ":" with
      | [b, c] => (nat! b, nat! c)
      | _ => (0, 0)))]
  | _ => vs

/-- Lines that start a new dispatcher event are written after the driver's barrier for the previous event, i.e.
with the dispatcher at rest and every offered job taken: the quiescence clause is evaluated first.  (`quit` is not
such a line: the driver may stop the work manager while a job is on offer.) -/
def obsOf (ws : List String) (obs : String) : List Obs :=
  match ws with
  | "batch" :: _ | "peer" :: _ | "result" :: _ | "late" :: _ | "wake" :: _ | "elapse" :: _ =>
    (match ws with
     | ["peer", p] => Obs.quiescent :: Obs.connected (nat! p) :: obsOf1 ws obs
     | _ => Obs.quiescent :: obsOf1 ws obs)
  | _ => obsOf1 ws obs

/-- `a/b` -/
def parseFrac (s : String) : Nat × Nat :=
  match s.splitOn "/" with
  | [a, b] => (nat! a, nat! b)
  | _ => (0, 0)

def realObs (ws : List String) (obs : String) : Option RObs :=
  let ows := words obs
  match ws with
  | "rbatch" :: i :: _ =>
    let v := (field ows "v").getD "HANG"
    let (fin, n) := parseFrac ((field ows "fin").getD "0/0")
    let kind := (field ws "kind").getD "later"
    some (.batch (nat! i) kind (if v == "HANG" then none else some (parseVerdict v)) fin n
      (nat! ((field ows "gap").getD "0")) (nat! ((field ows "pt").getD "0")))
  | "rrank" :: what :: _ =>
    some (.pick what (nat! ((field ws "okA").getD "0")) (nat! ((field ws "okB").getD "0")) ((field ows "to").getD "none"))
  | ["rstop"] => some (.stop (obs == "ok"))
  | ["rpeer"] => some .peerNotTaken
  | ["rfinal"] =>
    let inner := ((obs.replace "n=[" "").replace "]" "")
    some (.final ((words inner).map (fun w => match w.splitOn ":" with
      | [b, c] => (nat! b, nat! c)
      | _ => (0, 0))))
  | _ => none

/-- cases of kind `real`: the real worker over scripted peers; oracle only -/
def runReal (c : CaseIn) : Array String := Id.run do
  let mut out : Array String := #[]
  for (ln, line) in c.lines do
    let (op, obs) := splitObs line
    match realObs (words op) obs with
    | none => out := out.push s!"DIFF C12 case {c.num} line {ln}: unparsable op <{op}>"
    | some ob =>
      for (shape, msg) in realStep ob do
        out := out.push s!"ORACLE-FAIL C12 case {c.num} line {ln}: shape={shape} {msg} (at: {op} => {obs})"
  return out

/-- `n` consecutive addresses from `first` on are added (a burst of short-lived peers) -/
def churnOps (first : Nat) : Nat → List RankOp
  | 0 => []
  | n + 1 => .add first :: churnOps (first + 1) n

def rankOps (ws : List String) : Option (List RankOp) :=
  match ws with
  | ["add", p] => some [.add (nat! p)]
  | ["reward", p] => some [.reward (nat! p)]
  | ["punish", p] => some [.punish (nat! p)]
  | ["reset", p] => some [.reset (nat! p)]
  | ["churn", first, n] => some (churnOps (nat! first) (nat! n))
  | _ => none

/-- cases of kind `rank`: the stock ranking on its own -/
def runRank (c : CaseIn) : Array String := Id.run do
  let mut out : Array String := #[]
  let mut r : List (Nat × Nat) := []
  let mut hist : List RankOp := []
  let mut diverged := false
  for (ln, line) in c.lines do
    let (op, obs) := splitObs line
    let ws := words op
    if obs.startsWith "PANIC" then
      out := out.push s!"ORACLE-FAIL C12 case {c.num} line {ln}: shape=panic the ranking panicked at: {op} ({obs})"
      continue
    match ws with
    | "order" :: ps =>
      let inp := ps.map (fun x => nat! x)
      let res := (words obs).map (fun x => nat! x)
      for (shape, msg) in (rankObsStep hist (.order inp res)).2 do
        out := out.push s!"ORACLE-FAIL C12 case {c.num} line {ln}: shape={shape} {msg} (at: {op} => {obs})"
      if !diverged && !(isPerm inp res && scoresAscending r res) then
        out := out.push s!"DIFF C12 case {c.num} line {ln}: {op} impl=<{obs}> model scores=<{res.map (scoreOf r)}>"
        diverged := true
    | _ =>
      match rankOps ws with
      | none =>
        out := out.push s!"DIFF C12 case {c.num} line {ln}: unparsable op <{op}>"
        diverged := true
      | some ops =>
        r := rankRun r ops
        hist := hist ++ ops
  return out

def runCase : CaseFn := fun c => Id.run do
  if c.header.headD "" == "real" then return runReal c
  if c.header.headD "" == "rank" then return runRank c
  let mut out : Array String := #[]
  let mut st : State := init
  let mut o : OSt := {}
  let mut diverged := false
  for (ln, line) in c.lines do
    let (op, obs) := splitObs line
    let ws := words op
    if obs.startsWith "PANIC" then
      out := out.push s!"ORACLE-FAIL C12 case {c.num} line {ln}: shape=panic the dispatcher goroutine panicked while handling: {op} ({obs})"
      continue
    if obs.startsWith "HANG" then
      if (obs.splitOn "while-offered").length > 1 then
        out := out.push s!"ORACLE-FAIL C12 case {c.num} line {ln}: shape=dispatcher-blocked-offering-job a free worker exited while it was being offered the head job and the dispatcher never reacted again (at: {op})"
      else
        out := out.push s!"ORACLE-FAIL C12 case {c.num} line {ln}: shape=hang the dispatcher stopped reacting at: {op}"
      continue
    -- the property oracle, on the implementation's own observations
    for ob in obsOf ws obs do
      let (o', fails) := obsStep o ob
      o := o'
      for (shape, msg) in fails do
        out := out.push s!"ORACLE-FAIL C12 case {c.num} line {ln}: shape={shape} {msg} (at: {op} => {obs})"
    -- the model
    if !diverged then
      match modelObs st ws with
      | none =>
        out := out.push s!"DIFF C12 case {c.num} line {ln}: unparsable op <{op}>"
        diverged := true
      | some (st', m) =>
        st := st'
        let impl := if ws == ["order"] then
            let l := sortBy (fun a b => a.1 < b.1) ((parseOrder obs).filter (·.2.2))
            " ".intercalate (l.map (fun (p, s, _) => s!"{p}:{s}"))
          else obs
        if m != impl then
          out := out.push s!"DIFF C12 case {c.num} line {ln}: {op} impl=<{impl}> model=<{m}>"
          diverged := true
  return out

end Driver.Drv.Dispatcher
