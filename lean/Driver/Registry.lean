import Driver.Drv.Lru
namespace Driver

def drivers : List (String × CaseFn) := [
  ("lru", Driver.Drv.Lru.runCase)]

end Driver
