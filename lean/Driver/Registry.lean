import Driver.Drv.Ban
import Driver.Drv.Dispatcher
import Driver.Drv.Lru
import Driver.Drv.Net
import Driver.Drv.PushTx
import Driver.Drv.Store
import Driver.Drv.Subs
namespace Driver

def drivers : List (String × CaseFn) := [
  ("ban", Driver.Drv.Ban.runCase),
  ("dispatcher", Driver.Drv.Dispatcher.runCase),
  ("lru", Driver.Drv.Lru.runCase),
  ("net", Driver.Drv.Net.runCase),
  ("pushtx", Driver.Drv.PushTx.runCase),
  ("store", Driver.Drv.Store.runCase),
  ("subs", Driver.Drv.Subs.runCase)]

end Driver
