import Driver.Drv.Lru
import Driver.Drv.PushTx
namespace Driver

def drivers : List (String × CaseFn) := [
  ("lru", Driver.Drv.Lru.runCase),
  ("pushtx", Driver.Drv.PushTx.runCase)]

end Driver
