import Driver.Drv.Lru
import Driver.Drv.Utxo
namespace Driver

def drivers : List (String × CaseFn) := [
  ("lru", Driver.Drv.Lru.runCase),
  ("utxo", Driver.Drv.Utxo.runCase)]

end Driver
