import Driver.Drv.Ban
import Driver.Drv.Lru
namespace Driver

def drivers : List (String × CaseFn) := [
  ("ban", Driver.Drv.Ban.runCase),
  ("lru", Driver.Drv.Lru.runCase)]

end Driver
