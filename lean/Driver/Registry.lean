import Driver.Drv.Lru
import Driver.Drv.Subs
namespace Driver

def drivers : List (String × CaseFn) := [
  ("lru", Driver.Drv.Lru.runCase),
  ("subs", Driver.Drv.Subs.runCase)]

end Driver
