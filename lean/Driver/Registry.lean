import Driver.Drv.Lru
import Driver.Drv.Rescan
import Driver.Drv.Store
namespace Driver

def drivers : List (String × CaseFn) := [
  ("lru", Driver.Drv.Lru.runCase),
  ("rescan", Driver.Drv.Rescan.runCase),
  ("store", Driver.Drv.Store.runCase)]

end Driver
