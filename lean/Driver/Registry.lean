import Driver.Drv.GetBlock
import Driver.Drv.GetCFilter
import Driver.Drv.Lru
import Driver.Drv.Store
namespace Driver

def drivers : List (String × CaseFn) := [
  ("getblock", Driver.Drv.GetBlock.runCase),
  ("getcfilter", Driver.Drv.GetCFilter.runCase),
  ("lru", Driver.Drv.Lru.runCase),
  ("store", Driver.Drv.Store.runCase)]

end Driver
