import Driver.Drv.Import
import Driver.Drv.Lru
namespace Driver

def drivers : List (String × CaseFn) := [
  ("import", Driver.Drv.Import.runCase),
  ("lru", Driver.Drv.Lru.runCase)]

end Driver
