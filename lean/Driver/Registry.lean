import Driver.Drv.CFHeaders
import Driver.Drv.Lru
import Driver.Drv.Store
namespace Driver

def drivers : List (String × CaseFn) := [
  ("cfheaders", Driver.Drv.CFHeaders.runCase),
  ("lru", Driver.Drv.Lru.runCase),
  ("store", Driver.Drv.Store.runCase)]

end Driver
