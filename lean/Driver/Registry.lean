import Driver.Drv.Lru
import Driver.Drv.PushTx
import Driver.Drv.Store
import Driver.Drv.Subs
namespace Driver

def drivers : List (String × CaseFn) := [
  ("lru", Driver.Drv.Lru.runCase),
  ("pushtx", Driver.Drv.PushTx.runCase),
  ("store", Driver.Drv.Store.runCase),
  ("subs", Driver.Drv.Subs.runCase)]

end Driver
