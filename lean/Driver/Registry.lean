import Driver.Drv.Ban
import Driver.Drv.BlockMgr
import Driver.Drv.CFHeaders
import Driver.Drv.Dispatcher
import Driver.Drv.GetBlock
import Driver.Drv.GetCFilter
import Driver.Drv.Import
import Driver.Drv.Lru
import Driver.Drv.Net
import Driver.Drv.PushTx
import Driver.Drv.Race
import Driver.Drv.Rescan
import Driver.Drv.Stop
import Driver.Drv.Store
import Driver.Drv.Subs
import Driver.Drv.Utxo
namespace Driver

def drivers : List (String × CaseFn) := [
  ("ban", Driver.Drv.Ban.runCase),
  ("blockmgr", Driver.Drv.BlockMgr.runCase),
  ("cfheaders", Driver.Drv.CFHeaders.runCase),
  ("dispatcher", Driver.Drv.Dispatcher.runCase),
  ("getblock", Driver.Drv.GetBlock.runCase),
  ("getcfilter", Driver.Drv.GetCFilter.runCase),
  ("import", Driver.Drv.Import.runCase),
  ("lru", Driver.Drv.Lru.runCase),
  ("net", Driver.Drv.Net.runCase),
  ("pushtx", Driver.Drv.PushTx.runCase),
  ("race", Driver.Drv.Race.runCase),
  ("rescan", Driver.Drv.Rescan.runCase),
  ("stop", Driver.Drv.Stop.runCase),
  ("store", Driver.Drv.Store.runCase),
  ("subs", Driver.Drv.Subs.runCase),
  ("utxo", Driver.Drv.Utxo.runCase)]

end Driver
