import Driver.Drv.Lru
import Driver.Drv.Race
import Driver.Drv.Stop
import Driver.Drv.Store
namespace Driver

def drivers : List (String × CaseFn) := [
  ("lru", Driver.Drv.Lru.runCase),
  ("race", Driver.Drv.Race.runCase),
  ("stop", Driver.Drv.Stop.runCase),
  ("store", Driver.Drv.Store.runCase)]

end Driver
