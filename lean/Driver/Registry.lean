import Driver.Drv.BlockMgr
import Driver.Drv.Lru
namespace Driver

def drivers : List (String × CaseFn) := [
  ("blockmgr", Driver.Drv.BlockMgr.runCase),
  ("lru", Driver.Drv.Lru.runCase)]

end Driver
