import Driver.Drv.Dispatcher
import Driver.Drv.Lru
namespace Driver

def drivers : List (String × CaseFn) := [
  ("dispatcher", Driver.Drv.Dispatcher.runCase),
  ("lru", Driver.Drv.Lru.runCase)]

end Driver
