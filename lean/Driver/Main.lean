import Driver.Proto
import Driver.Registry
open Driver

def main (args : List String) : IO UInt32 := do
  let some name := args.head? | do IO.eprintln "usage: driver <name> < trace"; return 2
  let some (_, fn) := Driver.drivers.find? (·.1 == name) | do IO.eprintln s!"unknown driver {name}"; return 2
  let lines ← readAll (← IO.getStdin) #[]
  let cases := groupCases lines
  let mut nrep := 0
  let mut nops := 0
  for c in cases do
    nops := nops + c.lines.size
    for r in fn c do
      IO.println r
      nrep := nrep + 1
  IO.println s!"SUMMARY driver={name} cases={cases.size} lines={nops} reports={nrep}"
  return 0
