import Neutrino.Props.C05
import Neutrino.Props.C06
import Neutrino.Props.C16
