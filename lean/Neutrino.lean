import Neutrino.Props.C10
import Neutrino.Props.C16
