import Neutrino.Props.C03
import Neutrino.Props.C16
