import Neutrino.Props.C09
import Neutrino.Props.C16
