import Neutrino.Props.C01
import Neutrino.Props.C02
import Neutrino.Props.C16
import Neutrino.Props.C19
