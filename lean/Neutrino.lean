import Neutrino.Props.C12
import Neutrino.Props.C16
