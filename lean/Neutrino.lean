import Neutrino.Props.C13
import Neutrino.Props.C16
