import Neutrino.Props.C11
import Neutrino.Props.C15
import Neutrino.Props.C16
