import Neutrino.Props.C16
import Neutrino.Props.C17
import Neutrino.Props.C18
