import Neutrino.Props.C14
import Neutrino.Props.C16
