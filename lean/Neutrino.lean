import Neutrino.Props.C04
import Neutrino.Props.C07
import Neutrino.Props.C08
import Neutrino.Props.C11
import Neutrino.Props.C12
import Neutrino.Props.C13
import Neutrino.Props.C15
import Neutrino.Props.C16
