import Neutrino.Props.C16
