/-
Helper lemmas about the byte-level model of the import file format.
-/
import Neutrino.Model.ImportFile
namespace Neutrino.ImportFile

theorem toNat_ofNat_mod (k : Nat) : (UInt8.ofNat (k % 256)).toNat = k % 256 := by
  simp [UInt8.toNat_ofNat']

theorem le32_length (n : Nat) : (le32 n).length = 4 := rfl

/-- reading back what was written (little endian, 32 bits) -/
theorem rd32_le32 (n : Nat) (h : n < two32) (rest : Bytes) : rd32 (le32 n ++ rest) = some (n, rest) := by
  unfold le32 rd32
  simp only [List.cons_append, List.nil_append, toNat_ofNat_mod]
  unfold two32 at h
  congr 2
  omega

theorem rd8_byte (k : Nat) (h : k < 256) (rest : Bytes) : rd8 (UInt8.ofNat k :: rest) = some (k, rest) := by
  unfold rd8
  have : (UInt8.ofNat k).toNat = k := by
    have := toNat_ofNat_mod k
    rw [Nat.mod_eq_of_lt h] at this; exact this
  simp [this]

theorem encodeMeta_length (m : Meta) : (encodeMeta m).length = 10 := by
  simp [encodeMeta, le32_length]

/-- a list of equally long chunks, flattened: chunk `i` sits at offset `i * sz` -/
theorem chunk_at (sz : Nat) (L : List Bytes) (hL : ∀ c ∈ L, c.length = sz) (i : Nat) (hi : i < L.length) :
    (L.flatten.drop (i * sz)).take sz = L[i] := by
  induction L generalizing i with
  | nil => simp at hi
  | cons c cs ih =>
    have hc : c.length = sz := hL c (by simp)
    have hcs : ∀ d ∈ cs, d.length = sz := fun d hd => hL d (by simp [hd])
    cases i with
    | zero =>
      simp only [Nat.zero_mul, List.drop_zero, List.flatten_cons, List.getElem_cons_zero]
      rw [List.take_append_of_le_length (by omega)]
      rw [List.take_of_length_le (by omega)]
    | succ j =>
      have hj : j < cs.length := by simpa using hi
      simp only [List.flatten_cons, List.getElem_cons_succ]
      have : (j + 1) * sz = c.length + j * sz := by rw [hc, Nat.add_mul]; omega
      rw [this, List.drop_append]
      have h1 : List.drop (c.length + j * sz) c = [] := List.drop_eq_nil_of_le (by omega)
      have h2 : c.length + j * sz - c.length = j * sz := by omega
      rw [h1, h2, List.nil_append]
      exact ih hcs j hj

theorem flatten_length (sz : Nat) (L : List Bytes) (hL : ∀ c ∈ L, c.length = sz) : L.flatten.length = L.length * sz := by
  induction L with
  | nil => simp
  | cons c cs ih =>
    have hc : c.length = sz := hL c (by simp)
    have hcs : ∀ d ∈ cs, d.length = sz := fun d hd => hL d (by simp [hd])
    simp only [List.flatten_cons, List.length_append, List.length_cons, ih hcs, hc, Nat.add_mul]
    omega

end Neutrino.ImportFile
