/-
The peer ranking the CODE defines (`(*peerRanking).AddPeer / Punish / Reward / ResetRanking`,
translated from query/peer_rank.go on every run, Gen/TransRank.lean; the map field `rank` is threaded
through each method) is the ranking of the dispatcher model (`Disp.addPeer / punish / reward /
resetRank`), for every injective naming of peer addresses.
-/
import Neutrino.Gen.TransRank
import Neutrino.Model.Dispatcher
namespace Neutrino.Disp
open Neutrino.Gen.TransRank Neutrino.GoInt

/-- the code's `map[string]uint64` as the model's association list over peer ids -/
def absRank (enc : String → Nat) (r : List (String × Nat)) : List (Nat × Nat) := r.map (fun e => (enc e.1, e.2))

section
variable (enc : String → Nat) (henc : ∀ a b, enc a = enc b → a = b)
include henc

theorem enc_beq (a b : String) : (enc a == enc b) = (a == b) := by
  by_cases h : a = b
  · subst h; rw [beq_self_eq_true, beq_self_eq_true]
  · have : enc a ≠ enc b := fun hh => h (henc a b hh)
    rw [beq_eq_false_iff_ne.mpr h, beq_eq_false_iff_ne.mpr this]

theorem lookup_abs (r : List (String × Nat)) (k : String) :
    (absRank enc r).lookup (enc k) = (r.find? (fun e => e.1 == k)).map (·.2) := by
  induction r with
  | nil => rfl
  | cons e r ih =>
    simp only [absRank, List.map_cons, List.lookup_cons, List.find?_cons] at ih ⊢
    rw [enc_beq enc henc k e.1]
    by_cases h : e.1 = k
    · subst h; rw [beq_self_eq_true]; rfl
    · have h' : ¬ k = e.1 := fun hh => h hh.symm
      rw [beq_eq_false_iff_ne.mpr h, beq_eq_false_iff_ne.mpr h']
      exact ih

theorem minsert_abs (r : List (String × Nat)) (k : String) (v : Nat) :
    absRank enc (minsert r k v) = setScore (absRank enc r) (enc k) v := by
  simp only [absRank, minsert, merase, setScore, List.map_cons, List.filter_map, List.cons.injEq, true_and]
  congr 1
  apply List.filter_congr
  intro e _
  simp only [Function.comp_apply, bne, enc_beq enc henc]
end

theorem mhas_find (r : List (String × Nat)) (k : String) :
    mhas r k = (r.find? (fun e => e.1 == k)).isSome := by
  induction r with
  | nil => rfl
  | cons e r ih =>
    simp only [mhas, List.any_cons, List.find?_cons] at ih ⊢
    by_cases h : (e.1 == k) = true
    · simp [h]
    · simp only [Bool.not_eq_true] at h
      simp only [h, Bool.false_or]; exact ih

theorem mlookup_find (r : List (String × Nat)) (k : String) :
    mlookup r k = ((r.find? (fun e => e.1 == k)).map (·.2)).getD 0 := by
  unfold mlookup
  cases r.find? (fun e => e.1 == k) <;> rfl

section
variable (enc : String → Nat) (henc : ∀ a b, enc a = enc b → a = b)
include henc

/-- **`AddPeer` is the model's `addPeer`** -/
theorem trans_addPeer (r : List (String × Nat)) (k : String) :
    absRank enc (peerRanking_AddPeer k r) = addPeer (absRank enc r) (enc k) := by
  unfold peerRanking_AddPeer addPeer
  simp only [lookup_abs enc henc, mhas_find]
  cases r.find? (fun e => e.1 == k) <;> simp [Gen.Dispatcher.defaultScore, minsert_abs enc henc]

/-- **`Punish` is the model's `punish`** (scores below 2^64 - 1: the code's `score + 1` is a
`uint64` addition; the ranking keeps scores within [bestScore, worstScore], `C12_rank_scores`) -/
theorem trans_punish (r : List (String × Nat)) (k : String) (hr : ∀ e ∈ r, e.2 + 1 < 2 ^ 64) :
    absRank enc (peerRanking_Punish k r) = punish (absRank enc r) (enc k) := by
  unfold peerRanking_Punish punish
  simp only [lookup_abs enc henc, mhas_find, mlookup_find]
  cases hf : r.find? (fun e => e.1 == k) with
  | none => simp
  | some e =>
    have hm := hr e (List.mem_of_find?_eq_some hf)
    simp only [Option.map_some, Option.isSome_some, Option.getD_some, ↓reduceIte, Gen.Dispatcher.worstScore]
    by_cases h8 : e.2 = 8
    · simp only [h8, ↓reduceIte]
    · simp only [h8, ↓reduceIte, uadd_of_lt hm, minsert_abs enc henc]

/-- **`Reward` is the model's `reward`** -/
theorem trans_reward (r : List (String × Nat)) (k : String) :
    absRank enc (peerRanking_Reward k r) = reward (absRank enc r) (enc k) := by
  unfold peerRanking_Reward reward
  simp only [lookup_abs enc henc, mhas_find, mlookup_find]
  cases hf : r.find? (fun e => e.1 == k) with
  | none => simp
  | some e =>
    simp only [Option.map_some, Option.isSome_some, Option.getD_some, ↓reduceIte, Gen.Dispatcher.bestScore]
    by_cases h0 : e.2 = 0
    · simp only [h0, ↓reduceIte]
    · have : 1 ≤ e.2 := by omega
      simp only [h0, ↓reduceIte, usub_of_le this, minsert_abs enc henc]

/-- **`ResetRanking` is the model's `resetRank`** -/
theorem trans_resetRank (r : List (String × Nat)) (k : String) :
    absRank enc (peerRanking_ResetRanking k r) = resetRank (absRank enc r) (enc k) := by
  unfold peerRanking_ResetRanking resetRank
  simp only [lookup_abs enc henc, mhas_find]
  cases r.find? (fun e => e.1 == k) <;> simp [Gen.Dispatcher.defaultScore, minsert_abs enc henc]

/-- what `Order` compares: the score the code's map gives a peer is the model's `scoreOf` -/
theorem trans_scoreOf (r : List (String × Nat)) (k : String) :
    (if mhas r k then mlookup r k else Gen.Dispatcher.defaultScore) = scoreOf (absRank enc r) (enc k) := by
  unfold scoreOf
  simp only [lookup_abs enc henc, mhas_find, mlookup_find]
  cases r.find? (fun e => e.1 == k) <;> simp
end

end Neutrino.Disp
