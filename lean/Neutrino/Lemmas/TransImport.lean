/-
The region arithmetic the CODE defines (Gen/TransImport.lean, regenerated from
chainimport/headers_import.go and utils.go on every run) is the model's `Import.regions`.
-/
import Neutrino.Gen.TransImport
import Neutrino.Model.Import
namespace Neutrino.Import
open Neutrino.Gen.TransImport Neutrino.GoInt

/-- `verifyMode` values as the model's `Verify` (named through the regenerated constants, so that
renumbering the Go `const` block is harmless) -/
def absVerify (n : Nat) : Verify :=
  if n = K_chainimport_verifyBlockOnly then .blockOnly
  else if n = K_chainimport_verifyFilterOnly then .filterOnly
  else .both

def absMode (n : Nat) : Mode :=
  if n = K_chainimport_appendBlockOnly then .blockOnly
  else if n = K_chainimport_appendFilterOnly then .filterOnly
  else .both

def absRegion (r : T_chainimport_headerRegion) : Region :=
  { start := r.start, stop := r.«end», «exists» := r.«exists»,
    verify := absVerify r.syncModes.verify, mode := absMode r.syncModes.append }

/-- the enum members are pairwise distinct (what `absVerify` / `absMode` rest on) -/
theorem trans_modes_distinct :
    K_chainimport_verifyBlockAndFilter ≠ K_chainimport_verifyBlockOnly ∧
    K_chainimport_verifyBlockAndFilter ≠ K_chainimport_verifyFilterOnly ∧
    K_chainimport_verifyBlockOnly ≠ K_chainimport_verifyFilterOnly ∧
    K_chainimport_appendBlockAndFilter ≠ K_chainimport_appendBlockOnly ∧
    K_chainimport_appendBlockAndFilter ≠ K_chainimport_appendFilterOnly ∧
    K_chainimport_appendBlockOnly ≠ K_chainimport_appendFilterOnly := by decide

/-- **`determineDivergenceSyncModes`**: which store is verified … -/
theorem trans_syncModes_verify (b f : Nat) :
    absVerify (determineDivergenceSyncModes b f).verify
      = (if b > f then Verify.blockOnly else if b < f then Verify.filterOnly else Verify.both) := by
  unfold determineDivergenceSyncModes
  by_cases h1 : f < b
  · have h1' : b > f := h1
    simp only [h1, ↓reduceIte]; decide
  · have h1' : ¬ b > f := h1
    by_cases h2 : b < f
    · simp only [h1, h2, ↓reduceIte]; decide
    · simp only [h1, h2, ↓reduceIte]; decide

/-- … and which is appended to -/
theorem trans_syncModes_mode (b f : Nat) :
    absMode (determineDivergenceSyncModes b f).append
      = (if b > f then Mode.filterOnly else if b < f then Mode.blockOnly else Mode.both) := by
  unfold determineDivergenceSyncModes
  by_cases h1 : f < b
  · have h1' : b > f := h1
    simp only [h1, ↓reduceIte]; decide
  · have h1' : ¬ b > f := h1
    by_cases h2 : b < f
    · simp only [h1, h2, ↓reduceIte]; decide
    · simp only [h1, h2, ↓reduceIte]; decide

/-- **the code's `determineProcessingRegions` computes the model's `regions`**: when the three
lookups succeed (metadata `md`, block tip `b`, filter tip `f`, both tips below 2^32 - 1 so that
`tip + 1` does not wrap) the result is non-nil, error-free, records the import range and the
effective tip, and its two regions are `Import.regions` of any file with that end height. -/
theorem trans_regions (md : T_chainimport_headerMetadata) (bh : Option T_wire_BlockHeader) (fh : Atom) (b f : Nat)
    (hb : b + 1 < 2 ^ 32) (hf : f + 1 < 2 ^ 32) (F : File) (hF : endHeight F = md.endHeight) :
    ∃ R, determineProcessingRegions (some md, false) (bh, b, false) (fh, f, false) = (some R, false) ∧
      R.importStartHeight = (deref md.importMetadata).startHeight ∧ R.importEndHeight = md.endHeight ∧
      R.effectiveTip = min b f ∧
      (absRegion R.divergence, absRegion R.newHeaders) = regions F b f := by
  have h1 : uadd 32 (min b f) 1 = min b f + 1 := uadd_of_lt (by omega)
  have h2 : uadd 32 (max b f) 1 = max b f + 1 := uadd_of_lt (by omega)
  have hv := trans_syncModes_verify b f
  have hmo := trans_syncModes_mode b f
  have e0 : absVerify 0 = Verify.both := by decide
  have e1 : absMode 0 = Mode.both := by decide
  refine ⟨_, rfl, rfl, rfl, rfl, ?_⟩
  simp only [deref_some, absRegion, regions, hF, h1, h2, hv, hmo, e0, e1]
  by_cases c1 : b > f
  · simp [c1]
  · by_cases c2 : b < f
    · simp [c1, c2]
    · simp [c1, c2]

/-- a failing lookup fails the whole computation, and nothing is returned -/
theorem trans_regions_err (m : Option T_chainimport_headerMetadata × Bool) (bt : Option T_wire_BlockHeader × Nat × Bool)
    (ft : Atom × Nat × Bool) (h : m.2 = true ∨ bt.2.2 = true ∨ ft.2.2 = true) :
    determineProcessingRegions m bt ft = (none, true) := by
  unfold determineProcessingRegions
  simp only []
  rcases h with h | h | h <;> (repeat' split) <;> simp_all

/-- **`validateChainContinuity` as the code spells it is the model's `continuity`** (error ⇔ `some _`):
with the metadata of file `F`, the chain tips of the stores `st`, `validateHeaderConnection` answering
as the model's `connects` and `verifyHeadersAtTargetHeight` as the model's `verifyAt … both`, for tips
below 2^32 - 1.  A failing metadata / chain-tip lookup is an error on both sides. -/
theorem trans_continuity (F : File) (st : Stores) (md : T_chainimport_headerMetadata) (im : T_chainimport_importMetadata)
    (bh : Option T_wire_BlockHeader) (fh : Atom) (b f : Nat)
    (hmd : md.importMetadata = some im) (hs : im.startHeight = F.bstart) (he : md.endHeight = endHeight F)
    (hb : bChainTip st = some b) (hf : fChainTip st = some f) (hb32 : b + 1 < 2 ^ 32) (hf32 : f + 1 < 2 ^ 32) :
    validateChainContinuity (some md, false) (bh, b, false) (fh, f, false)
        (fun s t _ => !connects F st s t) (fun h _ => !verifyAt F st .both h)
      = (continuity F st).isSome := by
  have h1 : uadd 32 (min b f) 1 = min b f + 1 := uadd_of_lt (by omega)
  have h2 : uadd 32 (min (min b f) (endHeight F)) 1 = min (min b f) (endHeight F) + 1 := uadd_of_lt (by omega)
  simp only [validateChainContinuity, validateChainContinuity_k1, continuity, hb, hf, deref_some, hmd, hs, he, h1, h2,
    ↓reduceIte]
  by_cases c1 : min b f + 1 < F.bstart
  · have c1' : F.bstart > min b f + 1 := c1
    simp [c1, c1']
  · have c1' : ¬ F.bstart > min b f + 1 := c1
    simp only [c1, c1', ↓reduceIte]
    by_cases c2 : min b f < F.bstart
    · have c2' : F.bstart > min b f := c2
      simp only [c2, c2', ↓reduceIte]
      cases connects F st F.bstart b <;> simp
    · have c2' : ¬ F.bstart > min b f := c2
      simp only [c2, c2', ↓reduceIte]
      cases hv1 : verifyAt F st Verify.both F.bstart
      · simp
      · simp only [Bool.not_true, ↓reduceIte, Bool.not_false, Bool.false_eq_true]
        by_cases c3 : F.bstart < min (min b f) (endHeight F)
        · have c3' : min (min b f) (endHeight F) > F.bstart := c3
          simp only [c3, c3', ↓reduceIte, decide_true, Bool.true_and]
          cases hv2 : verifyAt F st Verify.both (min (min b f) (endHeight F))
          · simp
          · simp only [Bool.not_true, ↓reduceIte, Bool.false_eq_true]
            by_cases c4 : min (min b f) (endHeight F) < endHeight F
            · simp only [c4, ↓reduceIte, decide_true, Bool.true_and]
              cases connects F st (min (min b f) (endHeight F) + 1) b <;> simp
            · simp only [c4, ↓reduceIte, decide_false, Bool.false_and, Bool.false_eq_true, Option.isSome_none]
        · have c3' : ¬ min (min b f) (endHeight F) > F.bstart := c3
          simp only [c3, c3', ↓reduceIte, decide_false, Bool.false_and, Bool.false_eq_true]
          by_cases c4 : min (min b f) (endHeight F) < endHeight F
          · simp only [c4, ↓reduceIte, decide_true, Bool.true_and]
            cases connects F st (min (min b f) (endHeight F) + 1) b <;> simp
          · simp only [c4, ↓reduceIte, decide_false, Bool.false_and, Bool.false_eq_true, Option.isSome_none]

theorem trans_continuity_err (m : Option T_chainimport_headerMetadata × Bool) (bt : Option T_wire_BlockHeader × Nat × Bool)
    (ft : Atom × Nat × Bool) (f4 : Nat → Nat → Option T_chainimport_headerMetadata → Bool) (f5 : Nat → Nat → Bool)
    (h : m.2 = true ∨ bt.2.2 = true ∨ ft.2.2 = true) : validateChainContinuity m bt ft f4 f5 = true := by
  unfold validateChainContinuity
  simp only []
  rcases h with h | h | h <;> (repeat' split) <;> simp_all

/-- **`targetHeightToImportSourceIndex`** is the model's `h - F.bstart` whenever the target height
is inside the file; below the file's start it wraps around (the code has no guard) -/
theorem trans_sourceIndex (h s : Nat) (hs : s ≤ h) : targetHeightToImportSourceIndex h s = h - s :=
  usub_of_le hs

theorem trans_sourceIndex_wraps (h s : Nat) (hs : h < s) (h32 : s ≤ 2 ^ 32) :
    targetHeightToImportSourceIndex h s = h + 2 ^ 32 - s := usub_of_lt hs h32

end Neutrino.Import
