/-
The region arithmetic the CODE defines (Gen/TransImport.lean, regenerated from
chainimport/headers_import.go and utils.go on every run) is the model's `Import.regions`.
-/
import Neutrino.Gen.TransImport
import Neutrino.Model.Import
namespace Neutrino.Import
open Neutrino.Gen.TransImport Neutrino.GoInt

/-- `verifyMode` values as the model's `Verify` (named through the regenerated constants, so that
renumbering the Go `const` block is harmless) -/
def absVerify (n : Nat) : Verify :=
  if n = K_chainimport_verifyBlockOnly then .blockOnly
  else if n = K_chainimport_verifyFilterOnly then .filterOnly
  else .both

def absMode (n : Nat) : Mode :=
  if n = K_chainimport_appendBlockOnly then .blockOnly
  else if n = K_chainimport_appendFilterOnly then .filterOnly
  else .both

def absRegion (r : T_chainimport_headerRegion) : Region :=
  { start := r.start, stop := r.«end», «exists» := r.«exists»,
    verify := absVerify r.syncModes.verify, mode := absMode r.syncModes.append }

/-- the enum members are pairwise distinct (what `absVerify` / `absMode` rest on) -/
theorem trans_modes_distinct :
    K_chainimport_verifyBlockAndFilter ≠ K_chainimport_verifyBlockOnly ∧
    K_chainimport_verifyBlockAndFilter ≠ K_chainimport_verifyFilterOnly ∧
    K_chainimport_verifyBlockOnly ≠ K_chainimport_verifyFilterOnly ∧
    K_chainimport_appendBlockAndFilter ≠ K_chainimport_appendBlockOnly ∧
    K_chainimport_appendBlockAndFilter ≠ K_chainimport_appendFilterOnly ∧
    K_chainimport_appendBlockOnly ≠ K_chainimport_appendFilterOnly := by decide

/-- **`determineDivergenceSyncModes`**: which store is verified … -/
theorem trans_syncModes_verify (b f : Nat) :
    absVerify (determineDivergenceSyncModes b f).verify
      = (if b > f then Verify.blockOnly else if b < f then Verify.filterOnly else Verify.both) := by
  unfold determineDivergenceSyncModes
  by_cases h1 : f < b
  · have h1' : b > f := h1
    simp only [h1, h1', ↓reduceIte]; decide
  · have h1' : ¬ b > f := h1
    by_cases h2 : b < f
    · simp only [h1, h1', h2, ↓reduceIte]; decide
    · simp only [h1, h1', h2, ↓reduceIte]; decide

/-- … and which is appended to -/
theorem trans_syncModes_mode (b f : Nat) :
    absMode (determineDivergenceSyncModes b f).append
      = (if b > f then Mode.filterOnly else if b < f then Mode.blockOnly else Mode.both) := by
  unfold determineDivergenceSyncModes
  by_cases h1 : f < b
  · have h1' : b > f := h1
    simp only [h1, h1', ↓reduceIte]; decide
  · have h1' : ¬ b > f := h1
    by_cases h2 : b < f
    · simp only [h1, h1', h2, ↓reduceIte]; decide
    · simp only [h1, h1', h2, ↓reduceIte]; decide

/-- **the code's `determineProcessingRegions` computes the model's `regions`**: when the three
lookups succeed (metadata `md`, block tip `b`, filter tip `f`, both tips below 2^32 - 1 so that
`tip + 1` does not wrap) the result is non-nil, error-free, records the import range and the
effective tip, and its two regions are `Import.regions` of any file with that end height. -/
theorem trans_regions (md : T_chainimport_headerMetadata) (bh : Option T_wire_BlockHeader) (fh : Atom) (b f : Nat)
    (hb : b + 1 < 2 ^ 32) (hf : f + 1 < 2 ^ 32) (F : File) (hF : endHeight F = md.endHeight) :
    ∃ R, determineProcessingRegions (some md, false) (bh, b, false) (fh, f, false) = (some R, false) ∧
      R.importStartHeight = (deref md.importMetadata).startHeight ∧ R.importEndHeight = md.endHeight ∧
      R.effectiveTip = min b f ∧
      (absRegion R.divergence, absRegion R.newHeaders) = regions F b f := by
  have h1 : uadd 32 (min b f) 1 = min b f + 1 := uadd_of_lt (by omega)
  have h2 : uadd 32 (max b f) 1 = max b f + 1 := uadd_of_lt (by omega)
  have hv := trans_syncModes_verify b f
  have hmo := trans_syncModes_mode b f
  have e0 : absVerify 0 = Verify.both := by decide
  have e1 : absMode 0 = Mode.both := by decide
  refine ⟨_, rfl, rfl, rfl, rfl, ?_⟩
  simp only [deref_some, absRegion, regions, hF, h1, h2, hv, hmo, e0, e1]
  by_cases c1 : b > f
  · simp [c1]
  · by_cases c2 : b < f
    · simp [c1, c2]
    · simp [c1, c2]

/-- a failing lookup fails the whole computation, and nothing is returned -/
theorem trans_regions_err (m : Option T_chainimport_headerMetadata × Bool) (bt : Option T_wire_BlockHeader × Nat × Bool)
    (ft : Atom × Nat × Bool) (h : m.2 = true ∨ bt.2.2 = true ∨ ft.2.2 = true) :
    determineProcessingRegions m bt ft = (none, true) := by
  unfold determineProcessingRegions
  simp only []
  rcases h with h | h | h <;> (repeat' split) <;> simp_all

/-- **`targetHeightToImportSourceIndex`** is the model's `h - F.bstart` whenever the target height
is inside the file; below the file's start it wraps around (the code has no guard) -/
theorem trans_sourceIndex (h s : Nat) (hs : s ≤ h) : targetHeightToImportSourceIndex h s = h - s :=
  usub_of_le hs

theorem trans_sourceIndex_wraps (h s : Nat) (hs : h < s) (h32 : s ≤ 2 ^ 32) :
    targetHeightToImportSourceIndex h s = h + 2 ^ 32 - s := usub_of_lt hs h32

end Neutrino.Import
