/-
The registration window: notifications emitted while the handler is inside a
registration (its backlog lookup) wait at the source and are fanned out after
the registration.  Core Lean only.
-/
import Neutrino.Lemmas.SubsIso
namespace Neutrino.Subs

theorem run_emits (w : List Ntfn) (s : State) :
    run s (w.map Ev.emit) = { s with src := s.src ++ w } := by
  induction w generalizing s with
  | nil => exact State.ext' rfl (by simp [run]) rfl rfl
  | cons n rest ih =>
    simp only [List.map_cons, run, step]
    rw [ih]
    exact State.ext' rfl (by simp) rfl rfl

theorem step_fanout_live (s : State) (n : Ntfn) (rest : List Ntfn)
    (hs : s.stopped = false) (hsrc : s.src = n :: rest) :
    (step s .handlerFanout).1 =
      { s with subs := mapAll s.subs (Sub.push n), src := rest, fanned := s.fanned ++ [n] } := by
  simp [step, hs, hsrc]

/-- the handler takes `w` from the source, one fan-out at a time -/
theorem run_fanouts (w : List Ntfn) (s : State) (rest : List Ntfn)
    (hs : s.stopped = false) (hsrc : s.src = w ++ rest) (id : Nat) (x : Sub)
    (hx : s.subs id = some x) (hl : x.live = true) :
    (run s (w.map fun _ => Ev.handlerFanout)).stopped = false ∧
    (run s (w.map fun _ => Ev.handlerFanout)).src = rest ∧
    (run s (w.map fun _ => Ev.handlerFanout)).fanned = s.fanned ++ w ∧
    ∃ y, (run s (w.map fun _ => Ev.handlerFanout)).subs id = some y ∧ y.live = true ∧
      y.regAt = x.regAt ∧ y.backlog = x.backlog := by
  induction w generalizing s x with
  | nil => exact ⟨hs, by simpa [run] using hsrc, by simp [run], x, hx, hl, rfl, rfl⟩
  | cons n w ih =>
    simp only [List.map_cons, run]
    rw [step_fanout_live s n (w ++ rest) hs (by simpa using hsrc)]
    have hx' : (mapAll s.subs (Sub.push n)) id = some (x.push n) := by simp [mapAll, hx]
    have hpush : (x.push n).live = true ∧ (x.push n).regAt = x.regAt ∧ (x.push n).backlog = x.backlog := by
      simp [Sub.push, hl]
    obtain ⟨h1, h2, h3, y, hy, hyl, hyr, hyb⟩ :=
      ih { s with subs := mapAll s.subs (Sub.push n), src := w ++ rest, fanned := s.fanned ++ [n] }
        hs rfl (x.push n) hx' hpush.1
    exact ⟨h1, h2, by rw [h3]; simp, y, hy, hyl, hyr.trans hpush.2.1, hyb.trans hpush.2.2⟩

end Neutrino.Subs
