/- Helper lemmas for C15 (core Lean only). -/
import Neutrino.Spec.PushTx
namespace Neutrino.PushTx

/-- the op reports `id` confirmed (MarkAsConfirmed, or a rebroadcast answered "confirmed") -/
def confirmsId (id : TxId) : Op → Bool
  | .confirm i => i == id
  | .rbStep i r => i == id && r == .confirmed
  | _ => false

/-- the op is a broadcast of `id` that the network accepts (nil or already-in-mempool) -/
def acceptsId (id : TxId) : Op → Bool
  | .bcast tx r => tx.id == id && r.keeps
  | _ => false

theorem mem_ids_remove (i j : TxId) (l : List Tx) : j ∈ ids (remove i l) ↔ j ∈ ids l ∧ j ≠ i := by
  induction l with
  | nil => simp [ids, remove]
  | cons t ts ih =>
    simp only [ids, remove, List.filter_cons] at ih ⊢
    by_cases h : t.id = i
    · simp only [h, bne_self_eq_false, Bool.false_eq_true, ↓reduceIte, ih, List.map_cons, List.mem_cons]
      constructor
      · intro ⟨a, b⟩; exact ⟨Or.inr a, b⟩
      · intro ⟨a, b⟩
        rcases a with a | a
        · exact absurd a b
        · exact ⟨a, b⟩
    · have : (t.id != i) = true := by simp [h]
      simp only [this, ↓reduceIte, List.map_cons, List.mem_cons, ih]
      constructor
      · intro a
        rcases a with a | ⟨a, b⟩
        · exact ⟨Or.inl a, by rw [a]; exact h⟩
        · exact ⟨Or.inr a, b⟩
      · intro ⟨a, b⟩
        rcases a with a | a
        · exact Or.inl a
        · exact Or.inr ⟨a, b⟩

theorem mem_ids_insert (tx : Tx) (j : TxId) (l : List Tx) : j ∈ ids (insert tx l) ↔ j = tx.id ∨ j ∈ ids l := by
  have h := mem_ids_remove tx.id j l
  simp only [insert, ids, List.map_append, List.mem_append, List.map_cons, List.map_nil, List.mem_singleton] at h ⊢
  rw [h]
  constructor
  · intro a
    rcases a with ⟨a, _⟩ | a
    · exact Or.inr a
    · exact Or.inl a
  · intro a
    rcases a with a | a
    · exact Or.inr a
    · by_cases e : j = tx.id
      · exact Or.inr e
      · exact Or.inl ⟨a, e⟩

/-- does the running rebroadcast still hold `i`? -/
def holds (s : State) (i : TxId) : Bool :=
  match s.running with
  | some todo => (ids todo).contains i
  | none => false

/-- the handler's map after one event, in closed form -/
def pendingAfter (s : State) : Op → List Tx
  | .bcast tx r => if !s.stopped && r.keeps then insert tx s.pending else s.pending
  | .confirm i => if s.stopped then s.pending else remove i s.pending
  | .rbStep i r => if holds s i && !s.stopped && decide (r = .confirmed) then remove i s.pending else s.pending
  | _ => s.pending

theorem step_pending (s : State) (o : Op) : (step s o).1.pending = pendingAfter s o := by
  cases o <;> simp only [step, pendingAfter, holds] <;> (repeat' split) <;> simp_all

/-- the rebroadcast goroutine's remaining snapshot after one event, in closed form -/
def runningAfter (s : State) : Op → Option (List Tx)
  | .trigger => if !s.stopped && s.running.isNone && !s.pending.isEmpty then some s.pending else s.running
  | .rbStep i _ =>
    match s.running with
    | some todo => if (ids todo).contains i then (if s.stopped then none else
         (match remove i todo with | [] => none | t :: ts => some (t :: ts))) else some todo
    | none => none
  | _ => s.running

theorem step_running (s : State) (o : Op) : (step s o).1.running = runningAfter s o := by
  cases o <;> simp only [step, runningAfter] <;> (repeat' split) <;> simp_all

/-- what a `started` answer of a trigger means -/
theorem trigger_started (s : State) (snap : List TxId) (h : (step s .trigger).2 = .started snap) :
    snap = ids s.pending ∧ s.stopped = false ∧ s.running = none ∧ s.pending ≠ [] := by
  simp only [step] at h
  (repeat' split at h) <;> simp_all

/-- an id stays pending under every op that does not report it confirmed -/
theorem pending_kept (s : State) (o : Op) (id : TxId) (hin : id ∈ ids s.pending)
    (hc : confirmsId id o = false) : id ∈ ids (step s o).1.pending := by
  rw [step_pending]
  cases o with
  | bcast tx r =>
    simp only [pendingAfter]
    split
    · exact (mem_ids_insert tx id s.pending).2 (Or.inr hin)
    · exact hin
  | confirm i =>
    simp only [pendingAfter]
    split
    · exact hin
    · have hne : id ≠ i := by intro e; simp [confirmsId, e] at hc
      exact (mem_ids_remove i id s.pending).2 ⟨hin, hne⟩
  | rbStep i r =>
    simp only [pendingAfter]
    split
    · rename_i hcond
      have hrc : r = .confirmed := by simp at hcond; exact hcond.2
      have hne : id ≠ i := by intro e; simp [confirmsId, e, hrc] at hc
      exact (mem_ids_remove i id s.pending).2 ⟨hin, hne⟩
    · exact hin
  | trigger => exact hin
  | stop => exact hin

theorem pending_kept_run (ops : List Op) (s : State) (id : TxId) (hin : id ∈ ids s.pending)
    (hc : ∀ o ∈ ops, confirmsId id o = false) : id ∈ ids (run s ops).pending := by
  induction ops generalizing s with
  | nil => exact hin
  | cons o os ih =>
    simp only [run]
    exact ih _ (pending_kept s o id hin (hc o (List.mem_cons_self ..))) (fun o' ho' => hc o' (List.mem_cons_of_mem _ ho'))

/-- an id stays out of the pending map under every op that is not an accepted broadcast of it -/
theorem absent_kept (s : State) (o : Op) (id : TxId) (hout : id ∉ ids s.pending)
    (ha : acceptsId id o = false) : id ∉ ids (step s o).1.pending := by
  rw [step_pending]
  cases o with
  | bcast tx r =>
    simp only [pendingAfter]
    split
    · rename_i hcond
      have hk : r.keeps = true := by simp at hcond; exact hcond.2
      intro hmem
      rcases (mem_ids_insert tx id s.pending).1 hmem with e | e
      · simp [acceptsId, hk, e] at ha
      · exact hout e
    · exact hout
  | confirm i =>
    simp only [pendingAfter]
    split
    · exact hout
    · intro hmem; exact hout ((mem_ids_remove i id s.pending).1 hmem).1
  | rbStep i r =>
    simp only [pendingAfter]
    split
    · intro hmem; exact hout ((mem_ids_remove i id s.pending).1 hmem).1
    · exact hout
  | trigger => exact hout
  | stop => exact hout

theorem absent_kept_run (ops : List Op) (s : State) (id : TxId) (hout : id ∉ ids s.pending)
    (ha : ∀ o ∈ ops, acceptsId id o = false) : id ∉ ids (run s ops).pending := by
  induction ops generalizing s with
  | nil => exact hout
  | cons o os ih =>
    simp only [run]
    exact ih _ (absent_kept s o id hout (ha o (List.mem_cons_self ..))) (fun o' ho' => ha o' (List.mem_cons_of_mem _ ho'))

/-- neither the pending map nor a running rebroadcast's remaining snapshot holds `id` -/
def NoId (id : TxId) (s : State) : Prop :=
  id ∉ ids s.pending ∧ ∀ todo, s.running = some todo → id ∉ ids todo

theorem noId_step (s : State) (o : Op) (id : TxId) (h : NoId id s) (ha : acceptsId id o = false) :
    NoId id (step s o).1 := by
  refine ⟨absent_kept s o id h.1 ha, ?_⟩
  rw [step_running]
  cases o with
  | trigger =>
    simp only [runningAfter]
    split
    · intro todo ht; injection ht with ht; rw [← ht]; exact h.1
    · exact h.2
  | rbStep i r =>
    simp only [runningAfter]
    cases hr : s.running with
    | none => intro todo ht; cases ht
    | some todo =>
      have hn : id ∉ ids todo := h.2 todo hr
      simp only []
      split
      · split
        · intro t ht; cases ht
        · cases hrm : remove i todo with
          | nil => intro t ht; cases ht
          | cons t ts =>
            intro t' ht'
            injection ht' with ht'
            rw [← ht', ← hrm]
            intro hmem
            exact hn ((mem_ids_remove i id todo).1 hmem).1
      · intro t ht; injection ht with ht; rw [← ht]; exact hn
  | bcast tx r => exact h.2
  | confirm i => exact h.2
  | stop => exact h.2

theorem noId_run (ops : List Op) (s : State) (id : TxId) (h : NoId id s)
    (ha : ∀ o ∈ ops, acceptsId id o = false) : NoId id (run s ops) := by
  induction ops generalizing s with
  | nil => exact h
  | cons o os ih =>
    simp only [run]
    exact ih _ (noId_step s o id h (ha o (List.mem_cons_self ..))) (fun o' ho' => ha o' (List.mem_cons_of_mem _ ho'))

/-- pigeonhole: a duplicate-free list inside a list that is not longer covers it -/
theorem subset_of_nodup_length_le : ∀ (l1 l2 : List Nat), l1.Nodup → (∀ x ∈ l1, x ∈ l2) →
    l2.length ≤ l1.length → ∀ x ∈ l2, x ∈ l1
  | [], l2, _, _, hlen => by
    intro x hx
    have : l2 = [] := List.eq_nil_of_length_eq_zero (Nat.le_zero.mp hlen)
    rw [this] at hx; cases hx
  | a :: t, l2, hnd, hsub, hlen => by
    intro x hx
    have ha : a ∈ l2 := hsub a (List.mem_cons_self ..)
    have hnd' := List.nodup_cons.mp hnd
    have hsub' : ∀ y ∈ t, y ∈ l2.erase a := by
      intro y hy
      have hne : y ≠ a := by intro e; rw [e] at hy; exact hnd'.1 hy
      exact (List.mem_erase_of_ne hne).2 (hsub y (List.mem_cons_of_mem _ hy))
    have hlen' : (l2.erase a).length ≤ t.length := by
      rw [List.length_erase_of_mem ha]
      simp only [List.length_cons] at hlen
      omega
    by_cases e : x = a
    · rw [e]; exact List.mem_cons_self ..
    · have : x ∈ l2.erase a := (List.mem_erase_of_ne e).2 hx
      exact List.mem_cons_of_mem _ (subset_of_nodup_length_le t (l2.erase a) hnd'.2 hsub' hlen' x this)

end Neutrino.PushTx
