/- Helper lemmas for C15 (core Lean only). -/
import Neutrino.Spec.PushTx
namespace Neutrino.PushTx

/-- the op reports `id` confirmed (MarkAsConfirmed, or a rebroadcast answered "confirmed") -/
def confirmsId (id : TxId) : Op → Bool
  | .confirm i => i == id
  | .rbStep i r => i == id && r == .confirmed
  | _ => false

/-- the op is a broadcast of `id` that the network accepts (nil or already-in-mempool) -/
def acceptsId (id : TxId) : Op → Bool
  | .bcast tx r => tx.id == id && r.keeps
  | _ => false

theorem mem_ids_remove (i j : TxId) (l : List Tx) : j ∈ ids (remove i l) ↔ j ∈ ids l ∧ j ≠ i := by
  induction l with
  | nil => simp [ids, remove]
  | cons t ts ih =>
    simp only [ids, remove, List.filter_cons] at ih ⊢
    by_cases h : t.id = i
    · simp only [h, bne_self_eq_false, Bool.false_eq_true, ↓reduceIte, ih, List.map_cons, List.mem_cons]
      constructor
      · intro ⟨a, b⟩; exact ⟨Or.inr a, b⟩
      · intro ⟨a, b⟩
        rcases a with a | a
        · exact absurd a b
        · exact ⟨a, b⟩
    · have : (t.id != i) = true := by simp [h]
      simp only [this, ↓reduceIte, List.map_cons, List.mem_cons, ih]
      constructor
      · intro a
        rcases a with a | ⟨a, b⟩
        · exact ⟨Or.inl a, by rw [a]; exact h⟩
        · exact ⟨Or.inr a, b⟩
      · intro ⟨a, b⟩
        rcases a with a | a
        · exact Or.inl a
        · exact Or.inr ⟨a, b⟩

theorem mem_ids_insert (tx : Tx) (j : TxId) (l : List Tx) : j ∈ ids (insert tx l) ↔ j = tx.id ∨ j ∈ ids l := by
  have h := mem_ids_remove tx.id j l
  simp only [insert, ids, List.map_append, List.mem_append, List.map_cons, List.map_nil, List.mem_singleton] at h ⊢
  rw [h]
  constructor
  · intro a
    rcases a with ⟨a, _⟩ | a
    · exact Or.inr a
    · exact Or.inl a
  · intro a
    rcases a with a | a
    · exact Or.inr a
    · by_cases e : j = tx.id
      · exact Or.inr e
      · exact Or.inl ⟨a, e⟩

/-- does the running rebroadcast still hold `i`? -/
def holds (s : State) (i : TxId) : Bool :=
  match s.running with
  | some todo => (ids todo).contains i
  | none => false

/-- the handler's map after one event, in closed form -/
def pendingAfter (s : State) : Op → List Tx
  | .bcast tx r => if !s.stopped && r.keeps then insert tx s.pending else s.pending
  | .confirm i => if s.stopped then s.pending else remove i s.pending
  | .rbStep i r => if holds s i && !s.stopped && decide (r = .confirmed) then remove i s.pending else s.pending
  | _ => s.pending

theorem step_pending (s : State) (o : Op) : (step s o).1.pending = pendingAfter s o := by
  cases o <;> simp only [step, pendingAfter, holds] <;> (repeat' split) <;> simp_all

/-- the rebroadcast goroutine's remaining snapshot after one event, in closed form -/
def runningAfter (s : State) : Op → Option (List Tx)
  | .trigger => if !s.stopped && s.running.isNone && !s.pending.isEmpty then some s.pending else s.running
  | .rbStep i _ =>
    match s.running with
    | some todo => if (ids todo).contains i then (if s.stopped then none else
         (match remove i todo with | [] => none | t :: ts => some (t :: ts))) else some todo
    | none => none
  | _ => s.running

theorem step_running (s : State) (o : Op) : (step s o).1.running = runningAfter s o := by
  cases o <;> simp only [step, runningAfter] <;> (repeat' split) <;> simp_all

/-- what a `started` answer of a trigger means -/
theorem trigger_started (s : State) (snap : List TxId) (h : (step s .trigger).2 = .started snap) :
    snap = ids s.pending ∧ s.stopped = false ∧ s.running = none ∧ s.pending ≠ [] := by
  simp only [step] at h
  (repeat' split at h) <;> simp_all

/-- an id stays pending under every op that does not report it confirmed -/
theorem pending_kept (s : State) (o : Op) (id : TxId) (hin : id ∈ ids s.pending)
    (hc : confirmsId id o = false) : id ∈ ids (step s o).1.pending := by
  rw [step_pending]
  cases o with
  | bcast tx r =>
    simp only [pendingAfter]
    split
    · exact (mem_ids_insert tx id s.pending).2 (Or.inr hin)
    · exact hin
  | confirm i =>
    simp only [pendingAfter]
    split
    · exact hin
    · have hne : id ≠ i := by intro e; simp [confirmsId, e] at hc
      exact (mem_ids_remove i id s.pending).2 ⟨hin, hne⟩
  | rbStep i r =>
    simp only [pendingAfter]
    split
    · rename_i hcond
      have hrc : r = .confirmed := by simp at hcond; exact hcond.2
      have hne : id ≠ i := by intro e; simp [confirmsId, e, hrc] at hc
      exact (mem_ids_remove i id s.pending).2 ⟨hin, hne⟩
    · exact hin
  | trigger => exact hin
  | stop => exact hin
  | closeSub => exact hin
  | subSpin => exact hin

theorem pending_kept_run (ops : List Op) (s : State) (id : TxId) (hin : id ∈ ids s.pending)
    (hc : ∀ o ∈ ops, confirmsId id o = false) : id ∈ ids (run s ops).pending := by
  induction ops generalizing s with
  | nil => exact hin
  | cons o os ih =>
    simp only [run]
    exact ih _ (pending_kept s o id hin (hc o (List.mem_cons_self ..))) (fun o' ho' => hc o' (List.mem_cons_of_mem _ ho'))

/-- an id stays out of the pending map under every op that is not an accepted broadcast of it -/
theorem absent_kept (s : State) (o : Op) (id : TxId) (hout : id ∉ ids s.pending)
    (ha : acceptsId id o = false) : id ∉ ids (step s o).1.pending := by
  rw [step_pending]
  cases o with
  | bcast tx r =>
    simp only [pendingAfter]
    split
    · rename_i hcond
      have hk : r.keeps = true := by simp at hcond; exact hcond.2
      intro hmem
      rcases (mem_ids_insert tx id s.pending).1 hmem with e | e
      · simp [acceptsId, hk, e] at ha
      · exact hout e
    · exact hout
  | confirm i =>
    simp only [pendingAfter]
    split
    · exact hout
    · intro hmem; exact hout ((mem_ids_remove i id s.pending).1 hmem).1
  | rbStep i r =>
    simp only [pendingAfter]
    split
    · intro hmem; exact hout ((mem_ids_remove i id s.pending).1 hmem).1
    · exact hout
  | trigger => exact hout
  | stop => exact hout
  | closeSub => exact hout
  | subSpin => exact hout

theorem absent_kept_run (ops : List Op) (s : State) (id : TxId) (hout : id ∉ ids s.pending)
    (ha : ∀ o ∈ ops, acceptsId id o = false) : id ∉ ids (run s ops).pending := by
  induction ops generalizing s with
  | nil => exact hout
  | cons o os ih =>
    simp only [run]
    exact ih _ (absent_kept s o id hout (ha o (List.mem_cons_self ..))) (fun o' ho' => ha o' (List.mem_cons_of_mem _ ho'))

/-- neither the pending map nor a running rebroadcast's remaining snapshot holds `id` -/
def NoId (id : TxId) (s : State) : Prop :=
  id ∉ ids s.pending ∧ ∀ todo, s.running = some todo → id ∉ ids todo

theorem noId_step (s : State) (o : Op) (id : TxId) (h : NoId id s) (ha : acceptsId id o = false) :
    NoId id (step s o).1 := by
  refine ⟨absent_kept s o id h.1 ha, ?_⟩
  rw [step_running]
  cases o with
  | trigger =>
    simp only [runningAfter]
    split
    · intro todo ht; injection ht with ht; rw [← ht]; exact h.1
    · exact h.2
  | rbStep i r =>
    simp only [runningAfter]
    cases hr : s.running with
    | none => intro todo ht; cases ht
    | some todo =>
      have hn : id ∉ ids todo := h.2 todo hr
      simp only []
      split
      · split
        · intro t ht; cases ht
        · cases hrm : remove i todo with
          | nil => intro t ht; cases ht
          | cons t ts =>
            intro t' ht'
            injection ht' with ht'
            rw [← ht', ← hrm]
            intro hmem
            exact hn ((mem_ids_remove i id todo).1 hmem).1
      · intro t ht; injection ht with ht; rw [← ht]; exact hn
  | bcast tx r => exact h.2
  | confirm i => exact h.2
  | stop => exact h.2
  | closeSub => exact h.2
  | subSpin => exact h.2

theorem noId_run (ops : List Op) (s : State) (id : TxId) (h : NoId id s)
    (ha : ∀ o ∈ ops, acceptsId id o = false) : NoId id (run s ops) := by
  induction ops generalizing s with
  | nil => exact h
  | cons o os ih =>
    simp only [run]
    exact ih _ (noId_step s o id h (ha o (List.mem_cons_self ..))) (fun o' ho' => ha o' (List.mem_cons_of_mem _ ho'))

/-- pigeonhole: a duplicate-free list inside a list that is not longer covers it -/
theorem subset_of_nodup_length_le : ∀ (l1 l2 : List Nat), l1.Nodup → (∀ x ∈ l1, x ∈ l2) →
    l2.length ≤ l1.length → ∀ x ∈ l2, x ∈ l1
  | [], l2, _, _, hlen => by
    intro x hx
    have : l2 = [] := List.eq_nil_of_length_eq_zero (Nat.le_zero.mp hlen)
    rw [this] at hx; cases hx
  | a :: t, l2, hnd, hsub, hlen => by
    intro x hx
    have ha : a ∈ l2 := hsub a (List.mem_cons_self ..)
    have hnd' := List.nodup_cons.mp hnd
    have hsub' : ∀ y ∈ t, y ∈ l2.erase a := by
      intro y hy
      have hne : y ≠ a := by intro e; rw [e] at hy; exact hnd'.1 hy
      exact (List.mem_erase_of_ne hne).2 (hsub y (List.mem_cons_of_mem _ hy))
    have hlen' : (l2.erase a).length ≤ t.length := by
      rw [List.length_erase_of_mem ha]
      simp only [List.length_cons] at hlen
      omega
    by_cases e : x = a
    · rw [e]; exact List.mem_cons_self ..
    · have : x ∈ l2.erase a := (List.mem_erase_of_ne e).2 hx
      exact List.mem_cons_of_mem _ (subset_of_nodup_length_le t (l2.erase a) hnd'.2 hsub' hlen' x this)


/-! ## the sets `sendTransaction` collects -/

/-- invariant of the response handler with the guard in place -/
structure CollInv (s : Collect) : Prop where
  sub : ∀ x ∈ s.rejections, x.1 ∈ s.replies
  closed : ∀ x ∈ s.rejections, x.1 ∈ s.closed
  nodup : (s.rejections.map (·.1)).Nodup

theorem collInv_init : CollInv {} := ⟨(by intro x hx; cases hx), (by intro x hx; cases hx), (by simp)⟩

theorem collInv_step (s : Collect) (m : PeerMsg) (h : CollInv s) : CollInv (collectStep true s m) := by
  cases m with
  | getdata p =>
    simp only [collectStep]
    split
    · exact h
    · split
      · exact h
      · exact ⟨fun x hx => List.mem_append_left _ (h.sub x hx), h.closed, h.nodup⟩
  | timeout p =>
    simp only [collectStep]
    exact ⟨h.sub, fun x hx => List.mem_cons_of_mem _ (h.closed x hx), h.nodup⟩
  | reject p c =>
    simp only [collectStep]
    split
    · exact h
    · rename_i hcl
      split
      · exact h
      · rename_i hg
        have hrep : p ∈ s.replies := by simpa using hg
        have hncl : p ∉ s.closed := by simpa using hcl
        have hnot : p ∉ s.rejections.map (·.1) := by
          intro hm
          obtain ⟨y, hy, hyp⟩ := List.mem_map.mp hm
          exact hncl (hyp ▸ h.closed y hy)
        have hfil : s.rejections.filter (fun x => x.1 != p) = s.rejections := by
          apply List.filter_eq_self.mpr
          intro a ha
          have : a.1 ≠ p := by
            intro e; exact hnot (List.mem_map.mpr ⟨a, ha, e⟩)
          simp [this]
        simp only [hfil]
        refine ⟨?_, ?_, ?_⟩
        · intro x hx
          rcases List.mem_append.mp hx with hx | hx
          · exact h.sub x hx
          · simp only [List.mem_singleton] at hx; rw [hx]; exact hrep
        · intro x hx
          rcases List.mem_append.mp hx with hx | hx
          · exact List.mem_cons_of_mem _ (h.closed x hx)
          · simp only [List.mem_singleton] at hx; rw [hx]; exact List.mem_cons_self ..
        · simp only [List.map_append, List.map_cons, List.map_nil]
          apply List.nodup_append.mpr
          refine ⟨h.nodup, by simp, ?_⟩
          intro a ha b hb
          simp only [List.mem_singleton] at hb
          intro e
          exact hnot (by rw [← hb, ← e]; exact ha)

theorem collInv_from (msgs : List PeerMsg) (s : Collect) (h : CollInv s) : CollInv (collectFrom true s msgs) := by
  induction msgs generalizing s with
  | nil => exact h
  | cons m ms ih => exact ih _ (collInv_step s m h)

/-- where the collected sets come from: a peer is in `replies` only through its own getdata,
in `rejections` only through its own reject (whatever the guard) -/
theorem collect_origin (guard : Bool) (msgs : List PeerMsg) (s : Collect) :
    (∀ p ∈ (collectFrom guard s msgs).replies, p ∈ s.replies ∨ PeerMsg.getdata p ∈ msgs) ∧
    (∀ x ∈ (collectFrom guard s msgs).rejections, x ∈ s.rejections ∨ PeerMsg.reject x.1 x.2 ∈ msgs) := by
  induction msgs generalizing s with
  | nil => exact ⟨fun p hp => Or.inl hp, fun x hx => Or.inl hx⟩
  | cons m ms ih =>
    have ih' := ih (collectStep guard s m)
    simp only [collectFrom, List.foldl_cons] at ih' ⊢
    constructor
    · intro p hp
      rcases ih'.1 p hp with h | h
      · cases m with
        | getdata q =>
          simp only [collectStep] at h
          split at h
          · exact Or.inl h
          · split at h
            · exact Or.inl h
            · rcases List.mem_append.mp h with h | h
              · exact Or.inl h
              · simp only [List.mem_singleton] at h; rw [h]; exact Or.inr (List.mem_cons_self ..)
        | reject q c =>
          simp only [collectStep] at h
          split at h
          · exact Or.inl h
          · split at h <;> exact Or.inl h
        | timeout q => exact Or.inl h
      · exact Or.inr (List.mem_cons_of_mem _ h)
    · intro x hx
      rcases ih'.2 x hx with h | h
      · cases m with
        | getdata q =>
          simp only [collectStep] at h
          split at h
          · exact Or.inl h
          · split at h <;> exact Or.inl h
        | reject q c =>
          simp only [collectStep] at h
          split at h
          · exact Or.inl h
          · split at h
            · exact Or.inl h
            · rcases List.mem_append.mp h with h | h
              · exact Or.inl (List.mem_filter.mp h).1
              · simp only [List.mem_singleton] at h; rw [h]; exact Or.inr (List.mem_cons_self ..)
        | timeout q => exact Or.inl h
      · exact Or.inr (List.mem_cons_of_mem _ h)

/-! ## the verdict on sets with "every rejecter had replied" -/

/-- every peer that replied (asked for the tx with getdata) also rejected it -/
def AllRepliersRejected (q : Replies) : Prop := ∀ p ∈ q.replies, p ∈ q.rejections.map (·.1)

/-- the share of the replying peers that called the tx invalid reaches `num/den` -/
def InvalidShareReached (num den : Nat) (q : Replies) : Prop :=
  (q.rejections.filter (fun x => decide (x.2 = Code.invalid ∧ x.1 ∈ q.replies))).length * den ≥ num * q.replies.length

/-- every rejection comes from a peer that had requested the transaction -/
def RejectersReplied (q : Replies) : Prop := ∀ x ∈ q.rejections, x.1 ∈ q.replies

theorem verdict_sets (op : String) (hop : op = ">=" ∨ op = ">") (num den : Nat) (iter : List Code) (q : Replies)
    (hsub : RejectersReplied q) (hnd : (q.rejections.map (·.1)).Nodup) (c : Code)
    (hv : verdict op num den iter q = some c) :
    AllRepliersRejected q ∨ InvalidShareReached num den q := by
  simp only [verdict] at hv
  by_cases h0 : q.replies.length = 0
  · simp [h0] at hv
  · simp only [h0, ↓reduceIte] at hv
    by_cases h1 : q.replies.length = q.rejections.length
    · left
      intro p hp
      refine subset_of_nodup_length_le (q.rejections.map (·.1)) q.replies hnd ?_ (by simp [h1]) p hp
      intro x hx
      obtain ⟨y, hy, rfl⟩ := List.mem_map.mp hx
      exact hsub y hy
    · simp only [h1, ↓reduceIte] at hv
      right
      by_cases h2 : q.rejections.length > 0 ∧
          cmpOp op (countCode .invalid q.rejections * den) (num * q.replies.length) = true
      · have hfil : (q.rejections.filter (fun x => decide (x.2 = Code.invalid ∧ x.1 ∈ q.replies))) =
            q.rejections.filter (fun x => decide (x.2 = Code.invalid)) := by
          apply List.filter_congr
          intro x hx
          have := hsub x hx
          simp [this]
        simp only [InvalidShareReached, hfil]
        have hc := h2.2
        simp only [countCode] at hc
        rcases hop with e | e
        · rw [e] at hc; simp [cmpOp] at hc; exact hc
        · rw [e] at hc; simp [cmpOp] at hc; exact Nat.le_of_lt hc
      · simp [h2] at hv

/-! ## the interval source -/

/-- with the handler running, `triggerRebroadcast` ends on one of its three paths -/
theorem trigger_out (s : State) (hs : s.stopped = false) :
    (step s .trigger).2 = .busy ∨ (step s .trigger).2 = .idle ∨ ∃ snap, (step s .trigger).2 = .started snap := by
  simp only [step, hs, Bool.false_eq_true, ↓reduceIte]
  cases s.running with
  | some r => exact Or.inl rfl
  | none =>
    cases s.pending with
    | nil => exact Or.inr (Or.inl rfl)
    | cons p ps => exact Or.inr (Or.inr ⟨_, rfl⟩)

theorem tstep_armed (iv : IntervalSrc) (hiv : iv.sound = true) (t : TState) (ha : t.armed = true) (o : TOp) :
    (tstep iv t o).1.armed = true := by
  cases o with
  | op o => simp [tstep, ha]
  | tick =>
    simp only [tstep, ha, Bool.not_true, Bool.false_or]
    cases hs : t.core.stopped with
    | true => simpa using ha
    | false =>
      simp only [Bool.false_eq_true, ↓reduceIte]
      simp only [IntervalSrc.sound, Bool.or_eq_true, Bool.and_eq_true] at hiv
      rcases hiv with hp | ⟨h1, h2⟩
      · simp [hp]
      · rcases trigger_out t.core hs with h | h | ⟨snap, h⟩ <;> simp [h, rearmed, h1, h2]

theorem tstep_core (iv : IntervalSrc) (t : TState) (ha : t.armed = true) (o : TOp) :
    (tstep iv t o).1.core = (step t.core o.toOp).1 ∧ (tstep iv t o).2 = (step t.core o.toOp).2 := by
  cases o with
  | op o => exact ⟨rfl, rfl⟩
  | tick =>
    simp only [tstep, ha, Bool.not_true, Bool.false_or, TOp.toOp]
    cases hs : t.core.stopped with
    | true => simp [step, hs]
    | false => simp

theorem trun_sound (iv : IntervalSrc) (hiv : iv.sound = true) (ops : List TOp) (t : TState) (ha : t.armed = true) :
    (trun iv t ops).armed = true ∧ (trun iv t ops).core = run t.core (ops.map TOp.toOp) := by
  induction ops generalizing t with
  | nil => exact ⟨ha, rfl⟩
  | cons o os ih =>
    have h1 := tstep_armed iv hiv t ha o
    have h2 := tstep_core iv t ha o
    have := ih (tstep iv t o).1 h1
    simp only [trun, List.map_cons, run]
    rw [← h2.1]
    exact this

end Neutrino.PushTx
