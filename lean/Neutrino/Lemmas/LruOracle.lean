import Neutrino.Lemmas.LruRefine
/-
The observation-level step clauses (`obsClause`, Spec/Lru.lean) never fire on the
abstract cache: whatever the specification does in one step, the clauses accept
the observations before and after it.  With `C16_refines_spec` this makes the
driver's oracle sound for the model as well: an ORACLE-FAIL of these shapes is
a behaviour the proved cache cannot show.
-/
namespace Neutrino.Lru

theorem evict_clean (cap : Nat) (bad : List Nat) (needed : Nat) (hn : needed ≤ cap) :
    ∀ (l : List Entry) (ev : Bool), (∀ e ∈ l, e.vid ∉ bad) →
      ∃ n ev', Spec.evict cap bad needed l ev = (l.drop n, ev', true) := by
  intro l
  induction l with
  | nil => intro ev _; exact ⟨0, ev, by simp [Spec.evict, hn]⟩
  | cons b rest ih =>
    intro ev hclean
    unfold Spec.evict
    by_cases hroom : cap - total (b :: rest) < needed
    · have hb : b.vid ∉ bad := hclean b (by simp)
      simp only [hroom, ↓reduceIte, hb]
      obtain ⟨n, ev', h⟩ := ih true (fun e he => hclean e (by simp [he]))
      exact ⟨n + 1, ev', by simpa using h⟩
    · simp only [hroom, ↓reduceIte]
      exact ⟨0, ev, rfl⟩

theorem key_unique {l : List Entry} (hnd : (l.map (·.key)).Nodup) {a b : Entry} (ha : a ∈ l) (hb : b ∈ l)
    (hk : a.key = b.key) : a = b := by
  induction l with
  | nil => cases ha
  | cons x xs ih =>
    simp only [List.map_cons, List.nodup_cons, List.mem_map, not_exists, not_and] at hnd
    rcases List.mem_cons.mp ha with rfl | ha' <;> rcases List.mem_cons.mp hb with rfl | hb'
    · rfl
    · exact absurd hk.symm (hnd.1 b hb')
    · exact absurd hk (hnd.1 a ha')
    · exact ih hnd.2 ha' hb'

theorem erase_eq_filter {l : List Entry} (hnd : (l.map (·.key)).Nodup) {el : Entry} (hel : el ∈ l) :
    l.erase el = l.filter (fun e => e.key != el.key) := by
  induction l with
  | nil => cases hel
  | cons x xs ih =>
    simp only [List.map_cons, List.nodup_cons, List.mem_map, not_exists, not_and] at hnd
    by_cases hx : x = el
    · subst hx
      have : xs.filter (fun e => e.key != x.key) = xs := by
        apply List.filter_eq_self.mpr
        intro e he
        have := hnd.1 e he
        simp only [bne_iff_ne, ne_eq]
        exact this
      simp [this]
    · have hel' : el ∈ xs := by
        rcases List.mem_cons.mp hel with h | h
        · exact absurd h.symm hx
        · exact h
      have hkx : x.key ≠ el.key := fun h => hnd.1 el hel' h.symm
      rw [List.erase_cons_tail (by simpa using hx)]
      simp only [List.filter_cons, bne_iff_ne, ne_eq, hkx, not_false_eq_true, decide_true, ↓reduceIte]
      rw [ih hnd.2 hel']

theorem find_mem_key {l : List Entry} {k : Nat} {el : Entry} (h : l.find? (fun e => e.key == k) = some el) :
    el ∈ l ∧ el.key = k := by
  have h1 := List.mem_of_find?_eq_some h
  have h2 := List.find?_some h
  exact ⟨h1, by simpa using h2⟩

theorem find_reverse {l : List Entry} (hnd : (l.map (·.key)).Nodup) {k : Nat} {el : Entry}
    (h : l.find? (fun e => e.key == k) = some el) :
    l.reverse.find? (fun e => e.key == k) = some el := by
  obtain ⟨hm, hk⟩ := find_mem_key h
  cases hr : l.reverse.find? (fun e => e.key == k) with
  | none =>
    have := List.find?_eq_none.mp hr el (by simp [hm])
    simp [hk] at this
  | some e' =>
    obtain ⟨hm', hk'⟩ := find_mem_key hr
    have : e' = el := key_unique hnd (by simpa using hm') hm (by rw [hk', hk])
    rw [this]

theorem find_none_any {l : List Entry} {k : Nat} (h : l.find? (fun e => e.key == k) = none) :
    l.reverse.any (fun e => e.key == k) = false := by
  rw [List.any_eq_false]
  intro e he
  have := List.find?_eq_none.mp h e (by simpa using he)
  simpa using this

theorem find_none_filter {l : List Entry} {k : Nat} (h : l.find? (fun e => e.key == k) = none) :
    l.filter (fun e => e.key != k) = l := by
  apply List.filter_eq_self.mpr
  intro e he
  have := List.find?_eq_none.mp h e he
  simpa using this

theorem drop_reverse_prefix {α} (l : List α) (n : Nat) : (l.drop n).reverse <+: l.reverse := by
  have : l.reverse = (l.drop n).reverse ++ (l.take n).reverse := by
    rw [← List.reverse_append, List.take_append_drop]
  rw [this]
  exact List.prefix_append _ _

theorem dump_filo (sp : Spec) : (dumpOfSpec sp).filo = sp.items.reverse := rfl

/-- **The step clauses accept every step of the abstract cache.** -/
theorem obsClause_sound (sp : Spec) (op : Op) (hnd : (sp.items.map (·.key)).Nodup) :
    obsClause sp.bad op (sp.step op).2 (dumpOfSpec sp) (dumpOfSpec (sp.step op).1) = none := by
  unfold obsClause
  by_cases hb : (dumpOfSpec sp).filo.any (fun e => sp.bad.contains e.vid) = true
  · simp only [hb, ↓reduceIte]
  · simp only [hb, Bool.false_eq_true, ↓reduceIte]
    have hclean : ∀ e ∈ sp.items, e.vid ∉ sp.bad := by
      intro e he hin
      apply hb
      rw [List.any_eq_true]
      exact ⟨e, by simp [dump_filo, he], by simpa using hin⟩
    cases op with
    | poison v => simp [Spec.step]
    | heal v => simp [Spec.step]
    | get k =>
      cases hf : sp.find k with
      | none =>
        have hf' : sp.items.find? (fun e => e.key == k) = none := hf
        have hstep : sp.step (.get k) = (sp, .notFound) := by simp [Spec.step, hf]
        rw [hstep]
        simp only [dump_filo, find_none_any hf', Bool.false_eq_true, ↓reduceIte, beq_self_eq_true]
      | some el =>
        have hf' : sp.items.find? (fun e => e.key == k) = some el := hf
        obtain ⟨hm, hk⟩ := find_mem_key hf'
        have hstep : sp.step (.get k) = ({ sp with items := sp.items.erase el ++ [el] }, .val el.vid) := by
          simp [Spec.step, hf]
        rw [hstep]
        simp only [dump_filo, find_reverse hnd hf', beq_self_eq_true, Bool.true_and, List.reverse_append,
          List.reverse_cons, List.reverse_nil, List.nil_append, List.singleton_append]
        rw [erase_eq_filter hnd hm, List.filter_reverse, hk]
        simp
    | del k =>
      cases hf : sp.find k with
      | none =>
        have hf' : sp.items.find? (fun e => e.key == k) = none := hf
        have hstep : sp.step (.del k) = (sp, .no) := by simp [Spec.step, hf]
        rw [hstep]
        simp only [dump_filo, find_none_any hf', Bool.false_eq_true, ↓reduceIte, beq_self_eq_true]
      | some el =>
        have hf' : sp.items.find? (fun e => e.key == k) = some el := hf
        obtain ⟨hm, hk⟩ := find_mem_key hf'
        have hnb : el.vid ∉ sp.bad := hclean el hm
        have hstep : sp.step (.del k) = ({ sp with items := sp.items.erase el }, .val el.vid) := by
          simp [Spec.step, hf, hnb]
        rw [hstep]
        simp only [dump_filo, find_reverse hnd hf', beq_self_eq_true, Bool.true_and]
        rw [erase_eq_filter hnd hm, List.filter_reverse, hk]
        simp
    | put k vid sz =>
      simp only [Spec.step]
      by_cases hv : vid ∈ sp.bad
      · simp only [hv, ↓reduceIte, beq_self_eq_true]
      · simp only [hv, ↓reduceIte]
        by_cases hs : sz > sp.cap
        · simp only [hs, ↓reduceIte, beq_self_eq_true]
        · simp only [hs, ↓reduceIte]
          have hle : sz ≤ sp.cap := by omega
          cases hf : sp.find k with
          | some el =>
            have hf' : sp.items.find? (fun e => e.key == k) = some el := hf
            obtain ⟨hm, hk⟩ := find_mem_key hf'
            have hnb : el.vid ∉ sp.bad := hclean el hm
            simp only [hnb, ↓reduceIte]
            obtain ⟨n, ev', hev⟩ := evict_clean sp.cap sp.bad sz hle (sp.items.erase el) false
              (fun e he => hclean e (List.mem_of_mem_erase he))
            simp only [hev, ↓reduceIte, dump_filo, List.reverse_append, List.reverse_cons, List.reverse_nil,
              List.nil_append, List.singleton_append, beq_self_eq_true, Bool.true_and]
            have hpre : ((sp.items.erase el).drop n).reverse <+: sp.items.reverse.filter (fun e => e.key != k) := by
              rw [← hk, List.filter_reverse, ← erase_eq_filter hnd hm]
              exact drop_reverse_prefix _ _
            simp [List.isPrefixOf_iff_prefix.mpr hpre]
            rw [← hk, ← erase_eq_filter hnd hm]
            exact List.drop_suffix _ _
          | none =>
            have hf' : sp.items.find? (fun e => e.key == k) = none := hf
            obtain ⟨n, ev', hev⟩ := evict_clean sp.cap sp.bad sz hle sp.items false hclean
            simp only [hev, ↓reduceIte, dump_filo, List.reverse_append, List.reverse_cons, List.reverse_nil,
              List.nil_append, List.singleton_append, beq_self_eq_true, Bool.true_and]
            have hpre : (sp.items.drop n).reverse <+: sp.items.reverse.filter (fun e => e.key != k) := by
              rw [List.filter_reverse, find_none_filter hf']
              exact drop_reverse_prefix _ _
            simp [List.isPrefixOf_iff_prefix.mpr hpre]
            rw [find_none_filter hf']
            exact List.drop_suffix _ _

end Neutrino.Lru
