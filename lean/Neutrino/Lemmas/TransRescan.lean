/-
The rescan's retry queue as the CODE defines it (`blockRetryQueue.push/peek/pop/clear`, translated from
rescan.go on every run, Gen/TransRescan.lean) is the plain FIFO list the model (`Model/Rescan.lean`:
`queue ++ [b]`, `b :: rest`) uses.
-/
import Neutrino.Gen.TransRescan
namespace Neutrino.Rescan
open Neutrino.Gen.TransRescan Neutrino.GoInt

abbrev QBlock := Option T_blockntfns_Connected

theorem trans_push (b : QBlock) (q : List QBlock) : blockRetryQueue_push b q = q ++ [b] := rfl

theorem trans_clear (q : List QBlock) : blockRetryQueue_clear q = [] := rfl

theorem trans_peek (q : List QBlock) : blockRetryQueue_peek q = q.head?.join := by
  cases q with
  | nil => simp [blockRetryQueue_peek]
  | cons x r =>
    have h : ¬ (len (x :: r) = 0) := by rw [len_eq_zero]; exact List.cons_ne_nil _ _
    have h' : 0 < len (x :: r) := by have := len_nonneg (x :: r); omega
    have h0 : idx (x :: r) 0 = x := idx_natCast (x :: r) 0
    simp only [blockRetryQueue_peek, h, h', ↓reduceIte, h0, List.head?_cons, Option.join_some]

theorem trans_pop (q : List QBlock) : blockRetryQueue_pop q = (q.head?.join, q.tail) := by
  cases q with
  | nil => simp [blockRetryQueue_pop]
  | cons x r =>
    have h : ¬ (len (x :: r) = 0) := by rw [len_eq_zero]; exact List.cons_ne_nil _ _
    have h' : 0 < len (x :: r) := by have := len_nonneg (x :: r); omega
    have h0 : idx (x :: r) 0 = x := idx_natCast (x :: r) 0
    have hs : setIdx (x :: r) 0 (none : QBlock) = none :: r := by simp [setIdx]
    -- the end of the slice may be taken before or after the front was cleared
    have hl : ∀ y : QBlock, slice ((none : QBlock) :: r) 1 (len (y :: r)) = r := by
      intro y; simp [slice, len]
    simp only [blockRetryQueue_pop, h, h', ↓reduceIte, h0, hs, hl, List.head?_cons, Option.join_some, List.tail_cons]

end Neutrino.Rescan
