/-
Which header the context handed to btcd denotes (`lightHeaderCtx.RelativeAncestorCtx`):
"ancestor at height `a`" is resolved through the in-memory list given to `checkHeaderSanity`
(`headerList` in the connect arm, `reorgList` in the reorg arm; by `C01_headerlist_refines` its
`Back().Ancestor(a)` is the live node of height `a` or nil) and, failing that, through the
store BY HEIGHT.  List-level model and the proof that it denotes the candidate's own ancestors.
-/
import Neutrino.Lemmas.BlockMgrInv
namespace Neutrino.BM

/-- `RelativeAncestorCtx`: the id of the header at height `a` as the context resolves it -/
def resolve (hl : List Node) (store : List Nat) (a : Nat) : Option Nat :=
  match hl.find? (fun n => n.height == a) with
  | some n => some n.id
  | none => store[a]?

theorem withHeights_length (i : Nat) (l : List Nat) : (withHeights i l).length = l.length := by
  induction l generalizing i with
  | nil => rfl
  | cons x xs ih => simp [withHeights, ih]

theorem withHeights_get (i : Nat) (l : List Nat) (j : Nat) :
    (withHeights i l)[j]? = (l[j]?).map (fun x => (⟨x, i + j⟩ : Node)) := by
  induction l generalizing i j with
  | nil => simp [withHeights]
  | cons x xs ih =>
    cases j with
    | zero => simp [withHeights]
    | succ j =>
      simp only [withHeights, List.getElem?_cons_succ, ih]
      congr 1; funext y; congr 1; omega

theorem revNodes_get (A : List Nat) (j : Nat) (hj : j < A.length) :
    (revNodes A)[j]? = (A[A.length - 1 - j]?).map (fun x => (⟨x, A.length - 1 - j⟩ : Node)) := by
  simp only [revNodes]
  rw [List.getElem?_reverse (by rw [withHeights_length]; exact hj), withHeights_length, withHeights_get]
  simp

/-- in a list of nodes whose heights descend by one from `H`, the node of height `a` is at index `H - a` -/
theorem find_desc_node (a : Nat) : ∀ (l : List Node) (H : Nat), l.length ≤ H + 1 →
    (∀ j, j < l.length → (l[j]?).map (·.height) = some (H - j)) →
    l.find? (fun n => n.height == a) = if a ≤ H ∧ H + 1 - l.length ≤ a then l[H - a]? else none := by
  intro l
  induction l with
  | nil => intro H _ _; simp
  | cons x xs ih =>
    intro H hlen hd
    have hx : x.height = H := by
      have := hd 0 (by simp); simpa using this
    simp only [List.find?_cons, hx]
    by_cases he : H = a
    · subst he; simp
    · have hne : (H == a) = false := by simp [he]
      simp only [hne]
      by_cases hxs : xs = []
      · subst hxs; simp; omega
      · have hpos : 0 < xs.length := List.length_pos_iff.mpr hxs
        have hH : 1 ≤ H := by simp at hlen; omega
        rw [ih (H - 1) (by simp at hlen; omega) (by
          intro j hj
          have := hd (j + 1) (by simp; omega)
          simp only [List.getElem?_cons_succ] at this
          rw [this]; congr 1; omega)]
        simp only [List.length_cons]
        by_cases hc : a ≤ H - 1 ∧ H - 1 + 1 - xs.length ≤ a
        · have hc' : a ≤ H ∧ H + 1 - (xs.length + 1) ≤ a := by omega
          rw [if_pos hc, if_pos hc']
          have : H - a = (H - 1 - a) + 1 := by omega
          rw [this, List.getElem?_cons_succ]
        · have hc' : ¬ (a ≤ H ∧ H + 1 - (xs.length + 1) ≤ a) := by omega
          rw [if_neg hc, if_neg hc']

/-- **Resolution through a list that is the top `m` of the chain `A`**: inside the window the
list answers with `A`'s own header; below it the store is asked by height. -/
theorem resolve_top (A : List Nat) (m : Nat) (hm : 0 < m) (store : List Nat) (a : Nat) (ha : a < A.length) :
    resolve ((revNodes A).take m) store a = if A.length ≤ a + m then A[a]? else store[a]? := by
  have hA : 0 < A.length := by omega
  have hrl : (revNodes A).length = A.length := by simp [revNodes, withHeights_length]
  have hlen : ((revNodes A).take m).length = min m A.length := by rw [List.length_take, hrl]
  have hfind := find_desc_node a ((revNodes A).take m) (A.length - 1) (by rw [hlen]; omega) (by
    intro j hj
    rw [hlen] at hj
    rw [List.getElem?_take, if_pos (by omega), revNodes_get A j (by omega)]
    rw [List.getElem?_eq_getElem (by omega)]; simp)
  simp only [resolve, hfind, hlen]
  by_cases hc : A.length ≤ a + m
  · have hc' : a ≤ A.length - 1 ∧ A.length - 1 + 1 - min m A.length ≤ a := by omega
    rw [if_pos hc', if_pos hc, List.getElem?_take, if_pos (by omega), revNodes_get A _ (by omega)]
    have : A.length - 1 - (A.length - 1 - a) = a := by omega
    rw [this, List.getElem?_eq_getElem ha]
    simp
  · have hc' : ¬ (a ≤ A.length - 1 ∧ A.length - 1 + 1 - min m A.length ≤ a) := by omega
    rw [if_neg hc', if_neg hc]

end Neutrino.BM

namespace Neutrino.BM

/-- **Connect arm.**  In every loop state of `handleHeadersMsg` (`LIf` is the loop invariant that
`loop_invf` maintains from every reachable state; `L = s.log ++ l.batch` is the candidate's own
chain: stored headers plus the headers of this message already accepted) the context built on
`headerList` NEVER denotes a header that is not the candidate's own ancestor, and it denotes the
own ancestor at EVERY height as long as the in-memory list still reaches down to the stored tip
(`l.batch.length ≤ s.hl.length`: always so when the window is at least the message length). -/
theorem ctx_connect (c : Cfg) (s : State) (l : Loc) (rest : List Nat) (li : LIf c s l rest) (a : Nat)
    (ha : a < (s.log ++ l.batch).length) :
    (∀ x, resolve s.hl s.log a = some x → (s.log ++ l.batch)[a]? = some x) ∧
    (l.batch.length ≤ s.hl.length → resolve s.hl s.log a = (s.log ++ l.batch)[a]?) := by
  obtain ⟨m, hm, hhl⟩ := li.anch
  have hres := resolve_top (s.log ++ l.batch) m hm s.log a ha
  rw [← hhl] at hres
  have hrl : (revNodes (s.log ++ l.batch)).length = (s.log ++ l.batch).length := by simp [revNodes, withHeights_length]
  have hhlen : s.hl.length = min m (s.log ++ l.batch).length := by rw [hhl, List.length_take, hrl]
  constructor
  · intro x hx
    rw [hres] at hx
    split at hx
    · exact hx
    · have : a < s.log.length := by
        rcases Nat.lt_or_ge a s.log.length with h | h
        · exact h
        · rw [List.getElem?_eq_none h] at hx; cases hx
      rw [List.getElem?_append_left this]; exact hx
  · intro hb
    rw [hres]
    split
    · rfl
    · rename_i hc
      have : a < s.log.length := by simp at hhlen ha hc; omega
      rw [List.getElem?_append_left this]

/-- `reorgList` as the reorg arm builds it: reset to the fork point, then one push per branch header validated so far -/
def reorgAux (win : Nat) : List Node → Nat → List Nat → List Node
  | hl, _, [] => hl
  | hl, h, x :: xs => reorgAux win (hlPush win hl ⟨x, h⟩) (h + 1) xs

def reorgList (win backHead bh : Nat) (pre : List Nat) : List Node :=
  reorgAux win (hlReset ⟨backHead, bh⟩) (bh + 1) pre

theorem hlPush_top (win : Nat) (L : List Nat) (m x : Nat) :
    hlPush win ((revNodes L).take m) ⟨x, L.length⟩ = (revNodes (L ++ [x])).take (min (m + 1) win) := by
  simp only [hlPush, revNodes_snoc]
  rw [← List.take_succ_cons, List.take_take, Nat.min_comm]

theorem reorgAux_top (win : Nat) : ∀ (pre L : List Nat) (m : Nat), 0 < m → m ≤ win →
    reorgAux win ((revNodes L).take m) L.length pre = (revNodes (L ++ pre)).take (min (m + pre.length) win) := by
  intro pre
  induction pre with
  | nil =>
    intro L m _ hmw
    simp only [reorgAux, List.append_nil, List.length_nil, Nat.add_zero]
    congr 1; omega
  | cons x xs ih =>
    intro L m hm hmw
    simp only [reorgAux, hlPush_top]
    have := ih (L ++ [x]) (min (m + 1) win) (by omega) (by omega)
    simp only [List.length_append, List.length_singleton] at this
    rw [this, List.append_assoc]
    simp only [List.singleton_append, List.length_cons]
    congr 1; omega

/-- **Reorg arm.**  The candidate is the branch header that follows `pre` (the branch headers
already validated, the first one being the child of the stored header at `bh`); its own chain is
the stored prefix up to the fork point followed by `pre`.  The context built on `reorgList`
denotes exactly that chain at every height - the store, which still holds the OTHER branch above
the fork point, is only asked at or below the fork point - provided the branch validated so far
fits the window (`pre.length < win`; a message has at most 2 000 headers, the window is 10 000). -/
theorem ctx_reorg (win : Nat) (log : List Nat) (bh backHead : Nat) (pre : List Nat) (hbh : log[bh]? = some backHead)
    (hw : pre.length < win) (a : Nat) (ha : a < (log.take (bh + 1) ++ pre).length) :
    resolve (reorgList win backHead bh pre) log a = (log.take (bh + 1) ++ pre)[a]? := by
  have hlt : bh < log.length := by
    rcases Nat.lt_or_ge bh log.length with h | h
    · exact h
    · rw [List.getElem?_eq_none h] at hbh; cases hbh
  have hPlen : (log.take (bh + 1)).length = bh + 1 := by simp; omega
  have hreset : hlReset ⟨backHead, bh⟩ = (revNodes (log.take (bh + 1))).take 1 := by
    have hne : log.take (bh + 1) ≠ [] := by intro e; rw [e] at hPlen; simp at hPlen
    have := FullAnch.anchor (log.take (bh + 1)) hne
    obtain ⟨l', x, hx⟩ : ∃ l' x, log.take (bh + 1) = l' ++ [x] :=
      ⟨(log.take (bh + 1)).dropLast, (log.take (bh + 1)).getLast hne, (List.dropLast_concat_getLast hne).symm⟩
    have hx' : x = backHead := by
      have h1 := tipId_take hbh
      rw [hx, tipId_append] at h1; exact h1
    have hl' : l'.length = bh := by
      have := congrArg List.length hx; simp at this; omega
    rw [hx, revNodes_snoc, hx', hl']; simp [hlReset]
  have hRL : reorgList win backHead bh pre = (revNodes (log.take (bh + 1) ++ pre)).take (pre.length + 1) := by
    simp only [reorgList, hreset]
    have := reorgAux_top win pre (log.take (bh + 1)) 1 (by omega) (by omega)
    rw [hPlen] at this
    rw [this]; congr 1; omega
  rw [hRL, resolve_top _ (pre.length + 1) (by omega) log a ha]
  split
  · rfl
  · rename_i hc
    have : a < bh + 1 := by simp at ha hc; omega
    rw [List.getElem?_append_left (by rw [hPlen]; exact this), List.getElem?_take, if_pos this]

/-- with a window smaller than the branch the reorg arm WOULD hand btcd a header of the other
branch: stored `[0,1,2]`, branch `3,4` off genesis, window 1 - height 1 resolves to stored header 1,
the candidate's own ancestor there is 3.  (Not reachable with the real constants.) -/
theorem ctx_reorg_small_window_counterexample :
    resolve (reorgList 1 0 0 [3, 4]) [0, 1, 2] 1 = some 1 ∧ ([0, 1, 2].take 1 ++ [3, 4])[1]? = some 3 := by decide

end Neutrino.BM
