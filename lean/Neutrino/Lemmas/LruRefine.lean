import Neutrino.Lemmas.Lru
namespace Neutrino.Lru

def abs (s : State) : Spec := { cap := s.cap, items := s.ll, bad := s.bad }

theorem find_key_of_mem {ll : List Entry} {e : Entry} (hnd : (ll.map (·.key)).Nodup) (he : e ∈ ll) :
    ll.find? (·.key == e.key) = some e := by
  induction ll with
  | nil => cases he
  | cons x xs ih =>
    simp only [List.map_cons, List.nodup_cons] at hnd
    cases he with
    | head => simp
    | tail _ he =>
      have hne : x.key ≠ e.key := by
        intro heq
        exact hnd.1 (List.mem_map.mpr ⟨e, he, heq.symm⟩)
      have : (x.key == e.key) = false := by simpa using hne
      simp only [List.find?_cons, this]
      exact ih hnd.2 he

theorem idxLoad_eq_find {cap ll size idx} (h : LInv cap ll size idx) (k : Nat) :
    idxLoad idx k = ll.find? (·.key == k) := by
  cases hl : idxLoad idx k with
  | some el =>
    have ⟨hm, hk⟩ := (h.idxIff k el).mp (idxLoad_some hl)
    subst hk
    exact (find_key_of_mem h.nodupLL hm).symm
  | none =>
    symm
    apply List.find?_eq_none.mpr
    intro e he hk
    simp at hk
    exact idxLoad_none hl e ((h.idxIff k e).mpr ⟨he, hk⟩)

theorem evict_refines (cap : Nat) (bad : List Nat) (needed : Nat) :
    ∀ (ll : List Entry) (size : Nat) (idx : List (Nat × Entry)) (ev : Bool),
      LInv cap ll size idx → needed ≤ cap →
      let r := evictLoop cap bad needed ll size idx ev
      Spec.evict cap bad needed ll ev = (r.1, r.2.2.2.1, r.2.2.2.2) := by
  intro ll
  induction ll with
  | nil =>
    intro size idx ev h hn
    have hs := sub64_of_le h.sizeLe h.capLt
    have h0 : size = 0 := by simpa using h.sizeEq
    subst h0
    have : ¬ (cap < needed) := by omega
    simp [evictLoop, Spec.evict, hs, hn, this]
  | cons b rest ih =>
    intro size idx ev h hn
    have hs := sub64_of_le h.sizeLe h.capLt
    have hts : total (b :: rest) = size := h.sizeEq.symm
    simp only [evictLoop, Spec.evict]
    rw [hs, hts]
    by_cases hlt : cap - size < needed
    · simp only [hlt, ↓reduceIte]
      by_cases hb : b.vid ∈ bad
      · simp [sizeOf?, hb]
      · simp only [sizeOf?, hb, ↓reduceIte]
        have hmem : (b.key, b) ∈ idx := (h.idxIff b.key b).mpr ⟨List.mem_cons_self, rfl⟩
        have hrm := (linv_remove h hmem).1
        simp only [List.erase_cons_head] at hrm
        exact ih _ _ true hrm hn
    · simp [hlt]

theorem refines (s : State) (op : Op) (h : Inv s) :
    (step s op).2 = ((abs s).step op).2 ∧ abs (step s op).1 = ((abs s).step op).1 := by
  have hl := h.linv
  have hu := h.unlocked
  cases op with
  | poison v => simp [step, Spec.step, abs]
  | heal v => simp [step, Spec.step, abs]
  | get k =>
    simp only [step, hu, Bool.false_eq_true, ↓reduceIte, Spec.step, Spec.find, abs]
    rw [idxLoad_eq_find hl k]
    cases s.ll.find? (·.key == k) <;> simp
  | del k =>
    simp only [step, hu, Bool.false_eq_true, ↓reduceIte, Spec.step, Spec.find, abs]
    rw [idxLoad_eq_find hl k]
    cases s.ll.find? (·.key == k) with
    | none => simp
    | some el =>
      by_cases hb : el.vid ∈ s.bad <;> simp [sizeOf?, hb]
  | put k vid sz =>
    simp only [step, hu, Bool.false_eq_true, ↓reduceIte, Spec.step, Spec.find, abs]
    by_cases hb : vid ∈ s.bad
    · simp [hb]
    simp only [hb, ↓reduceIte]
    by_cases hc : sz > s.cap
    · simp [hc]
    simp only [hc, ↓reduceIte]
    have hc' : sz ≤ s.cap := by omega
    rw [← idxLoad_eq_find hl k]
    cases hload : idxLoad s.idx k with
    | none =>
      simp only
      have := evict_refines s.cap s.bad sz s.ll s.size s.idx false hl hc'
      generalize evictLoop s.cap s.bad sz s.ll s.size s.idx false = r at this ⊢
      obtain ⟨a, b, c, d, e⟩ := r
      simp only at this
      simp only [this]
      cases e <;> simp
    | some el =>
      simp only
      by_cases hbe : el.vid ∈ s.bad
      · simp [sizeOf?, hbe]
      simp only [sizeOf?, hbe, ↓reduceIte]
      have hrm := (linv_remove hl (idxLoad_some hload)).1
      have := evict_refines s.cap s.bad sz _ _ _ false hrm hc'
      generalize evictLoop s.cap s.bad sz (s.ll.erase el) (sub64 s.size el.size) (idxDelete s.idx k) false = r at this ⊢
      obtain ⟨a, b, c, d, e⟩ := r
      simp only at this
      simp only [this]
      cases e <;> simp

theorem refines_run (s : State) (ops : List Op) (h : Inv s) :
    abs (run s ops) = (abs s).run ops := by
  induction ops generalizing s with
  | nil => rfl
  | cons o os ih =>
    simp only [run, Spec.run]
    rw [ih _ (inv_step s o h), (refines s o h).2]

end Neutrino.Lru
