/- Lemmas for the request model Neutrino/Model/SyncAsk.lean.  Core Lean only. -/
import Neutrino.Model.SyncAsk
namespace Neutrino.Ask

theorem best_mem {ps : List Peer} {b : Peer} (h : best ps = some b) : b ∈ ps := by
  induction ps generalizing b with
  | nil => simp only [best] at h; cases h
  | cons a as ih =>
    simp only [best] at h
    cases hb : best as with
    | none =>
      rw [hb] at h
      simp only [Option.some.injEq] at h
      rw [← h]; exact List.mem_cons_self
    | some c =>
      rw [hb] at h
      by_cases hc : a.claim < c.claim
      · simp only [hc, ↓reduceIte, Option.some.injEq] at h
        rw [← h]; exact List.mem_cons_of_mem _ (ih hb)
      · simp only [hc, ↓reduceIte, Option.some.injEq] at h
        rw [← h]; exact List.mem_cons_self

theorem best_ge {ps : List Peer} {b : Peer} (h : best ps = some b) : ∀ x ∈ ps, x.claim ≤ b.claim := by
  induction ps generalizing b with
  | nil => intro x hx; exact absurd hx List.not_mem_nil
  | cons a as ih =>
    simp only [best] at h
    intro x hx
    cases hb : best as with
    | none =>
      rw [hb] at h
      simp only [Option.some.injEq] at h
      cases as with
      | nil =>
        cases List.mem_cons.mp hx with
        | inl h1 => rw [h1, h]; exact Nat.le_refl _
        | inr h1 => exact absurd h1 List.not_mem_nil
      | cons a2 as2 =>
        -- best of a non-empty list is never none
        simp only [best] at hb
        cases hb2 : best as2 with
        | none => rw [hb2] at hb; cases hb
        | some c =>
          rw [hb2] at hb
          by_cases hc : a2.claim < c.claim
          · simp only [hc, ↓reduceIte] at hb; cases hb
          · simp only [hc, ↓reduceIte] at hb; cases hb
    | some c =>
      rw [hb] at h
      have ihc := ih hb
      by_cases hc : a.claim < c.claim
      · simp only [hc, ↓reduceIte, Option.some.injEq] at h
        rw [← h]
        cases List.mem_cons.mp hx with
        | inl h1 => rw [h1]; exact Nat.le_of_lt hc
        | inr h1 => exact ihc x h1
      · simp only [hc, ↓reduceIte, Option.some.injEq] at h
        rw [← h]
        cases List.mem_cons.mp hx with
        | inl h1 => rw [h1]; exact Nat.le_refl _
        | inr h1 => exact Nat.le_trans (ihc x h1) (Nat.le_of_not_lt hc)

theorem best_some {ps : List Peer} (h : ps ≠ []) : ∃ b, best ps = some b := by
  cases ps with
  | nil => exact absurd rfl h
  | cons a as =>
    simp only [best]
    cases best as with
    | none => exact ⟨a, rfl⟩
    | some c =>
      by_cases hc : a.claim < c.claim
      · exact ⟨c, by simp only [hc, ↓reduceIte]⟩
      · exact ⟨a, by simp only [hc, ↓reduceIte]⟩

theorem WF_startSync (s : State) (h : WF s) : WF (startSync s) := by
  unfold startSync
  cases hs : s.sync with
  | some q => simp only; exact h
  | none =>
    simp only
    cases hb : best (candidates s) with
    | none => simp only; exact h
    | some b =>
      simp only
      intro q hq _
      simp only [Option.some.injEq] at hq
      rw [← hq]; exact List.mem_cons_self

theorem mem_filter_ne {p q : Peer} {l : List Peer} (hq : q ∈ l) (hne : q ≠ p) : q ∈ l.filter (· ≠ p) := by
  apply List.mem_filter.mpr
  exact ⟨hq, by simp only [ne_eq, decide_not, Bool.not_eq_eq_eq_not, Bool.not_true, decide_eq_false_iff_not]; exact hne⟩

theorem WF_step (s : State) (e : Ev) (h : WF s) : WF (step s e) := by
  cases e with
  | newPeer p =>
    simp only [step]
    by_cases hp : p ∈ s.peers
    · simp only [hp, ↓reduceIte]; exact h
    · simp only [hp, ↓reduceIte]
      apply WF_startSync
      by_cases hc : s.tip < p.claim ∧ current { s with peers := s.peers ++ [p] } = true
      · simp only [hc, and_self, ↓reduceIte]
        intro q hq hlt
        exact List.mem_cons_of_mem _ (h q hq hlt)
      · simp only [hc, ↓reduceIte]
        intro q hq hlt
        exact h q hq hlt
  | donePeer p =>
    simp only [step]
    by_cases hs : s.sync = some p
    · simp only [hs, ↓reduceIte]
      apply WF_startSync
      intro q hq _
      cases hq
    · simp only [hs, ↓reduceIte]
      intro q hq hlt
      have hne : q ≠ p := by intro he; rw [he] at hq; exact hs hq
      exact mem_filter_ne (h q hq hlt) hne
  | inv p k =>
    simp only [step]
    by_cases hc : p ∈ s.peers ∧ (s.sync = some p ∨ current s = true) ∧ s.tip < k
    · simp only [hc, and_self, ↓reduceIte]
      intro q hq hlt
      exact List.mem_cons_of_mem _ (h q hq hlt)
    · simp only [hc, ↓reduceIte]; exact h
  | headers p k =>
    simp only [step]
    by_cases hc : p ∈ s.asked ∧ s.tip < k
    · simp only [hc, and_self, ↓reduceIte]
      by_cases hcur : current { s with tip := k, asked := s.asked.filter (· ≠ p) } = true
      · simp only [hcur, ↓reduceIte]
        intro q hq hlt
        -- current: the sync peer is not above the new tip
        have hq' : s.sync = some q := hq
        have hlt' : k < q.claim := hlt
        simp only [current, hq', Bool.and_eq_true, decide_eq_true_eq] at hcur
        exact absurd hcur.2 (Nat.not_le_of_lt hlt')
      · simp only [hcur]
        intro q hq hlt
        have hold : s.tip < q.claim := Nat.lt_trans hc.2 hlt
        have hqa := h q hq hold
        by_cases hqp : q = p
        · rw [hqp]; exact List.mem_cons_self
        · exact List.mem_cons_of_mem _ (mem_filter_ne hqa hqp)
    · simp only [hc, ↓reduceIte]; exact h
  | age => simp only [step]; exact h

theorem WF_run (evs : List Ev) (s : State) (h : WF s) : WF (run s evs) := by
  induction evs generalizing s with
  | nil => exact h
  | cons e es ih => exact ih _ (WF_step s e h)

theorem WF_init : WF init := by
  intro q hq _
  cases hq

end Neutrino.Ask
