import Neutrino.Lemmas.StoreCrash
/-
The start-up reconciliation taken step by step (`openStoreR`, `reopenR`): a
start that is itself killed — before any of its durable steps — leaves a state
from which the next start recovers the same log, and an undisturbed start is
the `reopen` of the other theorems.
-/
namespace Neutrino.Store

/-- what a start-up stage may leave: killed ⇒ a state satisfying `Cr`;
finished ⇒ success, the injection still armed, `Done` of the new context -/
def StartOK (inj : Inj) (Cr : Durable → Prop) (Done : Ctx → Prop) : R Bool → Prop
  | .crashed d' => (∃ k t, inj = Inj.crash k t) ∧ Cr d'
  | .ok b c' => b = true ∧ c'.inj = inj ∧ Done c'

theorem StartOK.andThen {inj : Inj} {Cr : Durable → Prop} {D1 D2 : Ctx → Prop} {r : R Bool} {next : Ctx → R Bool}
    (h1 : StartOK inj Cr D1 r) (h2 : ∀ c', c'.inj = inj → D1 c' → StartOK inj Cr D2 (next c')) :
    StartOK inj Cr D2 (r.andThen next) := by
  cases r with
  | crashed d' => exact h1
  | ok b c' =>
    obtain ⟨hb, hi, hd⟩ := h1
    subst hb
    simp only [R.andThen, R.bind, ↓reduceIte]
    exact h2 c' hi hd

theorem StartOK.mono {inj : Inj} {Cr : Durable → Prop} {D1 D2 : Ctx → Prop} {r : R Bool}
    (h : StartOK inj Cr D1 r) (hd : ∀ c', D1 c' → D2 c') : StartOK inj Cr D2 r := by
  cases r with
  | crashed d' => exact h
  | ok b c' => exact ⟨h.1, h.2.1, hd c' h.2.2⟩

/-- one truncate step: killed before it ⇒ nothing changed -/
theorem fileTruncate_start (w : Which) (f : FileSt) (c : Ctx) (hnf : NoFault c.inj) (Cr : Durable → Prop) (hcr : Cr c.d) :
    StartOK c.inj Cr (fun c' => c'.d = c.d.setFile w f) (fileTruncate w (some f) c) := by
  by_cases hq : c.inj.firesAt c.step = false
  · rw [fileTruncate_quiet _ _ _ hq]; exact ⟨rfl, rfl, rfl⟩
  · obtain ⟨t, ht⟩ := fires_is_crash hnf (by simpa using hq)
    rw [fileTruncate_crash _ _ _ t ht]; exact ⟨⟨_, _, ht⟩, hcr⟩

theorem stageIndex_start (c : Ctx) (hnf : NoFault c.inj) (Cr : Durable → Prop) (hcr : Cr c.d) :
    StartOK c.inj Cr (fun c' => c'.d = c.d) (stageIndex c) := by
  unfold stageIndex
  by_cases hq : c.inj.firesAt c.step = false
  · rw [dbUpdate_quiet _ _ hq]; exact ⟨rfl, rfl, rfl⟩
  · obtain ⟨t, ht⟩ := fires_is_crash hnf (by simpa using hq)
    rw [dbUpdate_crash _ _ t ht]; exact ⟨⟨_, _, ht⟩, hcr⟩

theorem setFile_self_junk (d : Durable) (w : Which) (h : (d.file w).junk = 0) :
    d.setFile w { d.file w with junk := 0 } = d := by
  cases w <;> cases d <;> simp_all [Durable.setFile, Durable.file] <;> (rename_i bf ff db; first | (cases bf; simp_all) | (cases ff; simp_all))

theorem stageTrim_start (w : Which) (c : Ctx) (hnf : NoFault c.inj) (Cr : Durable → Prop) (hcr : Cr c.d) :
    StartOK c.inj Cr (fun c' => c'.d = c.d.setFile w { c.d.file w with junk := 0 }) (stageTrim w c) := by
  unfold stageTrim
  by_cases hj : (c.d.file w).junk = 0
  · simp only [hj, ↓reduceIte]
    exact ⟨rfl, rfl, (setFile_self_junk c.d w hj).symm⟩
  · simp only [hj, ↓reduceIte]
    exact fileTruncate_start w _ c hnf Cr hcr

theorem stageReset_skip (w : Which) (c : Ctx) (h : c.d.db.hasTip w = true) : stageReset w c = .ok true c := by
  simp [stageReset, h]

/-- junk is not part of `Ahead` -/
theorem Ahead.trimB {d : Durable} {l : Log} {xb xf : List Nat} (h : Ahead d l xb xf) :
    Ahead (d.setFile .B { d.bf with junk := 0 }) l xb xf :=
  { h with bents := h.bents, fents := h.fents, bclean := h.bclean, fclean := h.fclean }

theorem Ahead.trimF {d : Durable} {l : Log} {xb xf : List Nat} (h : Ahead d l xb xf) :
    Ahead (d.setFile .F { d.ff with junk := 0 }) l xb xf :=
  { h with bents := h.bents, fents := h.fents, bclean := h.bclean, fclean := h.fclean }

theorem Ahead.hasTipB {d : Durable} {l : Log} {xb xf : List Nat} (h : Ahead d l xb xf) : d.db.hasTip .B = true := by
  have : l.blocks.getLast? ≠ none := fun e => h.neB (List.getLast?_eq_none_iff.mp e)
  simp only [Db.hasTip, h.btip]
  cases hl : l.blocks.getLast? with
  | none => exact absurd hl this
  | some _ => rfl

theorem Ahead.hasTipF {d : Durable} {l : Log} {xb xf : List Nat} (h : Ahead d l xb xf) : d.db.hasTip .F = true := by
  obtain ⟨b, hb, _⟩ := h.ftip
  simp [Db.hasTip, hb]

theorem fileSt_ents_eq (f : FileSt) (xs : List Nat) (h : f.ents = xs) (hc : f.corrupt = false) :
    f = { ents := xs, junk := f.junk } := by
  cases f; simp_all

/-- the reconciling step of the block store on a state whose files are ahead of the index -/
theorem stageSync_B_ahead (c : Ctx) (l : Log) (xb xf : List Nat) (h : Ahead c.d l xb xf) (hnf : NoFault c.inj)
    (Cr : Durable → Prop) (hcr : Cr c.d) :
    StartOK c.inj Cr (fun c' => c'.d.bf = { ents := l.blocks, junk := c.d.bf.junk } ∧ c'.d.ff = c.d.ff ∧ c'.d.db = c.d.db)
      (stageSync .B c) := by
  obtain ⟨tip, htip, hbt⟩ : ∃ tip, l.blocks.getLast? = some tip ∧
      btipHeight? c.d = some (tip, l.blocks.length - 1) := by
    obtain ⟨tip, htip⟩ : ∃ tip, l.blocks.getLast? = some tip := by
      cases hl : l.blocks.getLast? with
      | none => exact absurd (List.getLast?_eq_none_iff.mp hl) h.neB
      | some t => exact ⟨t, rfl⟩
    refine ⟨tip, htip, ?_⟩
    have hpos : l.blocks[l.blocks.length - 1]? = some tip := by
      rw [← htip, List.getLast?_eq_getElem?]
    have := h.idxPos _ _ hpos
    simp [btipHeight?, h.btip, htip, this]
  have hlenB := len_pred_succ h.neB
  have hne : (l.blocks ++ xb) ≠ [] := by simp [h.neB]
  obtain ⟨latest, hlatest⟩ : ∃ x, (l.blocks ++ xb).getLast? = some x := by
    cases hl : (l.blocks ++ xb).getLast? with
    | none => exact absurd (List.getLast?_eq_none_iff.mp hl) hne
    | some t => exact ⟨t, rfl⟩
  simp only [stageSync, Durable.file, h.bclean, Bool.false_eq_true, ↓reduceIte, h.bents, hlatest, hbt, true_and]
  by_cases heq : latest = tip
  · have hx : xb = [] := by
      cases hxb : xb with
      | nil => rfl
      | cons x xs =>
        exfalso
        have h1 : (l.blocks ++ xb).getLast? = xb.getLast? := by
          rw [List.getLast?_append, hxb]
          cases hg : (x :: xs).getLast? with
          | none => exact absurd (List.getLast?_eq_none_iff.mp hg) (by simp)
          | some t => rfl
        have hmem1 : tip ∈ xb := by
          have : xb.getLast? = some tip := by rw [← h1, hlatest, heq]
          exact List.mem_of_getLast? this
        have hmem2 : tip ∈ l.blocks := List.mem_of_getLast? htip
        exact (List.nodup_append.mp h.nodup).2.2 tip hmem2 tip hmem1 rfl
    simp only [heq, ↓reduceIte]
    refine ⟨rfl, rfl, ?_, rfl, rfl⟩
    exact fileSt_ents_eq _ _ (by rw [h.bents, hx]; simp) h.bclean
  · simp only [heq, ↓reduceIte]
    have hnot : ¬ (l.blocks.length - 1 > (l.blocks ++ xb).length - 1) := by simp; omega
    simp only [hnot, ↓reduceIte]
    have hk : (l.blocks ++ xb).length - 1 - (l.blocks.length - 1) = xb.length := by simp; omega
    simp only [hk, truncateHeaders]
    by_cases hx0 : xb.length = 0
    · simp only [hx0, ↓reduceIte]
      have hx : xb = [] := List.length_eq_zero_iff.mp hx0
      refine ⟨rfl, rfl, ?_, rfl, rfl⟩
      exact fileSt_ents_eq _ _ (by rw [h.bents, hx]; simp) h.bclean
    · simp only [hx0, ↓reduceIte, Durable.file, FileSt.truncateBy, FileSt.size, h.bents, List.length_append]
      have h1 : ¬ (xb.length * width .B > (l.blocks.length + xb.length) * width .B + c.d.bf.junk) := by
        have : xb.length * width .B ≤ (l.blocks.length + xb.length) * width .B :=
          Nat.mul_le_mul_right _ (by omega)
        omega
      have h2 : xb.length ≤ l.blocks.length + xb.length := by omega
      simp only [h1, ↓reduceIte, h2, Nat.add_sub_cancel]
      refine StartOK.mono (fileTruncate_start .B _ c hnf Cr hcr) ?_
      intro c' hc'
      rw [hc']
      simp [Durable.setFile, h.bclean]

/-- … and of the filter store: always cut down to the indexed tip height -/
theorem stageSync_F_ahead (c : Ctx) (l : Log) (xb xf : List Nat) (h : Ahead c.d l xb xf) (hnf : NoFault c.inj)
    (Cr : Durable → Prop) (hcr : Cr c.d) :
    StartOK c.inj Cr (fun c' => c'.d.ff = { ents := l.filters, junk := c.d.ff.junk } ∧ c'.d.bf = c.d.bf ∧ c'.d.db = c.d.db)
      (stageSync .F c) := by
  obtain ⟨b, hb, hbh⟩ := h.ftip
  have hlenF := len_pred_succ h.neF
  have hne : (l.filters ++ xf) ≠ [] := by simp [h.neF]
  obtain ⟨latest, hlatest⟩ : ∃ x, (l.filters ++ xf).getLast? = some x := by
    cases hl : (l.filters ++ xf).getLast? with
    | none => exact absurd (List.getLast?_eq_none_iff.mp hl) hne
    | some t => exact ⟨t, rfl⟩
  have hft : ftipHeight? c.d = some (b, l.filters.length - 1) := by simp [ftipHeight?, hb, hbh]
  have hw : ¬ (Which.F = Which.B ∧ latest = b) := by simp
  simp only [stageSync, Durable.file, h.fclean, Bool.false_eq_true, ↓reduceIte, h.fents, hlatest, hft, hw]
  have hnot : ¬ (l.filters.length - 1 > (l.filters ++ xf).length - 1) := by simp; omega
  simp only [hnot, ↓reduceIte]
  have hk : (l.filters ++ xf).length - 1 - (l.filters.length - 1) = xf.length := by simp; omega
  simp only [hk, truncateHeaders]
  by_cases hx0 : xf.length = 0
  · simp only [hx0, ↓reduceIte]
    have hx : xf = [] := List.length_eq_zero_iff.mp hx0
    refine ⟨rfl, rfl, ?_, rfl, rfl⟩
    exact fileSt_ents_eq _ _ (by rw [h.fents, hx]; simp) h.fclean
  · simp only [hx0, ↓reduceIte, Durable.file, FileSt.truncateBy, FileSt.size, h.fents, List.length_append]
    have h1 : ¬ (xf.length * width .F > (l.filters.length + xf.length) * width .F + c.d.ff.junk) := by
      have : xf.length * width .F ≤ (l.filters.length + xf.length) * width .F :=
        Nat.mul_le_mul_right _ (by omega)
      omega
    have h2 : xf.length ≤ l.filters.length + xf.length := by omega
    simp only [h1, ↓reduceIte, h2, Nat.add_sub_cancel]
    refine StartOK.mono (fileTruncate_start .F _ c hnf Cr hcr) ?_
    intro c' hc'
    rw [hc']
    simp [Durable.setFile, h.fclean]

/-- any state whose files are ahead of an index representing `l` -/
def AheadOf (l : Log) (d : Durable) : Prop := ∃ xb xf, Ahead d l xb xf

/-- **The block store's constructor, killed anywhere**, on a state whose files
are ahead of the index: the state left behind is again ahead of the same index;
undisturbed, it cuts the block file down to the indexed log. -/
theorem openStoreR_B_ahead (c : Ctx) (l : Log) (xb xf : List Nat) (h : Ahead c.d l xb xf) (hnf : NoFault c.inj) :
    StartOK c.inj (AheadOf l)
      (fun c' => c'.d.bf = { ents := l.blocks } ∧ c'.d.ff = c.d.ff ∧ c'.d.db = c.d.db) (openStoreR .B c) := by
  unfold openStoreR
  refine StartOK.andThen (D1 := fun c' => c'.d = c.d.setFile .B { c.d.bf with junk := 0 }) ?_ ?_
  · refine StartOK.andThen (D1 := fun c' => c'.d = c.d.setFile .B { c.d.bf with junk := 0 }) ?_ ?_
    · refine StartOK.andThen (stageIndex_start c hnf _ ⟨xb, xf, h⟩) ?_
      intro c1 hi1 hd1
      have := stageTrim_start .B c1 (hi1 ▸ hnf) (AheadOf l) (by rw [hd1]; exact ⟨xb, xf, h⟩)
      rw [hi1, hd1] at this
      exact this
    · intro c2 hi2 hd2
      have hA2 : Ahead c2.d l xb xf := by rw [hd2]; exact h.trimB
      rw [stageReset_skip .B c2 hA2.hasTipB]
      exact ⟨rfl, hi2, hd2⟩
  · intro c3 hi3 hd3
    have hA3 : Ahead c3.d l xb xf := by rw [hd3]; exact h.trimB
    have := stageSync_B_ahead c3 l xb xf hA3 (hi3 ▸ hnf) (AheadOf l) ⟨xb, xf, hA3⟩
    rw [hi3] at this
    refine StartOK.mono this ?_
    intro c4 ⟨h1, h2, h3⟩
    rw [hd3] at h1 h2 h3
    exact ⟨by simpa [Durable.setFile] using h1, by simpa [Durable.setFile] using h2, by simpa [Durable.setFile] using h3⟩

theorem openStoreR_F_ahead (c : Ctx) (l : Log) (xb xf : List Nat) (h : Ahead c.d l xb xf) (hnf : NoFault c.inj) :
    StartOK c.inj (AheadOf l)
      (fun c' => c'.d.ff = { ents := l.filters } ∧ c'.d.bf = c.d.bf ∧ c'.d.db = c.d.db) (openStoreR .F c) := by
  unfold openStoreR
  refine StartOK.andThen (D1 := fun c' => c'.d = c.d.setFile .F { c.d.ff with junk := 0 }) ?_ ?_
  · refine StartOK.andThen (D1 := fun c' => c'.d = c.d.setFile .F { c.d.ff with junk := 0 }) ?_ ?_
    · refine StartOK.andThen (stageIndex_start c hnf _ ⟨xb, xf, h⟩) ?_
      intro c1 hi1 hd1
      have := stageTrim_start .F c1 (hi1 ▸ hnf) (AheadOf l) (by rw [hd1]; exact ⟨xb, xf, h⟩)
      rw [hi1, hd1] at this
      exact this
    · intro c2 hi2 hd2
      have hA2 : Ahead c2.d l xb xf := by rw [hd2]; exact h.trimF
      rw [stageReset_skip .F c2 hA2.hasTipF]
      exact ⟨rfl, hi2, hd2⟩
  · intro c3 hi3 hd3
    have hA3 : Ahead c3.d l xb xf := by rw [hd3]; exact h.trimF
    have := stageSync_F_ahead c3 l xb xf hA3 (hi3 ▸ hnf) (AheadOf l) ⟨xb, xf, hA3⟩
    rw [hi3] at this
    refine StartOK.mono this ?_
    intro c4 ⟨h1, h2, h3⟩
    rw [hd3] at h1 h2 h3
    exact ⟨by simpa [Durable.setFile] using h1, by simpa [Durable.setFile] using h2, by simpa [Durable.setFile] using h3⟩

/-- **A start killed at any of its durable steps** leaves a state whose files
are again ahead of the same index — so the next start, and the one after a
further kill, recover the same log; an undisturbed start ends on a state that
represents the indexed log exactly. -/
theorem reopenR_ahead (c : Ctx) (l : Log) (xb xf : List Nat) (h : Ahead c.d l xb xf) (hnf : NoFault c.inj) :
    StartOK c.inj (AheadOf l)
      (fun c' => c'.d = { bf := { ents := l.blocks }, ff := { ents := l.filters }, db := c.d.db } ∧ Rep c'.d l)
      (reopenR c) := by
  unfold reopenR
  refine StartOK.andThen (openStoreR_B_ahead c l xb xf h hnf) ?_
  intro c1 hi1 ⟨hb1, hf1, hdb1⟩
  have hA1 : Ahead c1.d l [] xf :=
    { bents := by rw [hb1]; simp, fents := by rw [hf1]; exact h.fents, bclean := by rw [hb1], fclean := by rw [hf1]; exact h.fclean,
      neB := h.neB, neF := h.neF, nodup := by simpa using (List.nodup_append.mp h.nodup).1,
      idxPos := by rw [hdb1]; exact h.idxPos, idxOnly := by rw [hdb1]; exact h.idxOnly,
      btip := by rw [hdb1]; exact h.btip, ftip := by rw [hdb1]; exact h.ftip, fle := h.fle }
  have := openStoreR_F_ahead c1 l [] xf hA1 (hi1 ▸ hnf)
  rw [hi1] at this
  refine StartOK.mono this ?_
  intro c2 ⟨hf2, hb2, hdb2⟩
  have hd : c2.d = { bf := { ents := l.blocks }, ff := { ents := l.filters }, db := c.d.db } := by
    cases hc2 : c2.d with
    | mk bf ff db =>
      rw [hc2] at hf2 hb2 hdb2
      simp only at hf2 hb2 hdb2
      rw [hf2, hb2, hb1, hdb2, hdb1]
  refine ⟨hd, ?_⟩
  rw [hd]
  exact { bents := rfl, fents := rfl, neB := h.neB, neF := h.neF, nodup := (List.nodup_append.mp h.nodup).1,
          idxPos := h.idxPos, idxOnly := h.idxOnly, btip := h.btip, ftip := h.ftip, fle := h.fle }

/-- an undisturbed step-by-step start is the `reopen` of the other theorems -/
theorem reopenR_quiet (d : Durable) (s : Nat) (l : Log) (xb xf : List Nat) (h : Ahead d l xb xf) :
    ∃ c', reopenR { d := d, step := s, inj := .none } = .ok true c' ∧ reopen d = some c'.d := by
  have hR := reopenR_ahead { d := d, step := s, inj := .none } l xb xf h trivial
  obtain ⟨r, hr, ⟨e1, e2, e3⟩, _⟩ := reopen_ahead_eq h
  cases hres : reopenR { d := d, step := s, inj := .none } with
  | crashed d' =>
    rw [hres] at hR
    obtain ⟨⟨k, t, hk⟩, _⟩ := hR
    cases hk
  | ok b c' =>
    rw [hres] at hR
    obtain ⟨hb, _, hd, _⟩ := hR
    subst hb
    refine ⟨c', rfl, ?_⟩
    rw [hr, hd]
    cases r with
    | mk bf ff db =>
      simp only at e1 e2 e3
      rw [e1, e2, e3]

/-! ### The very first start, killed anywhere (and again) -/

/-- Every on-disk state the very first start can leave behind when it is killed
— before, within (a torn write of `jb`/`jf` bytes) or after each of its file
writes and index transactions — or that a later start leaves when it is killed
while repeating an interrupted initialisation. -/
def FirstInit (d : Durable) : Prop :=
  (∃ jb, d = { bf := { ents := [], junk := jb }, ff := { ents := [] }, db := {} }) ∨
  d = { bf := { ents := [0] }, ff := { ents := [] }, db := {} } ∨
  (∃ jf, d = { bf := { ents := [0] }, ff := { ents := [], junk := jf }, db := { idx := [(0, 0)], btip := some 0 } }) ∨
  d = { bf := { ents := [0] }, ff := { ents := [0] }, db := { idx := [(0, 0)], btip := some 0 } }

/-- the block store initialised, the filter store untouched -/
def halfInit : Durable := { bf := { ents := [0] }, ff := { ents := [] }, db := { idx := [(0, 0)], btip := some 0 } }

theorem appendBytes_first (w t : Nat) (hw : 0 < w) :
    ({ ents := [] } : FileSt).appendBytes w [0] (min t ([0].length * w)) =
      if t < w then { ents := [], junk := t } else { ents := [0] } := by
  simp only [FileSt.appendBytes, List.length_singleton, Nat.one_mul, ↓reduceIte, List.nil_append]
  by_cases h : t < w
  · have h1 : min t w = t := Nat.min_eq_left (Nat.le_of_lt h)
    simp [h, h1, Nat.div_eq_of_lt h, Nat.mod_eq_of_lt h]
  · have h1 : min t w = w := Nat.min_eq_right (by omega)
    simp [h, h1, Nat.div_self hw]

theorem appendAll_first (w : Nat) (hw : 0 < w) :
    ({ ents := [] } : FileSt).appendAll w [0] = { ents := [0] } := by
  simp [FileSt.appendAll, FileSt.appendBytes, Nat.div_self hw]

/-- the genesis write of the block store -/
theorem writeBlocks_first (s : Nat) (inj : Inj) (hnf : NoFault inj) :
    StartOK inj FirstInit (fun c' => c'.d = halfInit)
      ((writeBlocks [0] 0 { d := { bf := { ents := [] }, ff := { ents := [] }, db := {} }, step := s, inj := inj }).bind
        fun o c => R.ok (o == Out.ok) c) := by
  unfold writeBlocks appendRaw
  by_cases hq : inj.firesAt s = false
  · rw [fileWrite_quiet _ _ _ hq]
    simp only [R.bind, Durable.file, Durable.setFile, appendAll_first _ (width_pos .B), Bool.not_true,
      Bool.false_eq_true, ↓reduceIte, List.isEmpty_cons]
    by_cases hq2 : inj.firesAt (s + 1) = false
    · rw [dbUpdate_quiet _ _ hq2]
      simp only [R.bind, ↓reduceIte]
      exact ⟨by decide, rfl, by simp only; decide⟩
    · obtain ⟨t, ht⟩ := fires_is_crash hnf (by simpa using hq2)
      rw [dbUpdate_crash _ _ t ht]
      exact ⟨⟨_, _, ht⟩, Or.inr (Or.inl rfl)⟩
  · obtain ⟨t, ht⟩ := fires_is_crash hnf (by simpa using hq)
    rw [fileWrite_crash _ _ _ t ht]
    simp only [R.bind, Durable.file, Durable.setFile, appendBytes_first _ _ (width_pos .B)]
    refine ⟨⟨_, _, ht⟩, ?_⟩
    by_cases h : t < width .B
    · simp only [h, ↓reduceIte]; exact Or.inl ⟨t, rfl⟩
    · simp only [h, ↓reduceIte]; exact Or.inr (Or.inl rfl)

/-- the genesis write of the filter store -/
theorem writeFilters_first (s : Nat) (inj : Inj) (hnf : NoFault inj) :
    StartOK inj FirstInit (fun c' => c'.d = init)
      ((writeFilters [0] 0 { d := halfInit, step := s, inj := inj }).bind fun o c => R.ok (o == Out.ok) c) := by
  unfold writeFilters appendRaw
  simp only [List.isEmpty_cons, Bool.false_eq_true, ↓reduceIte]
  by_cases hq : inj.firesAt s = false
  · rw [fileWrite_quiet _ _ _ hq]
    simp only [R.bind, halfInit, Durable.file, Durable.setFile, appendAll_first _ (width_pos .F), Bool.not_true,
      Bool.false_eq_true, ↓reduceIte]
    by_cases hq2 : inj.firesAt (s + 1) = false
    · rw [dbUpdate_quiet _ _ hq2]
      simp only [R.bind, ↓reduceIte]
      exact ⟨by decide, rfl, by simp only; decide⟩
    · obtain ⟨t, ht⟩ := fires_is_crash hnf (by simpa using hq2)
      rw [dbUpdate_crash _ _ t ht]
      exact ⟨⟨_, _, ht⟩, Or.inr (Or.inr (Or.inr rfl))⟩
  · obtain ⟨t, ht⟩ := fires_is_crash hnf (by simpa using hq)
    rw [fileWrite_crash _ _ _ t ht]
    simp only [R.bind, halfInit, Durable.file, Durable.setFile, appendBytes_first _ _ (width_pos .F)]
    refine ⟨⟨_, _, ht⟩, ?_⟩
    by_cases h : t < width .F
    · simp only [h, ↓reduceIte]; exact Or.inr (Or.inr (Or.inl ⟨t, rfl⟩))
    · simp only [h, ↓reduceIte]; exact Or.inr (Or.inr (Or.inr rfl))

theorem ctx_eta (c : Ctx) (d : Durable) (inj : Inj) (hd : c.d = d) (hi : c.inj = inj) :
    c = { d := d, step := c.step, inj := inj } := by
  cases c; simp_all

theorem stageReset_skip_len (w : Which) (c : Ctx) (h : (c.d.file w).ents.length ≠ 1) : stageReset w c = .ok true c := by
  simp [stageReset, h]

theorem stageSync_B_first (c : Ctx) (hnf : NoFault c.inj)
    (hd : c.d = { bf := { ents := [] }, ff := { ents := [] }, db := {} }) :
    StartOK c.inj FirstInit (fun c' => c'.d = halfInit) (stageSync .B c) := by
  rw [ctx_eta c _ c.inj hd rfl]
  simp only [stageSync, Durable.file, Bool.false_eq_true, ↓reduceIte, List.getLast?_nil]
  exact writeBlocks_first c.step c.inj hnf

theorem stageSync_F_first (c : Ctx) (hnf : NoFault c.inj) (hd : c.d = halfInit) :
    StartOK c.inj FirstInit (fun c' => c'.d = init) (stageSync .F c) := by
  rw [ctx_eta c _ c.inj hd rfl]
  simp only [stageSync, halfInit, Durable.file, Bool.false_eq_true, ↓reduceIte, List.getLast?_nil]
  exact writeFilters_first c.step c.inj hnf

/-- the block store's constructor on a directory whose block file holds no whole entry yet -/
theorem openB_first1 (c : Ctx) (jb : Nat) (hnf : NoFault c.inj)
    (hd : c.d = { bf := { ents := [], junk := jb }, ff := { ents := [] }, db := {} }) :
    StartOK c.inj FirstInit (fun c' => c'.d = halfInit) (openStoreR .B c) := by
  have hF : FirstInit c.d := Or.inl ⟨jb, hd⟩
  unfold openStoreR
  refine StartOK.andThen (D1 := fun c' => c'.d = { bf := { ents := [] }, ff := { ents := [] }, db := {} }) ?_ ?_
  · refine StartOK.andThen (D1 := fun c' => c'.d = { bf := { ents := [] }, ff := { ents := [] }, db := {} }) ?_ ?_
    · refine StartOK.andThen (stageIndex_start c hnf _ hF) ?_
      intro c1 hi1 hd1
      have := stageTrim_start .B c1 (hi1 ▸ hnf) FirstInit (by rw [hd1]; exact hF)
      rw [hi1] at this
      refine StartOK.mono this ?_
      intro c2 h2
      rw [h2, hd1, hd]; rfl
    · intro c2 hi2 hd2
      rw [stageReset_skip_len .B c2 (by rw [hd2]; simp [Durable.file])]
      exact ⟨rfl, hi2, hd2⟩
  · intro c3 hi3 hd3
    have := stageSync_B_first c3 (hi3 ▸ hnf) hd3
    rw [hi3] at this
    exact this

/-- … on a directory whose block file holds the genesis entry that the index does not know -/
theorem openB_first2 (c : Ctx) (hnf : NoFault c.inj)
    (hd : c.d = { bf := { ents := [0] }, ff := { ents := [] }, db := {} }) :
    StartOK c.inj FirstInit (fun c' => c'.d = halfInit) (openStoreR .B c) := by
  have hF : FirstInit c.d := Or.inr (Or.inl hd)
  unfold openStoreR
  refine StartOK.andThen (D1 := fun c' => c'.d = { bf := { ents := [] }, ff := { ents := [] }, db := {} }) ?_ ?_
  · refine StartOK.andThen (D1 := fun c' => c'.d = c.d) ?_ ?_
    · refine StartOK.andThen (stageIndex_start c hnf _ hF) ?_
      intro c1 hi1 hd1
      have := stageTrim_start .B c1 (hi1 ▸ hnf) FirstInit (by rw [hd1]; exact hF)
      rw [hi1] at this
      refine StartOK.mono this ?_
      intro c2 h2
      rw [h2, hd1, hd]; rfl
    · intro c2 hi2 hd2
      -- resetInterruptedInit fires: one entry, no tip
      have hcond : (c2.d.file .B).ents.length = 1 ∧ c2.d.db.hasTip .B = false := by
        rw [hd2, hd]; exact ⟨rfl, rfl⟩
      simp only [stageReset, hcond, and_self, ↓reduceIte]
      have := fileTruncate_start .B { c2.d.file .B with ents := [] } c2 (hi2 ▸ hnf) FirstInit (by rw [hd2]; exact hF)
      rw [hi2] at this
      refine StartOK.mono this ?_
      intro c3 h3
      rw [h3, hd2, hd]; rfl
  · intro c3 hi3 hd3
    have := stageSync_B_first c3 (hi3 ▸ hnf) hd3
    rw [hi3] at this
    exact this

/-- … once the block store is initialised: nothing to do -/
theorem openB_first34 (c : Ctx) (ff : FileSt) (hnf : NoFault c.inj) (hF : FirstInit c.d)
    (hd : c.d = { bf := { ents := [0] }, ff := ff, db := { idx := [(0, 0)], btip := some 0 } }) :
    StartOK c.inj FirstInit (fun c' => c'.d = c.d) (openStoreR .B c) := by
  unfold openStoreR
  refine StartOK.andThen (D1 := fun c' => c'.d = c.d) ?_ ?_
  · refine StartOK.andThen (D1 := fun c' => c'.d = c.d) ?_ ?_
    · refine StartOK.andThen (stageIndex_start c hnf _ hF) ?_
      intro c1 hi1 hd1
      have := stageTrim_start .B c1 (hi1 ▸ hnf) FirstInit (by rw [hd1]; exact hF)
      rw [hi1] at this
      refine StartOK.mono this ?_
      intro c2 h2
      rw [h2, hd1, hd]; rfl
    · intro c2 hi2 hd2
      rw [stageReset_skip .B c2 (by rw [hd2, hd]; rfl)]
      exact ⟨rfl, hi2, hd2⟩
  · intro c3 hi3 hd3
    rw [ctx_eta c3 _ c.inj (hd3.trans hd) hi3]
    simp only [stageSync, Durable.file, Bool.false_eq_true, ↓reduceIte, List.getLast?_singleton]
    have hb : btipHeight? { bf := { ents := [0] }, ff := ff, db := { idx := [(0, 0)], btip := some 0 } } = some (0, 0) := by
      simp [btipHeight?, Db.height?]
    simp only [hb, and_self, ↓reduceIte]
    exact ⟨rfl, rfl, hd.symm⟩

/-- the filter store's constructor after the block store's, on a filter file without a whole entry -/
theorem openF_first3 (c : Ctx) (jf : Nat) (hnf : NoFault c.inj)
    (hd : c.d = { bf := { ents := [0] }, ff := { ents := [], junk := jf }, db := { idx := [(0, 0)], btip := some 0 } }) :
    StartOK c.inj FirstInit (fun c' => c'.d = init) (openStoreR .F c) := by
  have hF : FirstInit c.d := Or.inr (Or.inr (Or.inl ⟨jf, hd⟩))
  unfold openStoreR
  refine StartOK.andThen (D1 := fun c' => c'.d = halfInit) ?_ ?_
  · refine StartOK.andThen (D1 := fun c' => c'.d = halfInit) ?_ ?_
    · refine StartOK.andThen (stageIndex_start c hnf _ hF) ?_
      intro c1 hi1 hd1
      have := stageTrim_start .F c1 (hi1 ▸ hnf) FirstInit (by rw [hd1]; exact hF)
      rw [hi1] at this
      refine StartOK.mono this ?_
      intro c2 h2
      rw [h2, hd1, hd]; rfl
    · intro c2 hi2 hd2
      rw [stageReset_skip_len .F c2 (by rw [hd2]; simp [Durable.file, halfInit])]
      exact ⟨rfl, hi2, hd2⟩
  · intro c3 hi3 hd3
    have := stageSync_F_first c3 (hi3 ▸ hnf) hd3
    rw [hi3] at this
    exact this

/-- … on a filter file holding the genesis entry that the index does not know -/
theorem openF_first4 (c : Ctx) (hnf : NoFault c.inj)
    (hd : c.d = { bf := { ents := [0] }, ff := { ents := [0] }, db := { idx := [(0, 0)], btip := some 0 } }) :
    StartOK c.inj FirstInit (fun c' => c'.d = init) (openStoreR .F c) := by
  have hF : FirstInit c.d := Or.inr (Or.inr (Or.inr hd))
  unfold openStoreR
  refine StartOK.andThen (D1 := fun c' => c'.d = halfInit) ?_ ?_
  · refine StartOK.andThen (D1 := fun c' => c'.d = c.d) ?_ ?_
    · refine StartOK.andThen (stageIndex_start c hnf _ hF) ?_
      intro c1 hi1 hd1
      have := stageTrim_start .F c1 (hi1 ▸ hnf) FirstInit (by rw [hd1]; exact hF)
      rw [hi1] at this
      refine StartOK.mono this ?_
      intro c2 h2
      rw [h2, hd1, hd]; rfl
    · intro c2 hi2 hd2
      have hcond : (c2.d.file .F).ents.length = 1 ∧ c2.d.db.hasTip .F = false := by
        rw [hd2, hd]; exact ⟨rfl, rfl⟩
      simp only [stageReset, hcond, and_self, ↓reduceIte]
      have := fileTruncate_start .F { c2.d.file .F with ents := [] } c2 (hi2 ▸ hnf) FirstInit (by rw [hd2]; exact hF)
      rw [hi2] at this
      refine StartOK.mono this ?_
      intro c3 h3
      rw [h3, hd2, hd]; rfl
  · intro c3 hi3 hd3
    have := stageSync_F_first c3 (hi3 ▸ hnf) hd3
    rw [hi3] at this
    exact this

/-- **The very first start is restartable at every instant**: from every state
a killed first start (or a killed repetition of it) can leave, a start that is
killed again — before any of its durable steps, a file write at any torn length
— leaves another such state, and an undisturbed one yields exactly the freshly
initialised stores. -/
theorem reopenR_firstInit (c : Ctx) (h : FirstInit c.d) (hnf : NoFault c.inj) :
    StartOK c.inj FirstInit (fun c' => c'.d = init) (reopenR c) := by
  unfold reopenR
  rcases h with ⟨jb, hd⟩ | hd | ⟨jf, hd⟩ | hd
  · refine StartOK.andThen (openB_first1 c jb hnf hd) ?_
    intro c1 hi1 hd1
    have := openF_first3 c1 0 (hi1 ▸ hnf) hd1
    rw [hi1] at this; exact this
  · refine StartOK.andThen (openB_first2 c hnf hd) ?_
    intro c1 hi1 hd1
    have := openF_first3 c1 0 (hi1 ▸ hnf) hd1
    rw [hi1] at this; exact this
  · refine StartOK.andThen (openB_first34 c _ hnf (Or.inr (Or.inr (Or.inl ⟨jf, hd⟩))) hd) ?_
    intro c1 hi1 hd1
    have := openF_first3 c1 jf (hi1 ▸ hnf) (hd1.trans hd)
    rw [hi1] at this; exact this
  · refine StartOK.andThen (openB_first34 c _ hnf (Or.inr (Or.inr (Or.inr hd))) hd) ?_
    intro c1 hi1 hd1
    have := openF_first4 c1 (hi1 ▸ hnf) (hd1.trans hd)
    rw [hi1] at this; exact this

end Neutrino.Store
