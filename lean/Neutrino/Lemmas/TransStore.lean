/-
The read arithmetic of the header stores as the CODE defines it (translated from headerfs/store.go
and file.go on every run, Gen/TransStore.lean): `FetchHeaderAncestors` of both stores against the model's
`Store.fetchAncestors` / `readRange`, and the offset / length `readHeadersFromFile` asks the file for.
-/
import Neutrino.Gen.TransStore
import Neutrino.Model.StoreReads
namespace Neutrino.Store
open Neutrino.Gen.TransStore Neutrino.GoInt

/-- the index lookup `heightFromHash` of a durable state, as the translated code sees it -/
def heightFn (d : Durable) (id : Atom) : Nat × Bool :=
  match d.db.height? id with
  | some h => (h, false)
  | none => (0, true)

/-- `readHeaderRange(lo, hi)` over a file of the durable state, entries decoded by `mk` -/
def rangeFn {α} (f : FileSt) (mk : Nat → α) (lo hi : Nat) : List α × Bool :=
  match readRange f lo hi with
  | some hs => (hs.map mk, false)
  | none => ([], true)

theorem readRange_wrapped (f : FileSt) (h n : Nat) (hn : h < n) (hn32 : n < 2 ^ 32) :
    readRange f (h + 2 ^ 32 - n) h = none := by
  unfold readRange
  have : ¬ (h + 2 ^ 32 - n ≤ h) := by omega
  split
  · rfl
  · simp [this]

/-- **`blockHeaderStore.FetchHeaderAncestors` is the model's `fetchAncestors`** - including the
case of more ancestors asked for than exist, where the code's `endHeight - numHeaders` wraps around
(uint32) and the range read is asked for a start above its end. -/
theorem trans_fetchAncestors_block (d : Durable) (mk : Nat → T_wire_BlockHeader) (n id : Nat) (hn : n < 2 ^ 32) :
    blockHeaderStore_FetchHeaderAncestors n id (heightFn d) (rangeFn d.bf mk)
      = (match fetchAncestors d n id with
         | some (s, hs) => (hs.map mk, s, false)
         | none => ([], 0, true)) := by
  unfold blockHeaderStore_FetchHeaderAncestors fetchAncestors heightFn
  cases hh : d.db.height? id with
  | none => simp
  | some h =>
    simp only [↓reduceIte]
    by_cases hgt : n > h
    · have hw : usub 32 h n = h + 2 ^ 32 - n := usub_of_lt hgt (by omega)
      simp only [hgt, ↓reduceIte, hw, rangeFn, readRange_wrapped d.bf h n hgt hn]
      simp
    · have hw : usub 32 h n = h - n := usub_of_le (by omega)
      simp only [hgt, ↓reduceIte, hw, rangeFn]
      cases readRange d.bf (h - n) h <;> simp

/-- the same for the filter-header store (entries are hashes: atoms), over the filter file -/
theorem trans_fetchAncestors_filter (d : Durable) (n id : Nat) (hn : n < 2 ^ 32) :
    filterHeaderStore_FetchHeaderAncestors n id (heightFn d) (rangeFn d.ff (fun x => x))
      = (match d.db.height? id with
         | none => ([], 0, true)
         | some h => if n > h then ([], 0, true)
                     else match readRange d.ff (h - n) h with
                          | some hs => (hs, h - n, false)
                          | none => ([], 0, true)) := by
  unfold filterHeaderStore_FetchHeaderAncestors heightFn
  cases hh : d.db.height? id with
  | none => simp
  | some h =>
    simp only [↓reduceIte]
    by_cases hgt : n > h
    · have hw : usub 32 h n = h + 2 ^ 32 - n := usub_of_lt hgt (by omega)
      simp only [hgt, ↓reduceIte, hw, rangeFn, readRange_wrapped d.ff h n hgt hn]
      simp
    · have hw : usub 32 h n = h - n := usub_of_le (by omega)
      simp only [hgt, ↓reduceIte, hw, rangeFn]
      cases readRange d.ff (h - n) h <;> simp

/-- **What `readHeadersFromFile` asks the file for**: for a range `lo ≤ hi` of entries of `sz`
bytes that fits the code's `uint32` length arithmetic, exactly `(hi - lo + 1) * sz` bytes at byte
offset `lo * sz` - the bytes of entries `lo … hi`, nothing before, nothing after - and the result
is the reader over what `ReadAt` left in the buffer, or `ReadAt`'s error. -/
theorem trans_readHeadersFromFile (f : Atom) (sz lo hi : Nat) (f1 : Atom → List Nat → Int → Int × Bool)
    (f2 : Atom → List Nat → Int → List Nat) (f3 : List Nat → Atom)
    (hle : lo ≤ hi) (hlen : sz * (hi - lo + 1) < 2 ^ 32) (hoff : lo * sz < 2 ^ 64) (hsz : 0 < sz) :
    readHeadersFromFile f sz lo hi f1 f2 f3
      = (if (f1 f (List.replicate ((hi - lo + 1) * sz) 0) ((lo * sz : Nat) : Int)).2 = false
         then (f3 (f2 f (List.replicate ((hi - lo + 1) * sz) 0) ((lo * sz : Nat) : Int)), false)
         else (0, true)) := by
  have h1 : usub 32 hi lo = hi - lo := usub_of_le hle
  have hcnt : hi - lo + 1 < 2 ^ 32 := by
    have : hi - lo + 1 ≤ sz * (hi - lo + 1) := Nat.le_mul_of_pos_left _ hsz
    omega
  have h2 : uadd 32 (hi - lo) 1 = hi - lo + 1 := uadd_of_lt hcnt
  have h3 : umul 32 sz (hi - lo + 1) = (hi - lo + 1) * sz := by rw [umul_of_lt hlen, Nat.mul_comm]
  have h4 : umul 64 lo sz = lo * sz := umul_of_lt hoff
  unfold readHeadersFromFile
  simp only [h1, h2, h3, h4]
  have hd : (default : Nat) = 0 := rfl
  rw [hd]
  split
  · rfl
  · rename_i hne
    have : (f1 f (List.replicate ((hi - lo + 1) * sz) 0) ((lo * sz : Nat) : Int)).2 = true := by
      cases hb : (f1 f (List.replicate ((hi - lo + 1) * sz) 0) ((lo * sz : Nat) : Int)).2 <;> simp_all
    rw [this]

/-! ### start-up reconciliation arithmetic (`trimPartialHeader`, `resetInterruptedInit`) -/

/-- **`trimPartialHeader` as the code spells it**: for a file of `n` whole entries of `z` bytes
followed by `junk < z` bytes of a torn append, nothing is done when `junk = 0`, and otherwise the file
is truncated to exactly the `n` whole entries (`n * z` bytes) - never into an entry, never keeping a
torn byte.  `Stat` / `Size` failures are passed on. -/
theorem trans_trimPartialHeader (size : Atom → Int) (fi : Atom) (trunc : Int → Bool) (n junk z : Nat)
    (hz : junk < z) (hsize : size fi = ((n * z + junk : Nat) : Int)) :
    trimPartialHeader size (fi, false) trunc ((z : Int), false)
      = (if junk = 0 then false else trunc ((n * z : Nat) : Int)) := by
  unfold trimPartialHeader
  simp only [↓reduceIte, hsize]
  have hmod : Int.tmod ((n * z + junk : Nat) : Int) (z : Int) = (junk : Int) := by
    rw [Int.tmod_eq_emod_of_nonneg (Int.natCast_nonneg _)]
    have : (n * z + junk) % z = junk := by
      rw [Nat.add_comm, Nat.add_mul_mod_self_right, Nat.mod_eq_of_lt hz]
    exact_mod_cast this
  rw [hmod]
  by_cases hj : junk = 0
  · subst hj; simp
  · have : ¬ ((junk : Int) = 0) := by omega
    simp only [this, hj, ↓reduceIte]
    congr 1
    push_cast
    omega

theorem trans_trimPartialHeader_err (size : Atom → Int) (st : Atom × Bool) (trunc : Int → Bool) (sz : Int × Bool)
    (h : st.2 = true ∨ sz.2 = true) : trimPartialHeader size st trunc sz = true := by
  unfold trimPartialHeader
  simp only []
  rcases h with h | h <;> (repeat' split) <;> simp_all

/-- **`resetInterruptedInit` as the code spells it**: the file is emptied (and 0 returned) exactly
when it holds nothing but one entry and the index has no chain tip; in every other case the size is
returned unchanged and the file is not touched; lookup failures are passed on. -/
theorem trans_resetInterruptedInit (fileSize : Int) (trunc : Int → Bool) (hasTip : Bool) (z : Int) :
    resetInterruptedInit fileSize trunc (hasTip, false) (z, false)
      = (if fileSize = z ∧ hasTip = false then (0, trunc 0) else (fileSize, false)) := by
  unfold resetInterruptedInit
  simp only [↓reduceIte]
  by_cases h1 : fileSize = z
  · cases hasTip
    · cases ht : trunc 0 <;> simp [h1, ht]
    · simp [h1]
  · simp [h1]

end Neutrino.Store
