import Neutrino.Spec.GetCFilter
import Neutrino.Lemmas.GetBlock
namespace Neutrino.GetCFilter
open Neutrino

/-! ### range arithmetic -/

theorem rangeOf_spec (h best : Int) (bt : Batch) (mb : Int) (h1 : 1 ≤ h) (h2 : h ≤ best) :
    1 ≤ (rangeOf h best bt mb).1 ∧ (rangeOf h best bt mb).1 ≤ h ∧ h ≤ (rangeOf h best bt mb).2 ∧
    (rangeOf h best bt mb).2 ≤ best ∧ (rangeOf h best bt mb).2 - (rangeOf h best bt mb).1 + 1 ≤ maxRange ∧
    (0 < mb ∧ mb < maxRange → (rangeOf h best bt mb).2 - (rangeOf h best bt mb).1 + 1 ≤ mb) ∧
    (bt = .none → (rangeOf h best bt mb).1 = h ∧ (rangeOf h best bt mb).2 = h) := by
  unfold rangeOf maxRange
  by_cases hm : mb > 0 ∧ mb < 1000
  · simp only [hm, and_self, ↓reduceIte]
    cases bt <;> dsimp only <;> (repeat' split) <;> (refine ⟨?_, ?_, ?_, ?_, ?_, ?_, ?_⟩) <;>
      first | omega | (intro _; omega) | (intro hx; cases hx) | (intro _; constructor <;> omega)
  · simp only [hm, ↓reduceIte]
    cases bt <;> dsimp only <;> (repeat' split) <;> (refine ⟨?_, ?_, ?_, ?_, ?_, ?_, ?_⟩) <;>
      first | omega | (intro _; omega) | (intro hx; cases hx) | (intro _; constructor <;> omega)

theorem rangeOf_bounds (h best : Int) (bt : Batch) (mb : Int) (hb : 0 ≤ best) :
    1 ≤ (rangeOf h best bt mb).1 ∧ (rangeOf h best bt mb).2 ≤ best := by
  unfold rangeOf
  constructor
  · simp only; split <;> omega
  · simp only; split <;> omega

/-! ### index and prepared headers -/

theorem mem_mkIndex (start n : Nat) : ∀ p ∈ mkIndex start n, 1 ≤ p.2 ∧ p.2 ≤ n ∧ p.1 + 1 = start + p.2 := by
  induction n with
  | zero => intro p h; simp [mkIndex] at h
  | succ n ih =>
    intro p h
    simp only [mkIndex, List.mem_append, List.mem_singleton] at h
    rcases h with h | h
    · obtain ⟨a, b, c⟩ := ih p h; exact ⟨a, by omega, c⟩
    · subst h; simp only; omega

theorem lookup_mem {l : List (Nat × Nat)} {k i : Nat} (h : lookup l k = some i) : (k, i) ∈ l := by
  unfold lookup at h
  cases hf : l.find? (·.1 == k) with
  | none => simp [hf] at h
  | some p =>
    simp only [hf, Option.map_some, Option.some.injEq] at h
    have hm := List.mem_of_find?_eq_some hf
    have hk := List.find?_some hf
    simp at hk
    obtain ⟨a, b⟩ := p
    simp only at hk h
    subst hk; subst h
    exact hm

theorem lookup_eraseKey_self (l : List (Nat × Nat)) (k : Nat) : lookup (eraseKey l k) k = none := by
  unfold lookup eraseKey
  have : (l.filter (fun p => !(p.1 == k))).find? (·.1 == k) = none := by
    apply List.find?_eq_none.mpr
    intro p hp
    simp at hp
    simp [hp.2]
  rw [this]; rfl

theorem mem_eraseKey {l : List (Nat × Nat)} {k : Nat} {p : Nat × Nat} (h : p ∈ eraseKey l k) : p ∈ l ∧ p.1 ≠ k := by
  unfold eraseKey at h
  simp at h
  exact h

theorem mem_dbPut {db : List (Nat × Nat)} {k v : Nat} {p : Nat × Nat} (h : p ∈ dbPut db k v) : p = (k, v) ∨ p ∈ db := by
  unfold dbPut at h
  rcases List.mem_cons.mp h with h | h
  · exact Or.inl h
  · exact Or.inr (mem_eraseKey h).1

theorem getD_take_drop (l : List Nat) (k n i : Nat) (hi : i < n) :
    ((l.drop k).take n).getD i 0 = l.getD (k + i) 0 := by
  simp [List.getD_eq_getElem?_getD, List.getElem?_take, hi, List.getElem?_drop]

/-- a filter for block `blk` that hashes with the committed previous header to
the committed header of the block -/
def Good (hs : Hashing) (fhs : List Nat) (blk fid : Nat) : Prop :=
  1 ≤ blk ∧ blk < fhs.length ∧ hs.hdr fid (fhs.getD (blk - 1) 0) = fhs.getD blk 0

def StoreOk (hs : Hashing) (fhs : List Nat) (st : Store) : Prop :=
  (∀ e ∈ st.cache.items, Good hs fhs e.key e.vid) ∧ (∀ p ∈ st.db, Good hs fhs p.1 p.2)

/-- the query's private copy of the headers agrees with the store it was prepared from -/
def QueryOk (hs : Hashing) (fhs : List Nat) (q : Query) : Prop :=
  (∀ p ∈ q.index, 1 ≤ p.2 ∧ 1 ≤ p.1 ∧ p.1 < fhs.length ∧
      q.fhdrs.getD p.2 0 = fhs.getD p.1 0 ∧ q.fhdrs.getD (p.2 - 1) 0 = fhs.getD (p.1 - 1) 0) ∧
  (∀ r, q.found = some r → r.blk = q.target ∧ Good hs fhs r.blk r.fid)

theorem prepare_ok (hs : Hashing) (c : Chain) (t : Nat) (bt : Batch) (mb : Int) (q : Query)
    (hne : 1 ≤ c.fhs.length) (h : prepare c t bt mb = .ok q) :
    QueryOk hs c.fhs q ∧ q.target = t ∧ q.found = none ∧
    q.start = (rangeOf t c.best bt mb).1 ∧ q.stop = (rangeOf t c.best bt mb).2 := by
  unfold prepare at h
  split at h
  · cases h
  · split at h
    · cases h
    · simp only at h
      split at h
      · cases h
      · rename_i hn
        simp only [Except.ok.injEq] at h
        subst h
        refine ⟨⟨?_, by simp⟩, rfl, rfl, rfl, rfl⟩
        intro p hp
        simp only at hp ⊢
        obtain ⟨a, b, c'⟩ := mem_mkIndex _ _ p hp
        have hbest : (0 : Int) ≤ (c.best : Int) := Int.natCast_nonneg _
        obtain ⟨hs1, hs2⟩ := rangeOf_bounds (t : Int) (c.best : Int) bt mb hbest
        generalize rangeOf (t : Int) (c.best : Int) bt mb = r at *
        have hbl : c.best ≤ c.fhs.length - 1 := by unfold Chain.best; omega
        have hstart : 1 ≤ r.1.toNat := by omega
        have hb : p.1 < c.fhs.length := by omega
        refine ⟨a, by omega, hb, ?_, ?_⟩
        · rw [getD_take_drop _ _ _ _ (by omega)]
          congr 1; omega
        · rw [getD_take_drop _ _ _ _ (by omega)]
          congr 1; omega

/-! ### the handler -/

theorem verify_some {hs : Hashing} {q : Query} {r : Resp} {i : Nat} (h : verify hs q r = some i) :
    r.isCFilter = true ∧ r.ftypeOk = true ∧ r.decodes = true ∧ (r.blk, i) ∈ q.index ∧
    hs.hdr r.fid (q.fhdrs.getD (i - 1) 0) = q.fhdrs.getD i 0 := by
  unfold verify at h
  cases h1 : r.isCFilter <;> simp only [h1, ↓reduceIte, Bool.true_eq_false] at h
  · cases h
  cases h2 : r.ftypeOk <;> simp only [h2, ↓reduceIte, Bool.true_eq_false] at h
  · cases h
  cases hl : lookup q.index r.blk with
  | none => simp [hl] at h
  | some j =>
    simp only [hl] at h
    cases h3 : r.decodes <;> simp only [h3, ↓reduceIte, Bool.true_eq_false] at h
    · cases h
    split at h
    · cases h
    · rename_i hne
      simp only [Option.some.injEq] at h
      subst h
      exact ⟨rfl, rfl, rfl, lookup_mem hl, by simpa using hne⟩

theorem verify_none_of (hs : Hashing) (q : Query) (r : Resp)
    (h : r.isCFilter = false ∨ r.ftypeOk = false ∨ lookup q.index r.blk = none ∨ r.decodes = false ∨
      (∀ i, lookup q.index r.blk = some i → hs.hdr r.fid (q.fhdrs.getD (i - 1) 0) ≠ q.fhdrs.getD i 0)) :
    verify hs q r = none := by
  cases hv : verify hs q r with
  | none => rfl
  | some i =>
    obtain ⟨a, b, c, d, e⟩ := verify_some hv
    exfalso
    unfold verify at hv
    simp only [a, b, c, Bool.true_eq_false, ↓reduceIte] at hv
    cases hl : lookup q.index r.blk with
    | none => simp [hl] at hv
    | some j =>
      simp only [hl] at hv
      split at hv
      · cases hv
      · simp only [Option.some.injEq] at hv
        subst hv
        rcases h with h | h | h | h | h
        · rw [a] at h; cases h
        · rw [b] at h; cases h
        · rw [hl] at h; cases h
        · rw [c] at h; cases h
        · exact h j hl e

theorem handle_reject (hs : Hashing) (qs : Query × Store) (r : Resp) (h : verify hs qs.1 r = none) :
    handle hs qs r = (qs, .none) := by
  simp only [handle, h]

theorem handle_accept (hs : Hashing) (qs : Query × Store) (r : Resp) (i : Nat) (h : verify hs qs.1 r = some i) :
    handle hs qs r = accept qs.1 qs.2 r := by
  simp only [handle, h]

theorem handle_progress_iff (hs : Hashing) (qs : Query × Store) (r : Resp) :
    (handle hs qs r).2 ≠ .none ↔ (verify hs qs.1 r).isSome = true := by
  cases hv : verify hs qs.1 r with
  | none => rw [handle_reject hs qs r hv]; simp
  | some i =>
    rw [handle_accept hs qs r i hv]
    simp only [accept, Option.isSome_some, iff_true]
    split <;> simp

theorem handle_ok (hs : Hashing) (fhs : List Nat) (qs : Query × Store) (r : Resp)
    (hq : QueryOk hs fhs qs.1) (hst : StoreOk hs fhs qs.2) :
    QueryOk hs fhs (handle hs qs r).1.1 ∧ StoreOk hs fhs (handle hs qs r).1.2 ∧
    (handle hs qs r).1.1.target = qs.1.target := by
  cases hv : verify hs qs.1 r with
  | none => rw [handle_reject hs qs r hv]; exact ⟨hq, hst, rfl⟩
  | some i =>
    rw [handle_accept hs qs r i hv]
    obtain ⟨_, _, _, hmem, hh⟩ := verify_some hv
    obtain ⟨hi1, hb1, hb2, hcur, hprev⟩ := hq.1 (r.blk, i) hmem
    simp only at hi1 hb1 hb2 hcur hprev
    have hgood : Good hs fhs r.blk r.fid := ⟨hb1, hb2, by rw [← hprev, ← hcur]; exact hh⟩
    simp only [accept]
    refine ⟨⟨?_, ?_⟩, ⟨?_, ?_⟩, trivial⟩
    · intro p hp
      exact hq.1 p (mem_eraseKey hp).1
    · intro r' hr'
      simp only at hr'
      split at hr'
      · rename_i heq
        simp only [Option.some.injEq] at hr'
        subst hr'
        exact ⟨heq, hgood⟩
      · exact hq.2 r' hr'
    · intro e he
      simp only at he
      rcases GetBlock.spec_put_items e he with h1 | h1
      · exact hst.1 e h1
      · subst h1; exact hgood
    · intro p hp
      simp only at hp
      split at hp
      · rcases mem_dbPut hp with h1 | h1
        · subst h1; exact hgood
        · exact hst.2 p h1
      · exact hst.2 p hp

theorem feed_ok (hs : Hashing) (fhs : List Nat) (cont : Bool) (rs : List Resp) : ∀ (qs : Query × Store),
    QueryOk hs fhs qs.1 → StoreOk hs fhs qs.2 →
    QueryOk hs fhs (feed hs cont qs rs).1.1 ∧ StoreOk hs fhs (feed hs cont qs rs).1.2 ∧
    (feed hs cont qs rs).1.1.target = qs.1.target := by
  induction rs with
  | nil => intro qs hq hst; exact ⟨hq, hst, rfl⟩
  | cons a rs ih =>
    intro qs hq hst
    obtain ⟨h1, h2, h3⟩ := handle_ok hs fhs qs a hq hst
    simp only [feed]
    split
    · exact ⟨h1, h2, h3⟩
    · obtain ⟨g1, g2, g3⟩ := ih _ h1 h2
      exact ⟨g1, g2, g3.trans h3⟩

/-- nothing is stored and nothing found unless some response of the stream verifies -/
theorem feed_all_rejected (hs : Hashing) (cont : Bool) (rs : List Resp) : ∀ (qs : Query × Store),
    (∀ (q : Query) (r : Resp), r ∈ rs → q.index = qs.1.index → q.fhdrs = qs.1.fhdrs → verify hs q r = none) →
    (feed hs cont qs rs).1 = qs := by
  induction rs with
  | nil => intro qs _; rfl
  | cons a rs ih =>
    intro qs h
    have ha : handle hs qs a = (qs, .none) := handle_reject hs qs a (h qs.1 a (by simp) rfl rfl)
    simp only [feed, ha]
    simp only [reduceCtorEq, false_and, ↓reduceIte]
    exact ih qs (fun q r hr h1 h2 => h q r (List.mem_cons_of_mem _ hr) h1 h2)

/-! ### duplicates and completion -/

theorem lookup_eraseKey_none {l : List (Nat × Nat)} {k : Nat} (k' : Nat) (h : lookup l k = none) :
    lookup (eraseKey l k') k = none := by
  unfold lookup at h ⊢
  cases hf : (eraseKey l k').find? (·.1 == k) with
  | none => rfl
  | some p =>
    exfalso
    have hm := (mem_eraseKey (List.mem_of_find?_eq_some hf)).1
    have hk := List.find?_some hf
    have : l.find? (·.1 == k) = none := by
      cases hl : l.find? (·.1 == k) with
      | none => rfl
      | some q => simp [hl] at h
    exact (List.find?_eq_none.mp this p hm) hk

theorem handle_index_sub (hs : Hashing) (qs : Query × Store) (r : Resp) :
    ∀ p ∈ (handle hs qs r).1.1.index, p ∈ qs.1.index := by
  intro p hp
  cases hv : verify hs qs.1 r with
  | none => rw [handle_reject hs qs r hv] at hp; exact hp
  | some i =>
    rw [handle_accept hs qs r i hv] at hp
    exact (mem_eraseKey hp).1

theorem handle_lookup_none (hs : Hashing) (qs : Query × Store) (r : Resp) (k : Nat)
    (h : lookup qs.1.index k = none) : lookup (handle hs qs r).1.1.index k = none := by
  cases hv : verify hs qs.1 r with
  | none => rw [handle_reject hs qs r hv]; exact h
  | some i => rw [handle_accept hs qs r i hv]; exact lookup_eraseKey_none _ h

theorem feed_lookup_none (hs : Hashing) (cont : Bool) (rs : List Resp) (k : Nat) : ∀ (qs : Query × Store),
    lookup qs.1.index k = none → lookup (feed hs cont qs rs).1.1.index k = none := by
  induction rs with
  | nil => intro qs h; exact h
  | cons a rs ih =>
    intro qs h
    simp only [feed]
    split
    · exact handle_lookup_none hs qs a k h
    · exact ih _ (handle_lookup_none hs qs a k h)

/-- once a response for a block made progress the block is not awaited any more -/
theorem handle_accepted_not_awaited (hs : Hashing) (qs : Query × Store) (r : Resp)
    (h : (handle hs qs r).2 ≠ .none) : lookup (handle hs qs r).1.1.index r.blk = none := by
  have hv := (handle_progress_iff hs qs r).mp h
  cases hv' : verify hs qs.1 r with
  | none => simp [hv'] at hv
  | some i => rw [handle_accept hs qs r i hv']; exact lookup_eraseKey_self _ _

/-- every awaited block is still awaited afterwards or was answered by a response
of the stream that passed the tests at that moment (a well-formed cfilter message) -/
theorem feed_received (hs : Hashing) (cont : Bool) (rs : List Resp) : ∀ (qs : Query × Store),
    ∀ p ∈ qs.1.index, p ∈ (feed hs cont qs rs).1.1.index ∨
      ∃ r ∈ rs, r.blk = p.1 ∧ r.isCFilter = true ∧ r.ftypeOk = true ∧ r.decodes = true := by
  induction rs with
  | nil => intro qs p hp; exact Or.inl hp
  | cons a rs ih =>
    intro qs p hp
    have hstep : p ∈ (handle hs qs a).1.1.index ∨
        (a.blk = p.1 ∧ a.isCFilter = true ∧ a.ftypeOk = true ∧ a.decodes = true) := by
      cases hv : verify hs qs.1 a with
      | none => rw [handle_reject hs qs a hv]; exact Or.inl hp
      | some i =>
        rw [handle_accept hs qs a i hv]
        obtain ⟨h1, h2, h3, _, _⟩ := verify_some hv
        by_cases hk : p.1 = a.blk
        · exact Or.inr ⟨hk.symm, h1, h2, h3⟩
        · left
          simp only [accept, eraseKey, List.mem_filter]
          exact ⟨hp, by simp [hk]⟩
    simp only [feed]
    split
    · rcases hstep with h1 | h1
      · exact Or.inl h1
      · exact Or.inr ⟨a, by simp, h1⟩
    · rcases hstep with h1 | h1
      · rcases ih _ p h1 with h2 | ⟨r, hr, h2⟩
        · exact Or.inl h2
        · exact Or.inr ⟨r, List.mem_cons_of_mem _ hr, h2⟩
      · exact Or.inr ⟨a, by simp, h1⟩

theorem handle_finished_index (hs : Hashing) (qs : Query × Store) (r : Resp)
    (h : (handle hs qs r).2 = .finished) : (handle hs qs r).1.1.index = [] := by
  cases hv : verify hs qs.1 r with
  | none => rw [handle_reject hs qs r hv] at h; cases h
  | some i =>
    rw [handle_accept hs qs r i hv] at h ⊢
    simp only [accept] at h ⊢
    split at h
    · rename_i he; simpa using he
    · cases h

theorem feed_index_nil (hs : Hashing) (cont : Bool) (rs : List Resp) : ∀ (qs : Query × Store),
    qs.1.index = [] → (feed hs cont qs rs).1.1.index = [] := by
  intro qs h
  cases hi : (feed hs cont qs rs).1.1.index with
  | nil => rfl
  | cons p ps =>
    exfalso
    have hl : lookup (feed hs cont qs rs).1.1.index p.1 = none :=
      feed_lookup_none hs cont rs p.1 qs (by rw [h]; rfl)
    rw [hi] at hl
    simp [lookup] at hl

/-- `Finished` anywhere in the handler's answers means nothing is awaited at the end -/
theorem feed_finished_index (hs : Hashing) (cont : Bool) (rs : List Resp) : ∀ (qs : Query × Store),
    Progress.finished ∈ (feed hs cont qs rs).2 → (feed hs cont qs rs).1.1.index = [] := by
  induction rs with
  | nil => intro qs h; simp [feed] at h
  | cons a rs ih =>
    intro qs h
    simp only [feed] at h ⊢
    split
    · rename_i hc; exact handle_finished_index hs qs a hc.1
    · rename_i hc
      simp only [hc, ↓reduceIte, List.mem_cons] at h
      rcases h with h | h
      · exact feed_index_nil hs cont rs _ (handle_finished_index hs qs a h.symm)
      · exact ih _ h

theorem mkIndex_covers (start n k : Nat) (hk : k < n) : (start + k, k + 1) ∈ mkIndex start n := by
  induction n with
  | zero => omega
  | succ n ih =>
    simp only [mkIndex, List.mem_append, List.mem_singleton]
    by_cases h : k < n
    · exact Or.inl (ih h)
    · have : k = n := by omega
      subst this; exact Or.inr rfl

/-- the prepared index awaits every block of the prepared range -/
theorem prepare_covers (c : Chain) (t : Nat) (bt : Batch) (mb : Int) (q : Query)
    (h : prepare c t bt mb = .ok q) (b : Nat) (h1 : q.start ≤ (b : Int)) (h2 : (b : Int) ≤ q.stop) :
    ∃ i, (b, i) ∈ q.index := by
  unfold prepare at h
  split at h
  · cases h
  · split at h
    · cases h
    · simp only at h
      split at h
      · cases h
      · simp only [Except.ok.injEq] at h
        subst h
        simp only at h1 h2 ⊢
        have hbest : (0 : Int) ≤ (c.best : Int) := Int.natCast_nonneg _
        obtain ⟨hs1, _⟩ := rangeOf_bounds (t : Int) (c.best : Int) bt mb hbest
        generalize rangeOf (t : Int) (c.best : Int) bt mb = r at *
        have hk : b - r.1.toNat < (r.2 - r.1 + 1).toNat := by omega
        have := mkIndex_covers r.1.toNat (r.2 - r.1 + 1).toNat (b - r.1.toNat) hk
        have hb : r.1.toNat + (b - r.1.toNat) = b := by omega
        rw [hb] at this
        exact ⟨_, this⟩

/-! ### the requested filter is recognised by its block hash -/

theorem handle_found_target (hs : Hashing) (qs : Query × Store) (r : Resp) (x : Resp)
    (h : (handle hs qs r).1.1.found = some x) :
    qs.1.found = some x ∨ (x.blk = qs.1.target ∧ lookup qs.1.index qs.1.target ≠ none) := by
  cases hv : verify hs qs.1 r with
  | none => rw [handle_reject hs qs r hv] at h; exact Or.inl h
  | some i =>
    rw [handle_accept hs qs r i hv] at h
    simp only [accept] at h
    split at h
    · rename_i heq
      simp only [Option.some.injEq] at h
      subst h
      refine Or.inr ⟨heq, ?_⟩
      obtain ⟨_, _, _, hmem, _⟩ := verify_some hv
      rw [← heq]
      intro hnone
      unfold verify at hv
      simp [hnone] at hv
    · exact Or.inl h

theorem handle_target (hs : Hashing) (qs : Query × Store) (r : Resp) :
    (handle hs qs r).1.1.target = qs.1.target := by
  cases hv : verify hs qs.1 r with
  | none => rw [handle_reject hs qs r hv]
  | some i => rw [handle_accept hs qs r i hv]; rfl

/-- whatever the stream, `targetFilter` is only ever set by a response naming the
requested hash, and only if that hash was among the awaited blocks -/
theorem feed_found_target (hs : Hashing) (cont : Bool) (rs : List Resp) : ∀ (qs : Query × Store) (x : Resp),
    (feed hs cont qs rs).1.1.found = some x →
    qs.1.found = some x ∨ (x.blk = qs.1.target ∧ ∃ rs' : List Resp, ∃ qs' : Query × Store,
      qs'.1.target = qs.1.target ∧ (∀ p ∈ qs'.1.index, p ∈ qs.1.index) ∧ lookup qs'.1.index qs.1.target ≠ none) := by
  induction rs with
  | nil => intro qs x h; exact Or.inl h
  | cons a rs ih =>
    intro qs x h
    simp only [feed] at h
    have step : (handle hs qs a).1.1.found = some x →
        qs.1.found = some x ∨ (x.blk = qs.1.target ∧ ∃ rs' : List Resp, ∃ qs' : Query × Store,
          qs'.1.target = qs.1.target ∧ (∀ p ∈ qs'.1.index, p ∈ qs.1.index) ∧ lookup qs'.1.index qs.1.target ≠ none) := by
      intro h1
      rcases handle_found_target hs qs a x h1 with h2 | h2
      · exact Or.inl h2
      · exact Or.inr ⟨h2.1, [], qs, rfl, fun p hp => hp, h2.2⟩
    split at h
    · exact step h
    · rcases ih _ x h with h1 | ⟨hb, rs', qs', ht, hsub, hl⟩
      · exact step h1
      · rw [handle_target] at hb ht hl
        exact Or.inr ⟨hb, rs', qs', ht, fun p hp => handle_index_sub hs qs a p (hsub p hp), hl⟩

theorem lookup_some_mem_key {l : List (Nat × Nat)} {k : Nat} (h : lookup l k ≠ none) : ∃ i, (k, i) ∈ l := by
  cases hl : lookup l k with
  | none => exact absurd hl h
  | some i => exact ⟨i, lookup_mem hl⟩

/-- a query whose index does not await the requested hash never finds the requested filter -/
theorem feed_target_not_awaited (hs : Hashing) (cont : Bool) (rs : List Resp) (qs : Query × Store)
    (hnone : qs.1.found = none) (hna : ∀ i, (qs.1.target, i) ∉ qs.1.index) :
    (feed hs cont qs rs).1.1.found = none := by
  cases hf : (feed hs cont qs rs).1.1.found with
  | none => rfl
  | some x =>
    exfalso
    rcases feed_found_target hs cont rs qs x hf with h | ⟨_, _, qs', _, hsub, hl⟩
    · rw [hnone] at h; cases h
    · obtain ⟨i, hi⟩ := lookup_some_mem_key hl
      exact hna i (hsub _ hi)

/-- after a reorganisation between the lookups the index names the blocks of the
new chain: the requested hash is awaited only if it is the same block on both -/
theorem prepareReorg_index (c : Chain) (rg : Reorg) (t : Nat) (bt : Batch) (mb : Int) (q : Query)
    (htip : c.tip < altBase) (h : prepareReorg c rg t bt mb = .ok q) :
    q.target = t ∧ q.found = none ∧ (rg.fork < t → ∀ i, (t, i) ∉ q.index) := by
  unfold prepareReorg at h
  split at h
  · cases h
  · rename_i ht
    cases hp : prepare rg.chain t bt mb with
    | error e => simp [hp] at h
    | ok q0 =>
      simp only [hp, Except.ok.injEq] at h
      subst h
      have h0 : q0.target = t ∧ q0.found = none := by
        unfold prepare at hp
        split at hp
        · cases hp
        · split at hp
          · cases hp
          · simp only at hp
            split at hp
            · cases hp
            · simp only [Except.ok.injEq] at hp
              subst hp
              exact ⟨rfl, rfl⟩
      refine ⟨h0.1, h0.2, fun hfork i hmem => ?_⟩
      simp only [List.mem_map] at hmem
      obtain ⟨p, _, hp2⟩ := hmem
      have hid : rg.idAt p.1 = t := by
        have := congrArg Prod.fst hp2
        simpa using this
      unfold Reorg.idAt at hid
      split at hid
      · unfold altBase at htip hid; omega
      · omega

/-! ### GetCFilter by cases -/

/-- the branch after both lookups missed -/
def afterMiss (hs : Hashing) (s : State) (c : Call) : Outcome :=
  match prepare s.chain c.target c.batch c.maxBatch with
  | .error _ => ⟨s, .errPrepare, .nowhere, [], none⟩
  | .ok q =>
    let hp := feed hs c.cont (q, s.store) c.resps
    let s1 : State := { s with store := hp.1.2 }
    let rg := some (q.start, q.stop)
    match c.verdict with
    | .quit => ⟨s1, .errQuit, .nowhere, hp.2, rg⟩
    | .err => ⟨s1, .errQuery, .nowhere, hp.2, rg⟩
    | .nil =>
      match hp.1.1.found with
      | none => ⟨s1, .errFetchFailed, .nowhere, hp.2, rg⟩
      | some r => ⟨s1, .ret r.fid, .network, hp.2, rg⟩

theorem getCFilter_cases (hs : Hashing) (s : State) (c : Call) :
    (c.regular = false ∧ getCFilter hs s c = ⟨s, .errType, .nowhere, [], none⟩) ∨
    (∃ v, (s.store.cache.step (.get c.target)).2 = .val v ∧
      getCFilter hs s c = ⟨{ s with store := { s.store with cache := (s.store.cache.step (.get c.target)).1 } },
        .ret v, .cache, [], none⟩) ∨
    ((∀ v, (s.store.cache.step (.get c.target)).2 ≠ .val v) ∧ ∃ fid, lookup s.store.db c.target = some fid ∧
      getCFilter hs s c = ⟨s, .ret fid, .db, [], none⟩) ∨
    ((∀ v, (s.store.cache.step (.get c.target)).2 ≠ .val v) ∧ lookup s.store.db c.target = none ∧
      getCFilter hs s c = afterMiss hs s c) := by
  cases hreg : c.regular with
  | false => exact Or.inl ⟨rfl, by simp [getCFilter, hreg]⟩
  | true =>
    refine Or.inr ?_
    by_cases hhit : ∃ v, (s.store.cache.step (.get c.target)).2 = .val v
    · obtain ⟨v, hv⟩ := hhit
      refine Or.inl ⟨v, hv, ?_⟩
      unfold getCFilter
      simp only [hreg, Bool.true_eq_false, ↓reduceIte]
      generalize s.store.cache.step (.get c.target) = p at hv ⊢
      obtain ⟨c', o⟩ := p
      simp only at hv
      subst hv
      rfl
    · have hm : ∀ v, (s.store.cache.step (.get c.target)).2 ≠ .val v := fun v hv => hhit ⟨v, hv⟩
      have hsame := GetBlock.spec_get_miss hm
      refine Or.inr ?_
      have key : getCFilter hs s c =
          (match lookup s.store.db c.target with
           | some fid => ⟨s, .ret fid, .db, [], none⟩
           | none => afterMiss hs s c) := by
        unfold getCFilter afterMiss
        simp only [hreg, Bool.true_eq_false, ↓reduceIte]
        generalize s.store.cache.step (.get c.target) = p at hm hsame ⊢
        obtain ⟨c', o⟩ := p
        simp only at hm hsame
        subst hsame
        cases o with
        | val v => exact absurd rfl (hm v)
        | _ => rfl
      cases hl : lookup s.store.db c.target with
      | some fid => exact Or.inl ⟨hm, fid, rfl, by rw [key, hl]⟩
      | none => exact Or.inr ⟨hm, rfl, by rw [key, hl]⟩

theorem afterMiss_chain (hs : Hashing) (s : State) (c : Call) : (afterMiss hs s c).st.chain = s.chain := by
  unfold afterMiss
  split
  · rfl
  · simp only
    split
    · rfl
    · rfl
    · split <;> rfl

theorem getCFilter_chain (hs : Hashing) (s : State) (c : Call) : (getCFilter hs s c).st.chain = s.chain := by
  rcases getCFilter_cases hs s c with ⟨_, he⟩ | ⟨v, _, he⟩ | ⟨_, fid, _, he⟩ | ⟨_, _, he⟩
  · rw [he]
  · rw [he]
  · rw [he]
  · rw [he]; exact afterMiss_chain hs s c

/-- what the network branch guarantees -/
theorem afterMiss_ok (hs : Hashing) (s : State) (c : Call) (hne : 1 ≤ s.chain.fhs.length)
    (hst : StoreOk hs s.chain.fhs s.store) :
    StoreOk hs s.chain.fhs (afterMiss hs s c).st.store ∧
    (∀ fid, (afterMiss hs s c).result = .ret fid → Good hs s.chain.fhs c.target fid) := by
  unfold afterMiss
  cases hp : prepare s.chain c.target c.batch c.maxBatch with
  | error e => exact ⟨hst, fun fid h => by simp at h⟩
  | ok q =>
    obtain ⟨hq, ht, _, _, _⟩ := prepare_ok hs s.chain c.target c.batch c.maxBatch q hne hp
    obtain ⟨g1, g2, g3⟩ := feed_ok hs s.chain.fhs c.cont c.resps (q, s.store) hq hst
    simp only
    cases hv : c.verdict with
    | quit => exact ⟨g2, fun fid h => by simp at h⟩
    | err => exact ⟨g2, fun fid h => by simp at h⟩
    | nil =>
      simp only
      cases hf : (feed hs c.cont (q, s.store) c.resps).1.1.found with
      | none => exact ⟨g2, fun fid h => by simp at h⟩
      | some r =>
        refine ⟨g2, fun fid h => ?_⟩
        simp only [Result.ret.injEq] at h
        subst h
        obtain ⟨hb, hg⟩ := g1.2 r hf
        rw [g3] at hb
        simp only at hb
        rw [ht] at hb
        rw [← hb]; exact hg

theorem getCFilter_ok (hs : Hashing) (s : State) (c : Call) (hne : 1 ≤ s.chain.fhs.length)
    (hst : StoreOk hs s.chain.fhs s.store) :
    StoreOk hs s.chain.fhs (getCFilter hs s c).st.store ∧
    (∀ fid, (getCFilter hs s c).result = .ret fid → Good hs s.chain.fhs c.target fid) := by
  rcases getCFilter_cases hs s c with ⟨_, he⟩ | ⟨v, hv, he⟩ | ⟨_, fid, hl, he⟩ | ⟨_, _, he⟩
  · rw [he]; exact ⟨hst, fun fid h => by simp at h⟩
  · rw [he]
    refine ⟨⟨fun e hmem => hst.1 e (GetBlock.spec_get_items e hmem), hst.2⟩, fun fid h => ?_⟩
    simp only [Result.ret.injEq] at h
    subst h
    obtain ⟨e, hmem, hk, hvid⟩ := GetBlock.spec_get_val hv
    have := hst.1 e hmem
    rw [hk, hvid] at this
    exact this
  · rw [he]
    refine ⟨hst, fun f h => ?_⟩
    simp only [Result.ret.injEq] at h
    subst h
    exact hst.2 (c.target, fid) (lookup_mem hl)
  · rw [he]; exact afterMiss_ok hs s c hne hst

/-! ### the database layer with concurrent writers, cache fills -/

theorem netBranch_eq (hs : Hashing) (s : State) (c : Call) : netBranch hs s c = afterMiss hs s c := rfl

theorem mem_dbCommit : ∀ (ws db : List (Nat × Nat)) (p : Nat × Nat), p ∈ dbCommit db ws → p ∈ db ∨ p ∈ ws := by
  intro ws
  induction ws with
  | nil => intro db p h; exact Or.inl h
  | cons w ws ih =>
    intro db p h
    simp only [dbCommit] at h
    rcases ih _ p h with h1 | h1
    · rcases mem_dbPut h1 with h2 | h2
      · exact Or.inr (by rw [h2]; exact List.mem_cons_self)
      · exact Or.inl h2
    · exact Or.inr (List.mem_cons_of_mem _ h1)

/-- decoded inside the read transaction, the value is the snapshot's, whatever is committed afterwards -/
theorem dbFetch_inTx (g : Nat → Nat) (db ws : List (Nat × Nat)) (k : Nat) : dbFetch true g db ws k = lookup db k := by
  unfold dbFetch
  cases lookup db k <;> simp

theorem goodB_iff (hs : Hashing) (fhs : List Nat) (b f : Nat) : goodB hs fhs b f = true ↔ Good hs fhs b f := by
  simp [goodB, Good, and_assoc]

theorem getCFilterW_ok (g : Nat → Nat) (hs : Hashing) (s : State) (c : Call) (ws : List (Nat × Nat))
    (hne : 1 ≤ s.chain.fhs.length) (hst : StoreOk hs s.chain.fhs s.store)
    (hws : ∀ p ∈ ws, Good hs s.chain.fhs p.1 p.2) :
    StoreOk hs s.chain.fhs (getCFilterW true g hs s c ws).st.store ∧
    (∀ fid, (getCFilterW true g hs s c ws).result = .ret fid → Good hs s.chain.fhs c.target fid) ∧
    (getCFilterW true g hs s c ws).st.chain = s.chain := by
  unfold getCFilterW
  cases hreg : c.regular with
  | false => exact ⟨hst, fun fid h => by simp at h, rfl⟩
  | true =>
    simp only [Bool.true_eq_false, ↓reduceIte, dbFetch_inTx]
    have hitems := @GetBlock.spec_get_items s.store.cache c.target
    have hval := @GetBlock.spec_get_val s.store.cache c.target
    generalize s.store.cache.step (.get c.target) = p at hitems hval
    obtain ⟨c', o⟩ := p
    simp only at hitems hval
    have hst1 : StoreOk hs s.chain.fhs { s.store with cache := c', db := dbCommit s.store.db ws } :=
      ⟨fun e he => hst.1 e (hitems e he), fun q hq => by
        rcases mem_dbCommit ws s.store.db q hq with h1 | h1
        · exact hst.2 q h1
        · exact hws q h1⟩
    have hrest : StoreOk hs s.chain.fhs
          (match lookup s.store.db c.target with
            | some fid => (⟨{ s with store := { s.store with cache := c', db := dbCommit s.store.db ws } }, .ret fid, .db, [], none⟩ : Outcome)
            | none => netBranch hs { s with store := { s.store with cache := c', db := dbCommit s.store.db ws } } c).st.store ∧
        (∀ fid, (match lookup s.store.db c.target with
            | some fid => (⟨{ s with store := { s.store with cache := c', db := dbCommit s.store.db ws } }, .ret fid, .db, [], none⟩ : Outcome)
            | none => netBranch hs { s with store := { s.store with cache := c', db := dbCommit s.store.db ws } } c).result = .ret fid →
          Good hs s.chain.fhs c.target fid) ∧
        (match lookup s.store.db c.target with
            | some fid => (⟨{ s with store := { s.store with cache := c', db := dbCommit s.store.db ws } }, .ret fid, .db, [], none⟩ : Outcome)
            | none => netBranch hs { s with store := { s.store with cache := c', db := dbCommit s.store.db ws } } c).st.chain = s.chain := by
      cases hl : lookup s.store.db c.target with
      | some fid =>
        refine ⟨hst1, fun f h => ?_, rfl⟩
        simp only [Result.ret.injEq] at h
        subst h
        exact hst.2 (c.target, fid) (lookup_mem hl)
      | none =>
        simp only [netBranch_eq]
        have h := afterMiss_ok hs { s with store := { s.store with cache := c', db := dbCommit s.store.db ws } } c hne hst1
        exact ⟨h.1, h.2, afterMiss_chain hs _ c⟩
    cases o with
    | val v =>
      refine ⟨⟨fun e he => hst.1 e (hitems e he), hst.2⟩, fun fid h => ?_, rfl⟩
      simp only [Result.ret.injEq] at h
      subst h
      obtain ⟨e, hmem, hk, hvid⟩ := hval rfl
      have := hst.1 e hmem
      rw [hk, hvid] at this
      exact this
    | _ => exact hrest

theorem cachePut_ok (hs : Hashing) (fhs : List Nat) (st : Store) (k v z : Nat)
    (hst : ∀ e ∈ st.cache.items, Good hs fhs e.key e.vid)
    (hg : Good hs fhs k v) : ∀ e ∈ (cachePut st k v z).cache.items, Good hs fhs e.key e.vid := by
  intro e he
  rcases GetBlock.spec_put_items e he with h1 | h1
  · exact hst e h1
  · subst h1; exact hg

/-- whatever pairs are offered (stale, misaligned, anything): only matching ones enter the cache -/
theorem cacheFillChecked_ok (hs : Hashing) (fhs : List Nat) :
    ∀ (kvs : List (Nat × Nat × Nat)) (st : Store), (∀ e ∈ st.cache.items, Good hs fhs e.key e.vid) →
      ∀ e ∈ (cacheFillChecked hs fhs st kvs).cache.items, Good hs fhs e.key e.vid := by
  intro kvs
  induction kvs with
  | nil => intro st h; exact h
  | cons x rest ih =>
    intro st h
    obtain ⟨k, v, z⟩ := x
    simp only [cacheFillChecked]
    by_cases hg : goodB hs fhs k v = true
    · simp only [hg, ↓reduceIte]
      exact ih _ (cachePut_ok hs fhs st k v z h ((goodB_iff hs fhs k v).mp hg))
    · simp only [hg]
      exact ih _ h

theorem cacheFillChecked_db (hs : Hashing) (fhs : List Nat) :
    ∀ (kvs : List (Nat × Nat × Nat)) (st : Store), (cacheFillChecked hs fhs st kvs).db = st.db := by
  intro kvs
  induction kvs with
  | nil => intro st; rfl
  | cons x rest ih =>
    intro st
    obtain ⟨k, v, z⟩ := x
    simp only [cacheFillChecked]
    split
    · rw [ih]; rfl
    · rw [ih]

/-! ### histories -/

/-- the headers a `recommit` installs leave every stored filter's pair of
committed headers as it was -/
def stableB (s : State) (newfhs : List Nat) : Bool :=
  (s.store.cache.items.all (fun e => decide (e.key < newfhs.length) && newfhs.getD e.key 0 == s.chain.fhs.getD e.key 0 &&
      newfhs.getD (e.key - 1) 0 == s.chain.fhs.getD (e.key - 1) 0)) &&
  (s.store.db.all (fun p => decide (p.1 < newfhs.length) && newfhs.getD p.1 0 == s.chain.fhs.getD p.1 0 &&
      newfhs.getD (p.1 - 1) 0 == s.chain.fhs.getD (p.1 - 1) 0)) &&
  decide (1 ≤ newfhs.length)

/-- every `recommit` of the history is stable in the above sense -/
def opsStable (hs : Hashing) : State → List Op → Bool
  | _, [] => true
  | s, .recommit h nf :: os => stableB s (s.chain.fhs.take h ++ nf) && opsStable hs (step hs s (.recommit h nf)) os
  -- concurrent writers (the batch writer) persist filters that match the committed headers
  | s, .getW c ws :: os => ws.all (fun p => goodB hs s.chain.fhs p.1 p.2) && opsStable hs (step hs s (.getW c ws)) os
  | s, o :: os => opsStable hs (step hs s o) os

def Inv (hs : Hashing) (s : State) : Prop := 1 ≤ s.chain.fhs.length ∧ StoreOk hs s.chain.fhs s.store

theorem step_inv (hs : Hashing) (s : State) (o : Op) (h : Inv hs s)
    (hstab : ∀ hh nf, o = .recommit hh nf → stableB s (s.chain.fhs.take hh ++ nf) = true)
    (hw : ∀ c ws, o = .getW c ws → ∀ p ∈ ws, Good hs s.chain.fhs p.1 p.2) : Inv hs (step hs s o) := by
  cases o with
  | get c =>
    simp only [step]
    rw [Inv, getCFilter_chain]
    exact ⟨h.1, (getCFilter_ok hs s c h.1 h.2).1⟩
  | getW c ws =>
    simp only [step]
    obtain ⟨g1, _, g3⟩ := getCFilterW_ok id hs s c ws h.1 h.2 (hw c ws rfl)
    rw [Inv, g3]
    exact ⟨h.1, g1⟩
  | restart =>
    simp only [step]
    exact ⟨h.1, ⟨fun e he => by simp at he, h.2.2⟩⟩
  | recommit hh nf =>
    have hs' := hstab hh nf rfl
    unfold stableB at hs'
    simp only [Bool.and_eq_true, List.all_eq_true, decide_eq_true_eq, beq_iff_eq] at hs'
    obtain ⟨⟨hc, hd⟩, hlen⟩ := hs'
    simp only [step]
    refine ⟨hlen, ⟨fun e he => ?_, fun p hp => ?_⟩⟩
    · obtain ⟨⟨a, b⟩, c⟩ := hc e he
      obtain ⟨g1, g2, g3⟩ := h.2.1 e he
      exact ⟨g1, a, by rw [b, c]; exact g3⟩
    · obtain ⟨⟨a, b⟩, c⟩ := hd p hp
      obtain ⟨g1, g2, g3⟩ := h.2.2 p hp
      exact ⟨g1, a, by rw [b, c]; exact g3⟩

theorem run_inv (hs : Hashing) (ops : List Op) : ∀ (s : State), Inv hs s → opsStable hs s ops = true → Inv hs (run hs s ops) := by
  induction ops with
  | nil => intro s h _; exact h
  | cons o os ih =>
    intro s h hst
    simp only [run]
    cases o with
    | get c => exact ih _ (step_inv hs s _ h (fun _ _ hx => by cases hx) (fun _ _ hx => by cases hx)) (by simpa [opsStable] using hst)
    | restart => exact ih _ (step_inv hs s _ h (fun _ _ hx => by cases hx) (fun _ _ hx => by cases hx)) (by simpa [opsStable] using hst)
    | getW c ws =>
      simp only [opsStable, Bool.and_eq_true, List.all_eq_true] at hst
      exact ih _ (step_inv hs s _ h (fun _ _ hx => by cases hx)
        (fun a b hx p hp => by cases hx; exact (goodB_iff hs _ _ _).mp (hst.1 p hp))) hst.2
    | recommit hh nf =>
      simp only [opsStable, Bool.and_eq_true] at hst
      exact ih _ (step_inv hs s _ h (fun a b hx => by cases hx; exact hst.1) (fun _ _ hx => by cases hx)) hst.2

theorem init_inv (hs : Hashing) (cap tip : Nat) (fhs : List Nat) (persist : Bool) (h : 1 ≤ fhs.length) :
    Inv hs (init cap tip fhs persist) :=
  ⟨h, ⟨fun e he => by simp [init] at he, fun p hp => by simp [init] at hp⟩⟩

end Neutrino.GetCFilter
