import Neutrino.Lemmas.StoreReopen
namespace Neutrino.Store

/-- no I/O fault is armed (a crash may be) -/
def NoFault : Inj → Prop
  | .fault _ _ _ => False
  | _ => True

theorem fires_is_crash {inj : Inj} {s : Nat} (hnf : NoFault inj) (hf : inj.firesAt s = true) :
    ∃ t, inj = .crash s t := by
  cases inj with
  | none => simp [Inj.firesAt] at hf
  | fault k fs a => exact absurd hnf (by simp [NoFault])
  | crash cs t => simp [Inj.firesAt] at hf; exact ⟨t, by rw [hf]⟩

theorem fileWrite_crash (w : Which) (ids : List Nat) (c : Ctx) (t : Nat) (h : c.inj = .crash c.step t) :
    fileWrite w ids c = .crashed (c.d.setFile w ((c.d.file w).appendBytes (width w) ids
      (min t (ids.length * width w)))) := by
  unfold fileWrite; simp [h]

theorem dbUpdate_crash (g : Db → Db) (c : Ctx) (t : Nat) (h : c.inj = .crash c.step t) :
    dbUpdate g c = .crashed c.d := by
  unfold dbUpdate; simp [h]

theorem fileTruncate_crash (w : Which) (tg : Option FileSt) (c : Ctx) (t : Nat) (h : c.inj = .crash c.step t) :
    fileTruncate w tg c = .crashed c.d := by
  unfold fileTruncate; simp [h]

/-- What a possibly-crashing store call leaves behind: on a crash the files are
ahead of an index that represents the log before (`l`) or after (`l'`) the
call; otherwise it finished with the expected output on a state representing
`l'`, the injection still armed for later steps. -/
def Outcome (l l' : Log) (expect : Out) (inj : Inj) : R Out → Prop
  | .crashed d' => (∃ k t, inj = Inj.crash k t) ∧ ∃ xb xf, Ahead d' l xb xf ∨ Ahead d' l' xb xf
  | .ok o c' => o = expect ∧ Rep c'.d l' ∧ c'.inj = inj

theorem writeBlocks_outcome (c : Ctx) (l : Log) (ids : List Nat) (hrep : Rep c.d l)
    (hnf : NoFault c.inj) (hnd : ids.Nodup) (hfresh : ∀ x ∈ ids, x ∉ l.blocks) :
    Outcome l { l with blocks := l.blocks ++ ids } .ok c.inj (writeBlocks ids l.blocks.length c) := by
  have hw := width_pos .B
  unfold writeBlocks appendRaw
  by_cases hf0 : c.inj.firesAt c.step = true
  · -- crash inside the file write: some whole entries of the batch and junk
    obtain ⟨t, ht⟩ := fires_is_crash hnf hf0
    rw [fileWrite_crash _ _ _ t ht]
    simp only [R.bind, Outcome, Durable.file, Durable.setFile, hrep.bents]
    obtain ⟨k, j, hk⟩ := appendBytes_clean l.blocks ids (width .B) (min t (ids.length * width .B))
    rw [hk]
    refine ⟨⟨_, _, ht⟩, ids.take k, [], Or.inl ?_⟩
    exact { bents := rfl, fents := by simp [hrep.fents], bclean := rfl, fclean := by simp [hrep.fents],
            neB := hrep.neB, neF := hrep.neF,
            nodup := by
              rw [List.nodup_append]
              exact ⟨hrep.nodup, (List.take_sublist _ _).nodup hnd,
                     fun a ha b hb heq => hfresh b (List.mem_of_mem_take hb) (heq ▸ ha)⟩,
            idxPos := hrep.idxPos, idxOnly := hrep.idxOnly, btip := hrep.btip, ftip := hrep.ftip,
            fle := hrep.fle }
  · have hq0 : c.inj.firesAt c.step = false := by simpa using hf0
    rw [fileWrite_quiet _ _ _ hq0]
    simp only [R.bind, Durable.file, Durable.setFile, hrep.bents, appendAll_clean _ _ _ hw, Bool.not_true,
      Bool.false_eq_true, ↓reduceIte]
    by_cases he : ids.isEmpty = true
    · have : ids = [] := by simpa using he
      subst this
      simp only [List.isEmpty_nil, ↓reduceIte, Outcome, List.append_nil, true_and]
      refine ⟨?_, trivial⟩
      have : ({ bf := { ents := l.blocks }, ff := c.d.ff, db := c.d.db } : Durable) = c.d := by
        cases hd : c.d with
        | mk bf ff db => have := hrep.bents; simp [hd] at this; simp [this]
      rw [this]; exact hrep
    · simp only [he, Bool.false_eq_true, ↓reduceIte]
      have hne : ids ≠ [] := by intro hc; subst hc; simp at he
      by_cases hf1 : c.inj.firesAt (c.step + 1) = true
      · obtain ⟨t, ht⟩ := fires_is_crash hnf hf1
        rw [dbUpdate_crash _ _ t (by simpa using ht)]
        simp only [R.bind, Outcome]
        refine ⟨⟨_, _, ht⟩, ids, [], Or.inl ?_⟩
        exact { bents := rfl, fents := by simp [hrep.fents], bclean := rfl, fclean := by simp [hrep.fents],
                neB := hrep.neB, neF := hrep.neF,
                nodup := by
                  rw [List.nodup_append]
                  exact ⟨hrep.nodup, hnd, fun a ha b hb heq => hfresh b hb (heq ▸ ha)⟩,
                idxPos := hrep.idxPos, idxOnly := hrep.idxOnly, btip := hrep.btip, ftip := hrep.ftip,
                fle := hrep.fle }
      · have hq1 : c.inj.firesAt (c.step + 1) = false := by simpa using hf1
        rw [dbUpdate_quiet _ _ (by simpa using hq1)]
        simp only [R.bind, ↓reduceIte, Outcome, true_and]
        exact ⟨rep_append_blocks hrep hnd hfresh hne, trivial⟩


theorem writeFilters_outcome (c : Ctx) (l : Log) (fids : List Nat) (last : Nat) (hrep : Rep c.d l)
    (hnf : NoFault c.inj) (hroom : l.filters.length + fids.length ≤ l.blocks.length)
    (hlast : fids ≠ [] → l.blocks[l.filters.length - 1 + fids.length]? = some last) :
    Outcome l { l with filters := l.filters ++ fids } .ok c.inj (writeFilters fids last c) := by
  have hw := width_pos .F
  unfold writeFilters
  by_cases he : fids.isEmpty = true
  · have : fids = [] := by simpa using he
    subst this
    simp only [List.isEmpty_nil, ↓reduceIte, Outcome, List.append_nil, true_and]
    exact ⟨hrep, trivial⟩
  simp only [he, Bool.false_eq_true, ↓reduceIte]
  have hne : fids ≠ [] := by intro hc; subst hc; simp at he
  unfold appendRaw
  by_cases hf0 : c.inj.firesAt c.step = true
  · obtain ⟨t, ht⟩ := fires_is_crash hnf hf0
    rw [fileWrite_crash _ _ _ t ht]
    simp only [R.bind, Outcome, Durable.file, Durable.setFile, hrep.fents]
    obtain ⟨k, j, hk⟩ := appendBytes_clean l.filters fids (width .F) (min t (fids.length * width .F))
    rw [hk]
    refine ⟨⟨_, _, ht⟩, [], fids.take k, Or.inl ?_⟩
    exact { bents := by simp [hrep.bents], fents := rfl, bclean := by simp [hrep.bents], fclean := rfl,
            neB := hrep.neB, neF := hrep.neF, nodup := by simpa using hrep.nodup,
            idxPos := hrep.idxPos, idxOnly := hrep.idxOnly, btip := hrep.btip, ftip := hrep.ftip,
            fle := hrep.fle }
  · have hq0 : c.inj.firesAt c.step = false := by simpa using hf0
    rw [fileWrite_quiet _ _ _ hq0]
    simp only [R.bind, Durable.file, Durable.setFile, hrep.fents, appendAll_clean _ _ _ hw, Bool.not_true,
      Bool.false_eq_true, ↓reduceIte]
    by_cases hf1 : c.inj.firesAt (c.step + 1) = true
    · obtain ⟨t, ht⟩ := fires_is_crash hnf hf1
      rw [dbUpdate_crash _ _ t (by simpa using ht)]
      simp only [R.bind, Outcome]
      refine ⟨⟨_, _, ht⟩, [], fids, Or.inl ?_⟩
      exact { bents := by simp [hrep.bents], fents := rfl, bclean := by simp [hrep.bents], fclean := rfl,
              neB := hrep.neB, neF := hrep.neF, nodup := by simpa using hrep.nodup,
              idxPos := hrep.idxPos, idxOnly := hrep.idxOnly, btip := hrep.btip, ftip := hrep.ftip,
              fle := hrep.fle }
    · have hq1 : c.inj.firesAt (c.step + 1) = false := by simpa using hf1
      rw [dbUpdate_quiet _ _ (by simpa using hq1)]
      simp only [R.bind, ↓reduceIte, Outcome, true_and]
      exact ⟨rep_append_filters hrep hne hroom (hlast hne), trivial⟩


theorem drop_eq_cons {α} {l : List α} {i : Nat} {x : α} (h : l[i]? = some x) :
    l.drop i = x :: l.drop (i + 1) := by
  have hlt := (List.getElem?_eq_some_iff.mp h).1
  have hx := (List.getElem?_eq_some_iff.mp h).2
  rw [List.drop_eq_getElem_cons hlt, hx]

theorem rollbackBlocks_outcome (c : Ctx) (l : Log) (n : Nat) (prev : Nat) (hrep : Rep c.d l)
    (hnf : NoFault c.inj) (hn0 : n ≠ 0) (hn : n < l.blocks.length)
    (hf : l.filters.length ≤ l.blocks.length - n)
    (hprev : l.blocks[l.blocks.length - n - 1]? = some prev) :
    Outcome l { l with blocks := l.blocks.take (l.blocks.length - n) }
      (.okTip (l.blocks.length - 1 - n) prev) c.inj (rollbackBlocks n c) := by
  obtain ⟨tip, htip, hbt⟩ := rep_btipHeight hrep
  have hR := rep_drop_blocks hrep hn hf hprev
  unfold rollbackBlocks
  simp only [hn0, ↓reduceIte, hbt]
  have h1 : ¬ (n > l.blocks.length - 1) := by omega
  simp only [h1, ↓reduceIte]
  have hrr : readRange c.d.bf (l.blocks.length - 1 - n) (l.blocks.length - 1) =
      some (prev :: l.blocks.drop (l.blocks.length - n)) := by
    simp only [readRange, hrep.bents, Bool.false_eq_true, ↓reduceIte]
    have : l.blocks.length - 1 < l.blocks.length ∧ l.blocks.length - 1 - n ≤ l.blocks.length - 1 := by omega
    simp only [this, and_self, ↓reduceIte, Option.some.injEq]
    have e1 : l.blocks.length - 1 - n = l.blocks.length - n - 1 := by omega
    rw [e1, drop_eq_cons hprev]
    have e2 : l.blocks.length - n - 1 + 1 = l.blocks.length - n := by omega
    rw [e2]
    have e3 : l.blocks.length - 1 - (l.blocks.length - n - 1) + 1 = (l.blocks.drop (l.blocks.length - n)).length + 1 := by
      simp; omega
    rw [e3, List.take_succ_cons, List.take_length]
  simp only [hrr]
  by_cases hf0 : c.inj.firesAt c.step = true
  · obtain ⟨t, ht⟩ := fires_is_crash hnf hf0
    rw [dbUpdate_crash _ _ t ht]
    simp only [R.bind, Outcome]
    exact ⟨⟨_, _, ht⟩, [], [], Or.inl hrep.ahead⟩
  · have hq0 : c.inj.firesAt c.step = false := by simpa using hf0
    rw [dbUpdate_quiet _ _ hq0]
    simp only [R.bind, Bool.not_true, Bool.false_eq_true, ↓reduceIte, truncateHeaders, hn0]
    by_cases hf1 : c.inj.firesAt (c.step + 1) = true
    · obtain ⟨t, ht⟩ := fires_is_crash hnf hf1
      rw [fileTruncate_crash _ _ _ t (by simpa using ht)]
      simp only [R.bind, Outcome]
      refine ⟨⟨_, _, ht⟩, l.blocks.drop (l.blocks.length - n), [], Or.inr ?_⟩
      exact { bents := by simp [hrep.bents], fents := by simp [hrep.fents],
              bclean := by simp [hrep.bents], fclean := by simp [hrep.fents],
              neB := hR.neB, neF := hR.neF,
              nodup := by simp only [List.take_append_drop]; exact hrep.nodup,
              idxPos := hR.idxPos, idxOnly := hR.idxOnly, btip := hR.btip, ftip := hR.ftip, fle := hR.fle }
    · have hq1 : c.inj.firesAt (c.step + 1) = false := by simpa using hf1
      rw [fileTruncate_quiet _ _ _ (by simpa using hq1)]
      have htb : (({ ents := l.blocks } : FileSt).truncateBy (width .B) n) =
          some { ents := l.blocks.take (l.blocks.length - n) } := by
        simp only [FileSt.truncateBy, FileSt.size]
        have hw := width_pos .B
        have a1 : ¬ (n * width .B > l.blocks.length * width .B + 0) := by
          have : n * width .B ≤ l.blocks.length * width .B := Nat.mul_le_mul_right _ (by omega)
          omega
        have a2 : n ≤ l.blocks.length := by omega
        simp only [a1, a2, ↓reduceIte]
      simp only [Durable.file, hrep.bents, htb, R.bind, ↓reduceIte, Outcome, Durable.setFile, true_and]
      exact ⟨hR, trivial⟩


theorem rollbackFilter_outcome (c : Ctx) (l : Log) (nt fh : Nat) (hrep : Rep c.d l)
    (hnf : NoFault c.inj) (hlen : 1 < l.filters.length)
    (hnt : l.blocks[l.filters.length - 2]? = some nt)
    (hfh : l.filters[l.filters.length - 2]? = some fh) :
    Outcome l { l with filters := l.filters.take (l.filters.length - 1) }
      (.okTip (l.filters.length - 2) fh) c.inj (rollbackFilter nt c) := by
  obtain ⟨b, hft⟩ := rep_ftipHeight hrep
  have hR := rep_drop_filter hrep hlen hnt
  unfold rollbackFilter
  have h0 : ¬ (l.filters.length - 1 = 0) := by omega
  have hget : c.d.ff.get? (l.filters.length - 1 - 1) = some fh := by
    simp only [FileSt.get?, hrep.fents, Bool.false_eq_true, ↓reduceIte]
    have : l.filters.length - 1 - 1 = l.filters.length - 2 := by omega
    rw [this]; exact hfh
  simp only [hft, h0, ↓reduceIte, hget]
  by_cases hf0 : c.inj.firesAt c.step = true
  · obtain ⟨t, ht⟩ := fires_is_crash hnf hf0
    rw [dbUpdate_crash _ _ t ht]
    simp only [R.bind, Outcome]
    exact ⟨⟨_, _, ht⟩, [], [], Or.inl hrep.ahead⟩
  · have hq0 : c.inj.firesAt c.step = false := by simpa using hf0
    rw [dbUpdate_quiet _ _ hq0]
    simp only [R.bind, Bool.not_true, Bool.false_eq_true, ↓reduceIte, truncateHeaders, Nat.succ_ne_zero]
    by_cases hf1 : c.inj.firesAt (c.step + 1) = true
    · obtain ⟨t, ht⟩ := fires_is_crash hnf hf1
      rw [fileTruncate_crash _ _ _ t (by simpa using ht)]
      simp only [R.bind, Outcome]
      refine ⟨⟨_, _, ht⟩, [], l.filters.drop (l.filters.length - 1), Or.inr ?_⟩
      exact { bents := by simp [hrep.bents], fents := by simp [hrep.fents],
              bclean := by simp [hrep.bents], fclean := by simp [hrep.fents],
              neB := hR.neB, neF := hR.neF, nodup := by simpa using hrep.nodup,
              idxPos := hR.idxPos, idxOnly := hR.idxOnly, btip := hR.btip, ftip := hR.ftip, fle := hR.fle }
    · have hq1 : c.inj.firesAt (c.step + 1) = false := by simpa using hf1
      rw [fileTruncate_quiet _ _ _ (by simpa using hq1)]
      have htb : (({ ents := l.filters } : FileSt).truncateBy (width .F) 1) =
          some { ents := l.filters.take (l.filters.length - 1) } := by
        simp only [FileSt.truncateBy, FileSt.size]
        have hw := width_pos .F
        have a1 : ¬ (1 * width .F > l.filters.length * width .F + 0) := by
          have : 1 * width .F ≤ l.filters.length * width .F := Nat.mul_le_mul_right _ (by omega)
          omega
        have a2 : 1 ≤ l.filters.length := by omega
        simp only [a1, a2, ↓reduceIte]
      have e : l.filters.length - 1 - 1 = l.filters.length - 2 := by omega
      simp only [Durable.file, hrep.fents, htb, R.bind, ↓reduceIte, Outcome, Durable.setFile, true_and, e]
      exact ⟨hR, trivial⟩

end Neutrino.Store
