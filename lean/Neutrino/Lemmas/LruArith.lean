/-
The uint64 arithmetic of cache/lru never wraps: every operation listed by
`stepArith` / `evictArith` (Model/Lru.lean) has its exact result in [0, 2^64)
whenever the coherence invariant holds.  Lemmas for `C16_no_overflow`.
-/
import Neutrino.Lemmas.Lru
namespace Neutrino.Lru

theorem exact_sub {a b : Nat} (h : b ≤ a) (ha : a < two64) : (Arith.sub a b).exact = true := by
  simp [Arith.exact, h, ha]

theorem exact_add {a b : Nat} (h : a + b < two64) : (Arith.add a b).exact = true := by
  simp [Arith.exact, h]

/-- `evict(needed)` from a coherent state with `needed ≤ capacity` (checked by
`evict` itself and, before that, by `Put`): no operation wraps. -/
theorem evictArith_exact (cap : Nat) (bad : List Nat) (needed : Nat) (hn : needed ≤ cap) :
    ∀ (ll : List Entry) (size : Nat) (idx : List (Nat × Entry)), LInv cap ll size idx →
      ∀ x ∈ evictArith cap bad needed ll size, x.exact = true := by
  intro ll
  induction ll with
  | nil =>
    intro size idx h x hx
    have hc := h.capLt
    have hs := h.sizeLe
    simp only [evictArith, sub64] at hx
    by_cases hlt : cap - size < needed
    · simp only [hlt, ↓reduceIte, List.mem_cons, List.not_mem_nil, or_false] at hx
      rcases hx with rfl | rfl
      · exact exact_sub hs hc
      · exact exact_sub (Nat.le_of_lt hlt) (Nat.lt_of_le_of_lt hn hc)
    · simp only [hlt, ↓reduceIte, List.mem_cons, List.not_mem_nil, or_false] at hx
      subst hx
      exact exact_sub hs hc
  | cons b rest ih =>
    intro size idx h x hx
    have hc := h.capLt
    have hs := h.sizeLe
    simp only [evictArith] at hx
    by_cases hlt : sub64 cap size < needed
    · simp only [hlt, ↓reduceIte] at hx
      cases hsz : sizeOf? bad b with
      | none =>
        simp only [hsz, List.mem_cons, List.not_mem_nil, or_false] at hx
        subst hx
        exact exact_sub hs hc
      | some es =>
        have hes := (sizeOf?_some hsz).1
        subst hes
        simp only [hsz, List.mem_cons] at hx
        have hmem : (b.key, b) ∈ idx := (h.idxIff b.key b).mpr ⟨List.mem_cons_self, rfl⟩
        have hrm := (linv_remove h hmem).1
        simp only [List.erase_cons_head] at hrm
        rcases hx with rfl | rfl | hx
        · exact exact_sub hs hc
        · apply exact_sub
          · rw [h.sizeEq, total_cons]; omega
          · omega
        · exact ih (sub64 size b.size) (idxDelete idx b.key) hrm x hx
    · simp only [hlt, ↓reduceIte, List.mem_cons, List.not_mem_nil, or_false] at hx
      subst hx
      exact exact_sub hs hc

/-- the tail of `Put` (evict, then `c.size += vs` if that succeeded) -/
theorem evict_push_exact {cap : Nat} {bad : List Nat} {ll size idx} (sz : Nat) (hsz : sz ≤ cap)
    (h : LInv cap ll size idx) :
    ∀ x ∈ evictArith cap bad sz ll size ++
        (if (evictLoop cap bad sz ll size idx false).2.2.2.2 then
          [Arith.add (evictLoop cap bad sz ll size idx false).2.1 sz] else []),
      x.exact = true := by
  intro x hx
  rcases List.mem_append.mp hx with hx | hx
  · exact evictArith_exact cap bad sz hsz ll size idx h x hx
  · have hev := evict_inv cap bad sz ll size idx false h
    generalize evictLoop cap bad sz ll size idx false = r at hx hev
    obtain ⟨a, b, c, d, e⟩ := r
    cases e with
    | false => simp at hx
    | true =>
      simp only [↓reduceIte, List.mem_cons, List.not_mem_nil, or_false] at hx
      subst hx
      have h1 := hev.2.1 rfl
      have h2 := hev.1.sizeLe
      have h3 := hev.1.capLt
      simp only at h1 h2 h3
      exact exact_add (by omega)

/-- one call from a coherent state -/
theorem stepArith_exact (s : State) (h : Inv s) (o : Op) : ∀ x ∈ stepArith s o, x.exact = true := by
  have hl := h.linv
  have hu := h.unlocked
  cases o with
  | poison v => intro x hx; simp [stepArith] at hx
  | heal v => intro x hx; simp [stepArith] at hx
  | get k => intro x hx; simp [stepArith] at hx
  | del k =>
    intro x hx
    simp only [stepArith, hu, Bool.false_eq_true, ↓reduceIte] at hx
    cases hload : idxLoad s.idx k with
    | none => simp [hload] at hx
    | some el =>
      simp only [hload] at hx
      cases hsz : sizeOf? s.bad el with
      | none => simp [hsz] at hx
      | some vs =>
        have hes := (sizeOf?_some hsz).1
        subst hes
        simp only [hsz, List.mem_cons, List.not_mem_nil, or_false] at hx
        subst hx
        have hm := ((hl.idxIff k el).mp (idxLoad_some hload)).1
        have ht := total_erase hm
        have h1 := hl.sizeEq
        have h2 := hl.sizeLe
        have h3 := hl.capLt
        exact exact_sub (by omega) (by omega)
  | put k vid sz =>
    intro x hx
    simp only [stepArith, hu, Bool.false_eq_true, ↓reduceIte] at hx
    by_cases hb : vid ∈ s.bad
    · simp [hb] at hx
    simp only [hb, ↓reduceIte] at hx
    by_cases hc : sz > s.cap
    · simp [hc] at hx
    simp only [hc, ↓reduceIte] at hx
    have hle : sz ≤ s.cap := Nat.le_of_not_lt hc
    cases hload : idxLoad s.idx k with
    | none =>
      simp only [hload] at hx
      exact evict_push_exact sz hle hl x hx
    | some el =>
      simp only [hload] at hx
      cases hsz : sizeOf? s.bad el with
      | none => simp [hsz] at hx
      | some es =>
        have hes := (sizeOf?_some hsz).1
        subst hes
        simp only [hsz, List.cons_append, List.mem_cons] at hx
        have hrm := (linv_remove hl (idxLoad_some hload)).1
        rcases hx with rfl | hx
        · have hm := ((hl.idxIff k el).mp (idxLoad_some hload)).1
          have ht := total_erase hm
          have h1 := hl.sizeEq
          have h2 := hl.sizeLe
          have h3 := hl.capLt
          exact exact_sub (by omega) (by omega)
        · exact evict_push_exact sz hle hrm x hx

theorem runArith_exact (s : State) (h : Inv s) (ops : List Op) : ∀ x ∈ runArith s ops, x.exact = true := by
  induction ops generalizing s with
  | nil => intro x hx; cases hx
  | cons o os ih =>
    intro x hx
    simp only [runArith, List.mem_append] at hx
    rcases hx with hx | hx
    · exact stepArith_exact s h o x hx
    · exact ih _ (inv_step s o h) x hx

end Neutrino.Lru
