/- No-miss lemmas for the rescan model (core Lean only). -/
import Neutrino.Spec.Rescan
set_option linter.unusedSimpArgs false
namespace Neutrino.Rescan

/-- an input of a world transaction that spends an output created in the world carries that output's script -/
def WorldOk (W : World) : Prop :=
  ∀ b t i b' t' o, t ∈ W.txs b → i ∈ t.ins → t' ∈ W.txs b' → t'.id = i.op.tx → t'.outs[i.op.idx]? = some o → i.script = o

/-- a watched input carries the script of the output it names (what BIP158 puts into the filter for a spend of it) -/
def Truthful (W : World) (ins : List WIn) : Prop :=
  ∀ wi, wi ∈ ins → ∀ b t i, t ∈ W.txs b → i ∈ t.ins → i.op = wi.1 → i.script = wi.2

/-- the watch list covers every watched address script and every watched input's script -/
def WatchOk (w : Watch) : Prop := (∀ a, a ∈ w.addrs → a ∈ w.wl) ∧ (∀ wi, wi ∈ w.inputs → wi.2 ∈ w.wl)

def UpdTruthful (W : World) (evs : List Ev) : Prop := ∀ u, Ev.update u ∈ evs → Truthful W u.inputs

/-- caller's watch set is contained in the rescan's -/
def WatchLe (a b : Watch) : Prop := (∀ x, x ∈ a.addrs → x ∈ b.addrs) ∧ (∀ x, x ∈ a.inputs → x ∈ b.inputs)

/-! ### A. monotonicity of matching -/

theorem WatchLe.refl (w : Watch) : WatchLe w w := ⟨fun _ h => h, fun _ h => h⟩

theorem WatchLe.trans {a b c : Watch} (h1 : WatchLe a b) (h2 : WatchLe b c) : WatchLe a c :=
  ⟨fun x h => h2.1 x (h1.1 x h), fun x h => h2.2 x (h1.2 x h)⟩

theorem subList_iff (a b : List Nat) : subList a b = true ↔ ∀ x, x ∈ a → x ∈ b := by
  simp only [subList, List.all_eq_true, List.contains_iff_mem]

theorem spends_mono (i1 i2 : List WIn) (t : Tx) (h : ∀ x, x ∈ i1 → x ∈ i2)
    (hs : spends i1 t = true) : spends i2 t = true := by
  simp only [spends, List.any_eq_true] at hs ⊢
  obtain ⟨i, hi, wi, hwi, he⟩ := hs
  exact ⟨i, hi, wi, h wi hwi, he⟩

theorem paysOuts_addrs (txid : Nat) (os : List Script) (i : Nat) (w : Watch) :
    (paysOuts txid i os w).2.addrs = w.addrs := by
  induction os generalizing i w with
  | nil => rfl
  | cons o os ih =>
    simp only [paysOuts]
    by_cases h : w.addrs.contains o = true
    · simp only [h, ↓reduceIte, Bool.false_eq_true]; rw [ih]
    · simp only [h, ↓reduceIte, Bool.false_eq_true]; rw [ih]

theorem paysOuts_mono (txid : Nat) (os : List Script) (i : Nat) (w1 w2 : Watch) (h : WatchLe w1 w2) :
    ((paysOuts txid i os w1).1 = true → (paysOuts txid i os w2).1 = true) ∧
    WatchLe (paysOuts txid i os w1).2 (paysOuts txid i os w2).2 := by
  induction os generalizing i w1 w2 with
  | nil => exact ⟨fun h => h, h⟩
  | cons o os ih =>
    simp only [paysOuts]
    by_cases h1 : w1.addrs.contains o = true
    · have h2 : w2.addrs.contains o = true := by
        simp only [List.contains_iff_mem] at h1 ⊢; exact h.1 o h1
      simp only [h1, h2, ↓reduceIte, Bool.false_eq_true]
      refine ⟨fun _ => trivial, (ih (i + 1) _ _ ?_).2⟩
      refine ⟨h.1, ?_⟩
      intro x hx
      simp only [List.mem_append] at hx ⊢
      rcases hx with hx | hx
      · exact Or.inl (h.2 x hx)
      · exact Or.inr hx
    · by_cases h2 : w2.addrs.contains o = true
      · simp only [h1, h2, ↓reduceIte, Bool.false_eq_true]
        refine ⟨fun _ => trivial, (ih (i + 1) _ _ ?_).2⟩
        refine ⟨h.1, ?_⟩
        intro x hx
        simp only [List.mem_append]
        exact Or.inl (h.2 x hx)
      · simp only [h1, h2, ↓reduceIte, Bool.false_eq_true]
        exact ih (i + 1) _ _ h

theorem paysOuts_ext (txid : Nat) (os : List Script) (i : Nat) (w : Watch) :
    WatchLe w (paysOuts txid i os w).2 := by
  induction os generalizing i w with
  | nil => exact WatchLe.refl w
  | cons o os ih =>
    simp only [paysOuts]
    by_cases h1 : w.addrs.contains o = true
    · simp only [h1, ↓reduceIte, Bool.false_eq_true]
      refine WatchLe.trans ?_ (ih (i + 1) _)
      refine ⟨fun _ h => h, ?_⟩
      intro x hx
      simp only [List.mem_append]
      exact Or.inl hx
    · simp only [h1, ↓reduceIte, Bool.false_eq_true]
      exact ih (i + 1) w

theorem scanTxs_mono (ts : List Tx) (w1 w2 : Watch) (h : WatchLe w1 w2) :
    (∀ x, x ∈ (scanTxs ts w1).1 → x ∈ (scanTxs ts w2).1) ∧ WatchLe (scanTxs ts w1).2 (scanTxs ts w2).2 := by
  induction ts generalizing w1 w2 with
  | nil => exact ⟨fun _ h => h, h⟩
  | cons t ts ih =>
    simp only [scanTxs]
    have hp := paysOuts_mono t.id t.outs 0 w1 w2 h
    have hs := spends_mono w1.inputs w2.inputs t h.2
    have hr := ih (pays t w1).2 (pays t w2).2 hp.2
    refine ⟨?_, hr.2⟩
    intro x hx
    by_cases c1 : (spends w1.inputs t || (pays t w1).1) = true
    · have c2 : (spends w2.inputs t || (pays t w2).1) = true := by
        simp only [Bool.or_eq_true] at c1 ⊢
        rcases c1 with c1 | c1
        · exact Or.inl (hs c1)
        · exact Or.inr (hp.1 c1)
      simp only [c1, c2, ↓reduceIte, List.mem_cons] at hx ⊢
      rcases hx with hx | hx
      · exact Or.inl hx
      · exact Or.inr (hr.1 x hx)
    · simp only [c1] at hx
      have hx' := hr.1 x hx
      by_cases c2 : (spends w2.inputs t || (pays t w2).1) = true
      · simp only [c2, ↓reduceIte, List.mem_cons]; exact Or.inr hx'
      · simp only [c2]; exact hx'

theorem scanTxs_ext (ts : List Tx) (w : Watch) : WatchLe w (scanTxs ts w).2 := by
  induction ts generalizing w with
  | nil => exact WatchLe.refl w
  | cons t ts ih =>
    simp only [scanTxs]
    exact WatchLe.trans (paysOuts_ext t.id t.outs 0 w) (ih _)

/-! ### B. matching preserves the invariants -/

theorem paysOuts_ok (txid : Nat) (os : List Script) (i : Nat) (w : Watch) (h : WatchOk w) :
    WatchOk (paysOuts txid i os w).2 := by
  induction os generalizing i w with
  | nil => exact h
  | cons o os ih =>
    simp only [paysOuts]
    by_cases h1 : w.addrs.contains o = true
    · simp only [h1, ↓reduceIte, Bool.false_eq_true]
      apply ih
      refine ⟨?_, ?_⟩
      · intro a ha
        simp only [List.mem_append]
        exact Or.inl (h.1 a ha)
      · intro wi hwi
        simp only [List.mem_append, List.mem_singleton] at hwi ⊢
        rcases hwi with hwi | hwi
        · exact Or.inl (h.2 wi hwi)
        · subst hwi; exact Or.inr rfl
    · simp only [h1, ↓reduceIte, Bool.false_eq_true]
      exact ih (i + 1) w h

theorem scanTxs_ok (ts : List Tx) (w : Watch) (h : WatchOk w) : WatchOk (scanTxs ts w).2 := by
  induction ts generalizing w with
  | nil => exact h
  | cons t ts ih =>
    simp only [scanTxs]
    exact ih _ (paysOuts_ok t.id t.outs 0 w h)

theorem paysOuts_truthful (W : World) (hW : WorldOk W) (b : Nat) (t : Tx) (ht : t ∈ W.txs b)
    (os : List Script) (i : Nat) (w : Watch)
    (hos : ∀ k o, os[k]? = some o → t.outs[i + k]? = some o)
    (h : Truthful W w.inputs) : Truthful W (paysOuts t.id i os w).2.inputs := by
  induction os generalizing i w with
  | nil => exact h
  | cons o os ih =>
    have hos' : ∀ k o', os[k]? = some o' → t.outs[i + 1 + k]? = some o' := by
      intro k o' hk
      have := hos (k + 1) o' (by simpa using hk)
      rw [show i + 1 + k = i + (k + 1) by omega]; exact this
    simp only [paysOuts]
    by_cases h1 : w.addrs.contains o = true
    · simp only [h1, ↓reduceIte, Bool.false_eq_true]
      apply ih (i + 1) _ hos'
      intro wi hwi b' t' i' ht' hi' hop
      simp only [List.mem_append, List.mem_singleton] at hwi
      rcases hwi with hwi | hwi
      · exact h wi hwi b' t' i' ht' hi' hop
      · subst hwi
        simp only at hop ⊢
        have h0 : t.outs[i]? = some o := hos 0 o (by simp)
        exact hW b' t' i' b t o ht' hi' ht (by rw [hop]) (by rw [hop]; exact h0)
    · simp only [h1, ↓reduceIte, Bool.false_eq_true]
      exact ih (i + 1) w hos' h

theorem scanTxs_truthful (W : World) (hW : WorldOk W) (b : Nat) (ts : List Tx)
    (hts : ∀ t, t ∈ ts → t ∈ W.txs b) (w : Watch) (h : Truthful W w.inputs) :
    Truthful W (scanTxs ts w).2.inputs := by
  induction ts generalizing w with
  | nil => exact h
  | cons t ts ih =>
    simp only [scanTxs]
    apply ih (fun t' ht' => hts t' (List.mem_cons_of_mem _ ht'))
    exact paysOuts_truthful W hW b t (hts t List.mem_cons_self) t.outs 0 w
      (fun k o hk => by simpa using hk) h

/-! ### C. no real match: nothing owed -/

theorem mem_filterElems_out (W : World) (b : Nat) (t : Tx) (ht : t ∈ W.txs b) (o : Script)
    (ho : o ∈ t.outs) : o ∈ filterElems W b := by
  simp only [filterElems, List.mem_flatMap, List.mem_append]
  exact ⟨t, ht, Or.inl ho⟩

theorem mem_filterElems_in (W : World) (b : Nat) (t : Tx) (ht : t ∈ W.txs b) (i : TxIn)
    (hi : i ∈ t.ins) : i.script ∈ filterElems W b := by
  simp only [filterElems, List.mem_flatMap, List.mem_append, List.mem_map]
  exact ⟨t, ht, Or.inr ⟨i, hi, rfl⟩⟩

theorem trueMatch_false (W : World) (wl : List Script) (b : Nat) (h : trueMatch W wl b = false) :
    ∀ s, s ∈ wl → ¬ s ∈ filterElems W b := by
  intro s hs hm
  have : trueMatch W wl b = true := by
    simp only [trueMatch, List.any_eq_true, List.contains_iff_mem]
    exact ⟨s, hs, hm⟩
  rw [h] at this; cases this

theorem trueMatch_wl_empty (W : World) (wl : List Script) (b : Nat) (h : wl.isEmpty = true) :
    trueMatch W wl b = false := by
  cases wl with
  | nil => rfl
  | cons a l => cases h

theorem trueMatch_filter_empty (W : World) (wl : List Script) (b : Nat)
    (h : (filterElems W b).isEmpty = true) : trueMatch W wl b = false := by
  have he : filterElems W b = [] := by
    cases hf : filterElems W b with
    | nil => rfl
    | cons a l => rw [hf] at h; cases h
  simp only [trueMatch, he, List.contains_nil]
  induction wl with
  | nil => rfl
  | cons a l ih => simp only [List.any_cons, ih, Bool.or_self]

theorem paysOuts_none (txid : Nat) (os : List Script) (i : Nat) (w : Watch)
    (h : ∀ o, o ∈ os → ¬ o ∈ w.addrs) : paysOuts txid i os w = (false, w) := by
  induction os generalizing i with
  | nil => rfl
  | cons o os ih =>
    have h1 : w.addrs.contains o = false := by
      cases hc : w.addrs.contains o with
      | false => rfl
      | true => exact absurd (List.contains_iff_mem.mp hc) (h o List.mem_cons_self)
    simp only [paysOuts, h1, ↓reduceIte, Bool.false_eq_true]
    exact ih (i + 1) (fun o' ho' => h o' (List.mem_cons_of_mem _ ho'))

theorem spends_none (W : World) (b : Nat) (w : Watch) (hm : trueMatch W w.wl b = false)
    (hok : WatchOk w) (htr : Truthful W w.inputs) (t : Tx) (ht : t ∈ W.txs b) :
    spends w.inputs t = false := by
  cases hs : spends w.inputs t with
  | false => rfl
  | true =>
    simp only [spends, List.any_eq_true, beq_iff_eq] at hs
    obtain ⟨i, hi, wi, hwi, he⟩ := hs
    have h1 : i.script = wi.2 := htr wi hwi b t i ht hi he.symm
    have h2 : wi.2 ∈ w.wl := hok.2 wi hwi
    have h3 := mem_filterElems_in W b t ht i hi
    rw [h1] at h3
    exact absurd h3 (trueMatch_false W w.wl b hm wi.2 h2)

theorem scanTxs_nomatch (W : World) (b : Nat) (w : Watch) (hm : trueMatch W w.wl b = false)
    (hok : WatchOk w) (htr : Truthful W w.inputs) (ts : List Tx) (hts : ∀ t, t ∈ ts → t ∈ W.txs b) :
    scanTxs ts w = ([], w) := by
  induction ts with
  | nil => rfl
  | cons t ts ih =>
    have ht := hts t List.mem_cons_self
    have hs := spends_none W b w hm hok htr t ht
    have hp : pays t w = (false, w) := by
      apply paysOuts_none
      intro o ho ha
      exact trueMatch_false W w.wl b hm o (hok.1 o ha) (mem_filterElems_out W b t ht o ho)
    simp only [scanTxs, hs, hp, Bool.or_self, Bool.false_eq_true, ↓reduceIte]
    exact ih (fun t' ht' => hts t' (List.mem_cons_of_mem _ ht'))

/-! ### D. updates -/

theorem addWatch_ok (w : Watch) (u : Upd) (h : WatchOk w) : WatchOk (addWatch w u) := by
  refine ⟨?_, ?_⟩
  · intro a ha
    simp only [addWatch, List.mem_append, List.mem_map] at ha ⊢
    rcases ha with ha | ha
    · exact Or.inl (Or.inl (h.1 a ha))
    · exact Or.inl (Or.inr ha)
  · intro wi hwi
    simp only [addWatch, List.mem_append, List.mem_map] at hwi ⊢
    rcases hwi with hwi | hwi
    · exact Or.inl (Or.inl (h.2 wi hwi))
    · exact Or.inr ⟨wi, hwi, rfl⟩

theorem addWatch_le (a b : Watch) (u : Upd) (h : WatchLe a b) : WatchLe (addWatch a u) (addWatch b u) := by
  refine ⟨?_, ?_⟩
  · intro x hx
    simp only [addWatch, List.mem_append] at hx ⊢
    rcases hx with hx | hx
    · exact Or.inl (h.1 x hx)
    · exact Or.inr hx
  · intro x hx
    simp only [addWatch, List.mem_append] at hx ⊢
    rcases hx with hx | hx
    · exact Or.inl (h.2 x hx)
    · exact Or.inr hx

theorem addWatch_truthful (W : World) (w : Watch) (u : Upd) (h : Truthful W w.inputs)
    (hu : Truthful W u.inputs) : Truthful W (addWatch w u).inputs := by
  intro wi hwi
  simp only [addWatch, List.mem_append] at hwi
  rcases hwi with hwi | hwi
  · exact h wi hwi
  · exact hu wi hwi

/-! ### E. the caller against one event -/

/-- the caller's view after a list of observations -/
def callerRun (W : World) : Caller → List Obs → Caller
  | c, [] => c
  | c, o :: os => callerRun W (c.step W o).1 os

theorem noMissFrom_append (W : World) (a b : List Obs) (c : Caller) :
    noMissFrom W c (a ++ b) = (noMissFrom W c a && noMissFrom W (callerRun W c a) b) := by
  induction a generalizing c with
  | nil => simp only [List.nil_append, noMissFrom, callerRun, Bool.true_and]
  | cons x xs ih => simp only [List.cons_append, noMissFrom, callerRun, ih, Bool.and_assoc]

theorem callerRun_append (W : World) (a b : List Obs) (c : Caller) :
    callerRun W c (a ++ b) = callerRun W (callerRun W c a) b := by
  induction a generalizing c with
  | nil => rfl
  | cons x xs ih => simp only [List.cons_append, callerRun, ih]

/-- the simulation invariant between the rescan's (watch set, scanning flag) and the caller's view -/
def Inv (W : World) (w : Watch) (sc : Bool) (c : Caller) : Prop :=
  WatchLe c.w w ∧ (c.scanning = true → sc = true) ∧ WatchOk w ∧ Truthful W w.inputs

/-- a model transition from `(w, sc)` to `(w', sc')` emitting `os` misses nothing and keeps the invariant -/
def Good (W : World) (w : Watch) (sc : Bool) (w' : Watch) (sc' : Bool) (os : List Obs) : Prop :=
  ∀ c, Inv W w sc c → noMissFrom W c os = true ∧ Inv W w' sc' (callerRun W c os)

theorem Good.append {W : World} {w1 w2 w3 : Watch} {s1 s2 s3 : Bool} {a b : List Obs}
    (h1 : Good W w1 s1 w2 s2 a) (h2 : Good W w2 s2 w3 s3 b) : Good W w1 s1 w3 s3 (a ++ b) := by
  intro c hc
  obtain ⟨ha, hi⟩ := h1 c hc
  obtain ⟨hb, hi'⟩ := h2 _ hi
  rw [noMissFrom_append, callerRun_append, ha, hb]
  exact ⟨rfl, hi'⟩

theorem Good.weaken {W : World} {w w' : Watch} {s0 s s' : Bool} {a : List Obs}
    (hs : s0 = true → s = true) (h : Good W w s w' s' a) : Good W w s0 w' s' a := by
  intro c hc
  exact h c ⟨hc.1, fun x => hs (hc.2.1 x), hc.2.2⟩

def quiet : Cb → Bool
  | .conn _ _ _ => false
  | _ => true

theorem callerRun_quiet (W : World) (cbs : List Cb) (c : Caller) (h : ∀ x, x ∈ cbs → quiet x = true) :
    noMissFrom W c (cbs.map Obs.cb) = true ∧ (callerRun W c (cbs.map Obs.cb)).w = c.w ∧
    (callerRun W c (cbs.map Obs.cb)).scanning = c.scanning := by
  induction cbs generalizing c with
  | nil => exact ⟨rfl, rfl, rfl⟩
  | cons x xs ih =>
    have hx := h x List.mem_cons_self
    have hxs := fun y hy => h y (List.mem_cons_of_mem _ hy)
    cases x with
    | conn a b c => cases hx
    | disc a b =>
      simp only [List.map_cons, noMissFrom, callerRun, Caller.step, Bool.true_and]
      exact ih _ hxs
    | exit =>
      simp only [List.map_cons, noMissFrom, callerRun, Caller.step, Bool.true_and]
      exact ih _ hxs

theorem good_quiet (W : World) (w : Watch) (sc sc' : Bool) (cbs : List Cb)
    (h : ∀ x, x ∈ cbs → quiet x = true) (hs : sc = true → sc' = true) :
    Good W w sc w sc' (cbs.map Obs.cb) := by
  intro c hc
  obtain ⟨h1, h2, h3⟩ := callerRun_quiet W cbs c h
  refine ⟨h1, ?_⟩
  refine ⟨?_, ?_, hc.2.2⟩
  · rw [h2]; exact hc.1
  · rw [h3]; exact fun x => hs (hc.2.1 x)

theorem good_nil (W : World) (w : Watch) (sc sc' : Bool) (hs : sc = true → sc' = true) :
    Good W w sc w sc' [] :=
  good_quiet W w sc sc' [] (fun _ h => nomatch h) hs

theorem good_upd (W : World) (w : Watch) (sc : Bool) (u : Upd) (hu : Truthful W u.inputs) :
    Good W w sc (addWatch w u) sc [Obs.upd u] := by
  intro c hc
  simp only [noMissFrom, callerRun, Caller.step, Bool.and_self, true_and]
  exact ⟨addWatch_le _ _ u hc.1, hc.2.1, addWatch_ok w u hc.2.2.1, addWatch_truthful W w u hc.2.2.2 hu⟩

theorem good_conn_scan (W : World) (hW : WorldOk W) (w : Watch) (sc sc' : Bool) (h b : Nat)
    (hs : (sc || W.late b) = true → sc' = true) :
    Good W w sc (scanTxs (W.txs b) w).2 sc' [Obs.cb (.conn h b (scanTxs (W.txs b) w).1)] := by
  intro c hc
  obtain ⟨hle, hsc, hok, htr⟩ := hc
  have hok' := scanTxs_ok (W.txs b) w hok
  have htr' := scanTxs_truthful W hW b (W.txs b) (fun _ h => h) w htr
  simp only [noMissFrom, callerRun, Caller.step, Bool.and_true]
  by_cases hc : (c.scanning || W.late b) = true
  · simp only [hc, ↓reduceIte, owed]
    have hm := scanTxs_mono (W.txs b) c.w w hle
    refine ⟨(subList_iff _ _).mpr hm.1, hm.2, ?_, hok', htr'⟩
    intro _
    apply hs
    simp only [Bool.or_eq_true] at hc ⊢
    rcases hc with hc | hc
    · exact Or.inl (hsc hc)
    · exact Or.inr hc
  · simp only [hc, ↓reduceIte, Bool.false_eq_true]
    refine ⟨rfl, WatchLe.trans hle (scanTxs_ext _ _), ?_, hok', htr'⟩
    intro h'
    have h'' : false = true := h'
    cases h''

theorem good_conn_nomatch (W : World) (hW : WorldOk W) (w : Watch) (sc sc' : Bool) (h b : Nat)
    (hs : (sc || W.late b) = true → sc' = true) (hm : trueMatch W w.wl b = false) :
    Good W w sc w sc' [Obs.cb (.conn h b [])] := by
  intro c hc
  have hn := scanTxs_nomatch W b w hm hc.2.2.1 hc.2.2.2 (W.txs b) (fun _ h => h)
  have hg := good_conn_scan W hW w sc sc' h b hs c hc
  rw [hn] at hg
  exact hg

theorem good_conn_noscan (W : World) (w : Watch) (sc sc' : Bool) (h b : Nat) (txs : List Nat)
    (h0 : sc = false) (hl : W.late b = false) :
    Good W w sc w sc' [Obs.cb (.conn h b txs)] := by
  intro c hc
  obtain ⟨hle, hsc, hok, htr⟩ := hc
  have hcs : c.scanning = false := by
    cases hx : c.scanning with
    | false => rfl
    | true => have := hsc hx; rw [h0] at this; cases this
  simp only [noMissFrom, callerRun, Caller.step, hcs, hl, Bool.or_self, Bool.false_eq_true, ↓reduceIte,
    Bool.and_true]
  refine ⟨rfl, hle, ?_, hok, htr⟩
  intro h'; cases h'

/-! ### the model's transitions -/

/-- `Good` between two model states -/
def GoodSt (W : World) (s s' : St) (cbs : List Cb) : Prop :=
  Good W s.w s.scanning s'.w s'.scanning (cbs.map Obs.cb)

theorem GoodSt.append {W : World} {s1 s2 s3 : St} {a b : List Cb}
    (h1 : GoodSt W s1 s2 a) (h2 : GoodSt W s2 s3 b) : GoodSt W s1 s3 (a ++ b) := by
  unfold GoodSt at *
  rw [List.map_append]
  exact Good.append h1 h2

/-- what `handleConnected` does to the watch set / scanning flag, and what it emits -/
theorem handleConnected_cases' (W : World) (s : St) (b : Nat) (r : St × List Cb × HR)
    (hr : handleConnected W s b = r) :
    (r.2.1 = [] ∧ r.1.w = s.w ∧ (s.scanning = true → r.1.scanning = true)) ∨
    (∃ h, r.2.1 = [Cb.conn h b []] ∧ r.1.w = s.w ∧ r.1.scanning = (s.scanning || W.late b) ∧
      ((s.scanning || W.late b) = false ∨ trueMatch W s.w.wl b = false)) ∨
    (∃ h, r.2.1 = [Cb.conn h b (scanTxs (W.txs b) s.w).1] ∧ r.1.w = (scanTxs (W.txs b) s.w).2 ∧
      r.1.scanning = (s.scanning || W.late b)) := by
  unfold handleConnected at hr
  by_cases h1 : (W.prev b != s.cur) = true
  · simp only [h1, ↓reduceIte] at hr
    subst hr
    exact Or.inl ⟨rfl, rfl, fun x => x⟩
  · by_cases h2 : s.curH + 1 > best s
    · simp only [h1, h2, ↓reduceIte, Bool.false_eq_true] at hr
      subst hr
      exact Or.inl ⟨rfl, rfl, fun x => x⟩
    · by_cases h3 : (!(s.scanning || W.late b) || s.w.wl.isEmpty) = true
      · simp only [h1, h2, h3, ↓reduceIte, Bool.false_eq_true] at hr
        subst hr
        refine Or.inr (Or.inl ⟨_, rfl, rfl, rfl, ?_⟩)
        simp only [Bool.or_eq_true, Bool.not_eq_true'] at h3
        rcases h3 with h3 | h3
        · exact Or.inl h3
        · exact Or.inr (trueMatch_wl_empty W _ b h3)
      · cases hf : pop s.fS with
        | mk ff fS =>
          cases ff with
          | true =>
            simp only [h1, h2, h3, hf, ↓reduceIte, Bool.false_eq_true] at hr
            subst hr
            refine Or.inl ⟨rfl, rfl, ?_⟩
            intro hs
            show (s.scanning || W.late b) = true
            simp only [hs, Bool.true_or]
          | false =>
            cases hfp : pop s.fpS with
            | mk fp fpS =>
              by_cases h4 : (trueMatch W s.w.wl b || fp) = true
              · cases hb : pop s.bS with
                | mk bf bS =>
                  cases bf with
                  | true =>
                    simp only [h1, h2, h3, hf, hfp, h4, hb, ↓reduceIte, Bool.false_eq_true] at hr
                    subst hr
                    refine Or.inl ⟨rfl, rfl, ?_⟩
                    intro hs
                    show (s.scanning || W.late b) = true
                    simp only [hs, Bool.true_or]
                  | false =>
                    simp only [h1, h2, h3, hf, hfp, h4, hb, ↓reduceIte, Bool.false_eq_true] at hr
                    subst hr
                    exact Or.inr (Or.inr ⟨_, rfl, rfl, rfl⟩)
              · simp only [h1, h2, h3, hf, hfp, h4, ↓reduceIte, Bool.false_eq_true] at hr
                subst hr
                refine Or.inr (Or.inl ⟨_, rfl, rfl, rfl, Or.inr ?_⟩)
                simp only [Bool.or_eq_true, not_or, Bool.not_eq_true] at h4
                exact h4.1

theorem handleConnected_cases (W : World) (s : St) (b : Nat) :
    let r := handleConnected W s b
    (r.2.1 = [] ∧ r.1.w = s.w ∧ (s.scanning = true → r.1.scanning = true)) ∨
    (∃ h, r.2.1 = [Cb.conn h b []] ∧ r.1.w = s.w ∧ r.1.scanning = (s.scanning || W.late b) ∧
      ((s.scanning || W.late b) = false ∨ trueMatch W s.w.wl b = false)) ∨
    (∃ h, r.2.1 = [Cb.conn h b (scanTxs (W.txs b) s.w).1] ∧ r.1.w = (scanTxs (W.txs b) s.w).2 ∧
      r.1.scanning = (s.scanning || W.late b)) :=
  handleConnected_cases' W s b _ rfl

theorem handleConnected_good (W : World) (hW : WorldOk W) (s : St) (b : Nat) :
    GoodSt W s (handleConnected W s b).1 (handleConnected W s b).2.1 := by
  have hc := handleConnected_cases W s b
  simp only at hc
  unfold GoodSt
  rcases hc with ⟨h1, h2, h3⟩ | ⟨h, h1, h2, h3, h4⟩ | ⟨h, h1, h2, h3⟩
  · rw [h1, h2]; exact good_nil W _ _ _ h3
  · rw [h1, h2, h3]
    rcases h4 with h4 | h4
    · simp only [Bool.or_eq_false_iff] at h4
      exact good_conn_noscan W _ _ _ _ _ _ h4.1 h4.2
    · exact good_conn_nomatch W hW _ _ _ _ _ (fun x => x) h4
  · rw [h1, h2, h3]
    exact good_conn_scan W hW _ _ _ _ _ (fun x => x)

theorem retryLoop_good (W : World) (hW : WorldOk W) (n : Nat) (s : St) :
    GoodSt W s (retryLoop W n s).1 (retryLoop W n s).2 := by
  induction n generalizing s with
  | zero => exact good_nil W _ _ _ (fun x => x)
  | succ n ih =>
    cases hq : s.queue with
    | nil => simp only [retryLoop, hq]; exact good_nil W _ _ _ (fun x => x)
    | cons b rest =>
      have hg := handleConnected_good W hW s b
      simp only [retryLoop, hq]
      generalize handleConnected W s b = r at hg
      obtain ⟨s', cbs, hr⟩ := r
      cases hr with
      | ok => exact GoodSt.append hg (ih { s' with queue := rest })
      | retry => exact hg
      | err => exact hg

theorem rewindLoop_spec (W : World) (r : Nat) (q : Bool) (n : Nat) (s : St) (rw : Bool) :
    (rewindLoop W r q n s rw).1.w = s.w ∧ (rewindLoop W r q n s rw).1.scanning = s.scanning ∧
    ∀ x, x ∈ (rewindLoop W r q n s rw).2.1 → quiet x = true := by
  induction n generalizing s rw with
  | zero => exact ⟨rfl, rfl, fun _ h => nomatch h⟩
  | succ n ih =>
    have hq : ∀ x, x ∈ (if q = true then [] else [Cb.disc s.curH s.cur]) → quiet x = true := by
      intro x hx
      cases q with
      | true => exact nomatch hx
      | false =>
        simp only [Bool.false_eq_true, ↓reduceIte, List.mem_singleton] at hx
        subst hx; rfl
    generalize hx : rewindLoop W r q (n + 1) s rw = x
    simp only [rewindLoop] at hx
    by_cases h1 : s.curH > r
    · by_cases h2 : (!s.chain.contains (W.prev s.cur)) = true
      · simp only [h1, h2, ↓reduceIte] at hx
        subst hx
        exact ⟨rfl, rfl, hq⟩
      · simp only [h1, h2, ↓reduceIte, Bool.false_eq_true] at hx
        subst hx
        obtain ⟨i1, i2, i3⟩ := ih { s with cur := W.prev s.cur, curH := W.height (W.prev s.cur) } true
        refine ⟨i1, i2, ?_⟩
        intro x hx
        have hx' : x ∈ (if q = true then [] else [Cb.disc s.curH s.cur]) ++
            (rewindLoop W r q n { s with cur := W.prev s.cur, curH := W.height (W.prev s.cur) } true).2.1 := hx
        simp only [List.mem_append] at hx'
        rcases hx' with hx' | hx'
        · exact hq x hx'
        · exact i3 x hx'
    · simp only [h1, ↓reduceIte] at hx
      subst hx
      exact ⟨rfl, rfl, fun _ h => nomatch h⟩

theorem applyUpdate_spec (W : World) (s : St) (u : Upd) :
    (applyUpdate W s u).1.w = addWatch s.w u ∧ (applyUpdate W s u).1.scanning = s.scanning ∧
    ∀ x, x ∈ (applyUpdate W s u).2.1 → quiet x = true := by
  generalize hx : applyUpdate W s u = x
  unfold applyUpdate at hx
  by_cases h : (u.rewind == 0) = true
  · simp only [h, ↓reduceIte] at hx
    subst hx
    exact ⟨rfl, rfl, fun _ h => nomatch h⟩
  · simp only [h, ↓reduceIte, Bool.false_eq_true] at hx
    subst hx
    exact rewindLoop_spec W u.rewind u.quiet s.curH { s with w := addWatch s.w u } false

/-- what `notifyBlock` does to the watch set / scanning flag, and what it emits -/
theorem notifyBlock_cases' (W : World) (s : St) (r : St × List Cb) (hr : notifyBlock W s = r) :
    (r.2 = [Cb.exit] ∧ r.1.w = s.w ∧ r.1.scanning = s.scanning) ∨
    (r.2 = [Cb.conn s.curH s.cur []] ∧ r.1.w = s.w ∧ r.1.scanning = s.scanning ∧
      (s.scanning = false ∨ trueMatch W s.w.wl s.cur = false)) ∨
    (r.2 = [Cb.conn s.curH s.cur (scanTxs (W.txs s.cur) s.w).1] ∧ r.1.w = (scanTxs (W.txs s.cur) s.w).2 ∧
      r.1.scanning = s.scanning) := by
  unfold notifyBlock at hr
  by_cases h1 : (!s.w.wl.isEmpty && s.scanning) = true
  · cases hf : pop s.fS with
    | mk ff fS =>
      cases ff with
      | true =>
        simp only [h1, hf, ↓reduceIte] at hr
        subst hr
        exact Or.inl ⟨rfl, rfl, rfl⟩
      | false =>
        cases hfp : pop s.fpS with
        | mk fp fpS =>
          by_cases h2 : (!(filterElems W s.cur).isEmpty && (trueMatch W s.w.wl s.cur || fp)) = true
          · cases hb : pop s.bS with
            | mk bf bS =>
              cases bf with
              | true =>
                simp only [h1, hf, hfp, h2, hb, ↓reduceIte, Bool.false_eq_true] at hr
                subst hr
                exact Or.inl ⟨rfl, rfl, rfl⟩
              | false =>
                simp only [h1, hf, hfp, h2, hb, ↓reduceIte, Bool.false_eq_true] at hr
                subst hr
                exact Or.inr (Or.inr ⟨rfl, rfl, rfl⟩)
          · simp only [h1, hf, hfp, h2, ↓reduceIte, Bool.false_eq_true] at hr
            subst hr
            refine Or.inr (Or.inl ⟨rfl, rfl, rfl, Or.inr ?_⟩)
            cases he : (filterElems W s.cur).isEmpty with
            | true => exact trueMatch_filter_empty W _ _ he
            | false =>
              simp only [he, Bool.not_false, Bool.true_and, Bool.or_eq_true, not_or, Bool.not_eq_true] at h2
              exact h2.1
  · simp only [h1, ↓reduceIte, Bool.false_eq_true] at hr
    subst hr
    refine Or.inr (Or.inl ⟨rfl, rfl, rfl, ?_⟩)
    cases he : s.w.wl.isEmpty with
    | true => exact Or.inr (trueMatch_wl_empty W _ _ he)
    | false =>
      simp only [he, Bool.not_false, Bool.true_and, Bool.not_eq_true] at h1
      exact Or.inl h1

theorem notifyBlock_cases (W : World) (s : St) :
    let r := notifyBlock W s
    (r.2 = [Cb.exit] ∧ r.1.w = s.w ∧ r.1.scanning = s.scanning) ∨
    (r.2 = [Cb.conn s.curH s.cur []] ∧ r.1.w = s.w ∧ r.1.scanning = s.scanning ∧
      (s.scanning = false ∨ trueMatch W s.w.wl s.cur = false)) ∨
    (r.2 = [Cb.conn s.curH s.cur (scanTxs (W.txs s.cur) s.w).1] ∧ r.1.w = (scanTxs (W.txs s.cur) s.w).2 ∧
      r.1.scanning = s.scanning) :=
  notifyBlock_cases' W s _ rfl

theorem notifyBlock_good (W : World) (hW : WorldOk W) (s : St) (hl : W.late s.cur = true → s.scanning = true) :
    GoodSt W s (notifyBlock W s).1 (notifyBlock W s).2 := by
  have hc := notifyBlock_cases W s
  simp only at hc
  unfold GoodSt
  have hs : (s.scanning || W.late s.cur) = true → s.scanning = true := by
    intro h
    simp only [Bool.or_eq_true] at h
    rcases h with h | h
    · exact h
    · exact hl h
  rcases hc with ⟨h1, h2, h3⟩ | ⟨h1, h2, h3, h4⟩ | ⟨h1, h2, h3⟩
  · rw [h1, h2, h3]
    exact good_quiet W _ _ _ [Cb.exit] (fun x hx => by simp only [List.mem_singleton] at hx; subst hx; rfl)
      (fun x => x)
  · rw [h1, h2, h3]
    rcases h4 with h4 | h4
    · have hl' : W.late s.cur = false := by
        cases hx : W.late s.cur with
        | false => rfl
        | true => have := hl hx; rw [h4] at this; cases this
      exact good_conn_noscan W _ _ _ _ _ _ h4 hl'
    · exact good_conn_nomatch W hW _ _ _ _ _ hs h4
  · rw [h1, h2, h3]
    exact good_conn_scan W hW _ _ _ _ _ hs

theorem catchUp_good (W : World) (hW : WorldOk W) (s : St) :
    GoodSt W s (catchUp W s).1 (catchUp W s).2 := by
  unfold catchUp
  by_cases h1 : s.curH + 1 > best s
  · by_cases h2 : (s.curH != 0 && decide (s.curH > best s)) = true
    · simp only [h1, h2, ↓reduceIte]
      exact good_quiet W _ _ _ [Cb.exit] (fun x hx => by simp only [List.mem_singleton] at hx; subst hx; rfl)
        (fun x => x)
    · simp only [h1, h2, ↓reduceIte, Bool.false_eq_true]
      exact good_nil W _ _ _ (fun x => x)
  · simp only [h1, ↓reduceIte]
    cases hc : s.chain[s.curH + 1]? with
    | none =>
      simp only
      exact good_quiet W _ _ _ [Cb.exit] (fun x hx => by simp only [List.mem_singleton] at hx; subst hx; rfl)
        (fun x => x)
    | some b =>
      simp only
      have hn := notifyBlock_good W hW
        { s with cur := b, curH := s.curH + 1, scanning := s.scanning || W.late b }
        (by intro h; simp only [h, Bool.or_true])
      unfold GoodSt at hn ⊢
      exact Good.weaken (fun h => by simp only [h, Bool.true_or]) hn

/-! ### the machine -/

theorem GoodSt.refl' (W : World) (s s' : St) (hw : s'.w = s.w) (hs : s'.scanning = s.scanning) :
    GoodSt W s s' [] := by
  unfold GoodSt
  rw [hw, hs]
  exact good_nil W _ _ _ (fun x => x)

theorem step_connected_good (W : World) (hW : WorldOk W) (s : St) (b : Nat) :
    GoodSt W s (step W s (.connected b)).1 (step W s (.connected b)).2 := by
  generalize hx : step W s (.connected b) = x
  simp only [step] at hx
  by_cases h1 : (s.dead || !s.current) = true
  · simp only [h1, ↓reduceIte] at hx
    subst hx
    exact GoodSt.refl' W _ _ rfl rfl
  · by_cases h2 : (!s.queue.isEmpty) = true
    · simp only [h1, h2, ↓reduceIte, Bool.false_eq_true] at hx
      subst hx
      exact GoodSt.refl' W _ _ rfl rfl
    · simp only [h1, h2, ↓reduceIte, Bool.false_eq_true] at hx
      have hg := handleConnected_good W hW s b
      generalize handleConnected W s b = r at hg hx
      obtain ⟨s', cbs, hr⟩ := r
      cases hr <;> (simp only at hx; subst hx; exact hg)

theorem step_disconnected_good (W : World) (s : St) (b tip : Nat) :
    GoodSt W s (step W s (.disconnected b tip)).1 (step W s (.disconnected b tip)).2 := by
  generalize hx : step W s (.disconnected b tip) = x
  simp only [step] at hx
  by_cases h1 : (s.dead || !s.current) = true
  · simp only [h1, ↓reduceIte] at hx
    subst hx
    exact GoodSt.refl' W _ _ rfl rfl
  · by_cases h2 : (b != s.cur) = true
    · simp only [h1, h2, ↓reduceIte, Bool.false_eq_true] at hx
      subst hx
      exact GoodSt.refl' W _ _ rfl rfl
    · simp only [h1, h2, ↓reduceIte, Bool.false_eq_true] at hx
      subst hx
      exact good_quiet W _ _ _ [Cb.disc s.curH s.cur]
        (fun x hx => by simp only [List.mem_singleton] at hx; subst hx; rfl) (fun x => x)

theorem step_tick_good (W : World) (hW : WorldOk W) (s : St) :
    GoodSt W s (step W s .tick).1 (step W s .tick).2 := by
  generalize hx : step W s .tick = x
  simp only [step] at hx
  by_cases h1 : (s.dead || !s.current || !s.timer) = true
  · simp only [h1, ↓reduceIte] at hx
    subst hx
    exact GoodSt.refl' W _ _ rfl rfl
  · simp only [h1, ↓reduceIte, Bool.false_eq_true] at hx
    subst hx
    exact retryLoop_good W hW s.queue.length { s with timer := false }

theorem step_step_good (W : World) (hW : WorldOk W) (s : St) :
    GoodSt W s (step W s .step).1 (step W s .step).2 := by
  generalize hx : step W s .step = x
  simp only [step] at hx
  by_cases h1 : (s.dead || s.current) = true
  · simp only [h1, ↓reduceIte] at hx
    subst hx
    exact GoodSt.refl' W _ _ rfl rfl
  · simp only [h1, ↓reduceIte, Bool.false_eq_true] at hx
    subst hx
    exact catchUp_good W hW s

theorem step_update_good (W : World) (s : St) (u : Upd) (hu : Truthful W u.inputs) :
    Good W s.w s.scanning (step W s (.update u)).1.w (step W s (.update u)).1.scanning
      (obsOf s (.update u) (step W s (.update u)).2) := by
  generalize hx : step W s (.update u) = x
  simp only [step] at hx
  simp only [obsOf]
  cases hd : s.dead with
  | true =>
    simp only [hd, ↓reduceIte] at hx
    subst hx
    simp only [↓reduceIte, List.map_nil, List.append_nil]
    exact good_nil W _ _ _ (fun x => x)
  | false =>
    simp only [hd, ↓reduceIte, Bool.false_eq_true] at hx ⊢
    have ha := applyUpdate_spec W s u
    generalize applyUpdate W s u = r at ha hx
    obtain ⟨s', cbs, rw, fl⟩ := r
    obtain ⟨a1, a2, a3⟩ := ha
    simp only at a1 a2 a3 hx
    have hq : Good W (addWatch s.w u) s.scanning s'.w s'.scanning (cbs.map Obs.cb) := by
      rw [a1, a2]
      exact good_quiet W _ _ _ cbs a3 (fun x => x)
    have hupd := good_upd W s.w s.scanning u hu
    by_cases h1 : fl = true
    · simp only [h1, ↓reduceIte] at hx
      subst hx
      simp only [List.map_append, List.map_cons, List.map_nil]
      refine Good.append hupd (Good.append hq ?_)
      exact good_quiet W _ _ _ [Cb.exit]
        (fun x hx => by simp only [List.mem_singleton] at hx; subst hx; rfl) (fun x => x)
    · by_cases h2 : (s.current && rw) = true
      · simp only [h1, h2, ↓reduceIte, Bool.false_eq_true] at hx
        subst hx
        exact Good.append hupd hq
      · simp only [h1, h2, ↓reduceIte, Bool.false_eq_true] at hx
        subst hx
        exact Good.append hupd hq

theorem step_good (W : World) (hW : WorldOk W) (s : St) (e : Ev)
    (he : ∀ u, e = Ev.update u → Truthful W u.inputs) :
    Good W s.w s.scanning (step W s e).1.w (step W s e).1.scanning (obsOf s e (step W s e).2) := by
  cases e with
  | grow b => exact good_nil W _ _ _ (fun x => x)
  | reorg d bs => exact good_nil W _ _ _ (fun x => x)
  | setF l => exact good_nil W _ _ _ (fun x => x)
  | setB l => exact good_nil W _ _ _ (fun x => x)
  | setFp l => exact good_nil W _ _ _ (fun x => x)
  | connected b => exact step_connected_good W hW s b
  | disconnected b tip => exact step_disconnected_good W s b tip
  | tick => exact step_tick_good W hW s
  | update u => exact step_update_good W s u (he u rfl)
  | step => exact step_step_good W hW s

/-! ### F. the whole run -/

theorem no_miss_run (W : World) (hW : WorldOk W) (evs : List Ev) (s : St) (c : Caller)
    (hle : WatchLe c.w s.w) (hsc : c.scanning = true → s.scanning = true)
    (hok : WatchOk s.w) (htr : Truthful W s.w.inputs) (hu : UpdTruthful W evs) :
    noMissFrom W c (runObs W s evs) = true := by
  induction evs generalizing s c with
  | nil => rfl
  | cons e es ih =>
    have hg := step_good W hW s e (fun u hue => hu u (by rw [hue]; exact List.mem_cons_self))
      c ⟨hle, hsc, hok, htr⟩
    obtain ⟨h1, h2, h3, h4, h5⟩ := hg
    simp only [runObs]
    rw [noMissFrom_append, h1, Bool.true_and]
    exact ih _ _ h2 h3 h4 h5 (fun u hue => hu u (List.mem_cons_of_mem _ hue))

end Neutrino.Rescan
