/-
Lemmas about the model of the filter-header commit path: the state invariant
(`Inv`) and its preservation by every operation.  Core Lean only.
-/
import Neutrino.Spec.CFHeaders
namespace Neutrino.CFHeaders

/-- consecutive entries are `H`-successors -/
def IsChain (H : FHash → Hdr → Hdr) : List Hdr → Prop
  | [] => True
  | [_] => True
  | a :: b :: r => (∃ f, b = H f a) ∧ IsChain H (b :: r)

/-- The state invariant: one block per filter header, those blocks are the
current chain up to the filter tip, the filter store is a non-empty hash chain. -/
structure Inv (H : FHash → Hdr → Hdr) (s : St) : Prop where
  len    : s.fblk.length = s.fstore.length
  pre    : s.fblk <+: s.blocks
  ne     : s.fstore ≠ []
  chain  : IsChain H s.fstore

theorem chainFrom_length (H : FHash → Hdr → Hdr) (p : Hdr) (fs : List FHash) :
    (chainFrom H p fs).length = fs.length := by
  induction fs generalizing p with
  | nil => rfl
  | cons f fs ih => simp only [chainFrom, List.length_cons, ih]

theorem isChain_append_chainFrom (H : FHash → Hdr → Hdr) :
    ∀ (l : List Hdr) (t : Hdr) (fs : List FHash), IsChain H l → l.getLast? = some t →
      IsChain H (l ++ chainFrom H t fs) := by
  intro l
  induction l with
  | nil => intro t fs _ h; simp at h
  | cons a r ih =>
    intro t fs hc hl
    cases r with
    | nil =>
      simp only [List.getLast?_singleton, Option.some.injEq] at hl
      subst hl
      -- [a] ++ chainFrom a fs
      clear ih hc
      induction fs generalizing a with
      | nil => simp [chainFrom, IsChain]
      | cons f fs ih2 =>
        simp only [chainFrom, List.singleton_append]
        refine ⟨⟨f, rfl⟩, ?_⟩
        have := ih2 (H f a)
        simpa only [List.singleton_append] using this
    | cons b r' =>
      have hl' : (b :: r').getLast? = some t := by
        simpa [List.getLast?_cons_cons] using hl
      have hc' : IsChain H (b :: r') := hc.2
      have := ih t fs hc' hl'
      exact ⟨hc.1, this⟩

theorem isChain_dropLast (H : FHash → Hdr → Hdr) : ∀ l : List Hdr, IsChain H l → IsChain H l.dropLast := by
  intro l
  induction l with
  | nil => intro _; exact True.intro
  | cons a r ih =>
    intro hc
    cases r with
    | nil => exact True.intro
    | cons b r' =>
      cases r' with
      | nil => exact True.intro
      | cons c r'' =>
        have := ih hc.2
        exact ⟨hc.1, this⟩

theorem heightOf_lt : ∀ (bs : List Blk) (b : Blk) (e : Nat), heightOf bs b = some e → e < bs.length := by
  intro bs
  induction bs with
  | nil => intro b e h; simp [heightOf] at h
  | cons x xs ih =>
    intro b e h
    simp only [heightOf] at h
    by_cases hx : x = b
    · simp only [hx, ↓reduceIte, Option.some.injEq] at h
      subst h; simp
    · simp only [hx, ↓reduceIte, Option.map_eq_some_iff] at h
      obtain ⟨e', he', rfl⟩ := h
      have := ih b e' he'
      simp only [List.length_cons]; omega

theorem prefix_take_of_prefix {α} (a b : List α) (n : Nat) (h : a <+: b) (hn : a.length + n ≤ b.length) :
    a ++ (b.drop a.length).take n <+: b := by
  obtain ⟨t, rfl⟩ := h
  simp only [List.drop_left]
  exact (List.prefix_append_right_inj a).mpr (List.take_prefix n t)

/-- the only two things `writeMsg` can do -/
theorem writeMsg_cases (H : FHash → Hdr → Hdr) (s : St) (prev : Hdr) (stop : Blk) (hashes : List FHash) :
    (writeMsg H s prev stop hashes).1 = s ∨
    ∃ e, s.fstore.getLast? = some prev ∧ heightOf s.blocks stop = some e ∧ hashes.length ≠ 0 ∧
      hashes.length ≤ e + 1 ∧ e + 1 - hashes.length = s.fstore.length ∧
      writeMsg H s prev stop hashes =
        ({ s with fstore := s.fstore ++ chainFrom H prev hashes,
                  fblk := s.fblk ++ (s.blocks.drop (e + 1 - hashes.length)).take hashes.length,
                  ntf := s.ntf ++ connNtfs (e + 1 - hashes.length)
                           ((s.blocks.drop (e + 1 - hashes.length)).take hashes.length) },
         .ok (((chainFrom H prev hashes).getLast?).getD prev) e) := by
  cases hl : s.fstore.getLast? with
  | none => left; simp only [writeMsg, hl]
  | some tip =>
    by_cases hp : tip = prev
    · subst hp
      cases hh : heightOf s.blocks stop with
      | none => left; simp only [writeMsg, hl, hh, ne_eq, not_true_eq_false, ↓reduceIte]
      | some e =>
        by_cases hn : hashes.length = 0 ∨ e + 1 < hashes.length
        · left; simp only [writeMsg, hl, hh, hn, ne_eq, not_true_eq_false, ↓reduceIte]
        · by_cases ha : e + 1 - hashes.length = s.fstore.length
          · right
            refine ⟨e, rfl, rfl, ?_, ?_, ha, ?_⟩
            · omega
            · omega
            · simp only [writeMsg, hl, hh, hn, ha, ne_eq, not_true_eq_false, ↓reduceIte]
          · left; simp only [writeMsg, hl, hh, hn, ha, ne_eq, not_true_eq_false, not_false_eq_true, ↓reduceIte]
    · left; simp only [writeMsg, hl, hp, ne_eq, not_false_eq_true, ↓reduceIte]

/-- `writeMsg` either fails and leaves the state alone, or succeeds as described -/
theorem writeMsg_cases' (H : FHash → Hdr → Hdr) (s : St) (prev : Hdr) (stop : Blk) (hashes : List FHash) :
    (∃ o, writeMsg H s prev stop hashes = (s, o) ∧ ∀ l e, o ≠ .ok l e) ∨
    ∃ e, s.fstore.getLast? = some prev ∧ hashes.length ≠ 0 ∧
      writeMsg H s prev stop hashes =
        ({ s with fstore := s.fstore ++ chainFrom H prev hashes,
                  fblk := s.fblk ++ (s.blocks.drop (e + 1 - hashes.length)).take hashes.length,
                  ntf := s.ntf ++ connNtfs (e + 1 - hashes.length)
                           ((s.blocks.drop (e + 1 - hashes.length)).take hashes.length) },
         .ok (((chainFrom H prev hashes).getLast?).getD prev) e) := by
  cases hl : s.fstore.getLast? with
  | none => left; exact ⟨.errTip, by simp only [writeMsg, hl], fun _ _ h => by cases h⟩
  | some tip =>
    by_cases hp : tip = prev
    · subst hp
      cases hh : heightOf s.blocks stop with
      | none =>
        left
        exact ⟨.errAnc, by simp only [writeMsg, hl, hh, ne_eq, not_true_eq_false, ↓reduceIte],
          fun _ _ h => by cases h⟩
      | some e =>
        by_cases hn : hashes.length = 0 ∨ e + 1 < hashes.length
        · left
          exact ⟨.errAnc, by simp only [writeMsg, hl, hh, hn, ne_eq, not_true_eq_false, ↓reduceIte],
            fun _ _ h => by cases h⟩
        · by_cases ha : e + 1 - hashes.length = s.fstore.length
          · right
            refine ⟨e, rfl, by omega, ?_⟩
            simp only [writeMsg, hl, hh, hn, ha, ne_eq, not_true_eq_false, ↓reduceIte]
          · left
            exact ⟨.misaligned,
              by simp only [writeMsg, hl, hh, hn, ha, ne_eq, not_true_eq_false, not_false_eq_true, ↓reduceIte],
              fun _ _ h => by cases h⟩
    · left
      exact ⟨.errPrev, by simp only [writeMsg, hl, hp, ne_eq, not_false_eq_true, ↓reduceIte],
        fun _ _ h => by cases h⟩

/-- `writeMsg` keeps the invariant -/
theorem inv_writeMsg (H : FHash → Hdr → Hdr) (s : St) (prev : Hdr) (stop : Blk) (hashes : List FHash)
    (hi : Inv H s) : Inv H (writeMsg H s prev stop hashes).1 := by
  rcases writeMsg_cases H s prev stop hashes with h | ⟨e, hl, hh, hn0, hn1, ha, heq⟩
  · rw [h]; exact hi
  · rw [heq]
    have he := heightOf_lt _ _ _ hh
    have hlen := hi.len
    have hfit : s.fblk.length + hashes.length ≤ s.blocks.length := by omega
    have htake : ((s.blocks.drop s.fstore.length).take hashes.length).length = hashes.length := by
      simp only [List.length_take, List.length_drop]; omega
    constructor
    · simp only [List.length_append, chainFrom_length, ha, htake, hlen]
    · have := prefix_take_of_prefix s.fblk s.blocks hashes.length hi.pre hfit
      simpa only [ha, hlen] using this
    · simp only [ne_eq, List.append_eq_nil_iff, not_and]; intro h; exact absurd h hi.ne
    · exact isChain_append_chainFrom H _ _ _ hi.chain hl

/-- what `writeMsg` does to the filter store: nothing, or it appends the hash
chain of the batch starting at the tip -/
theorem writeMsg_fstore (H : FHash → Hdr → Hdr) (s : St) (prev : Hdr) (stop : Blk) (hashes : List FHash) :
    (writeMsg H s prev stop hashes).1.fstore = s.fstore ∨
    (s.fstore.getLast? = some prev ∧
     (writeMsg H s prev stop hashes).1.fstore = s.fstore ++ chainFrom H prev hashes) := by
  rcases writeMsg_cases H s prev stop hashes with h | ⟨e, hl, _, _, _, _, heq⟩
  · rw [h]; exact Or.inl rfl
  · rw [heq]; exact Or.inr ⟨hl, rfl⟩

theorem writeMsg_blocks (H : FHash → Hdr → Hdr) (s : St) (prev : Hdr) (stop : Blk) (hashes : List FHash) :
    (writeMsg H s prev stop hashes).1.blocks = s.blocks := by
  rcases writeMsg_cases H s prev stop hashes with h | ⟨e, _, _, _, _, _, heq⟩
  · rw [h]
  · rw [heq]


/-- the detection loop only removes entries from the header map -/
theorem idxLoop_subset (net : Net) (start : Nat) : ∀ (is : List Nat) (s : St) (hs : List (Peer × Msg)),
    ∀ s2 hs2, idxLoop net start is s hs = (s2, .ok hs2) → ∀ pm ∈ hs2, pm ∈ hs := by
  intro is
  induction is with
  | nil =>
    intro s hs s2 hs2 h pm hpm
    simp only [idxLoop, Prod.mk.injEq, Except.ok.injEq] at h
    rw [h.2]; exact hpm
  | cons i is ih =>
    intro s hs s2 hs2 h pm hpm
    unfold idxLoop at h
    by_cases hm : mismatch hs i = true
    · simp only [hm, ↓reduceIte] at h
      cases hd : detect net s hs (start + i) i with
      | error e => rw [hd] at h; simp at h
      | ok bad =>
        rw [hd] at h
        have := ih _ _ s2 hs2 h pm hpm
        unfold dropPeers at this
        exact (List.mem_filter.mp this).1
    · simp only [hm, Bool.false_eq_true, ↓reduceIte] at h
      exact ih _ _ s2 hs2 h pm hpm

/-- the response filter of `getCFHeadersForAllPeers`: what is kept has the
requested stop hash and exactly the requested number of filter hashes -/
theorem gather_exact (s : St) (net : Net) (n : Nat) : ∀ pm ∈ gather s net n,
    pm.2.stopOk = true ∧ pm.2.hashes.length = n := by
  intro pm hpm
  unfold gather at hpm
  simp only [List.mem_filterMap, Option.map_eq_some_iff] at hpm
  obtain ⟨p, _, m, hm, rfl⟩ := hpm
  unfold accept at hm
  have := List.find?_some hm
  simp only [Bool.and_eq_true, beq_iff_eq] at this
  exact this

theorem inv_of_eq (H : FHash → Hdr → Hdr) (s s' : St) (h1 : s'.fstore = s.fstore) (h2 : s'.fblk = s.fblk)
    (h3 : s'.blocks = s.blocks) (hi : Inv H s) : Inv H s' :=
  ⟨by rw [h1, h2]; exact hi.len, by rw [h2, h3]; exact hi.pre, by rw [h1]; exact hi.ne,
   by rw [h1]; exact hi.chain⟩

/-- the detection loop only bans -/
theorem idxLoop_frame (net : Net) (start : Nat) : ∀ (is : List Nat) (s : St) (hs : List (Peer × Msg)),
    (idxLoop net start is s hs).1.fstore = s.fstore ∧ (idxLoop net start is s hs).1.fblk = s.fblk ∧
    (idxLoop net start is s hs).1.blocks = s.blocks := by
  intro is
  induction is with
  | nil => intro s hs; exact ⟨rfl, rfl, rfl⟩
  | cons i is ih =>
    intro s hs
    unfold idxLoop
    by_cases hm : mismatch hs i = true
    · simp only [hm, ↓reduceIte]
      cases detect net s hs (start + i) i with
      | error e => exact ⟨rfl, rfl, rfl⟩
      | ok bad => exact ih (ban s bad reasonHeader) (dropPeers hs bad)
    · simp only [hm, Bool.false_eq_true, ↓reduceIte]
      exact ih s hs

theorem inv_rollbackOne (H : FHash → Hdr → Hdr) (s : St) (hi : Inv H s) (h2 : 2 ≤ s.blocks.length) :
    Inv H (rollbackOne true s).1 ∧ (rollbackOne true s).2 = true ∧
    (rollbackOne true s).1.blocks.length + 1 = s.blocks.length := by
  have hlen := hi.len
  have hpl : s.fblk.length ≤ s.blocks.length := hi.pre.length_le
  have hne : 1 ≤ s.fstore.length := by
    have := hi.ne
    cases hf : s.fstore with
    | nil => exact absurd hf this
    | cons a r => simp
  unfold rollbackOne
  simp only [↓reduceIte]
  by_cases hle : s.blocks.length - 1 ≤ s.fstore.length - 1
  · simp only [hle, ↓reduceIte]
    have heq : s.fblk = s.blocks := hi.pre.eq_of_length (by omega)
    refine ⟨⟨?_, ?_, ?_, ?_⟩, ?_, ?_⟩
    · simp only [List.length_dropLast, hlen]
    · simp only [heq]; exact List.prefix_refl _
    · intro h
      have h' : s.fstore.dropLast = [] := h
      have : s.fstore.dropLast.length = 0 := by rw [h']; rfl
      simp only [List.length_dropLast] at this; omega
    · exact isChain_dropLast H _ hi.chain
    · trivial
    · simp only [List.length_dropLast]; omega
  · simp only [hle, ↓reduceIte]
    refine ⟨⟨hlen, ?_, hi.ne, hi.chain⟩, ?_, ?_⟩
    · obtain ⟨t, ht⟩ := hi.pre
      have htne : t ≠ [] := by
        intro h; subst h
        have : s.fblk.length = s.blocks.length := by rw [← ht]; simp
        omega
      show s.fblk <+: s.blocks.dropLast
      rw [← ht, List.dropLast_append_of_ne_nil htne]
      exact List.prefix_append _ _
    · trivial
    · simp only [List.length_dropLast]; omega

theorem inv_rollbackLoop (H : FHash → Hdr → Hdr) (h : Nat) : ∀ (fuel : Nat) (s : St), Inv H s →
    s.blocks.length ≤ fuel + 1 →
    Inv H (rollbackLoop true fuel s h).1 ∧ (rollbackLoop true fuel s h).2 = true ∧
    (rollbackLoop true fuel s h).1.blocks.length - 1 ≤ h := by
  intro fuel
  induction fuel with
  | zero =>
    intro s hi hb
    refine ⟨hi, ?_, ?_⟩
    · simp only [rollbackLoop]
    · simp only [rollbackLoop]; omega
  | succ fuel ih =>
    intro s hi hb
    unfold rollbackLoop
    by_cases hle : s.blocks.length - 1 ≤ h
    · simp only [hle, ↓reduceIte]
      exact ⟨hi, trivial, trivial⟩
    · simp only [hle, ↓reduceIte]
      have h2 : 2 ≤ s.blocks.length := by omega
      obtain ⟨hi1, hok, hl1⟩ := inv_rollbackOne H s hi h2
      generalize hr : rollbackOne true s = r at hi1 hok hl1
      obtain ⟨s1, ok⟩ := r
      simp only at hok hi1 hl1
      subst hok
      simp only
      exact ih s1 hi1 (by omega)


theorem rollbackOne_fstore_prefix (ff : Bool) (s : St) : (rollbackOne ff s).1.fstore <+: s.fstore := by
  unfold rollbackOne
  cases ff with
  | true =>
    simp only [↓reduceIte]
    by_cases hle : s.blocks.length - 1 ≤ s.fstore.length - 1
    · simp only [hle, ↓reduceIte]; exact List.dropLast_prefix _
    · simp only [hle, ↓reduceIte]; exact List.prefix_refl _
  | false =>
    simp only [Bool.false_eq_true, ↓reduceIte]
    by_cases hle : s.blocks.length - 1 ≤ s.fstore.length - 1
    · simp only [hle, ↓reduceIte]; exact List.prefix_refl _
    · simp only [hle, ↓reduceIte]; exact List.prefix_refl _

theorem rollbackLoop_fstore_prefix (ff : Bool) (h : Nat) : ∀ (fuel : Nat) (s : St),
    (rollbackLoop ff fuel s h).1.fstore <+: s.fstore := by
  intro fuel
  induction fuel with
  | zero => intro s; exact List.prefix_refl _
  | succ fuel ih =>
    intro s
    unfold rollbackLoop
    by_cases hle : s.blocks.length - 1 ≤ h
    · simp only [hle, ↓reduceIte]; exact List.prefix_refl _
    · simp only [hle, ↓reduceIte]
      have h1 := rollbackOne_fstore_prefix ff s
      generalize rollbackOne ff s = r at h1
      obtain ⟨s1, ok⟩ := r
      cases ok with
      | false => exact h1
      | true => exact (ih s1).trans h1

theorem wToT_fst (r : St × WOut) : (wToT r).1 = r.1 := by
  obtain ⟨s3, o⟩ := r
  cases o <;> rfl

theorem inv_commitPick (H : FHash → Hdr → Hdr) (s2 : St) (pick : Nat) (hs2 : List (Peer × Msg))
    (hi : Inv H s2) : Inv H (commitPick H s2 pick hs2).1 := by
  unfold commitPick
  cases hs2[pick % hs2.length]? with
  | none => exact hi
  | some pm =>
    cases s2.blocks[stopHeight s2]? with
    | none => exact hi
    | some stopB =>
      dsimp only
      rw [wToT_fst]
      exact inv_writeMsg H s2 pm.2.prev stopB pm.2.hashes hi

/-- what the commit does to the filter store: nothing, or the hash chain of the
picked peer's batch appended at the tip -/
theorem commitPick_fstore (H : FHash → Hdr → Hdr) (s2 : St) (pick : Nat) (hs2 : List (Peer × Msg)) :
    (commitPick H s2 pick hs2).1.fstore = s2.fstore ∨
    ∃ pm, pm ∈ hs2 ∧ s2.fstore.getLast? = some pm.2.prev ∧
      (commitPick H s2 pick hs2).1.fstore = s2.fstore ++ chainFrom H pm.2.prev pm.2.hashes := by
  unfold commitPick
  cases hg : hs2[pick % hs2.length]? with
  | none => exact Or.inl rfl
  | some pm =>
    have hmem : pm ∈ hs2 := List.mem_of_getElem? hg
    cases s2.blocks[stopHeight s2]? with
    | none => exact Or.inl rfl
    | some stopB =>
      dsimp only
      rw [wToT_fst]
      rcases writeMsg_fstore H s2 pm.2.prev stopB pm.2.hashes with h | ⟨h1, h2⟩
      · exact Or.inl h
      · exact Or.inr ⟨pm, hmem, h1, h2⟩

/-- shape of `tipRound`'s result: the old state with more bans, or that followed by the commit -/
theorem tipRound_shape (H : FHash → Hdr → Hdr) (s : St) (net : Net) :
    ∃ s2 : St, s2.fstore = s.fstore ∧ s2.fblk = s.fblk ∧ s2.blocks = s.blocks ∧
      ((tipRound H s net).1 = s2 ∨ ∃ hs2, (tipRound H s net).1 = (commitPick H s2 net.pick hs2).1) := by
  unfold tipRound
  cases s.fstore.getLast? with
  | none => exact ⟨s, rfl, rfl, rfl, Or.inl rfl⟩
  | some tip =>
    by_cases h1 : s.blocks.length - 1 < s.fstore.length - 1
    · simp only [h1, ↓reduceIte]; exact ⟨s, rfl, rfl, rfl, Or.inl rfl⟩
    · simp only [h1, ↓reduceIte]
      by_cases h2 : s.blocks.length - 1 = s.fstore.length - 1
      · simp only [h2, ↓reduceIte]; exact ⟨s, rfl, rfl, rfl, Or.inl rfl⟩
      · simp only [h2, ↓reduceIte]
        generalize hw : (List.filter (fun pm => pm.2.prev != tip) (gather s net (batchLen s))).map (·.1) = wrong
        generalize hh : List.filter (fun pm => pm.2.prev == tip) (gather s net (batchLen s)) = hs1
        by_cases h3 : hs1.isEmpty = true
        · simp only [h3, ↓reduceIte]; exact ⟨ban s wrong reasonHeader, rfl, rfl, rfl, Or.inl rfl⟩
        · simp only [h3, Bool.false_eq_true, ↓reduceIte]
          have hf := idxLoop_frame net s.fstore.length (List.range (batchLen s)) (ban s wrong reasonHeader) hs1
          generalize idxLoop net s.fstore.length (List.range (batchLen s)) (ban s wrong reasonHeader) hs1 = r at hf
          obtain ⟨s2, e⟩ := r
          cases e with
          | error e => exact ⟨s2, hf.1, hf.2.1, hf.2.2, Or.inl rfl⟩
          | ok hs2 => exact ⟨s2, hf.1, hf.2.1, hf.2.2, Or.inr ⟨hs2, rfl⟩⟩

/-- `tipRound_shape` with the origin of the surviving header map: its entries
are responses kept by the response filter of `getCFHeadersForAllPeers` -/
theorem tipRound_shape' (H : FHash → Hdr → Hdr) (s : St) (net : Net) :
    ∃ s2 : St, s2.fstore = s.fstore ∧
      ((tipRound H s net).1 = s2 ∨
       ∃ hs2, (∀ pm ∈ hs2, pm ∈ gather s net (batchLen s)) ∧
         (tipRound H s net).1 = (commitPick H s2 net.pick hs2).1) := by
  unfold tipRound
  cases s.fstore.getLast? with
  | none => exact ⟨s, rfl, Or.inl rfl⟩
  | some tip =>
    by_cases h1 : s.blocks.length - 1 < s.fstore.length - 1
    · simp only [h1, ↓reduceIte]; exact ⟨s, rfl, Or.inl rfl⟩
    · simp only [h1, ↓reduceIte]
      by_cases h2 : s.blocks.length - 1 = s.fstore.length - 1
      · simp only [h2, ↓reduceIte]; exact ⟨s, rfl, Or.inl rfl⟩
      · simp only [h2, ↓reduceIte]
        generalize hw : (List.filter (fun pm => pm.2.prev != tip) (gather s net (batchLen s))).map (·.1) = wrong
        generalize hh : List.filter (fun pm => pm.2.prev == tip) (gather s net (batchLen s)) = hs1
        by_cases h3 : hs1.isEmpty = true
        · simp only [h3, ↓reduceIte]; exact ⟨ban s wrong reasonHeader, rfl, Or.inl rfl⟩
        · simp only [h3, Bool.false_eq_true, ↓reduceIte]
          have hf := idxLoop_frame net s.fstore.length (List.range (batchLen s)) (ban s wrong reasonHeader) hs1
          generalize hr : idxLoop net s.fstore.length (List.range (batchLen s)) (ban s wrong reasonHeader) hs1 = r at hf
          obtain ⟨s2, e⟩ := r
          cases e with
          | error e => exact ⟨s2, hf.1, Or.inl rfl⟩
          | ok hs2 =>
            refine ⟨s2, hf.1, Or.inr ⟨hs2, ?_, rfl⟩⟩
            intro pm hpm
            have := idxLoop_subset net _ _ _ _ s2 hs2 hr pm hpm
            rw [← hh] at this
            exact (List.mem_filter.mp this).1

theorem inv_tipRound (H : FHash → Hdr → Hdr) (s : St) (net : Net) (hi : Inv H s) :
    Inv H (tipRound H s net).1 := by
  obtain ⟨s2, a, b, c, h⟩ := tipRound_shape H s net
  have hi2 : Inv H s2 := inv_of_eq H s s2 a b c hi
  rcases h with h | ⟨hs2, h⟩
  · rw [h]; exact hi2
  · rw [h]; exact inv_commitPick H s2 net.pick hs2 hi2

/-! ### the checkpointed path -/

/-- the filter store grew by appending hash chains of batches, each started at the then-current tip -/
inductive Grows (H : FHash → Hdr → Hdr) : List Hdr → List Hdr → Prop
  | refl (l : List Hdr) : Grows H l l
  | step {l m : List Hdr} (p : Hdr) (hs : List FHash) :
      Grows H l m → m.getLast? = some p → Grows H l (m ++ chainFrom H p hs)

theorem Grows.trans {H : FHash → Hdr → Hdr} {a b c : List Hdr} (h1 : Grows H a b) (h2 : Grows H b c) :
    Grows H a c := by
  induction h2 with
  | refl => exact h1
  | step p hs _ hl ih => exact Grows.step p hs ih hl

theorem grows_writeMsg (H : FHash → Hdr → Hdr) (s : St) (prev : Hdr) (stop : Blk) (hashes : List FHash) :
    Grows H s.fstore (writeMsg H s prev stop hashes).1.fstore := by
  rcases writeMsg_fstore H s prev stop hashes with h | ⟨h1, h2⟩
  · rw [h]; exact Grows.refl _
  · rw [h2]; exact Grows.step prev hashes (Grows.refl _) h1

theorem ban_frame (s : St) (ps : List Peer) (r : Nat) :
    (ban s ps r).fstore = s.fstore ∧ (ban s ps r).fblk = s.fblk ∧ (ban s ps r).blocks = s.blocks :=
  ⟨rfl, rfl, rfl⟩

theorem rcConflict_frame (interval : Nat) (s1 : St) (net : Net) (cp2 : List (Peer × List Hdr)) (start n : Nat) :
    (rcConflict interval s1 net cp2 start n).1.fstore = s1.fstore ∧
    (rcConflict interval s1 net cp2 start n).1.fblk = s1.fblk ∧
    (rcConflict interval s1 net cp2 start n).1.blocks = s1.blocks := by
  unfold rcConflict
  simp only
  by_cases hb : (!baselineGo 0 (gather s1 net n)) = true
  · simp only [hb, ↓reduceIte, and_self]
  · simp only [hb, Bool.false_eq_true, ↓reduceIte]
    have hf := idxLoop_frame net start (List.range n) s1 (gather s1 net n)
    generalize idxLoop net start (List.range n) s1 (gather s1 net n) = r at hf
    obtain ⟨s2, e⟩ := r
    cases e with
    | error e => exact hf
    | ok hs2 => exact hf

theorem resolveConflict_frame (interval : Nat) (hard : Nat → Option Hdr) (s : St) (net : Net)
    (cp : List (Peer × List Hdr)) :
    (resolveConflict interval hard s net cp).1.fstore = s.fstore ∧
    (resolveConflict interval hard s net cp).1.fblk = s.fblk ∧
    (resolveConflict interval hard s net cp).1.blocks = s.blocks := by
  unfold resolveConflict
  simp only
  by_cases h1 : (hardPass interval hard s cp).2.isEmpty = true
  · simp only [h1, ↓reduceIte]; exact ⟨rfl, rfl, rfl⟩
  · simp only [h1, Bool.false_eq_true, ↓reduceIte]
    cases checkSanity interval (hardPass interval hard s cp).1.fstore (hardPass interval hard s cp).2 with
    | none => exact ⟨rfl, rfl, rfl⟩
    | some d =>
      simp only
      split
      · exact ⟨rfl, rfl, rfl⟩
      · have := rcConflict_frame interval (hardPass interval hard s cp).1 net
          ((hardPass interval hard s cp).2.filter (fun pc => !(decide (pc.2.length < d))))
          (d * interval) (batchLenFrom (hardPass interval hard s cp).1 (d * interval))
        exact this

theorem pickList_ok (cp : List (Peer × List Hdr)) (pick : Nat) (l : List Hdr)
    (h : pickList cp pick = .ok l) : ∃ pc ∈ cp, pc.2 = l := by
  unfold pickList at h
  cases hg : cp[pick % cp.length]? with
  | none => rw [hg] at h; cases h
  | some pc =>
    rw [hg] at h
    simp only [RCOut.ok.injEq] at h
    exact ⟨pc, List.mem_of_getElem? hg, h⟩

theorem rcFinish_ok (interval pick before : Nat) (cp2 : List (Peer × List Hdr)) (s2 : St)
    (hs2 : List (Peer × Msg)) (l : List Hdr)
    (h : (rcFinish interval pick before cp2 s2 hs2).2 = .ok l) : ∃ pc ∈ cp2, pc.2 = l := by
  unfold rcFinish at h
  simp only at h
  split at h
  · obtain ⟨pc, hpc, e⟩ := pickList_ok _ _ _ h
    exact ⟨pc, (List.mem_filter.mp (List.mem_filter.mp hpc).1).1, e⟩
  · cases h

theorem rcConflict_ok (interval : Nat) (s1 : St) (net : Net) (cp2 : List (Peer × List Hdr)) (start n : Nat)
    (l : List Hdr) (h : (rcConflict interval s1 net cp2 start n).2 = .ok l) : ∃ pc ∈ cp2, pc.2 = l := by
  unfold rcConflict at h
  simp only at h
  by_cases hb : (!baselineGo 0 (gather s1 net n)) = true
  · simp only [hb, ↓reduceIte] at h; cases h
  · simp only [hb, Bool.false_eq_true, ↓reduceIte] at h
    generalize idxLoop net start (List.range n) s1 (gather s1 net n) = r at h
    obtain ⟨s2, e⟩ := r
    cases e with
    | error e => cases h
    | ok hs2 => exact rcFinish_ok _ _ _ _ _ _ _ h

/-- the list `resolveConflict` agrees on is one of the lists that survived the hard-coded-checkpoint pass -/
theorem resolveConflict_ok (interval : Nat) (hard : Nat → Option Hdr) (s : St) (net : Net)
    (cp : List (Peer × List Hdr)) (l : List Hdr)
    (h : (resolveConflict interval hard s net cp).2 = .ok l) :
    ∃ pc ∈ (hardPass interval hard s cp).2, pc.2 = l := by
  unfold resolveConflict at h
  simp only at h
  by_cases h1 : (hardPass interval hard s cp).2.isEmpty = true
  · simp only [h1, ↓reduceIte] at h; cases h
  · simp only [h1, Bool.false_eq_true, ↓reduceIte] at h
    cases hc : checkSanity interval (hardPass interval hard s cp).1.fstore (hardPass interval hard s cp).2 with
    | none => rw [hc] at h; exact pickList_ok _ _ _ h
    | some d =>
      rw [hc] at h
      simp only at h
      split at h
      · cases h
      · obtain ⟨pc, hpc, e⟩ := rcConflict_ok _ _ _ _ _ _ _ h
        exact ⟨pc, (List.mem_filter.mp hpc).1, e⟩

/-- what the checkpointed loop maintains, relative to the state `s0` it started from -/
structure CpOK (H : FHash → Hdr → Hdr) (s0 : St) (c : CpLoop) : Prop where
  inv : Inv H c.st
  gr  : Grows H s0.fstore c.st.fstore
  bl  : c.st.blocks = s0.blocks

theorem cpInner_ok (H : FHash → Hdr → Hdr) (interval ncps arr : Nat) (s0 : St) :
    ∀ (fuel : Nat) (c : CpLoop), CpOK H s0 c → CpOK H s0 (cpInner H interval ncps arr fuel c) := by
  intro fuel
  induction fuel with
  | zero => intro c h; exact h
  | succ fuel ih =>
    intro c h
    unfold cpInner
    cases c.cache.find? (fun e => e.1 == c.curInt) with
    | none => exact h
    | some e =>
      simp only
      cases c.st.blocks[(min (e.1 + perQuery) ncps) * interval]? with
      | none => exact ⟨h.inv, h.gr, h.bl⟩
      | some stopB =>
        simp only
        have a := inv_writeMsg H c.st (rebase c e arr).1 stopB (rebase c e arr).2 h.inv
        have b := grows_writeMsg H c.st (rebase c e arr).1 stopB (rebase c e arr).2
        have d := writeMsg_blocks H c.st (rebase c e arr).1 stopB (rebase c e arr).2
        generalize writeMsg H c.st (rebase c e arr).1 stopB (rebase c e arr).2 = r at a b d
        obtain ⟨st', o⟩ := r
        have ok' : ∀ c' : CpLoop, c'.st = st' → CpOK H s0 c' := by
          intro c' hc
          exact ⟨by rw [hc]; exact a, by rw [hc]; exact h.gr.trans b, by rw [hc]; exact d.trans h.bl⟩
        cases o with
        | ok last e' => exact ih _ (ok' _ rfl)
        | errTip => exact ok' _ rfl
        | errPrev => exact ok' _ rfl
        | errAnc => exact ok' _ rfl
        | misaligned => exact ok' _ rfl

theorem cpTake_ok (H : FHash → Hdr → Hdr) (interval ncps : Nat) (s0 : St) (c : CpLoop) (ev : CpEv)
    (h : CpOK H s0 c) : CpOK H s0 (cpTake H interval ncps c ev) := by
  unfold cpTake
  simp only
  split
  · exact h
  · have h1 : CpOK H s0 { c with cache := (ev.k, ev.prev, ev.hashes) :: c.cache.filter (fun x => x.1 != ev.k) } :=
      ⟨h.inv, h.gr, h.bl⟩
    have h2 := cpInner_ok H interval ncps (ev.k * interval + 1) s0
      (((ev.k, ev.prev, ev.hashes) :: c.cache.filter (fun x => x.1 != ev.k)).length + 1) _ h1
    split
    · exact h2
    · split
      · exact ⟨h2.inv, h2.gr, h2.bl⟩
      · exact h2

theorem cpEvents_ok (H : FHash → Hdr → Hdr) (interval : Nat) (genesis : Hdr) (cps : List Hdr) (startInt : Nat)
    (s0 : St) : ∀ (evs : List CpEv) (c : CpLoop), CpOK H s0 c →
      CpOK H s0 (cpEvents H interval genesis cps startInt evs c) := by
  intro evs
  induction evs with
  | nil => intro c h; exact h
  | cons ev evs ih =>
    intro c h
    unfold cpEvents
    cases handleResp H genesis cps startInt ev with
    | none => exact ih c h
    | some b =>
      cases b with
      | false => exact ih _ ⟨inv_of_eq H c.st _ rfl rfl rfl h.inv, h.gr, h.bl⟩
      | true =>
        simp only
        split
        · exact ih c h
        · exact ih _ (cpTake_ok H interval cps.length s0 c ev h)

theorem cpRound_ok (H : FHash → Hdr → Hdr) (interval : Nat) (s : St) (cps : List Hdr) (evs : List CpEv)
    (hi : Inv H s) :
    Inv H (cpRound H interval s cps evs).1 ∧ Grows H s.fstore (cpRound H interval s cps evs).1.fstore := by
  unfold cpRound
  cases s.fstore.getLast? with
  | none => exact ⟨hi, Grows.refl _⟩
  | some cur =>
    simp only
    split
    · exact ⟨hi, Grows.refl _⟩
    · split
      · exact ⟨hi, Grows.refl _⟩
      · have := cpEvents_ok H interval ((s.fstore.head?).getD 0) cps ((s.fstore.length - 1) / interval) s evs
          { st := s, cur := cur, curH := s.fstore.length - 1, curInt := (s.fstore.length - 1) / interval,
            initial := cur, cache := [] } ⟨hi, Grows.refl _, rfl⟩
        exact ⟨this.inv, this.gr⟩

theorem inv_applyMid (H : FHash → Hdr → Hdr) (s : St) (h : Nat) (ids : List Blk) (hi : Inv H s) :
    Inv H (applyMid true s h ids) := by
  have a := (inv_rollbackLoop H h s.blocks.length s hi (by omega)).1
  exact ⟨a.len, a.pre.trans (List.prefix_append _ _), a.ne, a.chain⟩

theorem applyMid_fstore_prefix (ff : Bool) (s : St) (h : Nat) (ids : List Blk) :
    (applyMid ff s h ids).fstore <+: s.fstore :=
  rollbackLoop_fstore_prefix ff h _ s

/-- shape of `tipRoundMid`'s result: the old state, the state after the
reorganisation with more bans, or that followed by one `writeMsg` -/
theorem tipRoundMid_shape (H : FHash → Hdr → Hdr) (ff : Bool) (s : St) (net : Net) (h : Nat) (ids : List Blk) :
    (tipRoundMid H ff s net h ids).1 = s ∨
    ∃ s2 : St, s2.fstore = (applyMid ff s h ids).fstore ∧ s2.fblk = (applyMid ff s h ids).fblk ∧
      s2.blocks = (applyMid ff s h ids).blocks ∧
      ((tipRoundMid H ff s net h ids).1 = s2 ∨
       ∃ prev stop hashes, (tipRoundMid H ff s net h ids).1 = (writeMsg H s2 prev stop hashes).1) := by
  unfold tipRoundMid
  cases s.fstore.getLast? with
  | none => exact Or.inl rfl
  | some tip =>
    by_cases h1 : s.blocks.length - 1 < s.fstore.length - 1
    · simp only [h1, ↓reduceIte, true_or]
    · simp only [h1, ↓reduceIte]
      by_cases h2 : s.blocks.length - 1 = s.fstore.length - 1
      · simp only [h2, ↓reduceIte, true_or]
      · simp only [h2, ↓reduceIte]
        right
        generalize hw : (List.filter (fun pm => pm.2.prev != tip)
          (gather (applyMid ff s h ids) net (batchLen s))).map (·.1) = wrong
        generalize hh : List.filter (fun pm => pm.2.prev == tip)
          (gather (applyMid ff s h ids) net (batchLen s)) = hs1
        by_cases h3 : hs1.isEmpty = true
        · simp only [h3, ↓reduceIte]
          exact ⟨ban (applyMid ff s h ids) wrong reasonHeader, rfl, rfl, rfl, Or.inl rfl⟩
        · simp only [h3, Bool.false_eq_true, ↓reduceIte]
          have hf := idxLoop_frame net s.fstore.length (List.range (batchLen s))
            (ban (applyMid ff s h ids) wrong reasonHeader) hs1
          generalize idxLoop net s.fstore.length (List.range (batchLen s))
            (ban (applyMid ff s h ids) wrong reasonHeader) hs1 = r at hf
          obtain ⟨s2, e⟩ := r
          cases e with
          | error e => exact ⟨s2, hf.1, hf.2.1, hf.2.2, Or.inl rfl⟩
          | ok hs2 =>
            refine ⟨s2, hf.1, hf.2.1, hf.2.2, ?_⟩
            simp only
            cases hs2[net.pick % hs2.length]? with
            | none => exact Or.inl rfl
            | some pm =>
              simp only
              cases s.blocks[stopHeight s]? with
              | none => exact Or.inl rfl
              | some stopB =>
                simp only
                exact Or.inr ⟨pm.2.prev, stopB, pm.2.hashes, wToT_fst _⟩

theorem inv_tipRoundMid (H : FHash → Hdr → Hdr) (s : St) (net : Net) (h : Nat) (ids : List Blk) (hi : Inv H s) :
    Inv H (tipRoundMid H true s net h ids).1 := by
  rcases tipRoundMid_shape H true s net h ids with e | ⟨s2, a, b, c, e⟩
  · rw [e]; exact hi
  · have hi2 : Inv H s2 := inv_of_eq H _ s2 a b c (inv_applyMid H s h ids hi)
    rcases e with e | ⟨prev, stop, hashes, e⟩
    · rw [e]; exact hi2
    · rw [e]; exact inv_writeMsg H s2 prev stop hashes hi2

theorem inv_step (H : FHash → Hdr → Hdr) (s : St) (op : Op) (hi : Inv H s) : Inv H (step H true s op).1 := by
  cases op with
  | ext ids =>
    exact ⟨hi.len, hi.pre.trans (List.prefix_append _ _), hi.ne, hi.chain⟩
  | rb h => exact (inv_rollbackLoop H h s.blocks.length s hi (by omega)).1
  | wr prev stop hashes => exact inv_writeMsg H s prev stop hashes hi
  | tip net => exact inv_tipRound H s net hi
  | tipMid net h ids => exact inv_tipRoundMid H s net h ids hi
  | resolve interval hard net cp =>
    obtain ⟨a, b, c⟩ := resolveConflict_frame interval hard s net cp
    exact inv_of_eq H s _ a b c hi
  | cp interval cps evs => exact (cpRound_ok H interval s cps evs hi).1

theorem inv_run (H : FHash → Hdr → Hdr) : ∀ (ops : List Op) (s : St), Inv H s → Inv H (run H true s ops) := by
  intro ops
  induction ops with
  | nil => intro s hi; exact hi
  | cons op ops ih => intro s hi; exact ih _ (inv_step H s op hi)

end Neutrino.CFHeaders
