/-
`blockManager.IsFullySynced` (what `ChainService.IsCurrent` answers) as the CODE defines it (translated
from blockmanager.go on every run, Gen/TransSync.lean): both stores answer, the filter-header tip is at
the height of the block-header tip, and the block headers are synced.
-/
import Neutrino.Gen.TransSync
namespace Neutrino.Net
open Neutrino.Gen.TransSync Neutrino.GoInt

theorem trans_isFullySynced (headersSynced : Bool) (btip : Option T_wire_BlockHeader × Nat × Bool)
    (ftip : Atom × Nat × Bool) :
    IsFullySynced headersSynced btip ftip
      = (!btip.2.2 && !ftip.2.2 && decide (btip.2.1 = ftip.2.1) && headersSynced) := by
  unfold IsFullySynced
  cases h1 : btip.2.2 <;> cases h2 : ftip.2.2 <;> by_cases h3 : btip.2.1 = ftip.2.1 <;> simp [h1, h2, h3]

end Neutrino.Net
