/-
C13 lemmas about histories: the invariant relating the store to the history's
last unlifted ban (`Inv`), and the simulation between the store and the abstract
map with 1000 ms expiry granularity (`Sim`).  Core Lean only.
-/
import Neutrino.Lemmas.Ban
namespace Neutrino.Ban

theorem target_cases (tg : Target) :
    resolve tg = none ∨
    (∃ ip m, resolve tg = some (ip, m) ∧ encodeKey ip m = none ∧ netId ip m = none) ∨
    (∃ ip m k id, resolve tg = some (ip, m) ∧ encodeKey ip m = some k ∧ netId ip m = some id) := by
  cases hr : resolve tg with
  | none => exact Or.inl rfl
  | some p =>
    obtain ⟨ip, m⟩ := p
    have hiff := encodeKey_isSome_iff ip m
    cases hk : encodeKey ip m with
    | none =>
      cases hi : netId ip m with
      | none => exact Or.inr (Or.inl ⟨ip, m, rfl, hk, hi⟩)
      | some id => rw [hk, hi] at hiff; exact absurd hiff (by simp)
    | some k =>
      cases hi : netId ip m with
      | none => rw [hk, hi] at hiff; exact absurd hiff (by simp)
      | some id => exact Or.inr (Or.inr ⟨ip, m, k, id, rfl, hk, hi⟩)

/-! ### the store against the history -/

/-- What the store holds under key `k` (`lk`) against what the history says
about the network (`ob`), when all calls so far happened no later than `T`:
never banned / lifted ⇒ no record; banned at `b.lo = banTime + d` ⇒ the record
with the expiry truncated to seconds, or no record because a `Status` at or
after that whole second removed it. -/
def Rel (T : Int) (ob : Option BanRec) (lk : Option (Int × Nat)) : Prop :=
  match ob with
  | none => lk = none
  | some b => b.lo = b.hi ∧
      (lk = some (b.lo / 1000, b.reason) ∨ (lk = none ∧ (b.lo / 1000) * 1000 ≤ T))

theorem Rel.mono {T T' : Int} {ob : Option BanRec} {lk : Option (Int × Nat)} (h : Rel T ob lk) (hT : T ≤ T') :
    Rel T' ob lk := by
  cases ob with
  | none => exact h
  | some b =>
    obtain ⟨h1, h2⟩ := h
    refine ⟨h1, ?_⟩
    cases h2 with
    | inl h => exact Or.inl h
    | inr h => exact Or.inr ⟨h.1, Int.le_trans h.2 hT⟩

def Inv (s : State) (o : Oracle) (T : Int) : Prop :=
  ∀ ip m k id, encodeKey ip m = some k → netId ip m = some id → Rel T (o id) (lookup s.recs k)

theorem Inv.mono {s : State} {o : Oracle} {T T' : Int} (h : Inv s o T) (hT : T ≤ T') : Inv s o T' :=
  fun ip m k id hk hi => (h ip m k id hk hi).mono hT

theorem inv_init (T : Int) : Inv {} Oracle.empty T := fun _ _ _ _ _ _ => rfl

theorem inv_step (s : State) (o : Oracle) (T t : Int) (op : Op) (h : Inv s o T) (hT : T ≤ t) :
    Inv (step s t op).1 (o.note t t op) t := by
  have h' : Inv s o t := h.mono hT
  cases op with
  | reopen => exact h'
  | ban tg r d =>
    rcases target_cases tg with hr | ⟨ip0, m0, hr, hk0, hi0⟩ | ⟨ip0, m0, k0, id0, hr, hk0, hi0⟩
    · simp only [step, Oracle.note, idOf, hr]; exact h'
    · simp only [step, Oracle.note, idOf, hr, hk0, hi0]; exact h'
    · simp only [step, Oracle.note, idOf, hr, hk0, hi0]
      intro ip m k id hk hi
      have hiff := key_eq_iff_id_eq hk0 hk hi0 hi
      by_cases hid : id = id0
      · have hkk : k0 = k := hiff.mpr hid.symm
        subst hkk
        simp only [Oracle.set, hid, ↓reduceIte, lookup_put_self]
        exact ⟨rfl, Or.inl rfl⟩
      · have hkk : k0 ≠ k := fun e => hid (hiff.mp e).symm
        simp only [Oracle.set, hid, ↓reduceIte, lookup_put_ne _ _ _ _ hkk]
        exact h' ip m k id hk hi
  | unban tg =>
    rcases target_cases tg with hr | ⟨ip0, m0, hr, hk0, hi0⟩ | ⟨ip0, m0, k0, id0, hr, hk0, hi0⟩
    · simp only [step, Oracle.note, idOf, hr]; exact h'
    · simp only [step, Oracle.note, idOf, hr, hk0, hi0]; exact h'
    · simp only [step, Oracle.note, idOf, hr, hk0, hi0]
      intro ip m k id hk hi
      have hiff := key_eq_iff_id_eq hk0 hk hi0 hi
      by_cases hid : id = id0
      · have hkk : k0 = k := hiff.mpr hid.symm
        subst hkk
        simp only [Oracle.set, hid, ↓reduceIte, lookup_del_self]
        rfl
      · have hkk : k0 ≠ k := fun e => hid (hiff.mp e).symm
        simp only [Oracle.set, hid, ↓reduceIte, lookup_del_ne _ _ _ hkk]
        exact h' ip m k id hk hi
  | status tg =>
    simp only [Oracle.note]
    rcases target_cases tg with hr | ⟨ip0, m0, hr, hk0, hi0⟩ | ⟨ip0, m0, k0, id0, hr, hk0, hi0⟩
    · simp only [step, hr]; exact h'
    · simp only [step, hr, hk0]; exact h'
    · simp only [step, hr, hk0]
      cases hl : lookup s.recs k0 with
      | none => exact h'
      | some v =>
        obtain ⟨e, r⟩ := v
        simp only
        by_cases hexp : t ≥ e * 1000
        · simp only [hexp, ↓reduceIte]
          intro ip m k id hk hi
          have hiff := key_eq_iff_id_eq hk0 hk hi0 hi
          by_cases hkk : k0 = k
          · subst hkk
            have hid : id0 = id := hiff.mp rfl
            subst hid
            have hrel := h' ip0 m0 k0 id0 hk0 hi0
            rw [lookup_del_self]
            rw [hl] at hrel
            cases hob : o id0 with
            | none => rw [hob] at hrel; exact absurd hrel (by simp [Rel])
            | some b =>
              rw [hob] at hrel
              obtain ⟨h1, h2⟩ := hrel
              refine ⟨h1, Or.inr ⟨rfl, ?_⟩⟩
              cases h2 with
              | inl h2 =>
                have he : e = b.lo / 1000 := congrArg Prod.fst (Option.some.inj h2)
                rw [← he]; exact hexp
              | inr h2 => exact absurd h2.1 (by simp)
          · rw [lookup_del_ne _ _ _ hkk]
            exact h' ip m k id hk hi
        · simp only [hexp, ↓reduceIte]; exact h'

theorem inv_run (s : State) (o : Oracle) (T : Int) (hist : Hist) (h : Inv s o T) (hm : monoFrom T hist) :
    Inv (run s hist) (lastBan o hist) (endTime T hist) := by
  induction hist generalizing s o T with
  | nil => exact h
  | cons p rest ih =>
    obtain ⟨t, op⟩ := p
    simp only [run, lastBan, endTime]
    exact ih _ _ _ (inv_step s o T t op h hm.1) hm.2

/-- What a `Status` answers in a state that satisfies the invariant. -/
theorem status_of_inv (s : State) (o : Oracle) (T now : Int) (tg : Target) (id : NetId)
    (h : Inv s o T) (hT : T ≤ now) (hid : idOf tg = some id) :
    match o id with
    | none => (step s now (.status tg)).2 = .notBanned
    | some b =>
      b.lo = b.hi ∧
      (now < (b.lo / 1000) * 1000 → (step s now (.status tg)).2 = .banned b.reason ((b.lo / 1000) * 1000)) ∧
      (b.lo ≤ now → (step s now (.status tg)).2 = .notBanned) ∧
      ((step s now (.status tg)).2 = .notBanned ∨
       (step s now (.status tg)).2 = .banned b.reason ((b.lo / 1000) * 1000)) := by
  obtain ⟨ip, m, k, hr, hk, hi⟩ := keyOf_of_idOf hid
  have hrel := h ip m k id hk hi
  simp only [step, hr, hk]
  cases hob : o id with
  | none =>
    rw [hob] at hrel
    simp only [Rel] at hrel
    simp only [hrel]
  | some b =>
    rw [hob] at hrel
    obtain ⟨hlh, h2⟩ := hrel
    simp only
    refine ⟨hlh, ?_⟩
    cases h2 with
    | inl h2 =>
      simp only [h2]
      by_cases hexp : now ≥ b.lo / 1000 * 1000
      · simp only [hexp, ↓reduceIte]
        exact ⟨fun hlt => absurd hlt (by omega), fun _ => (by first | rfl | trivial), Or.inl (by first | rfl | trivial)⟩
      · simp only [hexp, ↓reduceIte]
        exact ⟨fun _ => (by first | rfl | trivial), fun hle => absurd hle (by omega), Or.inr (by first | rfl | trivial)⟩
    | inr h2 =>
      simp only [h2.1]
      exact ⟨fun hlt => absurd hlt (by have := h2.2; omega), fun _ => (by first | rfl | trivial), Or.inl (by first | rfl | trivial)⟩

/-! ### the store against the abstract map (1000 ms granularity) -/

def secToMs (v : Int × Nat) : Int × Nat := (v.1 * 1000, v.2)

def Sim (s : State) (sp : Spec) : Prop :=
  ∀ ip m k id, encodeKey ip m = some k → netId ip m = some id → sp id = (lookup s.recs k).map secToMs

theorem sim_init : Sim {} Spec.empty := fun _ _ _ _ _ _ => rfl

theorem sim_step (s : State) (sp : Spec) (t : Int) (op : Op) (h : Sim s sp) :
    (step s t op).2 = (Spec.step 1000 sp t op).2 ∧ Sim (step s t op).1 (Spec.step 1000 sp t op).1 := by
  cases op with
  | reopen => exact ⟨(by first | rfl | trivial), h⟩
  | ban tg r d =>
    rcases target_cases tg with hr | ⟨ip0, m0, hr, hk0, hi0⟩ | ⟨ip0, m0, k0, id0, hr, hk0, hi0⟩
    · simp only [step, Spec.step, hr]; exact ⟨(by first | rfl | trivial), h⟩
    · simp only [step, Spec.step, hr, hk0, hi0]; exact ⟨(by first | rfl | trivial), h⟩
    · simp only [step, Spec.step, hr, hk0, hi0]
      refine ⟨(by first | rfl | trivial), ?_⟩
      intro ip m k id hk hi
      have hiff := key_eq_iff_id_eq hk0 hk hi0 hi
      by_cases hid : id = id0
      · have hkk : k0 = k := hiff.mpr hid.symm
        subst hkk
        simp only [Spec.set, hid, ↓reduceIte, lookup_put_self, Option.map, secToMs]
      · have hkk : k0 ≠ k := fun e => hid (hiff.mp e).symm
        simp only [Spec.set, hid, ↓reduceIte, lookup_put_ne _ _ _ _ hkk]
        exact h ip m k id hk hi
  | unban tg =>
    rcases target_cases tg with hr | ⟨ip0, m0, hr, hk0, hi0⟩ | ⟨ip0, m0, k0, id0, hr, hk0, hi0⟩
    · simp only [step, Spec.step, hr]; exact ⟨(by first | rfl | trivial), h⟩
    · simp only [step, Spec.step, hr, hk0, hi0]; exact ⟨(by first | rfl | trivial), h⟩
    · simp only [step, Spec.step, hr, hk0, hi0]
      refine ⟨(by first | rfl | trivial), ?_⟩
      intro ip m k id hk hi
      have hiff := key_eq_iff_id_eq hk0 hk hi0 hi
      by_cases hid : id = id0
      · have hkk : k0 = k := hiff.mpr hid.symm
        subst hkk
        simp only [Spec.set, hid, ↓reduceIte, lookup_del_self, Option.map]
      · have hkk : k0 ≠ k := fun e => hid (hiff.mp e).symm
        simp only [Spec.set, hid, ↓reduceIte, lookup_del_ne _ _ _ hkk]
        exact h ip m k id hk hi
  | status tg =>
    rcases target_cases tg with hr | ⟨ip0, m0, hr, hk0, hi0⟩ | ⟨ip0, m0, k0, id0, hr, hk0, hi0⟩
    · simp only [step, Spec.step, hr]; exact ⟨(by first | rfl | trivial), h⟩
    · simp only [step, Spec.step, hr, hk0, hi0]; exact ⟨(by first | rfl | trivial), h⟩
    · simp only [step, Spec.step, hr, hk0, hi0]
      have h0 := h ip0 m0 k0 id0 hk0 hi0
      cases hl : lookup s.recs k0 with
      | none =>
        rw [hl] at h0
        simp only [Option.map] at h0
        simp only [h0]; exact ⟨(by first | rfl | trivial), h⟩
      | some v =>
        obtain ⟨e, r⟩ := v
        rw [hl] at h0
        simp only [Option.map, secToMs] at h0
        simp only [h0]
        by_cases hexp : t ≥ e * 1000
        · simp only [hexp, ↓reduceIte]
          refine ⟨(by first | rfl | trivial), ?_⟩
          intro ip m k id hk hi
          have hiff := key_eq_iff_id_eq hk0 hk hi0 hi
          by_cases hid : id = id0
          · have hkk : k0 = k := hiff.mpr hid.symm
            subst hkk
            simp only [Spec.set, hid, ↓reduceIte, lookup_del_self, Option.map]
          · have hkk : k0 ≠ k := fun e => hid (hiff.mp e).symm
            simp only [Spec.set, hid, ↓reduceIte, lookup_del_ne _ _ _ hkk]
            exact h ip m k id hk hi
        · simp only [hexp, ↓reduceIte]; exact ⟨(by first | rfl | trivial), h⟩

theorem sim_run (s : State) (sp : Spec) (hist : Hist) (h : Sim s sp) :
    outs s hist = Spec.outs 1000 sp hist ∧ Sim (run s hist) (Spec.run 1000 sp hist) := by
  induction hist generalizing s sp with
  | nil => exact ⟨(by first | rfl | trivial), h⟩
  | cons p rest ih =>
    obtain ⟨t, op⟩ := p
    obtain ⟨ho, hs⟩ := sim_step s sp t op h
    obtain ⟨ho', hs'⟩ := ih _ _ hs
    simp only [outs, Spec.outs, run, Spec.run]
    exact ⟨by rw [ho, ho'], hs'⟩

end Neutrino.Ban
