import Neutrino.Spec.Store
namespace Neutrino.Store

/-! ### Index lemmas -/

theorem height?_put (db : Db) (id h x : Nat) :
    (db.put id h).height? x = if x = id then some h else db.height? x := by
  unfold Db.put Db.height?
  by_cases hx : x = id
  · subst hx; simp
  · have h1 : (id == x) = false := by simpa using (Ne.symm hx)
    simp only [List.find?_cons, h1, hx, ↓reduceIte]
    congr 1
    induction db.idx with
    | nil => rfl
    | cons p ps ih =>
      by_cases hp : p.1 == id
      · have : (p.1 == x) = false := by
          have : p.1 = id := by simpa using hp
          simpa [this] using (Ne.symm hx)
        simp [List.filter_cons, hp, List.find?_cons, this, ih]
      · simp only [List.filter_cons, hp, Bool.not_false, ↓reduceIte, List.find?_cons]
        split
        · rfl
        · exact ih

theorem height?_del (db : Db) (id x : Nat) :
    (db.del id).height? x = if x = id then none else db.height? x := by
  unfold Db.del Db.height?
  by_cases hx : x = id
  · subst hx
    simp only [↓reduceIte, Option.map_eq_none_iff]
    apply List.find?_eq_none.mpr
    intro p hp
    have := (List.mem_filter.mp hp).2
    simpa using this
  · simp only [hx, ↓reduceIte]
    congr 1
    induction db.idx with
    | nil => rfl
    | cons p ps ih =>
      by_cases hp : p.1 == id
      · have : (p.1 == x) = false := by
          have : p.1 = id := by simpa using hp
          simpa [this] using (Ne.symm hx)
        simp [List.filter_cons, hp, List.find?_cons, this, ih]
      · simp only [List.filter_cons, hp, Bool.not_false, ↓reduceIte, List.find?_cons]
        split
        · rfl
        · exact ih

@[simp] theorem put_btip (db : Db) (id h : Nat) : (db.put id h).btip = db.btip := rfl
@[simp] theorem put_ftip (db : Db) (id h : Nat) : (db.put id h).ftip = db.ftip := rfl
@[simp] theorem del_btip (db : Db) (id : Nat) : (db.del id).btip = db.btip := rfl
@[simp] theorem del_ftip (db : Db) (id : Nat) : (db.del id).ftip = db.ftip := rfl

theorem delAll_ftip (db : Db) (ids : List Nat) : (db.delAll ids).ftip = db.ftip := by
  induction ids generalizing db with
  | nil => rfl
  | cons i is ih => simp only [Db.delAll]; rw [ih]; rfl

theorem height?_delAll (db : Db) (ids : List Nat) (x : Nat) :
    (db.delAll ids).height? x = if x ∈ ids then none else db.height? x := by
  induction ids generalizing db with
  | nil => simp [Db.delAll]
  | cons i is ih =>
    simp only [Db.delAll]
    rw [ih, height?_del]
    by_cases h1 : x ∈ is
    · simp [h1]
    · by_cases h2 : x = i
      · simp [h2]
      · simp [h1, h2]

theorem addHeaders_go_ftip (db : Db) (ids : List Nat) (s : Nat) :
    (Db.addHeaders.go db ids s).ftip = db.ftip := by
  induction ids generalizing db s with
  | nil => rfl
  | cons i is ih => simp only [Db.addHeaders.go]; rw [ih]; rfl

theorem height?_addHeaders_go (db : Db) (ids : List Nat) (s x : Nat) (hnd : ids.Nodup) :
    (Db.addHeaders.go db ids s).height? x =
      match ids.idxOf? x with
      | some j => some (s + j)
      | none => db.height? x := by
  induction ids generalizing db s with
  | nil => simp [Db.addHeaders.go, List.idxOf?]
  | cons i is ih =>
    simp only [Db.addHeaders.go]
    rw [ih _ _ (List.nodup_cons.mp hnd).2]
    by_cases hx : x = i
    · subst hx
      have hni : x ∉ is := (List.nodup_cons.mp hnd).1
      have h1 : is.idxOf? x = none := by
        simp [List.idxOf?, List.findIdx?_eq_none_iff]; intro y hy heq; subst heq; exact hni hy
      have h2 : (x :: is).idxOf? x = some 0 := by simp [List.idxOf?, List.findIdx?_cons]
      simp [h1, h2, height?_put]
    · have hcons : (i :: is).idxOf? x = (is.idxOf? x).map (· + 1) := by
        have : (i == x) = false := by simpa using (Ne.symm hx)
        simp [List.idxOf?, List.findIdx?_cons, this]
      rw [hcons]
      cases hj : is.idxOf? x with
      | none => simp [height?_put, hx]
      | some j => simp; omega

end Neutrino.Store
