/-
Lemmas for C12, "preferring peers with a better record":
  * a peer's score only moves through ranking calls that name that peer;
  * the blocking offer loop picks a worker no non-exiting entry of the ranked list beats, and its outcome is an
    `accept` the dispatcher model enables once the exits it saw have happened.
-/
import Neutrino.Model.Dispatcher
import Neutrino.Lemmas.DispatcherJobs
namespace Neutrino.Disp

/-! ### the ranking: other peers' calls never touch a peer's entry -/

theorem lookup_setScore_other (r : List (Nat × Nat)) (q p v : Nat) (h : p ≠ q) :
    (setScore r q v).lookup p = r.lookup p := by
  have hb : (p == q) = false := by simp only [beq_eq_false_iff_ne, ne_eq]; exact h
  simp only [setScore, List.lookup, hb]
  exact lookup_filter_ne _ _ _ h

theorem lookup_addPeer_other (r : List (Nat × Nat)) (q p : Nat) (h : p ≠ q) :
    (addPeer r q).lookup p = r.lookup p := by
  unfold addPeer
  split
  · rfl
  · exact lookup_setScore_other _ _ _ _ h

theorem lookup_reward_other (r : List (Nat × Nat)) (q p : Nat) (h : p ≠ q) :
    (reward r q).lookup p = r.lookup p := by
  unfold reward
  split
  · rfl
  · split
    · rfl
    · exact lookup_setScore_other _ _ _ _ h

theorem lookup_punish_other (r : List (Nat × Nat)) (q p : Nat) (h : p ≠ q) :
    (punish r q).lookup p = r.lookup p := by
  unfold punish
  split
  · rfl
  · split
    · rfl
    · exact lookup_setScore_other _ _ _ _ h

theorem lookup_resetRank_other (r : List (Nat × Nat)) (q p : Nat) (h : p ≠ q) :
    (resetRank r q).lookup p = r.lookup p := by
  unfold resetRank
  split
  · rfl
  · exact lookup_setScore_other _ _ _ _ h

/-- one ranking call on another address leaves the entry (present or absent, and its value) alone -/
theorem lookup_rankStep_other (r : List (Nat × Nat)) (o : RankOp) (p : Nat) (h : o.addr ≠ p) :
    (rankStep r o).lookup p = r.lookup p := by
  have h' : p ≠ o.addr := fun e => h e.symm
  cases o with
  | add q => exact lookup_addPeer_other r q p h'
  | reward q => exact lookup_reward_other r q p h'
  | punish q => exact lookup_punish_other r q p h'
  | reset q => exact lookup_resetRank_other r q p h'

theorem lookup_rankRun_other (r : List (Nat × Nat)) (ops : List RankOp) (p : Nat)
    (h : ∀ o ∈ ops, o.addr ≠ p) : (rankRun r ops).lookup p = r.lookup p := by
  induction ops generalizing r with
  | nil => rfl
  | cons o os ih =>
    simp only [rankRun]
    rw [ih _ (fun o' ho' => h o' (List.mem_cons_of_mem _ ho'))]
    exact lookup_rankStep_other r o p (h o List.mem_cons_self)

/-- an `AddPeer` of the peer itself never changes its (effective) score either: unknown counts as the default -/
theorem scoreOf_addPeer (r : List (Nat × Nat)) (q p : Nat) : scoreOf (addPeer r q) p = scoreOf r p := by
  by_cases h : p = q
  · subst h
    unfold addPeer
    cases hl : r.lookup p with
    | some v => rfl
    | none =>
      simp only [scoreOf_setScore_self]
      simp only [scoreOf, hl, Option.getD_none]
  · simp only [scoreOf, lookup_addPeer_other r q p h]

/-- the ranking of two runs agrees on `p` as long as the calls that name `p` are the same -/
theorem rankRun_congr (r1 r2 : List (Nat × Nat)) (ops : List RankOp) (p : Nat)
    (h : r1.lookup p = r2.lookup p) :
    (rankRun r1 ops).lookup p = (rankRun r2 (ops.filter (fun o => o.addr == p))).lookup p := by
  induction ops generalizing r1 r2 with
  | nil => exact h
  | cons o os ih =>
    simp only [List.filter_cons]
    by_cases ho : o.addr = p
    · have hb : (o.addr == p) = true := by simp only [beq_iff_eq]; exact ho
      simp only [hb, ↓reduceIte, rankRun]
      apply ih
      -- the same call on `p` in two rankings that agree on `p`
      cases o with
      | add q =>
        simp only [RankOp.addr] at ho; subst ho
        simp only [rankStep, addPeer, h]
        cases hl : r2.lookup q with
        | some v => simp only [h, hl]
        | none => simp only [setScore, List.lookup, beq_self_eq_true]
      | reward q =>
        simp only [RankOp.addr] at ho; subst ho
        simp only [rankStep, reward, h]
        cases hl : r2.lookup q with
        | none => simp only [h, hl]
        | some v =>
          dsimp only
          split
          · simp only [h, hl]
          · simp only [setScore, List.lookup, beq_self_eq_true]
      | punish q =>
        simp only [RankOp.addr] at ho; subst ho
        simp only [rankStep, punish, h]
        cases hl : r2.lookup q with
        | none => simp only [h, hl]
        | some v =>
          dsimp only
          split
          · simp only [h, hl]
          · simp only [setScore, List.lookup, beq_self_eq_true]
      | reset q =>
        simp only [RankOp.addr] at ho; subst ho
        simp only [rankStep, resetRank, h]
        cases hl : r2.lookup q with
        | none => simp only [h, hl]
        | some v => simp only [setScore, List.lookup, beq_self_eq_true]
    · have hb : (o.addr == p) = false := by simp only [beq_eq_false_iff_ne, ne_eq]; exact ho
      simp only [hb, Bool.false_eq_true, ↓reduceIte, rankRun]
      apply ih
      rw [lookup_rankStep_other r1 o p ho]; exact h

/-! ### one dispatcher step: only a result reported by `p` moves `p`'s score -/

theorem scoreOf_reward_other (r : List (Nat × Nat)) (q p : Nat) (h : p ≠ q) :
    scoreOf (reward r q) p = scoreOf r p := by simp only [scoreOf, lookup_reward_other r q p h]

theorem scoreOf_punish_other (r : List (Nat × Nat)) (q p : Nat) (h : p ≠ q) :
    scoreOf (punish r q) p = scoreOf r p := by simp only [scoreOf, lookup_punish_other r q p h]

theorem scoreOf_resetRank_other (r : List (Nat × Nat)) (q p : Nat) (h : p ≠ q) :
    scoreOf (resetRank r q) p = scoreOf r p := by simp only [scoreOf, lookup_resetRank_other r q p h]

theorem emit_rank (s : State) (b : Nat) (v : Verdict) : (emit s b v).rank = s.rank := rfl

/-- the ranking after a result step is the old one, or the old one with one call naming the reporting peer -/
theorem stepResult_rank (s : State) (q : Nat) (e : Err) :
    (stepResult s q e).1.rank = s.rank ∨ (stepResult s q e).1.rank = reward s.rank q ∨
    (stepResult s q e).1.rank = punish s.rank q ∨ (stepResult s q e).1.rank = resetRank s.rank q := by
  cases hw : findW s.workers q with
  | none => left; simp only [stepResult, hw]
  | some w =>
    cases ha : w.active with
    | none => left; simp only [stepResult, hw, ha]
    | some job =>
      cases hf : findB s.batches ((s.queries.lookup job.idx).getD 0) with
      | none => left; simp only [stepResult, hw, ha, hf]
      | some bp =>
        have key := rank_after_result s q e w job bp hw ha hf
        cases e with
        | ok => exact Or.inr (Or.inl key)
        | canceled => exact Or.inl key
        | disconnected => exact Or.inr (Or.inr (Or.inr key))
        | timeout => exact Or.inr (Or.inr (Or.inl key))
        | other => exact Or.inr (Or.inr (Or.inl key))

theorem stepWake_rank (s : State) (b g : Nat) : (stepWake s b g).1.rank = s.rank := by
  unfold stepWake
  split
  · rfl
  · split <;> rfl

theorem stepAccept_rank (s : State) (p : Nat) : (stepAccept s p).1.rank = s.rank := by
  unfold stepAccept
  split
  · rfl
  · split <;> rfl

theorem stepExit_rank (s : State) (p : Nat) : (stepExit s p).1.rank = s.rank := by
  unfold stepExit
  split <;> rfl

/-- in every state, an event that is not a result reported by `p` leaves `p`'s score where it was -/
theorem step_scoreOf_other (s : State) (e : Ev) (p : Nat) (h : ∀ err, e ≠ .result p err) :
    scoreOf (step s e).1.rank p = scoreOf s.rank p := by
  unfold step
  by_cases hq : s.quit = true
  · simp only [hq, ↓reduceIte]
    cases e <;> rfl
  · have hq' : s.quit = false := by cases hh : s.quit <;> simp_all
    simp only [hq', Bool.false_eq_true, ↓reduceIte]
    cases e with
    | quit => rfl
    | exit q => simp only [stepExit_rank]
    | elapse b => rfl
    | accept q => simp only [stepAccept_rank]
    | newBatch n nrm mr pr hn =>
      dsimp only; split
      · rfl
      · rfl
    | peer q =>
      dsimp only; split
      · rfl
      · exact scoreOf_addPeer s.rank q p
    | wake b g =>
      dsimp only; split
      · rfl
      · simp only [stepWake_rank]
    | result q err =>
      dsimp only; split
      · rfl
      · have hne : p ≠ q := by
          intro hpq; subst hpq; exact h err rfl
        rcases stepResult_rank s q err with hr | hr | hr | hr
        · rw [hr]
        · rw [hr]; exact scoreOf_reward_other _ _ _ hne
        · rw [hr]; exact scoreOf_punish_other _ _ _ hne
        · rw [hr]; exact scoreOf_resetRank_other _ _ _ hne

/-! ### the offer loop -/

/-- what the loop picks does not exit, and every entry ahead of it does -/
theorem offerLoop_spec (fate : Nat → Fate) (l : List Nat) (p : Nat) (h : offerLoop fate l = some p) :
    fate p ≠ .exits ∧ ∃ pre post, l = pre ++ p :: post ∧ ∀ q ∈ pre, fate q = .exits := by
  induction l with
  | nil => simp only [offerLoop, reduceCtorEq] at h
  | cons x xs ih =>
    simp only [offerLoop] at h
    cases hf : fate x with
    | takes n =>
      simp only [hf, Option.some.injEq] at h
      subst h
      refine ⟨by rw [hf]; exact fun c => Fate.noConfusion c, [], xs, rfl, ?_⟩
      intro q hq; exact absurd hq List.not_mem_nil
    | exits =>
      simp only [hf] at h
      obtain ⟨h1, pre, post, hl, hpre⟩ := ih h
      refine ⟨h1, x :: pre, post, by rw [hl]; rfl, ?_⟩
      intro q hq
      cases List.mem_cons.mp hq with
      | inl e => rw [e]; exact hf
      | inr m => exact hpre q m

/-- along a list with non-decreasing scores, what the loop picks is beaten by no entry that does not exit -/
theorem offerLoop_minimal (rank : List (Nat × Nat)) (fate : Nat → Fate) (l : List Nat) (p : Nat)
    (hs : l.Pairwise (fun a b => scoreOf rank a ≤ scoreOf rank b)) (h : offerLoop fate l = some p) :
    ∀ q ∈ l, fate q ≠ .exits → scoreOf rank p ≤ scoreOf rank q := by
  obtain ⟨_, pre, post, hl, hpre⟩ := offerLoop_spec fate l p h
  subst hl
  intro q hq hne
  rcases List.mem_append.mp hq with hq | hq
  · exact absurd (hpre q hq) hne
  · rcases List.mem_cons.mp hq with hq | hq
    · rw [hq]; exact Nat.le_refl _
    · have hp := (List.pairwise_append.mp hs).2.1
      exact (List.pairwise_cons.mp hp).1 q hq

/-! ### exits seen by the loop, as dispatcher events -/

theorem filter_ne_of_find_none (ws : List Worker) (p : Nat) (h : ws.find? (fun w => w.addr == p) = none) :
    ws.filter (fun w => w.addr != p) = ws := by
  induction ws with
  | nil => rfl
  | cons x xs ih =>
    simp only [List.find?_cons] at h
    cases hx : (x.addr == p) with
    | true => simp only [hx] at h; cases h
    | false =>
      simp only [hx] at h
      have : (x.addr != p) = true := by simp only [bne, hx, Bool.not_false]
      simp only [List.filter_cons, this, ↓reduceIte, ih h]

theorem freeLive_stepExit (s : State) (p : Nat) :
    freeLive (stepExit s p).1 = (freeLive s).filter (fun w => w.addr != p) := by
  unfold stepExit
  cases hw : findW s.workers p with
  | none =>
    dsimp only
    unfold findW at hw
    simp only [freeLive]
    rw [List.filter_filter]
    have := filter_ne_of_find_none s.workers p hw
    conv => lhs; rw [← this]
    rw [List.filter_filter]
    congr 1
    funext w
    exact Bool.and_comm _ _
  | some w =>
    dsimp only
    have hwp : w.addr = p := by
      unfold findW at hw
      have := List.find?_some hw
      simpa only [beq_iff_eq] using this
    simp only [freeLive, setW, List.filter_cons, Bool.not_true, Bool.and_false, Bool.false_eq_true, ↓reduceIte, hwp]
    rw [List.filter_filter, List.filter_filter]
    congr 1
    funext x
    exact Bool.and_comm _ _

theorem step_exit_eq (s : State) (p : Nat) (hq : s.quit = false) : (step s (.exit p)).1 = (stepExit s p).1 := by
  simp only [step, hq, Bool.false_eq_true, ↓reduceIte]

theorem stepExit_keeps (s : State) (p : Nat) :
    (stepExit s p).1.quit = s.quit ∧ (stepExit s p).1.rank = s.rank ∧ (stepExit s p).1.work = s.work := by
  unfold stepExit
  split <;> exact ⟨rfl, rfl, rfl⟩

/-- after the exits of `qs` the free running workers are the old ones minus `qs`; nothing else the hand-out looks at moves -/
theorem run_exits (s : State) (qs : List Nat) (hq : s.quit = false) :
    freeLive (run s (qs.map Ev.exit)) = (freeLive s).filter (fun w => !qs.contains w.addr) ∧
    (run s (qs.map Ev.exit)).quit = false ∧ (run s (qs.map Ev.exit)).rank = s.rank ∧
    (run s (qs.map Ev.exit)).work = s.work := by
  induction qs generalizing s with
  | nil =>
    refine ⟨?_, hq, rfl, rfl⟩
    simp only [List.map_nil, run, List.contains_nil, Bool.not_false]
    exact (List.filter_eq_self.mpr (fun _ _ => rfl)).symm
  | cons q qs ih =>
    simp only [List.map_cons, run]
    rw [step_exit_eq s q hq]
    obtain ⟨k1, k2, k3⟩ := stepExit_keeps s q
    obtain ⟨i1, i2, i3, i4⟩ := ih (stepExit s q).1 (by rw [k1]; exact hq)
    refine ⟨?_, i2, by rw [i3, k2], by rw [i4, k3]⟩
    rw [i1, freeLive_stepExit, List.filter_filter]
    congr 1
    funext w
    simp only [List.contains_cons, Bool.not_or, bne, Bool.and_comm]

end Neutrino.Disp
