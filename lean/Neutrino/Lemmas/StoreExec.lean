import Neutrino.Lemmas.StoreOps
namespace Neutrino.Store

@[simp] theorem firesAt_none (s : Nat) : Inj.firesAt .none s = false := rfl

theorem len_pred_succ {α} {l : List α} (h : l ≠ []) : l.length - 1 + 1 = l.length := by
  cases l with
  | nil => exact absurd rfl h
  | cons a as => simp

/-- appending fresh ids to the block file and the index keeps `Rep` -/
theorem rep_append_blocks {d : Durable} {l : Log} (h : Rep d l) {ids : List Nat}
    (hnd : ids.Nodup) (hfresh : ∀ x ∈ ids, x ∉ l.blocks) (hne : ids ≠ []) :
    Rep { d with bf := { ents := l.blocks ++ ids }, db := d.db.addHeaders ids l.blocks.length }
        { l with blocks := l.blocks ++ ids } := by
  have hidx : ∀ x, (d.db.addHeaders ids l.blocks.length).height? x =
      match ids.idxOf? x with
      | some j => some (l.blocks.length + j)
      | none => d.db.height? x := fun x => height?_addHeaders _ _ _ _ hnd
  refine ⟨rfl, h.fents, by simp [h.neB], h.neF, ?_, ?_, ?_, ?_, ?_, ?_⟩
  · -- nodup
    rw [List.nodup_append]
    exact ⟨h.nodup, hnd, fun a ha b hb heq => hfresh b hb (heq ▸ ha)⟩
  · -- idxPos
    intro i id hget
    simp only at hget ⊢
    rw [hidx]
    by_cases hi : i < l.blocks.length
    · rw [List.getElem?_append_left hi] at hget
      have hmem : id ∈ l.blocks := List.mem_of_getElem? hget
      have : ids.idxOf? id = none := by
        simp only [List.idxOf?, List.findIdx?_eq_none_iff]
        intro y hy
        simp only [beq_eq_false_iff_ne, ne_eq]
        intro heq; subst heq; exact hfresh y hy hmem
      simp only [this]
      exact h.idxPos i id hget
    · have hi' : l.blocks.length ≤ i := by omega
      rw [List.getElem?_append_right hi'] at hget
      have hj : ids.idxOf? id = some (i - l.blocks.length) := by
        have hlt : i - l.blocks.length < ids.length := by
          have := (List.getElem?_eq_some_iff.mp hget).1; exact this
        have hge := (List.getElem?_eq_some_iff.mp hget).2
        simp only [List.idxOf?]
        rw [List.findIdx?_eq_some_iff_getElem]
        refine ⟨hlt, by simp [hge], ?_⟩
        intro j hjlt
        have hjlt' : j < ids.length := by omega
        have hne' : ids[j] ≠ ids[i - l.blocks.length] := by
          intro heq
          have := (List.getElem?_inj hjlt' hnd (j := i - l.blocks.length)).mp
            (by simp [List.getElem?_eq_getElem, hjlt', hlt, heq])
          omega
        simp [hge ▸ hne']
      simp only [hj]
      congr 1; omega
  · -- idxOnly
    intro id hh hget
    simp only at hget ⊢
    rw [hidx] at hget
    cases hj : ids.idxOf? id with
    | some j =>
      simp only [hj, Option.some.injEq] at hget
      subst hget
      simp only [List.idxOf?] at hj
      rw [List.findIdx?_eq_some_iff_getElem] at hj
      obtain ⟨hlt, hp, _⟩ := hj
      have : ids[j] = id := by simpa using hp
      rw [List.getElem?_append_right (by omega)]
      simp [hlt, this]
    | none =>
      simp only [hj] at hget
      have := h.idxOnly id hh hget
      have hlt := (List.getElem?_eq_some_iff.mp this).1
      rw [List.getElem?_append_left hlt]; exact this
  · -- btip
    simp only [addHeaders_btip]
    cases hl : ids.getLast? with
    | none => exact absurd (List.getLast?_eq_none_iff.mp hl) hne
    | some t =>
      simp only [Option.orElse]
      rw [List.getLast?_append, hl]; rfl
  · -- ftip
    obtain ⟨b, hb, hh⟩ := h.ftip
    refine ⟨b, by rw [addHeaders_ftip]; exact hb, ?_⟩
    rw [hidx]
    have hbmem : b ∈ l.blocks := List.mem_of_getElem? (h.idxOnly b _ hh)
    have : ids.idxOf? b = none := by
      simp only [List.idxOf?, List.findIdx?_eq_none_iff]
      intro y hy
      simp only [beq_eq_false_iff_ne, ne_eq]
      intro heq; subst heq; exact hfresh y hy hbmem
    simp only [this]; exact hh
  · simp only [List.length_append]; have := h.fle; omega


theorem getElem?_take_lt {α} {l : List α} {n i : Nat} (h : i < n) : (l.take n)[i]? = l[i]? := by
  simp [List.getElem?_take, h]

/-- dropping the last `n` block entries from the file and the index keeps `Rep` -/
theorem rep_drop_blocks {d : Durable} {l : Log} (h : Rep d l) {n : Nat}
    (hn : n < l.blocks.length) (hf : l.filters.length ≤ l.blocks.length - n) {prev : Nat}
    (hprev : l.blocks[l.blocks.length - n - 1]? = some prev) :
    Rep { d with bf := { ents := l.blocks.take (l.blocks.length - n) },
                 db := { d.db.delAll (l.blocks.drop (l.blocks.length - n)) with btip := some prev } }
        { l with blocks := l.blocks.take (l.blocks.length - n) } := by
  have hidx : ∀ x, ({ d.db.delAll (l.blocks.drop (l.blocks.length - n)) with btip := some prev } : Db).height? x =
      if x ∈ l.blocks.drop (l.blocks.length - n) then none else d.db.height? x :=
    fun x => height?_delAll _ _ x
  have hsplit : l.blocks = l.blocks.take (l.blocks.length - n) ++ l.blocks.drop (l.blocks.length - n) :=
    (List.take_append_drop _ _).symm
  have hnd : (l.blocks.take (l.blocks.length - n) ++ l.blocks.drop (l.blocks.length - n)).Nodup := by
    rw [← hsplit]; exact h.nodup
  have hdisj := (List.nodup_append.mp hnd).2.2
  refine ⟨rfl, h.fents, ?_, h.neF, (List.nodup_append.mp hnd).1, ?_, ?_, ?_, ?_, ?_⟩
  · intro hc
    have := congrArg List.length hc
    simp at this; omega
  · intro i id hget
    simp only at hget ⊢
    have hi : i < l.blocks.length - n := by
      have := (List.getElem?_eq_some_iff.mp hget).1; simp at this; omega
    rw [getElem?_take_lt hi] at hget
    rw [hidx]
    have hmem : id ∈ l.blocks.take (l.blocks.length - n) := by
      apply List.mem_of_getElem? (i := i); rw [getElem?_take_lt hi]; exact hget
    have : id ∉ l.blocks.drop (l.blocks.length - n) := fun hc => hdisj id hmem id hc rfl
    simp only [this, ↓reduceIte]
    exact h.idxPos i id hget
  · intro id hh hget
    simp only at hget ⊢
    rw [hidx] at hget
    by_cases hm : id ∈ l.blocks.drop (l.blocks.length - n)
    · simp [hm] at hget
    · simp only [hm, ↓reduceIte] at hget
      have hpos := h.idxOnly id hh hget
      have hlt : hh < l.blocks.length - n := by
        -- otherwise id would be among the dropped entries
        by_cases hc : hh < l.blocks.length - n
        · exact hc
        · exfalso
          apply hm
          have hlt' := (List.getElem?_eq_some_iff.mp hpos).1
          have : (l.blocks.drop (l.blocks.length - n))[hh - (l.blocks.length - n)]? = some id := by
            rw [List.getElem?_drop]; rw [← hpos]; congr 1; omega
          exact List.mem_of_getElem? this
      rw [getElem?_take_lt hlt]; exact hpos
  · simp only
    rw [List.getLast?_eq_getElem?]
    simp only [List.length_take]
    have : min (l.blocks.length - n) l.blocks.length = l.blocks.length - n := by omega
    rw [this, getElem?_take_lt (by omega)]
    exact hprev.symm
  · obtain ⟨b, hb, hbh⟩ := h.ftip
    refine ⟨b, by simp only [delAll_ftip]; exact hb, ?_⟩
    rw [hidx]
    have hpos := h.idxOnly b _ hbh
    have hlt : l.filters.length - 1 < l.blocks.length - n := by
      have := h.neF
      have : 0 < l.filters.length := List.length_pos_iff.mpr this
      omega
    have hmem : b ∈ l.blocks.take (l.blocks.length - n) := by
      apply List.mem_of_getElem? (i := l.filters.length - 1); rw [getElem?_take_lt hlt]; exact hpos
    have : b ∉ l.blocks.drop (l.blocks.length - n) := fun hc => hdisj b hmem b hc rfl
    simp only [this, ↓reduceIte]; exact hbh
  · simp only [List.length_take]; omega

/-- appending filter headers for existing blocks keeps `Rep` -/
theorem rep_append_filters {d : Durable} {l : Log} (h : Rep d l) {fids : List Nat} {last : Nat}
    (hne : fids ≠ []) (hroom : l.filters.length + fids.length ≤ l.blocks.length)
    (hlast : l.blocks[l.filters.length - 1 + fids.length]? = some last) :
    Rep { d with ff := { ents := l.filters ++ fids }, db := { d.db with ftip := some last } }
        { l with filters := l.filters ++ fids } := by
  refine ⟨h.bents, rfl, h.neB, by simp [h.neF], h.nodup, h.idxPos, h.idxOnly, h.btip, ?_, ?_⟩
  · refine ⟨last, rfl, ?_⟩
    have := h.idxPos _ _ hlast
    simp only [List.length_append]
    have h0 : 0 < l.filters.length := List.length_pos_iff.mpr h.neF
    have : l.filters.length - 1 + fids.length = l.filters.length + fids.length - 1 := by omega
    rw [← this]; assumption
  · simp only [List.length_append]; exact hroom

/-- dropping the last filter header keeps `Rep` -/
theorem rep_drop_filter {d : Durable} {l : Log} (h : Rep d l) (hlen : 1 < l.filters.length) {nt : Nat}
    (hnt : l.blocks[l.filters.length - 2]? = some nt) :
    Rep { d with ff := { ents := l.filters.take (l.filters.length - 1) }, db := { d.db with ftip := some nt } }
        { l with filters := l.filters.take (l.filters.length - 1) } := by
  refine ⟨h.bents, rfl, h.neB, ?_, h.nodup, h.idxPos, h.idxOnly, h.btip, ?_, ?_⟩
  · intro hc
    have := congrArg List.length hc
    simp at this; omega
  · refine ⟨nt, rfl, ?_⟩
    have := h.idxPos _ _ hnt
    simp only [List.length_take]
    have : min (l.filters.length - 1) l.filters.length - 1 = l.filters.length - 2 := by omega
    rw [this]; assumption
  · simp only [List.length_take]; have := h.fle; omega

end Neutrino.Store
