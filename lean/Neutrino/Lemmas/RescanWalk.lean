/- Walk and retry-queue lemmas for the rescan model (core Lean only). -/
import Neutrino.Spec.Rescan
namespace Neutrino.Rescan

/-! ### walk bookkeeping -/

/-- the caller's current block after a list of callbacks (`none`: the walk broke) -/
def walkEnd (W : World) : Nat → List Cb → Option Nat
  | cur, [] => some cur
  | cur, c :: cs =>
    match walkStep W cur c with
    | none => none
    | some cur' => walkEnd W cur' cs

theorem walkFrom_append (W : World) (a b : List Cb) (cur : Nat) :
    walkFrom W cur (a ++ b) = match walkEnd W cur a with
      | none => false
      | some c => walkFrom W c b := by
  induction a generalizing cur with
  | nil => simp only [List.nil_append, walkEnd]
  | cons x xs ih =>
    simp only [List.cons_append, walkFrom, walkEnd]
    cases h : walkStep W cur x with
    | none => rfl
    | some c => exact ih c

theorem walkEnd_append (W : World) (a b : List Cb) (cur c : Nat) (h : walkEnd W cur a = some c) :
    walkEnd W cur (a ++ b) = walkEnd W c b := by
  induction a generalizing cur with
  | nil => simp only [walkEnd, Option.some.injEq] at h; subst h; rfl
  | cons x xs ih =>
    simp only [List.cons_append, walkEnd] at h ⊢
    cases hx : walkStep W cur x with
    | none => simp only [hx] at h; cases h
    | some c' => simp only [hx] at h ⊢; exact ih c' h

/-! ### dead states are silent -/

theorem step_dead (W : World) (s : St) (e : Ev) (h : s.dead = true) :
    (step W s e).2 = [] ∧ (step W s e).1.dead = true := by
  cases e <;> simp [step, h]

theorem run_dead (W : World) (evs : List Ev) (s : St) (h : s.dead = true) : (run W s evs).2 = [] := by
  induction evs generalizing s with
  | nil => rfl
  | cons e es ih =>
    have hd := step_dead W s e h
    simp only [run, hd.1, List.nil_append]
    exact ih _ hd.2

/-! ### the current arm -/

/-- what `handleConnected` can return -/
theorem handleConnected_shape (W : World) (s : St) (b : Nat) :
    let r := handleConnected W s b
    r.1.queue = s.queue ∧ r.1.current = s.current ∧ r.1.dead = s.dead ∧ r.1.timer = s.timer ∧
    ((r.2.2 = .ok ∧ W.prev b = s.cur ∧ r.1.cur = b ∧ ∃ h txs, r.2.1 = [Cb.conn h b txs]) ∨
     (r.2.2 ≠ .ok ∧ r.2.1 = [] ∧ r.1.cur = s.cur)) := by
  unfold handleConnected
  dsimp only
  repeat' split
  all_goals simp_all

def connIds : List Cb → List Nat
  | [] => []
  | .conn _ id _ :: r => id :: connIds r
  | _ :: r => connIds r

theorem connIds_append (a b : List Cb) : connIds (a ++ b) = connIds a ++ connIds b := by
  induction a with
  | nil => rfl
  | cons x xs ih => cases x <;> simp [connIds, ih]

/-- the retry loop delivers a prefix of the queue, in order, keeps the rest, and walks correctly -/
theorem retryLoop_spec (W : World) (n : Nat) (s : St) (hn : s.queue.length ≤ n) :
    let r := retryLoop W n s
    (∃ k, connIds r.2 = s.queue.take k ∧ r.1.queue = s.queue.drop k) ∧
    r.1.dead = s.dead ∧
    (∃ c, walkEnd W s.cur r.2 = some c ∧ c = r.1.cur) := by
  induction n generalizing s with
  | zero =>
    have : s.queue = [] := by cases hq : s.queue with
      | nil => rfl
      | cons a l => simp [hq] at hn
    simp only [retryLoop]
    refine ⟨⟨0, ?_, ?_⟩, ?_, s.cur, ?_, ?_⟩ <;> simp [connIds, walkEnd]
  | succ n ih =>
    cases hq : s.queue with
    | nil =>
      simp only [retryLoop, hq]
      refine ⟨⟨0, ?_, ?_⟩, ?_, s.cur, ?_, ?_⟩ <;> simp [connIds, walkEnd]
    | cons b rest =>
      have hs := handleConnected_shape W s b
      simp only [retryLoop, hq]
      generalize handleConnected W s b = r at hs
      obtain ⟨s', cbs, hr⟩ := r
      simp only at hs
      obtain ⟨hqq, _, hdd, _, hcase⟩ := hs
      cases hr with
      | ok =>
        rcases hcase with ⟨_, hp, hcur, h, txs, hcb⟩ | ⟨hne, _, _⟩
        · have hlen : ({ s' with queue := rest } : St).queue.length ≤ n := by
            simp only; rw [hq] at hn; simp at hn; omega
          have := ih { s' with queue := rest } hlen
          simp only at this
          obtain ⟨⟨k, hk1, hk2⟩, hd2, c, hw, hc⟩ := this
          subst hcb
          refine ⟨⟨k + 1, ?_, ?_⟩, ?_, c, ?_, hc⟩
          · simp [connIds, hk1]
          · simp [hk2]
          · simp only [hd2]; exact hdd
          · simp only [List.cons_append, List.nil_append, walkEnd, walkStep, hp, beq_self_eq_true, ↓reduceIte]
            rw [← hcur]; exact hw
        · exact absurd rfl hne
      | retry =>
        rcases hcase with ⟨h, _⟩ | ⟨_, hcb, hcur⟩
        · cases h
        · subst hcb
          exact ⟨⟨0, by simp [connIds], by simp [hqq, hq]⟩, hdd, s.cur, rfl, hcur.symm⟩
      | err =>
        rcases hcase with ⟨h, _⟩ | ⟨_, hcb, hcur⟩
        · cases h
        · subst hcb
          exact ⟨⟨0, by simp [connIds], by simp [hqq, hq]⟩, hdd, s.cur, rfl, hcur.symm⟩

/-! ### queue truncation -/

theorem qRemove_prefix (q : List Nat) (b : Nat) : ∃ k, qRemove q b = q.take k := by
  induction q with
  | nil => exact ⟨0, rfl⟩
  | cons x r ih =>
    simp only [qRemove]
    by_cases h : (x == b) = true
    · exact ⟨0, by simp [h]⟩
    · obtain ⟨k, hk⟩ := ih
      exact ⟨k + 1, by simp [h, hk]⟩

theorem qRemove_not_mem (q : List Nat) (b : Nat) (h : b ∉ q) : qRemove q b = q := by
  induction q with
  | nil => rfl
  | cons x r ih =>
    simp only [List.mem_cons, not_or] at h
    have hx : (x == b) = false := by simp; exact fun e => h.1 e.symm
    simp only [qRemove, hx, Bool.false_eq_true, ↓reduceIte, ih h.2]

/-! ### rewind -/

theorem rewindLoop_walk (W : World) (r : Nat) (n : Nat) (s : St) (rw : Bool) :
    let x := rewindLoop W r false n s rw
    x.1.dead = s.dead ∧ x.1.queue = s.queue ∧ x.1.current = s.current ∧
    ∃ c, walkEnd W s.cur x.2.1 = some c ∧ (x.2.2.2 = true ∨ c = x.1.cur) := by
  induction n generalizing s rw with
  | zero => simp only [rewindLoop]; refine ⟨?_, ?_, ?_, s.cur, ?_, ?_⟩ <;> simp [walkEnd]
  | succ n ih =>
    simp only [rewindLoop]
    by_cases h : s.curH > r
    · simp only [h, ↓reduceIte, Bool.false_eq_true]
      by_cases hp : (!s.chain.contains (W.prev s.cur)) = true
      · simp only [hp, ↓reduceIte]
        refine ⟨?_, ?_, ?_, W.prev s.cur, ?_, ?_⟩ <;> simp [walkEnd, walkStep]
      · have hp' : (!s.chain.contains (W.prev s.cur)) = false := by simpa using hp
        simp only [hp', Bool.false_eq_true, ↓reduceIte]
        have := ih { s with cur := W.prev s.cur, curH := W.height (W.prev s.cur) } true
        obtain ⟨h1, h2, h3, c, hw, hc⟩ := this
        refine ⟨h1, h2, h3, c, ?_, hc⟩
        simp only [List.cons_append, List.nil_append, walkEnd, walkStep, beq_self_eq_true, ↓reduceIte]
        exact hw
    · simp only [h, ↓reduceIte]
      refine ⟨?_, ?_, ?_, s.cur, ?_, ?_⟩ <;> simp [walkEnd]

theorem rewindLoop_noConn (W : World) (r : Nat) (quiet : Bool) (n : Nat) (s : St) (rw : Bool) :
    connIds (rewindLoop W r quiet n s rw).2.1 = [] ∧ (rewindLoop W r quiet n s rw).1.queue = s.queue := by
  induction n generalizing s rw with
  | zero => simp [rewindLoop, connIds]
  | succ n ih =>
    simp only [rewindLoop]
    by_cases h : s.curH > r
    · simp only [h, ↓reduceIte]
      by_cases hp : (!s.chain.contains (W.prev s.cur)) = true
      · simp only [hp, ↓reduceIte]
        cases quiet <;> simp [connIds]
      · have hp' : (!s.chain.contains (W.prev s.cur)) = false := by simpa using hp
        simp only [hp', Bool.false_eq_true, ↓reduceIte]
        have := ih { s with cur := W.prev s.cur, curH := W.height (W.prev s.cur) } true
        cases quiet <;> simp [connIds_append, connIds, this.1, this.2]
    · simp [h, connIds]

theorem rewindLoop_queue (W : World) (r : Nat) (quiet : Bool) (n : Nat) (s : St) (rw : Bool) :
    (rewindLoop W r quiet n s rw).1.queue = s.queue := (rewindLoop_noConn W r quiet n s rw).2

end Neutrino.Rescan
