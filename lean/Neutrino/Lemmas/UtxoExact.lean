/-
The exact-answer invariant for C10: when duplicate requests for an outpoint all name the same start height, the
initial report stored for an entry is the one of every member's start block, so unspent answers are the fate.
-/
import Neutrino.Lemmas.UtxoPerm
namespace Neutrino.Utxo

/-- the request entered the scanner at some point -/
def Entered (w : World) (init : List Req) (q : Req) : Prop := ∃ k, q ∈ init ++ arrived w k

theorem arrived_mono (w : World) (q : Req) (k : Nat) (hq : q ∈ arrived w k) :
    ∀ j, q ∈ arrived w (k + j)
  | 0 => hq
  | j + 1 => by
    show q ∈ arrived w (k + j) ++ w.arrive (k + j + 1)
    exact List.mem_append_left _ (arrived_mono w q k hq j)

theorem Entered.mono {w : World} {init : List Req} {q : Req} {k : Nat} (hq : q ∈ init ++ arrived w k)
    (k' : Nat) (hk : k ≤ k') : q ∈ init ++ arrived w k' := by
  rcases List.mem_append.1 hq with h | h
  · exact List.mem_append_left _ h
  · have := arrived_mono w q k h (k' - k)
    have he : k + (k' - k) = k' := by omega
    rw [he] at this
    exact List.mem_append_right _ this

theorem Entered.sameBirth {w : World} {init : List Req} (hsb : ∀ k, SameBirth (init ++ arrived w k))
    {a b : Req} (ha : Entered w init a) (hb : Entered w init b) (hop : a.op = b.op) : a.birth = b.birth := by
  obtain ⟨ka, ha⟩ := ha
  obtain ⟨kb, hb⟩ := hb
  exact hsb (max ka kb) a (Entered.mono ha _ (Nat.le_max_left _ _)) b (Entered.mono hb _ (Nat.le_max_right _ _)) hop

theorem Cons.entered_pq {w : World} {init : List Req} {st : St} (hc : Cons w init st) {q : Req}
    (hq : q ∈ st.pq) : Entered w init q := by
  refine ⟨st.k, ?_⟩
  apply List.count_pos_iff.1
  rw [← hc q]
  have : 0 < List.count q st.pq := List.count_pos_iff.2 hq
  simp only [holds, List.count_append]
  omega

theorem Cons.entered_newAt {w : World} {init : List Req} {st : St} (hc : Cons w init st) {h : Nat} {q : Req}
    (hq : q ∈ newAt w h st) : Entered w init q := by
  simp only [newAt, List.mem_filter, List.mem_append] at hq
  rcases hq.1 with h1 | h1
  · exact hc.entered_pq h1
  · exact ⟨st.k + 1, List.mem_append_right _ (List.mem_append_right _ h1)⟩

/-! ### the invariant -/

def EntX (w : World) (init : List Req) (h : Nat) (e : Entry) : Prop :=
  e.reqs ≠ [] ∧
  ∀ q ∈ e.reqs, Entered w init q ∧ q.op = e.op ∧ q.birth ≤ h ∧ NoSpend w.chain e.op q.birth h ∧
    e.init = initialAt w.chain q.birth e.op

def EntsX (w : World) (init : List Req) (h : Nat) (ents : List Entry) : Prop := ∀ e ∈ ents, EntX w init h e

def OutX (c : Chain) (out : List Deliv) : Prop := ∀ d ∈ out, delivExact c d

theorem OutX.append {c : Chain} {a b : List Deliv} (ha : OutX c a) (hb : OutX c b) : OutX c (a ++ b) := by
  intro d hd
  rcases List.mem_append.1 hd with h | h
  · exact ha d h
  · exact hb d h

theorem EntsX.nil (w : World) (init : List Req) (h : Nat) : EntsX w init h [] := by
  intro e he; cases he

theorem failAll_x (c : Chain) (ents : List Entry) (e : Err) (u : Nat) : OutX c (failAll ents e u) := by
  intro d hd
  simp only [failAll, List.mem_flatMap, List.mem_map] at hd
  obtain ⟨en, _, q, _, rfl⟩ := hd
  simp only [delivExact]

theorem failNew_x (c : Chain) (new : List Req) (e : Err) (u : Nat) : OutX c (failNew new e u) := by
  intro d hd
  simp only [failNew, List.mem_map] at hd
  obtain ⟨q, _, rfl⟩ := hd
  simp only [delivExact]

theorem mergeInit_self (x : Report) : mergeInit x x = x := by
  unfold mergeInit; split <;> rfl

theorem joinReq_x (w : World) (init : List Req) (hsb : ∀ k, SameBirth (init ++ arrived w k))
    (h : Nat) (r : Req) (hr : r.birth = h) (hS : Entered w init r) :
    ∀ (ents : List Entry), EntsX w init h ents → EntsX w init h (joinReq (blockAt w.chain h) h ents r)
  | [], _ => by
    intro e he
    simp only [joinReq, List.mem_singleton] at he
    subst he
    refine ⟨by simp, ?_⟩
    intro q hq
    simp only [List.mem_singleton] at hq
    subst hq
    refine ⟨hS, rfl, by omega, ?_, ?_⟩
    · rw [hr]; exact NoSpend.refl _ _ _
    · rw [hr]; rfl
  | e :: es, hok => by
    have he : EntX w init h e := hok e (List.mem_cons_self ..)
    have hes : EntsX w init h es := fun x hx => hok x (List.mem_cons_of_mem _ hx)
    simp only [joinReq]
    by_cases hop : e.op = r.op
    · simp only [hop, ↓reduceIte]
      intro x hx
      rcases List.mem_cons.1 hx with hx | hx
      · subst hx
        -- some member already there: it has the same start height as `r`
        have hinit : e.init = initialIn (blockAt w.chain h) h r.op := by
          cases hreqs : e.reqs with
          | nil => exact absurd hreqs he.1
          | cons q0 rest =>
            have h0 := he.2 q0 (by rw [hreqs]; exact List.mem_cons_self ..)
            have hb : q0.birth = r.birth := Entered.sameBirth hsb h0.1 hS (by rw [h0.2.1, hop])
            rw [h0.2.2.2.2, hb, hr, hop]; rfl
        rw [← hinit, mergeInit_self]
        refine ⟨by simp, ?_⟩
        intro q hq
        rcases List.mem_append.1 hq with hq | hq
        · have := he.2 q hq
          rw [hop] at this
          exact this
        · simp only [List.mem_singleton] at hq
          subst hq
          refine ⟨hS, rfl, by omega, ?_, ?_⟩
          · rw [hr]; exact NoSpend.refl _ _ _
          · rw [hr]; exact hinit
      · exact hes x hx
    · simp only [hop, ↓reduceIte]
      intro x hx
      rcases List.mem_cons.1 hx with hx | hx
      · subst hx; exact he
      · exact joinReq_x w init hsb h r hr hS es hes x hx

theorem addNew_x (w : World) (init : List Req) (hsb : ∀ k, SameBirth (init ++ arrived w k)) (h : Nat) :
    ∀ (new : List Req) (ents : List Entry), (∀ q ∈ new, q.birth = h ∧ Entered w init q) → EntsX w init h ents →
      EntsX w init h (addNew (blockAt w.chain h) h ents new)
  | [], _, _, hok => hok
  | r :: rs, ents, hb, hok => by
    simp only [addNew, List.foldl_cons]
    have hr := hb r (List.mem_cons_self ..)
    exact addNew_x w init hsb h rs _ (fun q hq => hb q (List.mem_cons_of_mem _ hq))
      (joinReq_x w init hsb h r hr.1 hr.2 ents hok)

theorem EntX.succ {w : World} {init : List Req} {h : Nat} {e : Entry} (he : EntX w init h e)
    (hs : spendIn (blockAt w.chain h) e.op = none) : EntX w init (h + 1) e := by
  refine ⟨he.1, ?_⟩
  intro q hq
  have := he.2 q hq
  exact ⟨this.1, this.2.1, by omega, this.2.2.2.1.succ hs, this.2.2.2.2⟩

theorem notifySpends_x (w : World) (init : List Req) (h : Nat) :
    ∀ (ents : List Entry), EntsX w init h ents →
      EntsX w init (h + 1) (notifySpends (blockAt w.chain h) h ents).1 ∧
        OutX w.chain (notifySpends (blockAt w.chain h) h ents).2
  | [], _ => ⟨EntsX.nil _ _ _, by intro d hd; cases hd⟩
  | e :: es, hok => by
    have he : EntX w init h e := hok e (List.mem_cons_self ..)
    have hes : EntsX w init h es := fun x hx => hok x (List.mem_cons_of_mem _ hx)
    have ih := notifySpends_x w init h es hes
    simp only [notifySpends]
    cases hs : spendIn (blockAt w.chain h) e.op with
    | none =>
      refine ⟨?_, ih.2⟩
      intro x hx
      rcases List.mem_cons.1 hx with hx | hx
      · subst hx; exact he.succ hs
      · exact ih.1 x hx
    | some ti =>
      obtain ⟨t, i⟩ := ti
      refine ⟨ih.1, OutX.append ?_ ih.2⟩
      intro d hd
      simp only [List.mem_map] at hd
      obtain ⟨q, hq, rfl⟩ := hd
      have hq' := he.2 q hq
      simp only [delivExact, answerExact, fate]
      rw [hq'.2.1, firstSpendFrom_hit' w.chain e.op q.birth h t i hq'.2.2.1 hq'.2.2.2.1 hs]

theorem notifyUnspent_x (w : World) (init : List Req) (u : Nat) (ents : List Entry)
    (hok : EntsX w init (u + 1) ents) : OutX w.chain (notifyUnspent ents u) := by
  intro d hd
  simp only [notifyUnspent, List.mem_flatMap, List.mem_map] at hd
  obtain ⟨e, he, q, hq, rfl⟩ := hd
  have hq' := (hok e he).2 q hq
  simp only [delivExact, answerExact, fate]
  rw [hq'.2.1, firstSpendFrom_none' w.chain e.op q.birth u hq'.2.2.1 hq'.2.2.2.1]
  exact hq'.2.2.2.2

def StepX (w : World) (init : List Req) (h : Nat) : Step → Prop
  | .cont st' => EntsX w init (h + 1) st'.ents ∧ OutX w.chain st'.out
  | .fail st' => OutX w.chain st'.out

theorem fetchStep_x (w : World) (init : List Req) (hsb : ∀ k, SameBirth (init ++ arrived w k))
    (h : Nat) (st : St) (new : List Req) (hb : ∀ q ∈ new, q.birth = h ∧ Entered w init q)
    (he : EntsX w init h st.ents) (ho : OutX w.chain st.out) :
    StepX w init h (fetchStep w h st new) := by
  apply fetchStep_cases
  · intro _; exact OutX.append (OutX.append ho (failNew_x _ _ _ _)) (failAll_x _ _ _ _)
  · intro _ _; exact OutX.append (OutX.append ho (failNew_x _ _ _ _)) (failAll_x _ _ _ _)
  · intro _ _
    have := notifySpends_x w init h _ (addNew_x w init hsb h new st.ents hb he)
    exact ⟨this.1, OutX.append ho this.2⟩

theorem stepH_x (w : World) (hf : FilterSound w) (init : List Req)
    (hsb : ∀ k, SameBirth (init ++ arrived w k)) (h : Nat) (st : St) (hc : Cons w init st)
    (he : EntsX w init h st.ents) (ho : OutX w.chain st.out) :
    StepX w init h (stepH w h st) := by
  apply stepH_cases
  · intro _; exact OutX.append ho (failAll_x _ _ _ _)
  · intro _ _; exact OutX.append ho (failAll_x _ _ _ _)
  · intro _ _ _; exact OutX.append ho (failAll_x _ _ _ _)
  · intro _ _ hv
    refine ⟨?_, ho⟩
    intro e hin
    apply (he e hin).succ
    cases hs : spendIn (blockAt w.chain h) e.op with
    | none => rfl
    | some ti =>
      exfalso
      exact hf (st.k + 1) h (st.ents.map (·.op)) e.op (List.mem_map_of_mem hin) (by rw [hs]; simp) hv
  · intro _ _
    exact fetchStep_x w init hsb h (st3 w h st) [] (fun q hq => by cases hq) he ho
  · intro _
    exact fetchStep_x w init hsb h (st2 w h st) (newAt w h st)
      (fun q hq => ⟨mem_newAt hq, hc.entered_newAt hq⟩) he ho

theorem scan_x (w : World) (hf : FilterSound w) (init : List Req)
    (hsb : ∀ k, SameBirth (init ++ arrived w k)) :
    ∀ (fuel h endH : Nat) (st : St), h ≤ endH + 1 → Cons w init st → EntsX w init h st.ents →
      OutX w.chain st.out → OutX w.chain (scan w fuel h endH st).2.out
  | 0, _, _, _, _, _, _, ho => ho
  | fuel + 1, h, endH, st, hle, hc, he, ho => by
    simp only [scan]
    by_cases hh : h ≤ endH
    · simp only [hh, ↓reduceIte]
      have hs := stepH_x w hf init hsb h st hc he ho
      have hc' := stepH_cons w init h st hc
      cases hst : stepH w h st with
      | cont st' =>
        rw [hst] at hs hc'
        exact scan_x w hf init hsb fuel (h + 1) endH st' (by omega) hc' hs.1 hs.2
      | fail st' =>
        rw [hst] at hs
        exact hs
    · simp only [hh, ↓reduceIte]
      have hheq : h = endH + 1 := by omega
      by_cases ht : endH < w.tip st.k
      · simp only [ht, ↓reduceIte]
        exact scan_x w hf init hsb fuel (endH + 1) (w.tip st.k) st (by omega) hc (hheq ▸ he) ho
      · simp only [ht, ↓reduceIte]
        exact OutX.append ho (notifyUnspent_x w init endH st.ents (hheq ▸ he))

theorem run_x (w : World) (hf : FilterSound w) (sf mf : Nat) (init : List Req)
    (hsb : ∀ k, SameBirth (init ++ arrived w k)) : OutX w.chain (run w sf mf init).2.out := by
  have key := mgr_inv w sf (fun st => Cons w init st ∧ OutX w.chain st.out) ?_ ?_ ?_ mf { pq := init }
    ⟨init_cons w init, fun _ hd => by cases hd⟩ rfl
  · exact key.2
  · intro st hi
    exact ⟨stMerge_cons w init st hi.1, hi.2⟩
  · intro st hi
    refine ⟨stStop_cons w init st hi.1, OutX.append hi.2 ?_⟩
    intro d hd
    simp only [List.mem_map] at hd
    obtain ⟨q, _, rfl⟩ := hd
    simp only [delivExact]
  · intro fuel h e st hi hents hle
    refine ⟨scan_cons w init fuel h e st hi.1, ?_⟩
    exact scan_x w hf init hsb fuel h e st (by omega) hi.1 (by rw [hents]; exact EntsX.nil _ _ _) hi.2

end Neutrino.Utxo
