/-
The full invariant of the block-manager machine (C01/C02/C19 share it) and the loop
invariant of `handleHeadersMsg` that re-establishes it on every path out of the loop:
well-formed valid log, no misplaced write, the WHOLE in-memory list is the top of the
stored chain, every checkpoint is held, and `nextCheckpoint` is the first checkpoint
above the stored tip.
-/
import Neutrino.Lemmas.BlockMgrCp
namespace Neutrino.BM

structure Inv (c : Cfg) (s : State) : Prop where
  good : Good c.tbl s.log
  clean : s.corrupt = false
  anch : FullAnch s.log s.hl
  cps : CpsHold c.cps s.log
  ncp : s.ncp = findNextCp c.cps (tipHeight s.log)

/-- loop state: `l.batch` is pushed on `headerList` but not yet written; `L = s.log ++ l.batch` -/
structure LIf (c : Cfg) (s : State) (l : Loc) (rest : List Nat) : Prop where
  good : Good c.tbl (s.log ++ l.batch)
  goodLog : Good c.tbl s.log
  clean : s.corrupt = false
  anch : FullAnch (s.log ++ l.batch) s.hl
  first : l.batch ≠ [] → l.batchFirst = s.log.length
  next : l.batch ≠ [] → ∀ h, rest.head? = some h → c.tbl.parent h = some (tipId (s.log ++ l.batch))
  cpsS : CpsHold c.cps s.log
  cpsL : CpsHold c.cps (s.log ++ l.batch)
  ncpS : s.ncp = findNextCp c.cps (tipHeight s.log)
  ncpL : s.ncp = findNextCp c.cps (tipHeight (s.log ++ l.batch))
  fh : l.batch ≠ [] → l.finalHeight = tipHeight (s.log ++ l.batch)
  noCp : l.recvCp = false

theorem getElem_tip {log : List Nat} (hne : log ≠ []) : log[tipHeight log]? = some (tipId log) := by
  simp only [tipHeight, tipId]
  rw [List.getLast?_eq_getElem?]
  have : 0 < log.length := List.length_pos_iff.mpr hne
  cases hl : log[log.length - 1]? with
  | none => rw [List.getElem?_eq_none_iff] at hl; omega
  | some x => simp

theorem rollBackTo_eq (s : State) (h : Nat) :
    ∃ f ft, (s.rollBackTo h).1 = { s with log := s.log.take (h + 1), fst := f, ftip := ft } := by
  have hl := rollBackTo_log s h
  simp only [State.rollBackTo] at hl ⊢
  generalize rollBack h s.log.length s.log s.fst s.ftip [] = r at hl ⊢
  obtain ⟨a, b, d, e⟩ := r
  simp only at hl
  exact ⟨b, d, by simp [hl]⟩

theorem LIf_of_inv (c : Cfg) (s : State) (l : Loc) (rest : List Nat) (h : Inv c s) (hb : l.batch = [])
    (hr : l.recvCp = false) : LIf c s l rest :=
  ⟨by simpa [hb] using h.good, h.good, h.clean, by simpa [hb] using h.anch, fun x => absurd hb x,
   fun x => absurd hb x, h.cps, by simpa [hb] using h.cps, h.ncp, by simpa [hb] using h.ncp,
   fun x => absurd hb x, hr⟩

/-- what `finish` needs -/
theorem finish_core (c : Cfg) (s : State) (l : Loc) (ntf : List Ntfn)
    (good : Good c.tbl (s.log ++ l.batch)) (goodLog : Good c.tbl s.log) (clean : s.corrupt = false)
    (anch : FullAnch (s.log ++ l.batch) s.hl) (first : l.batch ≠ [] → l.batchFirst = s.log.length)
    (cpsL : CpsHold c.cps (s.log ++ l.batch))
    (hncp : (if l.recvCp = true then findNextCp c.cps l.finalHeight else s.ncp)
              = findNextCp c.cps (tipHeight (s.log ++ l.batch))) :
    Inv c (finish c s l ntf).1 := by
  have hw : (s.write l.batchFirst l.batch).log = s.log ++ l.batch ∧ (s.write l.batchFirst l.batch).corrupt = false
      ∧ (s.write l.batchFirst l.batch).hl = s.hl ∧ (s.write l.batchFirst l.batch).ncp = s.ncp := by
    simp only [State.write]
    by_cases hb : l.batch = []
    · simp [hb, clean]
    · simp [hb, clean, first hb]
  obtain ⟨w1, w2, w3, w4⟩ := hw
  simp only [finish]
  cases hr : l.recvCp with
  | true =>
    simp only [hr, ↓reduceIte] at hncp ⊢
    exact ⟨by simpa [w1] using good, w2, by simpa [w1, w3] using anch, by simpa [w1] using cpsL, by simpa [w1] using hncp⟩
  | false =>
    simp only [hr, Bool.false_eq_true, ↓reduceIte] at hncp ⊢
    exact ⟨by simpa [w1] using good, w2, by simpa [w1, w3] using anch, by simpa [w1] using cpsL,
      by rw [w1, w4]; exact hncp⟩

theorem finish_invf (c : Cfg) (s : State) (l : Loc) (ntf : List Ntfn) (rest : List Nat) (li : LIf c s l rest) :
    Inv c (finish c s l ntf).1 :=
  finish_core c s l ntf li.good li.goodLog li.clean li.anch li.first li.cpsL (by simp [li.noCp, li.ncpL])

/-- no checkpoint sits strictly between the tip and the next checkpoint -/
theorem no_cp_between {cps : List Cp} (ok : CpsOk cps) {T : Nat} {ncp : Option Cp} (hn : ncp = findNextCp cps T)
    (k : Nat) (hk : T < k) (hne : ∀ cp, ncp = some cp → k < cp.height) : ∀ cp' ∈ cps, cp'.height ≠ k := by
  intro cp' hm he
  cases hc : ncp with
  | none =>
    rw [hc] at hn
    have := findNextCp_none hn.symm cp' hm; omega
  | some cp =>
    rw [hc] at hn
    have := (findNextCp_least ok.sorted hn.symm cp' hm (by omega)).1
    have := hne cp hc; omega

theorem ncp_stable {cps : List Cp} {T k : Nat} (hk : T ≤ k) (hno : ∀ cp' ∈ cps, T < cp'.height → k < cp'.height) :
    findNextCp cps T = findNextCp cps k :=
  findNextCp_congr (fun cp hm => ⟨fun h => hno cp hm h, fun h => by omega⟩)

/-- the checkpoint-mismatch exit: roll back to the previous checkpoint, disconnect, re-anchor -/
theorem mismatch_inv (c : Cfg) (ok : CpsOk c.cps) (s : State) (p : Nat) (cp : Cp) (goodLog : Good c.tbl s.log)
    (clean : s.corrupt = false) (cpsS : CpsHold c.cps s.log) (ncpS : s.ncp = findNextCp c.cps (tipHeight s.log))
    (hcp : s.ncp = some cp) :
    Inv c { (s.rollBackTo (findPrevCp c.cps cp.height).height).1 with
              peers := disconnect (s.rollBackTo (findPrevCp c.cps cp.height).height).1.peers p,
              hl := anchor (s.rollBackTo (findPrevCp c.cps cp.height).height).1.log } := by
  obtain ⟨f, ft, he⟩ := rollBackTo_eq s (findPrevCp c.cps cp.height).height
  rw [he]
  have hg := goodLog.take (findPrevCp c.cps cp.height).height
  refine ⟨hg, clean, FullAnch.anchor _ hg.ne_nil, cpsS.take _, ?_⟩
  simp only
  rw [ncpS]
  rw [hcp] at ncpS
  obtain ⟨hmem, hlt⟩ := findNextCp_mem ncpS.symm
  have hpos := goodLog.length_pos
  apply findNextCp_congr
  intro x hx
  simp only [tipHeight, List.length_take]
  constructor
  · intro h; omega
  · intro h
    by_cases hxT : s.log.length - 1 < x.height
    · exact hxT
    · have h1 : x.height < cp.height := by simp only [tipHeight] at hlt; omega
      have := findPrevCp_max ok.sorted cp.height x hx h1
      omega

end Neutrino.BM

namespace Neutrino.BM

/-- the connect arm's push, followed by the checkpoint test: either the handler is done and the
invariant holds, or the loop goes on with the loop invariant for the remaining headers. -/
theorem connect_step (c : Cfg) (ok : CpsOk c.cps) (hw : 1 ≤ c.win) (p h : Nat) (rest : List Nat) (s : State) (l : Loc)
    (ntf : List Ntfn) (prev : Node) (li : LIf c s l (h :: rest)) (hlk : linked c.tbl (h :: rest) = true)
    (hhd : s.hl.head? = some prev) (hpar : c.tbl.parent h = some prev.id) (hv : c.tbl.valid h = true) :
    let s' : State := { s with peers := updLast s.peers p (prev.height + 1), hl := hlPush c.win s.hl ⟨h, prev.height + 1⟩ }
    let l' := pushBatch { l with finalId := h } h (prev.height + 1)
    (∀ r, cpTest c p h s' l' ntf (prev.height + 1) = some r → Inv c r.1) ∧
    (cpTest c p h s' l' ntf (prev.height + 1) = none → LIf c s' l' rest) := by
  intro s' l'
  have hprev : prev = ⟨tipId (s.log ++ l.batch), tipHeight (s.log ++ l.batch)⟩ := by
    rw [li.anch.head li.good] at hhd; exact (Option.some.inj hhd).symm
  have hlen : 0 < (s.log ++ l.batch).length := li.good.length_pos
  have hnh : prev.height + 1 = (s.log ++ l.batch).length := by rw [hprev]; simp only [tipHeight]; omega
  have hbatch : s.log ++ l'.batch = (s.log ++ l.batch) ++ [h] := by
    simp only [l', pushBatch_batch]; simp
  have hgood : Good c.tbl (s.log ++ l'.batch) := by
    rw [hbatch]; exact Good.snoc li.good (by rw [hpar, hprev]) hv
  have hanch : FullAnch (s.log ++ l'.batch) s'.hl := by
    rw [hbatch]; simp only [s', hnh]; exact li.anch.push c.win hw h
  have hfirst : l'.batch ≠ [] → l'.batchFirst = s.log.length := by
    intro _
    simp only [l', pushBatch_first]
    by_cases hb : l.batch = []
    · simp only [hb, ↓reduceIte]
      rw [hnh]; simp [hb]
    · simp only [hb, ↓reduceIte]; exact li.first hb
  have hne : l'.batch ≠ [] := by simp [l', pushBatch_batch]
  have hfh : l'.finalHeight = tipHeight (s.log ++ l'.batch) := by
    rw [hbatch, tipHeight_append, ← hnh]
    simp only [l', pushBatch]
    by_cases hb : l.batch = [] <;> simp [hb]
  have hrecv : l'.recvCp = false := by
    simp only [l', pushBatch]
    by_cases hb : l.batch = [] <;> simp [hb, li.noCp]
  have hT : tipHeight (s.log ++ l.batch) < prev.height + 1 := by rw [hnh]; simp only [tipHeight]; omega
  have hph : prev.height = tipHeight (s.log ++ l.batch) := by rw [hprev]
  refine ⟨?_, ?_⟩
  · intro r hr
    simp only [cpTest, s'] at hr
    split at hr
    · rename_i cp hcp
      by_cases h1 : prev.height + 1 = cp.height
      · rw [if_pos h1] at hr
        have hcpL : s.ncp = some cp := hcp
        by_cases h2 : h = cp.id
        · rw [if_pos h2, Option.some.injEq] at hr
          subst hr
          -- verified checkpoint: write the batch, advance `nextCheckpoint`
          have hcps : CpsHold c.cps (s.log ++ l'.batch) := by
            rw [hbatch]
            apply li.cpsL.snoc
            intro cp' hm he
            have hn := li.ncpL; rw [hcpL] at hn
            have := (findNextCp_least ok.sorted hn.symm cp' hm (by rw [he, ← hnh]; exact hT)).2 (by omega)
            rw [this]; exact h2
          apply finish_core c s' { l' with recvCp := true } ntf hgood li.goodLog li.clean hanch hfirst hcps
          simp only [↓reduceIte]
          rw [hfh]
        · rw [if_neg h2, Option.some.injEq] at hr
          subst hr
          have := mismatch_inv c ok s' p cp li.goodLog li.clean li.cpsS li.ncpS hcpL
          rw [← h1] at this; exact this
      · rw [if_neg h1] at hr; cases hr
    · cases hr
  · intro hnone
    -- no checkpoint at this height: the loop goes on
    have hnocp : ∀ cp, s.ncp = some cp → prev.height + 1 ≠ cp.height := by
      intro cp hcp he
      simp only [cpTest, s', hcp, he, ↓reduceIte] at hnone
      split at hnone <;> cases hnone
    have hbelow : ∀ cp, s.ncp = some cp → prev.height + 1 < cp.height := by
      intro cp hcp
      have hn := li.ncpL; rw [hcp] at hn
      have := (findNextCp_mem hn.symm).2
      have := hnocp cp hcp
      omega
    have hno := no_cp_between ok li.ncpL (prev.height + 1) hT hbelow
    have hcps : CpsHold c.cps (s.log ++ l'.batch) := by
      rw [hbatch]
      apply li.cpsL.snoc
      intro cp' hm he
      exact absurd (by rw [he, hnh]) (hno cp' hm)
    have hncp : s.ncp = findNextCp c.cps (tipHeight (s.log ++ l'.batch)) := by
      rw [li.ncpL, hbatch, tipHeight_append, ← hnh]
      apply ncp_stable (by omega)
      intro cp' hm hlt
      have := hno cp' hm; omega
    refine ⟨hgood, li.goodLog, li.clean, hanch, hfirst, ?_, li.cpsS, hcps, li.ncpS, hncp, fun _ => hfh, hrecv⟩
    intro _ h' hh'
    rw [hbatch, tipId_append]
    cases rest with
    | nil => cases hh'
    | cons b bs =>
      simp only [List.head?_cons, Option.some.injEq] at hh'
      subst hh'
      exact linked_head hlk

end Neutrino.BM

namespace Neutrino.BM

/-- below the reorg floor nothing is a checkpoint the chain has passed -/
theorem floor_covers {cps : List Cp} (ok : CpsOk cps) {tipH bh : Nat}
    (hfloor : ¬ bh < (findPrevCp cps (tipH + 1)).height) : ∀ cp' ∈ cps, cp'.height ≤ tipH → cp'.height ≤ bh := by
  intro cp' hm hle
  have := findPrevCp_max ok.sorted (tipH + 1) cp' hm (by omega)
  omega

/-- the reorganisation: the loop invariant holds again (nothing pending), and the checkpoint test
that follows (with `node.Height` still 0) lets the loop go on. -/
theorem reorg_step (c : Cfg) (ok : CpsOk c.cps) (hw : 1 ≤ c.win) (p h : Nat) (rest : List Nat) (s : State) (l : Loc)
    (ntf : List Ntfn) (prev : Node) (inv : Inv c s) (hb : l.batch = []) (hr : l.recvCp = false)
    (hprev : prev = ⟨tipId s.log, tipHeight s.log⟩) (hpar : c.tbl.parent h ≠ some prev.id) (bh : Nat)
    (hd : reorgDecision c s p prev h rest = .adopt bh) :
    LIf c (doReorg c s p h bh).1 l rest ∧ cpTest c p h (doReorg c s p h bh).1 l ntf 0 = none ∧
    bh < tipHeight s.log ∧ (doReorg c s p h bh).1.log = s.log.take (bh + 1) ++ [h] := by
  obtain ⟨hidx, hval, hfloor, _, _⟩ := reorg_adopt_facts c s p prev h rest bh hd
  have hvh : c.tbl.valid h = true := by
    simp only [List.all_cons, Bool.and_eq_true] at hval; exact hval.1
  obtain ⟨q, hq, hi⟩ := Option.bind_eq_some_iff.mp hidx
  obtain ⟨hlt, hget⟩ := idxOf_some hi
  have hne := inv.good.ne_nil
  have hpos := inv.good.length_pos
  -- the fork point is strictly below the tip (else `h` would connect)
  have hbh : bh < tipHeight s.log := by
    rcases Nat.lt_or_ge bh (tipHeight s.log) with h1 | h1
    · exact h1
    · exfalso
      have : bh = tipHeight s.log := by simp only [tipHeight] at h1 ⊢; omega
      rw [this, getElem_tip hne] at hget
      apply hpar; rw [hq, hprev]; simp only; rw [Option.some.inj hget]
  rw [hprev] at hfloor
  have hK : ∀ cp' ∈ c.cps, cp'.height ≤ tipHeight s.log → cp'.height ≤ bh := floor_covers ok hfloor
  obtain ⟨f, ft, he⟩ := rollBackTo_eq { s with sync := some p } bh
  have hlen : (s.log.take (bh + 1)).length = bh + 1 := by simp; omega
  have hlog : (doReorg c s p h bh).1.log = s.log.take (bh + 1) ++ [h] := by
    simp only [doReorg, State.write, List.cons_ne_nil, ↓reduceIte, rollBackTo_log]
  have hcor : (doReorg c s p h bh).1.corrupt = false := by
    simp only [doReorg, State.write, List.cons_ne_nil, ↓reduceIte, rollBackTo_log, rollBackTo_corrupt, inv.clean, hlen]
    simp
  have hhl : (doReorg c s p h bh).1.hl = hlPush c.win (hlReset ⟨q, bh⟩) ⟨h, bh + 1⟩ := by
    simp only [doReorg, hq, Option.getD_some]
  have hncp : (doReorg c s p h bh).1.ncp = s.ncp := by
    simp only [doReorg, State.write, List.cons_ne_nil, ↓reduceIte, he]
  have hgood : Good c.tbl (s.log.take (bh + 1) ++ [h]) := by
    apply Good.snoc (inv.good.take bh)
    · rw [tipId_take hget]; exact hq
    · exact hvh
  have hanch : FullAnch (s.log.take (bh + 1) ++ [h]) (hlPush c.win (hlReset ⟨q, bh⟩) ⟨h, bh + 1⟩) := by
    have h1 : FullAnch (s.log.take (bh + 1)) (hlReset ⟨q, bh⟩) := by
      have := FullAnch.anchor (s.log.take (bh + 1)) (inv.good.take bh).ne_nil
      simpa [anchor, tipId_take hget, tipHeight, hlen] using this
    have := h1.push c.win hw h
    rw [hlen] at this; exact this
  have hcps : CpsHold c.cps (s.log.take (bh + 1) ++ [h]) := by
    apply (inv.cps.take (bh + 1)).snoc
    intro cp' hm he'
    rw [hlen] at he'
    have := hK cp' hm (by omega); omega
  have hncp2 : s.ncp = findNextCp c.cps (tipHeight (s.log.take (bh + 1) ++ [h])) := by
    rw [inv.ncp, tipHeight_append, hlen]
    apply findNextCp_congr
    intro x hx
    constructor
    · intro hh; omega
    · intro hh
      rcases Nat.lt_or_ge (tipHeight s.log) x.height with h1 | h1
      · exact h1
      · have := hK x hx h1; omega
  refine ⟨?_, ?_, hbh, hlog⟩
  · refine ⟨?_, ?_, hcor, ?_, fun x => absurd hb x, fun x => absurd hb x, ?_, ?_, ?_, ?_, fun x => absurd hb x, hr⟩
    · rw [hb, List.append_nil, hlog]; exact hgood
    · rw [hlog]; exact hgood
    · rw [hb, List.append_nil, hlog, hhl]; exact hanch
    · rw [hlog]; exact hcps
    · rw [hb, List.append_nil, hlog]; exact hcps
    · rw [hncp, hlog]; exact hncp2
    · rw [hb, List.append_nil, hncp, hlog]; exact hncp2
  · simp only [cpTest, hncp]
    cases hn : s.ncp with
    | none => rfl
    | some cp =>
      have hm := inv.ncp; rw [hn] at hm
      have := ok.pos cp (findNextCp_mem hm.symm).1
      have hne0 : ¬ (0 = cp.height) := by omega
      simp only [hne0, ↓reduceIte]

/-- **The loop of `handleHeadersMsg` re-establishes the full invariant on every path out of it.** -/
theorem loop_invf (c : Cfg) (ok : CpsOk c.cps) (hw : 1 ≤ c.win) (p : Nat) (rest : List Nat) :
    ∀ (s : State) (l : Loc) (ntf : List Ntfn), linked c.tbl rest = true → LIf c s l rest →
      Inv c (loop c p rest s l ntf).1 := by
  induction rest with
  | nil => intro s l ntf _ li; exact finish_invf c s l ntf [] li
  | cons h rest ih =>
    intro s l ntf hlk li
    simp only [loop]
    have hhead := li.anch.head li.good
    cases hhd : s.hl.head? with
    | none => rw [hhead] at hhd; cases hhd
    | some prev =>
      have hprev : prev = ⟨tipId (s.log ++ l.batch), tipHeight (s.log ++ l.batch)⟩ := by
        rw [hhead] at hhd; exact (Option.some.inj hhd).symm
      simp only []
      by_cases hpar : c.tbl.parent h = some prev.id
      · simp only [hpar, ↓reduceIte]
        by_cases hv : c.tbl.valid h = true
        · simp only [hv, Bool.not_true, Bool.false_eq_true, ↓reduceIte]
          obtain ⟨h1, h2⟩ := connect_step c ok hw p h rest s l ntf prev li hlk hhd hpar hv
          cases hcp : cpTest c p h _ (pushBatch { l with finalId := h } h (prev.height + 1)) ntf (prev.height + 1) with
          | some r => exact h1 r hcp
          | none => exact ih _ _ ntf (linked_tail hlk) (h2 hcp)
        · simp only [hv, Bool.not_false, ↓reduceIte]
          exact ⟨li.goodLog, li.clean, FullAnch.anchor _ li.goodLog.ne_nil, li.cpsS, li.ncpS⟩
      · simp only [hpar, ↓reduceIte]
        have hb : l.batch = [] := by
          apply Classical.byContradiction
          intro hb
          have := li.next hb h rfl
          rw [hprev] at hpar
          exact hpar this
        have inv : Inv c s := ⟨li.goodLog, li.clean, by simpa [hb] using li.anch, li.cpsS, li.ncpS⟩
        cases hd : reorgDecision c s p prev h rest with
        | ignore => exact inv
        | skip => exact ih s _ ntf (linked_tail hlk) (LIf_of_inv c s _ rest inv hb li.noCp)
        | disconnect => exact ⟨inv.good, inv.clean, inv.anch, inv.cps, inv.ncp⟩
        | adopt bh =>
          simp only []
          have hprev' : prev = ⟨tipId s.log, tipHeight s.log⟩ := by simpa [hb] using hprev
          obtain ⟨li', hcp, _, _⟩ := reorg_step c ok hw p h rest s { l with finalId := h }
            (ntf ++ (doReorg c s p h bh).2) prev inv hb li.noCp hprev' hpar bh hd
          rw [hcp]
          exact ih _ _ _ (linked_tail hlk) li'

theorem handleHeaders_invf (c : Cfg) (ok : CpsOk c.cps) (hw : 1 ≤ c.win) (s : State) (p : Nat) (hs : List Nat)
    (h : Inv c s) : Inv c (handleHeaders c s p hs).1 := by
  simp only [handleHeaders]
  by_cases h1 : hs = []
  · simp only [h1, ↓reduceIte]; exact h
  · simp only [h1, ↓reduceIte]
    by_cases h2 : linked c.tbl hs = true
    · simp only [h2, Bool.not_true, Bool.false_eq_true, ↓reduceIte]
      exact loop_invf c ok hw p hs s {} [] h2 (LIf_of_inv c s {} hs h rfl rfl)
    · simp only [h2, Bool.not_false, ↓reduceIte]
      exact ⟨h.good, h.clean, h.anch, h.cps, h.ncp⟩

theorem startSync_fields2 (s : State) : (startSync s).log = s.log ∧ (startSync s).corrupt = s.corrupt ∧
    (startSync s).hl = s.hl ∧ (startSync s).ncp = s.ncp := by
  simp only [startSync]
  cases s.sync <;> simp

theorem cfWrite_fields2 (s : State) (stop n : Nat) (ok : Bool) :
    (cfWrite s stop n ok).1.log = s.log ∧ (cfWrite s stop n ok).1.corrupt = s.corrupt ∧
    (cfWrite s stop n ok).1.hl = s.hl ∧ (cfWrite s stop n ok).1.ncp = s.ncp := by
  simp only [cfWrite]
  split
  · exact ⟨rfl, rfl, rfl, rfl⟩
  · split
    · exact ⟨rfl, rfl, rfl, rfl⟩
    · split <;> exact ⟨rfl, rfl, rfl, rfl⟩

theorem chainOk_cps (c : Cfg) : ∀ (blocks log : List Nat), CpsHold c.cps log → chainOk c log blocks = true →
    CpsHold c.cps (log ++ blocks) := by
  intro blocks
  induction blocks with
  | nil => intro log g _; simpa using g
  | cons b bs ih =>
    intro log g hok
    simp only [chainOk, Bool.and_eq_true, List.all_eq_true, Bool.or_eq_true, bne_iff_ne, ne_eq, beq_iff_eq] at hok
    have hs : CpsHold c.cps (log ++ [b]) := by
      apply g.snoc
      intro cp hm he
      rcases hok.1.2 cp hm with h1 | h1
      · exact absurd he h1
      · exact h1.symm
    have := ih (log ++ [b]) hs hok.2
    simpa using this

/-- `BM.inv_step`, full invariant -/
theorem inv_step (c : Cfg) (ok : CpsOk c.cps) (hw : 1 ≤ c.win) (s : State) (e : Ev) (h : Inv c s) :
    Inv c (step c s e).1 := by
  cases e with
  | newPeer p =>
    simp only [step, newPeer]
    split
    · exact h
    · obtain ⟨a, b, d, e⟩ := startSync_fields2 { s with cand := s.cand ++ [p] }
      exact ⟨by rw [a]; exact h.good, by rw [b]; exact h.clean, by rw [a, d]; exact h.anch,
        by rw [a]; exact h.cps, by rw [a, e]; exact h.ncp⟩
  | donePeer p =>
    simp only [step, donePeer]
    split
    · obtain ⟨a, b, d, e⟩ := startSync_fields2 { s with cand := s.cand.erase p, sync := none, hl := anchor s.log }
      exact ⟨by rw [a]; exact h.good, by rw [b]; exact h.clean, by rw [a, d]; exact FullAnch.anchor _ h.good.ne_nil,
        by rw [a]; exact h.cps, by rw [a, e]; exact h.ncp⟩
    · exact ⟨h.good, h.clean, h.anch, h.cps, h.ncp⟩
  | peerHeight p k => exact ⟨h.good, h.clean, h.anch, h.cps, h.ncp⟩
  | inv p id =>
    simp only [step, invMsg]
    split
    · split
      · exact ⟨h.good, h.clean, h.anch, h.cps, h.ncp⟩
      · exact h
    · exact h
  | headers p hs => exact handleHeaders_invf c ok hw s p hs h
  | cfWrite stop n okk =>
    obtain ⟨a, b, d, e⟩ := cfWrite_fields2 s stop n okk
    simp only [step]
    exact ⟨by rw [a]; exact h.good, by rw [b]; exact h.clean, by rw [a, d]; exact h.anch,
      by rw [a]; exact h.cps, by rw [a, e]; exact h.ncp⟩
  | backlog k => exact h
  | headersFailWrite p hs =>
    simp only [step, handleHeadersFailWrite]
    split
    · exact ⟨h.good, h.clean, FullAnch.anchor _ h.good.ne_nil, h.cps, h.ncp⟩
    · exact handleHeaders_invf c ok hw s p hs h
  | importReset blocks nf =>
    simp only [step, importReset]
    split
    · rename_i hok
      have g := chainOk_good c _ _ h.good hok
      exact ⟨g, h.clean, FullAnch.anchor _ g.ne_nil, chainOk_cps c _ _ h.cps hok, rfl⟩
    · exact ⟨h.good, h.clean, FullAnch.anchor _ h.good.ne_nil, h.cps, rfl⟩

theorem inv_init (c : Cfg) (ok : CpsOk c.cps) (peers : List Peer) : Inv c (init c peers) := by
  refine ⟨Good.gen, rfl, ⟨1, by omega, by simp [init, revNodes, withHeights]⟩, ?_, rfl⟩
  intro cp hm id hid
  have := ok.pos cp hm
  simp only [init] at hid
  rw [List.getElem?_eq_none (by simp; omega)] at hid; cases hid

theorem inv_run (c : Cfg) (ok : CpsOk c.cps) (hw : 1 ≤ c.win) (s : State) (es : List Ev) (h : Inv c s) :
    Inv c (run c s es) := by
  induction es generalizing s with
  | nil => exact h
  | cons e es ih => exact ih _ (inv_step c ok hw s e h)

end Neutrino.BM
