import Neutrino.Lemmas.Store
namespace Neutrino.Store

/-- `Rep d l`: the durable state `d` represents the log `l` — files whole and
equal to the lists, index = positions of the block ids, tips = last entries,
filter headers not ahead of block headers. -/
structure Rep (d : Durable) (l : Log) : Prop where
  bents : d.bf = { ents := l.blocks }
  fents : d.ff = { ents := l.filters }
  neB   : l.blocks ≠ []
  neF   : l.filters ≠ []
  nodup : l.blocks.Nodup
  idxPos  : ∀ i id, l.blocks[i]? = some id → d.db.height? id = some i
  idxOnly : ∀ id h, d.db.height? id = some h → l.blocks[h]? = some id
  btip  : d.db.btip = l.blocks.getLast?
  ftip  : ∃ b, d.db.ftip = some b ∧ d.db.height? b = some (l.filters.length - 1)
  fle   : l.filters.length ≤ l.blocks.length

theorem rep_init : Rep init Log.init := by
  refine ⟨rfl, rfl, by simp [Log.init], by simp [Log.init], by simp [Log.init], ?_, ?_, rfl, ⟨0, rfl, rfl⟩, by simp [Log.init]⟩
  · intro i id h
    simp only [Log.init] at h
    match i with
    | 0 => simp at h; subst h; rfl
    | i + 1 => simp at h
  · intro id h hh
    simp only [init, Db.height?] at hh
    by_cases hid : id = 0
    · subst hid; simp at hh; subst hh; rfl
    · have : ((0 : Nat) == id) = false := by simpa using (Ne.symm hid)
      simp [List.find?_cons, this] at hh

/-- The callers' contract (proved of the block manager and the importer in
C01/C03/C14): appended block ids are fresh and distinct; filter headers are
only appended for blocks that exist; a block rollback never orphans a filter
header and stays above genesis; the filter store is not rolled back below
genesis. -/
def Contract (l : Log) : Op → Prop
  | .wb ids => ids.Nodup ∧ ∀ x ∈ ids, x ∉ l.blocks
  | .wf fids => l.filters.length + fids.length ≤ l.blocks.length
  | .rb n => n < l.blocks.length ∧ l.filters.length ≤ l.blocks.length - n
  | .rf => 1 < l.filters.length
  | .rollto _ => True
  | .reopen => True

theorem rep_btipHeight {d : Durable} {l : Log} (h : Rep d l) :
    ∃ tip, l.blocks.getLast? = some tip ∧ btipHeight? d = some (tip, l.blocks.length - 1) := by
  obtain ⟨tip, htip⟩ : ∃ tip, l.blocks.getLast? = some tip := by
    cases hl : l.blocks.getLast? with
    | none => exact absurd (List.getLast?_eq_none_iff.mp hl) h.neB
    | some t => exact ⟨t, rfl⟩
  refine ⟨tip, htip, ?_⟩
  have hpos : l.blocks[l.blocks.length - 1]? = some tip := by
    rw [← htip, List.getLast?_eq_getElem?]
  have := h.idxPos _ _ hpos
  simp [btipHeight?, h.btip, htip, this]

theorem rep_ftipHeight {d : Durable} {l : Log} (h : Rep d l) :
    ∃ b, ftipHeight? d = some (b, l.filters.length - 1) := by
  obtain ⟨b, hb, hh⟩ := h.ftip
  exact ⟨b, by simp [ftipHeight?, hb, hh]⟩

end Neutrino.Store
