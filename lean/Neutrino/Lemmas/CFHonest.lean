/-
Lemmas for `C03_honest_wins_partial`: the detection loop of
`getUncheckpointedCFHeaders` removes and bans exactly the peers with a false
filter hash, never an honest one, provided the round is not of the
`shapeEarlyReturn` (F12) shape.
Core Lean only.
-/
import Neutrino.Lemmas.CFHeaders
namespace Neutrino.CFHeaders

/-! ### small facts -/

theorem accept_some {n : Nat} {msgs : List Msg} {m : Msg} (h : accept n msgs = some m) :
    m.hashes.length = n := by
  unfold accept at h
  have := List.find?_some h
  simp only [Bool.and_eq_true, beq_iff_eq] at this
  exact this.2

theorem lookupF_filterMap (served : Peer → Option FHash) (p : Peer) : ∀ L : List Peer,
    lookupF (L.filterMap (fun q => (served q).map (fun f => (q, f)))) p =
      if p ∈ L then served p else none := by
  intro L
  induction L with
  | nil => rfl
  | cons q L ih =>
    cases hq : served q with
    | none =>
      simp only [List.filterMap_cons, hq, Option.map_none, List.mem_cons]
      rw [ih]
      by_cases hpq : p = q
      · subst hpq; simp only [true_or, ↓reduceIte, hq]; split <;> rfl
      · simp only [hpq, false_or]
    | some f =>
      simp only [List.filterMap_cons, hq, Option.map_some, List.mem_cons]
      unfold lookupF
      simp only [List.find?_cons]
      by_cases hpq : q = p
      · subst hpq; simp only [beq_self_eq_true, Option.map_some, true_or, ↓reduceIte, hq]
      · have : (q == p) = false := by simpa using hpq
        have hpq' : ¬ p = q := fun h => hpq h.symm
        simp only [this, hpq', false_or]
        exact ih

theorem lookupF_filtersAt (s : St) (net : Net) (h : Nat) (p : Peer)
    (hp : p ∈ net.peers.filter (live s)) : lookupF (filtersAt s net h) p = net.served p h := by
  unfold filtersAt
  rw [lookupF_filterMap (fun q => net.served q h) p]
  simp only [hp, ↓reduceIte]

theorem mem_filtersAt (s : St) (net : Net) (h : Nat) (x : Peer × FHash) (hx : x ∈ filtersAt s net h) :
    net.served x.1 h = some x.2 := by
  unfold filtersAt at hx
  simp only [List.mem_filterMap, Option.map_eq_some_iff] at hx
  obtain ⟨q, _, f, hf, rfl⟩ := hx
  exact hf

/-- no mismatch seen ⇒ everybody advertises the same value -/
theorem mismatchGo_false (i : Nat) : ∀ (L : List (Peer × Msg)) (acc : Option FHash),
    mismatchGo i acc L = false →
    (∀ pm ∈ L, ∃ f, pm.2.hashes[i]? = some f) →
    ∃ v, (∀ a, acc = some a → v = a) ∧ ∀ pm ∈ L, pm.2.hashes[i]? = some v := by
  intro L
  induction L with
  | nil =>
    intro acc _ _
    refine ⟨acc.getD 0, ?_, fun _ h => absurd h (List.not_mem_nil)⟩
    intro a ha; rw [ha]; rfl
  | cons pm L ih =>
    intro acc hm hall
    obtain ⟨f, hf⟩ := hall pm (List.mem_cons_self)
    have hall' : ∀ pm ∈ L, ∃ f, pm.2.hashes[i]? = some f :=
      fun x hx => hall x (List.mem_cons_of_mem _ hx)
    simp only [mismatchGo, hf] at hm
    cases acc with
    | none =>
      simp only at hm
      obtain ⟨v, hv, hall2⟩ := ih (some f) hm hall'
      have hvf : v = f := hv f rfl
      refine ⟨v, ?_, ?_⟩
      · intro a ha; exact absurd ha (by simp)
      intro x hx
      rcases List.mem_cons.mp hx with rfl | hx
      · rw [hf, hvf]
      · exact hall2 x hx
    | some a =>
      simp only at hm
      by_cases haf : a = f
      · simp only [haf, ne_eq, not_true_eq_false, ↓reduceIte] at hm
        obtain ⟨v, hv, hall2⟩ := ih (some f) hm hall'
        have hvf : v = f := hv f rfl
        refine ⟨v, fun a' ha' => by rw [hvf, ← haf]; exact Option.some.inj ha', ?_⟩
        intro x hx
        rcases List.mem_cons.mp hx with rfl | hx
        · rw [hf, hvf]
        · exact hall2 x hx
      · simp only [ne_eq, haf, not_false_eq_true, ↓reduceIte] at hm
        exact absurd hm (by decide)

/-- everybody advertises the same value ⇒ no mismatch seen -/
theorem mismatchGo_all_eq (i : Nat) (v : FHash) : ∀ (L : List (Peer × Msg)) (acc : Option FHash),
    (acc = none ∨ acc = some v) → (∀ pm ∈ L, pm.2.hashes[i]? = some v) → mismatchGo i acc L = false := by
  intro L
  induction L with
  | nil => intro acc _ _; rfl
  | cons pm L ih =>
    intro acc hacc hall
    have hf := hall pm (List.mem_cons_self)
    have hall' : ∀ pm ∈ L, pm.2.hashes[i]? = some v := fun x hx => hall x (List.mem_cons_of_mem _ hx)
    simp only [mismatchGo, hf]
    rcases hacc with ha | ha
    · subst ha; exact ih (some v) (Or.inr rfl) hall'
    · subst ha
      simp only [ne_eq, not_true_eq_false, ↓reduceIte]
      exact ih (some v) (Or.inr rfl) hall'

theorem heightOf_getElem : ∀ (l : List Blk) (e : Nat) (b : Blk), l.Nodup → l[e]? = some b →
    heightOf l b = some e := by
  intro l
  induction l with
  | nil => intro e b _ h; simp at h
  | cons x xs ih =>
    intro e b hn h
    cases e with
    | zero =>
      simp only [List.getElem?_cons_zero, Option.some.injEq] at h
      simp only [heightOf, h, ↓reduceIte]
    | succ e =>
      simp only [List.getElem?_cons_succ] at h
      have hx : x ≠ b := by
        intro hxb
        have := (List.nodup_cons.mp hn).1
        exact this (hxb ▸ List.mem_of_getElem? h)
      simp only [heightOf, hx, ↓reduceIte]
      rw [ih e b (List.nodup_cons.mp hn).2 h]
      rfl


/-! ### the round's hypotheses, unpacked -/

structure HW (r : Round) : Prop where
  hon  : ∃ p0 ∈ r.peers, r.honest p0 = true
  prov : ∀ p ∈ r.peers, r.liar p = true → r.provable p = true
  tv   : ∀ i, i < r.n → r.verify (r.truth (r.start + i)) (r.start + i) ≠ .bad
  fe   : ∀ i, i < r.n → r.getBlock (r.start + i) = true
  ns   : r.shapeEarlyReturn = false

theorem HW.of_bool (r : Round) (h1 : r.hyp = true) (h2 : r.shapeEarlyReturn = false) :
    HW r := by
  unfold Round.hyp at h1
  simp only [Bool.and_eq_true, List.any_eq_true, List.all_eq_true, Bool.or_eq_true,
    Bool.not_eq_eq_eq_not, Bool.not_true] at h1
  obtain ⟨⟨⟨⟨p0, hp0, hh⟩, hprov⟩, htv⟩, hfe⟩ := h1
  refine ⟨⟨p0, hp0, hh⟩, ?_, ?_, ?_, h2⟩
  · intro p hp hl
    rcases hprov p hp with h | h
    · rw [hl] at h; exact absurd h (by decide)
    · exact h
  · intro i hi
    unfold Round.truthVerifies at htv
    simp only [List.all_eq_true, List.mem_range, bne_iff_ne, ne_eq] at htv
    exact htv i hi
  · intro i hi
    unfold Round.fetchable at hfe
    simp only [List.all_eq_true, List.mem_range] at hfe
    exact hfe i hi

/-- an entry of the header map: a connected peer, its accepted message, starting from our tip -/
def Good (r : Round) (pm : Peer × Msg) : Prop :=
  pm.1 ∈ r.peers ∧ r.msgOf pm.1 = some pm.2 ∧ pm.2.prev = r.tip

theorem Good.hashAt {r : Round} {pm : Peer × Msg} (g : Good r pm) (i : Nat) :
    r.hashAt pm.1 i = pm.2.hashes[i]? := by
  unfold Round.hashAt; rw [g.2.1]

theorem Good.responding {r : Round} {pm : Peer × Msg} (g : Good r pm) : r.responding pm.1 = true := by
  unfold Round.responding; rw [g.2.1]; simp only [g.2.2, beq_self_eq_true]

theorem Good.len {r : Round} {pm : Peer × Msg} (g : Good r pm) : pm.2.hashes.length = r.n := by
  have := g.2.1; unfold Round.msgOf at this; exact accept_some this

theorem Good.some {r : Round} {pm : Peer × Msg} (g : Good r pm) (i : Nat) (hi : i < r.n) :
    ∃ f, pm.2.hashes[i]? = some f := by
  have hl := g.len
  have hlt : i < pm.2.hashes.length := by omega
  exact ⟨pm.2.hashes[i], List.getElem?_eq_getElem hlt⟩

theorem honest_at {r : Round} {p : Peer} (h : r.honest p = true) (i : Nat) (hi : i < r.n) :
    r.hashAt p i = some (r.truth (r.start + i)) ∧ r.served p (r.start + i) = some (r.truth (r.start + i)) := by
  unfold Round.honest at h
  simp only [Bool.and_eq_true, List.all_eq_true, List.mem_range, beq_iff_eq] at h
  exact h.2 i hi

theorem honest_responding {r : Round} {p : Peer} (h : r.honest p = true) : r.responding p = true := by
  unfold Round.honest at h
  simp only [Bool.and_eq_true] at h
  exact h.1

theorem falseAt_iff {r : Round} {pm : Peer × Msg} (g : Good r pm) (i : Nat) (f : FHash)
    (hf : pm.2.hashes[i]? = some f) : r.falseAt pm.1 i = true ↔ f ≠ r.truth (r.start + i) := by
  unfold Round.falseAt
  rw [g.hashAt, hf]
  simp only [bne_iff_ne, ne_eq]


/-! ### one call of `detectBadPeers` -/

/-- some entry is false at `i` whenever a mismatch is seen and an honest entry is present -/
theorem exists_false_of_mismatch {r : Round} (_hw : HW r) (hs : List (Peer × Msg)) (i : Nat) (hi : i < r.n)
    (hgood : ∀ pm ∈ hs, Good r pm) (hm : mismatch hs i = true) :
    ∃ pm ∈ hs, r.falseAt pm.1 i = true := by
  apply Classical.byContradiction
  intro hno
  have hall : ∀ pm ∈ hs, pm.2.hashes[i]? = some (r.truth (r.start + i)) := by
    intro pm hpm
    obtain ⟨f, hf⟩ := (hgood pm hpm).some i hi
    have : ¬ r.falseAt pm.1 i = true := fun h => hno ⟨pm, hpm, h⟩
    rw [falseAt_iff (hgood pm hpm) i f hf] at this
    rw [hf, Classical.not_not.mp this]
  cases hs with
  | nil => simp [mismatch, mismatchGo] at hm
  | cons pm0 rest =>
    have := mismatchGo_all_eq i (r.truth (r.start + i)) (pm0 :: rest) none (Or.inl rfl) hall
    unfold mismatch at hm
    rw [this] at hm
    exact absurd hm (by decide)

theorem detect_sound {r : Round} (hw : HW r) (net : Net) (s' : St) (hs : List (Peer × Msg)) (i : Nat)
    (hi : i < r.n) (hserved : r.served = net.served) (hverify : r.verify = net.verify)
    (hgb : r.getBlock = net.getBlock)
    (hgood : ∀ pm ∈ hs, Good r pm)
    (hlive : ∀ pm ∈ hs, pm.1 ∈ net.peers.filter (live s'))
    (hm : mismatch hs i = true) :
    ∃ bad, detect net s' hs (r.start + i) i = .ok bad ∧
      (∀ q, r.honest q = true → q ∉ bad) ∧
      (∀ pm ∈ hs, r.falseAt pm.1 i = true → pm.1 ∈ bad) := by
  -- what phase 1 looks at, in terms of the round
  have hp1 : ∀ pm ∈ hs, (pm.1 ∈ phase1 (filtersAt s' net (r.start + i)) hs i ↔ r.phase1Bad pm.1 i = true) ∨ True :=
    fun _ _ => Or.inr trivial
  have hcond : ∀ pm ∈ hs,
      p1cond (filtersAt s' net (r.start + i)) pm i = r.phase1Bad pm.1 i := by
    intro pm hpm
    unfold p1cond
    rw [lookupF_filtersAt s' net _ pm.1 (hlive pm hpm)]
    unfold Round.phase1Bad
    rw [hserved, (hgood pm hpm).hashAt]
    cases net.served pm.1 (r.start + i) with
    | none => rfl
    | some f => rfl
  have hmem1 : ∀ q, q ∈ phase1 (filtersAt s' net (r.start + i)) hs i ↔
      ∃ pm ∈ hs, pm.1 = q ∧ r.phase1Bad pm.1 i = true := by
    intro q
    unfold phase1
    simp only [List.mem_map, List.mem_filter]
    constructor
    · rintro ⟨pm, ⟨hpm, hc⟩, rfl⟩
      exact ⟨pm, hpm, rfl, by rw [← hcond pm hpm]; exact hc⟩
    · rintro ⟨pm, hpm, rfl, hc⟩
      exact ⟨pm, ⟨hpm, by rw [hcond pm hpm]; exact hc⟩, rfl⟩
  -- an honest peer is never phase-1 bad
  have hhon1 : ∀ pm ∈ hs, r.honest pm.1 = true → r.phase1Bad pm.1 i = false := by
    intro pm hpm hh
    obtain ⟨h1, h2⟩ := honest_at hh i hi
    unfold Round.phase1Bad
    rw [h2, h1]
    simp
  obtain ⟨pmf, hpmf, hfalse⟩ := exists_false_of_mismatch hw hs i hi hgood hm
  unfold detect
  by_cases hp : (phase1 (filtersAt s' net (r.start + i)) hs i).isEmpty = true
  · -- phase 1 found nobody: the block decides
    simp only [hp, Bool.not_true, Bool.false_eq_true, ↓reduceIte]
    have hgb' : net.getBlock (r.start + i) = true := by rw [← hgb]; exact hw.fe i hi
    simp only [hgb', Bool.not_true, Bool.false_eq_true, ↓reduceIte]
    have hnone : ∀ pm ∈ hs, r.phase1Bad pm.1 i = false := by
      intro pm hpm
      cases hb : r.phase1Bad pm.1 i with
      | false => rfl
      | true =>
        have : pm.1 ∈ phase1 (filtersAt s' net (r.start + i)) hs i := (hmem1 pm.1).mpr ⟨pm, hpm, rfl, hb⟩
        rw [List.isEmpty_iff] at hp
        rw [hp] at this
        exact absurd this List.not_mem_nil
    -- every entry false at i serves a filter that the block rejects
    have hbadmem : ∀ pm ∈ hs, r.falseAt pm.1 i = true →
        ∃ f, (pm.1, f) ∈ filtersAt s' net (r.start + i) ∧ net.verify f (r.start + i) = .bad := by
      intro pm hpm hf
      have g := hgood pm hpm
      have hliar : r.liar pm.1 = true := by
        unfold Round.liar
        simp only [Bool.or_eq_true, Bool.and_eq_true, List.any_eq_true, List.mem_range]
        exact Or.inr ⟨g.responding, i, hi, hf⟩
      have hprov := hw.prov pm.1 g.1 hliar
      unfold Round.provable at hprov
      have hwp : r.wrongPrev pm.1 = false := by
        unfold Round.wrongPrev; rw [g.2.1]; simp [g.2.2]
      simp only [hwp, Bool.false_or, List.all_eq_true, List.mem_range, Bool.or_eq_true,
        Bool.not_eq_eq_eq_not, Bool.not_true] at hprov
      have hpa := hprov i hi
      rcases hpa with h | h
      · rw [hf] at h; exact absurd h (by decide)
      · unfold Round.provableAt at h
        simp only [hnone pm hpm, Bool.false_or] at h
        obtain ⟨f, hfs⟩ := g.some i hi
        rw [g.hashAt, hfs] at h
        simp only [beq_iff_eq] at h
        -- not phase-1 bad: serves exactly f
        have hnb := hnone pm hpm
        unfold Round.phase1Bad at hnb
        cases hsv : r.served pm.1 (r.start + i) with
        | none => rw [hsv] at hnb; simp at hnb
        | some f' =>
          rw [hsv, g.hashAt, hfs] at hnb
          simp only [Bool.not_eq_eq_eq_not, Bool.not_false, beq_iff_eq, Option.some.injEq] at hnb
          subst hnb
          refine ⟨f, ?_, by rw [← hverify]; exact h⟩
          unfold filtersAt
          simp only [List.mem_filterMap, Option.map_eq_some_iff]
          exact ⟨pm.1, hlive pm hpm, f, by rw [← hserved]; exact hsv, rfl⟩
    obtain ⟨f0, hf0m, hf0b⟩ := hbadmem pmf hpmf hfalse
    unfold resolveFromBlock
    have hne : ((filtersAt s' net (r.start + i)).filter
        (fun x => net.verify x.2 (r.start + i) == VRes.bad)).map (·.1) ≠ [] := by
      intro h
      have : pmf.1 ∈ ((filtersAt s' net (r.start + i)).filter
          (fun x => net.verify x.2 (r.start + i) == VRes.bad)).map (·.1) := by
        simp only [List.mem_map, List.mem_filter, beq_iff_eq]
        exact ⟨(pmf.1, f0), ⟨hf0m, hf0b⟩, rfl⟩
      rw [h] at this
      exact absurd this List.not_mem_nil
    have hne' : (((filtersAt s' net (r.start + i)).filter
        (fun x => net.verify x.2 (r.start + i) == VRes.bad)).map (·.1)).isEmpty = false := by
      cases hl : ((filtersAt s' net (r.start + i)).filter
        (fun x => net.verify x.2 (r.start + i) == VRes.bad)).map (·.1) with
      | nil => exact absurd hl hne
      | cons a b => rfl
    simp only [hne', Bool.not_false, ↓reduceIte]
    refine ⟨_, rfl, ?_, ?_⟩
    · intro q hq hqb
      simp only [List.mem_map, List.mem_filter, beq_iff_eq] at hqb
      obtain ⟨x, ⟨hx, hxb⟩, rfl⟩ := hqb
      have hsv := mem_filtersAt s' net _ x hx
      obtain ⟨_, h2⟩ := honest_at hq i hi
      rw [hserved, hsv] at h2
      have := hw.tv i hi
      rw [hverify, ← Option.some.inj h2] at this
      exact this hxb
    · intro pm hpm hf
      obtain ⟨f, hfm, hfb⟩ := hbadmem pm hpm hf
      simp only [List.mem_map, List.mem_filter, beq_iff_eq]
      exact ⟨(pm.1, f), ⟨hfm, hfb⟩, rfl⟩
  · -- phase 1 found somebody: those are returned at once
    have hp' : (phase1 (filtersAt s' net (r.start + i)) hs i).isEmpty = false := by
      cases h : (phase1 (filtersAt s' net (r.start + i)) hs i).isEmpty with
      | true => exact absurd h hp
      | false => rfl
    simp only [hp', Bool.not_false, ↓reduceIte]
    refine ⟨_, rfl, ?_, ?_⟩
    · intro q hq hqb
      obtain ⟨pm, hpm, rfl, hb⟩ := (hmem1 q).mp hqb
      rw [hhon1 pm hpm hq] at hb
      exact absurd hb (by decide)
    · intro pm hpm hf
      -- not the F12 shape: with a phase-1-bad peer present, no self-consistent liar at i
      have hex : ∃ pm1 ∈ hs, r.phase1Bad pm1.1 i = true := by
        cases hl : phase1 (filtersAt s' net (r.start + i)) hs i with
        | nil => rw [hl] at hp'; exact absurd hp' (by decide)
        | cons q rest =>
          have : q ∈ phase1 (filtersAt s' net (r.start + i)) hs i := by rw [hl]; exact List.mem_cons_self
          obtain ⟨pm1, hpm1, _, hb⟩ := (hmem1 q).mp this
          exact ⟨pm1, hpm1, hb⟩
      obtain ⟨pm1, hpm1, hb1⟩ := hex
      have hns := hw.ns
      unfold Round.shapeEarlyReturn at hns
      rw [List.any_eq_false] at hns
      have hi' := hns i (List.mem_range.mpr hi)
      simp only [Bool.and_eq_true, List.any_eq_true, not_and, not_exists] at hi'
      have g := hgood pm hpm
      have g1 := hgood pm1 hpm1
      have hno := hi' ⟨pm1.1, g1.1, g1.responding, hb1⟩ pm.1 g.1
      unfold Round.scLiarAt at hno
      simp only [g.responding, hf, Bool.and_self, Bool.true_and, Bool.not_eq_true',
        Bool.not_eq_false] at hno
      exact (hmem1 pm.1).mpr ⟨pm, hpm, rfl, hno⟩


/-! ### the detection loop -/

theorem live_ban (s : St) (ps : List Peer) (reason : Nat) (p : Peer) (hl : live s p = true) (hp : p ∉ ps) :
    live (ban s ps reason) p = true := by
  unfold live ban at *
  simp only [Bool.not_eq_true', Bool.and_eq_false_imp] at hl ⊢
  intro hd
  have := hl hd
  simp only [List.any_append, Bool.or_eq_false_iff]
  refine ⟨this, ?_⟩
  rw [List.any_eq_false]
  intro x hx
  simp only [List.mem_map] at hx
  obtain ⟨q, hq, rfl⟩ := hx
  simp only [beq_iff_eq]
  intro h; exact hp (h ▸ hq)

theorem mem_dropPeers (hs : List (Peer × Msg)) (bad : List Peer) (pm : Peer × Msg) :
    pm ∈ dropPeers hs bad ↔ pm ∈ hs ∧ pm.1 ∉ bad := by
  unfold dropPeers
  simp only [List.mem_filter, Bool.not_eq_eq_eq_not, Bool.not_true, List.contains_eq_mem,
    decide_eq_false_iff_not]

theorem idxLoop_sound {r : Round} (hw : HW r) (net : Net)
    (hserved : r.served = net.served) (hverify : r.verify = net.verify) (hgb : r.getBlock = net.getBlock) :
    ∀ (is : List Nat) (s' : St) (hs : List (Peer × Msg)),
    (∀ i ∈ is, i < r.n) →
    (∀ pm ∈ hs, Good r pm) →
    (∀ pm ∈ hs, pm.1 ∈ net.peers ∧ live s' pm.1 = true) →
    (∃ pm ∈ hs, r.honest pm.1 = true) →
    ∃ (s2 : St) (hs2 : List (Peer × Msg)) (newb : List Peer),
      idxLoop net r.start is s' hs = (s2, .ok hs2) ∧
      s2.bans = s'.bans ++ newb.map (fun p => (p, reasonHeader)) ∧
      (∀ pm ∈ hs2, pm ∈ hs) ∧
      (∀ pm ∈ hs, pm ∉ hs2 → pm.1 ∈ newb) ∧
      (∀ pm ∈ hs, r.honest pm.1 = true → pm ∈ hs2) ∧
      (∀ q, r.honest q = true → q ∉ newb) ∧
      (∀ pm ∈ hs2, ∀ i ∈ is, r.falseAt pm.1 i = false) := by
  intro is
  induction is with
  | nil =>
    intro s' hs _ _ _ _
    exact ⟨s', hs, [], rfl, by simp, fun _ h => h, fun pm h hn => absurd h hn, fun _ h _ => h,
      fun _ _ h => absurd h List.not_mem_nil, fun _ _ _ h => absurd h List.not_mem_nil⟩
  | cons i is ih =>
    intro s' hs his hgood hlive hhon
    have hi : i < r.n := his i List.mem_cons_self
    have his' : ∀ j ∈ is, j < r.n := fun j hj => his j (List.mem_cons_of_mem _ hj)
    unfold idxLoop
    by_cases hm : mismatch hs i = true
    · simp only [hm, ↓reduceIte]
      have hlive' : ∀ pm ∈ hs, pm.1 ∈ net.peers.filter (live s') := by
        intro pm hpm
        exact List.mem_filter.mpr (hlive pm hpm)
      obtain ⟨bad, hdet, hbh, hbf⟩ := detect_sound hw net s' hs i hi hserved hverify hgb hgood hlive' hm
      rw [hdet]
      simp only
      have hgood2 : ∀ pm ∈ dropPeers hs bad, Good r pm :=
        fun pm h => hgood pm ((mem_dropPeers hs bad pm).mp h).1
      have hlive2 : ∀ pm ∈ dropPeers hs bad, pm.1 ∈ net.peers ∧ live (ban s' bad reasonHeader) pm.1 = true := by
        intro pm h
        obtain ⟨h1, h2⟩ := (mem_dropPeers hs bad pm).mp h
        exact ⟨(hlive pm h1).1, live_ban s' bad _ pm.1 (hlive pm h1).2 h2⟩
      have hhon2 : ∃ pm ∈ dropPeers hs bad, r.honest pm.1 = true := by
        obtain ⟨pm, hpm, hh⟩ := hhon
        exact ⟨pm, (mem_dropPeers hs bad pm).mpr ⟨hpm, hbh pm.1 hh⟩, hh⟩
      obtain ⟨s2, hs2, newb, e1, e2, e3, e4, e5, e6, e7⟩ :=
        ih (ban s' bad reasonHeader) (dropPeers hs bad) his' hgood2 hlive2 hhon2
      refine ⟨s2, hs2, bad ++ newb, e1, ?_, ?_, ?_, ?_, ?_, ?_⟩
      · rw [e2]; simp only [ban, List.map_append, List.append_assoc]
      · intro pm h; exact ((mem_dropPeers hs bad pm).mp (e3 pm h)).1
      · intro pm hpm hn
        by_cases hb : pm.1 ∈ bad
        · exact List.mem_append_left _ hb
        · exact List.mem_append_right _ (e4 pm ((mem_dropPeers hs bad pm).mpr ⟨hpm, hb⟩) hn)
      · intro pm hpm hh
        exact e5 pm ((mem_dropPeers hs bad pm).mpr ⟨hpm, hbh pm.1 hh⟩) hh
      · intro q hq hqm
        rcases List.mem_append.mp hqm with h | h
        · exact hbh q hq h
        · exact e6 q hq h
      · intro pm hpm j hj
        rcases List.mem_cons.mp hj with rfl | hj
        · have hd := (mem_dropPeers hs bad pm).mp (e3 pm hpm)
          cases hf : r.falseAt pm.1 j with
          | false => rfl
          | true => exact absurd (hbf pm hd.1 hf) hd.2
        · exact e7 pm hpm j hj
    · simp only [hm, Bool.false_eq_true, ↓reduceIte]
      have hm' : mismatch hs i = false := by
        cases h : mismatch hs i with
        | true => exact absurd h hm
        | false => rfl
      obtain ⟨s2, hs2, newb, e1, e2, e3, e4, e5, e6, e7⟩ := ih s' hs his' hgood hlive hhon
      refine ⟨s2, hs2, newb, e1, e2, e3, e4, e5, e6, ?_⟩
      intro pm hpm j hj
      rcases List.mem_cons.mp hj with rfl | hj
      · -- no mismatch and an honest entry: everybody advertises the truth at j
        have hsome : ∀ pm ∈ hs, ∃ f, pm.2.hashes[j]? = some f :=
          fun pm hpm => (hgood pm hpm).some j hi
        obtain ⟨v, _, hall⟩ := mismatchGo_false j hs none hm' hsome
        obtain ⟨pmh, hpmh, hh⟩ := hhon
        have hvt : v = r.truth (r.start + j) := by
          have h1 := (honest_at hh j hi).1
          rw [(hgood pmh hpmh).hashAt, hall pmh hpmh] at h1
          exact Option.some.inj h1
        have hpm' := e3 pm hpm
        cases hf : r.falseAt pm.1 j with
        | false => rfl
        | true =>
          have := (falseAt_iff (hgood pm hpm') j v (hall pm hpm')).mp hf
          exact absurd hvt this
      · exact e7 pm hpm j hj


/-! ### the whole round -/

theorem mem_gather (s : St) (net : Net) (n : Nat) (pm : Peer × Msg) :
    pm ∈ gather s net n ↔ pm.1 ∈ net.peers.filter (live s) ∧ accept n (net.resps pm.1) = some pm.2 := by
  unfold gather
  simp only [List.mem_filterMap, Option.map_eq_some_iff]
  constructor
  · rintro ⟨p, hp, m, hm, rfl⟩; exact ⟨hp, hm⟩
  · rintro ⟨hp, hm⟩; exact ⟨pm.1, hp, pm.2, hm, rfl⟩

theorem writeMsg_ok (H : FHash → Hdr → Hdr) (s : St) (prev : Hdr) (stop : Blk) (hashes : List FHash) (e : Nat)
    (hl : s.fstore.getLast? = some prev) (hh : heightOf s.blocks stop = some e)
    (hn0 : hashes.length ≠ 0) (hn1 : hashes.length ≤ e + 1)
    (ha : e + 1 - hashes.length = s.fstore.length) :
    (writeMsg H s prev stop hashes).1.fstore = s.fstore ++ chainFrom H prev hashes ∧
    (writeMsg H s prev stop hashes).1.bans = s.bans := by
  have hn : ¬ (hashes.length = 0 ∨ e + 1 < hashes.length) := by omega
  simp only [writeMsg, hl, hh, hn, ha, ne_eq, not_true_eq_false, ↓reduceIte, and_self]

theorem writeMsg_bans (H : FHash → Hdr → Hdr) (s : St) (prev : Hdr) (stop : Blk) (hashes : List FHash) :
    (writeMsg H s prev stop hashes).1.bans = s.bans := by
  rcases writeMsg_cases H s prev stop hashes with h | ⟨e, _, _, _, _, _, heq⟩
  · rw [h]
  · rw [heq]

theorem idxLoop_disc (net : Net) (start : Nat) : ∀ (is : List Nat) (s : St) (hs : List (Peer × Msg)),
    (idxLoop net start is s hs).1.discBanned = s.discBanned := by
  intro is
  induction is with
  | nil => intro s hs; rfl
  | cons i is ih =>
    intro s hs
    unfold idxLoop
    by_cases hm : mismatch hs i = true
    · simp only [hm, ↓reduceIte]
      cases detect net s hs (start + i) i with
      | error e => rfl
      | ok bad => exact ih (ban s bad reasonHeader) (dropPeers hs bad)
    · simp only [hm, Bool.false_eq_true, ↓reduceIte]
      exact ih s hs

/-- entries without a false index carry exactly the true hashes -/
theorem hashes_eq_truth {r : Round} {pm : Peer × Msg} (g : Good r pm)
    (hf : ∀ i ∈ List.range r.n, r.falseAt pm.1 i = false) : pm.2.hashes = r.truthSlice := by
  apply List.ext_getElem?
  intro i
  unfold Round.truthSlice
  by_cases hi : i < r.n
  · have hlt : i < pm.2.hashes.length := by rw [g.len]; exact hi
    have h1 := hf i (List.mem_range.mpr hi)
    have hnot : ¬ r.falseAt pm.1 i = true := by rw [h1]; decide
    rw [falseAt_iff g i _ (List.getElem?_eq_getElem hlt)] at hnot
    rw [List.getElem?_eq_getElem hlt, Classical.not_not.mp hnot]
    simp only [List.getElem?_map, List.getElem?_range hi, Option.map_some]
  · have h1 : pm.2.hashes.length ≤ i := by rw [g.len]; omega
    rw [List.getElem?_eq_none h1, List.getElem?_eq_none]
    simp only [List.length_map, List.length_range]; omega


theorem map_fst_pair (l : List Peer) (reason : Nat) :
    (l.map (fun p => (p, reason))).map (·.1) = l := by
  induction l with
  | nil => rfl
  | cons a t ih => simp only [List.map_cons, ih]

theorem honest_wins_round (H : FHash → Hdr → Hdr) (s : St) (net : Net) (truth : Nat → FHash)
    (hi : Inv H s) (hnd : s.blocks.Nodup) (hahead : s.fstore.length < s.blocks.length)
    (h1 : (roundOf s net truth).hyp = true) (h2 : (roundOf s net truth).shapeEarlyReturn = false) :
    (roundOf s net truth).concl H ((tipRound H s net).1.fstore.drop s.fstore.length)
      (newBans s (tipRound H s net).1) = true := by
  have hw := HW.of_bool _ h1 h2
  have hflen : 1 ≤ s.fstore.length := by
    cases hf : s.fstore with
    | nil => exact absurd hf hi.ne
    | cons a t => simp
  cases hl : s.fstore.getLast? with
  | none => exact absurd (List.getLast?_eq_none_iff.mp hl) hi.ne
  | some tip =>
  have hrt : (roundOf s net truth).tip = tip := by
    show (s.fstore.getLast?).getD 0 = tip
    rw [hl]; rfl
  -- the header map after the previous-header test
  have hmem0 : ∀ pm, pm ∈ gather s net (batchLen s) ↔
      pm.1 ∈ (roundOf s net truth).peers ∧ (roundOf s net truth).msgOf pm.1 = some pm.2 :=
    fun pm => mem_gather s net (batchLen s) pm
  have hgood1 : ∀ pm ∈ (gather s net (batchLen s)).filter (fun pm => pm.2.prev == tip),
      Good (roundOf s net truth) pm := by
    intro pm hpm
    obtain ⟨h0, hp⟩ := List.mem_filter.mp hpm
    obtain ⟨a, b⟩ := (hmem0 pm).mp h0
    exact ⟨a, b, by rw [hrt]; exact beq_iff_eq.mp hp⟩
  have hwrong : ∀ q, q ∈ ((gather s net (batchLen s)).filter (fun pm => pm.2.prev != tip)).map (·.1) ↔
      (q ∈ (roundOf s net truth).peers ∧ (roundOf s net truth).wrongPrev q = true) := by
    intro q
    simp only [List.mem_map, List.mem_filter, bne_iff_ne, ne_eq]
    constructor
    · rintro ⟨pm, ⟨h0, hp⟩, rfl⟩
      obtain ⟨a, b⟩ := (hmem0 pm).mp h0
      refine ⟨a, ?_⟩
      unfold Round.wrongPrev
      rw [b, hrt]
      simpa using hp
    · rintro ⟨a, b⟩
      unfold Round.wrongPrev at b
      cases hm : (roundOf s net truth).msgOf q with
      | none => rw [hm] at b; simp at b
      | some m =>
        rw [hm, hrt] at b
        exact ⟨(q, m), ⟨(hmem0 (q, m)).mpr ⟨a, hm⟩, by simpa using b⟩, rfl⟩
  -- an honest peer is in it
  obtain ⟨p0, hp0, hh0⟩ := hw.hon
  have hresp0 := honest_responding hh0
  have hex0 : ∃ pm ∈ (gather s net (batchLen s)).filter (fun pm => pm.2.prev == tip),
      (roundOf s net truth).honest pm.1 = true := by
    unfold Round.responding at hresp0
    cases hm : (roundOf s net truth).msgOf p0 with
    | none => rw [hm] at hresp0; simp at hresp0
    | some m0 =>
      rw [hm, hrt] at hresp0
      exact ⟨(p0, m0), List.mem_filter.mpr ⟨(hmem0 (p0, m0)).mpr ⟨hp0, hm⟩, hresp0⟩, hh0⟩
  have hlive1 : ∀ pm ∈ (gather s net (batchLen s)).filter (fun pm => pm.2.prev == tip),
      pm.1 ∈ net.peers ∧
      live (ban s (((gather s net (batchLen s)).filter (fun pm => pm.2.prev != tip)).map (·.1)) reasonHeader)
        pm.1 = true := by
    intro pm hpm
    have g := hgood1 pm hpm
    have hp : pm.1 ∈ net.peers.filter (live s) := g.1
    obtain ⟨a, b⟩ := List.mem_filter.mp hp
    refine ⟨a, live_ban s _ _ pm.1 b ?_⟩
    intro hq
    obtain ⟨_, hwp⟩ := (hwrong pm.1).mp hq
    unfold Round.wrongPrev at hwp
    rw [g.2.1] at hwp
    simp only [g.2.2, bne_self_eq_false] at hwp
    exact absurd hwp (by decide)
  obtain ⟨s2, hs2, newb, e1, e2, e3, e4, e5, e6, e7⟩ :=
    idxLoop_sound hw net rfl rfl rfl (List.range (batchLen s))
      (ban s (((gather s net (batchLen s)).filter (fun pm => pm.2.prev != tip)).map (·.1)) reasonHeader)
      ((gather s net (batchLen s)).filter (fun pm => pm.2.prev == tip))
      (fun i hi => List.mem_range.mp hi) hgood1 hlive1 hex0
  have hframe := idxLoop_frame net s.fstore.length (List.range (batchLen s))
      (ban s (((gather s net (batchLen s)).filter (fun pm => pm.2.prev != tip)).map (·.1)) reasonHeader)
      ((gather s net (batchLen s)).filter (fun pm => pm.2.prev == tip))
  have e1' : idxLoop net s.fstore.length (List.range (batchLen s))
      (ban s (((gather s net (batchLen s)).filter (fun pm => pm.2.prev != tip)).map (·.1)) reasonHeader)
      ((gather s net (batchLen s)).filter (fun pm => pm.2.prev == tip)) = (s2, .ok hs2) := e1
  rw [e1'] at hframe
  obtain ⟨hf1, hf2, hf3⟩ := hframe
  simp only [ban] at hf1 hf2 hf3
  -- the round's result
  have hne1 : ((gather s net (batchLen s)).filter (fun pm => pm.2.prev == tip)).isEmpty = false := by
    obtain ⟨pm, hpm, _⟩ := hex0
    cases hc : (gather s net (batchLen s)).filter (fun pm => pm.2.prev == tip) with
    | nil => rw [hc] at hpm; exact absurd hpm List.not_mem_nil
    | cons a t => rfl
  have hc1 : ¬ (s.blocks.length - 1 < s.fstore.length - 1) := by omega
  have hc2 : ¬ (s.blocks.length - 1 = s.fstore.length - 1) := by omega
  have hT : tipRound H s net = commitPick H s2 net.pick hs2 := by
    unfold tipRound
    simp only [hl, hc1, hc2, hne1, e1', ↓reduceIte, Bool.false_eq_true]
  rw [hT]
  -- the pick
  obtain ⟨pmh, hpmh, hhh⟩ := hex0
  have hpmh2 : pmh ∈ hs2 := e5 pmh hpmh hhh
  have hlen2 : 0 < hs2.length := List.length_pos_of_mem hpmh2
  have hidx : net.pick % hs2.length < hs2.length := Nat.mod_lt _ hlen2
  have hget : hs2[net.pick % hs2.length]? = some hs2[net.pick % hs2.length] :=
    List.getElem?_eq_getElem hidx
  have hpick : hs2[net.pick % hs2.length] ∈ hs2 := List.getElem_mem hidx
  have gp := hgood1 _ (e3 _ hpick)
  have hhashes := hashes_eq_truth gp (e7 _ hpick)
  -- the stop block and the write
  have hstop : stopHeight s2 = stopHeight s := by unfold stopHeight; rw [hf1, hf3]
  have hsl : stopHeight s < s.blocks.length := by
    unfold stopHeight maxPerMsg
    simp only
    split <;> omega
  have hsge : s.fstore.length ≤ stopHeight s := by
    unfold stopHeight maxPerMsg
    simp only
    split <;> omega
  have hgs : s2.blocks[stopHeight s2]? = some s.blocks[stopHeight s] := by
    rw [hstop, hf3]; exact List.getElem?_eq_getElem hsl
  have hho := heightOf_getElem s.blocks (stopHeight s) _ hnd (List.getElem?_eq_getElem hsl)
  have hnlen : (roundOf s net truth).truthSlice.length = batchLen s := by
    unfold Round.truthSlice; simp only [List.length_map, List.length_range]; rfl
  have hbl : batchLen s = stopHeight s - s.fstore.length + 1 := rfl
  have hw2 := writeMsg_ok H s2 tip s.blocks[stopHeight s] (roundOf s net truth).truthSlice (stopHeight s)
    (by rw [hf1]; exact hl) (by rw [hf3]; exact hho) (by rw [hnlen, hbl]; omega) (by rw [hnlen, hbl]; omega)
    (by rw [hnlen, hbl, hf1]; omega)
  have hcp : (commitPick H s2 net.pick hs2).1 =
      (writeMsg H s2 tip s.blocks[stopHeight s] (roundOf s net truth).truthSlice).1 := by
    unfold commitPick
    rw [hget]
    simp only [hgs]
    rw [wToT_fst, gp.2.2, hrt, hhashes]
  rw [hcp]
  unfold Round.concl
  simp only [Bool.and_eq_true, beq_iff_eq, List.all_eq_true, Bool.or_eq_true, Bool.not_eq_eq_eq_not,
    Bool.not_true]
  constructor
  · rw [hw2.1, hf1, List.drop_left, hrt]
  · -- who was banned in the round
    have hnb : newBans s (writeMsg H s2 tip s.blocks[stopHeight s] (roundOf s net truth).truthSlice).1 =
        ((gather s net (batchLen s)).filter (fun pm => pm.2.prev != tip)).map (·.1) ++ newb := by
      unfold newBans
      rw [hw2.2, e2]
      simp only [ban, List.append_assoc, List.drop_left, List.map_append, map_fst_pair]
    rw [hnb]
    intro p hp
    constructor
    · -- a liar is banned
      cases hli : (roundOf s net truth).liar p with
      | false => exact Or.inl rfl
      | true =>
        right
        simp only [List.contains_eq_mem, List.mem_append, decide_eq_true_eq]
        unfold Round.liar at hli
        simp only [Bool.or_eq_true, Bool.and_eq_true, List.any_eq_true] at hli
        rcases hli with hwp | ⟨hrp, i, hir, hfa⟩
        · exact Or.inl ((hwrong p).mpr ⟨hp, hwp⟩)
        · right
          unfold Round.responding at hrp
          cases hm : (roundOf s net truth).msgOf p with
          | none => rw [hm] at hrp; simp at hrp
          | some m =>
            rw [hm, hrt] at hrp
            have hin : (p, m) ∈ (gather s net (batchLen s)).filter (fun pm => pm.2.prev == tip) :=
              List.mem_filter.mpr ⟨(hmem0 (p, m)).mpr ⟨hp, hm⟩, hrp⟩
            apply e4 (p, m) hin
            intro hin2
            have := e7 (p, m) hin2 i hir
            rw [hfa] at this
            exact absurd this (by decide)
    · -- an honest peer is not
      cases hho' : (roundOf s net truth).honest p with
      | false => exact Or.inl rfl
      | true =>
        right
        simp only [List.contains_eq_mem, List.mem_append, decide_eq_false_iff_not, not_or]
        refine ⟨?_, e6 p hho'⟩
        intro hq
        obtain ⟨_, hwp⟩ := (hwrong p).mp hq
        have hrp := honest_responding hho'
        unfold Round.responding at hrp
        unfold Round.wrongPrev at hwp
        cases hm : (roundOf s net truth).msgOf p with
        | none => rw [hm] at hrp; simp at hrp
        | some m =>
          rw [hm] at hrp hwp
          simp only [bne_iff_ne, ne_eq] at hwp
          exact hwp (beq_iff_eq.mp hrp)

end Neutrino.CFHeaders
