/-
`Node.Ancestor` on the slot-indexed ring: under the ring invariant `RInv` (live nodes sit in
the cyclic range behind the tail with consecutive heights, `prev` links them, every skip
pointer either names the live node at `getAncestorHeight` or a slot that has since been
REUSED by a newer - higher - node) the walk returns exactly the live node of the asked height,
and nothing when the height is outside the live window: never a stale slot.
-/
import Neutrino.Model.HeaderList
namespace Neutrino.HL

/-- the slot `k` steps behind the tail `t` in a ring of `cap` slots (no `%`) -/
def slotAt (cap t k : Nat) : Nat := if k ≤ t then t - k else t + cap - k

/-- ring invariant; `t` = tail slot, `top` = height of the back node -/
structure RInv (r : Ring) (t top : Nat) : Prop where
  tail : r.tail = some t
  tcap : t < r.cap
  lenpos : 0 < r.len
  lencap : r.len ≤ r.cap
  lentop : r.len ≤ top + 1
  head : r.head = some (slotAt r.cap t (r.len - 1))
  notfull : r.len < r.cap → t + 1 = r.len
  hts : ∀ k, k < r.len → (r.slots (slotAt r.cap t k)).height = top - k
  prevs : ∀ k, k < r.len →
    (r.slots (slotAt r.cap t k)).prev = if k + 1 < r.len then some (slotAt r.cap t (k + 1)) else none
  ancs : ∀ k, k < r.len → ∀ a, (r.slots (slotAt r.cap t k)).anc = some a →
    (∃ j, k < j ∧ j < r.len ∧ a = slotAt r.cap t j ∧ top - j = gah (top - k)) ∨
    (r.slots a).height > top - k

theorem ancLoop_none (r : Ring) (f h : Nat) : ancLoop r f none h = none := by
  cases f <;> rfl

theorem ancLoop_correct (r : Ring) (t top : Nat) (inv : RInv r t top) :
    ∀ (fuel k h : Nat), k < r.len → r.len - k ≤ fuel → h ≤ top - k →
      ancLoop r fuel (some (slotAt r.cap t k)) h =
        if top + 1 - r.len ≤ h then some (slotAt r.cap t (top - h)) else none := by
  intro fuel
  induction fuel with
  | zero => intro k h hk hf _; omega
  | succ f ih =>
    intro k h hk hf hh
    have hlt := inv.lentop
    simp only [ancLoop, inv.hts k hk]
    by_cases heq : top - k = h
    · have h1 : top + 1 - r.len ≤ h := by omega
      have h2 : top - h = k := by omega
      simp [heq, h1, h2]
    · simp only [heq, ↓reduceIte]
      -- the step through `prev`
      have hprev : ancLoop r f (r.slots (slotAt r.cap t k)).prev h =
          if top + 1 - r.len ≤ h then some (slotAt r.cap t (top - h)) else none := by
        rw [inv.prevs k hk]
        by_cases hk1 : k + 1 < r.len
        · simp only [hk1, ↓reduceIte]
          exact ih (k + 1) h hk1 (by omega) (by omega)
        · simp only [hk1, ↓reduceIte, ancLoop_none]
          have : ¬ (top + 1 - r.len ≤ h) := by omega
          simp [this]
      cases ha : (r.slots (slotAt r.cap t k)).anc with
      | none => simp only []; exact hprev
      | some a =>
        simp only []
        by_cases hg : gah (top - k) ≥ h ∧ (r.slots a).height ≥ h ∧ (r.slots a).height < top - k
        · simp only [hg, and_self, ↓reduceIte]
          rcases inv.ancs k hk a ha with ⟨j, hkj, hj, haj, hgj⟩ | hstale
          · rw [haj]
            exact ih j h hj (by omega) (by omega)
          · omega
        · simp only [hg, ↓reduceIte]; exact hprev

/-- **`ancestor_correct`**: from the live node `k` steps behind the back, `Ancestor(h)` returns
the live node of height `h` when `h` is at or below that node and inside the live window (the
last `len` nodes pushed since the last reset), and `nil` otherwise. -/
theorem ancestor_correct (r : Ring) (t top : Nat) (inv : RInv r t top) (k h : Nat) (hk : k < r.len) :
    ancestor r (some (slotAt r.cap t k)) h =
      if h ≤ top - k ∧ top + 1 - r.len ≤ h then some (slotAt r.cap t (top - h)) else none := by
  simp only [ancestor, inv.hts k hk]
  by_cases hgt : h > top - k
  · have : ¬ (h ≤ top - k ∧ top + 1 - r.len ≤ h) := by omega
    rw [if_pos hgt, if_neg this]
  · simp only [hgt, ↓reduceIte]
    rw [ancLoop_correct r t top inv (r.cap + 1) k h hk (by have := inv.lencap; omega) (by omega)]
    have : h ≤ top - k := by omega
    simp [this]

/-- never a stale slot: what is returned is a live slot and holds a node of the asked height -/
theorem ancestor_live (r : Ring) (t top : Nat) (inv : RInv r t top) (k h : Nat) (hk : k < r.len) (i : Nat)
    (hres : ancestor r (some (slotAt r.cap t k)) h = some i) :
    ∃ j, j < r.len ∧ k ≤ j ∧ i = slotAt r.cap t j ∧ (r.slots i).height = h := by
  rw [ancestor_correct r t top inv k h hk] at hres
  split at hres
  · rename_i hc
    have hlt := inv.lentop
    simp only [Option.some.injEq] at hres
    refine ⟨top - h, by omega, by omega, hres.symm, ?_⟩
    rw [← hres, inv.hts (top - h) (by omega)]; omega
  · cases hres

/-- `ResetHeaderState` establishes the invariant, whatever the slots held before -/
theorem reset_inv (r : Ring) (hc : 0 < r.cap) (height id : Nat) : RInv (reset r height id) 0 height := by
  have hs : (reset r height id).slots 0 = { height := height, id := id, prev := none, anc := none } := by
    simp [reset, push, pushRaw, build, upd]
  have hl : (reset r height id).len = 1 := by
    simp [reset, push, pushRaw, build, upd]; omega
  have hcap : (reset r height id).cap = r.cap := by
    simp [reset, push, pushRaw, build, upd]
  have ht : (reset r height id).tail = some 0 := by
    simp [reset, push, pushRaw, build, upd]
  have hh : (reset r height id).head = some 0 := by
    simp [reset, push, pushRaw, build, upd]
  refine ⟨ht, by rw [hcap]; exact hc, by rw [hl]; omega, by rw [hl, hcap]; omega, by rw [hl]; omega,
    by rw [hh, hl]; simp [slotAt], by intro _; rw [hl], ?_, ?_, ?_⟩
  · intro k hk; rw [hl] at hk; have : k = 0 := by omega
    subst this; simp [slotAt, hs]
  · intro k hk; rw [hl] at hk; have : k = 0 := by omega
    subst this; simp [slotAt, hs, hl]
  · intro k hk a ha; rw [hl] at hk; have : k = 0 := by omega
    subst this; simp [slotAt, hs] at ha

end Neutrino.HL

namespace Neutrino.HL

/-! Non-vacuity: a ring of 3 slots, wrapped twice; the invariant holds and the walk is right. -/
def exRing : Ring := run { cap := 3 } [.reset 5 1, .push 6 2, .push 7 3, .push 8 4, .push 9 5]

example : (exRing.tail, exRing.head, exRing.len) = (some 1, some 2, 3) := by decide
example : ancestor exRing exRing.tail 8 = some 0 := by decide          -- live: slot 0 holds height 8
example : ancestor exRing exRing.tail 6 = none := by decide            -- aged out, its slot was reused
example : (exRing.slots 0).id = 4 ∧ (exRing.slots 1).id = 5 ∧ (exRing.slots 2).id = 3 := by decide

end Neutrino.HL
