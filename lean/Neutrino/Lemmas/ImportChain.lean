/-
Lemmas for C14: what the block validator and `validateChainContinuity` establish
about the headers that get appended (connectedness, validity), and the converse
direction of `validateChainContinuity` needed for the second import.
-/
import Neutrino.Lemmas.Import
namespace Neutrino.Import

theorem pairsOk_connected : ∀ (l : List BHdr), pairsOk l = true → connected l = true
  | [], _ => rfl
  | [_], _ => rfl
  | a :: b :: rest, h => by
    simp only [pairsOk, Bool.and_eq_true] at h
    simp only [connected, Bool.and_eq_true]
    exact ⟨h.1.1, pairsOk_connected (b :: rest) h.2⟩

/-- every header but the first was the second element of a passed `ValidatePair` -/
theorem pairsOk_tail_valid : ∀ (l : List BHdr), pairsOk l = true → (l.drop 1).all (·.valid) = true
  | [], _ => rfl
  | [_], _ => rfl
  | a :: b :: rest, h => by
    simp only [pairsOk, Bool.and_eq_true] at h
    have ih := pairsOk_tail_valid (b :: rest) h.2
    simp only [List.drop_succ_cons, List.drop_zero, List.all_cons, Bool.and_eq_true] at ih ⊢
    exact ⟨h.1.2, ih⟩

theorem pairsOk_link : ∀ (l : List BHdr) (i : Nat) (a c : BHdr), pairsOk l = true →
    l[i]? = some a → l[i + 1]? = some c → c.prev = a.id
  | [], _, _, _, _, h, _ => by simp at h
  | [_], i, _, _, _, _, h => by simp at h
  | x :: y :: rest, 0, a, c, h, ha, hc => by
    simp only [pairsOk, Bool.and_eq_true, beq_iff_eq] at h
    simp only [List.getElem?_cons_zero, Option.some.injEq, Nat.zero_add, List.getElem?_cons_succ] at ha hc
    subst ha; subst hc; exact h.1.1
  | x :: y :: rest, i + 1, a, c, h, ha, hc => by
    simp only [pairsOk, Bool.and_eq_true] at h
    simp only [List.getElem?_cons_succ] at ha hc
    exact pairsOk_link (y :: rest) i a c h.2 ha hc

theorem all_drop {α : Type} (p : α → Bool) (l : List α) (n : Nat) (h : l.all p = true) : (l.drop n).all p = true := by
  rw [List.all_eq_true] at h ⊢
  intro x hx
  exact h x (List.mem_of_mem_drop hx)

theorem connected_tail (x : BHdr) (xs : List BHdr) (h : connected (x :: xs) = true) : connected xs = true := by
  cases xs with
  | nil => rfl
  | cons y ys => simp only [connected, Bool.and_eq_true] at h; exact h.2

theorem connected_drop : ∀ (n : Nat) (l : List BHdr), connected l = true → connected (l.drop n) = true
  | 0, l, h => by simpa using h
  | _ + 1, [], _ => rfl
  | n + 1, x :: xs, h => by
    rw [List.drop_succ_cons]
    exact connected_drop n xs (connected_tail x xs h)

/-- joining two connected chains whose junction links -/
theorem connected_append_cons : ∀ (l1 : List BHdr) (p c : BHdr) (l2 : List BHdr),
    connected l1 = true → l1.getLast? = some p → c.prev = p.id → connected (c :: l2) = true →
    connected (l1 ++ c :: l2) = true
  | [], _, _, _, _, h, _, _ => by simp at h
  | [x], p, c, l2, _, h, hl, h2 => by
    simp only [List.getLast?_singleton, Option.some.injEq] at h
    subst h
    simp only [List.singleton_append, connected, Bool.and_eq_true, beq_iff_eq]
    exact ⟨hl, h2⟩
  | x :: y :: rest, p, c, l2, h1, h, hl, h2 => by
    simp only [connected, Bool.and_eq_true] at h1
    rw [List.getLast?_cons_cons] at h
    have ih := connected_append_cons (y :: rest) p c l2 h1.2 h hl h2
    simp only [List.cons_append, connected, Bool.and_eq_true] at ih ⊢
    exact ⟨h1.1, ih⟩

/-! ### `validateChainContinuity`, overlap case, both directions -/

/-- the three obligations of the overlap case -/
def overlapFacts (F : File) (st : Stores) (b f : Nat) : Prop :=
  let oe := min (min b f) (endHeight F)
  verifyAt F st .both F.bstart = true ∧
  (oe > F.bstart → verifyAt F st .both oe = true) ∧
  (oe < endHeight F → connects F st (oe + 1) b = true)

theorem continuity_overlap_iff (F : File) (st : Stores) (b f : Nat)
    (hb : bChainTip st = some b) (hf : fChainTip st = some f) (hs : F.bstart ≤ min b f) :
    continuity F st = none ↔ overlapFacts F st b f := by
  unfold continuity overlapFacts
  rw [hb, hf]
  simp only
  have h1 : ¬ F.bstart > min b f + 1 := by omega
  have h2 : ¬ F.bstart > min b f := by omega
  simp only [h1, h2, ↓reduceIte]
  cases hv0 : verifyAt F st .both F.bstart
  · simp
  · simp only [Bool.not_true, Bool.false_eq_true, ↓reduceIte, true_and]
    by_cases ho : min (min b f) (endHeight F) > F.bstart
    · simp only [ho, decide_true, Bool.true_and, forall_const]
      cases hv1 : verifyAt F st .both (min (min b f) (endHeight F))
      · simp
      · simp only [Bool.not_true, Bool.false_eq_true, ↓reduceIte, true_and]
        by_cases hl : min (min b f) (endHeight F) < endHeight F
        · simp only [hl, decide_true, Bool.true_and, forall_const]
          cases connects F st (min (min b f) (endHeight F) + 1) b <;> simp
        · simp [hl]
    · simp only [ho, decide_false, Bool.false_and, Bool.false_eq_true, ↓reduceIte, false_imp_iff, true_and]
      by_cases hl : min (min b f) (endHeight F) < endHeight F
      · simp only [hl, decide_true, Bool.true_and, forall_const]
        cases connects F st (min (min b f) (endHeight F) + 1) b <;> simp
      · simp [hl]

theorem validateBlocks_pairsOk (body : List BHdr) (bs : Nat) (h : validateBlocks body bs = true) : pairsOk body = true := by
  unfold validateBlocks at h
  simp only [Bool.and_eq_true] at h
  exact h.2

end Neutrino.Import
