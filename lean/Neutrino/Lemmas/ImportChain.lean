/-
Lemmas for C14: what the block validator and `validateChainContinuity` establish
about the headers that get appended (connectedness, validity), and the converse
direction of `validateChainContinuity` needed for the second import.
-/
import Neutrino.Lemmas.Import
namespace Neutrino.Import

theorem pairsOk_connected : ∀ (l : List BHdr), pairsOk l = true → connected l = true
  | [], _ => rfl
  | [_], _ => rfl
  | a :: b :: rest, h => by
    simp only [pairsOk, Bool.and_eq_true] at h
    simp only [connected, Bool.and_eq_true]
    exact ⟨h.1.1, pairsOk_connected (b :: rest) h.2⟩

/-- every header but the first was the second element of a passed `ValidatePair` -/
theorem pairsOk_tail_valid : ∀ (l : List BHdr), pairsOk l = true → (l.drop 1).all (·.valid) = true
  | [], _ => rfl
  | [_], _ => rfl
  | a :: b :: rest, h => by
    simp only [pairsOk, Bool.and_eq_true] at h
    have ih := pairsOk_tail_valid (b :: rest) h.2
    simp only [List.drop_succ_cons, List.drop_zero, List.all_cons, Bool.and_eq_true] at ih ⊢
    exact ⟨h.1.2, ih⟩

theorem pairsOk_link : ∀ (l : List BHdr) (i : Nat) (a c : BHdr), pairsOk l = true →
    l[i]? = some a → l[i + 1]? = some c → c.prev = a.id
  | [], _, _, _, _, h, _ => by simp at h
  | [_], i, _, _, _, _, h => by simp at h
  | x :: y :: rest, 0, a, c, h, ha, hc => by
    simp only [pairsOk, Bool.and_eq_true, beq_iff_eq] at h
    simp only [List.getElem?_cons_zero, Option.some.injEq, Nat.zero_add, List.getElem?_cons_succ] at ha hc
    subst ha; subst hc; exact h.1.1
  | x :: y :: rest, i + 1, a, c, h, ha, hc => by
    simp only [pairsOk, Bool.and_eq_true] at h
    simp only [List.getElem?_cons_succ] at ha hc
    exact pairsOk_link (y :: rest) i a c h.2 ha hc

theorem all_drop {α : Type} (p : α → Bool) (l : List α) (n : Nat) (h : l.all p = true) : (l.drop n).all p = true := by
  rw [List.all_eq_true] at h ⊢
  intro x hx
  exact h x (List.mem_of_mem_drop hx)

theorem connected_tail (x : BHdr) (xs : List BHdr) (h : connected (x :: xs) = true) : connected xs = true := by
  cases xs with
  | nil => rfl
  | cons y ys => simp only [connected, Bool.and_eq_true] at h; exact h.2

theorem connected_drop : ∀ (n : Nat) (l : List BHdr), connected l = true → connected (l.drop n) = true
  | 0, l, h => by simpa using h
  | _ + 1, [], _ => rfl
  | n + 1, x :: xs, h => by
    rw [List.drop_succ_cons]
    exact connected_drop n xs (connected_tail x xs h)

/-- joining two connected chains whose junction links -/
theorem connected_append_cons : ∀ (l1 : List BHdr) (p c : BHdr) (l2 : List BHdr),
    connected l1 = true → l1.getLast? = some p → c.prev = p.id → connected (c :: l2) = true →
    connected (l1 ++ c :: l2) = true
  | [], _, _, _, _, h, _, _ => by simp at h
  | [x], p, c, l2, _, h, hl, h2 => by
    simp only [List.getLast?_singleton, Option.some.injEq] at h
    subst h
    simp only [List.singleton_append, connected, Bool.and_eq_true, beq_iff_eq]
    exact ⟨hl, h2⟩
  | x :: y :: rest, p, c, l2, h1, h, hl, h2 => by
    simp only [connected, Bool.and_eq_true] at h1
    rw [List.getLast?_cons_cons] at h
    have ih := connected_append_cons (y :: rest) p c l2 h1.2 h hl h2
    simp only [List.cons_append, connected, Bool.and_eq_true] at ih ⊢
    exact ⟨h1.1, ih⟩

/-! ### `validateChainContinuity`, overlap case, both directions -/

/-- the three obligations of the overlap case -/
def overlapFacts (F : File) (st : Stores) (b f : Nat) : Prop :=
  let oe := min (min b f) (endHeight F)
  verifyAt F st .both F.bstart = true ∧
  (oe > F.bstart → verifyAt F st .both oe = true) ∧
  (oe < endHeight F → connects F st (oe + 1) b = true)

theorem continuity_overlap_iff (F : File) (st : Stores) (b f : Nat)
    (hb : bChainTip st = some b) (hf : fChainTip st = some f) (hs : F.bstart ≤ min b f) :
    continuity F st = none ↔ overlapFacts F st b f := by
  unfold continuity overlapFacts
  rw [hb, hf]
  simp only
  have h1 : ¬ F.bstart > min b f + 1 := by omega
  have h2 : ¬ F.bstart > min b f := by omega
  simp only [h1, h2, ↓reduceIte]
  cases hv0 : verifyAt F st .both F.bstart
  · simp
  · simp only [Bool.not_true, Bool.false_eq_true, ↓reduceIte, true_and]
    by_cases ho : min (min b f) (endHeight F) > F.bstart
    · simp only [ho, decide_true, Bool.true_and, forall_const]
      cases hv1 : verifyAt F st .both (min (min b f) (endHeight F))
      · simp
      · simp only [Bool.not_true, Bool.false_eq_true, ↓reduceIte, true_and]
        by_cases hl : min (min b f) (endHeight F) < endHeight F
        · simp only [hl, decide_true, Bool.true_and, forall_const]
          cases connects F st (min (min b f) (endHeight F) + 1) b <;> simp
        · simp [hl]
    · simp only [ho, decide_false, Bool.false_and, Bool.false_eq_true, ↓reduceIte, false_imp_iff, true_and]
      by_cases hl : min (min b f) (endHeight F) < endHeight F
      · simp only [hl, decide_true, Bool.true_and, forall_const]
        cases connects F st (min (min b f) (endHeight F) + 1) b <;> simp
      · simp [hl]

theorem validateBlocks_pairsOk (body : List BHdr) (bs : Nat) (h : validateBlocks body bs = true) : pairsOk body = true := by
  unfold validateBlocks at h
  simp only [Bool.and_eq_true] at h
  exact h.2

/-! ### the stores after a successful import, seen by a second `validateChainContinuity` -/

theorem verifyAt_append_old (F : File) (B D : List BHdr) (Fl D' : List Nat) (v : Verify) (h : Nat)
    (hb : h < B.length) (hf : h < Fl.length) :
    verifyAt F (mk (B ++ D) (Fl ++ D')) v h = verifyAt F (mk B Fl) v h := by
  have e1 : (mk (B ++ D) (Fl ++ D')).blocks[h]? = (mk B Fl).blocks[h]? := by
    show (B ++ D)[h]? = B[h]?
    exact List.getElem?_append_left hb
  have e2 : (mk (B ++ D) (Fl ++ D')).filters[h]? = (mk B Fl).filters[h]? := by
    show (Fl ++ D')[h]? = Fl[h]?
    exact List.getElem?_append_left hf
  cases v <;> simp only [verifyAt, verifyBlockAt, verifyFilterAt, e1, e2]

/-- at a height the import has just filled from the file, file and stores agree -/
theorem verifyAt_appended (F : File) (B : List BHdr) (Fl : List Nat) (a h : Nat)
    (hs : F.bstart = 0) (hB : B.length = a) (hF : Fl.length = a) (hN : F.filters.length = F.blocks.length)
    (ha : a ≤ h) (hh : h < F.blocks.length) :
    verifyAt F (mk (B ++ F.blocks.drop a) (Fl ++ F.filters.drop a)) .both h = true := by
  have e1 : (mk (B ++ F.blocks.drop a) (Fl ++ F.filters.drop a)).blocks[h]? = F.blocks[h]? := by
    show (B ++ F.blocks.drop a)[h]? = F.blocks[h]?
    rw [List.getElem?_append_right (by omega), List.getElem?_drop, hB]
    congr 1; omega
  have e2 : (mk (B ++ F.blocks.drop a) (Fl ++ F.filters.drop a)).filters[h]? = F.filters[h]? := by
    show (Fl ++ F.filters.drop a)[h]? = F.filters[h]?
    rw [List.getElem?_append_right (by omega), List.getElem?_drop, hF]
    congr 1; omega
  have g1 : F.blocks[h]? = some F.blocks[h] := List.getElem?_eq_getElem hh
  have g2 : F.filters[h]? = some (F.filters[h]'(by omega)) := List.getElem?_eq_getElem (by omega)
  simp only [verifyAt, verifyBlockAt, verifyFilterAt, e1, e2, hs, Nat.sub_zero, g1, g2, beq_self_eq_true, Bool.and_self]

/-- after a successful import of a file from height 0 into level stores, the
same file passes `validateChainContinuity` against the new stores -/
theorem continuity_after_success (F : File) (B : List BHdr) (Fl : List Nat)
    (hs : F.bstart = 0) (hl : B.length ≥ 1) (heq : B.length = Fl.length)
    (hN : F.filters.length = F.blocks.length) (hne : F.blocks.length ≥ 1)
    (hc : continuity F (mk B Fl) = none) :
    continuity F (mk (B ++ F.blocks.drop B.length) (Fl ++ F.filters.drop B.length)) = none := by
  have hfacts := (continuity_overlap_iff F (mk B Fl) (B.length - 1) (Fl.length - 1)
    (bChainTip_mk B Fl hl) (fChainTip_mk B Fl (by omega)) (by omega)).mp hc
  have hlB : (B ++ F.blocks.drop B.length).length ≥ 1 := by rw [List.length_append]; omega
  have hlF : (Fl ++ F.filters.drop B.length).length ≥ 1 := by rw [List.length_append]; omega
  have hlenB : (B ++ F.blocks.drop B.length).length = B.length + (F.blocks.length - B.length) := by
    rw [List.length_append, List.length_drop]
  have hlenF : (Fl ++ F.filters.drop B.length).length = Fl.length + (F.filters.length - B.length) := by
    rw [List.length_append, List.length_drop]
  rw [continuity_overlap_iff F _ _ _ (bChainTip_mk _ _ hlB) (fChainTip_mk _ _ hlF) (by omega)]
  unfold overlapFacts at hfacts ⊢
  have hoe' : min (min ((B ++ F.blocks.drop B.length).length - 1) ((Fl ++ F.filters.drop B.length).length - 1))
      (endHeight F) = endHeight F := by
    rw [hlenB, hlenF]; unfold endHeight; omega
  rw [hoe']
  refine ⟨?_, fun hgt => ?_, fun hlt => absurd hlt (Nat.lt_irrefl _)⟩
  · rw [hs, verifyAt_append_old F B _ Fl _ .both 0 (by omega) (by omega), ← hs]; exact hfacts.1
  · by_cases hcase : endHeight F < B.length
    · rw [verifyAt_append_old F B _ Fl _ .both _ hcase (by omega)]
      have hoe : min (min (B.length - 1) (Fl.length - 1)) (endHeight F) = endHeight F := by omega
      rw [hoe] at hfacts
      exact hfacts.2.1 hgt
    · exact verifyAt_appended F B Fl B.length (endHeight F) hs rfl heq.symm hN (by omega) (by unfold endHeight; omega)

/-! ### block store ahead of the filter store -/

theorem nodup_ids_idx {l : List BHdr} (h : (l.map (·.id)).Nodup) {i j : Nat} {x y : BHdr}
    (hi : l[i]? = some x) (hj : l[j]? = some y) (hij : i < j) : x.id ≠ y.id := by
  obtain ⟨hi', rfl⟩ := List.getElem?_eq_some_iff.mp hi
  obtain ⟨hj', rfl⟩ := List.getElem?_eq_some_iff.mp hj
  rw [List.Nodup, List.pairwise_iff_getElem] at h
  have := h i j (by simpa using hi') (by simpa using hj') hij
  simpa using this

/-- **The block-ahead rejection.**  Block store ahead of the filter store (ids
pairwise distinct), file from height 0 reaching above the filter tip: one of
`validateChainContinuity` and the block validator must fail.  The connection
check compares the file's header at `filterTip+1` with the block store's TIP
(`validateHeaderConnection(overlapEnd+1, blockTipHeight)`), while the validator
and the overlap check tie the same header to the block at `filterTip`. -/
theorem block_ahead_checks_fail (F : File) (bs : Nat) (B : List BHdr) (Fl : List Nat)
    (hs : F.bstart = 0) (hF : Fl.length ≥ 1) (hahead : Fl.length < B.length)
    (hnd : (B.map (·.id)).Nodup) (hreach : endHeight F > Fl.length - 1)
    (hc : continuity F (mk B Fl) = none) (hv : validateBlocks F.blocks bs = true) : False := by
  have hpairs := validateBlocks_pairsOk _ _ hv
  have hfacts := (continuity_overlap_iff F (mk B Fl) (B.length - 1) (Fl.length - 1)
    (bChainTip_mk B Fl (by omega)) (fChainTip_mk B Fl hF) (by omega)).mp hc
  unfold overlapFacts at hfacts
  have hoe : min (min (B.length - 1) (Fl.length - 1)) (endHeight F) = Fl.length - 1 := by omega
  rw [hoe] at hfacts
  obtain ⟨h0, h1, h2⟩ := hfacts
  -- the header at the filter tip agrees with the block store
  have hvb : verifyBlockAt F (mk B Fl) (Fl.length - 1) = true := by
    by_cases hz : Fl.length - 1 > F.bstart
    · have := h1 hz
      simp only [verifyAt, Bool.and_eq_true] at this
      exact this.1
    · have hz' : Fl.length - 1 = F.bstart := by omega
      simp only [verifyAt, Bool.and_eq_true] at h0
      rw [hz']; exact h0.1
  have hconn := h2 hreach
  unfold verifyBlockAt at hvb
  unfold connects at hconn
  have hBm : (mk B Fl).blocks = B := rfl
  rw [hBm, hs, Nat.sub_zero] at hvb hconn
  cases hx : F.blocks[Fl.length - 1]? with
  | none => rw [hx] at hvb; simp at hvb
  | some x =>
    cases hy : B[Fl.length - 1]? with
    | none => rw [hx, hy] at hvb; simp at hvb
    | some y =>
      cases hp : B[B.length - 1]? with
      | none => rw [hp] at hconn; simp at hconn
      | some p =>
        cases hcc : F.blocks[Fl.length - 1 + 1]? with
        | none => rw [hp, hcc] at hconn; simp at hconn
        | some c =>
          rw [hx, hy] at hvb
          rw [hp, hcc] at hconn
          simp only [beq_iff_eq] at hvb hconn
          have hlink := pairsOk_link F.blocks (Fl.length - 1) x c hpairs hx hcc
          exact nodup_ids_idx hnd hy hp (by omega) (by rw [← hvb, ← hlink, hconn])

theorem failContent_unchanged (F : File) (B : List BHdr) (Fl : List Nat) (hB : B.length ≥ 1) (hF : Fl.length ≥ 1)
    (hle : Fl.length ≤ B.length) : failContentOk (obsOf (mk B Fl)) F (obsOf (mk B Fl)) = true := by
  have e3 : (obsOf (mk B Fl)).blocks = B := rfl
  have e4 : (obsOf (mk B Fl)).filters = Fl := rfl
  have hu := usable_mk B Fl hB hF
  simp only [failContentOk, hu, e3, e4, Nat.sub_self, List.take_zero, List.append_nil, beq_self_eq_true, hle,
    Nat.le_refl, decide_true, Bool.or_true, Bool.true_or, Bool.and_self]

/-! ### sampled agreement and prefixes of the appended part -/

theorem connected_take : ∀ (n : Nat) (l : List BHdr), connected l = true → connected (l.take n) = true
  | 0, _, _ => rfl
  | _ + 1, [], _ => rfl
  | _ + 1, [_], _ => by simp [connected]
  | 0 + 1, _ :: _ :: _, _ => by simp [connected]
  | n + 1 + 1, x :: y :: rest, h => by
    simp only [connected, Bool.and_eq_true] at h
    have ih := connected_take (n + 1) (y :: rest) h.2
    simp only [List.take_succ_cons] at ih ⊢
    simp only [connected, Bool.and_eq_true]
    exact ⟨h.1, ih⟩

theorem all_take {α : Type} (p : α → Bool) (l : List α) (n : Nat) (h : l.all p = true) : (l.take n).all p = true := by
  rw [List.all_eq_true] at h ⊢
  intro x hx
  exact h x (List.mem_of_mem_take hx)

/-- the oracle's sampled-agreement clause is what `validateChainContinuity` checks -/
theorem sample_of_continuity (F : File) (B : List BHdr) (Fl : List Nat) (hB : B.length ≥ 1) (hF : Fl.length ≥ 1)
    (hne : F.blocks.length ≥ 1) (hc : continuity F (mk B Fl) = none) : sampleOk (obsOf (mk B Fl)) F = true := by
  have e3 : (obsOf (mk B Fl)).blocks = B := rfl
  have e4 : (obsOf (mk B Fl)).filters = Fl := rfl
  have hag : ∀ h, agreeAt (obsOf (mk B Fl)) F h = verifyAt F (mk B Fl) .both h := fun _ => rfl
  unfold sampleOk
  simp only [e3, e4, hag]
  by_cases hs : F.bstart ≤ min (B.length - 1) (Fl.length - 1)
  · simp only [hs, ↓reduceIte, Bool.and_eq_true]
    have hfacts := (continuity_overlap_iff F (mk B Fl) (B.length - 1) (Fl.length - 1)
      (bChainTip_mk B Fl hB) (fChainTip_mk B Fl hF) hs).mp hc
    unfold overlapFacts at hfacts
    refine ⟨hfacts.1, ?_⟩
    by_cases hgt : min (min (B.length - 1) (Fl.length - 1)) (endHeight F) > F.bstart
    · exact hfacts.2.1 hgt
    · have : min (min (B.length - 1) (Fl.length - 1)) (endHeight F) = F.bstart := by
        unfold endHeight at hgt ⊢; omega
      rw [this]; exact hfacts.1
  · simp only [hs, ↓reduceIte]

/-- `chain_level_zero` for a prefix of what would be appended (an import that
stops after some batches) -/
theorem chain_level_zero_take (F : File) (bs : Nat) (B : List BHdr) (Fl : List Nat) (j : Nat)
    (hs : F.bstart = 0) (hl : B.length ≥ 1) (heq : B.length = Fl.length)
    (hc : continuity F (mk B Fl) = none) (hv : validateBlocks F.blocks bs = true) :
    ((F.blocks.drop B.length).take j).all (·.valid) = true ∧
    (connected B = true → connected (B ++ (F.blocks.drop B.length).take j) = true) := by
  have hpairs := validateBlocks_pairsOk _ _ hv
  have hvalid : (F.blocks.drop B.length).all (·.valid) = true := by
    have : F.blocks.drop B.length = (F.blocks.drop 1).drop (B.length - 1) := by
      rw [List.drop_drop]; congr 1; omega
    rw [this]
    exact all_drop _ _ _ (pairsOk_tail_valid _ hpairs)
  refine ⟨all_take _ _ _ hvalid, fun hcb => ?_⟩
  cases hD : F.blocks.drop B.length with
  | nil => rw [List.take_nil, List.append_nil]; exact hcb
  | cons c D =>
    cases j with
    | zero => rw [List.take_zero, List.append_nil]; exact hcb
    | succ j =>
      rw [List.take_succ_cons]
      have hcD : connected (c :: D.take j) = true := by
        have : connected ((c :: D).take (j + 1)) = true := by
          rw [← hD]; exact connected_take _ _ (connected_drop _ _ (pairsOk_connected _ hpairs))
        rwa [List.take_succ_cons] at this
      have hca : F.blocks[B.length]? = some c := by
        have := congrArg (fun l => l[0]?) hD
        simpa [List.getElem?_drop] using this
      have hlt : B.length < F.blocks.length := by
        rcases Nat.lt_or_ge B.length F.blocks.length with h | h
        · exact h
        · rw [List.drop_eq_nil_of_le h] at hD; simp at hD
      have hfacts := (continuity_overlap_iff F (mk B Fl) (B.length - 1) (Fl.length - 1)
        (bChainTip_mk B Fl hl) (fChainTip_mk B Fl (by omega)) (by omega)).mp hc
      unfold overlapFacts at hfacts
      have hoe : min (min (B.length - 1) (Fl.length - 1)) (endHeight F) = B.length - 1 := by
        unfold endHeight; omega
      rw [hoe] at hfacts
      have hconn := hfacts.2.2 (by unfold endHeight; omega)
      unfold connects at hconn
      have h1 : B.length - 1 + 1 - F.bstart = B.length := by omega
      rw [h1, hca] at hconn
      have hBm : (mk B Fl).blocks = B := rfl
      rw [hBm] at hconn
      cases hp : B[B.length - 1]? with
      | none => rw [hp] at hconn; simp at hconn
      | some p =>
        rw [hp] at hconn
        simp only [beq_iff_eq] at hconn
        exact connected_append_cons B p c (D.take j) hcb (by rw [List.getLast?_eq_getElem?]; exact hp) hconn hcD

end Neutrino.Import
