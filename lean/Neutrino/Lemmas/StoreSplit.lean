/-
The index write of a batch as several transactions (Model/Store `indexTxs`,
`writeBlocksSplit`): one transaction is the model's `writeBlocks`.
-/
import Neutrino.Model.Store
namespace Neutrino.Store

theorem putAll_stamped (ids : List Nat) : ∀ (db : Db) (start : Nat),
    db.putAll (stamped ids start) = Db.addHeaders.go db ids start := by
  induction ids with
  | nil => intro db s; rfl
  | cons id rest ih => intro db s; simp only [stamped, Db.putAll, Db.addHeaders.go]; exact ih _ _

theorem putAll_btip (l : List (Nat × Nat)) : ∀ db : Db, (db.putAll l).btip = db.btip := by
  induction l with
  | nil => intro db; rfl
  | cons p rest ih => intro db; obtain ⟨id, h⟩ := p; simp only [Db.putAll]; rw [ih]; rfl

theorem putAll_append (a b : List (Nat × Nat)) : ∀ db : Db, db.putAll (a ++ b) = (db.putAll a).putAll b := by
  induction a with
  | nil => intro db; rfl
  | cons p rest ih => intro db; obtain ⟨id, h⟩ := p; simp only [List.cons_append, Db.putAll]; exact ih _

/-- the single transaction: `writeBlocksSplit` with the whole batch as its one chunk is `writeBlocks` -/
theorem writeBlocksSplit_single (ids : List Nat) (start : Nat) (c : Ctx) :
    writeBlocksSplit ids [stamped ids start] c = writeBlocks ids start c := by
  unfold writeBlocksSplit writeBlocks
  have hf : (fun db : Db => { db.putAll (stamped ids start) with btip := ids.getLast?.orElse (fun _ => db.btip) })
      = (fun db : Db => db.addHeaders ids start) := by
    funext db
    simp only [Db.addHeaders, putAll_stamped]
  simp only [indexTxs, hf]

/-- with nothing injected, the transactions of any split write what one transaction writes -/
theorem indexTxs_none (tip : Option Nat) : ∀ (chunks : List (List (Nat × Nat))) (d : Durable) (st : Nat), chunks ≠ [] →
    ∃ n, indexTxs tip chunks ⟨d, st, .none⟩ = R.ok true
      ⟨{ d with db := { (d.db.putAll chunks.flatten) with btip := tip.orElse (fun _ => d.db.btip) } }, st + n, .none⟩ := by
  intro chunks
  induction chunks with
  | nil => intro d st h; exact absurd rfl h
  | cons ch rest ih =>
    intro d st _
    cases rest with
    | nil =>
      refine ⟨1, ?_⟩
      simp only [indexTxs, dbUpdate, List.flatten_cons, List.flatten_nil, List.append_nil]
    | cons ch2 rest2 =>
      have hstep : indexTxs tip (ch :: ch2 :: rest2) ⟨d, st, .none⟩ =
          (dbUpdate (fun db => db.putAll ch) ⟨d, st, .none⟩).bind fun ok c => if ok then indexTxs tip (ch2 :: rest2) c else .ok false c := rfl
      obtain ⟨n, hn⟩ := ih { d with db := d.db.putAll ch } (st + 1) (by simp)
      refine ⟨n + 1, ?_⟩
      rw [hstep]
      simp only [dbUpdate, R.bind, ↓reduceIte]
      rw [hn]
      simp only [List.flatten_cons, putAll_append, putAll_btip, Nat.add_assoc, Nat.add_comm 1 n]

end Neutrino.Store
