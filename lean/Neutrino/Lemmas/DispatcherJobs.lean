/-
Accounting invariant behind `C12_success_all`: a live batch's `rem` counter is
the number of its jobs that are in the queue, held by a worker, or lost with an
overwritten worker; job indices are pairwise distinct; every request index of a
live batch is either finished OK or still carried by such a job.
-/
import Neutrino.Lemmas.Dispatcher
namespace Neutrino.Disp

def actives (ws : List Worker) : List Job := ws.filterMap (·.active)
def jobsOf (s : State) : List Job := s.work ++ (actives s.workers ++ s.lost)

structure KP (J : List Job) (bs : List Batch) (q : List (Nat × Nat)) (okd : List Nat)
    (subs : List Sub) (vs : List (Nat × Verdict)) (nq nb : Nat) : Prop where
  nodup  : (J.map (·.idx)).Nodup
  bound  : ∀ j ∈ J, j.idx < nq ∧ j.batch < nb
  qmap   : ∀ j ∈ J, q.lookup j.idx = some j.batch
  rem    : ∀ bp ∈ bs, bp.rem = (J.filter (fun j => j.batch == bp.id)).length
  cover  : ∀ sub ∈ subs, sub.id ∈ bs.map (·.id) → ∀ i, sub.first ≤ i → i < sub.first + sub.count →
             i ∈ okd ∨ ∃ j ∈ J, j.idx = i ∧ j.batch = sub.id
  done   : ∀ sub ∈ subs, (sub.id, Verdict.res .ok) ∈ vs → ∀ i, sub.first ≤ i → i < sub.first + sub.count →
             i ∈ okd

/-- batches of `bs'` are batches of `bs` with the same id and counter -/
def Twin (bs' bs : List Batch) : Prop := ∀ bp' ∈ bs', ∃ bp ∈ bs, bp.id = bp'.id ∧ bp.rem = bp'.rem

theorem twin_ids {bs' bs : List Batch} (h : Twin bs' bs) {b : Nat} (hb : b ∈ bs'.map (·.id)) :
    b ∈ bs.map (·.id) := by
  obtain ⟨bp', hm, rfl⟩ := List.mem_map.mp hb
  obtain ⟨bp, hm2, hid, _⟩ := h bp' hm
  exact List.mem_map.mpr ⟨bp, hm2, hid⟩

theorem filter_len_perm {J J' : List Job} (h : J.Perm J') (f : Job → Bool) :
    (J.filter f).length = (J'.filter f).length := (h.filter f).length_eq

/-- nothing about the jobs changes except their arrangement; batches only disappear; no new nil verdict -/
theorem KP_mono {J J' bs bs' q okd okd' subs vs vs' nq nb}
    (k : KP J bs q okd subs vs nq nb) (hp : J'.Perm J) (ht : Twin bs' bs)
    (hok : ∀ x, x ∈ okd → x ∈ okd')
    (hvs : ∀ b, (b, Verdict.res .ok) ∈ vs' → (b, Verdict.res .ok) ∈ vs) :
    KP J' bs' q okd' subs vs' nq nb := by
  refine ⟨?_, ?_, ?_, ?_, ?_, ?_⟩
  · exact (hp.map _).nodup_iff.mpr k.nodup
  · intro j hj; exact k.bound j (hp.mem_iff.mp hj)
  · intro j hj; exact k.qmap j (hp.mem_iff.mp hj)
  · intro bp' hbp'
    obtain ⟨bp, hm, hid, hr⟩ := ht bp' hbp'
    rw [← hr, k.rem bp hm, hid]; exact (filter_len_perm hp _).symm
  · intro sub hs hid i h1 h2
    cases k.cover sub hs (twin_ids ht hid) i h1 h2 with
    | inl h => exact Or.inl (hok _ h)
    | inr h => obtain ⟨j, hj, e1, e2⟩ := h; exact Or.inr ⟨j, hp.mem_iff.mpr hj, e1, e2⟩
  · intro sub hs hv i h1 h2
    exact hok _ (k.done sub hs (hvs _ hv) i h1 h2)

/-- a job leaves and its batch (if it was live) ends -/
theorem KP_drop {J J' bs bs' q q' okd okd' subs vs vs' nq nb} {job : Job}
    (k : KP J bs q okd subs vs nq nb) (hp : J.Perm (job :: J'))
    (ht : Twin bs' bs) (hne : ∀ bp' ∈ bs', bp'.id ≠ job.batch)
    (hq : ∀ j ∈ J', q'.lookup j.idx = q.lookup j.idx)
    (hok : ∀ x, x ∈ okd → x ∈ okd')
    (hvs : ∀ sub ∈ subs, (sub.id, Verdict.res .ok) ∈ vs' → (sub.id, Verdict.res .ok) ∈ vs ∨
            ∀ i, sub.first ≤ i → i < sub.first + sub.count → i ∈ okd') :
    KP J' bs' q' okd' subs vs' nq nb := by
  have hnd : ((job :: J').map (·.idx)).Nodup := (hp.map _).nodup_iff.mp k.nodup
  have hsub : ∀ j ∈ J', j ∈ J := fun j hj => hp.mem_iff.mpr (List.mem_cons_of_mem _ hj)
  refine ⟨?_, ?_, ?_, ?_, ?_, ?_⟩
  · simp only [List.map_cons, List.nodup_cons] at hnd; exact hnd.2
  · intro j hj; exact k.bound j (hsub j hj)
  · intro j hj; rw [hq j hj]; exact k.qmap j (hsub j hj)
  · intro bp' hbp'
    obtain ⟨bp, hm, hid, hr⟩ := ht bp' hbp'
    rw [← hr, k.rem bp hm, hid, filter_len_perm hp]
    have : (job.batch == bp'.id) = false := by
      simp only [beq_eq_false_iff_ne, ne_eq]; exact fun h => hne bp' hbp' h.symm
    simp only [List.filter_cons, this, Bool.false_eq_true, ↓reduceIte]
  · intro sub hs hid i h1 h2
    obtain ⟨bp', hm', hid'⟩ := List.mem_map.mp hid
    cases k.cover sub hs (twin_ids ht hid) i h1 h2 with
    | inl h => exact Or.inl (hok _ h)
    | inr h =>
      obtain ⟨j, hj, e1, e2⟩ := h
      cases List.mem_cons.mp (hp.mem_iff.mp hj) with
      | inl hjj => subst hjj; exact absurd (by rw [e2, ← hid']) (hne bp' hm')
      | inr hjj => exact Or.inr ⟨j, hjj, e1, e2⟩
  · intro sub hs hv i h1 h2
    cases hvs sub hs hv with
    | inl h => exact hok _ (k.done sub hs h i h1 h2)
    | inr h => exact h i h1 h2


/-- an OK result that is not the last one: the batch's counter goes down with the job -/
theorem KP_okdec {J J' bs bs' q q' okd subs vs nq nb} {job : Job}
    (k : KP J bs q okd subs vs nq nb) (hp : J.Perm (job :: J'))
    (ht : ∀ bp' ∈ bs', ∃ bp ∈ bs, bp.id = bp'.id ∧
            (if bp'.id = job.batch then bp'.rem = bp.rem - 1 else bp'.rem = bp.rem))
    (hids : ∀ b, b ∈ bs'.map (·.id) → b ∈ bs.map (·.id))
    (hq : ∀ j ∈ J', q'.lookup j.idx = q.lookup j.idx) :
    KP J' bs' q' (job.idx :: okd) subs vs nq nb := by
  have hnd : ((job :: J').map (·.idx)).Nodup := (hp.map _).nodup_iff.mp k.nodup
  have hsub : ∀ j ∈ J', j ∈ J := fun j hj => hp.mem_iff.mpr (List.mem_cons_of_mem _ hj)
  refine ⟨?_, ?_, ?_, ?_, ?_, ?_⟩
  · simp only [List.map_cons, List.nodup_cons] at hnd; exact hnd.2
  · intro j hj; exact k.bound j (hsub j hj)
  · intro j hj; rw [hq j hj]; exact k.qmap j (hsub j hj)
  · intro bp' hbp'
    obtain ⟨bp, hm, hid, hr⟩ := ht bp' hbp'
    have hc := k.rem bp hm
    rw [hid, filter_len_perm hp] at hc
    by_cases hb : bp'.id = job.batch
    · simp only [hb, ↓reduceIte] at hr
      simp only [List.filter_cons, hb, beq_self_eq_true, ↓reduceIte, List.length_cons] at hc
      rw [hr, hc, hb]; rfl
    · simp only [hb, ↓reduceIte] at hr
      have : (job.batch == bp'.id) = false := by
        simp only [beq_eq_false_iff_ne, ne_eq]; exact fun h => hb h.symm
      simp only [List.filter_cons, this, Bool.false_eq_true, ↓reduceIte] at hc
      rw [hr, hc]
  · intro sub hs hid i h1 h2
    cases k.cover sub hs (hids _ hid) i h1 h2 with
    | inl h => exact Or.inl (List.mem_cons_of_mem _ h)
    | inr h =>
      obtain ⟨j, hj, e1, e2⟩ := h
      cases List.mem_cons.mp (hp.mem_iff.mp hj) with
      | inl hjj => subst hjj; exact Or.inl (by rw [e1]; exact List.mem_cons_self)
      | inr hjj => exact Or.inr ⟨j, hjj, e1, e2⟩
  · intro sub hs hv i h1 h2
    exact List.mem_cons_of_mem _ (k.done sub hs hv i h1 h2)

/-- the last outstanding job of a live batch finishes OK: every request index is now finished -/
theorem KP_last {J J' bs q okd subs vs nq nb} {job : Job} {bp : Batch}
    (k : KP J bs q okd subs vs nq nb) (hp : J.Perm (job :: J'))
    (hbp : bp ∈ bs) (hid : bp.id = job.batch) (hrem : bp.rem = 1)
    (sub : Sub) (hs : sub ∈ subs) (hsid : sub.id = job.batch) :
    ∀ i, sub.first ≤ i → i < sub.first + sub.count → i ∈ job.idx :: okd := by
  intro i h1 h2
  have hc := k.rem bp hbp
  rw [hrem, filter_len_perm hp, hid] at hc
  simp only [List.filter_cons, beq_self_eq_true, ↓reduceIte, List.length_cons] at hc
  have hnil : J'.filter (fun j => j.batch == job.batch) = [] := List.eq_nil_of_length_eq_zero (by omega)
  have hin : sub.id ∈ bs.map (·.id) := List.mem_map.mpr ⟨bp, hbp, by rw [hid, hsid]⟩
  cases k.cover sub hs hin i h1 h2 with
  | inl h => exact List.mem_cons_of_mem _ h
  | inr h =>
    obtain ⟨j, hj, e1, e2⟩ := h
    cases List.mem_cons.mp (hp.mem_iff.mp hj) with
    | inl hjj => subst hjj; rw [← e1]; exact List.mem_cons_self
    | inr hjj =>
      have : j ∈ J'.filter (fun j => j.batch == job.batch) :=
        List.mem_filter.mpr ⟨hjj, by simp only [e2, hsid, beq_self_eq_true]⟩
      rw [hnil] at this; exact absurd this List.not_mem_nil

theorem lookup_filter_ne (q : List (Nat × Nat)) (k k' : Nat) (h : k' ≠ k) :
    (q.filter (fun x => x.1 != k)).lookup k' = q.lookup k' := by
  induction q with
  | nil => rfl
  | cons x xs ih =>
    obtain ⟨a, b⟩ := x
    simp only [List.filter_cons]
    by_cases hx : a = k
    · subst hx
      have : (k' == a) = false := by simp only [beq_eq_false_iff_ne, ne_eq]; exact h
      simp only [bne_self_eq_false, Bool.false_eq_true, ↓reduceIte, List.lookup, this, ih]
    · have : (a != k) = true := by simp only [bne_iff_ne, ne_eq]; exact hx
      simp only [this, ↓reduceIte, List.lookup, ih]

/-- a failed job goes back to the queue with its index and batch -/
theorem KP_requeue {J J' X bs q okd subs vs nq nb} {job job' : Job}
    (k : KP J bs q okd subs vs nq nb) (hp : J.Perm (job :: X)) (hp' : J'.Perm (job' :: X))
    (hi : job'.idx = job.idx) (hb : job'.batch = job.batch) :
    KP J' bs ((job.idx, job.batch) :: q.filter (fun x => x.1 != job.idx)) okd subs vs nq nb := by
  have hnd : ((job :: X).map (·.idx)).Nodup := (hp.map _).nodup_iff.mp k.nodup
  have hX : ∀ j ∈ X, j ∈ J := fun j hj => hp.mem_iff.mpr (List.mem_cons_of_mem _ hj)
  have hjob : job ∈ J := hp.mem_iff.mpr List.mem_cons_self
  refine ⟨?_, ?_, ?_, ?_, ?_, ?_⟩
  · refine (hp'.map _).nodup_iff.mpr ?_
    simp only [List.map_cons, hi] at hnd ⊢; exact hnd
  · intro j hj
    cases List.mem_cons.mp (hp'.mem_iff.mp hj) with
    | inl h => subst h; rw [hi, hb]; exact k.bound job hjob
    | inr h => exact k.bound j (hX j h)
  · intro j hj
    cases List.mem_cons.mp (hp'.mem_iff.mp hj) with
    | inl h => subst h; simp only [hi, hb, List.lookup, beq_self_eq_true]
    | inr h =>
      have hne : j.idx ≠ job.idx := by
        simp only [List.map_cons, List.nodup_cons] at hnd
        intro he; exact hnd.1 (by rw [← he]; exact List.mem_map_of_mem h)
      have : (j.idx == job.idx) = false := by simp only [beq_eq_false_iff_ne, ne_eq]; exact hne
      simp only [List.lookup, this]
      rw [lookup_filter_ne _ _ _ hne]; exact k.qmap j (hX j h)
  · intro bp hbp
    rw [k.rem bp hbp, filter_len_perm hp, filter_len_perm hp']
    simp only [List.filter_cons, hb]
    split <;> rfl
  · intro sub hs hid i h1 h2
    cases k.cover sub hs hid i h1 h2 with
    | inl h => exact Or.inl h
    | inr h =>
      obtain ⟨j, hj, e1, e2⟩ := h
      cases List.mem_cons.mp (hp.mem_iff.mp hj) with
      | inl hjj =>
        subst hjj
        exact Or.inr ⟨job', hp'.mem_iff.mpr List.mem_cons_self, by rw [hi, e1], by rw [hb, e2]⟩
      | inr hjj => exact Or.inr ⟨j, hp'.mem_iff.mpr (List.mem_cons_of_mem _ hjj), e1, e2⟩
  · exact k.done


theorem newJobs_spec (b : Nat) : ∀ (n f : Nat) (j : Job), j ∈ newJobs b f n →
    j.batch = b ∧ f ≤ j.idx ∧ j.idx < f + n := by
  intro n
  induction n with
  | zero => intro f j h; exact absurd h List.not_mem_nil
  | succ n ih =>
    intro f j h
    simp only [newJobs, List.mem_cons] at h
    cases h with
    | inl h => subst h; exact ⟨rfl, Nat.le_refl _, by show f < f + (n + 1); omega⟩
    | inr h => obtain ⟨h1, h2, h3⟩ := ih (f + 1) j h; exact ⟨h1, by omega, by omega⟩

theorem newJobs_nodup (b : Nat) : ∀ (n f : Nat), ((newJobs b f n).map (·.idx)).Nodup := by
  intro n
  induction n with
  | zero => intro f; exact List.nodup_nil
  | succ n ih =>
    intro f
    simp only [newJobs, List.map_cons, List.nodup_cons]
    refine ⟨?_, ih (f + 1)⟩
    intro hm
    obtain ⟨j, hj, hje⟩ := List.mem_map.mp hm
    have := (newJobs_spec b n (f + 1) j hj).2.1
    omega

theorem newJobs_length (b : Nat) : ∀ (n f : Nat), (newJobs b f n).length = n := by
  intro n
  induction n with
  | zero => intro f; rfl
  | succ n ih => intro f; simp only [newJobs, List.length_cons, ih]

theorem newJobs_cover (b : Nat) : ∀ (n f i : Nat), f ≤ i → i < f + n → ∃ j ∈ newJobs b f n, j.idx = i := by
  intro n
  induction n with
  | zero => intro f i h1 h2; omega
  | succ n ih =>
    intro f i h1 h2
    by_cases h : i = f
    · exact ⟨_, List.mem_cons_self, h.symm⟩
    · obtain ⟨j, hj, hji⟩ := ih (f + 1) i (by omega) (by omega)
      exact ⟨j, List.mem_cons_of_mem _ hj, hji⟩

theorem insertJob_perm (j : Job) (w : List Job) : (insertJob j w).Perm (j :: w) := by
  induction w with
  | nil => exact List.Perm.refl _
  | cons x xs ih =>
    simp only [insertJob]
    split
    · exact List.Perm.refl _
    · exact ((List.Perm.cons x ih).trans (List.Perm.swap j x xs))

theorem pushAll_perm (js w : List Job) : (pushAll js w).Perm (js ++ w) := by
  induction js generalizing w with
  | nil => exact List.Perm.refl _
  | cons x xs ih =>
    simp only [pushAll, List.foldl_cons] at ih ⊢
    refine (ih (insertJob x w)).trans ?_
    refine ((insertJob_perm x w).append_left xs).trans ?_
    simp only [List.cons_append]
    exact List.perm_middle

theorem lookup_append_skip (l q : List (Nat × Nat)) (k : Nat) (h : ∀ x ∈ l, x.1 ≠ k) :
    (l ++ q).lookup k = q.lookup k := by
  induction l with
  | nil => rfl
  | cons x xs ih =>
    obtain ⟨a, b⟩ := x
    have hne : (k == a) = false := by
      simp only [beq_eq_false_iff_ne, ne_eq]; exact fun e => h (a, b) List.mem_cons_self e.symm
    simp only [List.cons_append, List.lookup, hne]
    exact ih (fun x hx => h x (List.mem_cons_of_mem _ hx))

theorem lookup_map_const (js : List Job) (b : Nat) (q : List (Nat × Nat)) (j : Job) (hj : j ∈ js) :
    ((js.map (fun j => (j.idx, b))) ++ q).lookup j.idx = some b := by
  induction js with
  | nil => exact absurd hj List.not_mem_nil
  | cons x xs ih =>
    simp only [List.map_cons, List.cons_append, List.lookup]
    by_cases h : j.idx = x.idx
    · simp only [h, beq_self_eq_true]
    · have : (j.idx == x.idx) = false := by simp only [beq_eq_false_iff_ne, ne_eq]; exact h
      simp only [this]
      cases List.mem_cons.mp hj with
      | inl e => subst e; exact absurd rfl h
      | inr e => exact ih e

/-- a new batch: fresh consecutive indices, counter = number of requests -/
theorem KP_new {J J' bs q okd subs vs nq nb} (n : Nat) (nbp : Batch)
    (k : KP J bs q okd subs vs nq nb) (hp : J'.Perm (newJobs nb nq n ++ J))
    (hid : nbp.id = nb) (hrem : nbp.rem = n)
    (hbs : ∀ bp ∈ bs, bp.id < nb) (hsubs : ∀ sub ∈ subs, sub.id < nb)
    (hvs : ∀ v, (nb, v) ∉ vs) :
    KP J' (bs ++ [nbp]) ((newJobs nb nq n).map (fun j => (j.idx, nb)) ++ q) okd
       (subs ++ [⟨nb, nq, n⟩]) vs (nq + n) (nb + 1) := by
  have hmem : ∀ j, j ∈ J' ↔ (j ∈ newJobs nb nq n ∨ j ∈ J) := fun j => by
    rw [hp.mem_iff, List.mem_append]
  refine ⟨?_, ?_, ?_, ?_, ?_, ?_⟩
  · refine (hp.map _).nodup_iff.mpr ?_
    rw [List.map_append, List.nodup_append]
    refine ⟨newJobs_nodup _ _ _, k.nodup, ?_⟩
    intro a ha b hb hab
    obtain ⟨j, hj, rfl⟩ := List.mem_map.mp ha
    obtain ⟨j', hj', rfl⟩ := List.mem_map.mp hb
    have := (newJobs_spec nb n nq j hj).2.1
    have := (k.bound j' hj').1
    omega
  · intro j hj
    cases (hmem j).mp hj with
    | inl h => obtain ⟨h1, h2, h3⟩ := newJobs_spec nb n nq j h; exact ⟨h3, by omega⟩
    | inr h => have := k.bound j h; exact ⟨by omega, by omega⟩
  · intro j hj
    cases (hmem j).mp hj with
    | inl h => rw [lookup_map_const _ _ _ j h, (newJobs_spec nb n nq j h).1]
    | inr h =>
      rw [lookup_append_skip]
      · exact k.qmap j h
      · intro x hx he
        obtain ⟨j', hj', rfl⟩ := List.mem_map.mp hx
        have := (newJobs_spec nb n nq j' hj').2.1
        have := (k.bound j h).1
        simp only at he; omega
  · intro bp hbp
    rw [filter_len_perm hp, List.filter_append, List.length_append]
    cases List.mem_append.mp hbp with
    | inl h =>
      have h0 : (newJobs nb nq n).filter (fun j => j.batch == bp.id) = [] := by
        apply List.filter_eq_nil_iff.mpr
        intro j hj
        have := (newJobs_spec nb n nq j hj).1
        have := hbs bp h
        simp only [beq_iff_eq]; omega
      rw [h0, k.rem bp h]; simp only [List.length_nil, Nat.zero_add]
    | inr h =>
      simp only [List.mem_singleton] at h; subst h
      have h1 : (newJobs nb nq n).filter (fun j => j.batch == bp.id) = newJobs nb nq n := by
        apply List.filter_eq_self.mpr
        intro j hj
        simp only [beq_iff_eq, hid]; exact (newJobs_spec nb n nq j hj).1
      have h0 : J.filter (fun j => j.batch == bp.id) = [] := by
        apply List.filter_eq_nil_iff.mpr
        intro j hj
        have := (k.bound j hj).2
        simp only [beq_iff_eq, hid]; omega
      rw [h1, h0, newJobs_length, hrem]; rfl
  · intro sub hs hin i h1 h2
    cases List.mem_append.mp hs with
    | inl h =>
      have hlt := hsubs sub h
      have hin' : sub.id ∈ bs.map (·.id) := by
        simp only [List.map_append, List.map_cons, List.map_nil, List.mem_append, List.mem_singleton] at hin
        cases hin with
        | inl x => exact x
        | inr x => omega
      cases k.cover sub h hin' i h1 h2 with
      | inl x => exact Or.inl x
      | inr x => obtain ⟨j, hj, e1, e2⟩ := x; exact Or.inr ⟨j, (hmem j).mpr (Or.inr hj), e1, e2⟩
    | inr h =>
      simp only [List.mem_singleton] at h; subst h
      obtain ⟨j, hj, hji⟩ := newJobs_cover nb n nq i h1 h2
      exact Or.inr ⟨j, (hmem j).mpr (Or.inl hj), hji, (newJobs_spec nb n nq j hj).1⟩
  · intro sub hs hv i h1 h2
    cases List.mem_append.mp hs with
    | inl h => exact k.done sub h hv i h1 h2
    | inr h => simp only [List.mem_singleton] at h; subst h; exact absurd hv (hvs _)


theorem actives_cons (x : Worker) (xs : List Worker) :
    actives (x :: xs) = x.active.toList ++ actives xs := by
  unfold actives
  cases h : x.active <;> simp [h]

theorem actives_setW (ws : List Worker) (w' : Worker) :
    actives (setW ws w') = w'.active.toList ++ actives (ws.filter (fun x => x.addr != w'.addr)) := by
  unfold setW; exact actives_cons _ _

theorem findW_addr {ws : List Worker} {p : Nat} {w : Worker} (h : findW ws p = some w) : w.addr = p := by
  have := List.find?_some h
  simpa using this

theorem filter_ne_of_not_mem (ws : List Worker) (p : Nat) (h : p ∉ ws.map (·.addr)) :
    ws.filter (fun x => x.addr != p) = ws := by
  apply List.filter_eq_self.mpr
  intro x hx
  simp only [bne_iff_ne, ne_eq]
  intro e; exact h (by rw [← e]; exact List.mem_map_of_mem hx)

theorem findW_none_not_mem {ws : List Worker} {p : Nat} (h : findW ws p = none) : p ∉ ws.map (·.addr) := by
  intro hm
  obtain ⟨x, hx, hxe⟩ := List.mem_map.mp hm
  have := List.find?_eq_none.mp h x hx
  simp only [beq_iff_eq] at this; exact this hxe

/-- with distinct addresses, taking worker `p` out splits the held jobs -/
theorem actives_split {ws : List Worker} {p : Nat} {w : Worker} (hn : (ws.map (·.addr)).Nodup)
    (h : findW ws p = some w) :
    (actives ws).Perm (w.active.toList ++ actives (ws.filter (fun x => x.addr != p))) := by
  induction ws with
  | nil => simp [findW] at h
  | cons x xs ih =>
    simp only [List.map_cons, List.nodup_cons] at hn
    simp only [findW, List.find?_cons] at h
    by_cases hx : x.addr = p
    · simp only [hx, beq_self_eq_true] at h
      have hw : x = w := Option.some.inj h
      subst hw
      have : (x :: xs).filter (fun y => y.addr != p) = xs := by
        simp only [List.filter_cons, hx, bne_self_eq_false, Bool.false_eq_true, ↓reduceIte]
        exact filter_ne_of_not_mem xs p (hx ▸ hn.1)
      rw [this, actives_cons]
    · have hb : (x.addr == p) = false := by simp only [beq_eq_false_iff_ne, ne_eq]; exact hx
      simp only [hb] at h
      have hb' : (x.addr != p) = true := by simp only [bne_iff_ne, ne_eq]; exact hx
      simp only [List.filter_cons, hb', ↓reduceIte, actives_cons]
      have := ih hn.2 h
      refine (this.append_left x.active.toList).trans ?_
      rw [← List.append_assoc, ← List.append_assoc]
      exact List.Perm.append_right _ List.perm_append_comm

theorem nodup_setW (ws : List Worker) (w' : Worker) (hn : (ws.map (·.addr)).Nodup) :
    ((setW ws w').map (·.addr)).Nodup := by
  simp only [setW, List.map_cons, List.nodup_cons]
  refine ⟨?_, ?_⟩
  · intro hm
    obtain ⟨x, hx, hxe⟩ := List.mem_map.mp hm
    have := (List.mem_filter.mp hx).2
    simp only [bne_iff_ne, ne_eq] at this; exact this hxe
  · exact List.Pairwise.sublist ((List.filter_sublist).map _) hn


def KS (s : State) : Prop :=
  KP (jobsOf s) s.batches s.queries s.okd s.subs s.verdicts s.nextQuery s.nextBatch

structure KW (s : State) : Prop where
  k  : KS s
  wn : (s.workers.map (·.addr)).Nodup
  sb : ∀ sub ∈ s.subs, sub.id < s.nextBatch

theorem twin_refl (bs : List Batch) : Twin bs bs := fun bp h => ⟨bp, h, rfl, rfl⟩

theorem twin_delB (bs : List Batch) (b : Nat) : Twin (delB bs b) bs :=
  fun bp h => ⟨bp, (List.mem_filter.mp h).1, rfl, rfl⟩

theorem delB_ne {bs : List Batch} {b : Nat} {bp : Batch} (h : bp ∈ delB bs b) : bp.id ≠ b := by
  have := (List.mem_filter.mp h).2
  simpa using this

theorem twin_bumpGen (bs : List Batch) (b : Nat) : Twin (bumpGen bs b) bs := by
  intro bp' h
  obtain ⟨x, hx, rfl⟩ := List.mem_map.mp h
  refine ⟨x, hx, ?_, ?_⟩ <;> split <;> rfl

theorem twin_setHard (bs : List Batch) (b : Nat) : Twin (setHard bs b) bs := by
  intro bp' h
  obtain ⟨x, hx, rfl⟩ := List.mem_map.mp h
  refine ⟨x, hx, ?_, ?_⟩ <;> split <;> rfl

theorem ok_of_append_nonok {vs : List (Nat × Verdict)} {b b' : Nat} {v : Verdict} (hv : v ≠ .res .ok)
    (h : (b', Verdict.res .ok) ∈ vs ++ [(b, v)]) : (b', Verdict.res .ok) ∈ vs := by
  cases List.mem_append.mp h with
  | inl h => exact h
  | inr h =>
    simp only [List.mem_singleton, Prod.mk.injEq] at h
    exact absurd h.2.symm hv

theorem KW_emit_nonok {s : State} (h : KW s) (b : Nat) (v : Verdict) (hv : v ≠ .res .ok) : KW (emit s b v) :=
  ⟨KP_mono h.k (List.Perm.refl _) (twin_delB _ _) (fun _ x => x) (fun _ x => ok_of_append_nonok hv x), h.wn, h.sb⟩

theorem KW_hardCheck {s : State} (h : KW s) (bn : Nat) (bp : Batch) (pr : Bool) (outs : List Out) :
    KW (hardCheck s bn bp pr outs).1 := by
  unfold hardCheck
  split
  · exact KW_emit_nonok h _ _ (by decide)
  · split
    · exact ⟨KP_mono h.k (List.Perm.refl _) (twin_bumpGen _ _) (fun _ x => x) (fun _ x => x), h.wn, h.sb⟩
    · exact h

/-- taking the job held by worker `p` out of the state -/
theorem jobs_take {s : State} (hn : (s.workers.map (·.addr)).Nodup) {p : Nat} {w : Worker} {job : Job}
    (hw : findW s.workers p = some w) (ha : w.active = some job) :
    (jobsOf s).Perm (job :: (s.work ++ (actives (s.workers.filter (fun x => x.addr != p)) ++ s.lost))) := by
  have h := actives_split hn hw
  rw [ha] at h
  simp only [Option.toList_some, List.singleton_append] at h
  unfold jobsOf
  refine ((h.append_right s.lost).append_left s.work).trans ?_
  simp only [List.cons_append]
  exact List.perm_middle

theorem drop_lookup {J J' : List Job} {job : Job} (q : List (Nat × Nat)) (hnd : (J.map (·.idx)).Nodup)
    (hp : J.Perm (job :: J')) : ∀ j ∈ J', (q.filter (fun x => x.1 != job.idx)).lookup j.idx = q.lookup j.idx := by
  intro j hj
  have h2 : ((job :: J').map (·.idx)).Nodup := (hp.map _).nodup_iff.mp hnd
  simp only [List.map_cons, List.nodup_cons] at h2
  apply lookup_filter_ne
  intro e; exact h2.1 (by rw [← e]; exact List.mem_map_of_mem hj)

theorem findB_none_ne {bs : List Batch} {b : Nat} (h : findB bs b = none) : ∀ bp ∈ bs, bp.id ≠ b := by
  intro bp hbp
  have := List.find?_eq_none.mp h bp hbp
  simpa using this

theorem findB_some {bs : List Batch} {b : Nat} {bp : Batch} (h : findB bs b = some bp) : bp ∈ bs ∧ bp.id = b := by
  refine ⟨List.mem_of_find?_eq_some h, ?_⟩
  have := List.find?_some h
  simpa using this

theorem setRem_mem {bs : List Batch} {b r : Nat} {bp' : Batch} (h : bp' ∈ setRem bs b r) :
    ∃ x ∈ bs, x.id = bp'.id ∧ (if x.id = b then bp'.rem = r else bp' = x) := by
  obtain ⟨x, hx, rfl⟩ := List.mem_map.mp h
  refine ⟨x, hx, ?_, ?_⟩
  · split <;> rfl
  · by_cases hb : x.id = b
    · simp only [hb, beq_self_eq_true, ↓reduceIte]
    · have : (x.id == b) = false := by simp only [beq_eq_false_iff_ne, ne_eq]; exact hb
      simp only [this, Bool.false_eq_true, ↓reduceIte, hb]


theorem KW_stepResult {s : State} (h : KW s) (p : Nat) (e : Err) : KW (stepResult s p e).1 := by
  unfold stepResult
  cases hw : findW s.workers p with
  | none => exact h
  | some w =>
    dsimp only
    cases ha : w.active with
    | none => exact h
    | some job =>
      dsimp only
      have hperm := jobs_take h.wn hw ha
      have haddr := findW_addr hw
      have hjob : job ∈ jobsOf s := hperm.mem_iff.mpr List.mem_cons_self
      have hbn : (s.queries.lookup job.idx).getD 0 = job.batch := by rw [h.k.qmap job hjob]; rfl
      have hwn' : ((setW s.workers { w with active := none }).map (·.addr)).Nodup := nodup_setW _ _ h.wn
      -- jobs of the state once the job is taken from the worker
      have hJ1 : ∀ (wk : List Job), wk ++ (actives (setW s.workers { w with active := none }) ++ s.lost) =
          wk ++ (actives (s.workers.filter (fun x => x.addr != p)) ++ s.lost) := by
        intro wk; rw [actives_setW]; simp only [Option.toList_none, List.nil_append, haddr]
      have hlk := drop_lookup s.queries h.k.nodup hperm
      simp only [hbn]
      cases hf : findB s.batches job.batch with
      | none =>
        dsimp only
        refine ⟨?_, hwn', h.sb⟩
        show KP (jobsOf _) _ _ _ _ _ _ _
        unfold jobsOf; rw [hJ1]
        exact KP_drop h.k hperm (twin_refl _) (findB_none_ne hf) hlk (fun _ x => x) (fun _ _ hv => Or.inl hv)
      | some bp =>
        obtain ⟨hbpm, hbpid⟩ := findB_some hf
        dsimp only
        cases e with
        | canceled =>
          refine ⟨?_, hwn', h.sb⟩
          show KP (jobsOf _) _ _ _ _ _ _ _
          unfold jobsOf; simp only [emit]; rw [hJ1]
          exact KP_drop h.k hperm (twin_delB _ _) (fun _ hm => delB_ne hm) hlk (fun _ x => x)
            (fun _ _ hv => Or.inl (ok_of_append_nonok (by decide) hv))
        | ok =>
          dsimp only
          by_cases hr : (bp.rem == 1) = true
          · rw [if_pos hr]
            refine ⟨?_, hwn', h.sb⟩
            show KP (jobsOf _) _ _ _ _ _ _ _
            unfold jobsOf; simp only [emit]; rw [hJ1]
            refine KP_drop h.k hperm ?_ (fun _ hm => delB_ne hm) hlk (fun _ x => List.mem_cons_of_mem _ x) ?_
            · intro bp' hm
              have hne := delB_ne hm
              obtain ⟨x, hx, hid, hif⟩ := setRem_mem (List.mem_filter.mp hm).1
              have : ¬ x.id = job.batch := by rw [hid]; exact hne
              simp only [this, ↓reduceIte] at hif
              exact ⟨x, hx, hid, by rw [hif]⟩
            · intro sub hs hv
              cases List.mem_append.mp hv with
              | inl hv => exact Or.inl hv
              | inr hv =>
                simp only [List.mem_singleton, Prod.mk.injEq, and_true] at hv
                exact Or.inr (KP_last h.k hperm hbpm hbpid (by simpa using hr) sub hs hv)
          · rw [if_neg hr]
            apply KW_hardCheck
            refine ⟨?_, hwn', h.sb⟩
            show KP (jobsOf _) _ _ _ _ _ _ _
            unfold jobsOf; rw [hJ1]
            refine KP_okdec h.k hperm ?_ ?_ hlk
            · intro bp' hm
              obtain ⟨x, hx, hid, hif⟩ := setRem_mem hm
              refine ⟨x, hx, hid, ?_⟩
              by_cases hb : x.id = job.batch
              · simp only [hb, ↓reduceIte] at hif
                have e1 := h.k.rem x hx
                have e2 := h.k.rem bp hbpm
                rw [hb] at e1; rw [hbpid] at e2
                simp only [← hid, hb, ↓reduceIte, hif, e1, e2]
              · simp only [hb, ↓reduceIte] at hif
                simp only [← hid, hb, ↓reduceIte, hif]
            · intro b hb
              rw [ids_setRem] at hb; exact hb
        | timeout =>
          dsimp only
          generalize (if bp.noRetryMax = true then job.tries else job.tries + 1) = tr
          by_cases hc : (!bp.noRetryMax && decide (tr ≥ bp.maxRetries)) = true
          · rw [if_pos hc]
            refine ⟨?_, hwn', h.sb⟩
            show KP (jobsOf _) _ _ _ _ _ _ _
            unfold jobsOf; simp only [emit]; rw [hJ1]
            exact KP_drop h.k hperm (twin_delB _ _) (fun _ hm => delB_ne hm) hlk (fun _ x => x)
              (fun _ _ hv => Or.inl (ok_of_append_nonok (by decide) hv))
          · rw [if_neg hc]
            apply KW_hardCheck
            refine ⟨?_, hwn', h.sb⟩
            show KP (jobsOf _) _ _ _ _ _ _ _
            unfold jobsOf; rw [hJ1]
            refine KP_requeue (job' := ?j0) h.k hperm ?hp0 ?hi0 ?hb0
            case hp0 => exact (insertJob_perm _ _).append_right _
            all_goals rfl
        | disconnected =>
          dsimp only
          generalize (if bp.noRetryMax = true then job.tries else job.tries + 1) = tr
          by_cases hc : (!bp.noRetryMax && decide (tr ≥ bp.maxRetries)) = true
          · rw [if_pos hc]
            refine ⟨?_, hwn', h.sb⟩
            show KP (jobsOf _) _ _ _ _ _ _ _
            unfold jobsOf; simp only [emit]; rw [hJ1]
            exact KP_drop h.k hperm (twin_delB _ _) (fun _ hm => delB_ne hm) hlk (fun _ x => x)
              (fun _ _ hv => Or.inl (ok_of_append_nonok (by decide) hv))
          · rw [if_neg hc]
            apply KW_hardCheck
            refine ⟨?_, hwn', h.sb⟩
            show KP (jobsOf _) _ _ _ _ _ _ _
            unfold jobsOf; rw [hJ1]
            refine KP_requeue (job' := ?j1) h.k hperm ?hp1 ?hi1 ?hb1
            case hp1 => exact (insertJob_perm _ _).append_right _
            all_goals rfl
        | other =>
          dsimp only
          generalize (if bp.noRetryMax = true then job.tries else job.tries + 1) = tr
          by_cases hc : (!bp.noRetryMax && decide (tr ≥ bp.maxRetries)) = true
          · rw [if_pos hc]
            refine ⟨?_, hwn', h.sb⟩
            show KP (jobsOf _) _ _ _ _ _ _ _
            unfold jobsOf; simp only [emit]; rw [hJ1]
            exact KP_drop h.k hperm (twin_delB _ _) (fun _ hm => delB_ne hm) hlk (fun _ x => x)
              (fun _ _ hv => Or.inl (ok_of_append_nonok (by decide) hv))
          · rw [if_neg hc]
            apply KW_hardCheck
            refine ⟨?_, hwn', h.sb⟩
            show KP (jobsOf _) _ _ _ _ _ _ _
            unfold jobsOf; rw [hJ1]
            refine KP_requeue (job' := ?j2) h.k hperm ?hp2 ?hi2 ?hb2
            case hp2 => exact (insertJob_perm _ _).append_right _
            all_goals rfl


theorem findW_of_mem {ws : List Worker} (hn : (ws.map (·.addr)).Nodup) {w : Worker} (hw : w ∈ ws) :
    findW ws w.addr = some w := by
  induction ws with
  | nil => exact absurd hw List.not_mem_nil
  | cons x xs ih =>
    simp only [List.map_cons, List.nodup_cons] at hn
    simp only [findW, List.find?_cons]
    cases List.mem_cons.mp hw with
    | inl h => subst h; simp only [beq_self_eq_true]
    | inr h =>
      have hne : x.addr ≠ w.addr := fun e => hn.1 (by rw [e]; exact List.mem_map_of_mem h)
      have : (x.addr == w.addr) = false := by simp only [beq_eq_false_iff_ne, ne_eq]; exact hne
      simp only [this]; exact ih hn.2 h

/-- replacing worker `p` by one holding the same job does not change the jobs -/
theorem KW_same_jobs {s s' : State} (h : KW s) (hp : (jobsOf s').Perm (jobsOf s))
    (hb : Twin s'.batches s.batches) (hq : s'.queries = s.queries) (ho : s'.okd = s.okd) (hs : s'.subs = s.subs)
    (hv : s'.verdicts = s.verdicts) (hnq : s'.nextQuery = s.nextQuery) (hnb : s'.nextBatch = s.nextBatch)
    (hwn : (s'.workers.map (·.addr)).Nodup) : KW s' := by
  refine ⟨?_, hwn, ?_⟩
  · unfold KS; rw [hq, ho, hs, hv, hnq, hnb]
    exact KP_mono h.k hp hb (fun _ x => x) (fun _ x => x)
  · rw [hs, hnb]; exact h.sb

theorem KW_stepExit {s : State} (h : KW s) (p : Nat) : KW (stepExit s p).1 := by
  unfold stepExit
  cases hw : findW s.workers p with
  | none => exact h
  | some w =>
    dsimp only
    refine KW_same_jobs h ?_ (twin_refl _) rfl rfl rfl rfl rfl rfl (nodup_setW _ _ h.wn)
    unfold jobsOf
    rw [actives_setW]
    dsimp only
    rw [findW_addr hw]
    exact (((actives_split h.wn hw).symm).append_right _).append_left _

theorem KW_stepPeer {s : State} (h : KW s) (p : Nat) : KW (stepPeer s p).1 := by
  unfold stepPeer
  cases hw : findW s.workers p with
  | none =>
    dsimp only
    refine KW_same_jobs h ?_ (twin_refl _) rfl rfl rfl rfl rfl rfl (nodup_setW _ _ h.wn)
    unfold jobsOf
    rw [actives_setW]
    dsimp only
    rw [filter_ne_of_not_mem _ _ (findW_none_not_mem hw)]
    exact List.Perm.refl _
  | some w =>
    dsimp only
    have hsplit := actives_split h.wn hw
    cases ha : w.active with
    | none =>
      dsimp only
      refine KW_same_jobs h ?_ (twin_refl _) rfl rfl rfl rfl rfl rfl (nodup_setW _ _ h.wn)
      unfold jobsOf
      rw [actives_setW]
      dsimp only
      rw [ha] at hsplit
      exact ((hsplit.symm).append_right _).append_left _
    | some j =>
      dsimp only
      refine KW_same_jobs h ?_ (twin_refl _) rfl rfl rfl rfl rfl rfl (nodup_setW _ _ h.wn)
      unfold jobsOf
      rw [actives_setW]
      dsimp only
      rw [ha] at hsplit
      simp only [Option.toList_none, List.nil_append, Option.toList_some, List.singleton_append] at hsplit ⊢
      refine List.Perm.append_left _ ?_
      refine List.Perm.trans ?_ ((hsplit.symm).append_right _)
      simp only [List.cons_append]
      exact List.perm_middle

theorem KW_stepAccept {s : State} (h : KW s) (p : Nat) : KW (stepAccept s p).1 := by
  unfold stepAccept
  cases hwk : s.work with
  | nil => exact h
  | cons job rest =>
    dsimp only
    by_cases hb : bestFree s p = true
    · rw [if_pos hb]
      simp only [bestFree, Bool.and_eq_true, List.any_eq_true] at hb
      obtain ⟨⟨w, hwm, hwa⟩, _⟩ := hb
      simp only [freeLive, List.mem_filter, Bool.and_eq_true, Option.isNone_iff_eq_none] at hwm
      simp only [beq_iff_eq] at hwa
      have hw : findW s.workers p = some w := hwa ▸ findW_of_mem h.wn hwm.1
      have hsplit := actives_split h.wn hw
      rw [hwm.2.1] at hsplit
      simp only [Option.toList_none, List.nil_append] at hsplit
      refine KW_same_jobs h ?_ (twin_refl _) rfl rfl rfl rfl rfl rfl (nodup_setW _ _ h.wn)
      unfold jobsOf
      rw [actives_setW, hwk]
      simp only [Option.toList_some, List.singleton_append, List.cons_append]
      refine List.Perm.trans List.perm_middle ?_
      exact List.Perm.cons _ (((hsplit.symm).append_right _).append_left _)
    · rw [if_neg hb]; exact h


theorem KW_stepNewBatch {s : State} (h : KW s) (a : InvA (abs s)) (n : Nat) (nrm : Bool) (mr : Nat) (pr hn : Bool) :
    KW (stepNewBatch s n nrm mr pr hn).1 := by
  unfold stepNewBatch
  dsimp only
  refine ⟨?_, h.wn, ?_⟩
  · show KP (jobsOf _) _ _ _ _ _ _ _
    refine KP_new n _ h.k ?_ rfl rfl ?_ h.sb ?_
    · unfold jobsOf
      dsimp only
      have := (pushAll_perm (newJobs s.nextBatch s.nextQuery n) s.work).append_right (actives s.workers ++ s.lost)
      rw [List.append_assoc] at this
      exact this
    · intro bp hbp
      exact (a.cover bp.id).mpr (Or.inl (List.mem_map_of_mem hbp))
    · intro v hv
      have : s.nextBatch < s.nextBatch :=
        (a.cover s.nextBatch).mpr (Or.inr (List.mem_map.mpr ⟨(s.nextBatch, v), hv, rfl⟩))
      exact Nat.lt_irrefl _ this
  · intro sub hs
    cases List.mem_append.mp hs with
    | inl x => exact Nat.lt_succ_of_lt (h.sb sub x)
    | inr x => simp only [List.mem_singleton] at x; subst x; exact Nat.lt_succ_self _

theorem KW_stepWake {s : State} (h : KW s) (b g : Nat) : KW (stepWake s b g).1 := by
  unfold stepWake
  split
  · exact h
  · split
    · exact h
    · exact KW_emit_nonok h _ _ (by decide)

theorem KW_stepQuit {s : State} (h : KW s) : KW (stepQuit s).1 := by
  unfold stepQuit
  refine ⟨?_, h.wn, h.sb⟩
  refine KP_mono h.k (List.Perm.refl _) (fun _ hm => absurd hm List.not_mem_nil) (fun _ x => x) ?_
  intro b hv
  cases List.mem_append.mp hv with
  | inl x => exact x
  | inr x =>
    obtain ⟨bp, _, he⟩ := List.mem_map.mp x
    simp only [Prod.mk.injEq, reduceCtorEq, and_false] at he

theorem KW_stepLate {s : State} (h : KW s) (a : InvA (abs s)) (hq : s.quit = true) (n : Nat) :
    KW (stepLate s n).1 := by
  unfold stepLate
  have hids : s.batches.map (·.id) = [] := a.quitEmpty hq
  have hbs : s.batches = [] := List.map_eq_nil_iff.mp hids
  refine ⟨?_, h.wn, ?_⟩
  · have k := h.k
    unfold KS at k ⊢
    dsimp only
    refine ⟨k.nodup, fun j hj => ⟨(k.bound j hj).1, Nat.lt_succ_of_lt (k.bound j hj).2⟩, k.qmap, k.rem, ?_, ?_⟩
    · intro sub _ hin; rw [hbs] at hin; exact absurd hin List.not_mem_nil
    · intro sub hs hv i h1 h2
      have hv' : (sub.id, Verdict.res Err.ok) ∈ s.verdicts := ok_of_append_nonok (by decide) hv
      cases List.mem_append.mp hs with
      | inl x => exact k.done sub x hv' i h1 h2
      | inr x =>
        simp only [List.mem_singleton] at x; subst x
        have : s.nextBatch < s.nextBatch :=
          (a.cover s.nextBatch).mpr (Or.inr (List.mem_map.mpr ⟨(s.nextBatch, _), hv', rfl⟩))
        exact absurd this (Nat.lt_irrefl _)
  · intro sub hs
    cases List.mem_append.mp hs with
    | inl x => exact Nat.lt_succ_of_lt (h.sb sub x)
    | inr x => simp only [List.mem_singleton] at x; subst x; exact Nat.lt_succ_self _

theorem KW_step {s : State} (h : KW s) (a : InvA (abs s)) (e : Ev) : KW (step s e).1 := by
  unfold step
  by_cases hq : s.quit = true
  · simp only [hq, ↓reduceIte]
    cases e <;> first | exact h | exact KW_stepLate h a hq _
  · have hq' : s.quit = false := by cases hh : s.quit <;> simp_all
    simp only [hq', Bool.false_eq_true, ↓reduceIte]
    cases e with
    | quit => exact KW_stepQuit h
    | exit p => exact KW_stepExit h p
    | elapse b =>
      exact ⟨KP_mono h.k (List.Perm.refl _) (twin_setHard _ _) (fun _ x => x) (fun _ x => x), h.wn, h.sb⟩
    | accept p => exact KW_stepAccept h p
    | newBatch n nrm mr pr hn =>
      dsimp only; split
      · exact h
      · exact KW_stepNewBatch h a _ _ _ _ _
    | peer p =>
      dsimp only; split
      · exact h
      · exact KW_stepPeer h p
    | result p err =>
      dsimp only; split
      · exact h
      · exact KW_stepResult h p err
    | wake b g =>
      dsimp only; split
      · exact h
      · exact KW_stepWake h b g

theorem KW_init : KW init := by
  refine ⟨⟨List.nodup_nil, ?_, ?_, ?_, ?_, ?_⟩, List.nodup_nil, ?_⟩ <;> intro x hx <;> exact absurd hx List.not_mem_nil

theorem KW_run (s : State) (es : List Ev) (h : KW s) (a : InvA (abs s)) : KW (run s es) := by
  induction es generalizing s with
  | nil => exact h
  | cons e es ih => exact ih _ (KW_step h a e) (invA_R a (step_R s e))

/-! ### how results move the ranking -/

theorem hardCheck_rank (s : State) (bn : Nat) (bp : Batch) (pr : Bool) (outs : List Out) :
    (hardCheck s bn bp pr outs).1.rank = s.rank := by
  unfold hardCheck
  split
  · rfl
  · split <;> rfl

theorem scoreOf_setScore_self (r : List (Nat × Nat)) (p v : Nat) : scoreOf (setScore r p v) p = v := by
  simp only [scoreOf, setScore, List.lookup, beq_self_eq_true, Option.getD_some]

theorem scoreOf_setScore_other (r : List (Nat × Nat)) (p q v : Nat) (h : q ≠ p) :
    scoreOf (setScore r p v) q = scoreOf r q := by
  have : (q == p) = false := by simp only [beq_eq_false_iff_ne, ne_eq]; exact h
  simp only [scoreOf, setScore, List.lookup, this]
  rw [lookup_filter_ne _ _ _ h]

/-- what a result does to the ranking, by result kind (the batch being live) -/
theorem rank_after_result (s : State) (p : Nat) (e : Err) (w : Worker) (job : Job) (bp : Batch)
    (hw : findW s.workers p = some w) (ha : w.active = some job)
    (hf : findB s.batches ((s.queries.lookup job.idx).getD 0) = some bp) :
    (stepResult s p e).1.rank =
      (match e with
       | .ok => reward s.rank p
       | .canceled => s.rank
       | .disconnected => resetRank s.rank p
       | _ => punish s.rank p) := by
  unfold stepResult
  simp only [hw, ha, hf]
  cases e
  · dsimp only
    split
    · rfl
    · rw [hardCheck_rank]
  all_goals first
    | rfl
    | (dsimp only
       generalize (if bp.noRetryMax = true then job.tries else job.tries + 1) = tr
       split
       · rfl
       · rw [hardCheck_rank]; rfl)

/-! ### the hard deadline is examined on every result -/

theorem emit_ended (s : State) (b : Nat) (v : Verdict) :
    findB (emit s b v).batches b = none ∧ ∃ v', (b, v') ∈ (emit s b v).verdicts :=
  ⟨findB_delB_self _ _, v, List.mem_append.mpr (Or.inr (List.mem_singleton.mpr rfl))⟩

theorem hardCheck_ended (s : State) (bn : Nat) (bp : Batch) (pr : Bool) (outs : List Out)
    (hh : bp.hardPassed = true) :
    findB (hardCheck s bn bp pr outs).1.batches bn = none ∧
      ∃ v, (bn, v) ∈ (hardCheck s bn bp pr outs).1.verdicts := by
  unfold hardCheck
  rw [if_pos hh]
  exact emit_ended s bn _

theorem result_ends_overdue_batch (s : State) (p : Nat) (e : Err) (w : Worker) (job : Job) (bp : Batch)
    (hw : findW s.workers p = some w) (ha : w.active = some job)
    (hf : findB s.batches ((s.queries.lookup job.idx).getD 0) = some bp) (hh : bp.hardPassed = true) :
    findB (stepResult s p e).1.batches ((s.queries.lookup job.idx).getD 0) = none ∧
      ∃ v, ((s.queries.lookup job.idx).getD 0, v) ∈ (stepResult s p e).1.verdicts := by
  unfold stepResult
  simp only [hw, ha, hf]
  cases e
  · dsimp only
    split
    · exact emit_ended _ _ _
    · exact hardCheck_ended _ _ _ _ _ hh
  all_goals first
    | exact emit_ended _ _ _
    | (dsimp only
       generalize (if bp.noRetryMax = true then job.tries else job.tries + 1) = tr
       split
       · exact emit_ended _ _ _
       · exact hardCheck_ended _ _ _ _ _ hh)

end Neutrino.Disp
