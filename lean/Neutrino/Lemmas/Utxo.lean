/-
Helper lemmas for C10 (UTXO scanner): case analysis of `stepH`/`fetchStep`, and the height invariant that
makes every delivery acceptable (`delivOk`).  Conservation lemmas live in `Lemmas/UtxoPerm.lean`.
-/
import Neutrino.Spec.Utxo
namespace Neutrino.Utxo

/-! ### `stepH` / `fetchStep` case analysis -/

/-- the requests dequeued at height `h` in this iteration -/
def newAt (w : World) (h : Nat) (st : St) : List Req :=
  (st.pq ++ w.arrive (st.k + 1)).filter (fun q => q.birth == h)

/-- state at a `GetBlockHash` failure -/
def stHash (w : World) (h : Nat) (st : St) : St :=
  { st with k := st.k + 1, pq := st.pq ++ w.arrive (st.k + 1), quit := w.stopAt (st.k + 1),
            log := st.log ++ [Ev.hash h false] }

/-- state after `dequeueAtHeight` -/
def st2 (w : World) (h : Nat) (st : St) : St :=
  { st with k := st.k + 1,
            pq := (st.pq ++ w.arrive (st.k + 1)).filter (fun q => h < q.birth),
            quit := w.stopAt (st.k + 1),
            next := st.next ++ (st.pq ++ w.arrive (st.k + 1)).filter (fun q => q.birth < h),
            log := st.log ++ [Ev.hash h true] }

/-- state after the filter query -/
def st3 (w : World) (h : Nat) (st : St) : St :=
  { st2 w h st with
    log := (st2 w h st).log ++
      [Ev.filter h (st.ents.map (·.op)) (w.fm (st.k + 1) h (st.ents.map (·.op)))] }

theorem stepH_eq (w : World) (h : Nat) (st : St) :
    stepH w h st =
      if st.quit then .fail (st.fail .shutdown h)
      else if w.hashErr (st.k + 1) then .fail ((stHash w h st).fail .hashFail h)
      else if (newAt w h st).isEmpty then
        match w.fm (st.k + 1) h (st.ents.map (·.op)) with
        | none => .fail ((st3 w h st).fail .filterFail h)
        | some false => .cont (st3 w h st)
        | some true => fetchStep w h (st3 w h st) (newAt w h st)
      else fetchStep w h (st2 w h st) (newAt w h st) := rfl

theorem stepH_cases (w : World) (h : Nat) (st : St) (P : Step → Prop)
    (hq : st.quit = true → P (.fail (st.fail .shutdown h)))
    (hh : st.quit = false → w.hashErr (st.k + 1) = true → P (.fail ((stHash w h st).fail .hashFail h)))
    (hn : st.quit = false → newAt w h st = [] → w.fm (st.k + 1) h (st.ents.map (·.op)) = none →
      P (.fail ((st3 w h st).fail .filterFail h)))
    (hs : st.quit = false → newAt w h st = [] → w.fm (st.k + 1) h (st.ents.map (·.op)) = some false →
      P (.cont (st3 w h st)))
    (h3 : st.quit = false → newAt w h st = [] → P (fetchStep w h (st3 w h st) []))
    (h2 : st.quit = false → P (fetchStep w h (st2 w h st) (newAt w h st))) :
    P (stepH w h st) := by
  rw [stepH_eq]
  cases hquit : st.quit with
  | true => simp only [↓reduceIte]; exact hq hquit
  | false =>
    simp only [Bool.false_eq_true, ↓reduceIte]
    cases hhe : w.hashErr (st.k + 1) with
    | true => simp only [↓reduceIte]; exact hh hquit hhe
    | false =>
      simp only [Bool.false_eq_true, ↓reduceIte]
      cases hnew : newAt w h st with
      | cons a l => simp only [List.isEmpty_cons, Bool.false_eq_true, ↓reduceIte]; rw [← hnew]; exact h2 hquit
      | nil =>
        simp only [List.isEmpty_nil, ↓reduceIte]
        cases hv : w.fm (st.k + 1) h (st.ents.map (·.op)) with
        | none => exact hn hquit hnew hv
        | some b =>
          cases b with
          | false => exact hs hquit hnew hv
          | true => exact h3 hquit hnew

/-- state at a block fetch that is not attempted (quit) -/
def stFailQ (h : Nat) (st : St) (new : List Req) : St := { st with out := st.out ++ failNew new .shutdown h }

/-- state at a failed block fetch -/
def stFailB (h : Nat) (st : St) (new : List Req) : St :=
  { st with out := st.out ++ failNew new .blockFail h, log := st.log ++ [Ev.block h false] }

/-- state after a fetched block was processed -/
def stFetched (w : World) (h : Nat) (st : St) (new : List Req) : St :=
  { st with ents := (notifySpends (blockAt w.chain h) h (addNew (blockAt w.chain h) h st.ents new)).1,
            out := st.out ++ (notifySpends (blockAt w.chain h) h (addNew (blockAt w.chain h) h st.ents new)).2,
            log := st.log ++ [Ev.block h true] }

theorem fetchStep_eq (w : World) (h : Nat) (st : St) (new : List Req) :
    fetchStep w h st new =
      if st.quit then .fail ((stFailQ h st new).fail .shutdown h)
      else if w.blockErr st.k then .fail ((stFailB h st new).fail .blockFail h)
      else .cont (stFetched w h st new) := rfl

theorem fetchStep_cases (w : World) (h : Nat) (st : St) (new : List Req) (P : Step → Prop)
    (hq : st.quit = true → P (.fail ((stFailQ h st new).fail .shutdown h)))
    (hb : st.quit = false → w.blockErr st.k = true → P (.fail ((stFailB h st new).fail .blockFail h)))
    (hc : st.quit = false → w.blockErr st.k = false → P (.cont (stFetched w h st new))) :
    P (fetchStep w h st new) := by
  rw [fetchStep_eq]
  cases hquit : st.quit with
  | true => simp only [↓reduceIte]; exact hq hquit
  | false =>
    simp only [Bool.false_eq_true, ↓reduceIte]
    cases hbe : w.blockErr st.k with
    | true => simp only [↓reduceIte]; exact hb hquit hbe
    | false => simp only [Bool.false_eq_true, ↓reduceIte]; exact hc hquit hbe

theorem mem_newAt {w : World} {h : Nat} {st : St} {q : Req} (hq : q ∈ newAt w h st) : q.birth = h := by
  simp only [newAt, List.mem_filter, beq_iff_eq] at hq
  exact hq.2

/-! ### `firstSpendFrom` -/

/-- no block at a height in `[a, h)` spends `op` -/
def NoSpend (c : Chain) (op : Outpoint) (a h : Nat) : Prop :=
  ∀ x, a ≤ x → x < h → spendIn (blockAt c x) op = none

theorem NoSpend.succ {c : Chain} {op : Outpoint} {a h : Nat} (hn : NoSpend c op a h)
    (hh : spendIn (blockAt c h) op = none) : NoSpend c op a (h + 1) := by
  intro x hax hxh
  by_cases hx : x = h
  · rw [hx]; exact hh
  · exact hn x hax (by omega)

theorem NoSpend.refl (c : Chain) (op : Outpoint) (a : Nat) : NoSpend c op a a := by
  intro x hax hxh; omega

theorem firstSpendFrom_none (c : Chain) (op : Outpoint) :
    ∀ (n a : Nat), NoSpend c op a (a + n) → firstSpendFrom c op a n = none
  | 0, _, _ => rfl
  | n + 1, a, hn => by
    simp only [firstSpendFrom]
    rw [hn a (Nat.le_refl _) (by omega)]
    exact firstSpendFrom_none c op n (a + 1) (fun x h1 h2 => hn x (by omega) (by omega))

theorem firstSpendFrom_hit (c : Chain) (op : Outpoint) (h t i : Nat)
    (hs : spendIn (blockAt c h) op = some (t, i)) :
    ∀ (n a : Nat), h = a + n → NoSpend c op a h → firstSpendFrom c op a (n + 1) = some (h, t, i)
  | 0, a, he, _ => by
    have : a = h := by omega
    subst this
    simp only [firstSpendFrom, hs]
  | n + 1, a, he, hn => by
    simp only [firstSpendFrom]
    rw [hn a (Nat.le_refl _) (by omega)]
    exact firstSpendFrom_hit c op h t i hs n (a + 1) (by omega) (fun x h1 h2 => hn x (by omega) h2)

theorem firstSpendFrom_hit' (c : Chain) (op : Outpoint) (a h t i : Nat) (hah : a ≤ h)
    (hn : NoSpend c op a h) (hs : spendIn (blockAt c h) op = some (t, i)) :
    firstSpendFrom c op a (h + 1 - a) = some (h, t, i) := by
  have : h + 1 - a = (h - a) + 1 := by omega
  rw [this]
  exact firstSpendFrom_hit c op h t i hs (h - a) a (by omega) hn

theorem firstSpendFrom_none' (c : Chain) (op : Outpoint) (a e : Nat) (hae : a ≤ e + 1)
    (hn : NoSpend c op a (e + 1)) : firstSpendFrom c op a (e + 1 - a) = none := by
  apply firstSpendFrom_none
  have : a + (e + 1 - a) = e + 1 := by omega
  rw [this]; exact hn

/-! ### `initialAt` -/

theorem blockAt_out_of_range (c : Chain) (b : Nat) (hb : c.length ≤ b) : blockAt c b = [] := by
  simp only [blockAt, List.getD_eq_getElem?_getD, List.getElem?_eq_none hb, Option.getD_none]

theorem initialAt_ne_empty_lt (c : Chain) (b : Nat) (op : Outpoint) (hne : initialAt c b op ≠ .empty) :
    b < c.length := by
  by_cases hb : b < c.length
  · exact hb
  · exfalso; apply hne
    simp only [initialAt, initialIn, blockAt_out_of_range c b (by omega), initialFrom]

/-! ### the height invariant -/

/-- every member of the entry has been scanned for spends through height `h - 1`; the stored initial report is the
output as located in some block of the chain, or empty and then no member's start block creates it -/
def EntOk (c : Chain) (h : Nat) (e : Entry) : Prop :=
  (∀ q ∈ e.reqs, q.op = e.op ∧ q.birth ≤ h ∧ NoSpend c e.op q.birth h ∧
      (e.init = .empty → initialAt c q.birth e.op = .empty))
  ∧ (e.init = .empty ∨ ∃ b, b < c.length ∧ e.init = initialAt c b e.op)

def EntsOk (c : Chain) (h : Nat) (ents : List Entry) : Prop := ∀ e ∈ ents, EntOk c h e

def OutOk (c : Chain) (out : List Deliv) : Prop := ∀ d ∈ out, delivOk c d

theorem OutOk.append {c : Chain} {a b : List Deliv} (ha : OutOk c a) (hb : OutOk c b) : OutOk c (a ++ b) := by
  intro d hd
  rcases List.mem_append.1 hd with h | h
  · exact ha d h
  · exact hb d h

theorem EntsOk.nil (c : Chain) (h : Nat) : EntsOk c h [] := by
  intro e he; cases he

theorem failAll_ok (c : Chain) (ents : List Entry) (e : Err) (u : Nat) : OutOk c (failAll ents e u) := by
  intro d hd
  simp only [failAll, List.mem_flatMap, List.mem_map] at hd
  obtain ⟨en, _, q, _, rfl⟩ := hd
  simp only [delivOk]

theorem failNew_ok (c : Chain) (new : List Req) (e : Err) (u : Nat) : OutOk c (failNew new e u) := by
  intro d hd
  simp only [failNew, List.mem_map] at hd
  obtain ⟨q, _, rfl⟩ := hd
  simp only [delivOk]

theorem joinReq_ok (c : Chain) (h : Nat) (r : Req) (hr : r.birth = h) :
    ∀ (ents : List Entry), EntsOk c h ents → EntsOk c h (joinReq (blockAt c h) h ents r)
  | [], _ => by
    intro e he
    simp only [joinReq, List.mem_singleton] at he
    subst he
    refine ⟨?_, ?_⟩
    · intro q hq
      simp only [List.mem_singleton] at hq
      subst hq
      refine ⟨rfl, by omega, ?_, ?_⟩
      · rw [hr]; exact NoSpend.refl _ _ _
      · intro h0; rw [hr]; exact h0
    · by_cases h0 : initialIn (blockAt c h) h r.op = .empty
      · exact Or.inl h0
      · exact Or.inr ⟨h, initialAt_ne_empty_lt c h r.op h0, rfl⟩
  | e :: es, hok => by
    have he : EntOk c h e := hok e (List.mem_cons_self ..)
    have hes : EntsOk c h es := fun x hx => hok x (List.mem_cons_of_mem _ hx)
    simp only [joinReq]
    by_cases hop : e.op = r.op
    · simp only [hop, ↓reduceIte]
      intro x hx
      rcases List.mem_cons.1 hx with hx | hx
      · subst hx
        by_cases h0 : initialIn (blockAt c h) h r.op = .empty
        · simp only [mergeInit, h0, ↓reduceIte]
          refine ⟨?_, ?_⟩
          · intro q hq
            rcases List.mem_append.1 hq with hq | hq
            · have := he.1 q hq
              rw [hop] at this
              exact this
            · simp only [List.mem_singleton] at hq
              subst hq
              refine ⟨rfl, by omega, ?_, ?_⟩
              · rw [hr]; exact NoSpend.refl _ _ _
              · intro _; rw [hr]; exact h0
          · have := he.2
            rw [hop] at this
            exact this
        · simp only [mergeInit, h0, ↓reduceIte]
          refine ⟨?_, Or.inr ⟨h, initialAt_ne_empty_lt c h r.op h0, rfl⟩⟩
          intro q hq
          rcases List.mem_append.1 hq with hq | hq
          · have := he.1 q hq
            rw [hop] at this
            exact ⟨this.1, this.2.1, this.2.2.1, fun h1 => absurd h1 h0⟩
          · simp only [List.mem_singleton] at hq
            subst hq
            refine ⟨rfl, by omega, ?_, fun h1 => absurd h1 h0⟩
            rw [hr]; exact NoSpend.refl _ _ _
      · exact hes x hx
    · simp only [hop, ↓reduceIte]
      intro x hx
      rcases List.mem_cons.1 hx with hx | hx
      · subst hx; exact he
      · exact joinReq_ok c h r hr es hes x hx

theorem addNew_ok (c : Chain) (h : Nat) :
    ∀ (new : List Req) (ents : List Entry), (∀ q ∈ new, q.birth = h) → EntsOk c h ents →
      EntsOk c h (addNew (blockAt c h) h ents new)
  | [], _, _, hok => hok
  | r :: rs, ents, hb, hok => by
    simp only [addNew, List.foldl_cons]
    exact addNew_ok c h rs _ (fun q hq => hb q (List.mem_cons_of_mem _ hq))
      (joinReq_ok c h r (hb r (List.mem_cons_self ..)) ents hok)

theorem EntOk.succ {c : Chain} {h : Nat} {e : Entry} (he : EntOk c h e)
    (hs : spendIn (blockAt c h) e.op = none) : EntOk c (h + 1) e := by
  refine ⟨?_, he.2⟩
  intro q hq
  have := he.1 q hq
  exact ⟨this.1, by omega, this.2.2.1.succ hs, this.2.2.2⟩

theorem notifySpends_ok (c : Chain) (h : Nat) :
    ∀ (ents : List Entry), EntsOk c h ents →
      EntsOk c (h + 1) (notifySpends (blockAt c h) h ents).1 ∧ OutOk c (notifySpends (blockAt c h) h ents).2
  | [], _ => ⟨EntsOk.nil _ _, by intro d hd; cases hd⟩
  | e :: es, hok => by
    have he : EntOk c h e := hok e (List.mem_cons_self ..)
    have hes : EntsOk c h es := fun x hx => hok x (List.mem_cons_of_mem _ hx)
    have ih := notifySpends_ok c h es hes
    simp only [notifySpends]
    cases hs : spendIn (blockAt c h) e.op with
    | none =>
      refine ⟨?_, ih.2⟩
      intro x hx
      rcases List.mem_cons.1 hx with hx | hx
      · subst hx; exact he.succ hs
      · exact ih.1 x hx
    | some ti =>
      obtain ⟨t, i⟩ := ti
      refine ⟨ih.1, OutOk.append ?_ ih.2⟩
      intro d hd
      simp only [List.mem_map] at hd
      obtain ⟨q, hq, rfl⟩ := hd
      have hq' := he.1 q hq
      simp only [delivOk, answerOk]
      rw [hq'.1, firstSpendFrom_hit' c e.op q.birth h t i hq'.2.1 hq'.2.2.1 hs]

theorem notifyUnspent_ok (c : Chain) (u : Nat) (ents : List Entry) (hok : EntsOk c (u + 1) ents) :
    OutOk c (notifyUnspent ents u) := by
  intro d hd
  simp only [notifyUnspent, List.mem_flatMap, List.mem_map] at hd
  obtain ⟨e, he, q, hq, rfl⟩ := hd
  have hq' := (hok e he).1 q hq
  simp only [delivOk, answerOk]
  rw [hq'.1, firstSpendFrom_none' c e.op q.birth u hq'.2.1 hq'.2.2.1]
  by_cases h0 : e.init = .empty
  · left; rw [hq'.2.2.2 h0]; exact h0
  · right
    rcases (hok e he).2 with h1 | h1
    · exact absurd h1 h0
    · exact ⟨h0, h1⟩

/-- what `stepH` at height `h` must re-establish -/
def StepOk (c : Chain) (h : Nat) : Step → Prop
  | .cont st' => EntsOk c (h + 1) st'.ents ∧ OutOk c st'.out
  | .fail st' => OutOk c st'.out

theorem fetchStep_ok (w : World) (h : Nat) (st : St) (new : List Req) (hb : ∀ q ∈ new, q.birth = h)
    (he : EntsOk w.chain h st.ents) (ho : OutOk w.chain st.out) :
    StepOk w.chain h (fetchStep w h st new) := by
  apply fetchStep_cases
  · intro _; exact OutOk.append (OutOk.append ho (failNew_ok _ _ _ _)) (failAll_ok _ _ _ _)
  · intro _ _; exact OutOk.append (OutOk.append ho (failNew_ok _ _ _ _)) (failAll_ok _ _ _ _)
  · intro _ _
    have := notifySpends_ok w.chain h _ (addNew_ok w.chain h new st.ents hb he)
    exact ⟨this.1, OutOk.append ho this.2⟩

theorem stepH_ok (w : World) (hf : FilterSound w) (h : Nat) (st : St)
    (he : EntsOk w.chain h st.ents) (ho : OutOk w.chain st.out) :
    StepOk w.chain h (stepH w h st) := by
  apply stepH_cases
  · intro _; exact OutOk.append ho (failAll_ok _ _ _ _)
  · intro _ _; exact OutOk.append ho (failAll_ok _ _ _ _)
  · intro _ _ _; exact OutOk.append ho (failAll_ok _ _ _ _)
  · intro _ _ hv
    refine ⟨?_, ho⟩
    intro e hin
    apply (he e hin).succ
    cases hs : spendIn (blockAt w.chain h) e.op with
    | none => rfl
    | some ti =>
      exfalso
      exact hf (st.k + 1) h (st.ents.map (·.op)) e.op (List.mem_map_of_mem hin) (by rw [hs]; simp) hv
  · intro _ _
    exact fetchStep_ok w h (st3 w h st) [] (fun q hq => by cases hq) he ho
  · intro _
    exact fetchStep_ok w h (st2 w h st) (newAt w h st) (fun q hq => mem_newAt hq) he ho

theorem scan_ok (w : World) (hf : FilterSound w) :
    ∀ (fuel h endH : Nat) (st : St), h ≤ endH + 1 → EntsOk w.chain h st.ents → OutOk w.chain st.out →
      OutOk w.chain (scan w fuel h endH st).2.out
  | 0, _, _, _, _, _, ho => ho
  | fuel + 1, h, endH, st, hle, he, ho => by
    simp only [scan]
    by_cases hh : h ≤ endH
    · simp only [hh, ↓reduceIte]
      have hs := stepH_ok w hf h st he ho
      cases hst : stepH w h st with
      | cont st' =>
        rw [hst] at hs
        exact scan_ok w hf fuel (h + 1) endH st' (by omega) hs.1 hs.2
      | fail st' =>
        rw [hst] at hs
        exact hs
    · simp only [hh, ↓reduceIte]
      have hheq : h = endH + 1 := by omega
      by_cases ht : endH < w.tip st.k
      · simp only [ht, ↓reduceIte]
        exact scan_ok w hf fuel (endH + 1) (w.tip st.k) st (by omega) (hheq ▸ he) ho
      · simp only [ht, ↓reduceIte]
        exact OutOk.append ho (notifyUnspent_ok w.chain endH st.ents (hheq ▸ he))

theorem mgr_ok (w : World) (hf : FilterSound w) (sf : Nat) :
    ∀ (fuel : Nat) (st : St), OutOk w.chain st.out → OutOk w.chain (mgr w sf fuel st).2.out
  | 0, _, ho => ho
  | fuel + 1, st, ho => by
    simp only [mgr]
    split
    · exact ho
    · split
      · apply OutOk.append ho
        intro d hd
        simp only [List.mem_map] at hd
        obtain ⟨q, _, rfl⟩ := hd
        simp only [delivOk]
      · split
        · exact ho
        · rename_i hspin
          have hsc := scan_ok w hf sf (minBirth (st.pq ++ st.next)) (w.tip st.k)
            { st with pq := st.pq ++ st.next, next := [], ents := [] } (Nat.le_succ_of_le (Nat.not_lt.1 hspin))
            (EntsOk.nil _ _) ho
          split
          · rename_i st' heq
            rw [heq] at hsc
            exact hsc
          · rename_i s st' _ heq
            rw [heq] at hsc
            exact mgr_ok w hf sf fuel st' hsc

end Neutrino.Utxo
