/-
Lemmas for C14: the batch loop of `appendNewHeaders` on a file that starts at
height 0 (height = source index), both stores at the same height.
-/
import Neutrino.Spec.Import
namespace Neutrino.Import

/-- a healthy pair of stores holding exactly these entries -/
def mk (bl : List BHdr) (fl : List Nat) : Stores :=
  { blocks := bl, btip := bl.length - 1, filters := fl, ftip := some (fl.length - 1) }

/-- length of the batch read at index `a` -/
def batchLen (E bs a : Nat) : Nat := min E (a + bs - 1) + 1 - a

theorem batchLen_pos {E bs a : Nat} (hbs : bs ≥ 1) (h : a ≤ E) : 1 ≤ batchLen E bs a ∧ a + batchLen E bs a ≤ E + 1 := by
  unfold batchLen; omega

theorem readBatch_eof {α : Type} (body : List α) {a E bs : Nat} (hbs : bs ≥ 1) (h : a > E) :
    readBatch body a E bs = .eof := by
  unfold readBatch
  have : a > min E (a + bs - 1) := by omega
  simp only [this, ↓reduceIte]

theorem readBatch_ok {α : Type} (body : List α) {a E bs : Nat} (hbs : bs ≥ 1) (h : a ≤ E) (hE : E < body.length) :
    readBatch body a E bs = .ok ((body.drop a).take (batchLen E bs a)) := by
  unfold readBatch batchLen
  have h1 : ¬ a > min E (a + bs - 1) := by omega
  have h2 : min E (a + bs - 1) < body.length := by omega
  simp only [h1, h2, ↓reduceIte]

theorem slice_length {α : Type} (body : List α) {a k : Nat} (h : a + k ≤ body.length) :
    ((body.drop a).take k).length = k := by
  simp only [List.length_take, List.length_drop]; omega


/-- `writeHeadersToTargetStores` on healthy stores of equal height `a ≥ 1` with
two batches of the same length `k ≥ 1`: either both are appended (tips move to
`a+k-1`) or an error is returned and the stores are exactly as before — the
block store is rolled back when the filter write fails. -/
theorem writeBoth_both (cfg : Cfg) (r : Run) (B : List BHdr) (Fl : List Nat) (bl : List BHdr) (fl : List Nat)
    (a k : Nat) (hst : r.st = mk B Fl) (hB : B.length = a) (hF : Fl.length = a) (ha : a ≥ 1)
    (hbl : bl.length = k) (hfl : fl.length = k) (hk : k ≥ 1) :
    (∃ r', writeBoth cfg r bl (a + k - 1) fl (some (a + k - 1)) = (none, r') ∧ r'.st = mk (B ++ bl) (Fl ++ fl)) ∨
    (∃ e r', writeBoth cfg r bl (a + k - 1) fl (some (a + k - 1)) = (some e, r') ∧ r'.st = r.st) := by
  have hbl0 : bl ≠ [] := by intro h; rw [h] at hbl; simp at hbl; omega
  have hfl0 : fl ≠ [] := by intro h; rw [h] at hfl; simp at hfl; omega
  unfold writeBoth writeBlocks
  simp only [hbl0, ↓reduceIte]
  by_cases h1 : cfg.failB = some r.nb
  · simp only [h1, ↓reduceIte]
    exact Or.inr ⟨_, _, rfl, rfl⟩
  · simp only [h1, ↓reduceIte]
    unfold writeFilters
    simp only [hfl0, ↓reduceIte]
    by_cases h2 : cfg.failF = some r.nf
    · simp only [h2, ↓reduceIte]
      right
      unfold rollbackBlocks
      have hk0 : ¬ k = 0 := by omega
      simp only [hst, mk, List.length_append, hB, hbl]
      have hc : (decide (k > a + k - 1) || decide (a + k - 1 ≥ a + k)) = false := by
        simp only [Bool.or_eq_false_iff, decide_eq_false_iff_not]; omega
      simp only [hk0, hc, ↓reduceIte, Bool.false_eq_true]
      refine ⟨_, _, rfl, ?_⟩
      have e1 : a + k - k = B.length := by omega
      have e2 : a + k - 1 - k = B.length - 1 := by omega
      simp only [e1, e2, List.take_left', hB]
    · simp only [h2, ↓reduceIte]
      left
      refine ⟨_, rfl, ?_⟩
      simp only [hst, mk, List.length_append, hB, hF, hbl, hfl]

theorem processBatch_both_eof (F : File) (cfg : Cfg) (E a : Nat) (r : Run) (hbs : cfg.bs ≥ 1) (h : a > E) :
    processBatch F cfg E .both a r = .eof := by
  unfold processBatch
  simp only [reduceCtorEq, ↓reduceIte, readBatch_eof F.blocks hbs h]

/-- one batch in `appendBlockAndFilter` mode, file starting at height 0 -/
theorem processBatch_both (F : File) (cfg : Cfg) (E a : Nat) (r : Run) (B : List BHdr) (Fl : List Nat)
    (hs : F.bstart = 0) (hbs : cfg.bs ≥ 1) (hE : E + 1 = F.blocks.length) (hN : F.filters.length = F.blocks.length)
    (hst : r.st = mk B Fl) (hB : B.length = a) (hF : Fl.length = a) (ha : a ≥ 1) (h : a ≤ E) :
    (∃ r', processBatch F cfg E .both a r = .next (a + batchLen E cfg.bs a - 1) r' ∧
        r'.st = mk (B ++ (F.blocks.drop a).take (batchLen E cfg.bs a)) (Fl ++ (F.filters.drop a).take (batchLen E cfg.bs a))) ∨
    (∃ e r', processBatch F cfg E .both a r = .err e r' ∧ r'.st = r.st) := by
  obtain ⟨hk1, hk2⟩ := batchLen_pos hbs h
  have hlb := slice_length F.blocks (a := a) (k := batchLen E cfg.bs a) (by omega)
  have hlf := slice_length F.filters (a := a) (k := batchLen E cfg.bs a) (by omega)
  unfold processBatch
  simp only [reduceCtorEq, ↓reduceIte, readBatch_ok F.blocks hbs h (by omega), readBatch_ok F.filters hbs h (by omega),
    hlb, hlf, hs, Nat.add_zero, ne_eq, not_true_eq_false]
  rcases writeBoth_both cfg r B Fl _ _ a (batchLen E cfg.bs a) hst hB hF ha hlb hlf hk1 with ⟨r', hw, hr'⟩ | ⟨e, r', hw, hr'⟩
  · left; refine ⟨r', ?_, hr'⟩; rw [hw]
  · right; refine ⟨e, r', ?_, hr'⟩; rw [hw]

/-- the whole batch loop in `appendBlockAndFilter` mode on a file starting at
height 0: on success everything from index `a` on has been appended to both
stores; on error a common prefix of it (same length in both stores); in either
case the stores are healthy. -/
theorem appendLoop_both (F : File) (cfg : Cfg) (E : Nat)
    (hs : F.bstart = 0) (hbs : cfg.bs ≥ 1) (hE : E + 1 = F.blocks.length) (hN : F.filters.length = F.blocks.length) :
    ∀ (fuel a : Nat) (r : Run) (B : List BHdr) (Fl : List Nat),
      r.st = mk B Fl → B.length = a → Fl.length = a → a ≥ 1 → a ≤ E + 1 → fuel ≥ E + 2 - a →
      ((appendLoop F cfg E .both fuel a r).1 = none →
          (appendLoop F cfg E .both fuel a r).2.st = mk (B ++ F.blocks.drop a) (Fl ++ F.filters.drop a)) ∧
      (∀ e, (appendLoop F cfg E .both fuel a r).1 = some e →
          ∃ j, (appendLoop F cfg E .both fuel a r).2.st =
            mk (B ++ (F.blocks.drop a).take j) (Fl ++ (F.filters.drop a).take j)) := by
  intro fuel
  induction fuel with
  | zero => intro a r B Fl _ _ _ _ h1 h2; omega
  | succ fuel ih =>
    intro a r B Fl hst hB hF ha hle hfuel
    unfold appendLoop
    by_cases hcan : cancelled cfg r.np = true
    · simp only [hcan, ↓reduceIte]
      refine ⟨fun hn => by simp at hn, fun e' _ => ⟨0, ?_⟩⟩
      rw [hst]; simp
    simp only [hcan, Bool.false_eq_true, ↓reduceIte]
    have hst1 : ({ r with np := r.np + 1 } : Run).st = mk B Fl := hst
    by_cases h : a ≤ E
    · obtain ⟨hk1, hk2⟩ := batchLen_pos hbs h
      rcases processBatch_both F cfg E a { r with np := r.np + 1 } B Fl hs hbs hE hN hst1 hB hF ha h with
        ⟨r', hp, hr'⟩ | ⟨e, r', hp, hr'⟩
      · rw [hp]
        simp only
        have hlb := slice_length F.blocks (a := a) (k := batchLen E cfg.bs a) (by omega)
        have hlf := slice_length F.filters (a := a) (k := batchLen E cfg.bs a) (by omega)
        have hidx : a + batchLen E cfg.bs a - 1 + 1 = a + batchLen E cfg.bs a := by omega
        rw [hidx]
        have := ih (a + batchLen E cfg.bs a) r' _ _ hr'
          (by rw [List.length_append, hB, hlb]) (by rw [List.length_append, hF, hlf]) (by omega) (by omega) (by omega)
        refine ⟨fun hn => ?_, fun e he => ?_⟩
        · rw [this.1 hn, List.append_assoc, List.append_assoc, ← List.drop_drop, ← List.drop_drop,
            List.take_append_drop, List.take_append_drop]
        · obtain ⟨j, hj⟩ := this.2 e he
          refine ⟨batchLen E cfg.bs a + j, ?_⟩
          rw [hj, List.append_assoc, List.append_assoc, List.take_add, List.take_add, List.drop_drop, List.drop_drop]
      · rw [hp]
        simp only
        refine ⟨fun hn => by simp at hn, fun e' _ => ⟨0, ?_⟩⟩
        rw [hr']
        show r.st = _
        rw [hst]; simp
    · rw [processBatch_both_eof F cfg E a _ hbs (by omega)]
      simp only
      refine ⟨fun _ => ?_, fun e he => by simp at he⟩
      rw [hst, List.drop_eq_nil_of_le (by omega), List.drop_eq_nil_of_le (by omega)]
      simp

theorem bChainTip_mk (B : List BHdr) (Fl : List Nat) (h : B.length ≥ 1) : bChainTip (mk B Fl) = some (B.length - 1) := by
  unfold bChainTip mk
  have : B.length - 1 < B.length := by omega
  simp only [this, ↓reduceIte]

theorem fChainTip_mk (B : List BHdr) (Fl : List Nat) (h : Fl.length ≥ 1) : fChainTip (mk B Fl) = some (Fl.length - 1) := by
  unfold fChainTip mk
  have : Fl.length - 1 < Fl.length := by omega
  simp only [this, ↓reduceIte]

/-! ### structure of `importRun` -/

theorem preChecks_none (F : File) (h : preChecks F = none) :
    metaOk F = true ∧ F.blocks ≠ [] ∧ F.filters.length = F.blocks.length ∧ F.fstart = F.bstart := by
  unfold preChecks at h
  split at h
  · simp at h
  rename_i c1
  split at h
  · simp at h
  rename_i c2
  split at h
  · simp at h
  rename_i c3
  split at h
  · simp at h
  rename_i c4
  split at h
  · simp at h
  rename_i c5
  simp only [Bool.or_eq_true, Bool.not_eq_true', List.isEmpty_iff, not_or, Bool.not_eq_false, ne_eq,
    decide_eq_true_eq, Decidable.not_not] at c1 c2 c3 c4 c5
  refine ⟨?_, c1.1.2, c5.symm, c4.symm⟩
  simp only [metaOk, c1.1.1, c2.1, c2.2, c3.2, c4, c5, Bool.and_eq_true, beq_iff_eq, Bool.not_eq_true',
    List.isEmpty_eq_false_iff, ne_eq, true_and, and_true]
  refine ⟨?_, c1.1.2⟩
  rw [← c3.2]; exact c3.1.symm ▸ rfl

/-! ### cancellation -/

theorem validatedBody_full (F : File) (cfg : Cfg) (h : cancelled cfg (2 * valBatches F cfg) = false) :
    validatedBody F cfg = F.blocks := by
  unfold validatedBody
  unfold cancelled at h
  cases hc : cfg.cancelAt with
  | none => rfl
  | some c =>
    rw [hc] at h
    simp only [decide_eq_false_iff_not] at h
    have : ¬ c < valBatches F cfg := by omega
    simp only [this, ↓reduceIte]

theorem validatedBody_none (F : File) (cfg : Cfg) (h : cfg.cancelAt = none) : validatedBody F cfg = F.blocks := by
  unfold validatedBody; rw [h]

/-- a cancelled context stops the write loop before its next batch -/
theorem appendNew_cancelled (F : File) (cfg : Cfg) (a e : Nat) (m : Mode) (r : Run) (h : cancelled cfg r.np = true) :
    appendNew F cfg a e m r = (some .cancel, r) := by
  unfold appendNew appendLoop
  simp only [h, ↓reduceIte]

/-- ... so if the cancellation is noticed before the first write batch, nothing is written at all -/
theorem processRegions_cancelled (F : File) (cfg : Cfg) (b f : Nat) (r : Run) (h : cancelled cfg r.np = true) :
    (processRegions F cfg b f r).2.st = r.st := by
  unfold processRegions
  simp only [appendNew_cancelled F cfg _ _ _ r h]
  cases (regions F b f).1.exists <;> cases (regions F b f).2.exists <;>
    cases (!verifyAt F r.st (regions F b f).1.verify (regions F b f).1.stop) <;>
    simp [appendNew_cancelled F cfg _ _ _ r h]

/-- ... and if a region exists, the import reports the failure -/
theorem processRegions_cancelled_err (F : File) (cfg : Cfg) (b f : Nat) (r : Run) (h : cancelled cfg r.np = true)
    (hex : (regions F b f).1.exists = true ∨ (regions F b f).2.exists = true) :
    (processRegions F cfg b f r).1 ≠ none := by
  unfold processRegions
  simp only [appendNew_cancelled F cfg _ _ _ r h]
  rcases hex with hex | hex
  · simp only [hex, ↓reduceIte]
    cases (!verifyAt F r.st (regions F b f).1.verify (regions F b f).1.stop) <;> simp
  · cases (regions F b f).1.exists <;>
      cases (!verifyAt F r.st (regions F b f).1.verify (regions F b f).1.stop) <;>
      simp [hex, appendNew_cancelled F cfg _ _ _ r h]

theorem importRun_ok_facts (F : File) (cfg : Cfg) (st : Stores) (h : (importRun F cfg st).1 = none) :
    preChecks F = none ∧ continuity F st = none ∧ validateBlocks (validatedBody F cfg) cfg.bs = true := by
  unfold importRun at h
  simp only at h
  split at h
  · simp at h
  rename_i hp
  split at h
  · simp at h
  rename_i hc
  split at h
  · simp at h
  rename_i hv
  simp only [Bool.not_eq_true', Bool.not_eq_false] at hv
  exact ⟨hp, hc, hv⟩

/-- an import stopped by a check before the regions are processed changes nothing -/
theorem importRun_early (F : File) (cfg : Cfg) (st : Stores)
    (h : preChecks F ≠ none ∨ continuity F st ≠ none ∨ validateBlocks (validatedBody F cfg) cfg.bs = false) :
    (importRun F cfg st).2.st = st ∧ (importRun F cfg st).1 ≠ none := by
  unfold importRun
  simp only
  split
  · exact ⟨rfl, by simp⟩
  rename_i hp
  split
  · exact ⟨rfl, by simp⟩
  rename_i hc
  split
  · exact ⟨rfl, by simp⟩
  rename_i hv
  simp only [Bool.not_eq_true', Bool.not_eq_false] at hv
  rcases h with h | h | h
  · exact absurd hp h
  · exact absurd hc h
  · rw [hv] at h; simp at h

theorem importRun_eq_regions (F : File) (cfg : Cfg) (st : Stores) (b f : Nat)
    (hp : preChecks F = none) (hc : continuity F st = none) (hv : validateBlocks (validatedBody F cfg) cfg.bs = true)
    (hb : bChainTip st = some b) (hf : fChainTip st = some f) :
    importRun F cfg st = processRegions F cfg b f { st := st, np := 2 * valBatches F cfg } := by
  unfold importRun
  simp only [hp, hc, hv, hb, hf, Bool.not_true, Bool.false_eq_true, ↓reduceIte]

/-- **anything written ⇒ everything validated**: if `Import` changed the stores at
all, every check had passed on the WHOLE file and the context had not been
cancelled when the write loop began (a validator that sees a cancelled context
returns early, but then the write loop's first look at the context stops it) -/
theorem importRun_written_validated (F : File) (cfg : Cfg) (st : Stores) (h : (importRun F cfg st).2.st ≠ st) :
    preChecks F = none ∧ continuity F st = none ∧ validateBlocks F.blocks cfg.bs = true ∧
    cancelled cfg (2 * valBatches F cfg) = false := by
  unfold importRun at h
  simp only at h
  split at h
  · exact absurd rfl h
  rename_i hp
  split at h
  · exact absurd rfl h
  rename_i hc
  split at h
  · exact absurd rfl h
  rename_i hv
  simp only [Bool.not_eq_true', Bool.not_eq_false] at hv
  split at h
  · cases hcan : cancelled cfg (2 * valBatches F cfg) with
    | true =>
      exact absurd (processRegions_cancelled F cfg _ _ { st := st, np := 2 * valBatches F cfg } hcan) h
    | false =>
      rw [validatedBody_full F cfg hcan] at hv
      exact ⟨hp, hc, hv, rfl⟩
  · exact absurd rfl h

/-- the file ends at or below both store tips: no region exists -/
theorem processRegions_none (F : File) (cfg : Cfg) (b f : Nat) (r : Run) (he : endHeight F ≤ min b f) :
    processRegions F cfg b f r = (none, r) := by
  unfold processRegions regions
  have h1 : ¬ (min b f + 1 ≤ min (max b f) (endHeight F)) := by omega
  have h2 : ¬ (max b f + 1 ≤ endHeight F) := by omega
  simp only [h1, h2, decide_false, Bool.and_false, Bool.false_eq_true, ↓reduceIte]

/-- what `Import` guarantees for stores `mk B Fl` of equal height `a` -/
def Post (F : File) (B : List BHdr) (Fl : List Nat) (a : Nat) (res : Option Err × Run) : Prop :=
  (res.1 = none → metaOk F = true ∧ res.2.st = mk (B ++ F.blocks.drop a) (Fl ++ F.filters.drop a)) ∧
  (∀ e, res.1 = some e → ∃ j, (j = 0 ∨ metaOk F = true) ∧
      res.2.st = mk (B ++ (F.blocks.drop a).take j) (Fl ++ (F.filters.drop a).take j))

theorem post_early (F : File) (B : List BHdr) (Fl : List Nat) (a : Nat) (e : Err) (nb nf : Nat) :
    Post F B Fl a (some e, { st := mk B Fl, nb := nb, nf := nf }) := by
  refine ⟨fun h => by simp at h, fun _ _ => ⟨0, Or.inl rfl, by simp⟩⟩

/-- the regions of a file starting at height 0 over level stores: one new-headers region -/
theorem processRegions_level (F : File) (cfg : Cfg) (B : List BHdr) (Fl : List Nat) (a : Nat)
    (hs : F.bstart = 0) (hbs : cfg.bs ≥ 1) (hB : B.length = a) (hF : Fl.length = a) (ha : a ≥ 1)
    (hp : preChecks F = none) (r : Run) (hr : r.st = mk B Fl) :
    Post F B Fl a (processRegions F cfg (a - 1) (a - 1) r) := by
  obtain ⟨hmeta, hne, hN, _⟩ := preChecks_none F hp
  have hlen : F.blocks.length ≥ 1 := by
    cases hb : F.blocks with
    | nil => exact absurd hb hne
    | cons x xs => simp
  unfold processRegions regions
  simp only [Nat.lt_irrefl, ↓reduceIte, ne_eq, not_true_eq_false, decide_false, Bool.false_and,
    Bool.false_eq_true, Nat.max_self]
  have hE : endHeight F + 1 = F.blocks.length := by unfold endHeight; omega
  by_cases hn : a - 1 + 1 ≤ endHeight F
  · simp only [hn, decide_true, ↓reduceIte]
    unfold appendNew
    rw [hs, Nat.sub_zero]
    have ha1 : a - 1 + 1 = a := by omega
    rw [ha1]
    have := appendLoop_both F cfg (endHeight F) hs hbs hE hN (endHeight F + 2) a r B Fl hr hB hF ha
      (by omega) (by omega)
    exact ⟨fun h => ⟨hmeta, this.1 h⟩, fun e he => let ⟨j, hj⟩ := this.2 e he; ⟨j, Or.inr hmeta, hj⟩⟩
  · simp only [hn, decide_false, Bool.false_eq_true, ↓reduceIte]
    refine ⟨fun _ => ⟨hmeta, ?_⟩, fun e he => by simp at he⟩
    rw [List.drop_eq_nil_of_le (by omega), List.drop_eq_nil_of_le (by omega), hr]
    simp

/-- `Import` of a file that starts at height 0 into healthy stores of equal height. -/
theorem importRun_zero (F : File) (cfg : Cfg) (B : List BHdr) (Fl : List Nat) (a : Nat)
    (hs : F.bstart = 0) (hbs : cfg.bs ≥ 1) (hB : B.length = a) (hF : Fl.length = a) (ha : a ≥ 1) :
    Post F B Fl a (importRun F cfg (mk B Fl)) := by
  by_cases h : preChecks F = none ∧ continuity F (mk B Fl) = none ∧ validateBlocks (validatedBody F cfg) cfg.bs = true
  · obtain ⟨hp, hc, hv⟩ := h
    rw [importRun_eq_regions F cfg (mk B Fl) (a - 1) (a - 1) hp hc hv
      (by rw [bChainTip_mk B Fl (by omega), hB]) (by rw [fChainTip_mk B Fl (by omega), hF])]
    exact processRegions_level F cfg B Fl a hs hbs hB hF ha hp _ rfl
  · have h' : preChecks F ≠ none ∨ continuity F (mk B Fl) ≠ none ∨ validateBlocks (validatedBody F cfg) cfg.bs = false := by
      by_cases h1 : preChecks F = none
      · by_cases h2 : continuity F (mk B Fl) = none
        · right; right
          cases hv : validateBlocks (validatedBody F cfg) cfg.bs with
          | false => rfl
          | true => exact absurd ⟨h1, h2, hv⟩ h
        · exact Or.inr (Or.inl h2)
      · exact Or.inl h1
    obtain ⟨hst, hne⟩ := importRun_early F cfg (mk B Fl) h'
    refine ⟨fun hn => absurd hn hne, fun e _ => ⟨0, Or.inl rfl, ?_⟩⟩
    rw [hst]; simp

theorem usable_mk (B : List BHdr) (Fl : List Nat) (hB : B.length ≥ 1) (hF : Fl.length ≥ 1) :
    usable (obsOf (mk B Fl)) = true := by
  have h1 : B ≠ [] := by intro h; rw [h] at hB; simp at hB
  have h2 : Fl ≠ [] := by intro h; rw [h] at hF; simp at hF
  have e1 : (obsOf (mk B Fl)).btip = some (B.length - 1) := bChainTip_mk B Fl hB
  have e2 : (obsOf (mk B Fl)).ftip = some (Fl.length - 1) := fChainTip_mk B Fl hF
  have e3 : (obsOf (mk B Fl)).blocks = B := rfl
  have e4 : (obsOf (mk B Fl)).filters = Fl := rfl
  simp only [usable, e1, e2, e3, e4, beq_self_eq_true, Bool.true_and, Bool.and_eq_true, Bool.not_eq_true',
    List.isEmpty_eq_false_iff, ne_eq]
  exact ⟨⟨h1, trivial⟩, h2⟩

theorem take_length_take {α : Type} (l : List α) (j : Nat) : l.take (l.take j).length = l.take j := by
  by_cases h : j ≤ l.length
  · rw [List.length_take, Nat.min_eq_left h]
  · have h1 : l.take j = l := List.take_of_length_le (by omega)
    rw [h1, List.take_of_length_le (Nat.le_refl _)]

/-- no gap: a file accepted by `validateChainContinuity` starts at or below tip+1 -/
theorem continuity_no_gap (F : File) (B : List BHdr) (Fl : List Nat) (hB : B.length ≥ 1) (hF : Fl.length ≥ 1)
    (hc : continuity F (mk B Fl) = none) : F.bstart ≤ min (B.length - 1) (Fl.length - 1) + 1 := by
  unfold continuity at hc
  rw [bChainTip_mk B Fl hB, fChainTip_mk B Fl hF] at hc
  simp only at hc
  by_cases hg : F.bstart > min (B.length - 1) (Fl.length - 1) + 1
  · simp only [hg, ↓reduceIte] at hc; exact absurd hc (by simp)
  · omega

/-- the file ends at or below both store tips (any two heights): nothing is appended -/
theorem importRun_covered_gen (F : File) (cfg : Cfg) (B : List BHdr) (Fl : List Nat)
    (hB : B.length ≥ 1) (hF : Fl.length ≥ 1) (he : endHeight F ≤ min (B.length - 1) (Fl.length - 1)) :
    (importRun F cfg (mk B Fl)).2.st = mk B Fl ∧
    ((importRun F cfg (mk B Fl)).1 = none ↔
      (preChecks F = none ∧ continuity F (mk B Fl) = none ∧ validateBlocks (validatedBody F cfg) cfg.bs = true)) := by
  by_cases h : preChecks F = none ∧ continuity F (mk B Fl) = none ∧ validateBlocks (validatedBody F cfg) cfg.bs = true
  · obtain ⟨hp, hc, hv⟩ := h
    rw [importRun_eq_regions F cfg (mk B Fl) _ _ hp hc hv (bChainTip_mk B Fl hB) (fChainTip_mk B Fl hF),
      processRegions_none F cfg _ _ _ he]
    exact ⟨rfl, fun _ => ⟨hp, hc, hv⟩, fun _ => rfl⟩
  · refine ⟨?_, fun hn => absurd (importRun_ok_facts F cfg _ hn) h, fun hh => absurd hh h⟩
    have h' : preChecks F ≠ none ∨ continuity F (mk B Fl) ≠ none ∨ validateBlocks (validatedBody F cfg) cfg.bs = false := by
      by_cases h1 : preChecks F = none
      · by_cases h2 : continuity F (mk B Fl) = none
        · right; right
          cases hv : validateBlocks (validatedBody F cfg) cfg.bs with
          | false => rfl
          | true => exact absurd ⟨h1, h2, hv⟩ h
        · exact Or.inr (Or.inl h2)
      · exact Or.inl h1
    exact (importRun_early F cfg (mk B Fl) h').1

/-- the file ends at or below both store tips: nothing is appended -/
theorem importRun_covered (F : File) (cfg : Cfg) (B : List BHdr) (Fl : List Nat) (a : Nat)
    (hB : B.length = a) (hF : Fl.length = a) (ha : a ≥ 1) (he : endHeight F ≤ a - 1) :
    (importRun F cfg (mk B Fl)).2.st = mk B Fl ∧
    ((importRun F cfg (mk B Fl)).1 = none → metaOk F = true ∧ F.bstart ≤ a) := by
  have hg := importRun_covered_gen F cfg B Fl (by omega) (by omega) (by rw [hB, hF, Nat.min_self]; exact he)
  refine ⟨hg.1, fun hn => ?_⟩
  obtain ⟨hp, hc, _⟩ := hg.2.mp hn
  have := continuity_no_gap F B Fl (by omega) (by omega) hc
  rw [hB, hF, Nat.min_self] at this
  exact ⟨(preChecks_none F hp).1, by omega⟩

end Neutrino.Import
