/-
Isolation and frozen-after-close lemmas for the SubscriptionManager model.
Core Lean only.
-/
import Neutrino.Lemmas.Subs
namespace Neutrino.Subs

theorem State.ext' {s t : State} (h1 : s.subs = t.subs) (h2 : s.src = t.src)
    (h3 : s.fanned = t.fanned) (h4 : s.stopped = t.stopped) : s = t := by
  cases s; cases t; simp_all

/-- delete subscriber `B` from the client table -/
def hide (B : Nat) (f : Nat → Option Sub) : Nat → Option Sub := fun i => if i = B then none else f i

/-- the state as seen by everybody except subscriber `B` -/
def hideState (B : Nat) (s : State) : State := { s with subs := hide B s.subs }

theorem hide_setSub_self (B : Nat) (f : Nat → Option Sub) (x : Sub) : hide B (setSub f B x) = hide B f := by
  funext i; simp only [hide, setSub]; by_cases h : i = B <;> simp [h]

theorem hide_upd_self (B : Nat) (f : Nat → Option Sub) (g : Sub → Sub) : hide B (upd f B g) = hide B f := by
  funext i; simp only [hide, upd]; by_cases h : i = B <;> simp [h]

theorem hide_setSub_other (B id : Nat) (hne : id ≠ B) (f : Nat → Option Sub) (x : Sub) :
    hide B (setSub f id x) = setSub (hide B f) id x := by
  funext i; simp only [hide, setSub]
  by_cases h : i = B
  · have : B ≠ id := fun h' => hne h'.symm
    simp [h, this]
  · simp [h]

theorem hide_upd_other (B id : Nat) (hne : id ≠ B) (f : Nat → Option Sub) (g : Sub → Sub) :
    hide B (upd f id g) = upd (hide B f) id g := by
  funext i; simp only [hide, upd]
  by_cases h : i = B
  · have : B ≠ id := fun h' => hne h'.symm
    simp [h, this]
  · simp [h]

theorem hide_mapAll (B : Nat) (f : Nat → Option Sub) (g : Sub → Sub) :
    hide B (mapAll f g) = mapAll (hide B f) g := by
  funext i; simp only [hide, mapAll]
  by_cases h : i = B <;> simp [h]

theorem hide_other (B id : Nat) (hne : id ≠ B) (f : Nat → Option Sub) : hide B f id = f id := by
  simp [hide, hne]

/-- An event of subscriber `B` is invisible to everybody else. -/
theorem step_hide_own (B : Nat) (s : State) (e : Ev) (he : e.about = some B) :
    hideState B (step s e).1 = hideState B s := by
  cases e with
  | subscribe id ht bl =>
    simp only [Ev.about, Option.some.injEq] at he; subst he
    simp only [step]
    split
    · rfl
    · split
      · rfl
      · exact State.ext' (hide_setSub_self _ _ _) rfl rfl rfl
  | subscribeFail id ht =>
    simp only [step]
    split
    · rfl
    · split <;> rfl
  | emit n => simp [Ev.about] at he
  | handlerFanout => simp [Ev.about] at he
  | stop => simp [Ev.about] at he
  | forward id =>
    simp only [Ev.about, Option.some.injEq] at he; subst he
    exact State.ext' (hide_upd_self _ _ _) rfl rfl rfl
  | consume id =>
    simp only [Ev.about, Option.some.injEq] at he; subst he
    simp only [step]
    split
    · rfl
    · exact State.ext' (hide_setSub_self _ _ _) rfl rfl rfl
  | cancel id =>
    simp only [Ev.about, Option.some.injEq] at he; subst he
    simp only [step]
    split
    · rfl
    · exact State.ext' (hide_upd_self _ _ _) rfl rfl rfl

/-- Every other event has the same enabledness, effect and output whether or
not subscriber `B` exists, whatever `B`'s queue/channel/consumer state is. -/
theorem step_hide_other (B : Nat) (s : State) (e : Ev) (he : e.about ≠ some B) :
    hideState B (step s e).1 = (step (hideState B s) e).1 ∧ (step s e).2 = (step (hideState B s) e).2 := by
  obtain ⟨subs, src, fanned, stopped⟩ := s
  cases e with
  | subscribe id ht bl =>
    have hne : id ≠ B := fun h => he (by simp [Ev.about, h])
    cases stopped
    · cases hx : subs id with
      | none =>
        simp only [step, hideState, hide_other B id hne, hx, Bool.false_eq_true, ↓reduceIte,
          hide_setSub_other B id hne, and_self]
      | some x =>
        simp only [step, hideState, hide_other B id hne, hx, Bool.false_eq_true, ↓reduceIte, and_self]
    · simp only [step, hideState, ↓reduceIte, and_self]
  | subscribeFail id ht =>
    have hne : id ≠ B := fun h => he (by simp [Ev.about, h])
    cases stopped
    · cases hx : subs id <;>
        simp only [step, hideState, hide_other B id hne, hx, Bool.false_eq_true, ↓reduceIte, and_self]
    · simp only [step, hideState, ↓reduceIte, and_self]
  | emit n => exact ⟨rfl, rfl⟩
  | handlerFanout =>
    cases stopped
    · cases src with
      | nil => simp only [step, hideState, Bool.false_eq_true, ↓reduceIte, and_self]
      | cons n rest => simp only [step, hideState, Bool.false_eq_true, ↓reduceIte, hide_mapAll, and_self]
    · simp only [step, hideState, ↓reduceIte, and_self]
  | stop =>
    cases stopped
    · simp only [step, hideState, Bool.false_eq_true, ↓reduceIte, hide_mapAll, and_self]
    · simp only [step, hideState, ↓reduceIte, and_self]
  | forward id =>
    have hne : id ≠ B := fun h => he (by simp [Ev.about, h])
    simp only [step, hideState, hide_upd_other B id hne, and_self]
  | consume id =>
    have hne : id ≠ B := fun h => he (by simp [Ev.about, h])
    cases hx : subs id <;>
      simp only [step, hideState, hide_other B id hne, hx, hide_setSub_other B id hne, and_self]
  | cancel id =>
    have hne : id ≠ B := fun h => he (by simp [Ev.about, h])
    cases stopped
    · simp only [step, hideState, Bool.false_eq_true, ↓reduceIte, hide_upd_other B id hne, and_self]
    · simp only [step, hideState, ↓reduceIte, and_self]

/-- the events that are not subscriber `B`'s -/
def notOf (B : Nat) (e : Ev) : Bool := e.about != some B

/-- outputs of the events selected by `p` -/
def outsWhere (p : Ev → Bool) (s : State) : List Ev → List Out
  | [] => []
  | e :: es => if p e then (step s e).2 :: outsWhere p (step s e).1 es else outsWhere p (step s e).1 es

theorem run_hide (B : Nat) (s : State) (evs : List Ev) :
    hideState B (run s evs) = run (hideState B s) (evs.filter (notOf B)) ∧
    outsWhere (notOf B) s evs = outs (hideState B s) (evs.filter (notOf B)) := by
  induction evs generalizing s with
  | nil => exact ⟨rfl, rfl⟩
  | cons e es ih =>
    by_cases hp : e.about = some B
    · have hf : notOf B e = false := by simp [notOf, hp]
      simp only [List.filter_cons, hf, run, outsWhere, Bool.false_eq_true, ↓reduceIte]
      rw [← step_hide_own B s e hp]
      exact ih _
    · have hf : notOf B e = true := by simp [notOf, hp]
      simp only [List.filter_cons, hf, run, outs, outsWhere, ↓reduceIte]
      obtain ⟨h1, h2⟩ := step_hide_other B s e hp
      rw [← h1, ← h2]
      exact ⟨(ih _).1, by rw [(ih _).2]⟩

/-! ### nothing enters a closed channel -/

/-- `y` is a later state of the closed subscriber `x` -/
structure Frozen (x y : Sub) : Prop where
  closed  : y.closed = true
  dead    : y.live = false
  chanOk  : y.delivered ++ y.chan = x.delivered ++ x.chan
  queueEq : y.queue = x.queue
  sinceEq : y.since = x.since
  backEq  : y.backlog = x.backlog

theorem Frozen.refl {x : Sub} (hc : x.closed = true) (hl : x.live = false) : Frozen x x :=
  ⟨hc, hl, rfl, rfl, rfl, rfl⟩

theorem Frozen.forward {x y : Sub} (h : Frozen x y) : y.forward = y := by
  simp [Sub.forward, h.closed]

theorem Frozen.cancel {x y : Sub} (h : Frozen x y) : y.cancel = y := by
  simp [Sub.cancel, h.dead]

theorem Frozen.push {x y : Sub} (n : Ntfn) (h : Frozen x y) : y.push n = y := by
  simp [Sub.push, h.dead]

theorem Frozen.consume {x y : Sub} (h : Frozen x y) : Frozen x y.consume.1 := by
  unfold Sub.consume
  split
  · rename_i n c hq
    have := h.chanOk
    rw [hq] at this
    exact ⟨h.closed, h.dead, by simpa using this, h.queueEq, h.sinceEq, h.backEq⟩
  · rename_i hq
    split
    · exact ⟨h.closed, h.dead, h.chanOk, h.queueEq, h.sinceEq, h.backEq⟩
    · exact h

theorem frozen_step (s : State) (e : Ev) (id : Nat) (x y : Sub)
    (hy : s.subs id = some y) (hf : Frozen x y) :
    ∃ y', (step s e).1.subs id = some y' ∧ Frozen x y' := by
  cases e with
  | subscribe i ht bl =>
    simp only [step]
    split
    · exact ⟨y, hy, hf⟩
    · split
      · exact ⟨y, hy, hf⟩
      · rename_i hnone
        have hne : id ≠ i := fun h => by rw [h, hnone] at hy; cases hy
        exact ⟨y, by simp [setSub, hne, hy], hf⟩
  | subscribeFail i ht =>
    simp only [step]
    split
    · exact ⟨y, hy, hf⟩
    · split <;> exact ⟨y, hy, hf⟩
  | emit n => exact ⟨y, hy, hf⟩
  | handlerFanout =>
    simp only [step]
    split
    · exact ⟨y, hy, hf⟩
    · split
      · exact ⟨y, hy, hf⟩
      · rename_i n rest _
        exact ⟨y, by simp [mapAll, hy, hf.push n], hf⟩
  | stop =>
    simp only [step]
    split
    · exact ⟨y, hy, hf⟩
    · exact ⟨y, by simp [mapAll, hy, hf.cancel], hf⟩
  | forward i =>
    by_cases hi : id = i
    · subst hi; exact ⟨y, by simp [step, upd, hy, hf.forward], hf⟩
    · exact ⟨y, by simp [step, upd, hi, hy], hf⟩
  | consume i =>
    simp only [step]
    by_cases hi : id = i
    · subst hi
      simp only [hy]
      exact ⟨y.consume.1, by simp [setSub], hf.consume⟩
    · split
      · exact ⟨y, hy, hf⟩
      · exact ⟨y, by simp [setSub, hi, hy], hf⟩
  | cancel i =>
    simp only [step]
    split
    · exact ⟨y, hy, hf⟩
    · by_cases hi : id = i
      · subst hi; exact ⟨y, by simp [upd, hy, hf.cancel], hf⟩
      · exact ⟨y, by simp [upd, hi, hy], hf⟩

theorem frozen_run (s : State) (evs : List Ev) (id : Nat) (x y : Sub)
    (hy : s.subs id = some y) (hf : Frozen x y) :
    ∃ y', (run s evs).subs id = some y' ∧ Frozen x y' := by
  induction evs generalizing s y with
  | nil => exact ⟨y, hy, hf⟩
  | cons e es ih =>
    obtain ⟨y1, h1, f1⟩ := frozen_step s e id x y hy hf
    exact ih _ y1 h1 f1

end Neutrino.Subs
