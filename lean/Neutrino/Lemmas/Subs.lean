/-
Invariant of the SubscriptionManager model (Model/Subs.lean), preserved by every
event, and the one-step facts behind the C11 theorems.  Core Lean only.
-/
import Neutrino.Model.Subs
namespace Neutrino.Subs

/-- What holds of every registered subscriber in every reachable state. -/
structure SubInv (fanned : List Ntfn) (stopped : Bool) (x : Sub) : Prop where
  conserve      : x.delivered ++ x.chan ++ x.queue = x.backlog ++ x.since
  capOk         : x.chan.length ≤ chanCap
  liveClosed    : x.live = !x.closed
  regLe         : x.regAt ≤ fanned.length
  sincePre      : x.since <+: fanned.drop x.regAt
  sinceLive     : x.live = true → x.since = fanned.drop x.regAt
  stoppedClosed : stopped = true → x.closed = true
  sawClosedOk   : x.sawClosed = true → x.closed = true ∧ x.chan = []

def Inv (s : State) : Prop := ∀ id x, s.subs id = some x → SubInv s.fanned s.stopped x

theorem inv_init : Inv init := by
  intro id x h
  simp [init] at h

/-! ### per-subscriber transitions preserve the invariant -/

theorem SubInv.fresh (fanned : List Ntfn) (h : Nat) (bl : List Ntfn) :
    SubInv fanned false { height := h, regAt := fanned.length, backlog := bl, queue := bl } where
  conserve := by simp
  capOk := by simp
  liveClosed := rfl
  regLe := Nat.le_refl _
  sincePre := by simp
  sinceLive := by simp
  stoppedClosed := by simp
  sawClosedOk := by simp

theorem SubInv.forward {f : List Ntfn} {st : Bool} {x : Sub} (h : SubInv f st x) :
    SubInv f st x.forward := by
  unfold Sub.forward
  split
  · exact h
  · rename_i hc
    split
    · exact h
    · rename_i n q hq
      split
      · rename_i hl
        have hcons := h.conserve
        rw [hq] at hcons
        exact { conserve := by simpa using hcons
                capOk := by simp only [List.length_append, List.length_cons, List.length_nil]; omega
                liveClosed := h.liveClosed
                regLe := h.regLe
                sincePre := h.sincePre
                sinceLive := h.sinceLive
                stoppedClosed := h.stoppedClosed
                sawClosedOk := fun hs => absurd (h.sawClosedOk hs).1 hc }
      · exact h

theorem SubInv.consume {f : List Ntfn} {st : Bool} {x : Sub} (h : SubInv f st x) :
    SubInv f st x.consume.1 := by
  unfold Sub.consume
  split
  · rename_i n c hq
    have hcons := h.conserve
    have hcap := h.capOk
    rw [hq] at hcons hcap
    exact { conserve := by simpa using hcons
            capOk := by simp only [List.length_cons] at hcap; show c.length ≤ chanCap; omega
            liveClosed := h.liveClosed
            regLe := h.regLe
            sincePre := h.sincePre
            sinceLive := h.sinceLive
            stoppedClosed := h.stoppedClosed
            sawClosedOk := fun hs => by have := (h.sawClosedOk hs).2; rw [hq] at this; cases this }
  · rename_i hq
    split
    · rename_i hc
      exact { conserve := h.conserve, capOk := h.capOk, liveClosed := h.liveClosed, regLe := h.regLe,
              sincePre := h.sincePre, sinceLive := h.sinceLive, stoppedClosed := h.stoppedClosed,
              sawClosedOk := fun _ => ⟨hc, hq⟩ }
    · exact h

theorem SubInv.cancel {f : List Ntfn} {st : Bool} (b : Bool) {x : Sub} (h : SubInv f st x) :
    SubInv f b x.cancel := by
  unfold Sub.cancel
  split
  · exact { conserve := h.conserve, capOk := h.capOk, liveClosed := rfl, regLe := h.regLe,
            sincePre := h.sincePre, sinceLive := fun hh => Bool.noConfusion hh, stoppedClosed := fun _ => rfl,
            sawClosedOk := fun hs => ⟨rfl, (h.sawClosedOk hs).2⟩ }
  · rename_i hl
    have hcl : x.closed = true := by
      have := h.liveClosed
      cases hx : x.closed <;> simp_all
    exact { conserve := h.conserve, capOk := h.capOk, liveClosed := h.liveClosed, regLe := h.regLe,
            sincePre := h.sincePre, sinceLive := h.sinceLive, stoppedClosed := fun _ => hcl,
            sawClosedOk := h.sawClosedOk }

theorem SubInv.push {f : List Ntfn} {x : Sub} (n : Ntfn) (h : SubInv f false x) :
    SubInv (f ++ [n]) false (x.push n) := by
  unfold Sub.push
  have hdrop : (f ++ [n]).drop x.regAt = f.drop x.regAt ++ [n] :=
    List.drop_append_of_le_length h.regLe
  have hle : x.regAt ≤ (f ++ [n]).length := by
    simp only [List.length_append, List.length_cons, List.length_nil]; have := h.regLe; omega
  split
  · rename_i hl
    have hs := h.sinceLive hl
    exact { conserve := by
              have := h.conserve
              show x.delivered ++ x.chan ++ (x.queue ++ [n]) = x.backlog ++ (x.since ++ [n])
              rw [← List.append_assoc, this, List.append_assoc]
            capOk := h.capOk
            liveClosed := h.liveClosed
            regLe := hle
            sincePre := by
              show x.since ++ [n] <+: _
              rw [hdrop, hs]; exact List.prefix_refl _
            sinceLive := fun _ => by
              show x.since ++ [n] = _
              rw [hdrop, hs]
            stoppedClosed := by simp
            sawClosedOk := h.sawClosedOk }
  · rename_i hl
    exact { conserve := h.conserve, capOk := h.capOk, liveClosed := h.liveClosed, regLe := hle,
            sincePre := by rw [hdrop]; exact List.IsPrefix.trans h.sincePre (List.prefix_append _ _)
            sinceLive := fun hh => absurd hh hl
            stoppedClosed := by simp
            sawClosedOk := h.sawClosedOk }

/-! ### the machine preserves the invariant -/

theorem inv_step (s : State) (e : Ev) (h : Inv s) : Inv (step s e).1 := by
  cases e with
  | subscribe id ht bl =>
    simp only [step]
    split
    · exact h
    · rename_i hs
      have hs' : s.stopped = false := by simpa using hs
      split
      · exact h
      · intro i y hy
        simp only [setSub] at hy
        by_cases hi : i = id
        · simp only [hi, ↓reduceIte, Option.some.injEq] at hy
          subst hy
          show SubInv s.fanned s.stopped _
          rw [hs']
          exact SubInv.fresh _ _ _
        · simp only [hi, ↓reduceIte] at hy
          exact h i y hy
  | subscribeFail id ht =>
    simp only [step]
    split
    · exact h
    · split <;> exact h
  | emit n => exact h
  | handlerFanout =>
    simp only [step]
    split
    · exact h
    · rename_i hs
      have hs' : s.stopped = false := by simpa using hs
      split
      · exact h
      · rename_i n rest hsrc
        intro i y hy
        simp only [mapAll] at hy
        cases hx : s.subs i with
        | none => simp [hx] at hy
        | some x =>
          simp only [hx, Option.map_some, Option.some.injEq] at hy
          subst hy
          have := h i x hx
          rw [hs'] at this
          show SubInv (s.fanned ++ [n]) s.stopped _
          rw [hs']
          exact this.push n
  | forward id =>
    intro i y hy
    simp only [step, upd] at hy
    by_cases hi : i = id
    · simp only [hi, ↓reduceIte] at hy
      cases hx : s.subs id with
      | none => simp [hx] at hy
      | some x =>
        simp only [hx, Option.map_some, Option.some.injEq] at hy
        subst hy
        exact (h id x hx).forward
    · simp only [hi, ↓reduceIte] at hy
      exact h i y hy
  | consume id =>
    simp only [step]
    split
    · exact h
    · rename_i x hx
      intro i y hy
      simp only [setSub] at hy
      by_cases hi : i = id
      · simp only [hi, ↓reduceIte, Option.some.injEq] at hy
        subst hy
        exact (h id x hx).consume
      · simp only [hi, ↓reduceIte] at hy
        exact h i y hy
  | cancel id =>
    simp only [step]
    split
    · exact h
    · intro i y hy
      simp only [upd] at hy
      by_cases hi : i = id
      · simp only [hi, ↓reduceIte] at hy
        cases hx : s.subs id with
        | none => simp [hx] at hy
        | some x =>
          simp only [hx, Option.map_some, Option.some.injEq] at hy
          subst hy
          exact (h id x hx).cancel _
      · simp only [hi, ↓reduceIte] at hy
        exact h i y hy
  | stop =>
    simp only [step]
    split
    · exact h
    · intro i y hy
      simp only [mapAll] at hy
      cases hx : s.subs i with
      | none => simp [hx] at hy
      | some x =>
        simp only [hx, Option.map_some, Option.some.injEq] at hy
        subst hy
        exact (h i x hx).cancel _

theorem inv_run (s : State) (evs : List Ev) (h : Inv s) : Inv (run s evs) := by
  induction evs generalizing s with
  | nil => exact h
  | cons e es ih => exact ih _ (inv_step s e h)

theorem run_append (s : State) (a b : List Ev) : run s (a ++ b) = run (run s a) b := by
  induction a generalizing s with
  | nil => rfl
  | cons e es ih => simp only [List.cons_append, run]; exact ih _

end Neutrino.Subs
