import Neutrino.Spec.Lru
namespace Neutrino.Lru

theorem sub64_of_le {a b : Nat} (_h : b ≤ a) (_ha : a < two64) : sub64 a b = a - b := rfl

theorem add64_of_lt {a b : Nat} (_h : a + b < two64) : add64 a b = a + b := rfl

@[simp] theorem total_nil : total [] = 0 := rfl
@[simp] theorem total_cons (e : Entry) (l : List Entry) : total (e :: l) = e.size + total l := by
  simp [total]
@[simp] theorem total_append (a b : List Entry) : total (a ++ b) = total a + total b := by
  simp [total]

theorem total_erase {l : List Entry} {e : Entry} (h : e ∈ l) : total (l.erase e) + e.size = total l := by
  induction l with
  | nil => cases h
  | cons x xs ih =>
    by_cases hx : x = e
    · subst hx; simp; omega
    · have : e ∈ xs := by
        cases h with
        | head => exact absurd rfl hx
        | tail _ h => exact h
      have hbeq : (x == e) = false := by simpa using hx
      simp [List.erase_cons, hbeq]
      have := ih this
      omega

/-- The coherence invariant of the cache's three data structures. -/
structure LInv (cap : Nat) (ll : List Entry) (size : Nat) (idx : List (Nat × Entry)) : Prop where
  capLt   : cap < two64
  sizeEq  : size = total ll
  sizeLe  : size ≤ cap
  idxIff  : ∀ k e, (k, e) ∈ idx ↔ (e ∈ ll ∧ e.key = k)
  nodupLL : (ll.map (·.key)).Nodup
  nodupIx : (idx.map (·.1)).Nodup

structure Inv (s : State) : Prop where
  linv : LInv s.cap s.ll s.size s.idx
  unlocked : s.locked = false

theorem inv_init (cap : Nat) (h : cap < two64) : Inv { cap := cap } :=
  ⟨⟨h, rfl, Nat.zero_le _, by simp, by simp, by simp⟩, rfl⟩

theorem idxLoad_some {idx : List (Nat × Entry)} {k : Nat} {e : Entry}
    (h : idxLoad idx k = some e) : (k, e) ∈ idx := by
  unfold idxLoad at h
  cases hf : idx.find? (·.1 == k) with
  | none => simp [hf] at h
  | some p =>
    simp [hf] at h
    have h1 := List.find?_some hf
    have h2 := List.mem_of_find?_eq_some hf
    simp at h1
    cases p with
    | mk a b => simp at h h1; subst h; subst h1; exact h2

theorem idxLoad_none {idx : List (Nat × Entry)} {k : Nat}
    (h : idxLoad idx k = none) : ∀ e, (k, e) ∉ idx := by
  unfold idxLoad at h
  intro e he
  cases hf : idx.find? (·.1 == k) with
  | some p => simp [hf] at h
  | none =>
    have := List.find?_eq_none.mp hf (k, e) he
    simp at this

theorem mem_idxDelete {idx : List (Nat × Entry)} {k k' : Nat} {e : Entry} :
    (k', e) ∈ idxDelete idx k ↔ ((k', e) ∈ idx ∧ k' ≠ k) := by
  simp [idxDelete]

theorem nodup_idxDelete {idx : List (Nat × Entry)} (k : Nat) (h : (idx.map (·.1)).Nodup) :
    ((idxDelete idx k).map (·.1)).Nodup := by
  unfold idxDelete
  induction idx with
  | nil => simp
  | cons p ps ih =>
    simp only [List.map_cons, List.nodup_cons] at h
    by_cases hp : p.1 == k
    · simp [List.filter_cons, hp]; exact ih h.2
    · simp only [List.filter_cons, hp, Bool.not_false, ↓reduceIte, List.map_cons, List.nodup_cons]
      refine ⟨?_, ih h.2⟩
      intro hm
      apply h.1
      simp only [List.mem_map] at hm ⊢
      obtain ⟨q, hq, hqe⟩ := hm
      exact ⟨q, (List.mem_filter.mp hq).1, hqe⟩

theorem key_notin_idxDelete (idx : List (Nat × Entry)) (k : Nat) :
    k ∉ (idxDelete idx k).map (·.1) := by
  simp [idxDelete]


theorem nodup_of_nodup_map {α β : Type} (f : α → β) {l : List α} (h : (l.map f).Nodup) : l.Nodup := by
  induction l with
  | nil => exact List.nodup_nil
  | cons x xs ih =>
    simp only [List.map_cons, List.nodup_cons] at h ⊢
    exact ⟨fun hm => h.1 (List.mem_map_of_mem hm), ih h.2⟩

theorem nodup_fst_unique {idx : List (Nat × Entry)} (h : (idx.map (·.1)).Nodup) {k : Nat} {a b : Entry}
    (ha : (k, a) ∈ idx) (hb : (k, b) ∈ idx) : a = b := by
  induction idx with
  | nil => cases ha
  | cons p ps ih =>
    simp only [List.map_cons, List.nodup_cons, List.mem_map] at h
    cases ha with
    | head => cases hb with
      | head => rfl
      | tail _ hb => exact absurd ⟨(k, b), hb, rfl⟩ h.1
    | tail _ ha => cases hb with
      | head => exact absurd ⟨(k, a), ha, rfl⟩ h.1
      | tail _ hb => exact ih h.2 ha hb

theorem nodup_erase_keys {ll : List Entry} (e : Entry) (h : (ll.map (·.key)).Nodup) :
    ((ll.erase e).map (·.key)).Nodup := by
  have hs : (ll.erase e).Sublist ll := List.erase_sublist
  exact (hs.map _).nodup h

/-- removing the element the index holds for `k`, and the index entry -/
theorem linv_remove {cap ll size idx} {k : Nat} {el : Entry} (h : LInv cap ll size idx)
    (hel : (k, el) ∈ idx) :
    LInv cap (ll.erase el) (sub64 size el.size) (idxDelete idx k) ∧ k ∉ (ll.erase el).map (·.key) := by
  have ⟨hmem, hkey⟩ := (h.idxIff k el).mp hel
  have htot := total_erase hmem
  have hsz : sub64 size el.size = size - el.size := by
    apply sub64_of_le
    · rw [h.sizeEq]; omega
    · have := h.sizeLe; have := h.capLt; omega
  have hnd := h.nodupLL
  -- el is the only entry with key k
  have uniq : ∀ e' ∈ ll, e'.key = k → e' = el := by
    intro e' he' hk'
    have h1 := (h.idxIff k e').mpr ⟨he', hk'⟩
    exact nodup_fst_unique h.nodupIx h1 hel
  have hnotin : k ∉ (ll.erase el).map (·.key) := by
    intro hm
    simp only [List.mem_map] at hm
    obtain ⟨e', he', hk'⟩ := hm
    have he'll : e' ∈ ll := List.mem_of_mem_erase he'
    have := uniq e' he'll hk'
    subst this
    -- e' ∈ ll.erase e' contradicts nodup of keys
    have : ¬ e' ∈ ll.erase e' := by
      have hnd' : ll.Nodup := nodup_of_nodup_map _ hnd
      exact fun hc => (List.Nodup.mem_erase_iff hnd').mp hc |>.1 rfl
    exact this he'
  refine ⟨⟨h.capLt, ?_, ?_, ?_, nodup_erase_keys el hnd, nodup_idxDelete k h.nodupIx⟩, hnotin⟩
  · rw [hsz, h.sizeEq]; omega
  · rw [hsz]; have := h.sizeLe; omega
  · intro k' e'
    rw [mem_idxDelete, h.idxIff]
    constructor
    · rintro ⟨⟨hm, hk⟩, hne⟩
      refine ⟨?_, hk⟩
      have : e' ≠ el := by intro heq; subst heq; exact hne (hk.symm.trans hkey)
      exact (List.mem_erase_of_ne this).mpr hm
    · rintro ⟨hm, hk⟩
      refine ⟨⟨List.mem_of_mem_erase hm, hk⟩, ?_⟩
      intro heq
      apply hnotin
      simp only [List.mem_map]
      exact ⟨e', hm, hk.trans heq⟩


theorem evict_inv (cap : Nat) (bad : List Nat) (needed : Nat) :
    ∀ (ll : List Entry) (size : Nat) (idx : List (Nat × Entry)) (ev : Bool),
      LInv cap ll size idx →
      let r := evictLoop cap bad needed ll size idx ev
      LInv cap r.1 r.2.1 r.2.2.1 ∧ (r.2.2.2.2 = true → needed ≤ cap - r.2.1) ∧
        (∃ n, r.1 = ll.drop n) := by
  intro ll
  induction ll with
  | nil =>
    intro size idx ev h
    simp only [evictLoop]
    refine ⟨h, ?_, ⟨0, rfl⟩⟩
    intro hok
    have hs := sub64_of_le h.sizeLe h.capLt
    simp at hok
    omega
  | cons b rest ih =>
    intro size idx ev h
    simp only [evictLoop]
    by_cases hlt : sub64 cap size < needed
    · simp only [hlt, ↓reduceIte]
      cases hsz : sizeOf? bad b with
      | none => exact ⟨h, by simp, ⟨0, rfl⟩⟩
      | some es =>
        have hes : es = b.size := by
          unfold sizeOf? at hsz
          by_cases hb : b.vid ∈ bad <;> simp [hb] at hsz
          exact hsz.symm
        subst hes
        have hmem : (b.key, b) ∈ idx := (h.idxIff b.key b).mpr ⟨List.mem_cons_self, rfl⟩
        have hrm := (linv_remove h hmem).1
        simp only [List.erase_cons_head] at hrm
        have := ih (sub64 size b.size) (idxDelete idx b.key) true hrm
        refine ⟨this.1, this.2.1, ?_⟩
        obtain ⟨n, hn⟩ := this.2.2
        exact ⟨n + 1, by simpa using hn⟩
    · simp only [hlt, ↓reduceIte]
      refine ⟨h, ?_, ⟨0, rfl⟩⟩
      intro _
      have hs := sub64_of_le h.sizeLe h.capLt
      omega

/-- inserting a fresh key at the most-recent end -/
theorem linv_push {cap ll size idx} {e : Entry} (h : LInv cap ll size idx)
    (hk : e.key ∉ ll.map (·.key)) (hfit : e.size ≤ cap - size) :
    LInv cap (ll ++ [e]) (add64 size e.size) (idxStore idx e.key e) := by
  have hsz : add64 size e.size = size + e.size := by
    apply add64_of_lt; have := h.sizeLe; have := h.capLt; omega
  have hkidx : ∀ e', (e.key, e') ∉ idx := by
    intro e' hm
    have := (h.idxIff e.key e').mp hm
    exact hk (List.mem_map.mpr ⟨e', this.1, this.2⟩)
  have hdel : idxDelete idx e.key = idx := by
    unfold idxDelete
    apply List.filter_eq_self.mpr
    intro p hp
    cases p with
    | mk a b =>
      simp
      intro heq; subst heq
      exact hkidx b hp
  refine ⟨h.capLt, ?_, ?_, ?_, ?_, ?_⟩
  · rw [hsz, h.sizeEq]; simp
  · rw [hsz]; have := h.sizeLe; omega
  · intro k' e'
    simp only [idxStore, hdel, List.mem_cons, List.mem_append, List.not_mem_nil, or_false, Prod.mk.injEq]
    rw [h.idxIff]
    constructor
    · rintro (⟨rfl, rfl⟩ | ⟨hm, hk'⟩)
      · exact ⟨Or.inr rfl, rfl⟩
      · exact ⟨Or.inl hm, hk'⟩
    · rintro ⟨hm | rfl, hk'⟩
      · exact Or.inr ⟨hm, hk'⟩
      · exact Or.inl ⟨hk'.symm, rfl⟩
  · rw [List.map_append, List.nodup_append]
    refine ⟨h.nodupLL, by simp, ?_⟩
    intro a ha b hb
    simp at hb
    subst hb
    intro heq; subst heq
    exact hk ha
  · simp only [idxStore, hdel, List.map_cons, List.nodup_cons]
    refine ⟨?_, h.nodupIx⟩
    intro hm
    obtain ⟨p, hp, hpe⟩ := List.mem_map.mp hm
    cases p with
    | mk a b => simp at hpe; subst hpe; exact hkidx b hp


theorem sizeOf?_some {bad : List Nat} {e : Entry} {es : Nat} (h : sizeOf? bad e = some es) :
    es = e.size ∧ e.vid ∉ bad := by
  unfold sizeOf? at h
  by_cases hb : e.vid ∈ bad <;> simp [hb] at h
  exact ⟨h.symm, hb⟩

theorem notin_drop_keys {ll : List Entry} {k : Nat} (h : k ∉ ll.map (·.key)) (n : Nat) :
    k ∉ (ll.drop n).map (·.key) := by
  intro hm
  apply h
  obtain ⟨e, he, hk⟩ := List.mem_map.mp hm
  exact List.mem_map.mpr ⟨e, List.mem_of_mem_drop he, hk⟩

/-- The tail of `Put` after the old entry (if any) is gone: evict, then insert. -/
theorem linv_evict_push {cap : Nat} {bad : List Nat} {ll size idx} (k vid sz : Nat)
    (h : LInv cap ll size idx) (hk : k ∉ ll.map (·.key)) :
    let r := evictLoop cap bad sz ll size idx false
    (r.2.2.2.2 = true →
      LInv cap (r.1 ++ [⟨k, vid, sz⟩]) (add64 r.2.1 sz) (idxStore r.2.2.1 k ⟨k, vid, sz⟩)) ∧
    LInv cap r.1 r.2.1 r.2.2.1 := by
  intro r
  have hev := evict_inv cap bad sz ll size idx false h
  refine ⟨?_, hev.1⟩
  intro hok
  obtain ⟨n, hn⟩ := hev.2.2
  have hk' : k ∉ r.1.map (·.key) := by
    show k ∉ (evictLoop cap bad sz ll size idx false).1.map (·.key)
    rw [hn]; exact notin_drop_keys hk n
  exact linv_push (e := ⟨k, vid, sz⟩) hev.1 hk' (hev.2.1 hok)

theorem inv_step_put (s : State) (k vid sz : Nat) (h : Inv s) : Inv (step s (.put k vid sz)).1 := by
  have hl := h.linv
  have hu := h.unlocked
  simp only [step, hu, Bool.false_eq_true, ↓reduceIte]
  by_cases hb : vid ∈ s.bad
  · simp only [hb, ↓reduceIte]; exact h
  simp only [hb, ↓reduceIte]
  by_cases hc : sz > s.cap
  · simp only [hc, ↓reduceIte]; exact h
  simp only [hc, ↓reduceIte]
  cases hload : idxLoad s.idx k with
  | some el =>
    simp only
    cases hsz : sizeOf? s.bad el with
    | none => exact h
    | some es =>
      have hes := (sizeOf?_some hsz).1
      subst hes
      have hrm := linv_remove hl (idxLoad_some hload)
      have := linv_evict_push (bad := s.bad) k vid sz hrm.1 hrm.2
      simp only
      generalize evictLoop s.cap s.bad sz (s.ll.erase el) (sub64 s.size el.size) (idxDelete s.idx k) false = r at this ⊢
      obtain ⟨a, b, c, d, e⟩ := r
      simp only at this ⊢
      cases e with
      | true => simp only [↓reduceIte]; exact ⟨this.1 rfl, by first | rfl | exact hu⟩
      | false => simp only [Bool.false_eq_true, ↓reduceIte]; exact ⟨this.2, by first | rfl | exact hu⟩
  | none =>
    have hk : k ∉ s.ll.map (·.key) := by
      intro hm
      obtain ⟨e, he, hke⟩ := List.mem_map.mp hm
      exact idxLoad_none hload e ((hl.idxIff k e).mpr ⟨he, hke⟩)
    have := linv_evict_push (bad := s.bad) k vid sz hl hk
    simp only
    generalize evictLoop s.cap s.bad sz s.ll s.size s.idx false = r at this ⊢
    obtain ⟨a, b, c, d, e⟩ := r
    simp only at this ⊢
    cases e with
    | true => simp only [↓reduceIte]; exact ⟨this.1 rfl, by first | rfl | exact hu⟩
    | false => simp only [Bool.false_eq_true, ↓reduceIte]; exact ⟨this.2, by first | rfl | exact hu⟩

theorem inv_step_get (s : State) (k : Nat) (h : Inv s) : Inv (step s (.get k)).1 := by
  have hl := h.linv
  have hu := h.unlocked
  simp only [step, hu, Bool.false_eq_true, ↓reduceIte]
  cases hload : idxLoad s.idx k with
  | none => exact h
  | some el =>
    simp only
    have hmem := idxLoad_some hload
    have ⟨hm, hkey⟩ := (hl.idxIff k el).mp hmem
    have hnd : s.ll.Nodup := nodup_of_nodup_map _ hl.nodupLL
    have hperm : (s.ll.erase el ++ [el]).Perm s.ll := by
      have h1 : (el :: s.ll.erase el).Perm s.ll := (List.perm_cons_erase hm).symm
      exact (List.perm_append_comm).trans h1
    refine ⟨⟨hl.capLt, ?_, hl.sizeLe, ?_, ?_, hl.nodupIx⟩, by first | rfl | exact hu⟩
    · simp only [total_append, total_cons, total_nil]
      have := total_erase hm; rw [hl.sizeEq]; omega
    · intro k' e'
      rw [hl.idxIff, hperm.mem_iff]
    · exact (hperm.map _).nodup_iff.mpr hl.nodupLL

theorem inv_step_del (s : State) (k : Nat) (h : Inv s) : Inv (step s (.del k)).1 := by
  have hl := h.linv
  have hu := h.unlocked
  simp only [step, hu, Bool.false_eq_true, ↓reduceIte]
  cases hload : idxLoad s.idx k with
  | none => exact h
  | some el =>
    simp only
    cases hsz : sizeOf? s.bad el with
    | none => exact h
    | some es =>
      have hes := (sizeOf?_some hsz).1
      subst hes
      simp only
      exact ⟨(linv_remove hl (idxLoad_some hload)).1, by simp⟩

theorem inv_step (s : State) (op : Op) (h : Inv s) : Inv (step s op).1 := by
  cases op with
  | poison v => exact ⟨by simpa [step] using h.linv, by simpa [step] using h.unlocked⟩
  | heal v => exact ⟨by simpa [step] using h.linv, by simpa [step] using h.unlocked⟩
  | put k vid sz => exact inv_step_put s k vid sz h
  | get k => exact inv_step_get s k h
  | del k => exact inv_step_del s k h

theorem inv_run (s : State) (ops : List Op) (h : Inv s) : Inv (run s ops) := by
  induction ops generalizing s with
  | nil => exact h
  | cons o os ih => exact ih _ (inv_step s o h)




theorem step_cap (s : State) (op : Op) : (step s op).1.cap = s.cap := by
  cases op with
  | poison v => rfl
  | heal v => rfl
  | get k =>
    simp only [step]
    by_cases hu : s.locked
    · simp only [hu, ↓reduceIte]
    simp only [hu, Bool.false_eq_true, ↓reduceIte]
    cases idxLoad s.idx k <;> simp only
  | del k =>
    simp only [step]
    by_cases hu : s.locked
    · simp only [hu, ↓reduceIte]
    simp only [hu, Bool.false_eq_true, ↓reduceIte]
    cases idxLoad s.idx k with
    | none => simp only
    | some el => simp only; cases sizeOf? s.bad el <;> simp only
  | put k vid sz =>
    simp only [step]
    by_cases hu : s.locked
    · simp only [hu, ↓reduceIte]
    simp only [hu, Bool.false_eq_true, ↓reduceIte]
    by_cases hb : vid ∈ s.bad
    · simp only [hb, ↓reduceIte]
    simp only [hb, ↓reduceIte]
    by_cases hc : sz > s.cap
    · simp only [hc, ↓reduceIte]
    simp only [hc, ↓reduceIte]
    cases idxLoad s.idx k with
    | none =>
      simp only
      generalize evictLoop s.cap s.bad sz s.ll s.size s.idx false = r
      obtain ⟨a, b, c, d, e⟩ := r
      cases e
      · simp only [Bool.false_eq_true, ↓reduceIte]
      · simp only [↓reduceIte]
    | some el =>
      simp only
      cases sizeOf? s.bad el with
      | none => simp only
      | some es =>
        simp only
        generalize evictLoop s.cap s.bad sz (s.ll.erase el) (sub64 s.size es) (idxDelete s.idx k) false = r
        obtain ⟨a, b, c, d, e⟩ := r
        cases e
        · simp only [Bool.false_eq_true, ↓reduceIte]
        · simp only [↓reduceIte]

theorem run_cap (s : State) (ops : List Op) : (run s ops).cap = s.cap := by
  induction ops generalizing s with
  | nil => rfl
  | cons o os ih => simp only [run]; rw [ih, step_cap]

end Neutrino.Lru
