import Neutrino.Lemmas.StoreCrash
namespace Neutrino.Store

def postOf (l : Log) (target : Nat) : Log :=
  { blocks := l.blocks.take (target + 1), filters := l.filters.take (target + 1) }

/-- `lx` is a state the rollback of `l` down to `post` passes through -/
def Between (l post lx : Log) : Prop :=
  lx.blocks <+: l.blocks ∧ post.blocks <+: lx.blocks ∧ lx.filters <+: l.filters ∧ post.filters <+: lx.filters

theorem between_refl_left (l post : Log) (h1 : post.blocks <+: l.blocks) (h2 : post.filters <+: l.filters) :
    Between l post l := ⟨List.prefix_refl _, h1, List.prefix_refl _, h2⟩

theorem take_prefix_take {α} (l : List α) {a b : Nat} (h : a ≤ b) : l.take a <+: l.take b := by
  rw [List.prefix_iff_eq_take]
  simp [List.take_take, Nat.min_eq_left h]
  omega

def RollOutcome (l post : Log) (inj : Inj) : R Out → Prop
  | .crashed d' => (∃ k t, inj = Inj.crash k t) ∧ ∃ lx xb xf, Ahead d' lx xb xf ∧ Between l post lx
  | .ok o c' => o = .ok ∧ Rep c'.d post ∧ c'.inj = inj

theorem rollTo_outcome (target : Nat) :
    ∀ (fuel : Nat) (c : Ctx) (l : Log), Rep c.d l → NoFault c.inj → l.blocks.length ≤ fuel + target + 1 →
      RollOutcome l (postOf l target) c.inj
        (rollTo target fuel c (l.blocks.length - 1) (l.filters.length - 1)) := by
  intro fuel
  induction fuel with
  | zero =>
    intro c l hrep hnf hfuel
    -- nothing to roll back: the log is already at or below the target
    have hb : l.blocks.take (target + 1) = l.blocks := List.take_of_length_le (by omega)
    have hf : l.filters.take (target + 1) = l.filters := List.take_of_length_le (by have := hrep.fle; omega)
    simp only [rollTo, RollOutcome, postOf, hb, hf, true_and]
    exact ⟨hrep, trivial⟩
  | succ fuel ih =>
    intro c l hrep hnf hfuel
    have hlenB := len_pred_succ hrep.neB
    have hlenF := len_pred_succ hrep.neF
    simp only [rollTo]
    by_cases hdone : l.blocks.length - 1 ≤ target
    · have hb : l.blocks.take (target + 1) = l.blocks := List.take_of_length_le (by omega)
      have hf : l.filters.take (target + 1) = l.filters := List.take_of_length_le (by have := hrep.fle; omega)
      simp only [hdone, ↓reduceIte, RollOutcome, postOf, hb, hf, true_and]
      exact ⟨hrep, trivial⟩
    · simp only [hdone, ↓reduceIte]
      have hlen2 : 2 ≤ l.blocks.length := by omega
      obtain ⟨tip, htip⟩ : ∃ tip, l.blocks[l.blocks.length - 1]? = some tip :=
        ⟨_, List.getElem?_eq_getElem (by omega)⟩
      obtain ⟨nt, hnt⟩ : ∃ nt, l.blocks[l.blocks.length - 2]? = some nt :=
        ⟨_, List.getElem?_eq_getElem (by omega)⟩
      have hg1 : c.d.bf.get? (l.blocks.length - 1) = some tip := by
        simp [FileSt.get?, hrep.bents, htip]
      have hg2 : prevOf c.d (l.blocks.length - 1) = some nt := by
        have : ¬ (l.blocks.length - 1 = 0) := by omega
        have e : l.blocks.length - 1 - 1 = l.blocks.length - 2 := by omega
        simp [prevOf, this, FileSt.get?, hrep.bents, e, hnt]
      simp only [hg1, hg2]
      -- the post state of the whole loop, seen from the intermediate logs
      have hpostB : (postOf l target).blocks <+: l.blocks.take (l.blocks.length - 1) := by
        simp only [postOf]; exact take_prefix_take _ (by omega)
      by_cases hreg : l.blocks.length - 1 ≤ l.filters.length - 1
      · -- the filter store is as high as the block store: roll it back first
        have hfl : l.filters.length = l.blocks.length := by have := hrep.fle; omega
        obtain ⟨fh, hfh⟩ : ∃ fh, l.filters[l.filters.length - 2]? = some fh :=
          ⟨_, List.getElem?_eq_getElem (by omega)⟩
        have hntF : l.blocks[l.filters.length - 2]? = some nt := by rw [hfl]; exact hnt
        have hF := rollbackFilter_outcome c l nt fh hrep hnf (by omega) hntF hfh
        simp only [hreg, ↓reduceIte]
        have hpostF : (postOf l target).filters <+: l.filters.take (l.filters.length - 1) := by
          simp only [postOf]; exact take_prefix_take _ (by omega)
        cases hr : rollbackFilter nt c with
        | crashed d' =>
          rw [hr] at hF
          simp only [R.bind, RollOutcome]
          obtain ⟨hk, xb, xf, hA⟩ := hF
          cases hA with
          | inl hA =>
            exact ⟨hk, l, xb, xf, hA, between_refl_left _ _ (List.take_prefix _ _) (List.take_prefix _ _)⟩
          | inr hA =>
            exact ⟨hk, _, xb, xf, hA, List.prefix_refl _, List.take_prefix _ _, List.take_prefix _ _, hpostF⟩
        | ok o c1 =>
          rw [hr] at hF
          obtain ⟨ho, hrep1, hinj1⟩ := hF
          subst ho
          simp only [R.bind]
          -- now the block store
          let l1 : Log := { l with filters := l.filters.take (l.filters.length - 1) }
          have hB := rollbackBlocks_outcome c1 l1 1 nt hrep1 (hinj1 ▸ hnf) (by omega) (by simp [l1]; omega)
            (by simp [l1]; omega) (by simp only [l1]; have : l.blocks.length - 1 - 1 = l.blocks.length - 2 := by omega
                                      rw [this]; exact hnt)
          cases hr2 : rollbackBlocks 1 c1 with
          | crashed d' =>
            rw [hr2] at hB
            simp only [RollOutcome]
            obtain ⟨hk, xb, xf, hA⟩ := hB
            rw [hinj1] at hk
            cases hA with
            | inl hA =>
              exact ⟨hk, l1, xb, xf, hA, List.prefix_refl _, List.take_prefix _ _, List.take_prefix _ _, hpostF⟩
            | inr hA =>
              exact ⟨hk, _, xb, xf, hA, List.take_prefix _ _, hpostB, List.take_prefix _ _, hpostF⟩
          | ok o2 c2 =>
            rw [hr2] at hB
            obtain ⟨ho2, hrep2, hinj2⟩ := hB
            subst ho2
            simp only
            let l2 : Log := { blocks := l.blocks.take (l.blocks.length - 1), filters := l.filters.take (l.filters.length - 1) }
            have hrep2' : Rep c2.d l2 := hrep2
            have e1 : l1.blocks.length - 1 - 1 = l2.blocks.length - 1 := by simp [l1, l2]
            have e2 : l.filters.length - 2 = l2.filters.length - 1 := by simp [l2]; omega
            have := ih c2 l2 hrep2' (by rw [hinj2, hinj1]; exact hnf) (by simp [l2]; omega)
            rw [e1, e2]
            have hpost : postOf l2 target = postOf l target := by
              simp only [postOf, l2, List.take_take]
              have a : min (target + 1) (l.blocks.length - 1) = target + 1 := by omega
              have b : min (target + 1) (l.filters.length - 1) = target + 1 := by omega
              rw [a, b]
            rw [hpost, hinj2, hinj1] at this
            -- lift the outcome from l2 to l
            cases hres : rollTo target fuel c2 (l2.blocks.length - 1) (l2.filters.length - 1) with
            | crashed d' =>
              rw [hres] at this
              obtain ⟨hk, lx, xb, xf, hA, hb1, hb2, hb3, hb4⟩ := this
              exact ⟨hk, lx, xb, xf, hA, hb1.trans (List.take_prefix _ _), hb2, hb3.trans (List.take_prefix _ _), hb4⟩
            | ok o3 c3 => rw [hres] at this; exact this
      · -- the filter store is already lower: only the block store moves
        simp only [hreg, ↓reduceIte, R.bind]
        have hB := rollbackBlocks_outcome c l 1 nt hrep hnf (by omega) (by omega) (by omega)
          (by have : l.blocks.length - 1 - 1 = l.blocks.length - 2 := by omega
              rw [this]; exact hnt)
        have hpostF : (postOf l target).filters <+: l.filters := by simp only [postOf]; exact List.take_prefix _ _
        cases hr2 : rollbackBlocks 1 c with
        | crashed d' =>
          rw [hr2] at hB
          simp only [RollOutcome]
          obtain ⟨hk, xb, xf, hA⟩ := hB
          cases hA with
          | inl hA =>
            exact ⟨hk, l, xb, xf, hA, between_refl_left _ _ (List.take_prefix _ _) hpostF⟩
          | inr hA =>
            exact ⟨hk, _, xb, xf, hA, List.take_prefix _ _, hpostB, List.prefix_refl _, hpostF⟩
        | ok o2 c2 =>
          rw [hr2] at hB
          obtain ⟨ho2, hrep2, hinj2⟩ := hB
          subst ho2
          simp only
          let l2 : Log := { l with blocks := l.blocks.take (l.blocks.length - 1) }
          have hrep2' : Rep c2.d l2 := hrep2
          have e1 : l.blocks.length - 1 - 1 = l2.blocks.length - 1 := by simp [l2]
          have := ih c2 l2 hrep2' (by rw [hinj2]; exact hnf) (by simp [l2]; omega)
          rw [e1]
          have hpost : postOf l2 target = postOf l target := by
            simp only [postOf, l2, List.take_take]
            have a : min (target + 1) (l.blocks.length - 1) = target + 1 := by omega
            rw [a]
          rw [hpost, hinj2] at this
          cases hres : rollTo target fuel c2 (l2.blocks.length - 1) (l.filters.length - 1) with
          | crashed d' =>
            have this' : RollOutcome l2 (postOf l target) c.inj (rollTo target fuel c2 (l2.blocks.length - 1) (l2.filters.length - 1)) := this
            rw [show l2.filters = l.filters from rfl] at this'
            rw [hres] at this'
            obtain ⟨hk, lx, xb, xf, hA, hb1, hb2, hb3, hb4⟩ := this'
            exact ⟨hk, lx, xb, xf, hA, hb1.trans (List.take_prefix _ _), hb2, hb3, hb4⟩
          | ok o3 c3 =>
            have this' : RollOutcome l2 (postOf l target) c.inj (rollTo target fuel c2 (l2.blocks.length - 1) (l2.filters.length - 1)) := this
            rw [show l2.filters = l.filters from rfl] at this'
            rw [hres] at this'; exact this'

end Neutrino.Store
