/- Lemmas for C04 (model: Neutrino/Model/Converge.lean).  Core Lean only. -/
import Neutrino.Model.Converge
namespace Neutrino.Net

/-! ## peer lists -/

theorem mem_remove {p q : Peer} {ps : List Peer} : p ∈ remove q ps ↔ p ∈ ps ∧ p ≠ q := by
  induction ps with
  | nil => simp only [remove, List.not_mem_nil, false_and]
  | cons a as ih =>
    simp only [remove]
    by_cases h : a = q
    · simp only [h, ↓reduceIte, ih, List.mem_cons]
      constructor
      · intro ⟨h1, h2⟩; exact ⟨Or.inr h1, h2⟩
      · intro ⟨h1, h2⟩
        cases h1 with
        | inl h1 => exact absurd h1 h2
        | inr h1 => exact ⟨h1, h2⟩
    · simp only [h, ↓reduceIte, List.mem_cons, ih]
      constructor
      · intro h1
        cases h1 with
        | inl h1 => exact ⟨Or.inl h1, by rw [h1]; exact h⟩
        | inr h1 => exact ⟨Or.inr h1.1, h1.2⟩
      · intro ⟨h1, h2⟩
        cases h1 with
        | inl h1 => exact Or.inl h1
        | inr h1 => exact Or.inr ⟨h1, h2⟩

theorem nonHonest_remove_le (q : Peer) (ps : List Peer) : nonHonest (remove q ps) ≤ nonHonest ps := by
  induction ps with
  | nil => exact Nat.le_refl _
  | cons a as ih =>
    simp only [remove]
    by_cases h : a = q
    · simp only [h, ↓reduceIte, nonHonest]; omega
    · simp only [h, ↓reduceIte, nonHonest]; omega

theorem nonHonest_remove_lt {q : Peer} {ps : List Peer} (hm : q ∈ ps) (hb : q.beh ≠ .honest) :
    nonHonest (remove q ps) < nonHonest ps := by
  induction ps with
  | nil => exact absurd hm List.not_mem_nil
  | cons a as ih =>
    simp only [remove]
    by_cases h : a = q
    · have := nonHonest_remove_le q as
      simp only [h, ↓reduceIte, nonHonest, hb]; omega
    · have hm' : q ∈ as := by
        cases List.mem_cons.mp hm with
        | inl h1 => exact absurd h1.symm h
        | inr h1 => exact h1
      have := ih hm'
      simp only [h, ↓reduceIte, nonHonest]; omega

theorem nonHonest_zero_honest {ps : List Peer} (h0 : nonHonest ps = 0) {q : Peer} (hm : q ∈ ps) :
    q.beh = .honest := by
  induction ps with
  | nil => exact absurd hm List.not_mem_nil
  | cons a as ih =>
    simp only [nonHonest] at h0
    cases List.mem_cons.mp hm with
    | inl h1 =>
      rw [h1]
      by_cases hb : a.beh = .honest
      · exact hb
      · simp only [hb, ↓reduceIte] at h0; omega
    | inr h1 => exact ih (by omega) h1

theorem pickSync_mem {ps : List Peer} {q : Peer} (h : pickSync ps = some q) : q ∈ ps := by
  induction ps generalizing q with
  | nil => simp only [pickSync] at h; exact absurd h (by intro h'; cases h')
  | cons a as ih =>
    simp only [pickSync] at h
    cases hp : pickSync as with
    | none =>
      rw [hp] at h
      simp only [Option.some.injEq] at h
      rw [← h]; exact List.mem_cons_self
    | some b =>
      rw [hp] at h
      by_cases hc : a.claim < b.claim
      · simp only [hc, ↓reduceIte, Option.some.injEq] at h
        rw [← h]; exact List.mem_cons_of_mem _ (ih hp)
      · simp only [hc, ↓reduceIte, Option.some.injEq] at h
        rw [← h]; exact List.mem_cons_self

theorem pickSync_some {ps : List Peer} (h : ps ≠ []) : pickSync ps ≠ none := by
  cases ps with
  | nil => exact absurd rfl h
  | cons a as =>
    simp only [pickSync]
    cases pickSync as with
    | none => intro h'; cases h'
    | some b =>
      by_cases hc : a.claim < b.claim
      · simp only [hc, ↓reduceIte]; intro h'; cases h'
      · simp only [hc, ↓reduceIte]; intro h'; cases h'

/-! ## the accepted chain only moves to valid, heavier chains -/

theorem step_chain (w : World) (R : AcceptRule w) (s : State) (e : Ev) :
    (step w R s e).chain = s.chain ∨
    (w.valid (step w R s e).chain = true ∧ w.work s.chain < w.work (step w R s e).chain) := by
  cases e with
  | connect p =>
    simp only [step]
    by_cases h : p ∈ s.peers
    · simp only [h, ↓reduceIte, true_or]
    · simp only [h, ↓reduceIte, true_or]
  | honestReply p =>
    simp only [step]
    by_cases h : p.beh = .honest ∧ listensTo w s p = true
    · simp only [h, and_self, ↓reduceIte]; exact R.sound _ _
    · simp only [h, ↓reduceIte, true_or]
  | byzOffer p o =>
    simp only [step]
    by_cases h : p.beh = .byz ∧ listensTo w s p = true
    · simp only [h, and_self, ↓reduceIte]; exact R.sound _ _
    · simp only [h, ↓reduceIte, true_or]
  | stall p =>
    simp only [step]
    by_cases h : s.sync = some p ∧ p.beh ≠ .honest
    · simp only [h, ne_eq, not_false_eq_true, and_self, ↓reduceIte, drop, true_or]
    · simp only [h, ↓reduceIte, true_or]
  | disconnect p =>
    simp only [step]
    by_cases h : p ∈ s.peers
    · simp only [h, ↓reduceIte, drop, true_or]
    · simp only [h, ↓reduceIte, true_or]
  | grow c =>
    simp only [step]
    by_cases h : w.valid c = true ∧ w.work s.honestTip < w.work c
    · simp only [h, and_self, ↓reduceIte, true_or]
    · simp only [h, ↓reduceIte, true_or]

theorem step_valid (w : World) (R : AcceptRule w) (s : State) (e : Ev) (h : w.valid s.chain = true) :
    w.valid (step w R s e).chain = true := by
  cases step_chain w R s e with
  | inl h1 => rw [h1]; exact h
  | inr h1 => exact h1.1

theorem step_work (w : World) (R : AcceptRule w) (s : State) (e : Ev) :
    w.work s.chain ≤ w.work (step w R s e).chain := by
  cases step_chain w R s e with
  | inl h1 => rw [h1]; exact Nat.le_refl _
  | inr h1 => exact Nat.le_of_lt h1.2

theorem run_valid (w : World) (R : AcceptRule w) (evs : List Ev) (s : State) (h : w.valid s.chain = true) :
    w.valid (run w R s evs).chain = true := by
  induction evs generalizing s with
  | nil => exact h
  | cons e es ih => exact ih _ (step_valid w R s e h)

theorem run_work (w : World) (R : AcceptRule w) (evs : List Ev) (s : State) :
    w.work s.chain ≤ w.work (run w R s evs).chain := by
  induction evs generalizing s with
  | nil => exact Nat.le_refl _
  | cons e es ih => exact Nat.le_trans (step_work w R s e) (ih _)

/-! ## the invariant -/

theorem drop_inv (w : World) (s : State) (p : Peer) (hi : Inv w s) : Inv w (drop s p) := by
  constructor
  · intro q hq
    simp only [drop] at hq ⊢
    by_cases h : s.sync = some p
    · simp only [h, ↓reduceIte] at hq
      exact pickSync_mem hq
    · simp only [h, ↓reduceIte] at hq
      have hq' := hi.sync_mem q hq
      have hne : q ≠ p := by intro he; rw [he] at hq; exact h hq
      exact mem_remove.mpr ⟨hq', hne⟩
  · intro hne
    simp only [drop] at hne ⊢
    by_cases h : s.sync = some p
    · simp only [h, ↓reduceIte]; exact pickSync_some hne
    · simp only [h, ↓reduceIte]
      apply hi.sync_some
      intro he
      rw [he] at hne
      exact hne rfl
  · exact hi.tip_valid

theorem step_inv (w : World) (R : AcceptRule w) (s : State) (e : Ev) (hi : Inv w s) : Inv w (step w R s e) := by
  cases e with
  | connect p =>
    simp only [step]
    by_cases h : p ∈ s.peers
    · simp only [h, ↓reduceIte]; exact hi
    · simp only [h, ↓reduceIte]
      constructor
      · intro q hq
        cases hs : s.sync with
        | none =>
          rw [hs] at hq
          exact pickSync_mem hq
        | some b =>
          rw [hs] at hq
          simp only [Option.some.injEq] at hq
          rw [← hq]
          exact List.mem_append_left _ (hi.sync_mem b hs)
      · intro _
        cases hs : s.sync with
        | none =>
          exact pickSync_some (by intro he; cases s.peers <;> simp at he)
        | some b => intro h'; cases h'
      · exact hi.tip_valid
  | honestReply p =>
    simp only [step]
    by_cases h : p.beh = .honest ∧ listensTo w s p = true
    · simp only [h, and_self, ↓reduceIte]; exact ⟨hi.sync_mem, hi.sync_some, hi.tip_valid⟩
    · simp only [h, ↓reduceIte]; exact hi
  | byzOffer p o =>
    simp only [step]
    by_cases h : p.beh = .byz ∧ listensTo w s p = true
    · simp only [h, and_self, ↓reduceIte]; exact ⟨hi.sync_mem, hi.sync_some, hi.tip_valid⟩
    · simp only [h, ↓reduceIte]; exact hi
  | stall p =>
    simp only [step]
    by_cases h : s.sync = some p ∧ p.beh ≠ .honest
    · simp only [h, ne_eq, not_false_eq_true, and_self, ↓reduceIte]; exact drop_inv w s p hi
    · simp only [h, ↓reduceIte]; exact hi
  | disconnect p =>
    simp only [step]
    by_cases h : p ∈ s.peers
    · simp only [h, ↓reduceIte]; exact drop_inv w s p hi
    · simp only [h, ↓reduceIte]; exact hi
  | grow c =>
    simp only [step]
    by_cases h : w.valid c = true ∧ w.work s.honestTip < w.work c
    · simp only [h, and_self, ↓reduceIte]; exact ⟨hi.sync_mem, hi.sync_some, h.1⟩
    · simp only [h, ↓reduceIte]; exact hi

theorem run_inv (w : World) (R : AcceptRule w) (evs : List Ev) (s : State) (hi : Inv w s) :
    Inv w (run w R s evs) := by
  induction evs generalizing s with
  | nil => exact hi
  | cons e es ih => exact ih _ (step_inv w R s e hi)

/-! ## the stall schedule -/

theorem step_stall (w : World) (R : AcceptRule w) (s : State) (q : Peer) (hs : s.sync = some q)
    (hb : q.beh ≠ .honest) : step w R s (.stall q) = drop s q := by
  simp only [step, hs, hb, ne_eq, not_false_eq_true, and_self, ↓reduceIte]

/-- After stalling the blocking sync peers the sync peer is honest; nothing
else changed; every event was an enabled fair one; at most `n` events. -/
theorem stallSched_spec (w : World) (R : AcceptRule w) (n : Nat) (s : State) (hi : Inv w s)
    (hh : ∃ p ∈ s.peers, p.beh = .honest) (hn : nonHonest s.peers ≤ n) :
    let s' := run w R s (stallSched w R n s)
    (∃ q, s'.sync = some q ∧ q.beh = .honest ∧ q ∈ s'.peers) ∧
    s'.chain = s.chain ∧ s'.honestTip = s.honestTip ∧
    FairRun w R s (stallSched w R n s) ∧ (stallSched w R n s).length ≤ n ∧
    nonHonest s'.peers + (stallSched w R n s).length ≤ nonHonest s.peers := by
  induction n generalizing s with
  | zero =>
    obtain ⟨p, hp, _⟩ := hh
    have hne : s.peers ≠ [] := by intro he; rw [he] at hp; exact absurd hp List.not_mem_nil
    obtain ⟨q, hs⟩ : ∃ q, s.sync = some q := by
      cases h : s.sync with
      | none => exact absurd h (hi.sync_some hne)
      | some q => exact ⟨q, rfl⟩
    have hq := hi.sync_mem q hs
    have hqb := nonHonest_zero_honest (Nat.le_zero.mp hn) hq
    simp only [stallSched, run, FairRun, List.length_nil, Nat.le_refl, Nat.add_zero, and_self, and_true]
    exact ⟨q, hs, hqb, hq⟩
  | succ n ih =>
    obtain ⟨p, hp, hpb⟩ := hh
    have hne : s.peers ≠ [] := by intro he; rw [he] at hp; exact absurd hp List.not_mem_nil
    obtain ⟨q, hs⟩ : ∃ q, s.sync = some q := by
      cases h : s.sync with
      | none => exact absurd h (hi.sync_some hne)
      | some q => exact ⟨q, rfl⟩
    have hq := hi.sync_mem q hs
    by_cases hqb : q.beh = .honest
    · simp only [stallSched, hs, hqb, ↓reduceIte, run, FairRun, List.length_nil, Nat.zero_le,
        Nat.add_zero, Nat.le_refl, and_self, and_true]
      exact ⟨q, rfl, hqb, hq⟩
    · have hst := step_stall w R s q hs hqb
      have hi' : Inv w (drop s q) := drop_inv w s q hi
      have hlt := nonHonest_remove_lt hq hqb
      have hh' : ∃ p ∈ (drop s q).peers, p.beh = .honest :=
        ⟨p, mem_remove.mpr ⟨hp, by intro he; rw [he] at hpb; exact hqb hpb⟩, hpb⟩
      have hn' : nonHonest (drop s q).peers ≤ n := by
        simp only [drop]; omega
      have := ih (drop s q) hi' hh' hn'
      simp only [stallSched, hs, hqb, ↓reduceIte, run, hst, FairRun, FairEv, ne_eq, not_false_eq_true,
        and_self, true_and, List.length_cons]
      obtain ⟨h1, h2, h3, h4, h5, h6⟩ := this
      refine ⟨h1, ?_, ?_, h4, by omega, ?_⟩
      · rw [h2]; rfl
      · rw [h3]; rfl
      · have : nonHonest (drop s q).peers < nonHonest s.peers := hlt
        omega

theorem run_append (w : World) (R : AcceptRule w) (a b : List Ev) (s : State) :
    run w R s (a ++ b) = run w R (run w R s a) b := by
  induction a generalizing s with
  | nil => rfl
  | cons e es ih => exact ih _

theorem fairRun_append (w : World) (R : AcceptRule w) (a b : List Ev) (s : State)
    (ha : FairRun w R s a) (hb : FairRun w R (run w R s a) b) : FairRun w R s (a ++ b) := by
  induction a generalizing s with
  | nil => exact hb
  | cons e es ih => exact ⟨ha.1, ih _ ha.2 hb⟩

/-! ## ranking -/

theorem nonHonest_drop_le (s : State) (p : Peer) : nonHonest (drop s p).peers ≤ nonHonest s.peers :=
  nonHonest_remove_le p s.peers

/-- with the honest tip a most-work valid chain, a converged client stays converged
whatever is offered -/
theorem acc_stable (w : World) (R : AcceptRule w) (c o : Chain)
    (hbest : ∀ x, w.valid x = true → w.work x ≤ w.work c) : R.acc c o = c := by
  cases R.sound c o with
  | inl h => exact h
  | inr h => have := hbest _ h.1; omega

end Neutrino.Net
