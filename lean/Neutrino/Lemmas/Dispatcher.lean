/-
Lemmas for C12: the verdict bookkeeping of the dispatcher model seen through an
abstraction (`Abs`: live batch ids, verdict log, next batch number, quit flag),
the five ways one step can move it (`R`), and the invariant `InvA` they preserve.
-/
import Neutrino.Model.Dispatcher
namespace Neutrino.Disp

structure Abs where
  ids  : List Nat
  vs   : List (Nat × Verdict)
  nb   : Nat
  quit : Bool

def abs (s : State) : Abs := ⟨s.batches.map (·.id), s.verdicts, s.nextBatch, s.quit⟩

def vids (a : Abs) : List Nat := a.vs.map (·.1)

inductive R : Abs → Abs → Prop
  | same (a : Abs) : R a a
  | emit (a : Abs) (b : Nat) (v : Verdict) : b ∈ a.ids → a.quit = false →
      R a ⟨a.ids.filter (fun x => x != b), a.vs ++ [(b, v)], a.nb, a.quit⟩
  | new (a : Abs) : a.quit = false → R a ⟨a.ids ++ [a.nb], a.vs, a.nb + 1, false⟩
  | quit (a : Abs) : R a ⟨[], a.vs ++ a.ids.map (fun b => (b, Verdict.shutdown)), a.nb, true⟩
  | late (a : Abs) : a.quit = true → R a ⟨a.ids, a.vs ++ [(a.nb, Verdict.shutdown)], a.nb + 1, true⟩

structure InvA (a : Abs) : Prop where
  nodupIds : a.ids.Nodup
  nodupVs  : (vids a).Nodup
  disj     : ∀ b ∈ a.ids, b ∉ vids a
  cover    : ∀ b, b < a.nb ↔ (b ∈ a.ids ∨ b ∈ vids a)
  quitEmpty : a.quit = true → a.ids = []

theorem map_fst_shutdown (l : List Nat) :
    (l.map (fun b => (b, Verdict.shutdown))).map (·.1) = l := by
  induction l with
  | nil => rfl
  | cons x xs ih => simp only [List.map_cons, ih]

theorem invA_R {a a' : Abs} (h : InvA a) (r : R a a') : InvA a' := by
  cases r with
  | same => exact h
  | emit b v hb hq =>
    refine ⟨?_, ?_, ?_, ?_, ?_⟩
    · exact List.Pairwise.filter _ h.nodupIds
    · simp only [vids, List.map_append, List.map_cons, List.map_nil]
      rw [List.nodup_append]
      refine ⟨h.nodupVs, List.pairwise_singleton _ _, ?_⟩
      intro x hx y hy
      simp only [List.mem_singleton] at hy
      subst hy
      intro hxy; subst hxy
      exact h.disj _ hb hx
    · intro x hx
      simp only [List.mem_filter, bne_iff_ne, ne_eq] at hx
      simp only [vids, List.map_append, List.map_cons, List.map_nil, List.mem_append, List.mem_singleton]
      intro hc
      cases hc with
      | inl hc => exact h.disj _ hx.1 hc
      | inr hc => exact hx.2 hc
    · intro x
      simp only [vids, List.map_append, List.map_cons, List.map_nil, List.mem_append,
        List.mem_singleton, List.mem_filter, bne_iff_ne, ne_eq]
      rw [h.cover x]
      constructor
      · intro hx
        cases hx with
        | inl hx =>
          by_cases hxb : x = b
          · exact Or.inr (Or.inr hxb)
          · exact Or.inl ⟨hx, hxb⟩
        | inr hx => exact Or.inr (Or.inl hx)
      · intro hx
        cases hx with
        | inl hx => exact Or.inl hx.1
        | inr hx =>
          cases hx with
          | inl hx => exact Or.inr hx
          | inr hx => subst hx; exact Or.inl hb
    · intro hq'
      simp only [hq] at hq'
      exact absurd hq' (by decide)
  | new hq =>
    refine ⟨?_, h.nodupVs, ?_, ?_, ?_⟩
    · rw [List.nodup_append]
      refine ⟨h.nodupIds, List.pairwise_singleton _ _, ?_⟩
      intro x hx y hy
      simp only [List.mem_singleton] at hy
      subst hy
      intro hxy; subst hxy
      have := (h.cover _).mpr (Or.inl hx)
      exact Nat.lt_irrefl _ this
    · intro x hx
      simp only [List.mem_append, List.mem_singleton] at hx
      cases hx with
      | inl hx => exact h.disj _ hx
      | inr hx =>
        subst hx
        intro hc
        have := (h.cover _).mpr (Or.inr hc)
        exact Nat.lt_irrefl _ this
    · intro x
      simp only [List.mem_append, List.mem_singleton]
      constructor
      · intro hx
        by_cases hxb : x = a.nb
        · exact Or.inl (Or.inr hxb)
        · have : x < a.nb := by omega
          cases (h.cover x).mp this with
          | inl h1 => exact Or.inl (Or.inl h1)
          | inr h1 => exact Or.inr h1
      · intro hx
        cases hx with
        | inl hx =>
          cases hx with
          | inl hx => have := (h.cover x).mpr (Or.inl hx); omega
          | inr hx => omega
        | inr hx => have := (h.cover x).mpr (Or.inr hx); omega
    · intro hq'; cases hq'
  | quit =>
    refine ⟨List.nodup_nil, ?_, ?_, ?_, fun _ => rfl⟩
    · simp only [vids, List.map_append, map_fst_shutdown]
      rw [List.nodup_append]
      refine ⟨h.nodupVs, h.nodupIds, ?_⟩
      intro x hx y hy hxy
      subst hxy
      exact h.disj _ hy hx
    · intro x hx; exact absurd hx (List.not_mem_nil)
    · intro x
      simp only [vids, List.map_append, map_fst_shutdown, List.mem_append, List.not_mem_nil, false_or]
      rw [h.cover x]
      constructor
      · intro hx; cases hx with
        | inl hx => exact Or.inr hx
        | inr hx => exact Or.inl hx
      · intro hx; cases hx with
        | inl hx => exact Or.inr hx
        | inr hx => exact Or.inl hx
  | late hq =>
    have hids := h.quitEmpty hq
    refine ⟨h.nodupIds, ?_, ?_, ?_, fun _ => hids⟩
    · simp only [vids, List.map_append, List.map_cons, List.map_nil]
      rw [List.nodup_append]
      refine ⟨h.nodupVs, List.pairwise_singleton _ _, ?_⟩
      intro x hx y hy
      simp only [List.mem_singleton] at hy
      subst hy
      intro hxy; subst hxy
      have := (h.cover _).mpr (Or.inr hx)
      exact Nat.lt_irrefl _ this
    · intro x hx
      simp only [hids] at hx
      exact absurd hx (List.not_mem_nil)
    · intro x
      simp only [vids, List.map_append, List.map_cons, List.map_nil, List.mem_append, List.mem_singleton]
      constructor
      · intro hx
        by_cases hxb : x = a.nb
        · exact Or.inr (Or.inr hxb)
        · have : x < a.nb := by omega
          cases (h.cover x).mp this with
          | inl h1 => exact Or.inl h1
          | inr h1 => exact Or.inr (Or.inl h1)
      · intro hx
        cases hx with
        | inl hx => have := (h.cover x).mpr (Or.inl hx); omega
        | inr hx =>
          cases hx with
          | inl hx => have := (h.cover x).mpr (Or.inr hx); omega
          | inr hx => omega


theorem ids_setRem (bs : List Batch) (b r : Nat) : (setRem bs b r).map (·.id) = bs.map (·.id) := by
  induction bs with
  | nil => rfl
  | cons x xs ih =>
    simp only [setRem, List.map_cons] at ih ⊢
    rw [ih]; split <;> rfl

theorem ids_bumpGen (bs : List Batch) (b : Nat) : (bumpGen bs b).map (·.id) = bs.map (·.id) := by
  induction bs with
  | nil => rfl
  | cons x xs ih =>
    simp only [bumpGen, List.map_cons] at ih ⊢
    rw [ih]; split <;> rfl

theorem ids_setHard (bs : List Batch) (b : Nat) : (setHard bs b).map (·.id) = bs.map (·.id) := by
  induction bs with
  | nil => rfl
  | cons x xs ih =>
    simp only [setHard, List.map_cons] at ih ⊢
    rw [ih]; split <;> rfl

theorem ids_delB (bs : List Batch) (b : Nat) :
    (delB bs b).map (·.id) = (bs.map (·.id)).filter (fun x => x != b) := by
  induction bs with
  | nil => rfl
  | cons x xs ih =>
    simp only [delB, List.filter_cons, List.map_cons] at ih ⊢
    cases hc : (x.id != b) <;> simp only [Bool.false_eq_true, ↓reduceIte, List.map_cons, ih]

theorem findB_mem {bs : List Batch} {b : Nat} {bp : Batch} (h : findB bs b = some bp) :
    b ∈ bs.map (·.id) := by
  unfold findB at h
  have h1 := List.find?_some h
  have h2 := List.mem_of_find?_eq_some h
  simp only [beq_iff_eq] at h1
  rw [← h1]
  exact List.mem_map_of_mem h2

theorem abs_emit (s : State) (b : Nat) (v : Verdict) :
    abs (emit s b v) = ⟨(abs s).ids.filter (fun x => x != b), (abs s).vs ++ [(b, v)], (abs s).nb, (abs s).quit⟩ := by
  simp only [abs, emit, ids_delB]

theorem R_emit (s s2 : State) (b : Nat) (v : Verdict) (h : abs s2 = abs s)
    (hb : b ∈ (abs s).ids) (hq : (abs s).quit = false) : R (abs s) (abs (emit s2 b v)) := by
  rw [abs_emit, h]; exact R.emit _ b v hb hq

theorem hardCheck_R (s s2 : State) (bn : Nat) (bp : Batch) (pr : Bool) (outs : List Out)
    (h : abs s2 = abs s) (hb : bn ∈ (abs s).ids) (hq : (abs s).quit = false) :
    R (abs s) (abs (hardCheck s2 bn bp pr outs).1) := by
  unfold hardCheck
  split
  · exact R_emit s s2 bn _ h hb hq
  · split
    · have : abs { s2 with batches := bumpGen s2.batches bn } = abs s := by
        rw [← h]; simp only [abs, ids_bumpGen]
      rw [this]; exact R.same _
    · rw [h]; exact R.same _

theorem R_ite {a : Abs} {c : Prop} [Decidable c] {x y : State × List Out}
    (hx : R a (abs x.1)) (hy : R a (abs y.1)) : R a (abs (if c then x else y).1) := by
  split <;> assumption

theorem stepResult_R (s : State) (hq : s.quit = false) (p : Nat) (e : Err) :
    R (abs s) (abs (stepResult s p e).1) := by
  unfold stepResult
  split
  · exact R.same _
  · split
    · exact R.same _
    · rename_i w _ job _
      simp only []
      split
      · exact R.same _
      · rename_i bp hf
        have hb : (s.queries.lookup job.idx).getD 0 ∈ (abs s).ids := findB_mem hf
        split
        · exact R_emit s _ _ _ rfl hb hq
        · refine R_ite ?_ ?_
          · refine R_emit s _ _ _ ?_ hb hq
            simp only [abs, ids_setRem]
          · refine hardCheck_R s _ _ _ _ _ ?_ hb hq
            simp only [abs, ids_setRem]
        · refine R_ite ?_ ?_
          · exact R_emit s _ _ _ rfl hb hq
          · exact hardCheck_R s _ _ _ _ _ rfl hb hq

theorem stepWake_R (s : State) (hq : s.quit = false) (b g : Nat) :
    R (abs s) (abs (stepWake s b g).1) := by
  unfold stepWake
  split
  · exact R.same _
  · rename_i bp hf
    split
    · exact R.same _
    · exact R_emit s s b _ rfl (findB_mem hf) hq

theorem stepNewBatch_R (s : State) (hq : s.quit = false) (n : Nat) (nrm : Bool) (mr : Nat) (pr hn : Bool) :
    R (abs s) (abs (stepNewBatch s n nrm mr pr hn).1) := by
  have h := R.new (abs s) hq
  simp only [stepNewBatch, abs, List.map_append, List.map_cons, List.map_nil, hq] at h ⊢
  exact h

theorem stepQuit_R (s : State) : R (abs s) (abs (stepQuit s).1) := by
  have h := R.quit (abs s)
  simp only [stepQuit, abs, List.map_map, List.map_nil] at h ⊢
  exact h

theorem stepLate_R (s : State) (hq : s.quit = true) (n : Nat) : R (abs s) (abs (stepLate s n).1) := by
  have h := R.late (abs s) hq
  simp only [stepLate, abs, hq] at h ⊢
  exact h

theorem R_of_abs_eq {s s' : State} (h : abs s' = abs s) : R (abs s) (abs s') := by
  rw [h]; exact R.same _

theorem step_R (s : State) (e : Ev) : R (abs s) (abs (step s e).1) := by
  unfold step
  by_cases hq : s.quit = true
  · simp only [hq, ↓reduceIte]
    cases e <;> first | exact R.same _ | exact stepLate_R s hq _
  · have hq' : s.quit = false := by cases h : s.quit <;> simp_all
    simp only [hq', Bool.false_eq_true, ↓reduceIte]
    cases e with
    | quit => exact stepQuit_R s
    | exit p =>
      simp only [stepExit]
      split <;> exact R.same _
    | elapse b =>
      apply R_of_abs_eq
      simp only [abs, ids_setHard, hq']
    | accept p =>
      simp only [stepAccept]
      split
      · exact R.same _
      · split <;> exact R.same _
    | newBatch n nrm mr pr hn =>
      simp only []
      split
      · exact R.same _
      · exact stepNewBatch_R s hq' _ _ _ _ _
    | peer p =>
      simp only []
      split
      · exact R.same _
      · exact R.same _
    | result p err =>
      simp only []
      split
      · exact R.same _
      · exact stepResult_R s hq' p err
    | wake b g =>
      simp only []
      split
      · exact R.same _
      · exact stepWake_R s hq' b g

theorem invA_init : InvA (abs init) :=
  ⟨List.nodup_nil, List.nodup_nil, fun _ h => absurd h List.not_mem_nil,
   fun b => ⟨fun h => absurd h (Nat.not_lt_zero b), fun h => by cases h <;> rename_i h <;> exact absurd h List.not_mem_nil⟩,
   fun _ => rfl⟩

theorem invA_run (s : State) (es : List Ev) (h : InvA (abs s)) : InvA (abs (run s es)) := by
  induction es generalizing s with
  | nil => exact h
  | cons e es ih => exact ih _ (invA_R h (step_R s e))


/-! ### the quit flag is absorbing -/

theorem step_quit_stays (s : State) (e : Ev) (h : s.quit = true) : (step s e).1.quit = true := by
  unfold step
  simp only [h, ↓reduceIte]
  cases e <;> first | exact h | (simp only [stepLate]; exact h)

theorem run_quit_stays (s : State) (es : List Ev) (h : s.quit = true) : (run s es).quit = true := by
  induction es generalizing s with
  | nil => exact h
  | cons e es ih => exact ih _ (step_quit_stays s e h)

theorem step_quit_sets (s : State) : (step s .quit).1.quit = true := by
  by_cases h : s.quit = true
  · exact step_quit_stays s _ h
  · have h' : s.quit = false := by cases hh : s.quit <;> simp_all
    simp only [step, h', Bool.false_eq_true, ↓reduceIte, stepQuit]

theorem run_quit_of_mem (s : State) (es : List Ev) (h : Ev.quit ∈ es) : (run s es).quit = true := by
  induction es generalizing s with
  | nil => exact absurd h List.not_mem_nil
  | cons e es ih =>
    cases List.mem_cons.mp h with
    | inl he => subst he; exact run_quit_stays (step s Ev.quit).1 es (step_quit_sets s)
    | inr he => exact ih _ he

/-! ### counting verdicts of one batch -/

theorem count_le_one_of_nodup (vs : List (Nat × Verdict)) (b : Nat) (h : (vs.map (·.1)).Nodup) :
    (vs.filter (fun x => x.1 == b)).length ≤ 1 := by
  induction vs with
  | nil => exact Nat.zero_le _
  | cons x xs ih =>
    simp only [List.map_cons, List.nodup_cons] at h
    simp only [List.filter_cons]
    cases hx : (x.1 == b)
    · simp only [Bool.false_eq_true, ↓reduceIte]; exact ih h.2
    · simp only [↓reduceIte, List.length_cons]
      have : xs.filter (fun y => y.1 == b) = [] := by
        apply List.filter_eq_nil_iff.mpr
        intro y hy hyb
        simp only [beq_iff_eq] at hx hyb
        exact h.1 (by rw [hx, ← hyb]; exact List.mem_map_of_mem hy)
      rw [this]; exact Nat.le_refl _

theorem count_pos_of_mem (vs : List (Nat × Verdict)) (b : Nat) (h : b ∈ vs.map (·.1)) :
    1 ≤ (vs.filter (fun x => x.1 == b)).length := by
  obtain ⟨x, hx, hxb⟩ := List.mem_map.mp h
  have : x ∈ vs.filter (fun y => y.1 == b) := List.mem_filter.mpr ⟨hx, by simp only [hxb, beq_self_eq_true]⟩
  exact List.length_pos_of_mem this

/-! ### re-issue of a failed job -/

theorem findB_delB_self (bs : List Batch) (b : Nat) : findB (delB bs b) b = none := by
  unfold findB delB
  apply List.find?_eq_none.mpr
  intro x hx
  have := (List.mem_filter.mp hx).2
  simp only [bne_iff_ne, ne_eq] at this
  simp only [beq_iff_eq]; exact this

theorem mem_insertJob (j : Job) (w : List Job) : j ∈ insertJob j w := by
  induction w with
  | nil => exact List.mem_singleton.mpr rfl
  | cons x xs ih =>
    simp only [insertJob]
    split
    · exact List.mem_cons_self
    · exact List.mem_cons_of_mem _ ih

theorem hardCheck_keep (s2 : State) (bn : Nat) (bp : Batch) (pr : Bool) (outs : List Out)
    (h : (findB (hardCheck s2 bn bp pr outs).1.batches bn).isSome = true) :
    (hardCheck s2 bn bp pr outs).1.work = s2.work ∧ (hardCheck s2 bn bp pr outs).1.queries = s2.queries := by
  unfold hardCheck at h ⊢
  split
  · rename_i hp
    simp only [hp, ↓reduceIte, emit, findB_delB_self, Option.isSome_none] at h
    cases h
  · split <;> exact ⟨rfl, rfl⟩

theorem reissue_core (s : State) (p : Nat) (e : Err) (w : Worker) (job : Job)
    (hw : findW s.workers p = some w) (ha : w.active = some job)
    (he1 : e ≠ .ok) (he2 : e ≠ .canceled)
    (hl : (findB (stepResult s p e).1.batches ((s.queries.lookup job.idx).getD 0)).isSome = true) :
    ∃ j' ∈ (stepResult s p e).1.work, j'.idx = job.idx ∧ j'.batch = job.batch ∧
      (stepResult s p e).1.queries.lookup job.idx = some ((s.queries.lookup job.idx).getD 0) := by
  unfold stepResult at hl ⊢
  simp only [hw, ha] at hl ⊢
  cases hf : findB s.batches ((s.queries.lookup job.idx).getD 0) with
  | none =>
    simp only [hf, Option.isSome_none] at hl
    cases hl
  | some bp =>
    simp only [hf] at hl ⊢
    cases e <;> first
      | exact absurd rfl he1
      | exact absurd rfl he2
      | (skip
         generalize (if bp.noRetryMax = true then job.tries else job.tries + 1) = tr at hl ⊢
         by_cases hc : (!bp.noRetryMax && decide (tr ≥ bp.maxRetries)) = true
         · rw [if_pos hc] at hl
           simp only [emit, findB_delB_self, Option.isSome_none] at hl
           cases hl
         · rw [if_neg hc] at hl ⊢
           obtain ⟨h1, h2⟩ := hardCheck_keep _ _ _ _ _ hl
           rw [h1, h2]
           refine ⟨_, mem_insertJob _ _, rfl, rfl, ?_⟩
           simp only [List.lookup, beq_self_eq_true])

/-! ### where a nil verdict can come from -/

theorem hardCheck_no_ok (s : State) (bn : Nat) (bp : Batch) (pr : Bool) (outs : List Out) (b : Nat)
    (h : Out.verdict b (.res .ok) ∈ (hardCheck s bn bp pr outs).2) : Out.verdict b (.res .ok) ∈ outs := by
  unfold hardCheck at h
  split at h
  · simp only [List.mem_append, List.mem_singleton, Out.verdict.injEq, Verdict.res.injEq] at h
    cases h with
    | inl h => exact h
    | inr h => exact absurd h.2 (by decide)
  · split at h <;> exact h

theorem stepResult_ok_verdict (s : State) (p : Nat) (e : Err) (b : Nat)
    (h : Out.verdict b (.res .ok) ∈ (stepResult s p e).2) :
    ∃ w job bp, e = .ok ∧ findW s.workers p = some w ∧ w.active = some job ∧
      b = (s.queries.lookup job.idx).getD 0 ∧ findB s.batches b = some bp ∧ bp.rem = 1 ∧
      job.idx ∈ (stepResult s p e).1.okd := by
  unfold stepResult at h
  cases hw : findW s.workers p with
  | none => simp only [hw, List.mem_singleton] at h; cases h
  | some w =>
    cases ha : w.active with
    | none => simp only [hw, ha, List.mem_singleton] at h; cases h
    | some job =>
      simp only [hw, ha] at h
      cases hf : findB s.batches ((s.queries.lookup job.idx).getD 0) with
      | none => simp only [hf, List.mem_singleton] at h; cases h
      | some bp =>
        simp only [hf] at h
        cases e with
        | ok =>
          simp only [] at h
          by_cases hr : (bp.rem == 1) = true
          · rw [if_pos hr] at h
            simp only [List.mem_cons, List.mem_nil_iff, or_false, Out.verdict.injEq, and_true] at h
            cases h with
            | inl h => cases h
            | inr h =>
              refine ⟨w, job, bp, rfl, rfl, ha, h, ?_, ?_, ?_⟩
              · rw [h]; exact hf
              · simpa using hr
              · simp only [stepResult, hw, ha, hf, hr, ↓reduceIte, emit, List.mem_cons, true_or]
          · rw [if_neg hr] at h
            have := hardCheck_no_ok _ _ _ _ _ _ h
            simp only [List.mem_singleton] at this; cases this
        | canceled =>
          simp only [List.mem_cons, List.mem_nil_iff, or_false, Out.verdict.injEq, Verdict.res.injEq] at h
          cases h with
          | inl h => cases h
          | inr h => exact absurd h.2 (by decide)
        | timeout =>
          dsimp only at h
          generalize (if bp.noRetryMax = true then job.tries else job.tries + 1) = tr at h
          by_cases hc : (!bp.noRetryMax && decide (tr ≥ bp.maxRetries)) = true
          · rw [if_pos hc] at h
            simp only [List.mem_cons, List.mem_nil_iff, or_false, Out.verdict.injEq, Verdict.res.injEq] at h
            rcases h with h | h | h
            · cases h
            · exact absurd h.2 (by decide)
            · cases h
          · rw [if_neg hc] at h
            have := hardCheck_no_ok _ _ _ _ _ _ h
            simp only [List.mem_singleton] at this; cases this
        | disconnected =>
          dsimp only at h
          generalize (if bp.noRetryMax = true then job.tries else job.tries + 1) = tr at h
          by_cases hc : (!bp.noRetryMax && decide (tr ≥ bp.maxRetries)) = true
          · rw [if_pos hc] at h
            simp only [List.mem_cons, List.mem_nil_iff, or_false, Out.verdict.injEq, Verdict.res.injEq] at h
            rcases h with h | h | h
            · cases h
            · exact absurd h.2 (by decide)
            · cases h
          · rw [if_neg hc] at h
            have := hardCheck_no_ok _ _ _ _ _ _ h
            simp only [List.mem_singleton] at this; cases this
        | other =>
          dsimp only at h
          generalize (if bp.noRetryMax = true then job.tries else job.tries + 1) = tr at h
          by_cases hc : (!bp.noRetryMax && decide (tr ≥ bp.maxRetries)) = true
          · rw [if_pos hc] at h
            simp only [List.mem_cons, List.mem_nil_iff, or_false, Out.verdict.injEq, Verdict.res.injEq] at h
            rcases h with h | h | h
            · cases h
            · exact absurd h.2 (by decide)
            · cases h
          · rw [if_neg hc] at h
            have := hardCheck_no_ok _ _ _ _ _ _ h
            simp only [List.mem_singleton] at this; cases this

theorem step_ok_verdict (s : State) (e : Ev) (b : Nat)
    (h : Out.verdict b (.res .ok) ∈ (step s e).2) :
    ∃ p w job bp, e = .result p .ok ∧ s.quit = false ∧ findW s.workers p = some w ∧ w.active = some job ∧
      b = (s.queries.lookup job.idx).getD 0 ∧ findB s.batches b = some bp ∧ bp.rem = 1 ∧
      job.idx ∈ (step s e).1.okd := by
  unfold step at h
  by_cases hq : s.quit = true
  · simp only [hq, ↓reduceIte] at h
    cases e <;> simp only [stepLate, List.mem_singleton, Out.verdict.injEq, reduceCtorEq, and_false] at h
  · have hq' : s.quit = false := by cases hh : s.quit <;> simp_all
    simp only [hq', Bool.false_eq_true, ↓reduceIte] at h
    cases e with
    | quit =>
      simp only [stepQuit, List.mem_map, Out.verdict.injEq, reduceCtorEq, and_false, exists_false] at h
    | exit p =>
      simp only [stepExit] at h
      split at h <;> simp only [List.mem_singleton, List.mem_nil_iff, reduceCtorEq] at h
    | elapse b' => simp only [List.mem_nil_iff] at h
    | accept p =>
      simp only [stepAccept] at h
      split at h
      · simp only [List.mem_singleton, reduceCtorEq] at h
      · split at h <;> simp only [List.mem_singleton, reduceCtorEq] at h
    | newBatch n nrm mr pr hn =>
      dsimp only at h
      split at h
      · simp only [List.mem_singleton, reduceCtorEq] at h
      · simp only [stepNewBatch, List.mem_nil_iff] at h
    | peer p =>
      dsimp only at h
      split at h
      · simp only [List.mem_singleton, reduceCtorEq] at h
      · simp only [stepPeer, List.mem_nil_iff] at h
    | wake b' g =>
      dsimp only at h
      split at h
      · simp only [List.mem_singleton, reduceCtorEq] at h
      · simp only [stepWake] at h
        split at h
        · simp only [List.mem_nil_iff] at h
        · split at h
          · simp only [List.mem_nil_iff] at h
          · simp only [List.mem_singleton, Out.verdict.injEq, Verdict.res.injEq, reduceCtorEq, and_false] at h
    | result p err =>
      dsimp only at h
      by_cases ho : offering s = true
      · rw [if_pos ho] at h
        simp only [List.mem_singleton, reduceCtorEq] at h
      · rw [if_neg ho] at h
        obtain ⟨w, job, bp, he, h1, h2, h3, h4, h5, h6⟩ := stepResult_ok_verdict s p err b h
        subst he
        refine ⟨p, w, job, bp, rfl, hq', h1, h2, h3, h4, h5, ?_⟩
        simp only [step, hq', Bool.false_eq_true, ↓reduceIte, ho]
        exact h6

end Neutrino.Disp
