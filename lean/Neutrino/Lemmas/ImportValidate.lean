/-
The block validator as it walks the file (`blockHeadersImportSourceValidator.Validate`
over `BatchIterator`): batch by batch, `ValidateBatch` inside a batch and
`ValidatePair(lastHeader, batch[0])` across two batches — and the proof that this
walk computes exactly the closed form `validateBlocks` the model of `Import` uses.
-/
import Neutrino.Model.Import
namespace Neutrino.Import

/-- `ValidatePair(prev, cur)`: PrevBlock link, contextual check and sanity of `cur` -/
def pairOk (prev cur : BHdr) : Bool := cur.prev == prev.id && cur.valid

/-- `ValidateBatch`: a batch of one header is `ValidateSingle`d; a longer one has
every header from the second on pair-checked against its predecessor (the batch's
first header is NOT sanity-checked here) -/
def validateBatch : List BHdr → Bool
  | [h] => h.valid
  | l => pairsOk l

/-- `Validate`: walk the body in batches of `bs`; `last` is the previous batch's last header -/
def validateWalk (bs : Nat) : Nat → Option BHdr → List BHdr → Bool
  | 0, _, _ => true
  | fuel + 1, last, rest =>
    if rest.isEmpty then true
    else
      let batch := rest.take bs
      validateBatch batch &&
      (match last, batch.head? with
       | some l, some h => pairOk l h
       | _, _ => true) &&
      validateWalk bs fuel batch.getLast? (rest.drop bs)

theorem pairsOk_cons_cons (a b : BHdr) (r : List BHdr) : pairsOk (a :: b :: r) = (pairOk a b && pairsOk (b :: r)) := rfl

/-- splitting the pair checks of `batch ++ r` at the batch boundary -/
theorem pairsOk_append : ∀ (x : BHdr) (t r : List BHdr),
    pairsOk (x :: t ++ r) = (pairsOk (x :: t) && pairsOk (((x :: t).getLast (by simp)) :: r))
  | x, [], r => by simp [pairsOk]
  | x, y :: t, r => by
    have ih := pairsOk_append y t r
    simp only [List.cons_append] at ih ⊢
    rw [pairsOk_cons_cons, pairsOk_cons_cons, ih, List.getLast_cons_cons, Bool.and_assoc]

theorem validateBatch_eq (x : BHdr) (t : List BHdr) :
    validateBatch (x :: t) = ((if (x :: t).length = 1 then x.valid else true) && pairsOk (x :: t)) := by
  cases t with
  | nil => simp [validateBatch, pairsOk]
  | cons y t => simp [validateBatch]

/-- the walk, for any previous header: all pair checks of `last :: rest` (or, at
the start of the file, the first-batch rule plus the pair checks of `rest`) -/
theorem validateWalk_spec (bs : Nat) (hbs : bs ≥ 1) : ∀ (fuel : Nat) (last : Option BHdr) (rest : List BHdr),
    fuel ≥ rest.length →
    validateWalk bs fuel last rest =
      (match last with
       | some l => pairsOk (l :: rest)
       | none => (if min bs rest.length = 1 then (rest.head?.map (·.valid)).getD true else true) && pairsOk rest) := by
  intro fuel
  induction fuel with
  | zero =>
    intro last rest h
    have : rest = [] := List.eq_nil_of_length_eq_zero (by omega)
    subst this
    cases last <;> simp [validateWalk, pairsOk]
  | succ fuel ih =>
    intro last rest h
    cases hrest : rest with
    | nil => cases last <;> simp [validateWalk, pairsOk]
    | cons x t =>
      subst hrest
      unfold validateWalk
      simp only [List.isEmpty_cons, Bool.false_eq_true, ↓reduceIte]
      -- the batch is non-empty
      obtain ⟨b0, bt, hb⟩ : ∃ b0 bt, (x :: t).take bs = b0 :: bt := by
        cases bs with
        | zero => omega
        | succ n => exact ⟨x, t.take n, rfl⟩
      have hb0 : b0 = x := by
        cases bs with
        | zero => omega
        | succ n => simp only [List.take_succ_cons, List.cons.injEq] at hb; exact hb.1.symm
      subst hb0
      have hsplit : b0 :: t = (b0 :: bt) ++ (b0 :: t).drop bs := by rw [← hb, List.take_append_drop]
      have hblen : (b0 :: bt).length = min bs (b0 :: t).length := by rw [← hb, List.length_take]
      have hdlen : ((b0 :: t).drop bs).length ≤ fuel := by
        rw [List.length_drop]; simp only [List.length_cons] at h ⊢; omega
      rw [hb, ih _ _ hdlen]
      simp only [List.head?_cons, List.getLast?_cons_cons, List.getLast?_singleton]
      have hlast : (b0 :: bt).getLast? = some ((b0 :: bt).getLast (by simp)) := List.getLast?_eq_some_getLast (by simp)
      rw [hlast]
      simp only
      have happ := pairsOk_append b0 bt ((b0 :: t).drop bs)
      rw [← hsplit] at happ
      rw [validateBatch_eq, hblen]
      cases last with
      | none =>
        simp only [Bool.and_true, List.head?_cons, Option.map_some, Option.getD_some]
        rw [happ, Bool.and_assoc]
      | some l =>
        simp only
        rw [pairsOk_cons_cons, happ]
        cases hv : b0.valid <;> cases hp : pairsOk (b0 :: bt) <;>
          cases hq : pairsOk ((b0 :: bt).getLast (by simp) :: (b0 :: t).drop bs) <;>
          simp [pairOk, hv]

/-- **the validator's walk is the closed form used by the model** -/
theorem validateBlocks_eq_walk (body : List BHdr) (bs : Nat) (hbs : bs ≥ 1) :
    validateBlocks body bs = validateWalk bs body.length none body := by
  rw [validateWalk_spec bs hbs body.length none body (Nat.le_refl _)]
  rfl

/-- every header of an accepted file except the first passed `ValidatePair`
against its predecessor in the file -/
theorem pairsOk_pair : ∀ (l : List BHdr) (i : Nat) (a c : BHdr), pairsOk l = true →
    l[i]? = some a → l[i + 1]? = some c → pairOk a c = true
  | [], _, _, _, _, h, _ => by simp at h
  | [_], _, _, _, _, _, h => by simp at h
  | x :: y :: rest, 0, a, c, h, ha, hc => by
    rw [pairsOk_cons_cons, Bool.and_eq_true] at h
    simp only [List.getElem?_cons_zero, Option.some.injEq, Nat.zero_add, List.getElem?_cons_succ] at ha hc
    subst ha; subst hc; exact h.1
  | x :: y :: rest, i + 1, a, c, h, ha, hc => by
    rw [pairsOk_cons_cons, Bool.and_eq_true] at h
    simp only [List.getElem?_cons_succ] at ha hc
    exact pairsOk_pair (y :: rest) i a c h.2 ha hc

theorem validated_pairs (body : List BHdr) (bs i : Nat) (a c : BHdr) (h : validateBlocks body bs = true)
    (ha : body[i]? = some a) (hc : body[i + 1]? = some c) : pairOk a c = true := by
  unfold validateBlocks at h
  simp only [Bool.and_eq_true] at h
  exact pairsOk_pair body i a c h.2 ha hc

theorem pairsOk_of_pairs : ∀ (l : List BHdr),
    (∀ i a c, l[i]? = some a → l[i + 1]? = some c → pairOk a c = true) → pairsOk l = true
  | [], _ => rfl
  | [_], _ => rfl
  | x :: y :: rest, h => by
    rw [pairsOk_cons_cons, Bool.and_eq_true]
    refine ⟨h 0 x y rfl rfl, pairsOk_of_pairs (y :: rest) (fun i a c ha hc => h (i + 1) a c ?_ ?_)⟩
    · simpa using ha
    · simpa using hc

/-- **The validated index range is exactly `1 .. len-1`** (heights
`(startHeight, endHeight]`): the validator accepts a body iff every index from 1
to the last passes `ValidatePair` against the index before it — none skipped,
whatever the batch size — plus the first-batch rule for index 0. -/
theorem validateBlocks_iff (body : List BHdr) (bs : Nat) :
    validateBlocks body bs = true ↔
      ((min bs body.length = 1 → (body.head?.map (·.valid)).getD true = true) ∧
       ∀ i a c, body[i]? = some a → body[i + 1]? = some c → pairOk a c = true) := by
  unfold validateBlocks
  rw [Bool.and_eq_true]
  constructor
  · rintro ⟨h1, h2⟩
    refine ⟨fun hm => ?_, fun i a c ha hc => pairsOk_pair body i a c h2 ha hc⟩
    simpa [hm] using h1
  · rintro ⟨h1, h2⟩
    refine ⟨?_, pairsOk_of_pairs body h2⟩
    by_cases hm : min bs body.length = 1
    · simpa [hm] using h1 hm
    · simp [hm]

end Neutrino.Import
