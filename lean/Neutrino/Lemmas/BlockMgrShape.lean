/-
What `handleHeadersMsg` does to the STORE, exactly: the outcomes of the connect phase
(`connect_run`) and of the whole handler from a state satisfying the invariant
(`handle_shape`).  C02's history-level theorems are read off these.
-/
import Neutrino.Lemmas.BlockMgrInv
namespace Neutrino.BM

theorem finish_log (c : Cfg) (s : State) (l : Loc) (ntf : List Ntfn) :
    (finish c s l ntf).1.log = s.log ++ l.batch := by
  have hw : (s.write l.batchFirst l.batch).log = s.log ++ l.batch := by
    simp only [State.write]
    by_cases hb : l.batch = [] <;> simp [hb]
  simp only [finish]
  cases l.recvCp <;> simp [hw]

/-- outcomes of the connect phase on the store.  `base` = stored chain plus what is already
pending, `stored` = the stored chain, `rest` = the headers still to come, `ncp` = next checkpoint. -/
def ConnOut (c : Cfg) (ncp : Option Cp) (stored base rest out : List Nat) : Prop :=
  (rest.all c.tbl.valid = false ∧ out = stored) ∨
  out = base ++ rest ∨
  (∃ d cp, 0 < d ∧ d ≤ rest.length ∧ ncp = some cp ∧ base.length + d = cp.height + 1 ∧
      out = base ++ rest.take d ∧ tipId out = cp.id) ∨
  (∃ d cp, 0 < d ∧ d ≤ rest.length ∧ ncp = some cp ∧ base.length + d = cp.height + 1 ∧
      out = stored.take ((findPrevCp c.cps cp.height).height + 1))

theorem cpTest_cases (c : Cfg) (p h : Nat) (s : State) (l : Loc) (ntf : List Ntfn) (nh : Nat) (r : State × List Ntfn)
    (hr : cpTest c p h s l ntf nh = some r) :
    ∃ cp, s.ncp = some cp ∧ nh = cp.height ∧
      ((h = cp.id ∧ r.1.log = s.log ++ l.batch) ∨
       (h ≠ cp.id ∧ r.1.log = s.log.take ((findPrevCp c.cps cp.height).height + 1))) := by
  simp only [cpTest] at hr
  split at hr
  · rename_i cp hcp
    by_cases h1 : nh = cp.height
    · rw [if_pos h1] at hr
      by_cases h2 : h = cp.id
      · rw [if_pos h2, Option.some.injEq] at hr
        subst hr
        exact ⟨cp, hcp, h1, Or.inl ⟨h2, by rw [finish_log]⟩⟩
      · rw [if_neg h2, Option.some.injEq] at hr
        subst hr
        refine ⟨cp, hcp, h1, Or.inr ⟨h2, ?_⟩⟩
        simp only [rollBackTo_log, h1]
    · rw [if_neg h1] at hr; cases hr
  · cases hr

/-- **The connect phase**: once a header of the message connects, every later one does; the
store ends up either untouched (an invalid header was met), extended by all of them, extended
up to the header that IS the next checkpoint, or cut back to the previous checkpoint because the
header at the next checkpoint's height is not the checkpoint. -/
theorem connect_run (c : Cfg) (ok : CpsOk c.cps) (hw : 1 ≤ c.win) (p : Nat) (rest : List Nat) :
    ∀ (s : State) (l : Loc) (ntf : List Ntfn), linked c.tbl rest = true → LIf c s l rest →
      (∀ h, rest.head? = some h → c.tbl.parent h = some (tipId (s.log ++ l.batch))) →
      ConnOut c s.ncp s.log (s.log ++ l.batch) rest (loop c p rest s l ntf).1.log := by
  induction rest with
  | nil =>
    intro s l ntf _ li _
    right; left
    simp [loop, finish_log]
  | cons h rest ih =>
    intro s l ntf hlk li hconn
    simp only [loop]
    have hhead := li.anch.head li.good
    have hpar : c.tbl.parent h = some (tipId (s.log ++ l.batch)) := hconn h rfl
    rw [hhead]
    simp only [hpar, ↓reduceIte]
    have hlen : 0 < (s.log ++ l.batch).length := li.good.length_pos
    have hnh : tipHeight (s.log ++ l.batch) + 1 = (s.log ++ l.batch).length := by simp only [tipHeight]; omega
    by_cases hv : c.tbl.valid h = true
    · simp only [hv, Bool.not_true, Bool.false_eq_true, ↓reduceIte]
      obtain ⟨_, h2⟩ := connect_step c ok hw p h rest s l ntf ⟨tipId (s.log ++ l.batch), tipHeight (s.log ++ l.batch)⟩
        li hlk hhead hpar hv
      cases hcp : cpTest c p h _ (pushBatch { l with finalId := h } h (tipHeight (s.log ++ l.batch) + 1)) ntf
          (tipHeight (s.log ++ l.batch) + 1) with
      | some r =>
        obtain ⟨cp, hn, hh, hcase⟩ := cpTest_cases c p h _ _ ntf _ r hcp
        simp only at hn
        rcases hcase with ⟨hid, hlog⟩ | ⟨hid, hlog⟩
        · right; right; left
          refine ⟨1, cp, by omega, by simp, hn, by omega, ?_, ?_⟩
          · rw [hlog, pushBatch_batch]; simp
          · rw [hlog, pushBatch_batch, ← List.append_assoc, tipId_append]; exact hid
        · right; right; right
          exact ⟨1, cp, by omega, by simp, hn, by omega, hlog⟩
      | none =>
        have li' := h2 hcp
        have hbatch : (pushBatch { l with finalId := h } h (tipHeight (s.log ++ l.batch) + 1)).batch = l.batch ++ [h] :=
          pushBatch_batch _ _ _
        have := ih _ _ ntf (linked_tail hlk) li' (by
          intro h' hh'
          simp only [hbatch]
          rw [← List.append_assoc, tipId_append]
          cases rest with
          | nil => cases hh'
          | cons b bs =>
            simp only [List.head?_cons, Option.some.injEq] at hh'
            subst hh'
            exact linked_head hlk)
        simp only [hbatch] at this
        rcases this with ⟨hinv, hout⟩ | hout | ⟨d, cp, hd0, hd, hn, hlenq, hout, htip⟩ | ⟨d, cp, hd0, hd, hn, hlenq, hout⟩
        · left; exact ⟨by simp [hinv], hout⟩
        · right; left; rw [hout]; simp
        · right; right; left
          refine ⟨d + 1, cp, by omega, by simp; omega, hn, by simp at hlenq ⊢; omega, ?_, htip⟩
          rw [hout]; simp
        · right; right; right
          exact ⟨d + 1, cp, by omega, by simp; omega, hn, by simp at hlenq ⊢; omega, hout⟩
    · simp only [hv, Bool.not_false, ↓reduceIte]
      left
      have : c.tbl.valid h = false := by cases hx : c.tbl.valid h <;> simp_all
      exact ⟨by simp [this], rfl⟩

end Neutrino.BM

namespace Neutrino.BM

theorem reorg_adopt_notin (c : Cfg) (s : State) (p : Nat) (prev : Node) (h : Nat) (rest : List Nat) (bh : Nat)
    (hd : reorgDecision c s p prev h rest = .adopt bh) : h ∉ s.log := by
  simp only [reorgDecision] at hd
  split at hd; · cases hd
  split at hd; · cases hd
  split at hd
  · cases hd
  · rename_i hn; exact hn

theorem reorg_skip_mem (c : Cfg) (s : State) (p : Nat) (prev : Node) (h : Nat) (rest : List Nat)
    (hp : prev.id ∈ s.log) (hd : reorgDecision c s p prev h rest = .skip) : h ∈ s.log := by
  simp only [reorgDecision] at hd
  split at hd; · cases hd
  split at hd
  · rename_i he; rw [he]; exact hp
  · split at hd
    · rename_i hm; exact hm
    · split at hd
      · cases hd
      · split at hd; · cases hd
        split at hd; · cases hd
        split at hd; · cases hd
        split at hd <;> cases hd

theorem doReorg_ncp (c : Cfg) (s : State) (p h bh : Nat) : (doReorg c s p h bh).1.ncp = s.ncp := by
  obtain ⟨f, ft, he⟩ := rollBackTo_eq { s with sync := some p } bh
  simp only [doReorg, State.write, List.cons_ne_nil, ↓reduceIte, he]

theorem tipId_mem {log : List Nat} (hne : log ≠ []) : tipId log ∈ log := by
  simp only [tipId]
  rw [List.getLast?_eq_some_getLast hne]
  exact List.getLast_mem hne

/-- the reorganisation arm followed by the rest of the message -/
theorem reorg_run (c : Cfg) (ok : CpsOk c.cps) (hw : 1 ≤ c.win) (p h : Nat) (suf : List Nat) (s : State) (l : Loc)
    (ntf : List Ntfn) (inv : Inv c s) (hb : l.batch = []) (hr : l.recvCp = false)
    (hlk : linked c.tbl (h :: suf) = true) (hpar : c.tbl.parent h ≠ some (tipId s.log)) (bh : Nat)
    (hd : reorgDecision c s p ⟨tipId s.log, tipHeight s.log⟩ h suf = .adopt bh) :
    bh < tipHeight s.log ∧
    ConnOut c s.ncp (s.log.take (bh + 1) ++ [h]) (s.log.take (bh + 1) ++ [h]) suf (loop c p (h :: suf) s l ntf).1.log := by
  have hhead := inv.anch.head inv.good
  simp only [loop, hhead, hpar, ↓reduceIte, hd]
  obtain ⟨li', hcp, hbh, hlog⟩ := reorg_step c ok hw p h suf s { l with finalId := h }
    (ntf ++ (doReorg c s p h bh).2) ⟨tipId s.log, tipHeight s.log⟩ inv hb hr rfl hpar bh hd
  refine ⟨hbh, ?_⟩
  rw [hcp]
  have := connect_run c ok hw p suf (doReorg c s p h bh).1 { l with finalId := h } (ntf ++ (doReorg c s p h bh).2)
    (linked_tail hlk) li' (by
      intro h' hh'
      simp only [hb, List.append_nil, hlog, tipId_append]
      cases suf with
      | nil => cases hh'
      | cons b bs =>
        simp only [List.head?_cons, Option.some.injEq] at hh'
        subst hh'
        exact linked_head hlk)
  simp only []
  simpa only [hb, List.append_nil, hlog, doReorg_ncp] using this

/-- outcomes of the whole handler on the store, from a state satisfying the invariant -/
def HandleOut (c : Cfg) (p : Nat) (s : State) (hs out : List Nat) : Prop :=
  out = s.log ∨
  (∃ pre suf, hs = pre ++ suf ∧ (∀ x ∈ pre, x ∈ s.log) ∧ ConnOut c s.ncp s.log s.log suf out) ∨
  (∃ pre h suf bh, hs = pre ++ h :: suf ∧ (∀ x ∈ pre, x ∈ s.log) ∧ h ∉ s.log ∧ bh < tipHeight s.log ∧
      reorgDecision c s p ⟨tipId s.log, tipHeight s.log⟩ h suf = .adopt bh ∧
      ConnOut c s.ncp (s.log.take (bh + 1) ++ [h]) (s.log.take (bh + 1) ++ [h]) suf out)

theorem phase1 (c : Cfg) (ok : CpsOk c.cps) (hw : 1 ≤ c.win) (p : Nat) (s : State) (inv : Inv c s) (rest : List Nat) :
    ∀ (l : Loc) (ntf : List Ntfn), linked c.tbl rest = true → l.batch = [] → l.recvCp = false →
      HandleOut c p s rest (loop c p rest s l ntf).1.log := by
  induction rest with
  | nil => intro l ntf _ hb _; left; simp [loop, finish_log, hb]
  | cons h rest ih =>
    intro l ntf hlk hb hr
    have hhead := inv.anch.head inv.good
    by_cases hpar : c.tbl.parent h = some (tipId s.log)
    · right; left
      refine ⟨[], h :: rest, rfl, by simp, ?_⟩
      have := connect_run c ok hw p (h :: rest) s l ntf hlk (LIf_of_inv c s l _ inv hb hr)
        (by intro h' hh'; simp only [List.head?_cons, Option.some.injEq] at hh'; subst hh'; simpa [hb] using hpar)
      simpa [hb] using this
    · cases hd : reorgDecision c s p ⟨tipId s.log, tipHeight s.log⟩ h rest with
      | ignore => left; simp only [loop, hhead, hpar, ↓reduceIte, hd]
      | disconnect => left; simp only [loop, hhead, hpar, ↓reduceIte, hd]
      | skip =>
        have hm : h ∈ s.log := reorg_skip_mem c s p _ h rest (tipId_mem inv.good.ne_nil) hd
        have := ih { l with finalId := h } ntf (linked_tail hlk) hb hr
        have hl : (loop c p (h :: rest) s l ntf).1.log = (loop c p rest s { l with finalId := h } ntf).1.log := by
          simp only [loop, hhead, hpar, ↓reduceIte, hd]
        rw [hl]
        rcases this with h1 | ⟨pre, suf, he, hp, hc⟩ | ⟨pre, h', suf, bh, he, hp, hn, hb', hd', hc⟩
        · left; exact h1
        · right; left
          exact ⟨h :: pre, suf, by rw [he]; rfl, by intro x hx; rcases List.mem_cons.mp hx with rfl | hx; exact hm; exact hp x hx, hc⟩
        · right; right
          exact ⟨h :: pre, h', suf, bh, by rw [he]; rfl,
            by intro x hx; rcases List.mem_cons.mp hx with rfl | hx; exact hm; exact hp x hx, hn, hb', hd', hc⟩
      | adopt bh =>
        right; right
        obtain ⟨hbh, hc⟩ := reorg_run c ok hw p h rest s l ntf inv hb hr hlk hpar bh hd
        exact ⟨[], h, rest, bh, rfl, by simp, reorg_adopt_notin c s p _ h rest bh hd, hbh, hd, hc⟩

theorem handle_shape (c : Cfg) (ok : CpsOk c.cps) (hw : 1 ≤ c.win) (p : Nat) (s : State) (inv : Inv c s) (hs : List Nat) :
    HandleOut c p s hs (handleHeaders c s p hs).1.log := by
  simp only [handleHeaders]
  by_cases h1 : hs = []
  · simp only [h1, ↓reduceIte]; left; trivial
  · simp only [h1, ↓reduceIte]
    by_cases h2 : linked c.tbl hs = true
    · simp only [h2, Bool.not_true, Bool.false_eq_true, ↓reduceIte]
      exact phase1 c ok hw p s inv hs {} [] h2 rfl rfl
    · simp only [h2, Bool.not_false, ↓reduceIte]; left; trivial

end Neutrino.BM
