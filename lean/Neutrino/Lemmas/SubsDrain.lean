/-
Liveness-side lemmas: a subscriber that keeps reading and is not cancelled gets
everything that was pushed to it.  Core Lean only.
-/
import Neutrino.Lemmas.Subs
namespace Neutrino.Subs

theorem chanCap_pos : 0 < chanCap := by decide

/-- the schedule "forwarder moves one, consumer reads one", `k` times -/
def drainEvs (id : Nat) : Nat → List Ev
  | 0 => []
  | k + 1 => .forward id :: .consume id :: drainEvs id k

theorem step_forward_subs (s : State) (id : Nat) (x : Sub) (hx : s.subs id = some x) :
    (step s (.forward id)).1.subs id = some x.forward := by
  simp [step, upd, hx]

theorem step_consume_subs (s : State) (id : Nat) (x : Sub) (hx : s.subs id = some x) :
    (step s (.consume id)).1.subs id = some x.consume.1 := by
  simp [step, hx, setSub]

/-- what one forward-then-consume round does to an open subscriber -/
structure Round (x y : Sub) : Prop where
  stillOpen : y.closed = false
  same      : y.delivered ++ y.chan ++ y.queue = x.delivered ++ x.chan ++ x.queue
  backEq    : y.backlog = x.backlog
  sinceEq   : y.since = x.since
  liveEq    : y.live = x.live

theorem Sub.round (x : Sub) (hopen : x.closed = false)
    (hpos : 0 < x.chan.length + x.queue.length) :
    Round x x.forward.consume.1 ∧
    x.forward.consume.1.chan.length + x.forward.consume.1.queue.length + 1 = x.chan.length + x.queue.length := by
  have hcap := chanCap_pos
  cases hq : x.queue with
  | nil =>
    cases hc : x.chan with
    | nil => simp [hq, hc] at hpos
    | cons m c =>
      have hf : x.forward = x := by simp [Sub.forward, hq]
      rw [hf]
      simp only [Sub.consume, hc]
      exact ⟨⟨hopen, by simp [hc, hq], rfl, rfl, rfl⟩, by simp [hq]⟩
  | cons n q =>
    by_cases hl : x.chan.length < chanCap
    · have hf : x.forward = { x with queue := q, chan := x.chan ++ [n] } := by
        simp [Sub.forward, hopen, hq, hl]
      rw [hf]
      cases hc : x.chan with
      | nil =>
        simp only [Sub.consume, List.nil_append]
        exact ⟨⟨hopen, by simp [hc, hq], rfl, rfl, rfl⟩, by simp⟩
      | cons m c =>
        simp only [Sub.consume, List.cons_append]
        exact ⟨⟨hopen, by simp [hc, hq], rfl, rfl, rfl⟩, by simp; omega⟩
    · have hf : x.forward = x := by simp [Sub.forward, hopen, hq, hl]
      rw [hf]
      cases hc : x.chan with
      | nil => simp [hc] at hl; omega
      | cons m c =>
        simp only [Sub.consume, hc]
        exact ⟨⟨hopen, by simp [hc, hq], rfl, rfl, rfl⟩, by simp [hq]; omega⟩

/-- Draining: after `chan.length + queue.length` forward/consume rounds of an
open subscriber, queue and channel are empty and everything has been delivered. -/
theorem drain_run (id : Nat) (k : Nat) (s : State) (x : Sub) (hx : s.subs id = some x)
    (hopen : x.closed = false) (hk : x.chan.length + x.queue.length = k) :
    ∃ y, (run s (drainEvs id k)).subs id = some y ∧ y.chan = [] ∧ y.queue = [] ∧
      y.delivered = x.delivered ++ x.chan ++ x.queue ∧ y.closed = false ∧
      y.backlog = x.backlog ∧ y.since = x.since ∧ y.live = x.live := by
  induction k generalizing s x with
  | zero =>
    have hc : x.chan = [] := List.eq_nil_of_length_eq_zero (by omega)
    have hq : x.queue = [] := List.eq_nil_of_length_eq_zero (by omega)
    exact ⟨x, hx, hc, hq, by simp [hc, hq], hopen, rfl, rfl, rfl⟩
  | succ k ih =>
    obtain ⟨hr, hlen⟩ := Sub.round x hopen (by omega)
    have h1 := step_forward_subs s id x hx
    have h2 := step_consume_subs _ id _ h1
    obtain ⟨y, hy, hyc, hyq, hyd, hyo, hyb, hys, hyl⟩ := ih _ _ h2 hr.stillOpen (by omega)
    refine ⟨y, ?_, hyc, hyq, ?_, hyo, hyb.trans hr.backEq, hys.trans hr.sinceEq, hyl.trans hr.liveEq⟩
    · simpa [drainEvs, run] using hy
    · rw [hyd, hr.same]

end Neutrino.Subs
