import Neutrino.Lemmas.StoreTop
namespace Neutrino.Store

theorem setFile_file (d : Durable) (w : Which) : d.setFile w (d.file w) = d := by
  cases w <;> rfl

theorem setFile_setFile (d : Durable) (w : Which) (f g : FileSt) : (d.setFile w f).setFile w g = d.setFile w g := by
  cases w <;> rfl

/-- A failed block append under ANY single injected I/O fault (short write of
any length, write error, index-commit error, truncate error) leaves the durable
state exactly as it was; an append the fault does not reach succeeds. -/
theorem writeBlocks_fault (d : Durable) (l : Log) (ids : List Nat) (k : FaultKind) (fs a : Nat)
    (hrep : Rep d l) (hnd : ids.Nodup) (hfresh : ∀ x ∈ ids, x ∉ l.blocks) :
    let r := (writeBlocks ids l.blocks.length { d := d, inj := .fault k fs a }).fin
    (r.2 = .err ∧ r.1 = d) ∨ (r.2 = .ok ∧ Rep r.1 { l with blocks := l.blocks ++ ids }) := by
  have hw := width_pos .B
  have hok : ∀ (inj : Inj),
      fileWrite .B ids { d := d, inj := inj } =
        .ok none { d := d.setFile .B ((d.file .B).appendAll (width .B) ids), step := 1, inj := inj } →
      (∀ g dd, dbUpdate g { d := dd, step := 1, inj := inj } =
        .ok true { d := { dd with db := g dd.db }, step := 2, inj := inj }) →
      ((writeBlocks ids l.blocks.length { d := d, inj := inj }).fin.2 = .ok ∧
        Rep (writeBlocks ids l.blocks.length { d := d, inj := inj }).fin.1 { l with blocks := l.blocks ++ ids }) := by
    intro inj hW hU
    unfold writeBlocks appendRaw
    rw [hW]
    simp only [R.bind, Durable.file, Durable.setFile, hrep.bents, appendAll_clean _ _ _ hw, Bool.not_true,
      Bool.false_eq_true, ↓reduceIte]
    by_cases he : ids.isEmpty = true
    · have : ids = [] := by simpa using he
      subst this
      simp only [List.isEmpty_nil, ↓reduceIte, R.fin, List.append_nil, true_and]
      have : ({ bf := { ents := l.blocks }, ff := d.ff, db := d.db } : Durable) = d := by
        cases hd : d with
        | mk bf ff db => have := hrep.bents; simp [hd] at this; simp [this]
      rw [this]; exact hrep
    · simp only [he, Bool.false_eq_true, ↓reduceIte]
      have hne : ids ≠ [] := by intro hc; subst hc; simp at he
      rw [hU]
      simp only [R.bind, ↓reduceIte, R.fin, true_and]
      exact rep_append_blocks hrep hnd hfresh hne
  intro r
  by_cases h0 : fs = 0
  · subst h0
    cases k with
    | shortwrite =>
      left
      simp only [r, writeBlocks, appendRaw, fileWrite, ↓reduceIte, R.bind]
      by_cases hn : (if a ≥ ids.length * width .B then ids.length * width .B - 1 else a) > 0
      · simp only [hn, ↓reduceIte, fileTruncate]
        have : ¬ ((0 : Nat) = 0 + 1) := by omega
        simp only [this, ↓reduceIte, R.bind, Bool.not_false, R.fin, Durable.file, setFile_setFile, true_and]
        exact setFile_file d .B |> fun h => by simpa [Durable.file] using h
      · simp only [hn, ↓reduceIte, Bool.not_false, R.fin, true_and]
        have hz : (if a ≥ ids.length * width .B then ids.length * width .B - 1 else a) = 0 := by omega
        rw [hz]
        simp only [FileSt.appendBytes, Nat.zero_div, Nat.zero_mod, Nat.zero_min]
        have hj : (d.file .B).junk = 0 := by simp [Durable.file, hrep.bents]
        simp only [hj, ↓reduceIte, List.take_zero, List.append_nil]
        have : (if 0 < ids.length then 0 else 0) = 0 := by split <;> rfl
        simp only [this]
        have : ({ (d.file .B) with ents := (d.file .B).ents, junk := 0 } : FileSt) = d.file .B := by
          cases hf : d.file .B with
          | mk e j c => simp [hf] at hj; simp [hj]
        rw [this]; exact setFile_file d .B
    | writeerr =>
      left
      simp only [r, writeBlocks, appendRaw, fileWrite, ↓reduceIte, R.bind, Nat.lt_irrefl, gt_iff_lt, Bool.not_false,
        R.fin, and_self]
    | truncerr => right; exact hok _ (by simp [fileWrite]) (by intro g dd; simp [dbUpdate])
    | dberr => right; exact hok _ (by simp [fileWrite]) (by intro g dd; simp [dbUpdate])
  · by_cases h1 : fs = 1
    · subst h1
      cases k with
      | dberr =>
        by_cases he : ids.isEmpty = true
        · right
          have : ids = [] := by simpa using he
          subst this
          have : (writeBlocks [] l.blocks.length { d := d, inj := .fault .dberr 1 a }).fin = (d, .ok) := by
            have hq : ({ d := d, inj := Inj.fault .dberr 1 a } : Ctx).inj.firesAt 0 = false := rfl
            unfold writeBlocks appendRaw
            rw [fileWrite_quiet _ _ _ hq]
            simp only [R.bind, Durable.file, Durable.setFile, hrep.bents, appendAll_clean _ _ _ hw, Bool.not_true,
              Bool.false_eq_true, ↓reduceIte, List.isEmpty_nil, R.fin, List.append_nil, Prod.mk.injEq, and_true]
            cases hd : d with
            | mk bf ff db => have := hrep.bents; simp [hd] at this; simp [this]
          simp only [r, this, List.append_nil, true_and]
          exact hrep
        · left
          have hne : ids ≠ [] := by intro hc; subst hc; simp at he
          have hq : ({ d := d, inj := Inj.fault .dberr 1 a } : Ctx).inj.firesAt 0 = false := rfl
          simp only [r]
          unfold writeBlocks appendRaw
          rw [fileWrite_quiet _ _ _ hq]
          simp only [R.bind, Durable.file, Durable.setFile, hrep.bents, appendAll_clean _ _ _ hw, Bool.not_true,
            Bool.false_eq_true, ↓reduceIte, he, dbUpdate, Nat.zero_add, truncateHeaders]
          have hl0 : ¬ (ids.length = 0) := by
            intro hc; exact hne (List.eq_nil_of_length_eq_zero hc)
          simp only [hl0, ↓reduceIte, fileTruncate]
          have : ¬ ((1 : Nat) = 0 + 1 + 1) := by omega
          simp only [this, ↓reduceIte, Durable.file, FileSt.truncateBy, FileSt.size, List.length_append]
          have a1 : ¬ (ids.length * width .B > (l.blocks.length + ids.length) * width .B + 0) := by
            have : ids.length * width .B ≤ (l.blocks.length + ids.length) * width .B :=
              Nat.mul_le_mul_right _ (by omega)
            omega
          have a2 : ids.length ≤ l.blocks.length + ids.length := by omega
          simp only [a1, a2, ↓reduceIte, Nat.add_sub_cancel, List.take_left', R.bind, R.fin, Durable.setFile, true_and]
          cases hd : d with
          | mk bf ff db => have := hrep.bents; simp [hd] at this; simp [this]
      | shortwrite => right; exact hok _ (by simp [fileWrite]) (by intro g dd; simp [dbUpdate])
      | writeerr => right; exact hok _ (by simp [fileWrite]) (by intro g dd; simp [dbUpdate])
      | truncerr => right; exact hok _ (by simp [fileWrite]) (by intro g dd; simp [dbUpdate])
    · right
      refine hok _ ?_ ?_
      · cases k <;> simp [fileWrite, h0]
      · intro g dd; cases k <;> simp [dbUpdate, h1]


/-- The same for the filter-header store. -/
theorem writeFilters_fault (d : Durable) (l : Log) (fids : List Nat) (last : Nat) (k : FaultKind) (fs a : Nat)
    (hrep : Rep d l) (hroom : l.filters.length + fids.length ≤ l.blocks.length)
    (hlast : fids ≠ [] → l.blocks[l.filters.length - 1 + fids.length]? = some last) :
    let r := (writeFilters fids last { d := d, inj := .fault k fs a }).fin
    (r.2 = .err ∧ r.1 = d) ∨ (r.2 = .ok ∧ Rep r.1 { l with filters := l.filters ++ fids }) := by
  have hw := width_pos .F
  intro r
  by_cases he : fids.isEmpty = true
  · right
    have : fids = [] := by simpa using he
    subst this
    simp only [r, writeFilters, List.isEmpty_nil, ↓reduceIte, R.fin, List.append_nil, true_and]
    exact hrep
  have hne : fids ≠ [] := by intro hc; subst hc; simp at he
  have hl0 : ¬ (fids.length = 0) := fun hc => hne (List.eq_nil_of_length_eq_zero hc)
  have hdf : ({ bf := d.bf, ff := { ents := l.filters }, db := d.db } : Durable) = d := by
    cases hd : d with
    | mk bf ff db => have := hrep.fents; simp [hd] at this; simp [this]
  have hok : ∀ (inj : Inj),
      fileWrite .F fids { d := d, inj := inj } =
        .ok none { d := d.setFile .F ((d.file .F).appendAll (width .F) fids), step := 1, inj := inj } →
      (∀ g dd, dbUpdate g { d := dd, step := 1, inj := inj } =
        .ok true { d := { dd with db := g dd.db }, step := 2, inj := inj }) →
      ((writeFilters fids last { d := d, inj := inj }).fin.2 = .ok ∧
        Rep (writeFilters fids last { d := d, inj := inj }).fin.1 { l with filters := l.filters ++ fids }) := by
    intro inj hW hU
    unfold writeFilters appendRaw
    simp only [he, Bool.false_eq_true, ↓reduceIte]
    rw [hW]
    simp only [R.bind, Durable.file, Durable.setFile, hrep.fents, appendAll_clean _ _ _ hw, Bool.not_true,
      Bool.false_eq_true, ↓reduceIte]
    rw [hU]
    simp only [R.bind, ↓reduceIte, R.fin, true_and]
    exact rep_append_filters hrep hne hroom (hlast hne)
  by_cases h0 : fs = 0
  · subst h0
    cases k with
    | shortwrite =>
      left
      simp only [r, writeFilters, he, Bool.false_eq_true, ↓reduceIte, appendRaw, fileWrite, R.bind]
      by_cases hn : (if a ≥ fids.length * width .F then fids.length * width .F - 1 else a) > 0
      · simp only [hn, ↓reduceIte, fileTruncate]
        have : ¬ ((0 : Nat) = 0 + 1) := by omega
        simp only [this, ↓reduceIte, R.bind, Bool.not_false, R.fin, Durable.file, setFile_setFile, true_and]
        exact setFile_file d .F |> fun h => by simpa [Durable.file] using h
      · simp only [hn, ↓reduceIte, Bool.not_false, R.fin, true_and]
        have hz : (if a ≥ fids.length * width .F then fids.length * width .F - 1 else a) = 0 := by omega
        rw [hz]
        simp only [FileSt.appendBytes, Nat.zero_div, Nat.zero_mod, Nat.zero_min]
        have hj : (d.file .F).junk = 0 := by simp [Durable.file, hrep.fents]
        simp only [hj, ↓reduceIte, List.take_zero, List.append_nil]
        have : (if 0 < fids.length then 0 else 0) = 0 := by split <;> rfl
        simp only [this]
        have : ({ (d.file .F) with ents := (d.file .F).ents, junk := 0 } : FileSt) = d.file .F := by
          cases hf : d.file .F with
          | mk e j c => simp [hf] at hj; simp [hj]
        rw [this]; exact setFile_file d .F
    | writeerr =>
      left
      simp only [r, writeFilters, he, Bool.false_eq_true, ↓reduceIte, appendRaw, fileWrite, R.bind, Nat.lt_irrefl,
        gt_iff_lt, Bool.not_false, R.fin, and_self]
    | truncerr => right; exact hok _ (by simp [fileWrite]) (by intro g dd; simp [dbUpdate])
    | dberr => right; exact hok _ (by simp [fileWrite]) (by intro g dd; simp [dbUpdate])
  · by_cases h1 : fs = 1
    · subst h1
      cases k with
      | dberr =>
        left
        have hq : ({ d := d, inj := Inj.fault .dberr 1 a } : Ctx).inj.firesAt 0 = false := rfl
        simp only [r]
        unfold writeFilters appendRaw
        simp only [he, Bool.false_eq_true, ↓reduceIte]
        rw [fileWrite_quiet _ _ _ hq]
        simp only [R.bind, Durable.file, Durable.setFile, hrep.fents, appendAll_clean _ _ _ hw, Bool.not_true,
          Bool.false_eq_true, ↓reduceIte, dbUpdate, Nat.zero_add, truncateHeaders]
        simp only [hl0, ↓reduceIte, fileTruncate]
        have : ¬ ((1 : Nat) = 0 + 1 + 1) := by omega
        simp only [this, ↓reduceIte, Durable.file, FileSt.truncateBy, FileSt.size, List.length_append]
        have a1 : ¬ (fids.length * width .F > (l.filters.length + fids.length) * width .F + 0) := by
          have : fids.length * width .F ≤ (l.filters.length + fids.length) * width .F :=
            Nat.mul_le_mul_right _ (by omega)
          omega
        have a2 : fids.length ≤ l.filters.length + fids.length := by omega
        simp only [a1, a2, ↓reduceIte, Nat.add_sub_cancel, List.take_left', R.bind, R.fin, Durable.setFile, true_and]
        exact hdf
      | shortwrite => right; exact hok _ (by simp [fileWrite]) (by intro g dd; simp [dbUpdate])
      | writeerr => right; exact hok _ (by simp [fileWrite]) (by intro g dd; simp [dbUpdate])
      | truncerr => right; exact hok _ (by simp [fileWrite]) (by intro g dd; simp [dbUpdate])
    · right
      refine hok _ ?_ ?_
      · cases k <;> simp [fileWrite, h0]
      · intro g dd; cases k <;> simp [dbUpdate, h1]

end Neutrino.Store
