/-
Lemmas for `C12_worker_reports`: the accounting invariant of the worker loop
(accepted = reported ++ job in hand ++ job lost to quit) and its preservation.
-/
import Neutrino.Model.Worker
namespace Neutrino.Wrk
open Neutrino.Disp (Err)

/-- the invariant behind `C12_worker_reports` -/
structure WInv (s : State) : Prop where
  nodrop : s.dropped = []
  acct   : s.accepted = s.reported.map (·.1) ++ inflight s ++ s.lost
  lostq  : s.lost ≠ [] → s.phase = .exited true
  lost1  : s.lost.length ≤ 1

theorem winv_init : WInv init := ⟨rfl, rfl, fun h => absurd rfl h, Nat.zero_le _⟩

theorem lost_nil_of_not_quit {s : State} (h : WInv s) (hp : s.phase ≠ .exited true) : s.lost = [] := by
  cases hl : s.lost with
  | nil => rfl
  | cons x xs => exact absurd (h.lostq (by rw [hl]; exact List.cons_ne_nil _ _)) hp

theorem winv_step (s : State) (ev : Ev) (h : WInv s) : WInv (step Arms.good s ev) := by
  obtain ⟨phase, acc, rep, snt, lost, drp⟩ := s
  cases phase with
  | exited q => exact h
  | idle =>
    have hl : lost = [] := lost_nil_of_not_quit h (fun e => by cases e)
    obtain ⟨hd, ha, _, _⟩ := h
    simp only at hd ha hl
    subst hl; subst hd
    simp only [inflight, List.append_nil] at ha
    cases ev with
    | job j pre =>
      cases pre <;> (refine ⟨?_, ?_, ?_, ?_⟩ <;> simp [step, Arms.good, inflight, ha])
    | msg r => refine ⟨?_, ?_, ?_, ?_⟩ <;> simp [step, inflight, ha]
    | timeout => refine ⟨?_, ?_, ?_, ?_⟩ <;> simp [step, inflight, ha]
    | disconnect => refine ⟨?_, ?_, ?_, ?_⟩ <;> simp [step, inflight, ha]
    | cancelExt => refine ⟨?_, ?_, ?_, ?_⟩ <;> simp [step, inflight, ha]
    | cancelInt => refine ⟨?_, ?_, ?_, ?_⟩ <;> simp [step, inflight, ha]
    | deliver => refine ⟨?_, ?_, ?_, ?_⟩ <;> simp [step, inflight, ha]
    | quit => refine ⟨?_, ?_, ?_, ?_⟩ <;> simp [step, inflight, ha]
  | waiting j sent =>
    have hl : lost = [] := lost_nil_of_not_quit h (fun e => by cases e)
    obtain ⟨hd, ha, _, _⟩ := h
    simp only at hd ha hl
    subst hl; subst hd
    simp only [inflight, List.append_nil] at ha
    cases ev with
    | job j' pre => refine ⟨?_, ?_, ?_, ?_⟩ <;> simp [step, inflight, ha]
    | msg r => cases r <;> (refine ⟨?_, ?_, ?_, ?_⟩ <;> simp [step, Arms.good, leave, inflight, ha])
    | timeout => refine ⟨?_, ?_, ?_, ?_⟩ <;> simp [step, Arms.good, leave, inflight, ha]
    | disconnect => refine ⟨?_, ?_, ?_, ?_⟩ <;> simp [step, Arms.good, leave, inflight, ha]
    | cancelExt => refine ⟨?_, ?_, ?_, ?_⟩ <;> simp [step, Arms.good, leave, inflight, ha]
    | cancelInt => refine ⟨?_, ?_, ?_, ?_⟩ <;> simp [step, Arms.good, leave, inflight, ha]
    | deliver => refine ⟨?_, ?_, ?_, ?_⟩ <;> simp [step, inflight, ha]
    | quit => refine ⟨?_, ?_, ?_, ?_⟩ <;> simp [step, inflight, ha]
  | reporting j e =>
    have hl : lost = [] := lost_nil_of_not_quit h (fun e => by cases e)
    obtain ⟨hd, ha, _, _⟩ := h
    simp only at hd ha hl
    subst hl; subst hd
    simp only [inflight, List.append_nil] at ha
    cases ev with
    | job j' pre => refine ⟨?_, ?_, ?_, ?_⟩ <;> simp [step, inflight, ha]
    | msg r => refine ⟨?_, ?_, ?_, ?_⟩ <;> simp [step, inflight, ha]
    | timeout => refine ⟨?_, ?_, ?_, ?_⟩ <;> simp [step, inflight, ha]
    | disconnect => refine ⟨?_, ?_, ?_, ?_⟩ <;> simp [step, inflight, ha]
    | cancelExt => refine ⟨?_, ?_, ?_, ?_⟩ <;> simp [step, inflight, ha]
    | cancelInt => refine ⟨?_, ?_, ?_, ?_⟩ <;> simp [step, inflight, ha]
    | deliver =>
      by_cases he : e = Err.disconnected <;>
        (refine ⟨?_, ?_, ?_, ?_⟩ <;> simp [step, Arms.good, inflight, ha, he])
    | quit => refine ⟨?_, ?_, ?_, ?_⟩ <;> simp [step, inflight, ha]

theorem winv_run (s : State) (es : List Ev) (h : WInv s) : WInv (run Arms.good s es) := by
  induction es generalizing s with
  | nil => exact h
  | cons e es ih => exact ih _ (winv_step s e h)

end Neutrino.Wrk
