import Neutrino.Spec.GetBlock
namespace Neutrino.GetBlock
open Neutrino

/-! ### the decision function -/

theorem decision_accept_iff (t : Nat) (r : Resp) :
    decision t r = .accept ↔ (r.isBlock = true ∧ r.hdr = t ∧ r.sane = true ∧ r.wit = true) := by
  unfold decision
  cases hb : r.isBlock <;> cases hs : r.sane <;> cases hw : r.wit <;> by_cases hh : r.hdr = t <;> simp [hh]

theorem decision_ban_iff (t : Nat) (r : Resp) :
    decision t r = .ban ↔ (r.isBlock = true ∧ r.hdr = t ∧ (r.sane = false ∨ r.wit = false)) := by
  unfold decision
  cases hb : r.isBlock <;> cases hs : r.sane <;> cases hw : r.wit <;> by_cases hh : r.hdr = t <;> simp [hh]

theorem decision_ignore_iff (t : Nat) (r : Resp) :
    decision t r = .ignore ↔ (r.isBlock = false ∨ r.hdr ≠ t) := by
  unfold decision
  cases hb : r.isBlock <;> cases hs : r.sane <;> cases hw : r.wit <;> by_cases hh : r.hdr = t <;> simp [hh]

theorem keyOf_inj {t t' : Nat} {b b' : Bool} (h : keyOf t b = keyOf t' b') : t = t' ∧ b = b' := by
  unfold keyOf at h
  cases b <;> cases b' <;> simp at h <;> first | (constructor <;> first | omega | rfl) | omega

/-! ### the response stream -/

/-- the responses the handler is actually called with -/
def seen (cont : Bool) (t : Nat) : List Resp → List Resp
  | [] => []
  | r :: rs => if decision t r = .accept ∧ cont = false then [r] else r :: seen cont t rs

theorem seen_sub (cont : Bool) (t : Nat) (rs : List Resp) : ∀ r ∈ seen cont t rs, r ∈ rs := by
  induction rs with
  | nil => intro r h; simp [seen] at h
  | cons a rs ih =>
    intro r h
    simp only [seen] at h
    split at h
    · simp at h; simp [h]
    · rcases List.mem_cons.mp h with h | h
      · simp [h]
      · exact List.mem_cons_of_mem _ (ih r h)

theorem handle_progress (t : Nat) (h : HState) (r : Resp) :
    (handle t h r).2 = .finished ↔ decision t r = .accept := by
  unfold handle
  cases decision t r <;> simp

theorem handle_bans (t : Nat) (h : HState) (r : Resp) (p : Nat) :
    p ∈ (handle t h r).1.bans ↔ (p ∈ h.bans ∨ (decision t r = .ban ∧ r.peer = p)) := by
  unfold handle
  cases hd : decision t r <;> simp
  constructor
  · rintro (h | h)
    · exact Or.inr h.symm
    · exact Or.inl h
  · rintro (h | h)
    · exact Or.inr h
    · exact Or.inl h.symm

theorem handle_found (t : Nat) (h : HState) (r : Resp) :
    (handle t h r).1.found = (if decision t r = .accept then some r else h.found) := by
  unfold handle
  cases hd : decision t r <;> simp

theorem feed_bans (cont : Bool) (t : Nat) (rs : List Resp) : ∀ (h : HState) (p : Nat),
    p ∈ (feed cont t h rs).1.bans ↔
      (p ∈ h.bans ∨ ∃ r ∈ seen cont t rs, decision t r = .ban ∧ r.peer = p) := by
  induction rs with
  | nil => intro h p; simp [feed, seen]
  | cons a rs ih =>
    intro h p
    simp only [feed, seen]
    by_cases hc : (handle t h a).2 = .finished ∧ cont = false
    · have hc' : decision t a = .accept ∧ cont = false := ⟨(handle_progress t h a).mp hc.1, hc.2⟩
      simp only [hc, hc', and_self, ↓reduceIte]
      rw [handle_bans]
      simp
    · have hc' : ¬ (decision t a = .accept ∧ cont = false) := by
        intro hx; exact hc ⟨(handle_progress t h a).mpr hx.1, hx.2⟩
      simp only [hc, hc', ↓reduceIte]
      rw [ih, handle_bans]
      simp only [List.mem_cons, exists_eq_or_imp]
      constructor
      · rintro ((h1 | h1) | h1)
        · exact Or.inl h1
        · exact Or.inr (Or.inl h1)
        · exact Or.inr (Or.inr h1)
      · rintro (h1 | h1 | h1)
        · exact Or.inl (Or.inl h1)
        · exact Or.inl (Or.inr h1)
        · exact Or.inr h1

theorem feed_found (cont : Bool) (t : Nat) (rs : List Resp) : ∀ (h : HState) (r : Resp),
    (feed cont t h rs).1.found = some r →
      (h.found = some r ∨ (r ∈ seen cont t rs ∧ decision t r = .accept)) := by
  induction rs with
  | nil => intro h r hf; simp [feed] at hf; exact Or.inl hf
  | cons a rs ih =>
    intro h r hf
    simp only [feed, seen] at hf ⊢
    by_cases hc : (handle t h a).2 = .finished ∧ cont = false
    · have hc' : decision t a = .accept ∧ cont = false := ⟨(handle_progress t h a).mp hc.1, hc.2⟩
      simp only [hc, hc', and_self, ↓reduceIte] at hf ⊢
      rw [handle_found] at hf
      simp only [hc'.1, ↓reduceIte, Option.some.injEq] at hf
      subst hf
      exact Or.inr ⟨by simp, hc'.1⟩
    · have hc' : ¬ (decision t a = .accept ∧ cont = false) := by
        intro hx; exact hc ⟨(handle_progress t h a).mpr hx.1, hx.2⟩
      simp only [hc, hc', ↓reduceIte] at hf ⊢
      rcases ih _ r hf with h1 | h1
      · rw [handle_found] at h1
        by_cases hd : decision t a = .accept
        · simp only [hd, ↓reduceIte, Option.some.injEq] at h1
          subst h1
          exact Or.inr ⟨by simp, hd⟩
        · simp only [hd, ↓reduceIte] at h1
          exact Or.inl h1
      · exact Or.inr ⟨List.mem_cons_of_mem _ h1.1, h1.2⟩

theorem feed_found_none (cont : Bool) (t : Nat) (rs : List Resp)
    (hno : ∀ r ∈ rs, decision t r ≠ .accept) : ∀ (h : HState),
    (feed cont t h rs).1.found = h.found := by
  induction rs with
  | nil => intro h; simp [feed]
  | cons a rs ih =>
    intro h
    have ha : decision t a ≠ .accept := hno a (by simp)
    have hc : ¬ ((handle t h a).2 = .finished ∧ cont = false) := by
      intro hx; exact ha ((handle_progress t h a).mp hx.1)
    simp only [feed, hc, ↓reduceIte]
    rw [ih (fun r hr => hno r (List.mem_cons_of_mem _ hr)), handle_found]
    simp [ha]

theorem feed_prog_length (cont : Bool) (t : Nat) (rs : List Resp) : ∀ (h : HState),
    (feed cont t h rs).2.length = (seen cont t rs).length := by
  induction rs with
  | nil => intro h; simp [feed, seen]
  | cons a rs ih =>
    intro h
    simp only [feed, seen]
    by_cases hc : (handle t h a).2 = .finished ∧ cont = false
    · have hc' : decision t a = .accept ∧ cont = false := ⟨(handle_progress t h a).mp hc.1, hc.2⟩
      simp [hc, hc']
    · have hc' : ¬ (decision t a = .accept ∧ cont = false) := by
        intro hx; exact hc ⟨(handle_progress t h a).mpr hx.1, hx.2⟩
      simp only [hc, hc', ↓reduceIte, List.length_cons]
      rw [ih]

/-- responses that are not blocks for the requested header can be deleted from
the stream without changing what the handler writes -/
theorem feed_ignores (cont : Bool) (t : Nat) (rs : List Resp) : ∀ (h : HState),
    (feed cont t h rs).1 = (feed cont t h (rs.filter (fun r => decide (decision t r ≠ .ignore)))).1 := by
  induction rs with
  | nil => intro h; rfl
  | cons a rs ih =>
    intro h
    by_cases hd : decision t a = .ignore
    · have hf : (a :: rs).filter (fun r => decide (decision t r ≠ .ignore)) =
          rs.filter (fun r => decide (decision t r ≠ .ignore)) := by
        simp [List.filter, hd]
      rw [hf, ← ih]
      have hh : handle t h a = (h, .none) := by unfold handle; rw [hd]
      simp only [feed, hh]
      simp
    · have hf : (a :: rs).filter (fun r => decide (decision t r ≠ .ignore)) =
          a :: rs.filter (fun r => decide (decision t r ≠ .ignore)) := by
        simp [List.filter, hd]
      rw [hf]
      simp only [feed]
      by_cases hc : (handle t h a).2 = .finished ∧ cont = false
      · simp only [hc, and_self, ↓reduceIte]
      · simp only [hc, ↓reduceIte]
        exact ih _

/-- a dispatcher that stops at the first `Finished` ends with the first acceptable
response of the stream as `foundBlock`, whatever precedes it -/
theorem feed_first_accept (t : Nat) (rs : List Resp) (r : Resp) : ∀ (h : HState),
    rs.find? (fun x => decide (decision t x = .accept)) = some r →
    (feed false t h rs).1.found = some r := by
  induction rs with
  | nil => intro h hf; simp at hf
  | cons a rs ih =>
    intro h hf
    simp only [feed]
    by_cases hd : decision t a = .accept
    · have ha : a = r := by simpa [List.find?, hd] using hf
      subst ha
      have hp : (handle t h a).2 = .finished := (handle_progress t h a).mpr hd
      split
      · simp only [handle_found, hd, ↓reduceIte]
      · rename_i hn; exact absurd ⟨hp, by simp⟩ hn
    · have hf' : rs.find? (fun x => decide (decision t x = .accept)) = some r := by
        simpa [List.find?, hd] using hf
      split
      · rename_i hy; exact absurd ((handle_progress t h a).mp hy.1) hd
      · exact ih _ hf'

/-! ### the cache (`Lru.Spec`) -/

theorem evict_sub (cap : Nat) (bad : List Nat) (needed : Nat) (ll : List Lru.Entry) (ev : Bool) :
    ∀ e ∈ (Lru.Spec.evict cap bad needed ll ev).1, e ∈ ll := by
  induction ll generalizing ev with
  | nil => intro e h; simp [Lru.Spec.evict] at h
  | cons b rest ih =>
    intro e h
    simp only [Lru.Spec.evict] at h
    split at h
    · split at h
      · exact h
      · exact List.mem_cons_of_mem _ (ih true e h)
    · exact h

theorem spec_get_val {sp : Lru.Spec} {k v : Nat} (h : (sp.step (.get k)).2 = .val v) :
    ∃ e ∈ sp.items, e.key = k ∧ e.vid = v := by
  simp only [Lru.Spec.step] at h
  cases hf : sp.find k with
  | none => simp [hf] at h
  | some el =>
    simp only [hf] at h
    have hm : el ∈ sp.items := List.mem_of_find?_eq_some hf
    have hk : el.key = k := by
      have := List.find?_some hf
      simpa using this
    refine ⟨el, hm, hk, ?_⟩
    simpa using h

theorem spec_get_items {sp : Lru.Spec} {k : Nat} :
    ∀ e, e ∈ (sp.step (.get k)).1.items → e ∈ sp.items := by
  intro e h
  simp only [Lru.Spec.step] at h
  cases hf : sp.find k with
  | none => simpa [hf] using h
  | some el =>
    simp only [hf] at h
    have hm : el ∈ sp.items := List.mem_of_find?_eq_some hf
    rcases List.mem_append.mp h with h | h
    · exact List.mem_of_mem_erase h
    · simp at h; rw [h]; exact hm

theorem spec_get_miss {sp : Lru.Spec} {k : Nat} (h : ∀ v, (sp.step (.get k)).2 ≠ .val v) :
    (sp.step (.get k)).1 = sp := by
  simp only [Lru.Spec.step] at h ⊢
  cases hf : sp.find k with
  | none => simp
  | some el => simp only [hf] at h; exact absurd rfl (h el.vid)

theorem spec_get_miss_of_nokey {sp : Lru.Spec} {k : Nat} (h : ∀ e ∈ sp.items, e.key ≠ k) :
    ∀ v, (sp.step (.get k)).2 ≠ .val v := by
  intro v hv
  obtain ⟨e, he, hk, _⟩ := spec_get_val hv
  exact h e he hk

theorem spec_put_items {sp : Lru.Spec} {k v z : Nat} :
    ∀ e, e ∈ (sp.step (.put k v z)).1.items → (e ∈ sp.items ∨ e = ⟨k, v, z⟩) := by
  intro e h
  simp only [Lru.Spec.step] at h
  split at h
  · exact Or.inl h
  · split at h
    · exact Or.inl h
    · cases hf : sp.find k with
      | none =>
        simp only [hf] at h
        have hs := evict_sub sp.cap sp.bad z sp.items false
        generalize Lru.Spec.evict sp.cap sp.bad z sp.items false = r at h hs
        obtain ⟨a, b, c⟩ := r
        cases c
        · simp at h; exact Or.inl (hs e h)
        · simp at h
          rcases h with h | h
          · exact Or.inl (hs e h)
          · exact Or.inr h
      | some el =>
        simp only [hf] at h
        split at h
        · exact Or.inl h
        · have hs := evict_sub sp.cap sp.bad z (sp.items.erase el) false
          generalize Lru.Spec.evict sp.cap sp.bad z (sp.items.erase el) false = r at h hs
          obtain ⟨a, b, c⟩ := r
          cases c
          · simp at h; exact Or.inl (List.mem_of_mem_erase (hs e h))
          · simp at h
            rcases h with h | h
            · exact Or.inl (List.mem_of_mem_erase (hs e h))
            · exact Or.inr h

/-! ### `getBlock` by cases -/

/-- the network branch (cache miss), with the cache untouched by the miss -/
def afterQuery (s : State) (c : Call) : Outcome :=
  let hp := feed c.cont c.target { found := none, bans := s.bans } c.resps
  let s1 : State := { cache := s.cache, bans := hp.1.bans }
  match c.verdict with
  | .quit => ⟨s1, .errQuit, hp.2, 1⟩
  | .err => ⟨s1, .errQuery, hp.2, 1⟩
  | .nil =>
    match hp.1.found with
    | none => ⟨s1, .errNotFound, hp.2, 1⟩
    | some r =>
      ⟨{ s1 with cache := (s1.cache.step (.put (keyOf c.target c.base) r.rid r.size)).1 }, .ret r.rid, hp.2, 1⟩

theorem getBlock_unknown (s : State) (c : Call) (h : c.known = false) :
    getBlock s c = ⟨s, .errNoHeader, [], 0⟩ := by
  simp [getBlock, h]

theorem getBlock_hit (s : State) (c : Call) (hk : c.known = true) (v : Nat)
    (h : (s.cache.step (.get (keyOf c.target c.base))).2 = .val v) :
    getBlock s c = ⟨{ s with cache := (s.cache.step (.get (keyOf c.target c.base))).1 }, .ret v, [], 0⟩ := by
  unfold getBlock
  simp only [hk, Bool.true_eq_false, ↓reduceIte]
  generalize s.cache.step (.get (keyOf c.target c.base)) = p at h ⊢
  obtain ⟨c', o⟩ := p
  simp only at h
  subst h
  rfl

theorem getBlock_miss (s : State) (c : Call) (hk : c.known = true)
    (h : ∀ v, (s.cache.step (.get (keyOf c.target c.base))).2 ≠ .val v) :
    getBlock s c = afterQuery s c := by
  have hs := spec_get_miss h
  unfold getBlock afterQuery
  simp only [hk, Bool.true_eq_false, ↓reduceIte]
  generalize s.cache.step (.get (keyOf c.target c.base)) = p at h hs ⊢
  obtain ⟨c', o⟩ := p
  simp only at h hs
  subst hs
  cases o with
  | val v => exact absurd rfl (h v)
  | _ => rfl

/-- hit or miss -/
theorem getBlock_cases (s : State) (c : Call) :
    (c.known = false ∧ getBlock s c = ⟨s, .errNoHeader, [], 0⟩) ∨
    (c.known = true ∧ ∃ v, (s.cache.step (.get (keyOf c.target c.base))).2 = .val v ∧
      getBlock s c = ⟨{ s with cache := (s.cache.step (.get (keyOf c.target c.base))).1 }, .ret v, [], 0⟩) ∨
    (c.known = true ∧ (∀ v, (s.cache.step (.get (keyOf c.target c.base))).2 ≠ .val v) ∧
      getBlock s c = afterQuery s c) := by
  cases hk : c.known with
  | false => exact Or.inl ⟨rfl, getBlock_unknown s c hk⟩
  | true =>
    by_cases h : ∃ v, (s.cache.step (.get (keyOf c.target c.base))).2 = .val v
    · obtain ⟨v, hv⟩ := h
      exact Or.inr (Or.inl ⟨rfl, v, hv, getBlock_hit s c hk v hv⟩)
    · have h' : ∀ v, (s.cache.step (.get (keyOf c.target c.base))).2 ≠ .val v := fun v hv => h ⟨v, hv⟩
      exact Or.inr (Or.inr ⟨rfl, h', getBlock_miss s c hk h'⟩)

/-! ### provenance of cache entries -/

/-- `(key, vid)` is the cache key of a call and the id of a response of that
call which the handler's decision function accepts. -/
def Prov (calls : List Call) (key vid : Nat) : Prop :=
  ∃ c ∈ calls, ∃ r ∈ c.resps, keyOf c.target c.base = key ∧ r.rid = vid ∧ decision c.target r = .accept

def CacheOk (calls : List Call) (s : State) : Prop :=
  ∀ e ∈ s.cache.items, Prov calls e.key e.vid

theorem Prov.mono {calls : List Call} {k v : Nat} (c : Call) (h : Prov calls k v) : Prov (calls ++ [c]) k v := by
  obtain ⟨c', hc', r, hr, h1, h2, h3⟩ := h
  exact ⟨c', List.mem_append_left _ hc', r, hr, h1, h2, h3⟩

theorem afterQuery_found (s : State) (c : Call) (rid : Nat) (h : (afterQuery s c).result = .ret rid) :
    c.verdict = .nil ∧ ∃ r ∈ seen c.cont c.target c.resps, decision c.target r = .accept ∧ r.rid = rid ∧
      (afterQuery s c).st.cache = (s.cache.step (.put (keyOf c.target c.base) r.rid r.size)).1 := by
  unfold afterQuery at h ⊢
  cases hv : c.verdict with
  | quit => simp [hv] at h
  | err => simp [hv] at h
  | nil =>
    simp only [hv] at h ⊢
    cases hf : (feed c.cont c.target { found := none, bans := s.bans } c.resps).1.found with
    | none => simp [hf] at h
    | some r =>
      simp only [hf] at h ⊢
      rcases feed_found _ _ _ _ r hf with h1 | h1
      · simp at h1
      · refine ⟨trivial, r, h1.1, h1.2, ?_, rfl⟩
        simpa using h

theorem afterQuery_err_cache (s : State) (c : Call) (h : (afterQuery s c).result.isRet = false) :
    (afterQuery s c).st.cache = s.cache := by
  unfold afterQuery at h ⊢
  cases hv : c.verdict with
  | quit => simp [hv]
  | err => simp [hv]
  | nil =>
    simp only [hv] at h ⊢
    cases hf : (feed c.cont c.target { found := none, bans := s.bans } c.resps).1.found with
    | none => simp [hf]
    | some r => simp [hf, Result.isRet] at h

theorem afterQuery_bans (s : State) (c : Call) :
    (afterQuery s c).st.bans = (feed c.cont c.target { found := none, bans := s.bans } c.resps).1.bans := by
  unfold afterQuery
  cases hv : c.verdict with
  | quit => simp [hv]
  | err => simp [hv]
  | nil =>
    simp only [hv]
    cases hf : (feed c.cont c.target { found := none, bans := s.bans } c.resps).1.found <;> simp [hf]

theorem afterQuery_prog (s : State) (c : Call) :
    (afterQuery s c).prog = (feed c.cont c.target { found := none, bans := s.bans } c.resps).2 := by
  unfold afterQuery
  cases hv : c.verdict with
  | quit => simp [hv]
  | err => simp [hv]
  | nil =>
    simp only [hv]
    cases hf : (feed c.cont c.target { found := none, bans := s.bans } c.resps).1.found <;> simp [hf]

theorem getBlock_ret_prov (calls : List Call) (s : State) (c : Call) (hok : CacheOk calls s) (rid : Nat)
    (h : (getBlock s c).result = .ret rid) : Prov (calls ++ [c]) (keyOf c.target c.base) rid := by
  rcases getBlock_cases s c with ⟨_, he⟩ | ⟨_, v, hv, he⟩ | ⟨_, hm, he⟩
  · rw [he] at h; simp at h
  · rw [he] at h
    simp only [Result.ret.injEq] at h
    subst h
    obtain ⟨e, hmem, hk, hvid⟩ := spec_get_val hv
    have := hok e hmem
    rw [hk, hvid] at this
    exact this.mono c
  · rw [he] at h
    obtain ⟨_, r, hr, hd, hrid, _⟩ := afterQuery_found s c rid h
    exact ⟨c, by simp, r, seen_sub _ _ _ r hr, rfl, hrid, hd⟩

theorem getBlock_cacheOk (calls : List Call) (s : State) (c : Call) (hok : CacheOk calls s) :
    CacheOk (calls ++ [c]) (getBlock s c).st := by
  rcases getBlock_cases s c with ⟨_, he⟩ | ⟨_, v, hv, he⟩ | ⟨_, hm, he⟩
  · rw [he]; intro e hmem; exact (hok e hmem).mono c
  · rw [he]; intro e hmem
    exact (hok e (spec_get_items e hmem)).mono c
  · rw [he]
    cases hr : (afterQuery s c).result with
    | ret rid =>
      obtain ⟨_, r, hrs, hd, hrid, hcache⟩ := afterQuery_found s c rid hr
      intro e hmem
      rw [hcache] at hmem
      rcases spec_put_items e hmem with h1 | h1
      · exact (hok e h1).mono c
      · subst h1
        exact ⟨c, by simp, r, seen_sub _ _ _ r hrs, rfl, rfl, hd⟩
    | _ =>
      have hc := afterQuery_err_cache s c (by rw [hr]; rfl)
      intro e hmem
      rw [hc] at hmem
      exact (hok e hmem).mono c

theorem run_append (s : State) (cs : List Call) (c : Call) : run s (cs ++ [c]) = (getBlock (run s cs) c).st := by
  induction cs generalizing s with
  | nil => rfl
  | cons a cs ih => simp only [List.cons_append, run]; exact ih _

theorem run_cacheOk_from (pre cs : List Call) (s : State) (h : CacheOk pre s) : CacheOk (pre ++ cs) (run s cs) := by
  induction cs generalizing s pre with
  | nil => simpa [run] using h
  | cons c cs ih =>
    have := ih (pre ++ [c]) _ (getBlock_cacheOk pre s c h)
    simpa [run] using this

theorem run_cacheOk (cap : Nat) (calls : List Call) : CacheOk calls (run (init cap) calls) := by
  have := run_cacheOk_from [] calls (init cap) (by intro e h; simp [init] at h)
  simpa using this

end Neutrino.GetBlock
