import Neutrino.Lemmas.StoreRep
namespace Neutrino.Store

theorem height?_addHeaders (db : Db) (ids : List Nat) (s x : Nat) (hnd : ids.Nodup) :
    (db.addHeaders ids s).height? x =
      match ids.idxOf? x with
      | some j => some (s + j)
      | none => db.height? x := by
  have e : (db.addHeaders ids s).height? x = (Db.addHeaders.go db ids s).height? x := rfl
  rw [e]; exact height?_addHeaders_go db ids s x hnd

theorem addHeaders_ftip (db : Db) (ids : List Nat) (s : Nat) : (db.addHeaders ids s).ftip = db.ftip := by
  show (Db.addHeaders.go db ids s).ftip = db.ftip
  exact addHeaders_go_ftip db ids s

theorem addHeaders_btip (db : Db) (ids : List Nat) (s : Nat) :
    (db.addHeaders ids s).btip = ids.getLast?.orElse (fun _ => db.btip) := rfl

theorem width_pos (w : Which) : 0 < width w := by
  cases w <;> simp [width, Gen.Store.blockHeaderSize, Gen.Store.regularFilterHeaderSize]

/-- a complete append to a clean file -/
theorem appendAll_clean (xs ids : List Nat) (w : Nat) (hw : 0 < w) :
    ({ ents := xs } : FileSt).appendAll w ids = { ents := xs ++ ids } := by
  simp only [FileSt.appendAll, FileSt.appendBytes, ↓reduceIte]
  have h1 : ids.length * w / w = ids.length := Nat.mul_div_cancel _ hw
  simp [h1]

/-- an append cut after `t` bytes leaves some whole entries of the batch and junk -/
theorem appendBytes_clean (xs ids : List Nat) (w t : Nat) :
    ∃ k j, ({ ents := xs } : FileSt).appendBytes w ids t = { ents := xs ++ ids.take k, junk := j } := by
  simp only [FileSt.appendBytes, ↓reduceIte]
  exact ⟨_, _, rfl⟩

def Inj.firesAt : Inj → Nat → Bool
  | .none, _ => false
  | .fault _ fs _, s => fs == s
  | .crash cs _, s => cs == s

theorem fileWrite_quiet (w : Which) (ids : List Nat) (c : Ctx) (hq : c.inj.firesAt c.step = false) :
    fileWrite w ids c = .ok none { c with step := c.step + 1, d := c.d.setFile w ((c.d.file w).appendAll (width w) ids) } := by
  unfold fileWrite
  cases hi : c.inj with
  | none => simp
  | crash cs t =>
    have : cs ≠ c.step := by simpa [Inj.firesAt, hi] using hq
    simp [this]
  | fault k fs a =>
    have : fs ≠ c.step := by simpa [Inj.firesAt, hi] using hq
    cases k <;> simp [this]

theorem fileTruncate_quiet (w : Which) (target : Option FileSt) (c : Ctx) (hq : c.inj.firesAt c.step = false) :
    fileTruncate w target c =
      match target with
      | some f => .ok true { c with step := c.step + 1, d := c.d.setFile w f }
      | none => .ok false { c with step := c.step + 1 } := by
  unfold fileTruncate
  cases hi : c.inj with
  | none => cases target <;> simp
  | crash cs t =>
    have : cs ≠ c.step := by simpa [Inj.firesAt, hi] using hq
    cases target <;> simp [this]
  | fault k fs a =>
    have : fs ≠ c.step := by simpa [Inj.firesAt, hi] using hq
    cases k <;> cases target <;> simp [this]

theorem dbUpdate_quiet (g : Db → Db) (c : Ctx) (hq : c.inj.firesAt c.step = false) :
    dbUpdate g c = .ok true { c with step := c.step + 1, d := { c.d with db := g c.d.db } } := by
  unfold dbUpdate
  cases hi : c.inj with
  | none => simp
  | crash cs t =>
    have : cs ≠ c.step := by simpa [Inj.firesAt, hi] using hq
    simp [this]
  | fault k fs a =>
    have : fs ≠ c.step := by simpa [Inj.firesAt, hi] using hq
    cases k <;> simp [this]

end Neutrino.Store
