/-
Lemmas for C13's enforcement clause.  Core Lean only.
-/
import Neutrino.Model.BanEnforce
import Neutrino.Lemmas.Ban
namespace Neutrino.Ban

/-! ### store calls in terms of `keyOf` -/

theorem step_status_none (s : State) (t : Int) (tg : Target) (h : keyOf tg = none) :
    (step s t (.status tg)).1 = s ∧ ∀ r e, (step s t (.status tg)).2 ≠ .banned r e := by
  simp only [keyOf] at h
  simp only [step]
  cases hr : resolve tg with
  | none => exact ⟨rfl, fun _ _ => by simp⟩
  | some p =>
    obtain ⟨ip, m⟩ := p
    simp only [hr] at h
    simp only [h]
    exact ⟨by first | rfl | trivial, fun _ _ => by simp⟩

theorem step_status_some (s : State) (t : Int) (tg : Target) (k : Bytes) (h : keyOf tg = some k) :
    step s t (.status tg) =
      match lookup s.recs k with
      | none => (s, .notBanned)
      | some (e, r) => if t ≥ e * 1000 then ({ recs := del s.recs k }, .notBanned) else (s, .banned r (e * 1000)) := by
  simp only [keyOf] at h
  simp only [step]
  cases hr : resolve tg with
  | none => simp only [hr] at h; exact absurd h (by simp)
  | some p =>
    obtain ⟨ip, m⟩ := p
    simp only [hr] at h
    simp only [h]
    rfl

theorem step_ban_none (s : State) (t : Int) (tg : Target) (r : Nat) (d : Int) (h : keyOf tg = none) :
    (step s t (.ban tg r d)).1 = s := by
  simp only [keyOf] at h
  simp only [step]
  cases hr : resolve tg with
  | none => rfl
  | some p => obtain ⟨ip, m⟩ := p; simp only [hr] at h; simp only [h]

theorem step_ban_some (s : State) (t : Int) (tg : Target) (r : Nat) (d : Int) (k : Bytes) (h : keyOf tg = some k) :
    (step s t (.ban tg r d)).1 = { recs := put s.recs k ((t + d) / 1000, r) } := by
  simp only [keyOf] at h
  simp only [step]
  cases hr : resolve tg with
  | none => simp only [hr] at h; exact absurd h (by simp)
  | some p => obtain ⟨ip, m⟩ := p; simp only [hr] at h; simp only [h]

theorem step_unban_none (s : State) (t : Int) (tg : Target) (h : keyOf tg = none) :
    (step s t (.unban tg)).1 = s := by
  simp only [keyOf] at h
  simp only [step]
  cases hr : resolve tg with
  | none => rfl
  | some p => obtain ⟨ip, m⟩ := p; simp only [hr] at h; simp only [h]

theorem step_unban_some (s : State) (t : Int) (tg : Target) (k : Bytes) (h : keyOf tg = some k) :
    (step s t (.unban tg)).1 = { recs := del s.recs k } := by
  simp only [keyOf] at h
  simp only [step]
  cases hr : resolve tg with
  | none => simp only [hr] at h; exact absurd h (by simp)
  | some p => obtain ⟨ip, m⟩ := p; simp only [hr] at h; simp only [h]

theorem lookup_del_some (rs : Recs) (k k2 : Bytes) (v : Int × Nat) (h : lookup (del rs k) k2 = some v) :
    lookup rs k2 = some v := by
  by_cases hk : k = k2
  · subst hk; rw [lookup_del_self] at h; exact absurd h (by simp)
  · rw [lookup_del_ne _ _ _ hk] at h; exact h

/-- A `Status` call never adds or changes a record. -/
theorem lookup_after_status (s : State) (t : Int) (tg : Target) (k : Bytes) (v : Int × Nat)
    (h : lookup (step s t (.status tg)).1.recs k = some v) : lookup s.recs k = some v := by
  cases hk : keyOf tg with
  | none => rw [(step_status_none s t tg hk).1] at h; exact h
  | some k0 =>
    rw [step_status_some s t tg k0 hk] at h
    cases hl : lookup s.recs k0 with
    | none => simp only [hl] at h; exact h
    | some w =>
      obtain ⟨e, r⟩ := w
      simp only [hl] at h
      by_cases hexp : t ≥ e * 1000
      · simp only [hexp, ↓reduceIte] at h; exact lookup_del_some _ _ _ _ h
      · simp only [hexp, ↓reduceIte] at h; exact h

theorem lookup_after_unban (s : State) (t : Int) (tg : Target) (k : Bytes) (v : Int × Nat)
    (h : lookup (step s t (.unban tg)).1.recs k = some v) : lookup s.recs k = some v := by
  cases hk : keyOf tg with
  | none => rw [step_unban_none s t tg hk] at h; exact h
  | some k0 => rw [step_unban_some s t tg k0 hk] at h; exact lookup_del_some _ _ _ _ h

theorem isBanned_fst (s : State) (t : Int) (p : Peer) :
    (isBanned s t p).1 = (step s t (.status p.target)).1 := by
  simp only [isBanned]
  split <;> simp_all

theorem isBanned_false (s : State) (t : Int) (p : Peer) (h : (isBanned s t p).2 = false) :
    ∀ r e, (step s t (.status p.target)).2 ≠ .banned r e := by
  intro r e hb
  have ht : (isBanned s t p).2 = true := by
    simp only [isBanned]
    generalize step s t (.status p.target) = x at hb
    obtain ⟨s', o⟩ := x
    simp only at hb
    subst hb
    rfl
  rw [ht] at h
  exact absurd h (by simp)

/-- After a `Status` that did not say "banned" the record is gone. -/
theorem lookup_none_of_not_banned (s : State) (t : Int) (tg : Target) (k : Bytes) (hk : keyOf tg = some k)
    (h : ∀ r e, (step s t (.status tg)).2 ≠ .banned r e) :
    lookup (step s t (.status tg)).1.recs k = none := by
  rw [step_status_some s t tg k hk] at h ⊢
  cases hl : lookup s.recs k with
  | none => simp only [hl]
  | some w =>
    obtain ⟨e, r⟩ := w
    simp only [hl] at h ⊢
    by_cases hexp : t ≥ e * 1000
    · simp only [hexp, ↓reduceIte]; exact lookup_del_self _ _
    · simp only [hexp, ↓reduceIte] at h; exact absurd rfl (h r (e * 1000))

/-! ### the invariant -/

/-- Every connected peer's network has no record, or one that has lapsed by `T`. -/
def Clean (n : Net) (T : Int) : Prop :=
  ∀ p, p ∈ n.connected → ∀ k e r, keyOf p.target = some k → lookup n.store.recs k = some (e, r) → e * 1000 ≤ T

/-- "one peer per host" on a set of peers: two peers whose addresses denote the
same (supported) IP network are the same peer -/
def OnePerHost (U : Peer → Prop) : Prop :=
  ∀ p q, U p → U q → keyOf p.target = keyOf q.target → keyOf p.target ≠ none → p = q

def InU (U : Peer → Prop) (n : Net) : Prop := ∀ p, p ∈ n.connected → U p

theorem mem_without {l : List Peer} {p q : Peer} (h : q ∈ without l p) : q ∈ l ∧ q ≠ p := by
  simp only [without, List.mem_filter, decide_eq_true_eq] at h
  exact h

theorem not_mem_without (l : List Peer) (p : Peer) : p ∉ without l p := by
  intro h; exact (mem_without h).2 rfl

/-- store only loses records, connected set only shrinks -/
theorem clean_shrink {n n' : Net} {T t : Int} (h : Clean n T) (hT : T ≤ t)
    (hs : ∀ k v, lookup n'.store.recs k = some v → lookup n.store.recs k = some v)
    (hc : ∀ p, p ∈ n'.connected → p ∈ n.connected) : Clean n' t := by
  intro p hp k e r hk hl
  exact Int.le_trans (h p (hc p hp) k e r hk (hs k _ hl)) hT

/-- `BanPeer`: the banned network's own peer is dropped; under one-peer-per-host nobody else shares the key -/
theorem clean_banPeer {U : Peer → Prop} (hU : OnePerHost U) {n : Net} {T t : Int} (h : Clean n T) (hT : T ≤ t)
    (hin : InU U n) (p : Peer) (hp : U p) (reason : Nat) : Clean (banPeer n t p reason) t := by
  intro q hq k e r hk hl
  simp only [banPeer] at hq hl
  obtain ⟨hqc, hne⟩ := mem_without hq
  cases hkp : keyOf p.target with
  | none =>
    rw [step_ban_none _ _ _ _ _ hkp] at hl
    exact Int.le_trans (h q hqc k e r hk hl) hT
  | some k0 =>
    rw [step_ban_some _ _ _ _ _ k0 hkp] at hl
    by_cases hkk : k0 = k
    · exfalso
      apply hne
      apply hU q p (hin q hqc) hp
      · rw [hk, hkp, hkk]
      · rw [hk]; simp
    · rw [lookup_put_ne _ _ _ _ hkk] at hl
      exact Int.le_trans (h q hqc k e r hk hl) hT

theorem clean_step {U : Peer → Prop} (hU : OnePerHost U) (n : Net) (T t : Int) (e : Ev)
    (h : Clean n T) (hin : InU U n) (he : U e.peer) (hT : T ≤ t) :
    Clean (stepNet n t e) t ∧ InU U (stepNet n t e) := by
  cases e with
  | outbound p =>
    have hst : (stepNet n t (.outbound p)).store = (step n.store t (.status p.target)).1 ∧
        (stepNet n t (.outbound p)).connected = n.connected := by
      simp only [stepNet]
      split
      · exact ⟨isBanned_fst _ _ _, rfl⟩
      · split <;> exact ⟨isBanned_fst _ _ _, rfl⟩
    constructor
    · exact clean_shrink h hT (fun k v hl => lookup_after_status _ _ _ _ _ (by rw [← hst.1]; exact hl))
        (fun q hq => by rw [← hst.2]; exact hq)
    · intro q hq; rw [hst.2] at hq; exact hin q hq
  | version p sv =>
    simp only [stepNet]
    by_cases hp : p ∈ n.pending
    · simp only [hp, ↓reduceIte]
      by_cases hr : hasRequired sv = true
      · simp only [hr, ↓reduceIte]
        exact ⟨clean_shrink h hT (fun _ _ hl => hl) (fun _ hq => hq), hin⟩
      · simp only [hr]
        constructor
        · have hc := clean_banPeer hU h hT hin p he reasonNoCompactFilters
          intro q hq k e r hk hl
          exact hc q hq k e r hk hl
        · intro q hq
          simp only [banPeer] at hq
          exact hin q (mem_without hq).1
    · simp only [hp, ↓reduceIte]
      exact ⟨clean_shrink h hT (fun _ _ hl => hl) (fun _ hq => hq), hin⟩
  | addPeer p =>
    simp only [stepNet]
    by_cases hp : p ∈ n.pending
    · simp only [hp, ↓reduceIte]
      have hshr : ∀ k v, lookup (isBanned n.store t p).1.recs k = some v → lookup n.store.recs k = some v := by
        intro k v hl; rw [isBanned_fst] at hl; exact lookup_after_status _ _ _ _ _ hl
      by_cases hb : (isBanned n.store t p).2 = true
      · simp only [hb, ↓reduceIte]
        exact ⟨clean_shrink h hT hshr (fun _ hq => hq), hin⟩
      · have hbf : (isBanned n.store t p).2 = false := by
          cases hv : (isBanned n.store t p).2 with
          | true => exact absurd hv hb
          | false => rfl
        simp only [hbf, Bool.false_eq_true, ↓reduceIte]
        by_cases hfull : n.connected.length ≥ n.maxPeers
        · simp only [hfull, ↓reduceIte]
          exact ⟨clean_shrink h hT hshr (fun _ hq => hq), hin⟩
        · simp only [hfull, ↓reduceIte]
          constructor
          · intro q hq k e r hk hl
            rw [isBanned_fst] at hl
            cases List.mem_cons.mp hq with
            | inl heq =>
              subst heq
              rw [lookup_none_of_not_banned _ _ _ k hk (isBanned_false _ _ _ hbf)] at hl
              exact absurd hl (by simp)
            | inr hqc =>
              exact Int.le_trans (h q hqc k e r hk (lookup_after_status _ _ _ _ _ hl)) hT
          · intro q hq
            cases List.mem_cons.mp hq with
            | inl heq => subst heq; exact he
            | inr hqc => exact hin q hqc
    · simp only [hp, ↓reduceIte]
      exact ⟨clean_shrink h hT (fun _ _ hl => hl) (fun _ hq => hq), hin⟩
  | banPeer p reason =>
    simp only [stepNet]
    refine ⟨clean_banPeer hU h hT hin p he reason, ?_⟩
    intro q hq
    simp only [banPeer] at hq
    exact hin q (mem_without hq).1
  | unbanPeer p =>
    simp only [stepNet]
    exact ⟨clean_shrink h hT (fun k v hl => lookup_after_unban _ _ _ _ _ hl) (fun _ hq => hq), hin⟩
  | done p =>
    simp only [stepNet]
    exact ⟨clean_shrink h hT (fun _ _ hl => hl) (fun q hq => (mem_without hq).1),
           fun q hq => hin q (mem_without hq).1⟩

theorem clean_run {U : Peer → Prop} (hU : OnePerHost U) (n : Net) (T : Int) (evs : EvHist)
    (h : Clean n T) (hin : InU U n) (he : ∀ x, x ∈ evs → U x.2.peer) (hm : monoEv T evs) :
    Clean (runNet n evs) (endEv T evs) := by
  induction evs generalizing n T with
  | nil => exact h
  | cons x rest ih =>
    obtain ⟨t, e⟩ := x
    simp only [runNet, endEv]
    obtain ⟨hc, hi⟩ := clean_step hU n T t e h hin (he (t, e) (List.mem_cons_self ..)) hm.1
    exact ih _ _ hc hi (fun y hy => he y (List.mem_cons_of_mem _ hy)) hm.2

/-- A clean connected peer is not banned. -/
theorem not_banned_of_clean (n : Net) (T now : Int) (hT : T ≤ now) (h : Clean n T) (p : Peer) (hp : p ∈ n.connected) :
    (isBanned n.store now p).2 = false := by
  have key : ∀ r e, (step n.store now (.status p.target)).2 ≠ .banned r e := by
    cases hk : keyOf p.target with
    | none => exact (step_status_none _ _ _ hk).2
    | some k =>
      intro r e
      rw [step_status_some _ _ _ k hk]
      cases hl : lookup n.store.recs k with
      | none => simp
      | some w =>
        obtain ⟨e', r'⟩ := w
        have hle := h p hp k e' r' hk hl
        have : now ≥ e' * 1000 := Int.le_trans hle hT
        simp only [this, ↓reduceIte]
        first | done | simp
  simp only [isBanned]
  all_goals
    generalize step n.store now (.status p.target) = x at key
    obtain ⟨s', o⟩ := x
    cases o <;> first | rfl | (exact absurd rfl (key _ _))

end Neutrino.Ban
