/-
Lemmas for C13's enforcement clause.  Core Lean only.
-/
import Neutrino.Model.BanEnforce
import Neutrino.Lemmas.Ban
namespace Neutrino.Ban

/-! ### store calls in terms of `keyOf` -/

theorem step_status_none (s : State) (t : Int) (tg : Target) (h : keyOf tg = none) :
    (step s t (.status tg)).1 = s ∧ ∀ r e, (step s t (.status tg)).2 ≠ .banned r e := by
  simp only [keyOf] at h
  simp only [step]
  cases hr : resolve tg with
  | none => exact ⟨rfl, fun _ _ => by simp⟩
  | some p =>
    obtain ⟨ip, m⟩ := p
    simp only [hr] at h
    simp only [h]
    exact ⟨by first | rfl | trivial, fun _ _ => by simp⟩

theorem step_status_some (s : State) (t : Int) (tg : Target) (k : Bytes) (h : keyOf tg = some k) :
    step s t (.status tg) =
      match lookup s.recs k with
      | none => (s, .notBanned)
      | some (e, r) => if t ≥ e * 1000 then ({ recs := del s.recs k }, .notBanned) else (s, .banned r (e * 1000)) := by
  simp only [keyOf] at h
  simp only [step]
  cases hr : resolve tg with
  | none => simp only [hr] at h; exact absurd h (by simp)
  | some p =>
    obtain ⟨ip, m⟩ := p
    simp only [hr] at h
    simp only [h]
    rfl

theorem step_ban_none (s : State) (t : Int) (tg : Target) (r : Nat) (d : Int) (h : keyOf tg = none) :
    (step s t (.ban tg r d)).1 = s := by
  simp only [keyOf] at h
  simp only [step]
  cases hr : resolve tg with
  | none => rfl
  | some p => obtain ⟨ip, m⟩ := p; simp only [hr] at h; simp only [h]

theorem step_ban_some (s : State) (t : Int) (tg : Target) (r : Nat) (d : Int) (k : Bytes) (h : keyOf tg = some k) :
    (step s t (.ban tg r d)).1 = { recs := put s.recs k ((t + d) / 1000, r) } := by
  simp only [keyOf] at h
  simp only [step]
  cases hr : resolve tg with
  | none => simp only [hr] at h; exact absurd h (by simp)
  | some p => obtain ⟨ip, m⟩ := p; simp only [hr] at h; simp only [h]

theorem step_unban_none (s : State) (t : Int) (tg : Target) (h : keyOf tg = none) :
    (step s t (.unban tg)).1 = s := by
  simp only [keyOf] at h
  simp only [step]
  cases hr : resolve tg with
  | none => rfl
  | some p => obtain ⟨ip, m⟩ := p; simp only [hr] at h; simp only [h]

theorem step_unban_some (s : State) (t : Int) (tg : Target) (k : Bytes) (h : keyOf tg = some k) :
    (step s t (.unban tg)).1 = { recs := del s.recs k } := by
  simp only [keyOf] at h
  simp only [step]
  cases hr : resolve tg with
  | none => simp only [hr] at h; exact absurd h (by simp)
  | some p => obtain ⟨ip, m⟩ := p; simp only [hr] at h; simp only [h]

theorem lookup_del_some (rs : Recs) (k k2 : Bytes) (v : Int × Nat) (h : lookup (del rs k) k2 = some v) :
    lookup rs k2 = some v := by
  by_cases hk : k = k2
  · subst hk; rw [lookup_del_self] at h; exact absurd h (by simp)
  · rw [lookup_del_ne _ _ _ hk] at h; exact h

/-- A `Status` call never adds or changes a record. -/
theorem lookup_after_status (s : State) (t : Int) (tg : Target) (k : Bytes) (v : Int × Nat)
    (h : lookup (step s t (.status tg)).1.recs k = some v) : lookup s.recs k = some v := by
  cases hk : keyOf tg with
  | none => rw [(step_status_none s t tg hk).1] at h; exact h
  | some k0 =>
    rw [step_status_some s t tg k0 hk] at h
    cases hl : lookup s.recs k0 with
    | none => simp only [hl] at h; exact h
    | some w =>
      obtain ⟨e, r⟩ := w
      simp only [hl] at h
      by_cases hexp : t ≥ e * 1000
      · simp only [hexp, ↓reduceIte] at h; exact lookup_del_some _ _ _ _ h
      · simp only [hexp, ↓reduceIte] at h; exact h

theorem lookup_after_unban (s : State) (t : Int) (tg : Target) (k : Bytes) (v : Int × Nat)
    (h : lookup (step s t (.unban tg)).1.recs k = some v) : lookup s.recs k = some v := by
  cases hk : keyOf tg with
  | none => rw [step_unban_none s t tg hk] at h; exact h
  | some k0 => rw [step_unban_some s t tg k0 hk] at h; exact lookup_del_some _ _ _ _ h

theorem isBanned_fst (s : State) (t : Int) (p : Peer) :
    (isBanned s t p).1 = (step s t (.status p.target)).1 := by
  simp only [isBanned]
  split <;> simp_all

theorem isBanned_false (s : State) (t : Int) (p : Peer) (h : (isBanned s t p).2 = false) :
    ∀ r e, (step s t (.status p.target)).2 ≠ .banned r e := by
  intro r e hb
  have ht : (isBanned s t p).2 = true := by
    simp only [isBanned]
    generalize step s t (.status p.target) = x at hb
    obtain ⟨s', o⟩ := x
    simp only at hb
    subst hb
    rfl
  rw [ht] at h
  exact absurd h (by simp)

/-- After a `Status` that did not say "banned" the record is gone. -/
theorem lookup_none_of_not_banned (s : State) (t : Int) (tg : Target) (k : Bytes) (hk : keyOf tg = some k)
    (h : ∀ r e, (step s t (.status tg)).2 ≠ .banned r e) :
    lookup (step s t (.status tg)).1.recs k = none := by
  rw [step_status_some s t tg k hk] at h ⊢
  cases hl : lookup s.recs k with
  | none => simp only [hl]
  | some w =>
    obtain ⟨e, r⟩ := w
    simp only [hl] at h ⊢
    by_cases hexp : t ≥ e * 1000
    · simp only [hexp, ↓reduceIte]; exact lookup_del_self _ _
    · simp only [hexp, ↓reduceIte] at h; exact absurd rfl (h r (e * 1000))

/-! ### the invariant -/

/-- Every connected peer's network has no record, or one that has lapsed by `T`. -/
def Clean (n : Net) (T : Int) : Prop :=
  ∀ p, p ∈ n.connected → ∀ k e r, keyOf p.target = some k → lookup n.store.recs k = some (e, r) → e * 1000 ≤ T

theorem mem_without {l : List Peer} {p q : Peer} (h : q ∈ without l p) : q ∈ l ∧ q ≠ p := by
  simp only [without, List.mem_filter, decide_eq_true_eq] at h
  exact h

theorem not_mem_without (l : List Peer) (p : Peer) : p ∉ without l p := by
  intro h; exact (mem_without h).2 rfl

/-- store only loses records, connected set only shrinks -/
theorem clean_shrink {n n' : Net} {T t : Int} (h : Clean n T) (hT : T ≤ t)
    (hs : ∀ k v, lookup n'.store.recs k = some v → lookup n.store.recs k = some v)
    (hc : ∀ p, p ∈ n'.connected → p ∈ n.connected) : Clean n' t := by
  intro p hp k e r hk hl
  exact Int.le_trans (h p (hc p hp) k e r hk (hs k _ hl)) hT

theorem mem_afterBan {l : List Peer} {p q : Peer} (h : q ∈ afterBan l p) : q ∈ l ∧ q ≠ p := by
  simp only [afterBan] at h
  cases hr : resolve p.target with
  | none => rw [hr] at h; exact mem_without h
  | some bn => rw [hr] at h; exact mem_without (List.mem_filter.mp h).1

theorem not_mem_afterBan (l : List Peer) (p : Peer) : p ∉ afterBan l p :=
  fun h => (mem_afterBan h).2 rfl

/-- a peer with the banned key does not survive `BanPeer` -/
theorem not_mem_afterBan_of_key {l : List Peer} {p q : Peer} {k : Bytes}
    (hp : keyOf p.target = some k) (hq : keyOf q.target = some k) : q ∉ afterBan l p := by
  intro h
  simp only [keyOf] at hp hq
  cases hrp : resolve p.target with
  | none => rw [hrp] at hp; exact absurd hp (by simp)
  | some bn =>
    cases hrq : resolve q.target with
    | none => rw [hrq] at hq; exact absurd hq (by simp)
    | some qn =>
      obtain ⟨ipb, mb⟩ := bn
      obtain ⟨ipq, mq⟩ := qn
      rw [hrp] at hp; rw [hrq] at hq
      simp only at hp hq
      obtain ⟨h16, hsome, hm⟩ := encodeKey_inj hq hp
      have hs : sameNet (ipq, mq) (ipb, mb) = true := by
        have hsome' := hsome
        rw [h16] at hsome'
        simp only [sameNet, h16, hsome', hm, beq_self_eq_true, Bool.and_self]
      simp only [afterBan, hrp, List.mem_filter, hrq, hs, Bool.not_true] at h
      exact absurd h.2 (by simp)

/-- `BanPeer`: every connected peer whose address has the banned key is dropped -/
theorem clean_banPeer {n : Net} {T t : Int} (h : Clean n T) (hT : T ≤ t)
    (p : Peer) (reason : Nat) : Clean (banPeer n t p reason) t := by
  intro q hq k e r hk hl
  simp only [banPeer] at hq hl
  have hqc := (mem_afterBan hq).1
  cases hkp : keyOf p.target with
  | none =>
    rw [step_ban_none _ _ _ _ _ hkp] at hl
    exact Int.le_trans (h q hqc k e r hk hl) hT
  | some k0 =>
    rw [step_ban_some _ _ _ _ _ k0 hkp] at hl
    by_cases hkk : k0 = k
    · subst hkk
      exact absurd hq (not_mem_afterBan_of_key hkp hk)
    · rw [lookup_put_ne _ _ _ _ hkk] at hl
      exact Int.le_trans (h q hqc k e r hk hl) hT

theorem clean_step (n : Net) (T t : Int) (e : Ev) (h : Clean n T) (hT : T ≤ t) :
    Clean (stepNet n t e) t := by
  cases e with
  | outbound p =>
    have hst : (stepNet n t (.outbound p)).store = (step n.store t (.status p.target)).1 ∧
        (stepNet n t (.outbound p)).connected = n.connected := by
      simp only [stepNet]
      split
      · exact ⟨isBanned_fst _ _ _, rfl⟩
      · split <;> exact ⟨isBanned_fst _ _ _, rfl⟩
    exact clean_shrink h hT (fun k v hl => lookup_after_status _ _ _ _ _ (by rw [← hst.1]; exact hl))
        (fun q hq => by rw [← hst.2]; exact hq)
  | version p sv =>
    simp only [stepNet]
    by_cases hp : p ∈ n.pending
    · simp only [hp, ↓reduceIte]
      by_cases hr : hasRequired sv = true
      · simp only [hr, ↓reduceIte]
        exact clean_shrink h hT (fun _ _ hl => hl) (fun _ hq => hq)
      · simp only [hr]
        have hc := clean_banPeer h hT p reasonNoCompactFilters
        intro q hq k e r hk hl
        exact hc q hq k e r hk hl
    · simp only [hp, ↓reduceIte]
      exact clean_shrink h hT (fun _ _ hl => hl) (fun _ hq => hq)
  | addPeer p =>
    simp only [stepNet]
    by_cases hp : p ∈ n.pending
    · simp only [hp, ↓reduceIte]
      have hshr : ∀ k v, lookup (isBanned n.store t p).1.recs k = some v → lookup n.store.recs k = some v := by
        intro k v hl; rw [isBanned_fst] at hl; exact lookup_after_status _ _ _ _ _ hl
      by_cases hb : (isBanned n.store t p).2 = true
      · simp only [hb, ↓reduceIte]
        exact clean_shrink h hT hshr (fun _ hq => hq)
      · have hbf : (isBanned n.store t p).2 = false := by
          cases hv : (isBanned n.store t p).2 with
          | true => exact absurd hv hb
          | false => rfl
        simp only [hbf, Bool.false_eq_true, ↓reduceIte]
        by_cases hfull : n.connected.length ≥ n.maxPeers
        · simp only [hfull, ↓reduceIte]
          exact clean_shrink h hT hshr (fun _ hq => hq)
        · simp only [hfull, ↓reduceIte]
          intro q hq k e r hk hl
          rw [isBanned_fst] at hl
          cases List.mem_cons.mp hq with
          | inl heq =>
            subst heq
            rw [lookup_none_of_not_banned _ _ _ k hk (isBanned_false _ _ _ hbf)] at hl
            exact absurd hl (by simp)
          | inr hqc =>
            exact Int.le_trans (h q hqc k e r hk (lookup_after_status _ _ _ _ _ hl)) hT
    · simp only [hp, ↓reduceIte]
      exact clean_shrink h hT (fun _ _ hl => hl) (fun _ hq => hq)
  | banPeer p reason =>
    simp only [stepNet]
    exact clean_banPeer h hT p reason
  | unbanPeer p =>
    simp only [stepNet]
    exact clean_shrink h hT (fun k v hl => lookup_after_unban _ _ _ _ _ hl) (fun _ hq => hq)
  | done p =>
    simp only [stepNet]
    exact clean_shrink h hT (fun _ _ hl => hl) (fun q hq => (mem_without hq).1)

theorem clean_run (n : Net) (T : Int) (evs : EvHist) (h : Clean n T) (hm : monoEv T evs) :
    Clean (runNet n evs) (endEv T evs) := by
  induction evs generalizing n T with
  | nil => exact h
  | cons x rest ih =>
    obtain ⟨t, e⟩ := x
    simp only [runNet, endEv]
    exact ih _ _ (clean_step n T t e h hm.1) hm.2

/-- A clean connected peer is not banned. -/
theorem not_banned_of_clean (n : Net) (T now : Int) (hT : T ≤ now) (h : Clean n T) (p : Peer) (hp : p ∈ n.connected) :
    (isBanned n.store now p).2 = false := by
  have key : ∀ r e, (step n.store now (.status p.target)).2 ≠ .banned r e := by
    cases hk : keyOf p.target with
    | none => exact (step_status_none _ _ _ hk).2
    | some k =>
      intro r e
      rw [step_status_some _ _ _ k hk]
      cases hl : lookup n.store.recs k with
      | none => simp
      | some w =>
        obtain ⟨e', r'⟩ := w
        have hle := h p hp k e' r' hk hl
        have : now ≥ e' * 1000 := Int.le_trans hle hT
        simp only [this, ↓reduceIte]
        first | done | simp
  simp only [isBanned]
  all_goals
    generalize step n.store now (.status p.target) = x at key
    obtain ⟨s', o⟩ := x
    cases o <;> first | rfl | (exact absurd rfl (key _ _))

end Neutrino.Ban
