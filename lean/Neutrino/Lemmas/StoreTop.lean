import Neutrino.Lemmas.StoreRollTo
namespace Neutrino.Store

/-- an `Outcome` seen through `R.fin`: a crash recovers to before-or-after, a
completed call left the after state -/
theorem outcome_fin {l l' : Log} {e : Out} {inj : Inj} {r : R Out} (ho : Outcome l l' e inj r)
    (he : e ≠ .crashed) :
    (r.fin.2 = .crashed → (∃ k t, inj = .crash k t) ∧
        ∃ d', reopen r.fin.1 = some d' ∧ (Rep d' l ∨ Rep d' l')) ∧
    (r.fin.2 ≠ .crashed → r.fin.2 = e ∧ Rep r.fin.1 l') := by
  cases r with
  | ok o c =>
    simp only [Outcome] at ho
    simp only [R.fin]
    refine ⟨fun h => absurd (ho.1 ▸ h) he, fun _ => ⟨ho.1, ho.2.1⟩⟩
  | crashed d0 =>
    obtain ⟨hk, xb, xf, hA⟩ := ho
    simp only [R.fin, ne_eq, not_true_eq_false, false_implies, and_true, true_implies]
    refine ⟨hk, ?_⟩
    cases hA with
    | inl hA => obtain ⟨d', h1, h2⟩ := reopen_ahead hA; exact ⟨d', h1, Or.inl h2⟩
    | inr hA => obtain ⟨d', h1, h2⟩ := reopen_ahead hA; exact ⟨d', h1, Or.inr h2⟩

theorem rollOutcome_fin {l post : Log} {inj : Inj} {r : R Out} (ho : RollOutcome l post inj r) :
    (r.fin.2 = .crashed → (∃ k t, inj = .crash k t) ∧
        ∃ d' lx, reopen r.fin.1 = some d' ∧ Rep d' lx ∧ Between l post lx) ∧
    (r.fin.2 ≠ .crashed → r.fin.2 = .ok ∧ Rep r.fin.1 post) := by
  cases r with
  | ok o c =>
    simp only [RollOutcome] at ho
    simp only [R.fin]
    refine ⟨fun h => absurd (ho.1 ▸ h) (by simp), fun _ => ⟨ho.1, ho.2.1⟩⟩
  | crashed d0 =>
    obtain ⟨hk, lx, xb, xf, hA, hb⟩ := ho
    simp only [R.fin, ne_eq, not_true_eq_false, false_implies, and_true, true_implies]
    obtain ⟨d', h1, h2⟩ := reopen_ahead hA
    exact ⟨hk, d', lx, h1, h2, hb⟩

/-- the expected output of an operation the spec accepts -/
def expectOut (l : Log) : Op → Out
  | .wb _ => .ok
  | .wf _ => .ok
  | .rb n => if n = 0 then .okNone else .okTip (l.blocks.length - 1 - n) (l.blocks.getD (l.blocks.length - n - 1) 0)
  | .rf => .okTip (l.filters.length - 2) (l.filters.getD (l.filters.length - 2) 0)
  | .rollto _ => .ok
  | .reopen => .ok

theorem apply_rollto (l : Log) (h : Nat) : l.apply (.rollto h) = postOf l h := by
  simp only [Log.apply, postOf]
  congr 1
  · by_cases hc : h + 1 ≤ l.blocks.length
    · have : min l.blocks.length (max (h + 1) 1) = h + 1 := by omega
      rw [this]
    · have : min l.blocks.length (max (h + 1) 1) = l.blocks.length := by omega
      rw [this, List.take_length, List.take_of_length_le (by omega)]
  · by_cases hc : h + 1 ≤ l.filters.length
    · have : min l.filters.length (max (h + 1) 1) = h + 1 := by omega
      rw [this]
    · have : min l.filters.length (max (h + 1) 1) = l.filters.length := by omega
      rw [this, List.take_length, List.take_of_length_le (by omega)]

/-- **The one statement everything else is read off from**: for every operation
under its contract, with no I/O fault armed (a crash may be), `exec` either
crashed — and then the restart succeeds on a state that represents the log
before or after the operation (for the multi-step rollback: a log it passes
through) — or completed with the spec's output on a state representing the
spec's result. -/
theorem exec_outcome (d : Durable) (l : Log) (op : Op) (inj : Inj) (hrep : Rep d l) (hc : Contract l op)
    (hnf : NoFault inj) (hro : op ≠ .reopen) :
    ((exec d op inj).2 = .crashed → (∃ k t, inj = .crash k t) ∧
        ∃ d' lx, reopen (exec d op inj).1 = some d' ∧ Rep d' lx ∧
          (match op with
           | .rollto _ => Between l (l.apply op) lx
           | _ => lx = l ∨ lx = l.apply op)) ∧
    ((exec d op inj).2 ≠ .crashed → (exec d op inj).2 = expectOut l op ∧ Rep (exec d op inj).1 (l.apply op)) := by
  obtain ⟨tip, htip, hbt⟩ := rep_btipHeight hrep
  obtain ⟨b, hft⟩ := rep_ftipHeight hrep
  have hlenB := len_pred_succ hrep.neB
  have hlenF := len_pred_succ hrep.neF
  have lift : ∀ {l' : Log} {e : Out} {r : R Out}, Outcome l l' e inj r → e ≠ .crashed →
      (r.fin.2 = .crashed → (∃ k t, inj = .crash k t) ∧
        ∃ d' lx, reopen r.fin.1 = some d' ∧ Rep d' lx ∧ (lx = l ∨ lx = l')) ∧
      (r.fin.2 ≠ .crashed → r.fin.2 = e ∧ Rep r.fin.1 l') := by
    intro l' e r ho he
    have := outcome_fin ho he
    refine ⟨fun h => ?_, this.2⟩
    obtain ⟨hk, d', h1, h2⟩ := this.1 h
    cases h2 with
    | inl h2 => exact ⟨hk, d', l, h1, h2, Or.inl rfl⟩
    | inr h2 => exact ⟨hk, d', l', h1, h2, Or.inr rfl⟩
  cases op with
  | reopen => exact absurd rfl hro
  | wb ids =>
    obtain ⟨hnd, hfresh⟩ := hc
    have ho := writeBlocks_outcome { d := d, inj := inj } l ids hrep hnf hnd hfresh
    simp only [exec, hbt, hlenB]
    exact lift ho (by simp [expectOut])
  | wf fids =>
    have hroom : l.filters.length + fids.length ≤ l.blocks.length := hc
    simp only [exec, hft]
    by_cases he : fids.isEmpty = true
    · have : fids = [] := by simpa using he
      subst this
      have ho := writeFilters_outcome { d := d, inj := inj } l [] 0 hrep hnf hroom (fun h => absurd rfl h)
      simp only [List.isEmpty_nil, ↓reduceIte]
      exact lift ho (by simp [expectOut])
    · simp only [he, Bool.false_eq_true, ↓reduceIte]
      have hne : fids ≠ [] := by intro hc'; subst hc'; simp at he
      have hpos : 0 < fids.length := List.length_pos_iff.mpr hne
      obtain ⟨last, hlast⟩ : ∃ x, l.blocks[l.filters.length - 1 + fids.length]? = some x :=
        ⟨_, List.getElem?_eq_getElem (by omega)⟩
      have hg : d.bf.get? (l.filters.length - 1 + fids.length) = some last := by
        simp [FileSt.get?, hrep.bents, hlast]
      simp only [hg]
      have ho := writeFilters_outcome { d := d, inj := inj } l fids last hrep hnf hroom (fun _ => hlast)
      exact lift ho (by simp [expectOut])
  | rb n =>
    obtain ⟨hn, hf⟩ := hc
    simp only [exec]
    by_cases hn0 : n = 0
    · subst hn0
      simp only [rollbackBlocks, ↓reduceIte, R.fin, Log.apply, expectOut, Nat.sub_zero, List.take_length]
      refine ⟨fun h => by simp at h, fun _ => ⟨trivial, hrep⟩⟩
    · obtain ⟨prev, hprev⟩ : ∃ x, l.blocks[l.blocks.length - n - 1]? = some x :=
        ⟨_, List.getElem?_eq_getElem (by omega)⟩
      have ho := rollbackBlocks_outcome { d := d, inj := inj } l n prev hrep hnf hn0 hn hf hprev
      have he : expectOut l (.rb n) = .okTip (l.blocks.length - 1 - n) prev := by
        simp only [expectOut, hn0, ↓reduceIte, List.getD_eq_getElem?_getD, hprev, Option.getD_some]
      rw [he]
      exact lift ho (by simp [expectOut])
  | rf =>
    have hlen : 1 < l.filters.length := hc
    simp only [exec, hft]
    have h0 : ¬ (l.filters.length - 1 = 0) := by omega
    simp only [h0, ↓reduceIte]
    obtain ⟨nt, hnt⟩ : ∃ x, l.blocks[l.filters.length - 2]? = some x :=
      ⟨_, List.getElem?_eq_getElem (by have := hrep.fle; omega)⟩
    obtain ⟨fh, hfh⟩ : ∃ x, l.filters[l.filters.length - 2]? = some x :=
      ⟨_, List.getElem?_eq_getElem (by omega)⟩
    have e : l.filters.length - 1 - 1 = l.filters.length - 2 := by omega
    have hg : d.bf.get? (l.filters.length - 1 - 1) = some nt := by
      simp [FileSt.get?, hrep.bents, e, hnt]
    simp only [hg]
    have ho := rollbackFilter_outcome { d := d, inj := inj } l nt fh hrep hnf hlen hnt hfh
    have he : expectOut l .rf = .okTip (l.filters.length - 2) fh := by
      simp only [expectOut, List.getD_eq_getElem?_getD, hfh, Option.getD_some]
    rw [he]
    exact lift ho (by simp [expectOut])
  | rollto h =>
    simp only [exec, hbt, hft, hlenB]
    have ho := rollTo_outcome h l.blocks.length { d := d, inj := inj } l hrep hnf (by omega)
    rw [apply_rollto]
    have := rollOutcome_fin ho
    exact ⟨this.1, fun hne => by simpa [expectOut] using this.2 hne⟩

end Neutrino.Store
