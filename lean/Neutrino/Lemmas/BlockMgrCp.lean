/-
Checkpoint lookups (`findNextCp`, `findPrevCp`) on an ascending checkpoint list, the
in-memory list as the top of the stored chain (`revNodes`), and the known-work walk.
-/
import Neutrino.Lemmas.BlockMgr
namespace Neutrino.BM

/-- well-formed checkpoint list: strictly ascending heights, none at genesis -/
structure CpsOk (cps : List Cp) : Prop where
  sorted : cps.Pairwise (fun a b => a.height < b.height)
  pos : ∀ cp ∈ cps, 0 < cp.height

/-! ### findNextCp -/

theorem findNextCp_mem {cps : List Cp} {h : Nat} {cp : Cp} (hf : findNextCp cps h = some cp) :
    cp ∈ cps ∧ h < cp.height := by
  simp only [findNextCp] at hf
  exact ⟨List.mem_of_find?_eq_some hf, by simpa using List.find?_some hf⟩

theorem findNextCp_none {cps : List Cp} {h : Nat} (hf : findNextCp cps h = none) :
    ∀ cp ∈ cps, cp.height ≤ h := by
  simp only [findNextCp, List.find?_eq_none] at hf
  intro cp hm
  have := hf cp hm
  simpa using this

/-- on an ascending list the checkpoint found is the lowest one above `h`, and the only one at its height -/
theorem findNextCp_least {cps : List Cp} (hs : cps.Pairwise (fun a b => a.height < b.height)) {h : Nat} {cp : Cp}
    (hf : findNextCp cps h = some cp) :
    ∀ cp' ∈ cps, h < cp'.height → cp.height ≤ cp'.height ∧ (cp'.height = cp.height → cp' = cp) := by
  induction cps with
  | nil => simp [findNextCp] at hf
  | cons c cs ih =>
    simp only [findNextCp, List.find?_cons] at hf
    rw [List.pairwise_cons] at hs
    by_cases hc : h < c.height
    · simp only [hc, decide_true, Option.some.injEq] at hf
      subst hf
      intro cp' hm hlt
      rcases List.mem_cons.mp hm with rfl | hm'
      · exact ⟨Nat.le_refl _, fun _ => rfl⟩
      · have := hs.1 cp' hm'
        exact ⟨by omega, fun e => by omega⟩
    · simp only [hc, decide_false] at hf
      intro cp' hm hlt
      rcases List.mem_cons.mp hm with rfl | hm'
      · exact absurd hlt hc
      · exact ih hs.2 hf cp' hm' hlt

/-- two heights that no checkpoint separates have the same next checkpoint -/
theorem findNextCp_congr {cps : List Cp} {a b : Nat}
    (h : ∀ cp ∈ cps, (a < cp.height ↔ b < cp.height)) : findNextCp cps a = findNextCp cps b := by
  induction cps with
  | nil => rfl
  | cons c cs ih =>
    simp only [findNextCp, List.find?_cons]
    have hc := h c (List.mem_cons_self ..)
    by_cases ha : a < c.height
    · have hb : b < c.height := hc.mp ha
      simp [ha, hb]
    · have hb : ¬ b < c.height := fun x => ha (hc.mpr x)
      simp only [ha, hb, decide_false]
      exact ih (fun cp hm => h cp (List.mem_cons_of_mem _ hm))

/-! ### findPrevCp -/

theorem foldl_prev_spec (k : Nat) (cps : List Cp) (hs : cps.Pairwise (fun a b => a.height < b.height)) (acc : Cp) :
    let r := cps.foldl (fun acc c => if c.height < k then c else acc) acc
    (r = acc ∨ (r ∈ cps ∧ r.height < k)) ∧ (∀ cp' ∈ cps, cp'.height < k → cp'.height ≤ r.height) := by
  induction cps generalizing acc with
  | nil => simp
  | cons c cs ih =>
    rw [List.pairwise_cons] at hs
    simp only [List.foldl_cons]
    by_cases hc : c.height < k
    · simp only [hc, ↓reduceIte]
      obtain ⟨h1, h2⟩ := ih hs.2 c
      refine ⟨?_, ?_⟩
      · right
        rcases h1 with h1 | h1
        · rw [h1]; exact ⟨List.mem_cons_self .., hc⟩
        · exact ⟨List.mem_cons_of_mem _ h1.1, h1.2⟩
      · intro cp' hm hlt
        rcases List.mem_cons.mp hm with rfl | hm'
        · rcases h1 with h1 | h1
          · rw [h1]; exact Nat.le_refl _
          · have := hs.1 _ h1.1; omega
        · exact h2 cp' hm' hlt
    · simp only [hc, ↓reduceIte]
      obtain ⟨h1, h2⟩ := ih hs.2 acc
      refine ⟨?_, ?_⟩
      · rcases h1 with h1 | h1
        · left; exact h1
        · right; exact ⟨List.mem_cons_of_mem _ h1.1, h1.2⟩
      · intro cp' hm hlt
        rcases List.mem_cons.mp hm with rfl | hm'
        · exact absurd hlt hc
        · exact h2 cp' hm' hlt

/-- `findPreviousHeaderCheckpoint k`: every checkpoint below `k` is at or below the one found -/
theorem findPrevCp_max {cps : List Cp} (hs : cps.Pairwise (fun a b => a.height < b.height)) (k : Nat) :
    ∀ cp' ∈ cps, cp'.height < k → cp'.height ≤ (findPrevCp cps k).height :=
  (foldl_prev_spec k cps hs ⟨0, 0⟩).2

theorem findPrevCp_lt {cps : List Cp} (hs : cps.Pairwise (fun a b => a.height < b.height)) (k : Nat) (hk : 0 < k) :
    (findPrevCp cps k).height < k := by
  rcases (foldl_prev_spec k cps hs ⟨0, 0⟩).1 with h | h
  · simp only [findPrevCp]; rw [h]; exact hk
  · exact h.2

/-! ### checkpoints held by a chain -/

/-- "equals every checkpoint at its height" -/
def CpsHold (cps : List Cp) (log : List Nat) : Prop :=
  ∀ cp ∈ cps, ∀ id, log[cp.height]? = some id → id = cp.id

theorem CpsHold.cpsHold {cps : List Cp} {log : List Nat} (h : CpsHold cps log) : cpsHold cps log = true := by
  simp only [BM.cpsHold, List.all_eq_true]
  intro cp hm
  cases hl : log[cp.height]? with
  | none => rfl
  | some id => simp [h cp hm id hl]

theorem CpsHold.take {cps : List Cp} {log : List Nat} (h : CpsHold cps log) (k : Nat) : CpsHold cps (log.take k) := by
  intro cp hm id hid
  rw [List.getElem?_take] at hid
  split at hid
  · exact h cp hm id hid
  · cases hid

/-- appending a header at a height that carries no other checkpoint -/
theorem CpsHold.snoc {cps : List Cp} {log : List Nat} (h : CpsHold cps log) (x : Nat)
    (hx : ∀ cp ∈ cps, cp.height = log.length → x = cp.id) : CpsHold cps (log ++ [x]) := by
  intro cp hm id hid
  by_cases hlt : cp.height < log.length
  · rw [List.getElem?_append_left hlt] at hid; exact h cp hm id hid
  · by_cases heq : cp.height = log.length
    · rw [heq] at hid; simp at hid; rw [← hid]; exact hx cp hm heq
    · rw [List.getElem?_eq_none (by simp; omega)] at hid; cases hid

end Neutrino.BM

namespace Neutrino.BM

/-! ### the in-memory list as the top of the stored chain -/

/-- the stored chain as nodes, newest first -/
def revNodes (log : List Nat) : List Node := (withHeights 0 log).reverse

theorem withHeights_append (i : Nat) (l : List Nat) (x : Nat) :
    withHeights i (l ++ [x]) = withHeights i l ++ [⟨x, i + l.length⟩] := by
  induction l generalizing i with
  | nil => simp [withHeights]
  | cons y ys ih =>
    simp only [List.cons_append, withHeights, ih, List.length_cons]
    have : i + 1 + ys.length = i + (ys.length + 1) := by omega
    rw [this]

theorem revNodes_snoc (l : List Nat) (x : Nat) : revNodes (l ++ [x]) = ⟨x, l.length⟩ :: revNodes l := by
  simp [revNodes, withHeights_append]

/-- `ListAnchored`, strong form: the whole in-memory list is the top of the stored chain
(as many nodes as the window has kept, at least the tip). -/
def FullAnch (log : List Nat) (hl : List Node) : Prop := ∃ m, 0 < m ∧ hl = (revNodes log).take m

theorem FullAnch.head {t : Tbl} {log : List Nat} {hl : List Node} (g : Good t log) (h : FullAnch log hl) :
    hl.head? = some ⟨tipId log, tipHeight log⟩ := by
  obtain ⟨m, hm, rfl⟩ := h
  have hm' : m = (m - 1) + 1 := by omega
  cases g with
  | gen => rw [hm']; simp [revNodes, withHeights, tipId, tipHeight]
  | @snoc l x g' _ _ => rw [revNodes_snoc, hm']; simp [tipId_append, tipHeight_append]

theorem FullAnch.anchor (log : List Nat) (hne : log ≠ []) : FullAnch log (anchor log) := by
  refine ⟨1, by omega, ?_⟩
  obtain ⟨l, x, rfl⟩ : ∃ l x, log = l ++ [x] := ⟨log.dropLast, log.getLast hne, (List.dropLast_concat_getLast hne).symm⟩
  simp [BM.anchor, hlReset, revNodes_snoc, tipId_append, tipHeight_append]

theorem FullAnch.push {log : List Nat} {hl : List Node} (h : FullAnch log hl) (win : Nat) (hw : 1 ≤ win) (x : Nat) :
    FullAnch (log ++ [x]) (hlPush win hl ⟨x, log.length⟩) := by
  obtain ⟨m, hm, rfl⟩ := h
  refine ⟨min (m + 1) win, by omega, ?_⟩
  simp only [hlPush, revNodes_snoc]
  rw [← List.take_succ_cons, List.take_take, Nat.min_comm]

theorem sumWork_append (t : Tbl) (a b : List Nat) : sumWork t (a ++ b) = sumWork t a + sumWork t b := by
  simp [sumWork]

/-! ### the known-work walk -/

/-- With the in-memory list the top of a good chain `P` (any number of nodes, even none) the
walk over `n` steps - list nodes while they last, then the store through `PrevBlock` - adds up
exactly the work of the top `n` headers of `P`. -/
theorem knownWalk_good (t : Tbl) (L : List Nat) {P : List Nat} (g : Good t P) (hsub : ∀ x ∈ P, x ∈ L) :
    ∀ (n m cur acc : Nat), n ≤ P.length → (m = 0 → 0 < n → t.parent cur = some (tipId P)) →
      knownWalk t L n ((revNodes P).take m) cur acc = acc + sumWork t (P.drop (P.length - n)) := by
  induction g with
  | gen =>
    intro n m cur acc hn hc
    cases n with
    | zero => simp [knownWalk, sumWork]
    | succ k =>
      have hk : k = 0 := by simp at hn; omega
      subst hk
      cases m with
      | zero =>
        have hp := hc rfl (by omega)
        have h0 : (0 : Nat) ∈ L := hsub 0 (by simp)
        simp [knownWalk, hp, tipId, h0, sumWork]
      | succ m' => simp [revNodes, withHeights, knownWalk, sumWork]
  | @snoc l x g' hp hv ih =>
    intro n m cur acc hn hc
    have hsub' : ∀ y ∈ l, y ∈ L := fun y hy => hsub y (by simp [hy])
    have hx : x ∈ L := hsub x (by simp)
    cases n with
    | zero => simp [knownWalk, sumWork]
    | succ k =>
      have hk : k ≤ l.length := by simp at hn; omega
      have hdrop : (l ++ [x]).drop ((l ++ [x]).length - (k + 1)) = l.drop (l.length - k) ++ [x] := by
        have : (l ++ [x]).length - (k + 1) = l.length - k := by simp
        rw [this, List.drop_append_of_le_length (by omega)]
      rw [hdrop, sumWork_append]
      cases m with
      | zero =>
        have hpc := hc rfl (by omega)
        rw [tipId_append] at hpc
        simp only [List.take_zero, knownWalk, hpc, hx, ↓reduceIte]
        have := ih hsub' k 0 x (acc + t.work x) hk (fun _ _ => hp)
        simp only [List.take_zero] at this
        rw [this]; simp [sumWork]; omega
      | succ m' =>
        rw [revNodes_snoc, List.take_succ_cons]
        simp only [knownWalk]
        rw [ih hsub' k m' x (acc + t.work x) hk (fun _ _ => hp)]
        simp [sumWork]; omega

end Neutrino.BM
