/-
The skip-list height arithmetic the CODE defines (Gen/TransBM.lean, regenerated from
headerlist/header_list.go on every run) is the model's (`HL.lowOff`, `HL.gah`) on every
non-negative height.
-/
import Neutrino.Gen.TransBM
import Neutrino.Model.HeaderList
namespace Neutrino.HL
open Neutrino.Gen.TransBM Neutrino.GoInt

/-- **`invertLowestOne` is `lowOff`** (`n & (n-1)`; at `n = 0` the code computes `0 & -1 = 0`, the
model `0 &&& (0 - 1) = 0` with truncated subtraction) -/
theorem trans_invertLowestOne (n : Nat) : invertLowestOne (n : Int) = ((lowOff n : Nat) : Int) := by
  unfold invertLowestOne lowOff
  cases n with
  | zero => rfl
  | succ k =>
    have : (((k + 1 : Nat) : Int) - 1) = ((k : Nat) : Int) := by omega
    rw [this, iand_natCast]
    simp

/-- **`getAncestorHeight` is `gah`** on every non-negative height -/
theorem trans_getAncestorHeight (h : Nat) : getAncestorHeight (h : Int) = ((gah h : Nat) : Int) := by
  unfold getAncestorHeight gah
  by_cases h0 : 0 < (h : Int)
  · simp only [h0, ↓reduceIte, trans_invertLowestOne]
  · have : h = 0 := by omega
    subst this
    simp only [h0, ↓reduceIte]
    rfl

/-- heights at or below zero are clamped to zero -/
theorem trans_getAncestorHeight_nonpos (h : Int) (h0 : h ≤ 0) : getAncestorHeight h = 0 := by
  unfold getAncestorHeight
  have : ¬ 0 < h := by omega
  simp only [this, ↓reduceIte]

end Neutrino.HL
