/-
Conservation of requests in the UTXO scanner model: every request that entered is, at every moment, in exactly one of
queue / next batch / reporter / delivered.  Stated by counting (`List.count`), converted to `List.Perm` at the end.
-/
import Neutrino.Lemmas.Utxo
namespace Neutrino.Utxo

def entReqs (ents : List Entry) : List Req := ents.flatMap (·.reqs)

/-- every place a request can be -/
def holds (st : St) : List Req :=
  st.pq ++ st.next ++ entReqs st.ents ++ st.out.map (·.req)

def Step.st : Step → St
  | .cont s => s
  | .fail s => s

@[simp] theorem Step.st_cont (s : St) : (Step.cont s).st = s := rfl
@[simp] theorem Step.st_fail (s : St) : (Step.fail s).st = s := rfl

@[simp] theorem entReqs_nil : entReqs [] = [] := rfl
@[simp] theorem entReqs_cons (e : Entry) (es : List Entry) : entReqs (e :: es) = e.reqs ++ entReqs es := by
  simp only [entReqs, List.flatMap_cons]

theorem map_req_mk (r : Res) (u : Nat) :
    ∀ l : List Req, (l.map (fun q => (⟨q, r, u⟩ : Deliv))).map (·.req) = l
  | [] => rfl
  | a :: l => by simp only [List.map_cons, map_req_mk r u l]

theorem notifyUnspent_req (u : Nat) : ∀ ents : List Entry, (notifyUnspent ents u).map (·.req) = entReqs ents
  | [] => rfl
  | e :: es => by
    have ih := notifyUnspent_req u es
    simp only [notifyUnspent, List.flatMap_cons, List.map_append, entReqs_cons] at ih ⊢
    rw [ih, map_req_mk]

theorem failAll_req (er : Err) (u : Nat) : ∀ ents : List Entry, (failAll ents er u).map (·.req) = entReqs ents
  | [] => rfl
  | e :: es => by
    have ih := failAll_req er u es
    simp only [failAll, List.flatMap_cons, List.map_append, entReqs_cons] at ih ⊢
    rw [ih, map_req_mk]

theorem failNew_req (er : Err) (u : Nat) (new : List Req) : (failNew new er u).map (·.req) = new :=
  map_req_mk (.err er) u new

theorem count_filter_ite (p : Req → Bool) (q : Req) (l : List Req) :
    List.count q (l.filter p) = if p q = true then List.count q l else 0 := by
  by_cases hp : p q = true
  · simp only [hp, ↓reduceIte]; exact List.count_filter hp
  · simp only [hp]
    exact List.count_eq_zero.2 (fun hm => hp (List.mem_filter.1 hm).2)

theorem count_filter3 (q : Req) (h : Nat) (l : List Req) :
    List.count q l =
      List.count q (l.filter (fun q => q.birth < h)) + List.count q (l.filter (fun q => q.birth == h))
        + List.count q (l.filter (fun q => h < q.birth)) := by
  rw [count_filter_ite, count_filter_ite, count_filter_ite]
  simp only [decide_eq_true_eq, beq_iff_eq]
  rcases Nat.lt_trichotomy q.birth h with hlt | heq | hgt
  · have h1 : ¬ q.birth = h := by omega
    have h2 : ¬ h < q.birth := by omega
    rw [if_pos hlt, if_neg h1, if_neg h2]; omega
  · have h1 : ¬ q.birth < h := by omega
    have h2 : ¬ h < q.birth := by omega
    rw [if_neg h1, if_pos heq, if_neg h2]; omega
  · have h1 : ¬ q.birth = h := by omega
    have h2 : ¬ q.birth < h := by omega
    rw [if_neg h2, if_neg h1, if_pos hgt]; omega

theorem joinReq_count (q : Req) (blk : Block) (h : Nat) (r : Req) :
    ∀ ents : List Entry,
      List.count q (entReqs (joinReq blk h ents r)) = List.count q (entReqs ents) + List.count q [r]
  | [] => by
    simp only [joinReq, entReqs_cons, entReqs_nil, List.count_append, List.count_nil]; omega
  | e :: es => by
    simp only [joinReq]
    by_cases hop : e.op = r.op
    · simp only [hop, ↓reduceIte, entReqs_cons, List.count_append]; omega
    · simp only [hop, ↓reduceIte, entReqs_cons, List.count_append, joinReq_count q blk h r es]; omega

theorem addNew_count (q : Req) (blk : Block) (h : Nat) :
    ∀ (new : List Req) (ents : List Entry),
      List.count q (entReqs (addNew blk h ents new)) = List.count q (entReqs ents) + List.count q new
  | [], _ => by simp only [addNew, List.foldl_nil, List.count_nil]; omega
  | r :: rs, ents => by
    have h1 := addNew_count q blk h rs (joinReq blk h ents r)
    have h2 := joinReq_count q blk h r ents
    have h3 : List.count q (r :: rs) = List.count q [r] + List.count q rs := by
      rw [← List.count_append]; rfl
    simp only [addNew, List.foldl_cons] at h1 ⊢
    omega

theorem notifySpends_count (q : Req) (blk : Block) (h : Nat) :
    ∀ ents : List Entry,
      List.count q (entReqs (notifySpends blk h ents).1) + List.count q ((notifySpends blk h ents).2.map (·.req))
        = List.count q (entReqs ents)
  | [] => rfl
  | e :: es => by
    have ih := notifySpends_count q blk h es
    simp only [notifySpends]
    cases hs : spendIn blk e.op with
    | none => simp only [entReqs_cons, List.count_append]; omega
    | some ti =>
      obtain ⟨t, i⟩ := ti
      simp only [entReqs_cons, List.count_append, List.map_append, map_req_mk]; omega

/-! ### the conservation invariant -/

def Cons (w : World) (init : List Req) (st : St) : Prop :=
  ∀ q, List.count q (holds st) = List.count q (init ++ arrived w st.k)

theorem count_holds_fail (q : Req) (st : St) (e : Err) (h : Nat) :
    List.count q (holds (st.fail e h)) = List.count q (holds st) := by
  simp only [holds, St.fail, List.count_append, List.map_append, entReqs_nil, List.count_nil, failAll_req]
  omega

theorem fetchStep_cons (w : World) (init : List Req) (h : Nat) (st : St) (new : List Req)
    (hp : ∀ q, List.count q (holds st) + List.count q new = List.count q (init ++ arrived w st.k)) :
    Cons w init (fetchStep w h st new).st := by
  apply fetchStep_cases w h st new (fun s => Cons w init s.st)
  · intro _ q
    show List.count q (holds ((stFailQ h st new).fail _ _)) = List.count q (init ++ arrived w st.k)
    rw [count_holds_fail, ← hp q]
    simp only [holds, stFailQ, List.count_append, List.map_append, failNew_req]; omega
  · intro _ _ q
    show List.count q (holds ((stFailB h st new).fail _ _)) = List.count q (init ++ arrived w st.k)
    rw [count_holds_fail, ← hp q]
    simp only [holds, stFailB, List.count_append, List.map_append, failNew_req]; omega
  · intro _ _ q
    show List.count q (holds (stFetched w h st new)) = List.count q (init ++ arrived w st.k)
    rw [← hp q]
    have h1 := notifySpends_count q (blockAt w.chain h) h (addNew (blockAt w.chain h) h st.ents new)
    have h2 := addNew_count q (blockAt w.chain h) h new st.ents
    simp only [holds, stFetched, List.count_append, List.map_append]; omega

theorem st2_pre (w : World) (init : List Req) (h : Nat) (st : St) (hc : Cons w init st) (q : Req) :
    List.count q (holds (st2 w h st)) + List.count q (newAt w h st)
      = List.count q (init ++ arrived w (st.k + 1)) := by
  have h0 := hc q
  have h3 := count_filter3 q h (st.pq ++ w.arrive (st.k + 1))
  simp only [holds, st2, newAt, arrived, List.count_append] at h0 h3 ⊢
  omega

theorem stepH_cons (w : World) (init : List Req) (h : Nat) (st : St) (hc : Cons w init st) :
    Cons w init (stepH w h st).st := by
  apply stepH_cases w h st (fun s => Cons w init s.st)
  · intro _ q
    show List.count q (holds (st.fail _ _)) = List.count q (init ++ arrived w st.k)
    rw [count_holds_fail]; exact hc q
  · intro _ _ q
    show List.count q (holds ((stHash w h st).fail _ _)) = List.count q (init ++ arrived w (st.k + 1))
    rw [count_holds_fail]
    have h0 := hc q
    simp only [holds, stHash, arrived, List.count_append] at h0 ⊢
    omega
  · intro _ hnew _ q
    show List.count q (holds ((st3 w h st).fail _ _)) = List.count q (init ++ arrived w (st.k + 1))
    rw [count_holds_fail]
    have := st2_pre w init h st hc q
    rw [hnew] at this
    exact this
  · intro _ hnew _ q
    show List.count q (holds (st2 w h st)) = List.count q (init ++ arrived w (st.k + 1))
    have := st2_pre w init h st hc q
    rw [hnew] at this
    exact this
  · intro _ hnew
    apply fetchStep_cons
    intro q
    have := st2_pre w init h st hc q
    rw [hnew] at this
    exact this
  · intro _
    apply fetchStep_cons
    intro q
    exact st2_pre w init h st hc q

/-! ### generic induction over `scan` and `mgr` -/

theorem scan_inv (w : World) (I : St → Prop) (hstep : ∀ h st, I st → I (stepH w h st).st)
    (hdone : ∀ endH st, I st → I { st with ents := [], out := st.out ++ notifyUnspent st.ents endH }) :
    ∀ (fuel h endH : Nat) (st : St), I st → I (scan w fuel h endH st).2
  | 0, _, _, _, hi => hi
  | fuel + 1, h, endH, st, hi => by
    simp only [scan]
    by_cases hh : h ≤ endH
    · simp only [hh, ↓reduceIte]
      have hs := hstep h st hi
      cases hst : stepH w h st with
      | cont st' =>
        rw [hst] at hs
        exact scan_inv w I hstep hdone fuel (h + 1) endH st' hs
      | fail st' =>
        rw [hst] at hs
        exact hs
    · simp only [hh, ↓reduceIte]
      by_cases ht : endH < w.tip st.k
      · simp only [ht, ↓reduceIte]
        exact scan_inv w I hstep hdone fuel (endH + 1) (w.tip st.k) st hi
      · simp only [ht, ↓reduceIte]
        exact hdone endH st hi

theorem stepH_fail_ents (w : World) (h : Nat) (st : St) :
    match stepH w h st with
    | .fail st' => st'.ents = []
    | .cont _ => True := by
  apply stepH_cases w h st (fun s => match s with | .fail st' => st'.ents = [] | .cont _ => True)
  · intro _; rfl
  · intro _ _; rfl
  · intro _ _ _; rfl
  · intro _ _ _; trivial
  · intro _ _
    apply fetchStep_cases w h (st3 w h st) [] (fun s => match s with | .fail st' => st'.ents = [] | .cont _ => True)
    · intro _; rfl
    · intro _ _; rfl
    · intro _ _; trivial
  · intro _
    apply fetchStep_cases w h (st2 w h st) (newAt w h st)
      (fun s => match s with | .fail st' => st'.ents = [] | .cont _ => True)
    · intro _; rfl
    · intro _ _; rfl
    · intro _ _; trivial

theorem scan_ents (w : World) :
    ∀ (fuel h endH : Nat) (st : St), (scan w fuel h endH st).1 ≠ .fuelOut → (scan w fuel h endH st).2.ents = []
  | 0, _, _, _, hne => absurd rfl hne
  | fuel + 1, h, endH, st, hne => by
    simp only [scan] at hne ⊢
    by_cases hh : h ≤ endH
    · simp only [hh, ↓reduceIte] at hne ⊢
      have hs := stepH_fail_ents w h st
      cases hst : stepH w h st with
      | cont st' =>
        rw [hst] at hne
        exact scan_ents w fuel (h + 1) endH st' hne
      | fail st' =>
        rw [hst] at hs
        exact hs
    · simp only [hh, ↓reduceIte] at hne ⊢
      by_cases ht : endH < w.tip st.k
      · simp only [ht, ↓reduceIte] at hne ⊢
        exact scan_ents w fuel (endH + 1) (w.tip st.k) st hne
      · simp only [ht, ↓reduceIte]

theorem St.ents_nil_eta (st : St) (h : st.ents = []) : { st with ents := [] } = st := by
  cases st; simp only at h; subst h; rfl

/-- the state at the top of a `batchManager` iteration -/
def stMerge (st : St) : St := { st with pq := st.pq ++ st.next, next := [] }

/-- the state after `Stop` drained the queue -/
def stStop (st : St) : St :=
  { st with pq := [], out := st.out ++ st.pq.map (fun q => ⟨q, .err .shutdown, 0⟩) }

theorem mgr_eq (w : World) (sf fuel : Nat) (st : St) :
    mgr w sf (fuel + 1) st =
      if (stMerge st).pq.isEmpty then (.idle, stMerge st)
      else if (stMerge st).quit then (.stopped, stStop (stMerge st))
      else if w.tip (stMerge st).k < minBirth (stMerge st).pq then (.spin, stMerge st)
      else
        match scan w sf (minBirth (stMerge st).pq) (w.tip (stMerge st).k) { stMerge st with ents := [] } with
        | (.fuelOut, st') => (.fuelOut, st')
        | (_, st') => mgr w sf fuel st' := rfl

theorem mgr_inv (w : World) (sf : Nat) (I : St → Prop)
    (hmerge : ∀ st, I st → I (stMerge st))
    (hstop : ∀ st, I st → I (stStop st))
    (hscan : ∀ fuel h e st, I st → st.ents = [] → h ≤ e → I (scan w fuel h e st).2) :
    ∀ (fuel : Nat) (st : St), I st → st.ents = [] → I (mgr w sf fuel st).2
  | 0, _, hi, _ => hi
  | fuel + 1, st, hi, he => by
    rw [mgr_eq]
    have hm := hmerge st hi
    have hme : (stMerge st).ents = [] := he
    split
    · exact hm
    · split
      · exact hstop _ hm
      · split
        · exact hm
        · rename_i hsp
          rw [St.ents_nil_eta _ hme]
          have hsc := hscan sf (minBirth (stMerge st).pq) (w.tip (stMerge st).k) (stMerge st) hm hme
            (Nat.not_lt.1 hsp)
          have hse := scan_ents w sf (minBirth (stMerge st).pq) (w.tip (stMerge st).k) (stMerge st)
          generalize scan w sf (minBirth (stMerge st).pq) (w.tip (stMerge st).k) (stMerge st) = r at hsc hse
          obtain ⟨s, st'⟩ := r
          cases s with
          | fuelOut => exact hsc
          | done => exact mgr_inv w sf I hmerge hstop hscan fuel st' hsc (hse (by simp))
          | failed => exact mgr_inv w sf I hmerge hstop hscan fuel st' hsc (hse (by simp))

theorem mgr_final_aux (w : World) (sf : Nat) :
    ∀ (fuel : Nat) (st : St), st.ents = [] → ∀ r, mgr w sf fuel st = r →
      (r.1 = .idle ∨ r.1 = .stopped) → r.2.pq = [] ∧ r.2.next = [] ∧ r.2.ents = []
  | 0, _, _, r, hr, hs => by subst hr; rcases hs with hs | hs <;> cases hs
  | fuel + 1, st, he, r, hr, hs => by
    rw [mgr_eq] at hr
    have hme : (stMerge st).ents = [] := he
    by_cases hemp : (stMerge st).pq.isEmpty = true
    · rw [if_pos hemp] at hr; subst hr
      exact ⟨List.isEmpty_iff.1 hemp, rfl, he⟩
    · rw [if_neg hemp] at hr
      by_cases hq : (stMerge st).quit = true
      · rw [if_pos hq] at hr; subst hr
        exact ⟨rfl, rfl, he⟩
      · rw [if_neg hq] at hr
        by_cases hsp : w.tip (stMerge st).k < minBirth (stMerge st).pq
        · rw [if_pos hsp] at hr; subst hr
          rcases hs with hs | hs <;> cases hs
        · rw [if_neg hsp, St.ents_nil_eta _ hme] at hr
          have hse := scan_ents w sf (minBirth (stMerge st).pq) (w.tip (stMerge st).k) (stMerge st)
          generalize scan w sf (minBirth (stMerge st).pq) (w.tip (stMerge st).k) (stMerge st) = r' at hr hse
          obtain ⟨s, st'⟩ := r'
          cases s with
          | fuelOut => subst hr; rcases hs with hs | hs <;> cases hs
          | done => exact mgr_final_aux w sf fuel st' (hse (by simp)) r hr hs
          | failed => exact mgr_final_aux w sf fuel st' (hse (by simp)) r hr hs

/-- when the manager goes idle or is stopped nothing is queued or watched -/
theorem mgr_final (w : World) (sf fuel : Nat) (st : St) (he : st.ents = [])
    (hs : (mgr w sf fuel st).1 = .idle ∨ (mgr w sf fuel st).1 = .stopped) :
    (mgr w sf fuel st).2.pq = [] ∧ (mgr w sf fuel st).2.next = [] ∧ (mgr w sf fuel st).2.ents = [] :=
  mgr_final_aux w sf fuel st he _ rfl hs

/-! ### conservation over the whole run -/

theorem scan_cons (w : World) (init : List Req) (fuel h endH : Nat) (st : St) (hc : Cons w init st) :
    Cons w init (scan w fuel h endH st).2 := by
  apply scan_inv w (Cons w init) (fun h st => stepH_cons w init h st) _ fuel h endH st hc
  intro endH st hc q
  have := hc q
  simp only [holds, List.count_append, List.map_append, entReqs_nil, List.count_nil, notifyUnspent_req] at this ⊢
  omega

theorem stMerge_cons (w : World) (init : List Req) (st : St) (hc : Cons w init st) :
    Cons w init (stMerge st) := by
  intro q
  have := hc q
  simp only [holds, stMerge, List.count_append, List.count_nil] at this ⊢
  omega

theorem stStop_cons (w : World) (init : List Req) (st : St) (hc : Cons w init st) :
    Cons w init (stStop st) := by
  intro q
  have := hc q
  simp only [holds, stStop, List.count_append, List.map_append, map_req_mk, List.count_nil] at this ⊢
  omega

theorem init_cons (w : World) (init : List Req) : Cons w init { pq := init } := by
  intro q
  simp only [holds, arrived, List.map_nil, entReqs_nil, List.append_nil]

theorem mgr_cons (w : World) (init : List Req) (sf fuel : Nat) (st : St) (hc : Cons w init st)
    (he : st.ents = []) : Cons w init (mgr w sf fuel st).2 :=
  mgr_inv w sf (Cons w init) (stMerge_cons w init) (stStop_cons w init)
    (fun fuel h e st hc _ _ => scan_cons w init fuel h e st hc) fuel st hc he

theorem run_cons (w : World) (sf mf : Nat) (init : List Req) : Cons w init (run w sf mf init).2 :=
  mgr_cons w init sf mf _ (init_cons w init) rfl

theorem Cons.perm {w : World} {init : List Req} {st : St} (hc : Cons w init st) :
    (holds st).Perm (init ++ arrived w st.k) := List.perm_iff_count.2 hc

/-! ### the spin status -/

theorem minBirth_le : ∀ (l : List Req) (q : Req), q ∈ l → minBirth l ≤ q.birth
  | [], _, hq => by cases hq
  | [a], q, hq => by
    simp only [List.mem_singleton] at hq
    subst hq; exact Nat.le_refl _
  | a :: b :: rest, q, hq => by
    have ih := minBirth_le (b :: rest) q
    simp only [minBirth]
    rcases List.mem_cons.1 hq with hq | hq
    · subst hq; exact Nat.min_le_left _ _
    · exact Nat.le_trans (Nat.min_le_right _ _) (ih hq)

theorem mgr_spin_aux (w : World) (sf : Nat) :
    ∀ (fuel : Nat) (st : St) (r : MStatus × St), mgr w sf fuel st = r → r.1 = .spin →
      r.2.pq ≠ [] ∧ ∀ q ∈ r.2.pq, w.tip r.2.k < q.birth
  | 0, _, r, hr, hs => by subst hr; cases hs
  | fuel + 1, st, r, hr, hs => by
    rw [mgr_eq] at hr
    by_cases hemp : (stMerge st).pq.isEmpty = true
    · rw [if_pos hemp] at hr; subst hr; cases hs
    · rw [if_neg hemp] at hr
      by_cases hq : (stMerge st).quit = true
      · rw [if_pos hq] at hr; subst hr; cases hs
      · rw [if_neg hq] at hr
        by_cases hsp : w.tip (stMerge st).k < minBirth (stMerge st).pq
        · rw [if_pos hsp] at hr; subst hr
          refine ⟨fun h0 => hemp (by rw [h0]; rfl), ?_⟩
          intro q hq
          exact Nat.lt_of_lt_of_le hsp (minBirth_le _ q hq)
        · rw [if_neg hsp] at hr
          generalize scan w sf (minBirth (stMerge st).pq) (w.tip (stMerge st).k)
            { stMerge st with ents := [] } = r' at hr
          obtain ⟨s, st'⟩ := r'
          cases s with
          | fuelOut => subst hr; cases hs
          | done => exact mgr_spin_aux w sf fuel st' r hr hs
          | failed => exact mgr_spin_aux w sf fuel st' r hr hs

theorem mgr_spin (w : World) (sf fuel : Nat) (st : St) (hs : (mgr w sf fuel st).1 = .spin) :
    (mgr w sf fuel st).2.pq ≠ [] ∧ ∀ q ∈ (mgr w sf fuel st).2.pq, w.tip (mgr w sf fuel st).2.k < q.birth :=
  mgr_spin_aux w sf fuel st _ rfl hs

end Neutrino.Utxo
