/-
C08 for sequences of store operations, and for the header import's write phase
in particular (`importOps`, Spec/ImportCrash.lean).
-/
import Neutrino.Spec.ImportCrash
import Neutrino.Props.C08
namespace Neutrino.Store

/-- every operation of the sequence is issued under its callers' contract, in
the log the preceding ones have produced -/
def ContractSeq (l : Log) : List Op → Prop
  | [] => True
  | op :: ops => Contract l op ∧ op ≠ .reopen ∧ ContractSeq (l.apply op) ops

theorem applySeq_append (l : Log) (a b : List Op) : applySeq l (a ++ b) = applySeq (applySeq l a) b := by
  induction a generalizing l with
  | nil => rfl
  | cons x xs ih => simp only [List.cons_append, applySeq]; exact ih _

theorem applySeq_take_succ (l : Log) (ops : List Op) (i : Nat) (op : Op) (h : ops[i]? = some op) :
    applySeq l (ops.take (i + 1)) = (applySeq l (ops.take i)).apply op := by
  have : ops.take (i + 1) = ops.take i ++ [op] := by
    rw [List.take_add_one, h]; rfl
  rw [this, applySeq_append]; rfl

/-- an undisturbed prefix of the sequence keeps the stores consistent and the
rest of the sequence under contract -/
theorem runSeq_prefix : ∀ (ops : List Op) (i : Nat) (d : Durable) (l : Log), Rep d l → ContractSeq l ops →
    Rep (runSeq d (ops.take i)) (applySeq l (ops.take i)) ∧ ContractSeq (applySeq l (ops.take i)) (ops.drop i)
  | _, 0, d, l, hr, hc => by simpa [runSeq, applySeq] using ⟨hr, hc⟩
  | [], _ + 1, d, l, hr, _ => by simpa [runSeq, applySeq, ContractSeq] using hr
  | op :: ops, i + 1, d, l, hr, hc => by
    obtain ⟨hc1, hne, hc2⟩ := hc
    have hstep := (C08_resume d l op hr hc1 hne).2
    simp only [List.take_succ_cons, List.drop_succ_cons, runSeq, applySeq]
    exact runSeq_prefix ops i _ _ hstep hc2

/-- **A crash inside the `i`-th operation of any sequence of store operations.**
The operations before it ran undisturbed; the process dies at durable step `k`
of operation `i` (inside a file append: after `torn` bytes).  Then the restart
succeeds and the stores represent exactly the log after the first `i`
operations, or after the first `i+1` (for the multi-step rollback: a log it
passes through) — consistent, filter headers not ahead of block headers. -/
theorem ops_recover (d : Durable) (l : Log) (ops : List Op) (i k torn : Nat) (op : Op)
    (hrep : Rep d l) (hc : ContractSeq l ops) (hop : ops[i]? = some op) :
    let r := exec (runSeq d (ops.take i)) op (.crash k torn)
    (r.2 = .crashed →
        ∃ d' lx, reopen r.1 = some d' ∧ Rep d' lx ∧ lx.filters.length ≤ lx.blocks.length ∧
          (match op with
           | .rollto _ => Between (applySeq l (ops.take i)) (applySeq l (ops.take (i + 1))) lx
           | _ => lx = applySeq l (ops.take i) ∨ lx = applySeq l (ops.take (i + 1)))) ∧
    (r.2 ≠ .crashed → Rep r.1 (applySeq l (ops.take (i + 1)))) := by
  intro r
  obtain ⟨hrp, hcp⟩ := runSeq_prefix ops i d l hrep hc
  have hdrop : ops.drop i = op :: ops.drop (i + 1) := by
    have hlt : i < ops.length := (List.getElem?_eq_some_iff.mp hop).1
    rw [List.drop_eq_getElem_cons hlt]
    congr 1
    exact (List.getElem?_eq_some_iff.mp hop).2
  rw [hdrop] at hcp
  obtain ⟨hc1, hne, _⟩ := hcp
  have h := C08_recover (runSeq d (ops.take i)) (applySeq l (ops.take i)) op k torn hrp hc1 hne
  rw [applySeq_take_succ l ops i op hop]
  refine ⟨fun hcr => ?_, fun hn => (h.2 hn).2⟩
  obtain ⟨d', lx, h1, h2, h3⟩ := h.1 hcr
  refine ⟨d', lx, h1, h2, h2.fle, ?_⟩
  cases op <;> exact h3

/-! ### the import's write phase -/

theorem importOps_wbwf (bs : Nat) : ∀ (fuel : Nat) (nb nf : List Nat) (op : Op), op ∈ importOps bs fuel nb nf →
    (∃ ids, op = .wb ids) ∨ (∃ ids, op = .wf ids)
  | 0, _, _, _, h => by simp [importOps] at h
  | fuel + 1, nb, nf, op, h => by
    unfold importOps at h
    split at h
    · simp at h
    · simp only [List.mem_cons] at h
      rcases h with h | h | h
      · exact Or.inl ⟨_, h⟩
      · exact Or.inr ⟨_, h⟩
      · exact importOps_wbwf bs fuel _ _ op h

/-- the importer honours the stores' contract: the new block ids are distinct
and new, at most as many filter headers as block headers are written per batch,
block batch first -/
theorem importOps_contract (bs : Nat) : ∀ (fuel : Nat) (l : Log) (nb nf : List Nat),
    nb.Nodup → (∀ x ∈ nb, x ∉ l.blocks) → nf.length ≤ nb.length → l.filters.length ≤ l.blocks.length →
    ContractSeq l (importOps bs fuel nb nf)
  | 0, _, _, _, _, _, _, _ => trivial
  | fuel + 1, l, nb, nf, hnd, hfresh, hlen, hfle => by
    unfold importOps
    split
    · trivial
    · have hsplit : nb = nb.take bs ++ nb.drop bs := (List.take_append_drop bs nb).symm
      have hnd' : (nb.take bs ++ nb.drop bs).Nodup := by rw [← hsplit]; exact hnd
      have hparts := List.nodup_append.mp hnd'
      refine ⟨⟨hparts.1, fun x hx => hfresh x (List.mem_of_mem_take hx)⟩, by simp, ?_, by simp, ?_⟩
      · show (l.apply (.wb (nb.take bs))).filters.length + (nf.take bs).length ≤ (l.apply (.wb (nb.take bs))).blocks.length
        simp only [Log.apply, List.length_append, List.length_take]
        omega
      · apply importOps_contract bs fuel _ (nb.drop bs) (nf.drop bs) hparts.2.1
        · intro x hx
          simp only [Log.apply, List.mem_append, not_or]
          exact ⟨hfresh x (List.mem_of_mem_drop hx), fun hx' => hparts.2.2 x hx' x hx rfl⟩
        · simp only [List.length_drop]; omega
        · simp only [Log.apply, List.length_append, List.length_take]; omega

/-- the log after the first `j` store calls of the import: whole batches of the
new headers — `⌈j/2⌉` block batches and `⌊j/2⌋` filter batches -/
theorem applySeq_importOps_take (bs : Nat) (hbs : bs ≥ 1) : ∀ (fuel : Nat) (l : Log) (nb nf : List Nat) (j : Nat),
    fuel ≥ nb.length → nf.length = nb.length →
    applySeq l ((importOps bs fuel nb nf).take j) =
      { blocks := l.blocks ++ nb.take (bs * ((j + 1) / 2)), filters := l.filters ++ nf.take (bs * (j / 2)) }
  | 0, l, nb, nf, j, hf, hl => by
    have h1 : nb = [] := List.eq_nil_of_length_eq_zero (by omega)
    have h2 : nf = [] := List.eq_nil_of_length_eq_zero (by omega)
    subst h1; subst h2
    simp [importOps, applySeq]
  | fuel + 1, l, nb, nf, j, hf, hl => by
    unfold importOps
    split
    · rename_i he
      have h1 : nb = [] := by simpa using he
      have h2 : nf = [] := List.eq_nil_of_length_eq_zero (by rw [hl, h1]; rfl)
      subst h1; subst h2
      simp [applySeq]
    · rename_i he
      have hne : nb ≠ [] := by simpa using he
      have hpos : nb.length ≥ 1 := by
        cases nb with
        | nil => exact absurd rfl hne
        | cons _ _ => simp
      match j with
      | 0 => simp [applySeq]
      | 1 =>
        simp only [List.take_succ_cons, List.take_zero, applySeq, Log.apply]
        simp
      | j + 2 =>
        simp only [List.take_succ_cons, applySeq]
        rw [applySeq_importOps_take bs hbs fuel _ (nb.drop bs) (nf.drop bs) j
          (by simp only [List.length_drop]; omega) (by simp only [List.length_drop]; omega)]
        simp only [Log.apply, List.append_assoc]
        have e1 : (j + 2 + 1) / 2 = (j + 1) / 2 + 1 := by omega
        have e2 : (j + 2) / 2 = j / 2 + 1 := by omega
        have t1 : nb.take (bs * ((j + 1) / 2 + 1)) = nb.take bs ++ (nb.drop bs).take (bs * ((j + 1) / 2)) := by
          rw [Nat.mul_add, Nat.mul_one, Nat.add_comm, List.take_add]
        have t2 : nf.take (bs * (j / 2 + 1)) = nf.take bs ++ (nf.drop bs).take (bs * (j / 2)) := by
          rw [Nat.mul_add, Nat.mul_one, Nat.add_comm, List.take_add]
        rw [e1, e2, t1, t2]

end Neutrino.Store
