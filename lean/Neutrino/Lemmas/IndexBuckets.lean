import Neutrino.Model.IndexBuckets
import Neutrino.Lemmas.Store
namespace Neutrino.Store

variable (pre : Nat → Nat)

theorem Buckets.get_put (b : Buckets) (id h j : Nat) :
    (b.put pre id h).get pre j = if j = id then some h else b.get pre j := by
  unfold Buckets.put Buckets.get
  by_cases hj : j = id
  · subst hj; simp
  · simp only [hj, ↓reduceIte]
    by_cases hp : pre j = pre id
    · simp only [hp, ↓reduceIte]
      cases hs : b.sub (pre id) with
      | none => simp only [hj, ↓reduceIte]
      | some es => simp only [hj, ↓reduceIte]
    · simp only [hp, ↓reduceIte]

theorem Buckets.disjoint_put (b : Buckets) (id h : Nat) (hd : b.Disjoint pre) (hr : b.root id = none) :
    (b.put pre id h).Disjoint pre := by
  intro j es' h' hs he
  unfold Buckets.put at hs ⊢
  simp only at hs ⊢
  by_cases hp : pre j = pre id
  · simp only [hp, ↓reduceIte, Option.some.injEq] at hs
    subst hs
    by_cases hj : j = id
    · subst hj; exact hr
    · simp only [hj, ↓reduceIte] at he
      cases hsub : b.sub (pre id) with
      | none => simp [hsub] at he
      | some es =>
        simp only [hsub] at he
        exact hd j es h' (by rw [hp]; exact hsub) he
  · simp only [hp, ↓reduceIte] at hs
    exact hd j es' h' hs he

theorem Buckets.root_put (b : Buckets) (id h : Nat) : (b.put pre id h).root = b.root := rfl

/-- the sub-bucket phase: succeeds when every bucket exists, and removes exactly the listed keys -/
theorem Buckets.delSub_spec (ids : List Nat) :
    ∀ (b : Buckets), (∀ id ∈ ids, b.sub (pre id) ≠ none) →
      ∃ b', b.delSub pre ids = some b' ∧ b'.root = b.root ∧
        (∀ j, (b'.sub (pre j)).isSome = (b.sub (pre j)).isSome) ∧
        (∀ j es', b'.sub (pre j) = some es' → ∃ es, b.sub (pre j) = some es ∧
            es' j = if j ∈ ids then none else es j) := by
  induction ids with
  | nil =>
    intro b _
    exact ⟨b, rfl, rfl, fun _ => rfl, fun j es' h => ⟨es', h, by simp⟩⟩
  | cons id rest ih =>
    intro b hex
    cases hs : b.sub (pre id) with
    | none => exact absurd hs (hex id (by simp))
    | some es =>
      simp only [Buckets.delSub, hs]
      let b1 : Buckets :=
        { b with sub := fun p => if p = pre id then some (fun j => if j = id then none else es j) else b.sub p }
      have hex1 : ∀ i ∈ rest, b1.sub (pre i) ≠ none := by
        intro i hi
        simp only [b1]
        by_cases hp : pre i = pre id
        · simp [hp]
        · simp only [hp, ↓reduceIte]; exact hex i (by simp [hi])
      obtain ⟨b', hb', hroot, hsome, hsub⟩ := ih b1 hex1
      refine ⟨b', hb', hroot, ?_, ?_⟩
      · intro j
        rw [hsome j]
        simp only [b1]
        by_cases hp : pre j = pre id
        · simp [hp, hs]
        · simp [hp]
      · intro j es' hes'
        obtain ⟨es1, hes1, hval⟩ := hsub j es' hes'
        simp only [b1] at hes1
        by_cases hp : pre j = pre id
        · simp only [hp, ↓reduceIte, Option.some.injEq] at hes1
          refine ⟨es, by rw [hp]; exact hs, ?_⟩
          rw [hval, ← hes1]
          by_cases hj : j = id
          · subst hj; simp
          · simp [hj]
        · simp only [hp, ↓reduceIte] at hes1
          refine ⟨es1, hes1, ?_⟩
          rw [hval]
          have hj : j ≠ id := fun e => hp (by rw [e])
          simp [hj]

/-- **`deleteHeaderEntries` refines deletion from a plain map** when no hash is
stored twice and every listed hash is indexed: it succeeds, the listed hashes
are gone, every other lookup is unchanged, and still no hash is stored twice. -/
theorem Buckets.delEntries_spec (b : Buckets) (ids : List Nat) (hd : b.Disjoint pre)
    (hall : ∀ id ∈ ids, b.get pre id ≠ none) :
    ∃ b', b.delEntries pre ids = some b' ∧ b'.Disjoint pre ∧
      ∀ j, b'.get pre j = if j ∈ ids then none else b.get pre j := by
  have hex : ∀ id ∈ ids.filter (fun id => !b.inRoot id),
      (b.delRoot (ids.filter b.inRoot)).sub (pre id) ≠ none := by
    intro id hid
    simp only [List.mem_filter, Bool.not_eq_eq_eq_not, Bool.not_true] at hid
    have hg := hall id hid.1
    have hr : b.root id = none := by
      have := hid.2
      simp only [Buckets.inRoot] at this
      cases h : b.root id with
      | none => rfl
      | some _ => simp [h] at this
    simp only [Buckets.delRoot]
    intro hn
    apply hg
    simp [Buckets.get, hn, hr]
  obtain ⟨b', hb', hroot, _, hsub⟩ := Buckets.delSub_spec pre _ _ hex
  refine ⟨b', hb', ?_, ?_⟩
  · intro j es' h' hs he
    obtain ⟨es, hes, hval⟩ := hsub j es' hs
    rw [hroot]
    simp only [Buckets.delRoot] at hes ⊢
    rw [hval] at he
    by_cases hm : j ∈ ids.filter (fun id => !b.inRoot id)
    · simp [hm] at he
    · simp only [hm, ↓reduceIte] at he
      have := hd j es h' hes he
      simp [this]
  · intro j
    unfold Buckets.get
    rw [hroot]
    simp only [Buckets.delRoot]
    by_cases hj : j ∈ ids
    · simp only [hj, ↓reduceIte]
      by_cases hr : b.inRoot j = true
      · -- stored in the root bucket: removed there; the sub-bucket never had it
        have hmr : j ∈ ids.filter b.inRoot := by simp [hj, hr]
        have hrs : ∃ h, b.root j = some h := by
          simp only [Buckets.inRoot] at hr
          cases h : b.root j with
          | none => simp [h] at hr
          | some v => exact ⟨v, rfl⟩
        obtain ⟨hv, hrv⟩ := hrs
        cases hs : b'.sub (pre j) with
        | none => simp [hmr]
        | some es' =>
          obtain ⟨es, hes, hval⟩ := hsub j es' hs
          simp only [Buckets.delRoot] at hes
          have hesj : es j = none := by
            cases h : es j with
            | none => rfl
            | some v =>
              have := hd j es v hes h
              rw [hrv] at this; cases this
          have : es' j = none := by
            rw [hval]; split <;> simp [hesj]
          simp [this, hmr]
      · -- stored in its sub-bucket: removed there; the root never had it
        have hr' : b.inRoot j = false := by simpa using hr
        have hms : j ∈ ids.filter (fun id => !b.inRoot id) := by simp [hj, hr']
        have hrn : b.root j = none := by
          simp only [Buckets.inRoot] at hr'
          cases h : b.root j with
          | none => rfl
          | some _ => simp [h] at hr'
        cases hs : b'.sub (pre j) with
        | none => simp [hrn]
        | some es' =>
          obtain ⟨es, hes, hval⟩ := hsub j es' hs
          have : es' j = none := by rw [hval]; simp [hms]
          simp [this, hrn]
    · simp only [hj, ↓reduceIte]
      have hnr : j ∉ ids.filter b.inRoot := by simp [hj]
      have hns : j ∉ ids.filter (fun id => !b.inRoot id) := by simp [hj]
      simp only [hnr, ↓reduceIte]
      cases hs : b'.sub (pre j) with
      | none =>
        have h0 := (Buckets.delSub_spec pre _ _ hex)
        -- existence of buckets is unchanged
        obtain ⟨b'', hb'', _, hsome, _⟩ := h0
        have hbb : b'' = b' := by rw [hb'] at hb''; exact (Option.some.inj hb'').symm
        subst hbb
        have := hsome j
        rw [hs] at this
        simp only [Buckets.delRoot, Option.isSome_none] at this
        cases hb : b.sub (pre j) with
        | none => rfl
        | some _ => rw [hb] at this; simp at this
      | some es' =>
        obtain ⟨es, hes, hval⟩ := hsub j es' hs
        simp only [Buckets.delRoot] at hes
        rw [hes]
        simp only [hval, hns, ↓reduceIte]

/-- the abstract index follows a put -/
theorem Buckets.refines_put (b : Buckets) (db : Db) (id h : Nat) (hr : b.Refines pre db) :
    (b.put pre id h).Refines pre (db.put id h) := by
  intro j
  rw [Buckets.get_put, height?_put, hr j]

/-- … and a successful `deleteHeaderEntries` -/
theorem Buckets.refines_delAll (b : Buckets) (db : Db) (ids : List Nat) (hd : b.Disjoint pre)
    (hr : b.Refines pre db) (hall : ∀ id ∈ ids, db.height? id ≠ none) :
    ∃ b', b.delEntries pre ids = some b' ∧ b'.Disjoint pre ∧ b'.Refines pre (db.delAll ids) := by
  obtain ⟨b', hb', hd', hg⟩ := Buckets.delEntries_spec pre b ids hd (fun id hid => by rw [hr id]; exact hall id hid)
  refine ⟨b', hb', hd', ?_⟩
  intro j
  rw [hg j, height?_delAll, hr j]

/-- … and the loop of `addHeaders`, for hashes not stored in the root bucket -/
theorem Buckets.refines_putAll (ids : List Nat) :
    ∀ (b : Buckets) (db : Db) (s : Nat), b.Disjoint pre → b.Refines pre db → (∀ id ∈ ids, b.root id = none) →
      (Buckets.putAll pre b ids s).Disjoint pre ∧ (Buckets.putAll pre b ids s).Refines pre (Db.addHeaders.go db ids s) := by
  induction ids with
  | nil => intro b db s hd hr _; exact ⟨hd, hr⟩
  | cons id rest ih =>
    intro b db s hd hr hroot
    simp only [Buckets.putAll, Db.addHeaders.go]
    exact ih _ _ _ (Buckets.disjoint_put pre b id s hd (hroot id (by simp)))
      (Buckets.refines_put pre b db id s hr)
      (fun i hi => by rw [Buckets.root_put]; exact hroot i (by simp [hi]))

theorem Buckets.ready_ensure (b : Buckets) : b.ensure.Ready := by
  intro p
  simp only [Buckets.ensure]
  cases b.sub p <;> simp

theorem Buckets.get_ensure (b : Buckets) (id : Nat) : b.ensure.get pre id = b.get pre id := by
  simp only [Buckets.get, Buckets.ensure]
  cases b.sub (pre id) <;> rfl

theorem Buckets.disjoint_ensure (b : Buckets) (hd : b.Disjoint pre) : b.ensure.Disjoint pre := by
  intro id es h hs he
  simp only [Buckets.ensure] at hs ⊢
  cases hb : b.sub (pre id) with
  | none => rw [hb] at hs; simp only [Option.some.injEq] at hs; subst hs; cases he
  | some es0 => rw [hb] at hs; simp only [Option.some.injEq] at hs; subst hs; exact hd id es0 h hb he

theorem Buckets.ready_put (b : Buckets) (id h : Nat) (hr : b.Ready) : (b.put pre id h).Ready := by
  intro p
  simp only [Buckets.put]
  by_cases hp : p = pre id
  · simp [hp]
  · simp only [hp, ↓reduceIte]; exact hr p

/-- with every sub-bucket in place `addHeaders`' loop never fails and is the plain sequence of puts -/
theorem Buckets.addAll_ready (ids : List Nat) :
    ∀ (b : Buckets) (s : Nat), b.Ready →
      Buckets.addAll pre b ids s = some (Buckets.putAll pre b ids s) ∧ (Buckets.putAll pre b ids s).Ready := by
  induction ids with
  | nil => intro b s hr; exact ⟨rfl, hr⟩
  | cons id rest ih =>
    intro b s hr
    simp only [Buckets.addAll, Buckets.putAll]
    cases hs : b.sub (pre id) with
    | none => exact absurd hs (hr _)
    | some _ => exact ih _ _ (Buckets.ready_put pre b id s hr)

theorem Buckets.ready_delEntries (b b' : Buckets) (ids : List Nat) (hr : b.Ready)
    (h : b.delEntries pre ids = some b') : b'.Ready := by
  have hex : ∀ id ∈ ids.filter (fun id => !b.inRoot id),
      (b.delRoot (ids.filter b.inRoot)).sub (pre id) ≠ none := fun id _ => hr _
  obtain ⟨b'', hb'', _, hsome, _⟩ := Buckets.delSub_spec pre _ _ hex
  have : b'' = b' := by
    unfold Buckets.delEntries at h
    rw [hb''] at h; exact Option.some.inj h
  subst this
  intro p hp
  -- a bucket name that is no hash prefix is never touched; in general: existence is preserved
  have key : ∀ (l : List Nat) (c c' : Buckets), c.delSub pre l = some c' → ∀ q, c.sub q ≠ none → c'.sub q ≠ none := by
    intro l
    induction l with
    | nil => intro c c' hc q hq; simp only [Buckets.delSub, Option.some.injEq] at hc; subst hc; exact hq
    | cons i is ih =>
      intro c c' hc q hq
      simp only [Buckets.delSub] at hc
      cases hs : c.sub (pre i) with
      | none => rw [hs] at hc; cases hc
      | some es =>
        rw [hs] at hc
        refine ih _ _ hc q ?_
        by_cases hqp : q = pre i
        · simp [hqp]
        · simp only [hqp, ↓reduceIte]; exact hq
  exact key _ _ _ hb'' p (hr p) hp

end Neutrino.Store
