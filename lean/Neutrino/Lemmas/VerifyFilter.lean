/-
Helper lemmas about the model of `VerifyBasicBlockFilter` (Model/VerifyFilter.lean).
-/
import Neutrino.Model.VerifyFilter
namespace Neutrino.VerifyFilter

def outOrd (os : List Out) : List Nat := (os.filter (·.kind == .ord)).map (·.script)
def outOpret (os : List Out) : List Nat := (os.filter (·.kind == .opret)).map (·.script)
def inComputed (is : List In) : List Nat := (is.filter (·.kind == .computed)).map (·.script)

def nMatch (mem : Nat → Option Bool) (ss : List Nat) : Nat := (ss.filter (fun s => mem s == some true)).length

theorem outOrd_cons (o : Out) (os : List Out) :
    outOrd (o :: os) = if o.kind == .ord then o.script :: outOrd os else outOrd os := by
  unfold outOrd; by_cases h : o.kind == .ord <;> simp [h]

theorem outOpret_cons (o : Out) (os : List Out) :
    outOpret (o :: os) = if o.kind == .opret then o.script :: outOpret os else outOpret os := by
  unfold outOpret; by_cases h : o.kind == .opret <;> simp [h]

theorem inComputed_cons (i : In) (is : List In) :
    inComputed (i :: is) = if i.kind == .computed then i.script :: inComputed is else inComputed is := by
  unfold inComputed; by_cases h : i.kind == .computed <;> simp [h]

/-- the output loop rejects exactly when an ordinary output script is not matched (no `Match` errors) -/
theorem verifyOuts_none_iff (mem : Nat → Option Bool) (os : List Out) (acc : Nat)
    (hE : ∀ s ∈ outOrd os ++ outOpret os, (mem s).isSome = true) :
    verifyOuts mem os acc = none ↔ ∃ s ∈ outOrd os, mem s = some false := by
  induction os generalizing acc with
  | nil => simp [verifyOuts, outOrd]
  | cons o os ih =>
    have hE' : ∀ s ∈ outOrd os ++ outOpret os, (mem s).isSome = true := by
      intro s hs
      apply hE
      rw [outOrd_cons, outOpret_cons]
      rcases List.mem_append.mp hs with h | h
      · apply List.mem_append_left; split <;> simp [h]
      · apply List.mem_append_right; split <;> simp [h]
    cases hk : o.kind with
    | empty =>
      simp only [verifyOuts, hk]
      rw [ih acc hE', outOrd_cons]; simp [hk]
    | opret =>
      have hs : (mem o.script).isSome = true := by
        apply hE; apply List.mem_append_right; rw [outOpret_cons]; simp [hk]
      simp only [verifyOuts, hk]
      cases hm : mem o.script with
      | none => simp [hm] at hs
      | some b =>
        cases b <;> simp only [] <;> rw [ih _ hE', outOrd_cons] <;> simp [hk]
    | ord =>
      have hs : (mem o.script).isSome = true := by
        apply hE; apply List.mem_append_left; rw [outOrd_cons]; simp [hk]
      simp only [verifyOuts, hk]
      cases hm : mem o.script with
      | none => simp [hm] at hs
      | some b =>
        cases b
        · simp only []
          constructor
          · intro _; exact ⟨o.script, by rw [outOrd_cons]; simp [hk], hm⟩
          · intro _; trivial
        · simp only []
          rw [ih acc hE', outOrd_cons]
          simp only [hk, beq_self_eq_true, ↓reduceIte, List.mem_cons]
          constructor
          · rintro ⟨s, hs1, hs2⟩; exact ⟨s, Or.inr hs1, hs2⟩
          · rintro ⟨s, hs1 | hs1, hs2⟩
            · subst hs1; rw [hm] at hs2; cases hs2
            · exact ⟨s, hs1, hs2⟩

/-- an accepting output loop has counted exactly the matched OP_RETURN outputs -/
theorem verifyOuts_some (mem : Nat → Option Bool) (os : List Out) (acc n : Nat)
    (h : verifyOuts mem os acc = some n) : n = acc + nMatch mem (outOpret os) := by
  induction os generalizing acc with
  | nil => simp [verifyOuts] at h; simp [outOpret, nMatch, h]
  | cons o os ih =>
    cases hk : o.kind with
    | empty =>
      simp only [verifyOuts, hk] at h
      rw [ih acc h, outOpret_cons]; simp [hk]
    | opret =>
      simp only [verifyOuts, hk] at h
      cases hm : mem o.script with
      | none => simp [hm] at h
      | some b =>
        cases b <;> simp only [hm] at h <;> rw [ih _ h, outOpret_cons] <;>
          simp [hk, nMatch, List.filter_cons, hm] <;> omega
    | ord =>
      simp only [verifyOuts, hk] at h
      cases hm : mem o.script with
      | none => simp [hm] at h
      | some b =>
        cases b <;> simp only [hm] at h
        · cases h
        · rw [ih acc h, outOpret_cons]; simp [hk]

/-- the input loop only ends the verification on a `Match` error -/
theorem verifyIns_true (mem : Nat → Option Bool) (is : List In)
    (hE : ∀ s ∈ inComputed is, (mem s).isSome = true) : verifyIns mem is = true := by
  induction is with
  | nil => rfl
  | cons i is ih =>
    have hE' : ∀ s ∈ inComputed is, (mem s).isSome = true := by
      intro s hs; apply hE; rw [inComputed_cons]; split <;> simp [hs]
    cases hk : i.kind <;> simp only [verifyIns, hk] <;> try exact ih hE'
    have hs : (mem i.script).isSome = true := by apply hE; rw [inComputed_cons]; simp [hk]
    cases hm : mem i.script with
    | none => simp [hm] at hs
    | some b => exact ih hE'

theorem ordScripts_cons (t : Tx) (ts : List Tx) : ordScripts (t :: ts) = outOrd t.outs ++ ordScripts ts := by
  simp [ordScripts, outOrd]

theorem opretScripts_cons (t : Tx) (ts : List Tx) : opretScripts (t :: ts) = outOpret t.outs ++ opretScripts ts := by
  simp [opretScripts, outOpret]

theorem inScripts_cons (t : Tx) (ts : List Tx) : inScripts (t :: ts) = inComputed t.ins ++ inScripts ts := by
  simp [inScripts, inComputed]

def errFreeTxs (mem : Nat → Option Bool) (ts : List Tx) : Prop :=
  ∀ s ∈ ordScripts ts ++ opretScripts ts ++ inScripts ts, (mem s).isSome = true

theorem errFreeTxs_cons (mem : Nat → Option Bool) (t : Tx) (ts : List Tx) (h : errFreeTxs mem (t :: ts)) :
    (∀ s ∈ outOrd t.outs ++ outOpret t.outs, (mem s).isSome = true) ∧
    (∀ s ∈ inComputed t.ins, (mem s).isSome = true) ∧ errFreeTxs mem ts := by
  unfold errFreeTxs at *
  rw [ordScripts_cons, opretScripts_cons, inScripts_cons] at h
  refine ⟨?_, ?_, ?_⟩
  · intro s hs; apply h; simp only [List.mem_append] at *; rcases hs with hs | hs <;> simp [hs]
  · intro s hs; apply h; simp only [List.mem_append] at *; simp [hs]
  · intro s hs; apply h; simp only [List.mem_append] at *; rcases hs with (hs | hs) | hs <;> simp [hs]

theorem verifyTxs_none_iff (mem : Nat → Option Bool) (ts : List Tx) (acc : Nat) (hE : errFreeTxs mem ts) :
    verifyTxs mem ts acc = none ↔ ∃ s ∈ ordScripts ts, mem s = some false := by
  induction ts generalizing acc with
  | nil => simp [verifyTxs, ordScripts]
  | cons t ts ih =>
    obtain ⟨h1, h2, h3⟩ := errFreeTxs_cons mem t ts hE
    simp only [verifyTxs]
    rw [ordScripts_cons]
    cases ho : verifyOuts mem t.outs acc with
    | none =>
      simp only []
      have := (verifyOuts_none_iff mem t.outs acc h1).mp ho
      obtain ⟨s, hs, hm⟩ := this
      exact ⟨fun _ => ⟨s, List.mem_append_left _ hs, hm⟩, fun _ => trivial⟩
    | some a =>
      simp only [verifyIns_true mem t.ins h2, ↓reduceIte]
      rw [ih a h3]
      have hno : ¬ ∃ s ∈ outOrd t.outs, mem s = some false := by
        intro hx; have := (verifyOuts_none_iff mem t.outs acc h1).mpr hx; rw [ho] at this; cases this
      constructor
      · rintro ⟨s, hs, hm⟩; exact ⟨s, List.mem_append_right _ hs, hm⟩
      · rintro ⟨s, hs, hm⟩
        rcases List.mem_append.mp hs with hs | hs
        · exact absurd ⟨s, hs, hm⟩ hno
        · exact ⟨s, hs, hm⟩

theorem matches_append (mem : Nat → Option Bool) (a b : List Nat) :
    nMatch mem (a ++ b) = nMatch mem a + nMatch mem b := by
  simp [nMatch, List.filter_append]

theorem verifyTxs_some (mem : Nat → Option Bool) (ts : List Tx) (acc n : Nat)
    (h : verifyTxs mem ts acc = some n) : n = acc + nMatch mem (opretScripts ts) := by
  induction ts generalizing acc with
  | nil => simp [verifyTxs] at h; simp [opretScripts, nMatch, h]
  | cons t ts ih =>
    simp only [verifyTxs] at h
    cases ho : verifyOuts mem t.outs acc with
    | none => simp [ho] at h
    | some a =>
      simp only [ho] at h
      by_cases hi : verifyIns mem t.ins = true
      · simp only [hi, ↓reduceIte] at h
        rw [ih a h, opretScripts_cons, matches_append, verifyOuts_some mem t.outs acc a ho]; omega
      · simp [hi] at h

/-- the outputs alone decide (no `Match` errors): dropping every input changes nothing -/
theorem verifyTxs_ignores_inputs (mem : Nat → Option Bool) (ts : List Tx) (acc : Nat) (hE : errFreeTxs mem ts) :
    verifyTxs mem ts acc = verifyTxs mem (ts.map (fun t => { t with ins := [] })) acc := by
  induction ts generalizing acc with
  | nil => rfl
  | cons t ts ih =>
    obtain ⟨_, h2, h3⟩ := errFreeTxs_cons mem t ts hE
    simp only [verifyTxs, List.map_cons]
    cases ho : verifyOuts mem t.outs acc with
    | none => rfl
    | some a => simp only [verifyIns_true mem t.ins h2, verifyIns, ↓reduceIte]; exact ih a h3

end Neutrino.VerifyFilter
