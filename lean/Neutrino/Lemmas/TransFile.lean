/-
`HeaderType.Size` as the CODE defines it (translated from headerfs/index.go on every run,
Gen/TransFile.lean): the entry width the store model (`Store.width`) computes offsets with - 80 bytes for
the block header file (`Block` = 0), 32 for the filter header file (`RegularFilter` = 1), an error for
any other header type.
-/
import Neutrino.Gen.TransFile
import Neutrino.Model.Store
namespace Neutrino.Store
open Neutrino.Gen.TransFile Neutrino.GoInt

/-- the header type value of a store (`headerfs.Block`, `headerfs.RegularFilter`) -/
def typeOf : Which → Atom
  | .B => 0
  | .F => 1

theorem trans_headerTypeSize (w : Which) : HeaderType_Size (typeOf w) = (((width w : Nat) : Int), false) := by
  cases w <;> rfl

theorem trans_headerTypeSize_unknown (t : Atom) (h : ∀ w, t ≠ typeOf w) : HeaderType_Size t = (0, true) := by
  have h0 : t ≠ 0 := h .B
  have h1 : t ≠ 1 := h .F
  simp only [HeaderType_Size, h0, h1, ↓reduceIte]

end Neutrino.Store
