/-
`ChainService.IsBanned` as the CODE defines it (translated from neutrino.go on every run,
Gen/TransBan.lean): "banned" exactly when the address parses, the store answers without error and its
status says banned - the model's `BanEnforce.isBanned` (any error counts as "not banned").
-/
import Neutrino.Gen.TransBan
namespace Neutrino.Ban
open Neutrino.Gen.TransBan Neutrino.GoInt

/-- closed form for every parser / store / clock answer -/
theorem trans_isBanned (addr : String) (before : Atom → Atom → Bool) (status : Atom → T_banman_Status × Bool)
    (parse : String → Atom → Atom × Bool) (now : Atom) :
    IsBanned addr before status parse now
      = (!(parse addr 0).2 && !(status (parse addr 0).1).2 && (status (parse addr 0).1).1.Banned) := by
  unfold IsBanned
  cases h1 : (parse addr 0).2 <;> cases h2 : (status (parse addr 0).1).2 <;> simp [h1, h2]

end Neutrino.Ban
