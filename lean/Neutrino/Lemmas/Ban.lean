/-
Helper lemmas for C13: the association list, the To4 / To16 normal forms and
the injectivity of the key encoding.  Core Lean only.
-/
import Neutrino.Spec.Ban
namespace Neutrino.Ban

/-! ### association list -/

theorem lookup_del_self (rs : Recs) (k : Bytes) : lookup (del rs k) k = none := by
  induction rs with
  | nil => rfl
  | cons p rest ih =>
    obtain ⟨k', v⟩ := p
    simp only [del]
    by_cases h : k' = k
    · simp only [h, ↓reduceIte]; exact ih
    · simp only [h, ↓reduceIte, lookup]; exact ih

theorem lookup_del_ne (rs : Recs) (k k2 : Bytes) (hne : k ≠ k2) : lookup (del rs k) k2 = lookup rs k2 := by
  induction rs with
  | nil => rfl
  | cons p rest ih =>
    obtain ⟨k', v⟩ := p
    simp only [del]
    by_cases h : k' = k
    · subst h
      simp only [↓reduceIte, lookup, hne]; exact ih
    · simp only [h, ↓reduceIte, lookup]
      by_cases h2 : k' = k2
      · simp only [h2, ↓reduceIte]
      · simp only [h2, ↓reduceIte]; exact ih

theorem lookup_put_self (rs : Recs) (k : Bytes) (v : Int × Nat) : lookup (put rs k v) k = some v := by
  simp only [put, lookup, ↓reduceIte]

theorem lookup_put_ne (rs : Recs) (k k2 : Bytes) (v : Int × Nat) (hne : k ≠ k2) :
    lookup (put rs k v) k2 = lookup rs k2 := by
  simp only [put, lookup, hne, ↓reduceIte]
  exact lookup_del_ne rs k k2 hne

/-! ### To4 / To16 -/

theorem v4Prefix_length : v4Prefix.length = 12 := rfl

theorem to4_some {ip a : Bytes} (h : to4 ip = some a) :
    a.length = 4 ∧ to16 ip = some (v4Prefix ++ a) := by
  simp only [to4] at h
  by_cases h4 : ip.length = 4
  · simp only [h4, ↓reduceIte, Option.some.injEq] at h
    subst h
    exact ⟨h4, by simp only [to16, h4, ↓reduceIte]⟩
  · simp only [h4, ↓reduceIte] at h
    by_cases h16 : ip.length = 16 ∧ ip.take 12 = v4Prefix
    · simp only [h16, and_self, ↓reduceIte, Option.some.injEq] at h
      subst h
      refine ⟨by simp only [List.length_drop, h16.1], ?_⟩
      rw [to16, if_neg h4, if_pos h16.1, ← h16.2, List.take_append_drop]
    · simp only [h16, ↓reduceIte] at h
      exact absurd h (by simp)

theorem to4_none {ip b : Bytes} (h : to4 ip = none) (hb : to16 ip = some b) :
    b = ip ∧ ip.length = 16 ∧ ip.take 12 ≠ v4Prefix := by
  simp only [to4] at h
  by_cases h4 : ip.length = 4
  · simp only [h4, ↓reduceIte] at h; exact absurd h (by simp)
  · simp only [h4, ↓reduceIte] at h
    simp only [to16, h4, ↓reduceIte] at hb
    by_cases h16 : ip.length = 16
    · simp only [h16, ↓reduceIte, Option.some.injEq] at hb
      refine ⟨hb.symm, h16, ?_⟩
      intro hp
      simp only [h16, hp, and_self, ↓reduceIte] at h
      exact absurd h (by simp)
    · simp only [h16, ↓reduceIte] at hb; exact absurd hb (by simp)

theorem to16_none_of_to4 {ip : Bytes} (h : to16 ip = none) : to4 ip = none := by
  simp only [to16] at h
  by_cases h4 : ip.length = 4
  · simp only [h4, ↓reduceIte] at h; exact absurd h (by simp)
  · simp only [h4, ↓reduceIte] at h
    by_cases h16 : ip.length = 16
    · simp only [h16, ↓reduceIte] at h; exact absurd h (by simp)
    · simp only [to4, h4, h16, false_and, ↓reduceIte]

/-! ### key ↔ NetId -/

/-- The encoding succeeds exactly when the address has a 16-byte form. -/
theorem encodeKey_isSome_iff (ip m : Bytes) : (encodeKey ip m).isSome = (netId ip m).isSome := by
  simp only [encodeKey, netId]
  cases h4 : to4 ip with
  | some a => rw [(to4_some h4).2]; rfl
  | none => cases h16 : to16 ip <;> rfl

theorem append_inj_len {a a' m m' : Bytes} (hl : a.length = a'.length) (h : a ++ m = a' ++ m') :
    a = a' ∧ m = m' := List.append_inj h hl

/-- **Injectivity**: two supported (ip, mask) pairs have the same key exactly
when they are the same network (same 16-byte form of the address, same mask). -/
theorem key_eq_iff_id_eq {ip m ip' m' k k' : Bytes} {id id' : NetId}
    (hk : encodeKey ip m = some k) (hk' : encodeKey ip' m' = some k')
    (hi : netId ip m = some id) (hi' : netId ip' m' = some id') :
    k = k' ↔ id = id' := by
  simp only [encodeKey] at hk hk'
  simp only [netId] at hi hi'
  cases h4 : to4 ip with
  | some a =>
    obtain ⟨hal, ha16⟩ := to4_some h4
    simp only [h4, Option.some.injEq] at hk
    simp only [ha16, Option.some.injEq] at hi
    subst hk; subst hi
    cases h4' : to4 ip' with
    | some a' =>
      obtain ⟨hal', ha16'⟩ := to4_some h4'
      simp only [h4', Option.some.injEq] at hk'
      simp only [ha16', Option.some.injEq] at hi'
      subst hk'; subst hi'
      constructor
      · intro h
        have h' : a ++ m = a' ++ m' := by simpa using h
        obtain ⟨h1, h2⟩ := append_inj_len (hal.trans hal'.symm) h'
        subst h1; subst h2; rfl
      · intro h
        have h1 : v4Prefix ++ a = v4Prefix ++ a' := congrArg NetId.ip16 h
        have h2 : m = m' := congrArg NetId.mask h
        have h3 : a = a' := List.append_cancel_left h1
        subst h2; subst h3; rfl
    | none =>
      simp only [h4'] at hk'
      cases h16' : to16 ip' with
      | none => simp only [h16'] at hi'; exact absurd hi' (by simp)
      | some b' =>
        obtain ⟨hb, hlen, hnp⟩ := to4_none h4' h16'
        simp only [h16', Option.some.injEq] at hk' hi'
        subst hk'; subst hi'; subst hb
        constructor
        · intro h; simp at h
        · intro h
          have h1 : v4Prefix ++ a = b' := congrArg NetId.ip16 h
          exfalso; apply hnp
          rw [← h1]
          simp only [List.take_left' v4Prefix_length]
  | none =>
    simp only [h4] at hk
    cases h16 : to16 ip with
    | none => simp only [h16] at hi; exact absurd hi (by simp)
    | some b =>
      obtain ⟨hb, hlen, hnp⟩ := to4_none h4 h16
      simp only [h16, Option.some.injEq] at hk hi
      subst hk; subst hi; subst hb
      cases h4' : to4 ip' with
      | some a' =>
        obtain ⟨hal', ha16'⟩ := to4_some h4'
        simp only [h4', Option.some.injEq] at hk'
        simp only [ha16', Option.some.injEq] at hi'
        subst hk'; subst hi'
        constructor
        · intro h; simp at h
        · intro h
          have h1 : b = v4Prefix ++ a' := congrArg NetId.ip16 h
          exfalso; apply hnp
          rw [h1]
          simp only [List.take_left' v4Prefix_length]
      | none =>
        simp only [h4'] at hk'
        cases h16' : to16 ip' with
        | none => simp only [h16'] at hi'; exact absurd hi' (by simp)
        | some b' =>
          obtain ⟨hb', hlen', hnp'⟩ := to4_none h4' h16'
          simp only [h16', Option.some.injEq] at hk' hi'
          subst hk'; subst hi'; subst hb'
          constructor
          · intro h
            have h' : b ++ m = b' ++ m' := by simpa using h
            obtain ⟨h1, h2⟩ := append_inj_len (hlen.trans hlen'.symm) h'
            subst h1; subst h2; rfl
          · intro h
            have h1 : b = b' := congrArg NetId.ip16 h
            have h2 : m = m' := congrArg NetId.mask h
            subst h1; subst h2; rfl

/-- Two supported (ip, mask) pairs with one key have the same 16-byte form and the same mask. -/
theorem encodeKey_inj {ip m ip' m' k : Bytes} (hk : encodeKey ip m = some k) (hk' : encodeKey ip' m' = some k) :
    to16 ip = to16 ip' ∧ (to16 ip).isSome = true ∧ m = m' := by
  have h1 := encodeKey_isSome_iff ip m
  have h2 := encodeKey_isSome_iff ip' m'
  rw [hk] at h1; rw [hk'] at h2
  cases hi : netId ip m with
  | none => rw [hi] at h1; exact absurd h1 (by simp)
  | some id =>
    cases hi' : netId ip' m' with
    | none => rw [hi'] at h2; exact absurd h2 (by simp)
    | some id' =>
      have hid : id = id' := (key_eq_iff_id_eq hk hk' hi hi').mp rfl
      subst hid
      simp only [netId] at hi hi'
      cases h16 : to16 ip with
      | none => rw [h16] at hi; exact absurd hi (by simp)
      | some b =>
        cases h16' : to16 ip' with
        | none => rw [h16'] at hi'; exact absurd hi' (by simp)
        | some b' =>
          rw [h16] at hi; rw [h16'] at hi'
          have e1 : id = ⟨b, m⟩ := (Option.some.inj hi).symm
          have e2 : id = ⟨b', m'⟩ := (Option.some.inj hi').symm
          have e := e1.symm.trans e2
          exact ⟨congrArg some (congrArg NetId.ip16 e), rfl, congrArg NetId.mask e⟩

/-- A target has a key exactly when it has an identity. -/
theorem keyOf_of_idOf {tg : Target} {id : NetId} (h : idOf tg = some id) :
    ∃ ip m k, resolve tg = some (ip, m) ∧ encodeKey ip m = some k ∧ netId ip m = some id := by
  simp only [idOf] at h
  cases hr : resolve tg with
  | none => simp only [hr] at h; exact absurd h (by simp)
  | some p =>
    obtain ⟨ip, m⟩ := p
    simp only [hr] at h
    have := encodeKey_isSome_iff ip m
    rw [h] at this
    cases hk : encodeKey ip m with
    | none => rw [hk] at this; exact absurd this (by simp)
    | some k => exact ⟨ip, m, k, rfl, hk, h⟩

end Neutrino.Ban
