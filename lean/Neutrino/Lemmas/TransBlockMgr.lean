/-
The checkpoint lookups the CODE defines (Gen/TransBM.lean, regenerated from blockmanager.go on every
run) are the lookups of the hand model (`BM.findNextCp`, `BM.findPrevCp`) on every ascending
checkpoint list with non-negative heights.
-/
import Neutrino.Gen.TransBM
import Neutrino.Model.BlockMgr
namespace Neutrino.BM
open Neutrino.Gen.TransBM Neutrino.GoInt

/-- a translated `chaincfg.Checkpoint` as the model's checkpoint (hashes are atoms) -/
def absCp (c : T_chaincfg_Checkpoint) : Cp := ⟨c.Height.toNat, c.Hash⟩

/-- what the theorems ask of the code-level checkpoint list: ascending, heights not negative -/
structure CpsOkT (cps : List T_chaincfg_Checkpoint) : Prop where
  sorted : cps.Pairwise (fun a b => a.Height < b.Height)
  nonneg : ∀ c ∈ cps, 0 ≤ c.Height

theorem CpsOkT.tail {c : T_chaincfg_Checkpoint} {l : List T_chaincfg_Checkpoint} (ok : CpsOkT (c :: l)) : CpsOkT l :=
  ⟨(List.pairwise_cons.mp ok.sorted).2, fun x hx => ok.nonneg x (List.mem_cons_of_mem _ hx)⟩

/-! ### findPreviousHeaderCheckpoint -/

theorem foldl_prev_unchanged (l : List Cp) (h : Nat) (acc : Cp) (hall : ∀ c ∈ l, h ≤ c.height) :
    l.foldl (fun acc c => if c.height < h then c else acc) acc = acc := by
  induction l generalizing acc with
  | nil => rfl
  | cons c l ih =>
    have h1 : ¬ c.height < h := by have := hall c (List.mem_cons_self ..); omega
    simp only [List.foldl_cons, h1, ↓reduceIte]
    exact ih acc (fun x hx => hall x (List.mem_cons_of_mem _ hx))

theorem findPrev_loop (h : Int) (h0 : 0 ≤ h) (l : List T_chaincfg_Checkpoint) (ok : CpsOkT l)
    (acc : T_chaincfg_Checkpoint) :
    (findPreviousHeaderCheckpoint_loop1 h l (some acc)).map absCp
      = some ((l.map absCp).foldl (fun acc c => if c.height < h.toNat then c else acc) (absCp acc)) := by
  induction l generalizing acc with
  | nil => rfl
  | cons c l ih =>
    have hc := ok.nonneg c (List.mem_cons_self ..)
    unfold findPreviousHeaderCheckpoint_loop1
    by_cases hlt : c.Height < h
    · have h1 : (absCp c).height < h.toNat := by simp only [absCp]; omega
      simp only [hlt, ↓reduceIte, List.map_cons, List.foldl_cons, h1]
      exact ih ok.tail c
    · have h1 : ¬ (absCp c).height < h.toNat := by simp only [absCp]; omega
      simp only [hlt, ↓reduceIte, List.map_cons, List.foldl_cons, h1, Option.map_some]
      rw [foldl_prev_unchanged]
      intro x hx
      obtain ⟨y, hy, rfl⟩ := List.mem_map.mp hx
      have := (List.pairwise_cons.mp ok.sorted).1 y hy
      have := ok.nonneg y (List.mem_cons_of_mem _ hy)
      simp only [absCp]; omega

/-- **the code's `findPreviousHeaderCheckpoint` is the model's `findPrevCp`** (genesis is atom 0) -/
theorem trans_findPrev (h : Int) (h0 : 0 ≤ h) (cps : List T_chaincfg_Checkpoint) (ok : CpsOkT cps) :
    (findPreviousHeaderCheckpoint h cps 0).map absCp = some (findPrevCp (cps.map absCp) h.toNat) := by
  unfold findPreviousHeaderCheckpoint findPrevCp
  exact findPrev_loop h h0 cps ok _

/-- the height it yields (all the model ever uses), whatever the genesis hash -/
theorem trans_findPrev_height (h : Int) (h0 : 0 ≤ h) (cps : List T_chaincfg_Checkpoint) (ok : CpsOkT cps) (g : Atom) :
    ((findPreviousHeaderCheckpoint h cps g).map (fun c => c.Height.toNat))
      = some (findPrevCp (cps.map absCp) h.toNat).height := by
  have key : ∀ (l : List T_chaincfg_Checkpoint) (a b : T_chaincfg_Checkpoint), a.Height = b.Height →
      (findPreviousHeaderCheckpoint_loop1 h l (some a)).map (fun c => c.Height.toNat)
        = (findPreviousHeaderCheckpoint_loop1 h l (some b)).map (fun c => c.Height.toNat) := by
    intro l
    induction l with
    | nil => intro a b hab; simp [findPreviousHeaderCheckpoint_loop1, hab]
    | cons c l ih =>
      intro a b hab
      unfold findPreviousHeaderCheckpoint_loop1
      by_cases hlt : c.Height < h
      · simp only [hlt, ↓reduceIte]
      · simp only [hlt, ↓reduceIte, Option.map_some, hab]
  have := trans_findPrev h h0 cps ok
  unfold findPreviousHeaderCheckpoint at this ⊢
  simp only [] at this ⊢
  rw [key cps ⟨0, g⟩ ⟨0, 0⟩ rfl]
  generalize findPreviousHeaderCheckpoint_loop1 h cps (some ⟨0, 0⟩) = r at this ⊢
  cases r with
  | none => simp at this
  | some c => simp only [Option.map_some, Option.some.injEq] at this ⊢; rw [← this]; rfl

/-! ### findNextHeaderCheckpoint -/

/-- the backwards scan over a descending list `r` (= an ascending prefix reversed) -/
theorem findNext_loop (h : Int) (r : List T_chaincfg_Checkpoint)
    (sorted : r.Pairwise (fun a b => b.Height < a.Height)) (acc : Option T_chaincfg_Checkpoint) :
    findNextHeaderCheckpoint_loop1 h r acc
      = (r.reverse.find? (fun c => decide (h < c.Height))).or acc := by
  induction r generalizing acc with
  | nil => simp [findNextHeaderCheckpoint_loop1]
  | cons e rest ih =>
    unfold findNextHeaderCheckpoint_loop1
    have hs := List.pairwise_cons.mp sorted
    by_cases hlt : h < e.Height
    · simp only [hlt, ↓reduceIte, List.reverse_cons, List.find?_append]
      rw [ih hs.2]
      simp [hlt, Option.or_assoc]
    · simp only [hlt, ↓reduceIte, List.reverse_cons, List.find?_append]
      have hnone : rest.reverse.find? (fun c => decide (h < c.Height)) = none := by
        rw [List.find?_eq_none]
        intro x hx
        have := hs.1 x (List.mem_reverse.mp hx)
        simp only [decide_eq_true_eq]; omega
      simp [hnone, hlt]

theorem find?_map_absCp (cps : List T_chaincfg_Checkpoint) (ok : ∀ c ∈ cps, 0 ≤ c.Height) (h : Int) (h0 : 0 ≤ h) :
    (cps.map absCp).find? (fun c => decide (h.toNat < c.height))
      = (cps.find? (fun c => decide (h < c.Height))).map absCp := by
  induction cps with
  | nil => rfl
  | cons c l ih =>
    have hc := ok c (List.mem_cons_self ..)
    have hiff : (h.toNat < (absCp c).height) ↔ h < c.Height := by simp only [absCp]; omega
    by_cases hlt : h < c.Height
    · simp [List.find?_cons, hlt, hiff]
    · simp only [List.map_cons, List.find?_cons, hlt, hiff, decide_false]
      exact ih (fun x hx => ok x (List.mem_cons_of_mem _ hx))

/-- **the code's `findNextHeaderCheckpoint` is the model's `findNextCp`** -/
theorem trans_findNext (h : Int) (h0 : 0 ≤ h) (cps : List T_chaincfg_Checkpoint) (ok : CpsOkT cps) :
    (findNextHeaderCheckpoint h cps).map absCp = findNextCp (cps.map absCp) h.toNat := by
  unfold findNextCp
  rw [find?_map_absCp cps ok.nonneg h h0]
  congr 1
  unfold findNextHeaderCheckpoint
  simp only []
  by_cases hnil : cps = []
  · subst hnil; simp
  · have hlen : ¬ len cps = 0 := fun hh => hnil (len_eq_zero.mp hh)
    simp only [hlen, ↓reduceIte]
    -- split the list into its front and its last element
    obtain ⟨front, last, rfl⟩ : ∃ front last, cps = front ++ [last] :=
      ⟨cps.dropLast, cps.getLast hnil, (List.dropLast_concat_getLast hnil).symm⟩
    have hidx : idx (front ++ [last]) (len (front ++ [last]) - 1) = last := by
      have : len (front ++ [last]) - 1 = ((front.length : Nat) : Int) := by simp [len_eq]
      rw [this, idx_natCast]; simp
    have hrange : (rangeDown (len (front ++ [last]) - 2) 0).map (idx (front ++ [last])) = front.reverse := by
      have := map_idx_rangeDown (front ++ [last]) 1
      have h2 : len (front ++ [last]) - 1 - ((1 : Nat) : Int) = len (front ++ [last]) - 2 := by omega
      rw [h2] at this
      rw [this]; simp
    have hsorted := List.pairwise_append.mp ok.sorted
    rw [hidx, hrange, deref_some, List.find?_append]
    by_cases hlt : h < last.Height
    · simp only [hlt, ↓reduceIte]
      rw [findNext_loop h front.reverse (List.pairwise_reverse.mpr hsorted.1)]
      simp [hlt]
    · simp only [hlt, ↓reduceIte]
      have hnone : front.find? (fun c => decide (h < c.Height)) = none := by
        rw [List.find?_eq_none]
        intro x hx
        have := hsorted.2.2 x hx last (List.mem_singleton.mpr rfl)
        simp only [decide_eq_true_eq]; omega
      simp [hnone, hlt]

/-- the hypothesis on the code-level list is the model's `CpsOk` minus "heights ≥ 1" -/
theorem CpsOkT.sorted_abs {cps : List T_chaincfg_Checkpoint} (ok : CpsOkT cps) :
    (cps.map absCp).Pairwise (fun a b => a.height < b.height) := by
  rw [List.pairwise_map]
  have := ok.nonneg
  revert this
  have hs := ok.sorted
  induction hs with
  | nil => intro _; exact List.Pairwise.nil
  | cons hh _ ih =>
    intro hn
    refine List.Pairwise.cons ?_ (ih ⟨by assumption, fun c hc => hn c (List.mem_cons_of_mem _ hc)⟩
      (fun c hc => hn c (List.mem_cons_of_mem _ hc)))
    intro b hb
    have := hh b hb
    have := hn b (List.mem_cons_of_mem _ hb)
    have := hn _ (List.mem_cons_self ..)
    simp only [absCp]; omega

/-! ### areHeadersConnected -/

/-- every header but the first names the hash of the one before it -/
def hdrLinked (hash : Option T_wire_BlockHeader → Atom) : List (Option T_wire_BlockHeader) → Bool
  | [] => true
  | [_] => true
  | a :: b :: rest => decide ((deref b).PrevBlock = hash a) && hdrLinked hash (b :: rest)

def chainFrom (hash : Option T_wire_BlockHeader → Atom) (last : Atom) : List (Option T_wire_BlockHeader) → Bool
  | [] => true
  | b :: rest => decide ((deref b).PrevBlock = last) && chainFrom hash (hash b) rest

theorem hdrLinked_cons (hash : Option T_wire_BlockHeader → Atom) (a : Option T_wire_BlockHeader)
    (rest : List (Option T_wire_BlockHeader)) : hdrLinked hash (a :: rest) = chainFrom hash (hash a) rest := by
  induction rest generalizing a with
  | nil => rfl
  | cons b rest ih => simp only [hdrLinked, chainFrom, ih]

theorem connected_loop (hash : Option T_wire_BlockHeader → Atom) (hs : List (Option T_wire_BlockHeader))
    (hnz : ∀ h ∈ hs, hash h ≠ 0) (last : Atom) (hl : last ≠ 0) :
    (match areHeadersConnected_loop1 hash 0 hs last with
     | Ctl.ret r => r
     | Ctl.fall _ => true) = chainFrom hash last hs := by
  induction hs generalizing last with
  | nil => rfl
  | cons b rest ih =>
    unfold areHeadersConnected_loop1
    simp only [hl, ↓reduceIte, chainFrom]
    by_cases hp : (deref b).PrevBlock = last
    · simp only [hp, ↓reduceIte, decide_true, Bool.true_and]
      exact ih (fun h hh => hnz h (List.mem_cons_of_mem _ hh)) (hash b) (hnz b (List.mem_cons_self ..))
    · simp [hp]

/-- **`areHeadersConnected` as the code spells it** is the link test, provided no header hashes to
the all-zero hash (the code uses the zero hash as its "not yet set" sentinel) -/
theorem trans_areHeadersConnected (hash : Option T_wire_BlockHeader → Atom) (hs : List (Option T_wire_BlockHeader))
    (hnz : ∀ h ∈ hs, hash h ≠ 0) : areHeadersConnected hs hash = hdrLinked hash hs := by
  unfold areHeadersConnected
  cases hs with
  | nil => rfl
  | cons a rest =>
    have h0 : (default : Atom) = 0 := rfl
    simp only [h0]
    unfold areHeadersConnected_loop1
    simp only [↓reduceIte, hdrLinked_cons]
    exact connected_loop hash rest (fun h hh => hnz h (List.mem_cons_of_mem _ hh)) (hash a) (hnz a (List.mem_cons_self ..))

/-- … which is the model's `linked` over the headers' ids, for every table whose parent relation is
the headers' `PrevBlock` -/
theorem hdrLinked_eq_linked (t : Tbl) (hash : Option T_wire_BlockHeader → Atom) (hs : List (Option T_wire_BlockHeader))
    (hp : ∀ b ∈ hs, t.parent (hash b) = some (deref b).PrevBlock) : hdrLinked hash hs = linked t (hs.map hash) := by
  induction hs with
  | nil => rfl
  | cons a rest ih =>
    cases rest with
    | nil => rfl
    | cons b rest =>
      have hb := hp b (List.mem_cons_of_mem _ (List.mem_cons_self ..))
      simp only [hdrLinked, List.map_cons, linked, hb]
      rw [ih (fun x hx => hp x (List.mem_cons_of_mem _ hx))]
      simp only [List.map_cons]
      by_cases h : (deref b).PrevBlock = hash a <;> simp [h]

/-! ### BlockHeadersSynced -/

theorem idx_last_eq (cps : List T_chaincfg_Checkpoint) (hne : cps ≠ []) :
    idx cps (len cps - 1) = cps.getLast hne := by
  obtain ⟨front, last, rfl⟩ : ∃ front last, cps = front ++ [last] :=
    ⟨cps.dropLast, cps.getLast hne, (List.dropLast_concat_getLast hne).symm⟩
  have : len (front ++ [last]) - 1 = ((front.length : Nat) : Int) := by simp [len_eq]
  rw [this, idx_natCast]; simp

/-- **`BlockHeadersSynced` as the code spells it**, for every answer of the stores and the clock:
the chain tip is read without error, lies above the last checkpoint, is not below the sync peer's
last block, its timestamp is not more than 24 h behind the adjusted time, and - with a sync peer -
the peer's last block is not below the starting height it advertised. -/
theorem trans_blockHeadersSynced (cps : List T_chaincfg_Checkpoint) (noPeer : Bool) (add : Atom → Int → Atom)
    (before : Atom → Atom → Bool) (tip : Option T_wire_BlockHeader × Nat × Bool) (now : Atom) (last start : Int) :
    BlockHeadersSynced cps noPeer add before tip now last start
      = (!tip.2.2 &&
         (match cps.getLast? with
          | some l => decide (l.Height < (tip.2.1 : Int))
          | none => true) &&
         !(!noPeer && decide ((tip.2.1 : Int) < last)) &&
         !(before (deref tip.1).Timestamp (add now (-86400000000000))) &&
         (noPeer || decide (start ≤ last))) := by
  unfold BlockHeadersSynced
  simp only []
  cases he : tip.2.2
  case true => simp
  simp only [↓reduceIte, Bool.not_false, Bool.true_and]
  have hk : BlockHeadersSynced_k1 noPeer add before now last start tip.1 tip.2.1
      = (!(!noPeer && decide ((tip.2.1 : Int) < last)) &&
         !(before (deref tip.1).Timestamp (add now (-86400000000000))) &&
         (noPeer || decide (start ≤ last))) := by
    unfold BlockHeadersSynced_k1
    cases noPeer <;> cases hb : before (deref tip.1).Timestamp (add now (-86400000000000)) <;>
      by_cases hl : (tip.2.1 : Int) < last <;> simp [hb, hl]
  by_cases hnil : cps = []
  · subst hnil
    simp [hk]
  · have hlen : ¬ len cps = 0 := fun hh => hnil (len_eq_zero.mp hh)
    rw [List.getLast?_eq_some_getLast hnil]
    simp only [hlen, ↓reduceIte, idx_last_eq cps hnil]
    by_cases hlt : (cps.getLast hnil).Height < (tip.2.1 : Int)
    · simp [hlt, hk]
    · simp [hlt]

end Neutrino.BM
