import Neutrino.Model.SubsReg
namespace Neutrino.Subs.Reg

theorem run_append (cap : Nat) (s : St) (a b : List Ev) : run cap s (a ++ b) = run cap (run cap s a) b := by
  induction a generalizing s with
  | nil => rfl
  | cons e es ih => exact ih (step cap s e)

/-- the invariant: never blocked; while the handler works on the request, and as long as the
request has not been taken, the reply buffer is empty -/
structure Inv (s : St) : Prop where
  notBlocked : s.h ≠ .blocked
  busyEmpty  : s.h = .lookup ∨ s.h = .reply → s.buf = 0
  freshEmpty : s.c = .sending → s.buf = 0
  busyTaken  : s.h = .lookup ∨ s.h = .reply → s.c ≠ .sending

theorem inv_init : Inv init := ⟨by decide, fun _ => rfl, fun _ => rfl, by decide⟩

theorem inv_step (cap : Nat) (hcap : 1 ≤ cap) (s : St) (e : Ev) (h : Inv s) : Inv (step cap s e) := by
  obtain ⟨hp, cp, buf, quit⟩ := s
  obtain ⟨h1, h2, h3, h4⟩ := h
  simp only at h1 h2 h3 h4
  cases e with
  | take =>
    cases hp <;> cases cp <;> simp only [step] <;> refine ⟨?_, ?_, ?_, ?_⟩ <;> simp_all
  | lookupDone =>
    cases hp <;> simp only [step] <;> refine ⟨?_, ?_, ?_, ?_⟩ <;> simp_all
  | reply =>
    cases hp with
    | reply =>
      have hb : buf = 0 := h2 (Or.inr rfl)
      have hc : cp ≠ .sending := h4 (Or.inr rfl)
      subst hb
      have hlt : 0 < cap := hcap
      simp only [step, hlt, ↓reduceIte]
      exact ⟨by simp, by simp, fun h => absurd h hc, by simp⟩
    | idle => simp only [step]; exact ⟨h1, h2, h3, h4⟩
    | lookup => simp only [step]; exact ⟨h1, h2, h3, h4⟩
    | blocked => simp only [step]; exact ⟨h1, h2, h3, h4⟩
    | exited => simp only [step]; exact ⟨h1, h2, h3, h4⟩
  | clientRecv =>
    cases cp <;> cases buf <;> simp only [step] <;> refine ⟨?_, ?_, ?_, ?_⟩ <;> simp_all
  | clientGiveUp =>
    cases quit <;> cases cp <;> simp only [step] <;> refine ⟨?_, ?_, ?_, ?_⟩ <;> simp_all
  | quitClose => exact ⟨h1, h2, h3, h4⟩
  | handlerExit =>
    cases hp <;> cases quit <;> simp only [step] <;> refine ⟨?_, ?_, ?_, ?_⟩ <;> simp_all

theorem inv_run (cap : Nat) (hcap : 1 ≤ cap) (s : St) (evs : List Ev) (h : Inv s) : Inv (run cap s evs) := by
  induction evs generalizing s with
  | nil => exact h
  | cons e es ih => exact ih _ (inv_step cap hcap s e h)

/-- from any state meeting the invariant: quit closed, then the handler's own three moves end in `exited` -/
theorem exit_after_quit (cap : Nat) (hcap : 1 ≤ cap) (s : St) (h : Inv s) :
    (run cap s [.quitClose, .lookupDone, .reply, .handlerExit]).h = .exited := by
  obtain ⟨hp, cp, buf, quit⟩ := s
  obtain ⟨h1, h2, h3, _⟩ := h
  simp only at h1 h2 h3
  have hlt : 0 < cap := hcap
  cases hp with
  | idle => simp [run, step]
  | lookup =>
    have hb : buf = 0 := h2 (Or.inl rfl)
    subst hb
    simp [run, step, hlt]
  | reply =>
    have hb : buf = 0 := h2 (Or.inr rfl)
    subst hb
    simp [run, step, hlt]
  | blocked => exact absurd rfl h1
  | exited => simp [run, step]

/-- two states the handler cannot tell apart once the request has been taken -/
structure Sim (s t : St) : Prop where
  hEq : s.h = t.h
  qEq : s.quit = t.quit
  invS : Inv s
  invT : Inv t
  takenS : s.c ≠ .sending
  takenT : t.c ≠ .sending

theorem sim_client (cap : Nat) (hcap : 1 ≤ cap) (s t : St) (e : Ev) (he : e.ofClient = true) (h : Sim s t) :
    Sim (step cap s e) t := by
  have hi := inv_step cap hcap s e h.invS
  obtain ⟨hp, cp, buf, quit⟩ := s
  cases e with
  | clientRecv =>
    refine ⟨?_, ?_, hi, h.invT, ?_, h.takenT⟩
    · have := h.hEq; cases cp <;> cases buf <;> simpa [step] using this
    · have := h.qEq; cases cp <;> cases buf <;> simpa [step] using this
    · have := h.takenS; cases cp <;> cases buf <;> simp_all [step]
  | clientGiveUp =>
    refine ⟨?_, ?_, hi, h.invT, ?_, h.takenT⟩
    · have := h.hEq; cases cp <;> cases quit <;> simpa [step] using this
    · have := h.qEq; cases cp <;> cases quit <;> simpa [step] using this
    · have := h.takenS; cases cp <;> cases quit <;> simp_all [step]
  | take => cases he
  | lookupDone => cases he
  | reply => cases he
  | quitClose => cases he
  | handlerExit => cases he

theorem sim_handler (cap : Nat) (hcap : 1 ≤ cap) (s t : St) (e : Ev) (he : e.ofClient = false) (h : Sim s t) :
    Sim (step cap s e) (step cap t e) := by
  have hi := inv_step cap hcap s e h.invS
  have hj := inv_step cap hcap t e h.invT
  obtain ⟨hEq, qEq, invS, invT, tS, tT⟩ := h
  obtain ⟨hp, cp, buf, quit⟩ := s
  obtain ⟨hp', cp', buf', quit'⟩ := t
  simp only at hEq qEq tS tT
  subst hEq qEq
  have hlt : 0 < cap := hcap
  cases e with
  | clientRecv => cases he
  | clientGiveUp => cases he
  | take =>
    refine ⟨?_, ?_, hi, hj, ?_, ?_⟩ <;> cases hp <;> cases cp <;> cases cp' <;> simp_all [step]
  | lookupDone =>
    refine ⟨?_, ?_, hi, hj, ?_, ?_⟩ <;> cases hp <;> simp_all [step]
  | quitClose => exact ⟨rfl, rfl, hi, hj, tS, tT⟩
  | handlerExit =>
    refine ⟨?_, ?_, hi, hj, ?_, ?_⟩ <;> cases hp <;> cases quit <;> simp_all [step]
  | reply =>
    cases hp with
    | reply =>
      have hb : buf = 0 := invS.busyEmpty (Or.inr rfl)
      have hb' : buf' = 0 := invT.busyEmpty (Or.inr rfl)
      subst hb hb'
      refine ⟨?_, ?_, hi, hj, ?_, ?_⟩ <;> simp_all [step]
    | idle => exact ⟨rfl, rfl, hi, hj, by simpa [step] using tS, by simpa [step] using tT⟩
    | lookup => exact ⟨rfl, rfl, hi, hj, by simpa [step] using tS, by simpa [step] using tT⟩
    | blocked => exact ⟨rfl, rfl, hi, hj, by simpa [step] using tS, by simpa [step] using tT⟩
    | exited => exact ⟨rfl, rfl, hi, hj, by simpa [step] using tS, by simpa [step] using tT⟩

theorem sim_run (cap : Nat) (hcap : 1 ≤ cap) (evs : List Ev) (s t : St) (h : Sim s t) :
    Sim (run cap s evs) (run cap t (evs.filter (fun e => !e.ofClient))) := by
  induction evs generalizing s t with
  | nil => exact h
  | cons e es ih =>
    cases hc : e.ofClient with
    | true =>
      have : (e :: es).filter (fun e => !e.ofClient) = es.filter (fun e => !e.ofClient) := by
        simp [List.filter, hc]
      rw [this]
      exact ih _ _ (sim_client cap hcap s t e hc h)
    | false =>
      have : (e :: es).filter (fun e => !e.ofClient) = e :: es.filter (fun e => !e.ofClient) := by
        simp [List.filter, hc]
      rw [this]
      exact ih _ _ (sim_handler cap hcap s t e hc h)

end Neutrino.Subs.Reg
