/-
The work queue's ordering as the CODE defines it (`workQueue.Less`, `queryJob.Index`, translated from
query/workqueue.go and query/worker.go on every run, Gen/TransQueue.lean) is the comparison the model's
`insertJob` (Model/Dispatcher.lean) makes: strictly smaller job index first.
-/
import Neutrino.Gen.TransQueue
import Neutrino.Model.Dispatcher
namespace Neutrino.Disp
open Neutrino.Gen.TransQueue Neutrino.GoInt

/-- `Less(i, j)` for in-range positions: the `Index()` of the task at `i` is strictly below that at `j` -/
theorem trans_less (tasks : List Atom) (index : Atom → Nat) (i j : Nat) :
    workQueue_Less (i : Int) (j : Int) tasks index
      = decide (index (tasks.getD i default) < index (tasks.getD j default)) := by
  simp only [workQueue_Less, idx_natCast]

theorem trans_index (i : Nat) : queryJob_Index i = i := rfl

/-- the model's insertion step asks exactly the code's `Less` (new job at position 0, queued job at 1) -/
theorem trans_insertJob_step (job : Atom → Job) (a b : Atom) (xs : List Job) :
    insertJob (job a) (job b :: xs)
      = if workQueue_Less 0 1 [a, b] (fun t => queryJob_Index (job t).idx) = true
        then job a :: job b :: xs else job b :: insertJob (job a) xs := by
  have h := trans_less [a, b] (fun t => queryJob_Index (job t).idx) 0 1
  simp only [Int.natCast_zero, Int.natCast_one] at h
  have h' : workQueue_Less 0 1 [a, b] (fun t => queryJob_Index (job t).idx) = decide ((job a).idx < (job b).idx) := by
    rw [h]; rfl
  rw [h']
  simp only [insertJob, decide_eq_true_eq]

end Neutrino.Disp
