/-
A failing import source (Model/Import `ReadFault`): whatever the write loop
reads from a file cut at the failing index is what it reads from the whole
file, or a read error — never the end of the data.
-/
import Neutrino.Model.Import
namespace Neutrino.Import

theorem readBatch_take {α : Type} (body : List α) (i s e bs : Nat) :
    readBatch (body.take i) s e bs = readBatch body s e bs ∨ readBatch (body.take i) s e bs = .err := by
  unfold readBatch
  by_cases h1 : s > min e (s + bs - 1)
  · left; simp only [h1, ↓reduceIte]
  · by_cases h2 : min e (s + bs - 1) < (body.take i).length
    · left
      have hlen : (body.take i).length = min i body.length := List.length_take
      have h3 : min e (s + bs - 1) < body.length := by omega
      have h4 : min e (s + bs - 1) + 1 - s ≤ i - s := by omega
      simp only [h1, h2, h3, ↓reduceIte, List.drop_take, List.take_take, Nat.min_eq_left h4]
    · right; simp only [h1, h2, ↓reduceIte]

theorem processBatch_cutB (F : File) (cfg : Cfg) (i srcEnd : Nat) (mode : Mode) (batchStart : Nat) (r : Run) :
    processBatch { F with blocks := F.blocks.take i } cfg srcEnd mode batchStart r = processBatch F cfg srcEnd mode batchStart r ∨
    processBatch { F with blocks := F.blocks.take i } cfg srcEnd mode batchStart r = .err .read r := by
  by_cases hm : mode = .filterOnly
  · left; unfold processBatch; simp only [hm, ↓reduceIte]
  · rcases readBatch_take F.blocks i batchStart srcEnd cfg.bs with h | h
    · left; unfold processBatch; simp only [hm, ↓reduceIte, h]
    · right; unfold processBatch; simp only [hm, ↓reduceIte, h]

theorem processBatch_cutF (F : File) (cfg : Cfg) (i srcEnd : Nat) (mode : Mode) (batchStart : Nat) (r : Run) :
    processBatch { F with filters := F.filters.take i } cfg srcEnd mode batchStart r = processBatch F cfg srcEnd mode batchStart r ∨
    processBatch { F with filters := F.filters.take i } cfg srcEnd mode batchStart r = .err .read r := by
  by_cases hm : mode = .blockOnly
  · left; unfold processBatch; simp only [hm, ↓reduceIte]
  · rcases readBatch_take F.filters i batchStart srcEnd cfg.bs with h | h
    · left; unfold processBatch; simp only [hm, ↓reduceIte, h]
    · unfold processBatch
      simp only [hm, ↓reduceIte, h]
      cases (if mode = Mode.filterOnly then RB.ok [] else readBatch F.blocks batchStart srcEnd cfg.bs) with
      | eof => left; rfl
      | err => left; rfl
      | ok bl => right; rfl

/-- one batch under a failing source: the batch of the whole file, or a read error -/
theorem processBatch_under (F : File) (cfg : Cfg) (rf : Option ReadFault) (np srcEnd : Nat) (mode : Mode)
    (batchStart : Nat) (r : Run) :
    processBatch (F.under rf np) cfg srcEnd mode batchStart r = processBatch F cfg srcEnd mode batchStart r ∨
    processBatch (F.under rf np) cfg srcEnd mode batchStart r = .err .read r := by
  cases rf with
  | none => left; rfl
  | some f =>
    unfold File.under
    by_cases hp : f.poll < np
    · cases hb : f.block with
      | true => simp only [hp, hb, ↓reduceIte]; exact processBatch_cutB F cfg f.idx srcEnd mode batchStart r
      | false =>
        simp only [hp, hb, ↓reduceIte, Bool.false_eq_true]
        exact processBatch_cutF F cfg f.idx srcEnd mode batchStart r
    · left; simp only [hp, ↓reduceIte]

theorem appendLoopRF_none (F : File) (cfg : Cfg) (srcEnd : Nat) (mode : Mode) :
    ∀ fuel batchStart r, appendLoopRF F cfg none srcEnd mode fuel batchStart r = appendLoop F cfg srcEnd mode fuel batchStart r := by
  intro fuel
  induction fuel with
  | zero => intro b r; rfl
  | succ n ih =>
    intro b r
    simp only [appendLoopRF, appendLoop, File.under]
    by_cases hc : cancelled cfg r.np = true
    · simp only [hc, ↓reduceIte]
    · simp only [hc, Bool.false_eq_true, ↓reduceIte]
      cases processBatch F cfg srcEnd mode b { r with np := r.np + 1 } with
      | eof => rfl
      | err e r' => rfl
      | next be r' => exact ih _ _

/-- a write loop that succeeds under a failing source never met the failure: it
is the write loop over the whole file -/
theorem appendLoopRF_success (F : File) (cfg : Cfg) (rf : Option ReadFault) (srcEnd : Nat) (mode : Mode) :
    ∀ fuel batchStart r, (appendLoopRF F cfg rf srcEnd mode fuel batchStart r).1 = none →
      appendLoopRF F cfg rf srcEnd mode fuel batchStart r = appendLoop F cfg srcEnd mode fuel batchStart r := by
  intro fuel
  induction fuel with
  | zero => intro b r h; simp [appendLoopRF] at h
  | succ n ih =>
    intro b r
    simp only [appendLoopRF, appendLoop]
    by_cases hc : cancelled cfg r.np = true
    · simp only [hc, ↓reduceIte]; intro _; trivial
    · simp only [hc, Bool.false_eq_true, ↓reduceIte]
      rcases processBatch_under F cfg rf (r.np + 1) srcEnd mode b { r with np := r.np + 1 } with h | h
      · rw [h]
        cases processBatch F cfg srcEnd mode b { r with np := r.np + 1 } with
        | eof => intro _; rfl
        | err e r' => intro _; rfl
        | next be r' => exact ih _ _
      · rw [h]; intro hn; simp at hn

/-- a failing source is reported unless it is never met: the write loop ends
with a read error, or it is the write loop of the whole file -/
theorem appendLoopRF_cases (F : File) (cfg : Cfg) (rf : Option ReadFault) (srcEnd : Nat) (mode : Mode) :
    ∀ fuel batchStart r,
      appendLoopRF F cfg rf srcEnd mode fuel batchStart r = appendLoop F cfg srcEnd mode fuel batchStart r ∨
      (appendLoopRF F cfg rf srcEnd mode fuel batchStart r).1 = some .read := by
  intro fuel
  induction fuel with
  | zero => intro b r; left; rfl
  | succ n ih =>
    intro b r
    simp only [appendLoopRF, appendLoop]
    by_cases hc : cancelled cfg r.np = true
    · left; simp only [hc, ↓reduceIte]
    · simp only [hc, Bool.false_eq_true, ↓reduceIte]
      rcases processBatch_under F cfg rf (r.np + 1) srcEnd mode b { r with np := r.np + 1 } with h | h
      · rw [h]
        cases processBatch F cfg srcEnd mode b { r with np := r.np + 1 } with
        | eof => left; rfl
        | err e r' => left; rfl
        | next be r' => exact ih _ _
      · right; rw [h]

theorem processRegionsRF_success (F : File) (cfg : Cfg) (rf : Option ReadFault) (b f : Nat) (r : Run)
    (h : (processRegionsRF F cfg rf b f r).1 = none) :
    processRegionsRF F cfg rf b f r = processRegions F cfg b f r := by
  unfold processRegionsRF processRegions at *
  generalize regions F b f = dn at *
  obtain ⟨d, n⟩ := dn
  simp only at *
  by_cases hd : d.exists = true
  · simp only [hd, ↓reduceIte] at *
    by_cases hv : verifyAt F r.st d.verify d.stop = true
    · simp only [hv, Bool.not_true, Bool.false_eq_true, ↓reduceIte] at *
      unfold appendNewRF appendNew at *
      cases h1 : (appendLoopRF F cfg rf (d.stop - F.bstart) d.mode (d.stop + 2) d.start r).1 with
      | some e => rw [h1] at h; simp at h
      | none =>
        have e1 := appendLoopRF_success F cfg rf _ _ _ _ _ h1
        rw [e1] at h ⊢
        cases h2 : (appendLoop F cfg (d.stop - F.bstart) d.mode (d.stop + 2) d.start r).1 with
        | some e => rw [e1] at h1; rw [h1] at h2; cases h2
        | none =>
          rw [h2] at h
          simp only at h ⊢
          by_cases hn : n.exists = true
          · simp only [hn, ↓reduceIte] at *
            exact appendLoopRF_success F cfg rf _ _ _ _ _ h
          · simp only [hn, Bool.false_eq_true, ↓reduceIte]
    · simp only [hv, Bool.not_false, ↓reduceIte] at *
  · simp only [hd, Bool.false_eq_true, ↓reduceIte] at *
    by_cases hn : n.exists = true
    · simp only [hn, ↓reduceIte] at *
      exact appendLoopRF_success F cfg rf _ _ _ _ _ h
    · simp only [hn, Bool.false_eq_true, ↓reduceIte]

theorem importRunRF_success (F : File) (cfg : Cfg) (rf : Option ReadFault) (st : Stores)
    (h : (importRunRF F cfg rf st).1 = none) : importRunRF F cfg rf st = importRun F cfg st := by
  unfold importRunRF importRun at *
  cases hp : preChecks F with
  | some e => rfl
  | none =>
    simp only [hp] at *
    cases hc : continuity F st with
    | some e => rfl
    | none =>
      simp only [hc] at *
      by_cases hv : validateBlocks (validatedBody F cfg) cfg.bs = true
      · simp only [hv, Bool.not_true, Bool.false_eq_true, ↓reduceIte] at *
        cases hb : bChainTip st with
        | none => rfl
        | some b =>
          cases hf : fChainTip st with
          | none => rfl
          | some f =>
            simp only [hb, hf] at *
            exact processRegionsRF_success F cfg rf b f _ h
      · simp only [hv, Bool.not_false, ↓reduceIte]

end Neutrino.Import
