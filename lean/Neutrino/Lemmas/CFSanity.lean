/-
`checkSanity` (the model of `checkCFCheckptSanity`, with its accumulator and its
zero-hash "unset" marker) computes `sanitySpec` — for every family of checkpoint
lists of any lengths and every store.  Core Lean only.
-/
import Neutrino.Spec.CFSanity
namespace Neutrino.CFHeaders

/-- `sanityPeers` on the values alone -/
def sameGo (acc : Hdr) : List Hdr → Option Hdr
  | [] => some acc
  | c :: r => if (if acc = 0 then c else acc) = c then sameGo (if acc = 0 then c else acc) r else none

theorem sanityPeers_vals (i : Nat) (cp : List (Peer × List Hdr)) :
    ∀ acc, sanityPeers i acc cp = sameGo acc (valsAt i cp) := by
  induction cp with
  | nil => intro acc; rfl
  | cons pc r ih =>
    intro acc
    cases h : pc.2[i]? with
    | none =>
      have hv : valsAt i (pc :: r) = valsAt i r := by
        simp only [valsAt, List.filterMap_cons, h]
      rw [hv, ← ih acc]
      simp only [sanityPeers, h]
    | some c =>
      have hv : valsAt i (pc :: r) = c :: valsAt i r := by
        simp only [valsAt, List.filterMap_cons, h]
      rw [hv]
      simp only [sanityPeers, h, sameGo]
      by_cases heq : (if acc = 0 then c else acc) = c
      · rw [if_neg (not_not_intro heq), if_pos heq]
        exact ih _
      · rw [if_pos heq, if_neg heq]

theorem sameGo_zero_cons (v : Hdr) (vs : List Hdr) : sameGo 0 (v :: vs) = sameGo v vs := by
  simp [sameGo]

theorem sameGo_nz (v : Hdr) (hv : v ≠ 0) :
    ∀ vs, sameGo v vs = if vs.all (fun x => x == v) = true then some v else none := by
  intro vs
  induction vs with
  | nil => rfl
  | cons c r ih =>
    simp only [sameGo, if_neg hv, List.all_cons]
    by_cases hc : v = c
    · subst hc
      simp only [↓reduceIte, beq_self_eq_true, Bool.true_and]
      exact ih
    · have hb : (c == v) = false := by
        rw [beq_eq_false_iff_ne]; exact fun h => hc h.symm
      simp only [if_neg hc, hb, Bool.false_and, Bool.false_eq_true, ↓reduceIte]

theorem valsAt_nz (i : Nat) (cp : List (Peer × List Hdr)) (hz : noZeroCp cp = true) :
    ∀ x ∈ valsAt i cp, x ≠ 0 := by
  intro x hx
  simp only [valsAt, List.mem_filterMap] at hx
  obtain ⟨pc, hpc, hi⟩ := hx
  simp only [noZeroCp, List.all_eq_true] at hz
  have := hz pc hpc x (List.mem_of_getElem? hi)
  simpa using this

theorem any_of_allSame (q : Hdr → Bool) (v : Hdr) :
    ∀ vs : List Hdr, vs.all (fun x => x == v) = true → (v :: vs).any q = q v := by
  intro vs
  induction vs with
  | nil => intro _; simp
  | cons c r ih =>
    intro h
    simp only [List.all_cons, Bool.and_eq_true, beq_iff_eq] at h
    have h1 := ih h.2
    simp only [List.any_cons] at h1 ⊢
    rw [h.1]
    cases hq : q v with
    | true => simp
    | false => rw [hq] at h1; simpa using h1

/-- one iteration of the loop of `checkCFCheckptSanity` decides `disagreeAt` -/
theorem sanityLoop_cons (interval : Nat) (fstore : List Hdr) (cp : List (Peer × List Hdr))
    (hz : noZeroCp cp = true) (i : Nat) (is : List Nat) (hne : valsAt i cp ≠ []) :
    sanityLoop interval fstore cp (i :: is) =
      if disagreeAt interval fstore cp i = true then some i else sanityLoop interval fstore cp is := by
  have hnz := valsAt_nz i cp hz
  unfold disagreeAt
  simp only [sanityLoop]
  rw [sanityPeers_vals]
  cases hvs : valsAt i cp with
  | nil => exact absurd hvs hne
  | cons v vs =>
    rw [hvs] at hnz
    have hv : v ≠ 0 := hnz v (List.mem_cons_self ..)
    rw [sameGo_zero_cons, sameGo_nz v hv]
    by_cases hall : vs.all (fun x => x == v) = true
    · rw [if_pos hall, any_of_allSame _ v vs hall]
      simp only [allSame, hall, Bool.not_true, Bool.false_or]
      by_cases hle : (i + 1) * interval ≤ fstore.length - 1
      · simp only [hle, ↓reduceIte, decide_true, Bool.true_and]
        by_cases hs : fstore[(i + 1) * interval]? = some v
        · simp [hs]
        · simp [hs]
      · simp [hle]
    · rw [if_neg hall]
      simp only [allSame]
      have : (vs.all fun x => x == v) = false := by simpa using hall
      simp [this]

theorem sanityLoop_find (interval : Nat) (fstore : List Hdr) (cp : List (Peer × List Hdr))
    (hz : noZeroCp cp = true) :
    ∀ is : List Nat, (∀ i ∈ is, valsAt i cp ≠ []) →
      sanityLoop interval fstore cp is = is.find? (disagreeAt interval fstore cp) := by
  intro is
  induction is with
  | nil => intro _; rfl
  | cons i r ih =>
    intro h
    rw [sanityLoop_cons interval fstore cp hz i r (h i (List.mem_cons_self ..)), List.find?_cons]
    cases hd : disagreeAt interval fstore cp i with
    | true => simp
    | false =>
      simp only [Bool.false_eq_true, ↓reduceIte]
      exact ih (fun j hj => h j (List.mem_cons_of_mem _ hj))

theorem lt_foldl_max (i : Nat) : ∀ (cp : List (Peer × List Hdr)) (m0 : Nat),
    i < cp.foldl (fun m pc => max m pc.2.length) m0 → i < m0 ∨ ∃ pc ∈ cp, i < pc.2.length := by
  intro cp
  induction cp with
  | nil => intro m0 h; left; simpa using h
  | cons pc r ih =>
    intro m0 h
    simp only [List.foldl_cons] at h
    rcases ih _ h with h1 | ⟨qc, hq, hl⟩
    · rcases (by omega : i < m0 ∨ i < pc.2.length) with h2 | h2
      · left; exact h2
      · right; exact ⟨pc, List.mem_cons_self .., h2⟩
    · right; exact ⟨qc, List.mem_cons_of_mem _ hq, hl⟩

theorem valsAt_ne_nil_of_lt (cp : List (Peer × List Hdr)) (i : Nat) (h : i < maxLen cp) : valsAt i cp ≠ [] := by
  rcases lt_foldl_max i cp 0 h with h0 | ⟨pc, hpc, hl⟩
  · exact absurd h0 (Nat.not_lt_zero _)
  · have hm : pc.2[i] ∈ valsAt i cp := by
      simp only [valsAt, List.mem_filterMap]
      exact ⟨pc, hpc, List.getElem?_eq_getElem hl⟩
    exact List.ne_nil_of_mem hm

/-- the model of `checkCFCheckptSanity` computes the specification, whatever the
lengths of the lists -/
theorem checkSanity_eq_spec (interval : Nat) (fstore : List Hdr) (cp : List (Peer × List Hdr))
    (hz : noZeroCp cp = true) : checkSanity interval fstore cp = sanitySpec interval fstore cp := by
  unfold checkSanity sanitySpec
  exact sanityLoop_find interval fstore cp hz _
    (fun i hi => valsAt_ne_nil_of_lt cp i (List.mem_range.mp hi))

/-- the first hit of `find?` over `range n` is the least index satisfying the predicate -/
theorem find_range_least (p : Nat → Bool) : ∀ n d, (List.range n).find? p = some d →
    p d = true ∧ d < n ∧ ∀ i, i < d → p i = false := by
  intro n
  induction n with
  | zero => intro d h; simp at h
  | succ n ih =>
    intro d h
    rw [List.range_succ, List.find?_append] at h
    cases hf : (List.range n).find? p with
    | some d' =>
      rw [hf] at h
      simp only [Option.some_or] at h
      have := Option.some.inj h
      subst this
      obtain ⟨a, b, c⟩ := ih d' hf
      exact ⟨a, by omega, c⟩
    | none =>
      rw [hf] at h
      simp only [Option.none_or, List.find?_cons, List.find?_nil] at h
      cases hp : p n with
      | false => rw [hp] at h; simp at h
      | true =>
        rw [hp] at h
        have := Option.some.inj h
        subst this
        refine ⟨hp, by omega, ?_⟩
        intro i hi
        have := List.find?_eq_none.mp hf i (List.mem_range.mpr hi)
        simpa using this

theorem find_range_none (p : Nat → Bool) (n : Nat) (h : (List.range n).find? p = none) :
    ∀ i, i < n → p i = false := by
  intro i hi
  have := List.find?_eq_none.mp h i (List.mem_range.mpr hi)
  simpa using this

/-- two lists that both reach index `i` and differ there make `i` a disagreement -/
theorem disagreeAt_of_differ (interval : Nat) (fstore : List Hdr) (cp : List (Peer × List Hdr)) (i : Nat)
    (pc qc : Peer × List Hdr) (hp : pc ∈ cp) (hq : qc ∈ cp) (x y : Hdr)
    (hx : pc.2[i]? = some x) (hy : qc.2[i]? = some y) (hxy : x ≠ y) :
    disagreeAt interval fstore cp i = true := by
  have mx : x ∈ valsAt i cp := by
    simp only [valsAt, List.mem_filterMap]; exact ⟨pc, hp, hx⟩
  have my : y ∈ valsAt i cp := by
    simp only [valsAt, List.mem_filterMap]; exact ⟨qc, hq, hy⟩
  unfold disagreeAt
  cases hvs : valsAt i cp with
  | nil => rw [hvs] at mx; exact absurd mx (List.not_mem_nil)
  | cons v vs =>
    rw [hvs] at mx my
    cases hall : vs.all (fun z => z == v) with
    | false => simp [allSame, hall]
    | true =>
      exfalso
      have hv : ∀ z ∈ v :: vs, z = v := by
        intro z hz
        rcases List.mem_cons.mp hz with h | h
        · exact h
        · have := List.all_eq_true.mp hall z h
          simpa using this
      exact hxy ((hv x mx).trans (hv y my).symm)

/-- a list that reaches index `i` and differs there from the stored filter header makes `i` a disagreement -/
theorem disagreeAt_of_store (interval : Nat) (fstore : List Hdr) (cp : List (Peer × List Hdr)) (i : Nat)
    (pc : Peer × List Hdr) (hp : pc ∈ cp) (x : Hdr) (hx : pc.2[i]? = some x)
    (hle : (i + 1) * interval ≤ fstore.length - 1) (hs : fstore[(i + 1) * interval]? ≠ some x) :
    disagreeAt interval fstore cp i = true := by
  have mx : x ∈ valsAt i cp := by
    simp only [valsAt, List.mem_filterMap]; exact ⟨pc, hp, hx⟩
  unfold disagreeAt
  have : (valsAt i cp).any (fun v => fstore[(i + 1) * interval]? != some v) = true := by
    rw [List.any_eq_true]
    exact ⟨x, mx, by simpa using hs⟩
  simp [this, hle]

end Neutrino.CFHeaders
