/-
The ring refines the abstract live list: for every well-formed sequence of reset / push
operations, `Back`, `Prev` and `Ancestor` on the ring answer exactly as the list
`specRun` does - never a stale slot.
-/
import Neutrino.Lemmas.HeaderListPush
namespace Neutrino.HL

/-- what a slot index denotes to the caller: the node stored there -/
def nodeOf (r : Ring) (i : Nat) : ANode := ⟨(r.slots i).id, (r.slots i).height⟩

/-- the ring represents the list `l` (newest first) -/
structure Abs (r : Ring) (l : List ANode) (t top : Nat) : Prop where
  inv : RInv r t top
  len : l.length = r.len
  nodes : ∀ k, k < r.len → l[k]? = some ⟨(r.slots (slotAt r.cap t k)).id, top - k⟩

theorem abs_reset (r : Ring) (hc : 0 < r.cap) (h i : Nat) : Abs (reset r h i) [⟨i, h⟩] 0 h := by
  have inv := reset_inv r hc h i
  have hl : (reset r h i).len = 1 := by simp [reset, push, pushRaw, build, upd]; omega
  have hs : ((reset r h i).slots 0).id = i := by simp [reset, push, pushRaw, build, upd]
  refine ⟨inv, by rw [hl]; rfl, ?_⟩
  intro k hk; rw [hl] at hk
  have : k = 0 := by omega
  subst this; simp [slotAt, hs]

theorem push_id_new {r : Ring} {t top : Nat} (inv : RInv r t top) (i : Nat) :
    ((push r (top + 1) i).slots (next r.cap t)).id = i := by
  obtain ⟨i1, i2⟩ := pushRaw_inv inv i
  have := (build_tail_slot (pushRaw r (top + 1) i) (next r.cap t) i1.tail).2.1
  simp only [push]; rw [this, i2]

theorem push_id_old {r : Ring} {t top : Nat} (inv : RInv r t top) (i k : Nat) (hk : k + 1 < min (r.len + 1) r.cap) :
    ((push r (top + 1) i).slots (slotAt r.cap t k)).id = (r.slots (slotAt r.cap t k)).id := by
  obtain ⟨i1, _⟩ := pushRaw_inv inv i
  obtain ⟨_, e2⟩ := pushRaw_old inv (top + 1) i k hk
  have hne : slotAt r.cap t k ≠ next r.cap t := by
    intro e; have := slotAt_eq_next inv.tcap (show k < r.cap by omega) e; omega
  simp only [push]
  rw [build_slots_ne _ _ _ i1.tail hne, e2]
  split <;> rfl

theorem abs_push {r : Ring} {l : List ANode} {t top : Nat} (a : Abs r l t top) (i : Nat) :
    Abs (push r (top + 1) i) ((⟨i, top + 1⟩ :: l).take r.cap) (next r.cap t) (top + 1) := by
  have inv' := push_preserves_RInv r t top i a.inv
  have hcap : (push r (top + 1) i).cap = r.cap := by simp only [push]; rw [(build_fields _).1]; rfl
  have hlen : (push r (top + 1) i).len = min (r.len + 1) r.cap := by simp only [push]; rw [(build_fields _).2.1]; rfl
  refine ⟨inv', by rw [hlen, List.length_take, List.length_cons, a.len, Nat.min_comm], ?_⟩
  intro k hk
  rw [hlen] at hk
  rw [hcap, List.getElem?_take]
  have hkc : k < r.cap := by omega
  simp only [hkc, ↓reduceIte]
  cases k with
  | zero => rw [slotAt_zero, push_id_new a.inv]; rfl
  | succ k =>
    rw [List.getElem?_cons_succ, slotAt_succ a.inv.tcap (by omega), push_id_old a.inv i k hk]
    rw [a.nodes k (by omega)]
    have : top + 1 - (k + 1) = top - k := by omega
    rw [this]

/-- well-formed operation sequences: the first operation is a reset, every push carries the next height -/
def WF : Option Nat → List Op → Prop
  | _, [] => True
  | _, .reset h _ :: os => WF (some h) os
  | none, .push _ _ :: _ => False
  | some top, .push h _ :: os => h = top + 1 ∧ WF (some h) os

theorem run_cap (r : Ring) (ops : List Op) : (run r ops).cap = r.cap := by
  induction ops generalizing r with
  | nil => rfl
  | cons o os ih =>
    simp only [run]; rw [ih]
    cases o with
    | reset h i => simp only [step, reset, push]; rw [(build_fields _).1]; rfl
    | push h i => simp only [step, push]; rw [(build_fields _).1]; rfl

theorem abs_run (cap : Nat) (hc : 0 < cap) : ∀ (ops : List Op) (r : Ring) (l : List ANode) (cur : Option Nat),
    r.cap = cap → WF cur ops → (∀ top, cur = some top → ∃ t, Abs r l t top) → ops ≠ [] ∨ cur ≠ none →
    ∃ t top, Abs (run r ops) (specRun cap l ops) t top := by
  intro ops
  induction ops with
  | nil =>
    intro r l cur _ _ habs hne
    cases cur with
    | none => rcases hne with h | h <;> exact absurd rfl h
    | some top => obtain ⟨t, a⟩ := habs top rfl; exact ⟨t, top, a⟩
  | cons o os ih =>
    intro r l cur hcap hwf habs _
    cases o with
    | reset h i =>
      simp only [run, step, specRun, specStep]
      have a := abs_reset r (by rw [hcap]; exact hc) h i
      have hc' : (reset r h i).cap = cap := by
        simp only [reset, push]; rw [(build_fields _).1]; exact hcap
      exact ih _ _ (some h) hc' hwf (fun top e => ⟨0, by cases e; exact a⟩) (Or.inr (by simp))
    | push h i =>
      cases cur with
      | none => exact absurd hwf (by simp [WF])
      | some top =>
        obtain ⟨hh, hwf'⟩ := hwf
        obtain ⟨t, a⟩ := habs top rfl
        subst hh
        simp only [run, step, specRun, specStep]
        have a' := abs_push a i
        rw [hcap] at a'
        have hc' : (push r (top + 1) i).cap = cap := by
          simp only [push]; rw [(build_fields _).1]; exact hcap
        exact ih _ _ (some (top + 1)) hc' hwf' (fun top' e => ⟨next cap t, by cases e; exact a'⟩) (Or.inr (by simp))

end Neutrino.HL

namespace Neutrino.HL

theorem abs_node {r : Ring} {l : List ANode} {t top : Nat} (a : Abs r l t top) (j : Nat) (hj : j < r.len) :
    l[j]? = some (nodeOf r (slotAt r.cap t j)) := by
  rw [a.nodes j hj, nodeOf, a.inv.hts j hj]

theorem nthPrev_live {r : Ring} {t top : Nat} (inv : RInv r t top) :
    ∀ (k j : Nat), j < r.len → nthPrev r k (some (slotAt r.cap t j)) =
      if j + k < r.len then some (slotAt r.cap t (j + k)) else none := by
  intro k
  induction k with
  | zero => intro j hj; simp [nthPrev, hj]
  | succ n ih =>
    intro j hj
    simp only [nthPrev, inv.prevs j hj]
    by_cases h1 : j + 1 < r.len
    · simp only [h1, ↓reduceIte]
      rw [ih (j + 1) h1]
      have : j + 1 + n = j + (n + 1) := by omega
      rw [this]
    · simp only [h1, ↓reduceIte]
      have : ¬ (j + (n + 1) < r.len) := by omega
      simp only [this, ↓reduceIte]
      cases n <;> rfl

/-- in a list whose heights descend by one from `H`, the first node of height `h` is at index `H - h` -/
theorem find_desc (h : Nat) : ∀ (l : List ANode) (H : Nat), l.length ≤ H + 1 →
    (∀ j, j < l.length → (l[j]?).map (·.height) = some (H - j)) →
    l.find? (fun n => n.height == h) = if h ≤ H ∧ H + 1 - l.length ≤ h then l[H - h]? else none := by
  intro l
  induction l with
  | nil => intro H _ _; simp
  | cons x xs ih =>
    intro H hlen hd
    have hx : x.height = H := by
      have := hd 0 (by simp); simpa using this
    simp only [List.find?_cons, hx]
    by_cases he : H = h
    · subst he; simp
    · have hne : (H == h) = false := by simp [he]
      simp only [hne]
      by_cases hxs : xs = []
      · subst hxs; simp; omega
      · have hpos : 0 < xs.length := List.length_pos_iff.mpr hxs
        have hH : 1 ≤ H := by simp at hlen; omega
        rw [ih (H - 1) (by simp at hlen; omega) (by
          intro j hj
          have := hd (j + 1) (by simp; omega)
          simp only [List.getElem?_cons_succ] at this
          rw [this]; congr 1; omega)]
        simp only [List.length_cons]
        by_cases hc : h ≤ H - 1 ∧ H - 1 + 1 - xs.length ≤ h
        · have hc' : h ≤ H ∧ H + 1 - (xs.length + 1) ≤ h := by omega
          rw [if_pos hc, if_pos hc']
          have : H - h = (H - 1 - h) + 1 := by omega
          rw [this, List.getElem?_cons_succ]
        · have hc' : ¬ (h ≤ H ∧ H + 1 - (xs.length + 1) ≤ h) := by omega
          rw [if_neg hc, if_neg hc']

/-- **Queries**: in a ring representing `l`, `Back`, `k`×`Prev` and `Ancestor(h)` from there answer as the list does. -/
theorem abs_queries {r : Ring} {l : List ANode} {t top : Nat} (a : Abs r l t top) (k h : Nat) :
    (r.tail.map (nodeOf r)) = l.head? ∧
    ((nthPrev r k r.tail).map (nodeOf r)) = l[k]? ∧
    ((ancestor r (nthPrev r k r.tail) h).map (nodeOf r)) = specAncestor l k h := by
  have inv := a.inv
  have hlp := inv.lenpos
  have hnth : nthPrev r k r.tail = if k < r.len then some (slotAt r.cap t k) else none := by
    rw [inv.tail]
    have := nthPrev_live inv k 0 hlp
    rw [slotAt_zero] at this
    simpa using this
  refine ⟨?_, ?_, ?_⟩
  · rw [inv.tail, List.head?_eq_getElem?, abs_node a 0 hlp, slotAt_zero]; rfl
  · rw [hnth]
    by_cases hk : k < r.len
    · simp only [hk, ↓reduceIte, Option.map_some]; rw [abs_node a k hk]
    · simp only [hk, ↓reduceIte, Option.map_none]
      rw [List.getElem?_eq_none (by rw [a.len]; omega)]
  · rw [hnth]
    by_cases hk : k < r.len
    · simp only [hk, ↓reduceIte]
      rw [ancestor_correct r t top inv k h hk]
      have hdrop : specAncestor l k h = if h ≤ top - k ∧ top - k + 1 - (l.drop k).length ≤ h then (l.drop k)[top - k - h]? else none := by
        simp only [specAncestor]
        apply find_desc h (l.drop k) (top - k)
        · rw [List.length_drop, a.len]; have := inv.lentop; omega
        · intro j hj
          rw [List.length_drop, a.len] at hj
          rw [List.getElem?_drop, a.nodes (k + j) (by omega)]
          simp only [Option.map_some]; congr 1; omega
      rw [hdrop, List.length_drop, a.len]
      have hlt := inv.lentop
      by_cases hc : h ≤ top - k ∧ top + 1 - r.len ≤ h
      · have hc' : h ≤ top - k ∧ top - k + 1 - (r.len - k) ≤ h := by omega
        rw [if_pos hc, if_pos hc', Option.map_some, List.getElem?_drop]
        have : k + (top - k - h) = top - h := by omega
        rw [this, abs_node a (top - h) (by omega)]
      · have hc' : ¬ (h ≤ top - k ∧ top - k + 1 - (r.len - k) ≤ h) := by omega
        rw [if_neg hc, if_neg hc']; rfl
    · simp only [hk, ↓reduceIte, ancestor, Option.map_none]
      simp only [specAncestor]
      rw [List.drop_of_length_le (by rw [a.len]; omega)]; rfl

end Neutrino.HL
